import TIV.C17.Model
import TIV.C17.Translated
/-!
# C17 — the hand-written model of `_ti_calc_trim` IS the translation of the current source

`TIV.C17.Translated.calc_trim` is regenerated on every run from the source of
`UrwidImageCanvas._ti_calc_trim`; this theorem fails to build as soon as that source computes
anything else than the model `TIV.C17.calcTrim` for some arguments.
-/
namespace TIV.C17

/-- TRANSLATION TIE: for all arguments (no domain restriction) -/
theorem calcTrim_eq_translated (size imageSize trimSide1 padSide1 trimSide2 padSide2 : Int) :
    calcTrim size imageSize trimSide1 padSide1 trimSide2 padSide2
      = Translated.calc_trim size imageSize trimSide1 padSide1 trimSide2 padSide2 := by
  unfold calcTrim Translated.calc_trim
  -- decide the model's four comparisons first, then whatever comparisons the source makes
  by_cases c1 : trimSide1 ≥ size - padSide2 <;> by_cases c2 : trimSide1 ≥ padSide1 <;>
    by_cases c3 : trimSide2 ≥ size - padSide1 <;> by_cases c4 : trimSide2 ≥ padSide2 <;>
    simp only [c1, c2, c3, c4, if_true, if_false] <;>
    (repeat' split) <;> (try simp only [Prod.mk.injEq]) <;> (try omega)

/-- non-vacuity: a trim inside the image on side 1 and inside the padding on side 2 -/
example : Translated.calc_trim 10 4 4 3 1 3 = (0, 1, 0, 2) := by decide

/-- TRANSLATION TIE: the split of the total padding by the alignment character, in both places
    `content()` does it (`v_align` against `"^"`/`"_"`, `h_align` against `"<"`/`">"`) -/
theorem padSplit_eq_translated (a : Align) (pad : Int) :
    padSplit a pad = Translated.pad_split_v (a == .first) (a == .last) pad ∧
    padSplit a pad = Translated.pad_split_h (a == .first) (a == .last) pad := by
  unfold padSplit Translated.pad_split_v Translated.pad_split_h
  cases a <;> simp [Int.fdiv_eq_ediv_of_nonneg]

example : Translated.pad_split_h false false 7 = (3, 4) := by decide
example : Translated.pad_split_v false true (-1) = (-1, 0) := by decide

end TIV.C17
