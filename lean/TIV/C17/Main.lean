import TIV.C17.Drive
import TIV.Common.DriverMain
def main : IO Unit := TIV.driverMain TIV.C17.handler
