import TIV.C17.Proofs3
import TIV.C17.Generated
import TIV.Common.TokBytes
/-!
# C17 — trimming an image canvas equals cropping what the full canvas shows.

Vocabulary (TIV/C17/Proofs.lean): a text image is rows of `Cell`s (optional SGR prefix + glyph);
`WFImage img w h` says it is `w × h`, every line starts with a prefix, prefixes are SGR sequences
and the prefix in force determines what a cell shows (`Determined`, the C02 fact — proved for the
block renderer in `blockLine_cells`); `cellCanvas img w h ha va W H` is the canvas `UrwidImage.render`
builds from it (`_format_render` + `UrwidImageCanvas.__init__`); `rowShows row` = what the cells of a
yielded row show when written from default attributes; `grid …` = the full picture (default-background
padding around the cells' own colours); `crop tl tt c r g` = the sub-rectangle; `NoBleed row`.
-/
set_option linter.unusedVariables false
namespace TIV.C17
open TIV

/-! ## `_ti_calc_trim` -/

/-- THE FOUR NUMBERS DESCRIBE THE CUT EXACTLY. For a side of `pad1 + img + pad2` cells trimmed by
    `t1` and `t2` (something stays visible): each number is the size of the corresponding piece of the
    window `[t1, size − t2)`, all are in range, and padding + visible image + padding = size − trims. -/
theorem calcTrim_partition (pad1 img pad2 t1 t2 : Int) (h1 : 0 ≤ pad1) (h2 : 0 ≤ pad2) (hi : 0 ≤ img)
    (ht1 : 0 ≤ t1) (ht2 : 0 ≤ t2) (hv : t1 + t2 < pad1 + img + pad2) :
    ∃ np1 ti1 ti2 np2 : Int, calcTrim (pad1 + img + pad2) img t1 pad1 t2 pad2 = (np1, ti1, ti2, np2) ∧
      np1 = max 0 (min pad1 (pad1 + img + pad2 - t2) - t1) ∧ ti1 = min img (max 0 (t1 - pad1)) ∧
      ti2 = min img (max 0 (t2 - pad2)) ∧ np2 = max 0 (min pad2 (pad1 + img + pad2 - t1) - t2) ∧
      0 ≤ np1 ∧ 0 ≤ ti1 ∧ ti1 ≤ img ∧ 0 ≤ ti2 ∧ ti2 ≤ img ∧ 0 ≤ np2 ∧
      np1 + max 0 (img - ti1 - ti2) + np2 = pad1 + img + pad2 - t1 - t2 ∧
      (ti1 < img → ti2 < img → ti1 + ti2 < img) := by
  refine ⟨_, _, _, _, calcTrim_closed pad1 img pad2 t1 t2 h1 h2 hi ht1 ht2 hv, rfl, rfl, rfl, rfl, ?_⟩
  omega

/-- the same on lists: the window of `pad1 × a ++ B ++ pad2 × c` is new padding, `B[ti1 : -ti2 or None]`
    (nothing when the image is trimmed away), new padding — for every element type (cells and lines) -/
theorem calcTrim_cut {α} (a c : α) (B : List α) (p1 p2 t1 v : Nat) (hv : 0 < v) (hfit : t1 + v ≤ p1 + B.length + p2) :
    let S : Int := p1 + B.length + p2
    let r := calcTrim S B.length t1 p1 (S - t1 - v) p2
    ((List.replicate p1 a ++ B ++ List.replicate p2 c).drop t1).take v =
      List.replicate r.1.toNat a ++
      (if (B.length : Int) = r.2.1 ∨ (B.length : Int) = r.2.2.1 then [] else pySlice B r.2.1 (orNone (-r.2.2.1))) ++
      List.replicate r.2.2.2.toNat c := by
  intro S r
  exact axis a c B p1 p2 t1 v S B.length t1 p1 (S - t1 - v) p2 hv hfit rfl rfl rfl rfl rfl rfl

example : calcTrim 9 3 4 2 3 4 = (0, 2, 0, 1) := by decide

/-! ## text images -/

/-- CROP (text images). For every well-formed `w × h` image in every `W × H` widget, alignment and
    in-range request `(tl, tt, c, r)` — also with `cols`/`rows` left to their defaults (`0`) —
    `content` succeeds and what its rows show is, cell for cell, the requested sub-rectangle of what the
    untrimmed `content()` shows, padding included; and the untrimmed canvas shows `grid`. -/
theorem content_crop (img : List (List Cell)) (w h : Nat) (ha va : Align) (W H : Nat)
    (hI : WFImage img w h) (hw : w ≤ W) (hh : h ≤ H)
    (tl tt c r : Nat) (hc : 0 < c) (hr : 0 < r) (hfc : tl + c ≤ W) (hfr : tt + r ≤ H)
    (cI rI : Int) (hcI : pyOr cI W = c) (hrI : pyOr rI H = r) :
    ∃ out full, textContent (cellCanvas img w h ha va W H) tl tt cI rI = .ok out ∧
      textContent (cellCanvas img w h ha va W H) 0 0 0 0 = .ok full ∧
      full.map rowShows = grid img w h ha va W H ∧
      out.map rowShows = crop tl tt c r (full.map rowShows) := by
  obtain ⟨out, h1, h2, _⟩ := textContent_spec img w h ha va W H hI hw hh tl tt c r hc hr hfc hfr cI rI hcI hrI
  have hWpos : 0 < W := by have := hI.wpos; omega
  have hHpos : 0 < H := by have := hI.hpos; omega
  obtain ⟨full, f1, f2, _⟩ := textContent_spec img w h ha va W H hI hw hh 0 0 W H hWpos hHpos (by omega) (by omega)
    0 0 (by simp [pyOr]) (by simp [pyOr])
  have hg : full.map rowShows = grid img w h ha va W H := by
    rw [f2, crop_full _ W H (grid_length img w h ha va W H hI hh) (grid_row_length img w h ha va W H hI hw)]
  exact ⟨out, full, h1, f1, hg, by rw [hg]; exact h2⟩

/-- non-vacuity of `WFImage`: a 2×1 image, one background-coloured run of two blank cells -/
example : WFImage [[⟨[Tok.bg (1, 2, 3)], .blank⟩, ⟨[], .blank⟩]] 2 1 := by
  refine ⟨rfl, by simp, ?_, by omega, by omega⟩
  intro cells hc
  simp only [List.mem_singleton] at hc
  subst hc
  have hd : Determined [Tok.bg (1, 2, 3)] Glyph.blank := by
    intro p; simp [showsPen, sh, penAfter, Pen.step, Block.shows]
  exact ⟨by simp [isSgr], by simp [nextCur], by simpa [nextCur] using hd, by simp,
    by simp, by simp [nextCur], by simpa [nextCur] using hd, by simp, trivial⟩

/-- ROWS AND COLUMNS. `content` yields exactly `r` rows and every row prints exactly `c` character
    cells (whatever attributes are in force when it is written). -/
theorem content_rows_cols (img : List (List Cell)) (w h : Nat) (ha va : Align) (W H : Nat)
    (hI : WFImage img w h) (hw : w ≤ W) (hh : h ≤ H)
    (tl tt c r : Nat) (hc : 0 < c) (hr : 0 < r) (hfc : tl + c ≤ W) (hfr : tt + r ≤ H)
    (cI rI : Int) (hcI : pyOr cI W = c) (hrI : pyOr rI H = r) :
    ∃ out, textContent (cellCanvas img w h ha va W H) tl tt cI rI = .ok out ∧ out.length = r ∧
      ∀ row ∈ out, ∀ p : Pen, (cellsOf p row.flatten).length = c := by
  obtain ⟨out, h1, h2, _⟩ := textContent_spec img w h ha va W H hI hw hh tl tt c r hc hr hfc hfr cI rI hcI hrI
  refine ⟨out, h1, ?_, ?_⟩
  · have := congrArg List.length h2
    simp only [List.length_map, crop, List.length_take, List.length_drop, grid_length img w h ha va W H hI hh] at this
    omega
  · intro row hrow p
    have hmem : rowShows row ∈ out.map rowShows := List.mem_map_of_mem hrow
    rw [h2] at hmem
    unfold crop at hmem
    obtain ⟨grow, hg, he⟩ := List.mem_map.mp hmem
    have hlen := grid_row_length img w h ha va W H hI hw grow (List.mem_of_mem_drop (List.mem_of_mem_take hg))
    have := congrArg List.length he
    simp only [List.length_take, List.length_drop, hlen, rowShows, List.length_map] at this
    rw [cellsOf_length_pen p ⟨none, none⟩]
    omega

/-- NO BLEED. Every yielded row is `img ++ pad`: `pad` holds only blanks (and the NUL workaround) and
    `img` either holds only blanks too (no attribute touched) or leaves default attributes — whatever
    attributes were in force before. Colours never reach the cells right of the image's last kept cell. -/
theorem no_bleed (img : List (List Cell)) (w h : Nat) (ha va : Align) (W H : Nat)
    (hI : WFImage img w h) (hw : w ≤ W) (hh : h ≤ H)
    (tl tt c r : Nat) (hc : 0 < c) (hr : 0 < r) (hfc : tl + c ≤ W) (hfr : tt + r ≤ H)
    (cI rI : Int) (hcI : pyOr cI W = c) (hrI : pyOr rI H = r) :
    ∃ out, textContent (cellCanvas img w h ha va W H) tl tt cI rI = .ok out ∧ ∀ row ∈ out, NoBleed row := by
  obtain ⟨out, h1, _, h3⟩ := textContent_spec img w h ha va W H hI hw hh tl tt c r hc hr hfc hfr cI rI hcI hrI
  exact ⟨out, h1, h3⟩

/-- what `NoBleed` gives on the terminal side: after the row, attributes are default or untouched -/
theorem noBleed_pen (row : Row) (h : NoBleed row) (p : Pen) :
    penAfter p row.flatten = ⟨none, none⟩ ∨ penAfter p row.flatten = p := by
  obtain ⟨img, pad, he, hpad, himg⟩ := h
  have hp : ∀ (q : Pen) (l : List Tok), (∀ t ∈ l, t = Tok.glyph .blank ∨ t = Tok.nul) → penAfter q l = q := by
    intro q l hl
    induction l generalizing q with
    | nil => rfl
    | cons t ts ih =>
      have := hl t (by simp)
      rcases this with e | e <;> subst e <;> simp only [penAfter, Pen.step] <;>
        exact ih _ (fun t' ht' => hl t' (by simp [ht']))
  rw [he, penAfter_append, hp _ pad hpad]
  rcases himg with h1 | h1
  · right; exact hp p img (fun t ht => Or.inl (h1 t ht))
  · left; exact h1 p

/-! ## the block renderer's lines are such images -/

/-- CROP for the block style: for every pixel grid, alpha class, terminal background and kitty
    workaround, the widget canvas of a split-cells block render, trimmed to any in-range rectangle,
    shows exactly the corresponding rectangle of the image's `want` colours with its padding; with the
    row/column counts and no bleeding. -/
theorem block_content_crop (cfg : Block.Cfg) (hsplit : cfg.split = true) (px : List (List Block.PP)) (w h : Nat)
    (ha va : Align) (W H : Nat) (hw0 : 0 < w) (hh0 : 0 < h) (hrows : px.length = h) (hpx : ∀ row ∈ px, row.length = w)
    (hw : w ≤ W) (hh : h ≤ H)
    (tl tt c r : Nat) (hc : 0 < c) (hr : 0 < r) (hfc : tl + c ≤ W) (hfr : tt + r ≤ H)
    (cI rI : Int) (hcI : pyOr cI W = c) (hrI : pyOr rI H = r) :
    ∃ out, textContent (mkCanvas (Block.renderLines cfg px) w h ha va W H) tl tt cI rI = .ok out ∧
      out.map rowShows = crop tl tt c r (wantGrid cfg px w h ha va W H) ∧
      out.length = r ∧ (∀ row ∈ out, ∀ p : Pen, (cellsOf p row.flatten).length = c) ∧ ∀ row ∈ out, NoBleed row := by
  obtain ⟨img, h1, h2, h3, h4, h5⟩ := block_img cfg hsplit px w hw0 hpx
  have hI : WFImage img w h := ⟨by omega, h3, h4, hw0, hh0⟩
  have hcv : mkCanvas (Block.renderLines cfg px) w h ha va W H = cellCanvas img w h ha va W H := by
    unfold cellCanvas; rw [h1]
  have hg : grid img w h ha va W H = wantGrid cfg px w h ha va W H := by
    unfold grid wantGrid
    congr 2
    have : img.map (fun cells => List.replicate (padSplitN ha (W - w)).1 NN ++ intr [] cells ++ List.replicate (padSplitN ha (W - w)).2 NN)
        = (img.map (intr [])).map (fun s => List.replicate (padSplitN ha (W - w)).1 NN ++ s ++ List.replicate (padSplitN ha (W - w)).2 NN) := by
      rw [List.map_map]; rfl
    rw [this, h5, List.map_map]; rfl
  rw [hcv, ← hg]
  obtain ⟨out, o1, o2, o3⟩ := textContent_spec img w h ha va W H hI hw hh tl tt c r hc hr hfc hfr cI rI hcI hrI
  obtain ⟨out', p1, p2, p3⟩ := content_rows_cols img w h ha va W H hI hw hh tl tt c r hc hr hfc hfr cI rI hcI hrI
  have : out' = out := by rw [o1] at p1; exact (Except.ok.inj p1).symm
  subst this
  exact ⟨out', o1, o2, p2, p3, o3⟩

/-- non-vacuity: a 2×1 block image (a red run cut in the middle, then a half-transparent cell) centred in a
    4×3 widget; the request starts inside the red run, so `first_color` is needed -/
example :
    let cfg : Block.Cfg := ⟨true, false, none, true⟩
    let px : List (List Block.PP) := [[⟨(255, 0, 0), (255, 0, 0), 255, 255⟩, ⟨(255, 0, 0), (255, 0, 0), 255, 255⟩, ⟨(0, 0, 9), (0, 255, 0), 0, 255⟩]]
    (textContent (mkCanvas (Block.renderLines cfg px) 3 1 .mid .mid 5 3) 2 1 2 1).map (·.map rowShows)
      = .ok [[(some (255, 0, 0), some (255, 0, 0)), (none, some (0, 255, 0))]] := by
  rfl

/-! ## the canvas is an immutable value -/

/-- CONTENT IS PURE. What `content` yields depends only on the canvas value (its size, the image size it was
    rendered with, its lines) and on the widget's two alignments, which are fixed at construction — not on the
    size the widget's image has when `content` is called. Rendering the same widget (or another widget sharing
    the image) at another size, or resizing the image, between `render` and `content` changes nothing: same
    canvas value ⇒ same rows, for every request. -/
theorem content_pure (ws ws' : WidgetState) (cv : CanvasVal) (hh : ws.hAlign = ws'.hAlign) (hv : ws.vAlign = ws'.vAlign)
    (tl tt c r : Int) : contentAt ws cv tl tt c r = contentAt ws' cv tl tt c r := by
  unfold contentAt; rw [hh, hv]

/-- … hence every crop theorem above holds at any later time: `contentAt` of the canvas built from an image is
    `textContent` of `cellCanvas`, whatever the image's size has become -/
theorem content_pure_crop (img : List (List Cell)) (w h : Nat) (ha va : Align) (W H : Nat) (later : Int × Int)
    (tl tt c r : Int) :
    contentAt ⟨ha, va, later⟩
      ⟨W, H, w, h, (cellCanvas img w h ha va W H).lines⟩ tl tt c r =
    textContent (cellCanvas img w h ha va W H) tl tt c r := by
  rfl

example : contentAt ⟨.mid, .mid, (1, 1)⟩ ⟨2, 1, 1, 1, [[Tok.bg (1, 2, 3), Tok.glyph .blank, Tok.sgr0, Tok.glyph .blank, Tok.nul, Tok.nul]]⟩ 0 0 1 1
    = contentAt ⟨.mid, .mid, (7, 9)⟩ ⟨2, 1, 1, 1, [[Tok.bg (1, 2, 3), Tok.glyph .blank, Tok.sgr0, Tok.glyph .blank, Tok.nul, Tok.nul]]⟩ 0 0 1 1 :=
  content_pure _ _ _ rfl rfl _ _ _ _

/-- INTERLEAVING-INDEPENDENCE. `content` is a generator; urwid may pull rows of several requests on one canvas
    alternately, so row `i` of a request is produced in whatever state the widget/canvas is in at that moment. In
    the model that state is an argument: the `i`-th row of a request computed in ANY widget state (same alignments)
    — in particular after any number of rows of other requests were pulled — is the `i`-th row of the request
    answered alone. The model has no per-canvas scratch state for `content` to share between requests (the code
    has none either); the harness ties this by pulling 2–3 `content()` generators of one canvas alternately. -/
theorem content_row_pure (ws ws' : WidgetState) (cv : CanvasVal) (hh : ws.hAlign = ws'.hAlign) (hv : ws.vAlign = ws'.vAlign)
    (tl tt c r : Int) (i : Nat) :
    (contentAt ws cv tl tt c r).map (·[i]?) = (contentAt ws' cv tl tt c r).map (·[i]?) := by
  rw [content_pure ws ws' cv hh hv]

/-! ## graphics-based images -/

/-- VERTICAL trimming selects exactly the corresponding lines (each with the same disguise) -/
theorem graphics_vertical {L} (lines : List L) (W H tt r : Nat) (hlen : lines.length = H) (hr : 0 < r) (hfr : tt + r ≤ H)
    (cI rI : Int) (hcI : pyOr cI W = W) (hrI : pyOr rI H = r) (d : Nat) :
    gfxContent lines W H 0 tt cI rI d = ((lines.drop tt).take r).map fun l => GRow.line l d := by
  unfold gfxContent
  simp only [hcI, hrI]
  have hcond : ¬ ((0 : Int) ≠ 0 ∨ (W : Int) - 0 - (W : Int) ≠ 0) := by omega
  rw [if_neg hcond]
  have hb : (H : Int) - (tt : Int) - (r : Int) = ((H - tt - r : Nat) : Int) := by omega
  have h0 : (tt : Int) = ((tt : Nat) : Int) := rfl
  rw [hb, pySlice_orNone, hlen, List.drop_take]
  congr 2
  omega

/-- HORIZONTAL trimming yields `r` rows of `c` blank cells -/
theorem graphics_horizontal_blank {L} (lines : List L) (W H tl tt c r : Nat) (hc : 0 < c) (hr : 0 < r)
    (hfc : tl + c ≤ W) (htrim : tl ≠ 0 ∨ tl + c ≠ W) (d : Nat) :
    gfxContent lines W H tl tt c r d = List.replicate r (GRow.blank (c : Int)) := by
  unfold gfxContent
  rw [pyOr_pos _ _ (by omega), pyOr_pos _ _ (by omega)]
  have hcond : ((tl : Int) ≠ 0 ∨ (W : Int) - (tl : Int) - (c : Int) ≠ 0) := by omega
  rw [if_pos hcond]
  simp

/-- ROW SELECTION IS INDEPENDENT OF THE DISGUISE STATE. For every disguise count `d` (canvas-class state + widget
    state, times "kitty or iterm2-on-konsole"): a vertically trimmed request yields exactly `r` rows, and they are the
    rows of the undisguised answer with the suffix of state `d` appended to each SELECTED line — the disguise never
    changes which or how many lines are yielded. -/
theorem graphics_rows_any_disguise {L} (lines : List L) (W H tt r : Nat) (hlen : lines.length = H) (hr : 0 < r)
    (hfr : tt + r ≤ H) (cI rI : Int) (hcI : pyOr cI W = W) (hrI : pyOr rI H = r) (d : Nat) :
    (gfxContent lines W H 0 tt cI rI d).length = r ∧
    gfxContent lines W H 0 tt cI rI d = (gfxContent lines W H 0 tt cI rI 0).map (GRow.setDisguise d) := by
  rw [graphics_vertical lines W H tt r hlen hr hfr cI rI hcI hrI d, graphics_vertical lines W H tt r hlen hr hfr cI rI hcI hrI 0]
  refine ⟨by simp; omega, ?_⟩
  rw [List.map_map]
  rfl

example : gfxContent ["a", "b", "c"] 4 3 0 1 0 2 (disguiseCount 2 1 true false false)
    = [GRow.line "b" 3, GRow.line "c" 3] := by decide

example : gfxContent ["a", "b", "c"] 4 3 0 1 0 2 1 = [GRow.line "b" 1, GRow.line "c" 1] := by decide

/-! ## sizing -/

/-- ROWS AGREE. For every `_valid_size`, upscale flag and width: the number of rows a flow widget
    announces is the number of rows of the canvas it renders, which is the image's own height; the
    canvas built for it has exactly that many lines.
    `vs` is ONE function: both `rows()` and `render()` evaluate `_valid_size` in the *same, current*
    environment (cell ratio, cell size, terminal size at the time of the call) — neither side may use a
    value remembered from an earlier environment (e.g. from widget creation). The model has no widget
    state for sizes, which is how the code is; the harness ties this by creating the widget under one
    environment and calling `rows`/`render` under another (`envchange-*` cases), passing the model the
    `_valid_size` values of the environment in force at the call. -/
theorem rows_agree_sizes (vs : SizeReq → Int × Int) (fit : Bool) (c : Int) :
    widgetRows vs fit c = (flowSizes vs fit c).1.2 ∧ (flowSizes vs fit c).1.2 = (flowSizes vs fit c).2.2 ∧
      (flowSizes vs fit c).1.1 = c := by
  unfold widgetRows flowSizes
  cases fit <;> simp <;> split <;> simp

/-- ROWS AGREE, BOTH BRANCHES OF `render`. For every `_valid_size`, upscale flag and width of a FLOW widget,
    whether or not rendering the image fails and whether or not an error placeholder is set: `render`
    either returns the image canvas, `c` columns × `rows((c,))` rows, or — on failure with a placeholder —
    renders the placeholder *as a box of exactly `(c, rows((c,)))`* (never with the 1-element flow size), or
    re-raises, which happens only when rendering failed and no placeholder is set.
    (That a widget rendered as a box of `(c, r)` returns a `c × r` canvas is urwid's contract for box
    widgets — a parameter here, checked on real placeholders by the harness.) -/
theorem rows_agree (vs : SizeReq → Int × Int) (fit : Bool) (c : Int) (fails ph : Bool) :
    match widgetRender vs fit (.flow c) fails ph with
    | .image cols rows _ imgRows => fails = false ∧ cols = c ∧ rows = widgetRows vs fit c ∧ imgRows = rows
    | .placeholder size => fails = true ∧ ph = true ∧ size = [c, widgetRows vs fit c]
    | .raised => fails = true ∧ ph = false := by
  obtain ⟨h1, h2, h3⟩ := rows_agree_sizes vs fit c
  unfold widgetRender
  cases fails <;> cases ph <;> simp [h1, h2, h3]

/-- the same for a BOX widget: image canvas or placeholder get exactly the given `(c, r)` -/
theorem render_box (vs : SizeReq → Int × Int) (fit : Bool) (c r : Int) (fails ph : Bool) :
    match widgetRender vs fit (.box c r) fails ph with
    | .image cols rows _ _ => fails = false ∧ cols = c ∧ rows = r
    | .placeholder size => fails = true ∧ ph = true ∧ size = [c, r]
    | .raised => fails = true ∧ ph = false := by
  unfold widgetRender boxSizes
  cases fails <;> cases ph <;> simp

example : widgetRender (fun | .width _ => (12, 6) | _ => (30, 15)) false (.flow 12) true true = .placeholder [12, 6] := by
  decide

/-- the canvas of a flow render (`height = image height`) has one line per image line -/
theorem flow_canvas_lines (render : List (List Tok)) (w h : Int) (ha va : Align) (W : Int) (hlen : (render.length : Int) = h) :
    (mkCanvas render w h ha va W h).lines.length = render.length := by
  unfold mkCanvas canvasLines formatRender
  have : ¬ (h > h) := by omega
  simp only [this, if_false, List.length_map]
  split <;> simp

/-- …and the untrimmed `content()` of a text canvas yields one row per canvas line (any canvas) -/
theorem content_full_rows (cv : Canvas) : ∃ out, textContent cv 0 0 0 0 = .ok out ∧ out.length = cv.lines.length := by
  unfold textContent
  have h1 : pyOr 0 cv.cols = cv.cols := by simp [pyOr]
  have h2 : pyOr 0 cv.rows = cv.rows := by simp [pyOr]
  have hcond : (True ∧ (0 : Int) = cv.cols - 0 - cv.cols) := ⟨trivial, by omega⟩
  simp only [h1, h2]
  rw [if_pos hcond]
  refine ⟨_, rfl, ?_⟩
  have : cv.rows - 0 - cv.rows = 0 := by omega
  simp [this, pySlice, orNone, pyIdx]

/-! ## constants of the code (translator) -/

theorem color_reset_bytes : toksStr [Tok.sgr0] = Generated.SGR_DEFAULT_b := by decide
theorem workaround_bytes : toksStr [Tok.nul, Tok.nul] = Generated.lastRowWorkaround := by decide
theorem esc_prefix : (Tok.sgr0.str.toList.head? = Generated.ESC_b.toList.head?) ∧
    (∀ c : RGB, (Tok.fg c).str.toList.head? = Generated.ESC_b.toList.head?) ∧
    (∀ c : RGB, (Tok.bg c).str.toList.head? = Generated.ESC_b.toList.head?) := by
  refine ⟨by decide, ?_, ?_⟩ <;> intro ⟨r, g, b⟩ <;> simp [Tok.str, fill, GenCtl.SGR_FG_DIRECT, GenCtl.SGR_BG_DIRECT, Generated.ESC_b]
/-- the alignment characters mean what `padSplit` assumes (probed on a 1×1 image in a 3×3 widget) -/
theorem align_probe :
    Generated.alignProbeH = [("<", (padSplit .first 2).1), ("|", (padSplit .mid 2).1), (">", (padSplit .last 2).1)] ∧
    Generated.alignProbeV = [("^", (padSplit .first 2).1), ("-", (padSplit .mid 2).1), ("_", (padSplit .last 2).1)] := by
  decide

end TIV.C17
