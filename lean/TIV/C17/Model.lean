import TIV.Common.Tok
/-!
# C17 model — `UrwidImageCanvas.content`, `_ti_calc_trim`, `UrwidImageCanvas.__init__`,
`BaseImage._format_render`, `UrwidImage.render` / `rows` sizing
(src/term_image/widget/_urwid.py, src/term_image/image/common.py:1361-1410)

A canvas line is a list of text tokens (`Tok.glyph`, `Tok.nul`, `Tok.sgr0`, `Tok.fg`, `Tok.bg`) exactly as the
strict tokenizer reads the bytes of `_ti_lines`. The byte operations of the code are modelled on tokens:
slicing by byte offsets inside the padding (`line[pad_left:-pad_right]`, every padding byte is one
one-byte token), `split(b"\0")`, `startswith(ESC_b)`, `cell[: cell.rindex(b"m") + 1]`,
`replace(b"\0", b"")`. All dimension arithmetic is Python `int` arithmetic (`Int`), slices follow Python's
slice semantics for any `Int` (negative = from the end, clamped); `IndexError` / `ValueError` are error values.
-/
namespace TIV.C17
open TIV

/-! ## Python primitives -/

/-- clamp a slice bound the way `PySlice_AdjustIndices` does for a positive step -/
def pyIdx (len : Nat) (i : Int) : Nat :=
  if i < 0 then ((len : Int) + i).toNat else min i.toNat len

/-- `l[start:stop]` (`stop = none` is `None`) -/
def pySlice {α} (l : List α) (start : Int) (stop : Option Int) : List α :=
  let a := pyIdx l.length start
  let b := match stop with
    | none => l.length
    | some s => pyIdx l.length s
  (l.take b).drop a

/-- `x or None` -/
def orNone (x : Int) : Option Int := if x = 0 then none else some x

/-- `a or b` for ints -/
def pyOr (a b : Int) : Int := if a = 0 then b else a

/-- `l[i::-1]` -/
def pyRevFrom {α} (l : List α) (i : Int) : List α :=
  let s : Int := if i < 0 then (l.length : Int) + i else min i ((l.length : Int) - 1)
  if s < 0 then [] else (l.take (s.toNat + 1)).reverse

/-- `l[i]` (`none` = `IndexError`) -/
def pyGet {α} (l : List α) (i : Int) : Option α :=
  let j : Int := if i < 0 then (l.length : Int) + i else i
  if j < 0 then none else l[j.toNat]?

/-- `b" " * n` -/
def blanks (n : Int) : List Tok := List.replicate n.toNat (Tok.glyph .blank)

/-! ## `_ti_calc_trim` (literal) -/

def calcTrim (size imageSize trimSide1 padSide1 trimSide2 padSide2 : Int) : Int × Int × Int × Int :=
  let imageEnd := size - padSide2
  -- first `if`
  let (newPadSide1, trimImageSide1, newPadSide2) :=
    if trimSide1 ≥ imageEnd then (0, imageSize, size - trimSide1)            -- within side2 padding
    else if trimSide1 ≥ padSide1 then (0, trimSide1 - padSide1, padSide2)     -- within the image
    else (padSide1 - trimSide1, 0, padSide2)                                  -- within side1 padding
  let imageEnd := size - padSide1
  -- second `if`
  if trimSide2 ≥ imageEnd then                                                -- within side1 padding
    (newPadSide1 - (trimSide2 - imageEnd), trimImageSide1, imageSize, 0)
  else if trimSide2 ≥ padSide2 then                                           -- within the image
    (newPadSide1, trimImageSide1, trimSide2 - padSide2, 0)
  else                                                                        -- within side2 padding
    (newPadSide1, trimImageSide1, 0, newPadSide2 - trimSide2)

/-! ## alignment -/

/-- how the code reads an alignment character: `== first` (`"<"` / `"^"`), `== last` (`">"` / `"_"`),
    anything else (`"|"`, `"-"`, `None`) is centre/middle -/
inductive Align
  | first | last | mid
deriving DecidableEq, Repr

/-- `(pad_side1, pad_side2)` from the total padding -/
def padSplit (a : Align) (pad : Int) : Int × Int :=
  match a with
  | .first => (0, pad)
  | .last => (pad, 0)
  | .mid => (pad / 2, pad - pad / 2)

/-! ## the canvas -/

structure Canvas where
  cols : Int                -- `size[0]`
  rows : Int                -- `size[1]`
  imgCols : Int             -- `_ti_image_size[0]`
  imgRows : Int             -- `_ti_image_size[1]`
  lines : List (List Tok)   -- `_ti_lines`
  hAlign : Align            -- `widget._ti_h_align`
  vAlign : Align            -- `widget._ti_v_align`
deriving Repr

inductive Err
  | indexError | valueError
deriving DecidableEq, Repr

/-- one `(None, "U", bytes)` triple -/
abbrev Seg := List Tok
/-- one yielded row -/
abbrev Row := List Seg

/-! ## byte-level helpers on tokens -/

/-- the token's bytes start with ESC -/
def tokEsc : Tok → Bool
  | .glyph _ | .nul | .lf | .cr => false
  | _ => true

/-- `cell.startswith(ESC_b)` -/
def startsEsc : List Tok → Bool
  | [] => false
  | t :: _ => tokEsc t

/-- the token's bytes contain `m` (then it is their last byte): the SGR sequences, and a literal `m` -/
def tokM : Tok → Bool
  | .sgr0 | .fg _ | .bg _ => true
  | .glyph (.ch c) => c == 'm'
  | _ => false

/-- `cell[: cell.rindex(b"m") + 1]` (`none` = `ValueError`) -/
def throughLastM (cell : List Tok) : Option (List Tok) :=
  match cell.reverse.dropWhile (fun t => !tokM t) with
  | [] => none
  | r => some r.reverse

/-- `line.split(b"\0")` -/
def splitNul : List Tok → List (List Tok)
  | [] => [[]]
  | t :: ts =>
    if t = Tok.nul then [] :: splitNul ts
    else match splitNul ts with
      | c :: cs => (t :: c) :: cs
      | [] => [[t]]

/-- `line.replace(b"\0", b"")` -/
def dropNul (l : List Tok) : List Tok := l.filter (fun t => t ≠ Tok.nul)

/-- the `first_color` recovery: `()` or a 1-tuple -/
def firstColor (cells : List (List Tok)) (trimImageLeft : Int) : Except Err (List Seg) :=
  match pyGet cells trimImageLeft with
  | none => .error .indexError
  | some c =>
    if startsEsc c then .ok []
    else
      match (pyRevFrom cells (trimImageLeft - 1)).find? startsEsc with
      | none => .ok []
      | some cell =>
        match throughLastM cell with
        | none => .error .valueError
        | some p => .ok [p]

/-- the body of `for line in image_lines` up to `image_line = (...)`: the `image_line` tuple -/
def imageLine (line : List Tok) (padLeft padRight : Int) (isFull isPartial : Bool)
    (trimImageLeft trimImageRight : Int) : Except Err (List Seg) :=
  if isFull then
    .ok [dropNul (pySlice line padLeft (some (-padRight)))]
  else if isPartial then do
    let cells := splitNul (pySlice line padLeft (some (-padRight)))
    let image := (pySlice cells trimImageLeft (orNone (-trimImageRight))).flatten
    let fc ← firstColor cells trimImageLeft
    pure (fc ++ [image])
  else .ok []

/-- a 1-tuple holding `b" " * n` if `n` else `()` -/
def padSeg (n : Int) : List Seg := if n = 0 then [] else [blanks n]

/-- one iteration of `for line in image_lines:` — the yielded row. The horizontal numbers
    (`if not image_is_empty:` block) depend only on the canvas and the horizontal trim. -/
def imageRow (cv : Canvas) (trimLeft trimRight : Int) (line : List Tok) : Except Err Row :=
  let pads := padSplit cv.hAlign (cv.cols - cv.imgCols)                  -- (pad_left, pad_right)
  let ct := calcTrim cv.cols cv.imgCols trimLeft pads.1 trimRight pads.2
  let newPadLeft := ct.1
  let trimImageLeft := ct.2.1
  let trimImageRight := ct.2.2.1
  let newPadRight := ct.2.2.2
  let lineIsFull : Bool := trimImageLeft = 0 ∧ 0 = trimImageRight
  let lineIsPartial : Bool := trimImageLeft ≠ cv.imgCols ∧ cv.imgCols ≠ trimImageRight
  let padRight2 := pads.2 + 2                                            -- `pad_right += 2`
  let leftPadding := padSeg newPadLeft
  let rightPadding := padSeg newPadRight
  let colorReset : List Seg := if cv.imgCols > trimImageRight ∧ trimImageRight > 0 then [[Tok.sgr0]] else []
  let lastRowWorkaround : List Seg := [[Tok.nul, Tok.nul]]
  do
    let il ← imageLine line pads.1 padRight2 lineIsFull lineIsPartial trimImageLeft trimImageRight
    pure (leftPadding ++ il ++ colorReset ++ rightPadding ++ lastRowWorkaround)

/-- `UrwidImageCanvas.content` for a canvas of a text image rendered by `UrwidImage` -/
def textContent (cv : Canvas) (trimLeft trimTop cols rows : Int) : Except Err (List Row) :=
  let visibleRows := pyOr rows cv.rows
  let trimBottom := cv.rows - trimTop - visibleRows
  let visibleCols := pyOr cols cv.cols
  let trimRight := cv.cols - trimLeft - visibleCols
  if trimLeft = 0 ∧ 0 = trimRight then
    .ok ((pySlice cv.lines trimTop (orNone (-trimBottom))).map fun line => [dropNul line, [Tok.nul, Tok.nul]])
  else
    let pads := padSplit cv.vAlign (cv.rows - cv.imgRows)                -- (pad_top, pad_bottom)
    let ct := calcTrim cv.rows cv.imgRows trimTop pads.1 trimBottom pads.2
    let newPadTop := ct.1
    let trimImageTop := ct.2.1
    let trimImageBottom := ct.2.2.1
    let newPadBottom := ct.2.2.2
    let imageIsEmpty : Bool := cv.imgRows = trimImageTop ∨ cv.imgRows = trimImageBottom
    let imageIsPartial : Bool := trimImageTop ≠ cv.imgRows ∧ cv.imgRows ≠ trimImageBottom
    let paddingLine : Row := [blanks visibleCols ++ [Tok.nul, Tok.nul]]
    let imageLines :=
      if imageIsEmpty then []
      else
        let ls := pySlice cv.lines pads.1 (orNone (-pads.2))
        if imageIsPartial then pySlice ls trimImageTop (orNone (-trimImageBottom)) else ls
    do
      let imgRows ← imageLines.mapM (imageRow cv trimLeft trimRight)
      pure (List.replicate newPadTop.toNat paddingLine ++ imgRows ++ List.replicate newPadBottom.toNat paddingLine)

/-! ## graphics-based images and foreign canvases (lines are opaque) -/

inductive GRow (L : Type)
  | line (l : L) (disguise : Nat)     -- `line + b"\b " * disguise`
  | blank (n : Int)                   -- `b" " * n`
deriving DecidableEq, Repr

/-- the same row with another disguise (blank rows carry none) -/
def GRow.setDisguise {L} (d : Nat) : GRow L → GRow L
  | .line l _ => .line l d
  | .blank n => .blank n

/-- the `disguise` multiplier: `(canvas state + widget state) * (kitty or iterm2-on-konsole)` -/
def disguiseCount (canvasState widgetState : Nat) (isKitty isITerm2 onKonsole : Bool) : Nat :=
  (canvasState + widgetState) * (if isKitty || (isITerm2 && onKonsole) then 1 else 0)

def gfxContent {L} (lines : List L) (sizeCols sizeRows trimLeft trimTop cols rows : Int) (disguise : Nat) :
    List (GRow L) :=
  let visibleRows := pyOr rows sizeRows
  let trimBottom := sizeRows - trimTop - visibleRows
  let visibleCols := pyOr cols sizeCols
  let trimRight := sizeCols - trimLeft - visibleCols
  if trimLeft ≠ 0 ∨ trimRight ≠ 0 then List.replicate visibleRows.toNat (.blank visibleCols)
  else (pySlice lines trimTop (orNone (-trimBottom))).map fun l => .line l disguise

/-- the canvas was not rendered by `UrwidImage` (`AttributeError` branch) -/
def foreignContent {L} (lines : List L) (sizeRows trimTop rows : Int) : List (GRow L) :=
  let visibleRows := pyOr rows sizeRows
  let trimBottom := sizeRows - trimTop - visibleRows
  (pySlice lines trimTop (orNone (-trimBottom))).map fun l => .line l 0

/-! ## `_format_render` on lines, `UrwidImageCanvas.__init__` -/

/-- `BaseImage._format_render(render, h_align, width, v_align, height)` with `rendered_size = (cols, lines)`,
    on the list of lines of `render` (the `"\n"` → `right + "\n" + left` replacement, line by line) -/
def formatRender (render : List (List Tok)) (cols lines : Int) (hAlign : Align) (width : Int)
    (vAlign : Align) (height : Int) : List (List Tok) :=
  let body :=
    if width > cols then
      let (l, r) := padSplit hAlign (width - cols)
      render.map fun ln => blanks l ++ ln ++ blanks r
    else render
  if height > lines then
    let (top, bottom) := padSplit vAlign (height - lines)
    List.replicate top.toNat (blanks width) ++ body ++ List.replicate bottom.toNat (blanks width)
  else body

/-- `[line + b"\0\0" for line in render.encode().split(b"\n")]` -/
def canvasLines (render : List (List Tok)) : List (List Tok) := render.map (· ++ [Tok.nul, Tok.nul])

/-- the canvas `UrwidImage.render` builds from the image's primary render -/
def mkCanvas (render : List (List Tok)) (imgCols imgRows : Int) (hAlign vAlign : Align) (cols rows : Int) : Canvas :=
  { cols, rows, imgCols, imgRows, hAlign, vAlign,
    lines := canvasLines (formatRender render imgCols imgRows hAlign cols vAlign rows) }

/-! ## sizing: `UrwidImage.rows` and the size part of `UrwidImage.render` -/

/-- arguments `_valid_size` is called with -/
inductive SizeReq
  | width (c : Int)          -- `_valid_size(size[0])`
  | original                 -- `_valid_size(Size.ORIGINAL)`
  | frame (fit : Bool) (c r : Int)   -- `_valid_size(Size.FIT | Size.AUTO, frame_size=(c, r))` via `set_size`
deriving Repr

/-- `UrwidImage.rows((c,))`; `vs` = `image._valid_size`, `fit` = `upscale` -/
def widgetRows (vs : SizeReq → Int × Int) (fit : Bool) (c : Int) : Int :=
  let fitSize := vs (.width c)
  if fit then fitSize.2
  else
    let ori := vs .original
    if ori.1 ≤ fitSize.1 ∧ ori.2 ≤ fitSize.2 then ori.2 else fitSize.2

/-- flow `render((c,))`: `(canvas size, image._size)` -/
def flowSizes (vs : SizeReq → Int × Int) (fit : Bool) (c : Int) : (Int × Int) × (Int × Int) :=
  let isz :=
    if fit then vs (.width c)
    else
      let fitSize := vs (.width c)
      let ori := vs .original
      if ori.1 ≤ fitSize.1 ∧ ori.2 ≤ fitSize.2 then ori else fitSize
  ((c, isz.2), isz)

/-- box `render((c, r))` -/
def boxSizes (vs : SizeReq → Int × Int) (fit : Bool) (c r : Int) : (Int × Int) × (Int × Int) :=
  ((c, r), vs (.frame fit c r))

/-! ## `UrwidImage.render`: success, and the failure branch with `_ti_error_placeholder` -/

/-- the `size` argument of `render` -/
inductive SizeArg
  | box (c r : Int)     -- `len(size) == 2`
  | flow (c : Int)      -- `len(size) == 1`
deriving Repr

/-- what `render` returns or does -/
inductive Rendered
  | image (cols rows imgCols imgRows : Int)   -- `UrwidImageCanvas(render, size, image._size)`
  | placeholder (size : List Int)             -- `type(self)._ti_error_placeholder.render(size, focus)`
  | raised                                    -- the render exception propagates (`raise`)
deriving DecidableEq, Repr

/-- `UrwidImage.render(size)`: the sizes are computed first (for a flow widget `size` is *rebound* to
    `(size[0], image._size[1])`), then the `try`: `renderFails` = `_format_render(_renderer(…))` raises;
    `hasPlaceholder` = `_ti_error_placeholder is not None`. The placeholder is rendered with the
    rebound, two-element `size` — i.e. as a box of the very size the image canvas would have had. -/
def widgetRender (vs : SizeReq → Int × Int) (fit : Bool) (arg : SizeArg) (renderFails hasPlaceholder : Bool) : Rendered :=
  let sizes := match arg with
    | .box c r => boxSizes vs fit c r
    | .flow c => flowSizes vs fit c
  let size := sizes.1
  if renderFails then
    if hasPlaceholder then .placeholder [size.1, size.2] else .raised
  else .image size.1 size.2 sizes.2.1 sizes.2.2

/-! ## the canvas is a value: `content` at a later time -/

/-- what `content` can still read from the *widget* (through `widget_info[0]`) when it is called, possibly
    long after the canvas was rendered: the two alignments, and the image with whatever size it has NOW -/
structure WidgetState where
  hAlign : Align               -- `widget._ti_h_align` (set once in `__init__`)
  vAlign : Align               -- `widget._ti_v_align`
  imageSize : Int × Int        -- `widget._ti_image._size` / `.rendered_size` at the time of the call
deriving Repr

/-- what the canvas object itself holds since `__init__`: `size`, `_ti_image_size`, `_ti_lines` -/
structure CanvasVal where
  cols : Int
  rows : Int
  imgCols : Int
  imgRows : Int
  lines : List (List Tok)
deriving Repr

/-- `canvas.content(…)` called in widget state `ws`: sizes and lines come from the canvas
    (`image_size = self._ti_image_size`), only the alignments from the widget; the image's current
    size is not read -/
def contentAt (ws : WidgetState) (cv : CanvasVal) (trimLeft trimTop cols rows : Int) : Except Err (List Row) :=
  textContent { cols := cv.cols, rows := cv.rows, imgCols := cv.imgCols, imgRows := cv.imgRows, lines := cv.lines,
                hAlign := ws.hAlign, vAlign := ws.vAlign } trimLeft trimTop cols rows

end TIV.C17
