import TIV.C17.Model
import TIV.Common.BlockProofs
/-! C17 helper lemmas -/
set_option linter.unusedVariables false
namespace TIV.C17
open TIV

/-! ## Python primitives on in-range naturals -/

theorem pyIdx_nat (len a : Nat) : pyIdx len (a : Int) = min a len := by
  unfold pyIdx; simp; omega

theorem pyIdx_neg (len b : Nat) (hb : 0 < b) : pyIdx len (-(b : Int)) = len - b := by
  unfold pyIdx
  have : -(b : Int) < 0 := by omega
  rw [if_pos this]; omega

/-- `l[a : -b or None]` for naturals -/
theorem pySlice_orNone {α} (l : List α) (a b : Nat) :
    pySlice l (a : Int) (orNone (-(b : Int))) = (l.take (l.length - b)).drop a := by
  unfold pySlice orNone
  by_cases hb : b = 0
  · subst hb; simp [pyIdx_nat]
  · have h0 : ¬ (-(b : Int) = 0) := by omega
    simp only [h0, if_false, pyIdx_neg _ _ (Nat.pos_of_ne_zero hb), pyIdx_nat]
    by_cases h : a ≤ l.length
    · rw [Nat.min_eq_left h]
    · rw [Nat.min_eq_right (by omega), List.drop_of_length_le (by simp <;> omega)]
      exact (List.drop_of_length_le (by simp <;> omega)).symm

/-- `l[a : -b]` for naturals, `b > 0` -/
theorem pySlice_neg {α} (l : List α) (a b : Nat) (hb : 0 < b) :
    pySlice l (a : Int) (some (-(b : Int))) = (l.take (l.length - b)).drop a := by
  have := pySlice_orNone l a b
  unfold orNone at this
  have h0 : ¬ (-(b : Int) = 0) := by omega
  simpa [h0] using this

theorem pyOr_pos (a b : Int) (h : 0 < a) : pyOr a b = a := by
  unfold pyOr; have : a ≠ 0 := by omega
  simp [this]

theorem pyGet_nat {α} (l : List α) (i : Nat) : pyGet l (i : Int) = l[i]? := by
  unfold pyGet
  have : ¬ ((i : Int) < 0) := by omega
  simp [this]

theorem pyRevFrom_nat {α} (l : List α) (j : Nat) (hj : j < l.length) :
    pyRevFrom l (j : Int) = (l.take (j + 1)).reverse := by
  unfold pyRevFrom
  have h1 : ¬ ((j : Int) < 0) := by omega
  have h2 : min (j : Int) ((l.length : Int) - 1) = j := by omega
  simp only [h1, if_false, h2]
  simp

/-! ## `_ti_calc_trim` in closed form, and what it means for a padded list -/

theorem calcTrim_closed (pad1 img pad2 t1 t2 : Int) (h1 : 0 ≤ pad1) (h2 : 0 ≤ pad2) (hi : 0 ≤ img)
    (ht1 : 0 ≤ t1) (ht2 : 0 ≤ t2) (hv : t1 + t2 < pad1 + img + pad2) :
    calcTrim (pad1 + img + pad2) img t1 pad1 t2 pad2 =
      (max 0 (min pad1 (pad1 + img + pad2 - t2) - t1), min img (max 0 (t1 - pad1)), min img (max 0 (t2 - pad2)),
       max 0 (min pad2 (pad1 + img + pad2 - t1) - t2)) := by
  unfold calcTrim
  by_cases c1 : t1 ≥ pad1 + img + pad2 - pad2 <;> by_cases c2 : t1 ≥ pad1 <;>
  by_cases c3 : t2 ≥ pad1 + img + pad2 - pad1 <;> by_cases c4 : t2 ≥ pad2 <;>
  simp only [c1, c2, c3, c4, if_true, if_false, Prod.mk.injEq] <;> omega

/-- the window `[t1, t1+v)` of `pad1 × a ++ B ++ pad2 × c` is exactly what the four numbers of
    `_ti_calc_trim` say: new padding, the image part `B[ti1 : -ti2 or None]` (nothing if the image is
    trimmed away), new padding -/
theorem axis {α} (a c : α) (B : List α) (p1 p2 t1 v : Nat) (S N T1 P1 T2 P2 : Int)
    (hv : 0 < v) (hfit : t1 + v ≤ p1 + B.length + p2)
    (hS : S = p1 + B.length + p2) (hN : N = B.length) (hT1 : T1 = t1) (hP1 : P1 = p1) (hP2 : P2 = p2)
    (hT2 : T2 = S - T1 - v) :
    ((List.replicate p1 a ++ B ++ List.replicate p2 c).drop t1).take v =
      List.replicate (calcTrim S N T1 P1 T2 P2).1.toNat a ++
      (if N = (calcTrim S N T1 P1 T2 P2).2.1 ∨ N = (calcTrim S N T1 P1 T2 P2).2.2.1 then []
       else pySlice B (calcTrim S N T1 P1 T2 P2).2.1 (orNone (-(calcTrim S N T1 P1 T2 P2).2.2.1))) ++
      List.replicate (calcTrim S N T1 P1 T2 P2).2.2.2.toNat c := by
  have hcl := calcTrim_closed P1 N P2 T1 T2 (by omega) (by omega) (by omega) (by omega) (by omega) (by omega)
  have hS' : S = P1 + N + P2 := by omega
  rw [hS', hcl]
  simp only [List.drop_append, List.take_append, List.drop_replicate, List.take_replicate, List.length_replicate,
    List.length_drop, List.length_append, List.append_assoc]
  congr 1
  · congr 1; omega
  congr 1
  · -- the image part
    split
    · rename_i h
      apply List.take_eq_nil_iff.mpr
      by_cases h0 : v - (p1 - t1) = 0
      · left; exact h0
      · right; apply List.drop_eq_nil_of_le; omega
    · rename_i h
      have e1 : min N (max 0 (T1 - P1)) = ((t1 - p1 : Nat) : Int) := by omega
      have e2 : min N (max 0 (T2 - P2)) = ((p1 + B.length - t1 - v : Nat) : Int) := by omega
      rw [e1, e2, pySlice_orNone, List.drop_take]
      apply List.take_eq_take_iff.mpr
      simp only [List.length_drop]
      omega
  · congr 1; omega

/-! ## specification vocabulary: a text line as cells -/

/-- one character cell of a split-cells text render: an optional run of SGR sequences, then the glyph -/
structure Cell where
  pre : List Tok
  g : Glyph
deriving Repr

def Cell.toks (c : Cell) : List Tok := c.pre ++ [Tok.glyph c.g]

def isSgr : Tok → Bool
  | .sgr0 | .fg _ | .bg _ => true
  | _ => false

/-- the image part of a line as a split-cells render writes it: cells separated by NUL, then `SGR 0` -/
def absLine : List Cell → List Tok
  | [] => [Tok.sgr0]
  | [c] => c.toks ++ [Tok.sgr0]
  | c :: c2 :: cs => c.toks ++ Tok.nul :: absLine (c2 :: cs)

/-- what `split(b"\0")` makes of it -/
def absCells : List Cell → List (List Tok)
  | [] => [[Tok.sgr0]]
  | [c] => [c.toks ++ [Tok.sgr0]]
  | c :: c2 :: cs => c.toks :: absCells (c2 :: cs)

abbrev Shown := Option RGB × Option RGB

def showsPen (g : Glyph) (q : Pen) : Shown := Block.shows (.text g q.fg q.bg)

/-- what glyph `g` shows when the SGR sequences `pre` were written from default attributes -/
def sh (pre : List Tok) (g : Glyph) : Shown := showsPen g (penAfter ⟨none, none⟩ pre)

/-- `pre` determines what `g` shows, whatever attributes were in force before it -/
def Determined (pre : List Tok) (g : Glyph) : Prop := ∀ p : Pen, showsPen g (penAfter p pre) = sh pre g

/-- the SGR prefix in force after cell `c` when `cur` was in force before it -/
def nextCur (cur : List Tok) (c : Cell) : List Tok := if c.pre = [] then cur else c.pre

/-- well-formed run of cells, `cur` = the SGR prefix of the colour run in force: prefixes are SGR
    sequences only, every cell is inside some run (a prefix is in force), and that prefix determines
    what the cell shows (the C02 fact about `update_buffer`) -/
def WFFrom (cur : List Tok) : List Cell → Prop
  | [] => True
  | c :: cs => (∀ t ∈ c.pre, isSgr t = true) ∧ nextCur cur c ≠ [] ∧ Determined (nextCur cur c) c.g ∧
      c.g ≠ Glyph.ch 'm' ∧ WFFrom (nextCur cur c) cs

/-- what the cells show (independent of the attributes before the line) -/
def intr (cur : List Tok) : List Cell → List Shown
  | [] => []
  | c :: cs => sh (nextCur cur c) c.g :: intr (nextCur cur c) cs

def curAt (cur : List Tok) (cells : List Cell) (k : Nat) : List Tok := (cells.take k).foldl nextCur cur

def NN : Shown := (none, none)

def rowShows (row : Row) : List Shown := (cellsOf ⟨none, none⟩ row.flatten).map Block.shows

/-! ### tokens of cells -/

theorem sgr_ne_nul {t : Tok} (h : isSgr t = true) : t ≠ Tok.nul := by
  intro e; subst e; simp [isSgr] at h

theorem Cell.toks_nonul (c : Cell) (h : ∀ t ∈ c.pre, isSgr t = true) : ∀ t ∈ c.toks, t ≠ Tok.nul := by
  intro t ht
  unfold Cell.toks at ht
  rcases List.mem_append.mp ht with h1 | h1
  · exact sgr_ne_nul (h t h1)
  · simp at h1; subst h1; intro e; cases e

theorem cellsOf_sgr (p : Pen) (pre : List Tok) (h : ∀ t ∈ pre, isSgr t = true) : cellsOf p pre = [] := by
  induction pre generalizing p with
  | nil => rfl
  | cons t ts ih =>
    have ht := h t (by simp)
    have hts : ∀ t' ∈ ts, isSgr t' = true := fun t' ht' => h t' (by simp [ht'])
    cases t <;> simp [isSgr] at ht <;> simp only [cellsOf] <;> exact ih _ hts

theorem cellsOf_pre (p : Pen) (pre rest : List Tok) (h : ∀ t ∈ pre, isSgr t = true) :
    cellsOf p (pre ++ rest) = cellsOf (penAfter p pre) rest := by
  rw [cellsOf_append, cellsOf_sgr p pre h]; rfl

theorem splitNul_nonul (a : List Tok) (h : ∀ t ∈ a, t ≠ Tok.nul) : splitNul a = [a] := by
  induction a with
  | nil => rfl
  | cons t ts ih =>
    have := ih (fun t' ht' => h t' (by simp [ht']))
    simp [splitNul, h t (by simp), this]

theorem splitNul_append (a b : List Tok) (h : ∀ t ∈ a, t ≠ Tok.nul) :
    splitNul (a ++ Tok.nul :: b) = a :: splitNul b := by
  induction a with
  | nil => simp [splitNul]
  | cons t ts ih =>
    have := ih (fun t' ht' => h t' (by simp [ht']))
    simp [splitNul, h t (by simp), this]

def AllSgr (cells : List Cell) : Prop := ∀ c ∈ cells, ∀ t ∈ c.pre, isSgr t = true

theorem WFFrom.allSgr {cur : List Tok} {cells : List Cell} (h : WFFrom cur cells) : AllSgr cells := by
  induction cells generalizing cur with
  | nil => intro c hc; simp at hc
  | cons c cs ih =>
    obtain ⟨h1, _, _, _, h5⟩ := h
    intro c' hc'
    rcases List.mem_cons.mp hc' with e | e
    · subst e; exact h1
    · exact ih h5 c' e

theorem splitNul_absLine (cells : List Cell) (h : AllSgr cells) : splitNul (absLine cells) = absCells cells := by
  induction cells with
  | nil => rfl
  | cons c cs ih =>
    have hc : ∀ t ∈ c.toks, t ≠ Tok.nul := c.toks_nonul (h c (by simp))
    cases cs with
    | nil =>
      simp only [absLine, absCells]
      apply splitNul_nonul
      intro t ht
      rcases List.mem_append.mp ht with h1 | h1
      · exact hc t h1
      · simp at h1; subst h1; intro e; cases e
    | cons c2 cs =>
      simp only [absLine, absCells]
      rw [splitNul_append _ _ hc, ih (fun c' hc' => h c' (by simp [hc']))]

theorem dropNul_nonul (a : List Tok) (h : ∀ t ∈ a, t ≠ Tok.nul) : dropNul a = a := by
  unfold dropNul
  apply List.filter_eq_self.mpr
  intro t ht; simp [h t ht]

theorem dropNul_absLine (cells : List Cell) (h : AllSgr cells) :
    dropNul (absLine cells) = (cells.map Cell.toks).flatten ++ [Tok.sgr0] := by
  induction cells with
  | nil => rfl
  | cons c cs ih =>
    have hc : ∀ t ∈ c.toks, t ≠ Tok.nul := c.toks_nonul (h c (by simp))
    cases cs with
    | nil =>
      simp [absLine, dropNul, List.filter_append]
      exact hc
    | cons c2 cs =>
      have ih' := ih (fun c' hc' => h c' (by simp [hc']))
      simp only [absLine]
      unfold dropNul at ih' ⊢
      rw [List.filter_append, List.filter_cons]
      have := dropNul_nonul _ hc
      unfold dropNul at this
      rw [this, ih']
      simp

theorem absCells_length (cells : List Cell) (h : cells ≠ []) : (absCells cells).length = cells.length := by
  induction cells with
  | nil => exact absurd rfl h
  | cons c cs ih =>
    cases cs with
    | nil => rfl
    | cons c2 cs => simp only [absCells, List.length_cons]; rw [ih (by simp)]; rfl

theorem absCells_take (cells : List Cell) (k : Nat) (hk : k < cells.length) :
    (absCells cells).take k = (cells.take k).map Cell.toks := by
  induction cells generalizing k with
  | nil => simp at hk
  | cons c cs ih =>
    cases k with
    | zero => simp
    | succ k =>
      cases cs with
      | nil => simp at hk
      | cons c2 cs =>
        simp only [absCells, List.take_succ_cons, List.map_cons]
        rw [ih k (by simpa using hk)]

theorem absCells_drop_flatten (cells : List Cell) (k : Nat) (hk : k < cells.length) :
    ((absCells cells).drop k).flatten = ((cells.drop k).map Cell.toks).flatten ++ [Tok.sgr0] := by
  induction cells generalizing k with
  | nil => simp at hk
  | cons c cs ih =>
    cases cs with
    | nil =>
      have : k = 0 := by simp at hk; omega
      subst this; simp [absCells]
    | cons c2 cs =>
      cases k with
      | zero =>
        have := ih 0 (by simp)
        simp only [List.drop_zero] at this ⊢
        simp only [absCells, List.flatten_cons, List.map_cons, this, List.append_assoc]
      | succ k =>
        simp only [absCells, List.drop_succ_cons]
        exact ih k (by simpa using hk)

theorem absCells_get (cells : List Cell) (k : Nat) (hk : k < cells.length) :
    ∃ x, (absCells cells)[k]? = some (cells[k].toks ++ x) := by
  induction cells generalizing k with
  | nil => simp at hk
  | cons c cs ih =>
    cases cs with
    | nil =>
      have : k = 0 := by simp at hk; omega
      subst this; exact ⟨[Tok.sgr0], rfl⟩
    | cons c2 cs =>
      cases k with
      | zero => exact ⟨[], by simp [absCells]⟩
      | succ k =>
        simp only [absCells, List.getElem?_cons_succ, List.getElem_cons_succ]
        exact ih k (by simpa using hk)

/-! ### what cells show -/

theorem nextCur_pre {cur : List Tok} {c : Cell} (h : c.pre ≠ []) : nextCur cur c = c.pre := by
  unfold nextCur; simp [h]

theorem nextCur_nil {cur : List Tok} {c : Cell} (h : c.pre = []) : nextCur cur c = cur := by
  unfold nextCur; simp [h]

/-- Lemma A: written with the run prefix `cur` in force (from any attributes), well-formed cells show
    `intr cur cells`; the closing `SGR 0` leaves default attributes for what follows -/
theorem cells_shows (cells : List Cell) : ∀ (cur : List Tok) (p' : Pen), WFFrom cur cells → ∀ rest : List Tok,
    (cellsOf (penAfter p' cur) ((cells.map Cell.toks).flatten ++ Tok.sgr0 :: rest)).map Block.shows
      = intr cur cells ++ (cellsOf ⟨none, none⟩ rest).map Block.shows := by
  induction cells with
  | nil => intro cur p' _ rest; simp [cellsOf, Pen.step, intr]
  | cons c cs ih =>
    intro cur p' h rest
    obtain ⟨h1, h2, h3, h4, h5⟩ := h
    simp only [List.map_cons, List.flatten_cons, Cell.toks, List.append_assoc, intr]
    rw [cellsOf_pre _ _ _ h1]
    simp only [List.singleton_append, cellsOf, List.map_cons, List.cons_append]
    by_cases hp : c.pre = []
    · rw [nextCur_nil hp] at h3 h5 ⊢
      simp only [hp, penAfter]
      rw [List.nil_append, ih cur p' h5 rest]
      congr 1
      exact h3 p'
    · rw [nextCur_pre hp] at h3 h5 ⊢
      rw [List.nil_append, ih c.pre (penAfter p' cur) h5 rest]
      congr 1
      exact h3 (penAfter p' cur)

theorem WFFrom_take {cells : List Cell} : ∀ {cur : List Tok} (k : Nat), WFFrom cur cells → WFFrom cur (cells.take k) := by
  induction cells with
  | nil => intro cur k h; simp [WFFrom]
  | cons c cs ih =>
    intro cur k h
    cases k with
    | zero => simp [WFFrom]
    | succ k =>
      obtain ⟨h1, h2, h3, h4, h5⟩ := h
      exact ⟨h1, h2, h3, h4, ih k h5⟩

theorem intr_take (cells : List Cell) : ∀ (cur : List Tok) (k : Nat), intr cur (cells.take k) = (intr cur cells).take k := by
  induction cells with
  | nil => intro cur k; simp [intr]
  | cons c cs ih =>
    intro cur k
    cases k with
    | zero => simp [intr]
    | succ k => simp [intr, ih]

theorem curAt_succ (cur : List Tok) (c : Cell) (cs : List Cell) (k : Nat) :
    curAt cur (c :: cs) (k + 1) = curAt (nextCur cur c) cs k := by
  simp [curAt]

theorem WFFrom_drop {cells : List Cell} : ∀ {cur : List Tok} (k : Nat), WFFrom cur cells →
    WFFrom (curAt cur cells k) (cells.drop k) := by
  induction cells with
  | nil => intro cur k h; simp [WFFrom]
  | cons c cs ih =>
    intro cur k h
    cases k with
    | zero => simpa [curAt] using h
    | succ k =>
      rw [curAt_succ]
      exact ih k h.2.2.2.2

theorem intr_drop (cells : List Cell) : ∀ (cur : List Tok) (k : Nat),
    intr (curAt cur cells k) (cells.drop k) = (intr cur cells).drop k := by
  induction cells with
  | nil => intro cur k; simp [intr]
  | cons c cs ih =>
    intro cur k
    cases k with
    | zero => simp [curAt]
    | succ k => rw [curAt_succ]; simp [intr, ih]

theorem intr_length (cells : List Cell) : ∀ cur, (intr cur cells).length = cells.length := by
  induction cells with
  | nil => intro _; rfl
  | cons c cs ih => intro cur; simp [intr, ih]

/-- a run that starts with its own prefix does not depend on what was in force before -/
theorem WFFrom_head {cur cur' : List Tok} {c : Cell} {cs : List Cell} (hp : c.pre ≠ [])
    (h : WFFrom cur (c :: cs)) : WFFrom cur' (c :: cs) ∧ intr cur' (c :: cs) = intr cur (c :: cs) := by
  simp only [WFFrom, intr, nextCur_pre hp] at h ⊢
  exact ⟨h, trivial⟩

theorem curAt_sgr (cells : List Cell) (hs : AllSgr cells) : ∀ (cur : List Tok) (k : Nat),
    (∀ t ∈ cur, isSgr t = true) → ∀ t ∈ curAt cur cells k, isSgr t = true := by
  induction cells with
  | nil => intro cur k hc; simpa [curAt] using hc
  | cons c cs ih =>
    intro cur k hc
    cases k with
    | zero => simpa [curAt] using hc
    | succ k =>
      rw [curAt_succ]
      apply ih (fun c' hc' => hs c' (by simp [hc']))
      unfold nextCur
      split
      · exact hc
      · exact hs c (by simp)

/-! ### the `first_color` recovery -/

theorem startsEsc_toks (c : Cell) (h : ∀ t ∈ c.pre, isSgr t = true) (x : List Tok) :
    startsEsc (c.toks ++ x) = !c.pre.isEmpty := by
  unfold Cell.toks
  cases hp : c.pre with
  | nil => simp [startsEsc, tokEsc]
  | cons t ts =>
    have := h t (by simp [hp])
    cases t <;> simp [isSgr] at this <;> simp [startsEsc, tokEsc]

theorem throughLastM_toks (c : Cell) (h : ∀ t ∈ c.pre, isSgr t = true) (hp : c.pre ≠ []) (hg : c.g ≠ Glyph.ch 'm') :
    throughLastM c.toks = some c.pre := by
  unfold throughLastM Cell.toks
  have hg' : tokM (Tok.glyph c.g) = false := by
    cases hc : c.g with
    | ch ch => simp [tokM]; intro e; subst e; exact hg hc
    | _ => rfl
  obtain ⟨l, x, hl⟩ : ∃ l x, c.pre = l ++ [x] := ⟨c.pre.dropLast, c.pre.getLast hp, (List.dropLast_concat_getLast hp).symm⟩
  have hx : tokM x = true := by
    have := h x (by simp [hl])
    cases x <;> simp [isSgr] at this <;> rfl
  simp [hl, List.dropWhile, hg', hx]

/-- searching backwards through the cells before `k` finds the prefix in force at `k` -/
theorem find_prefix (rs : List Cell) (hs : AllSgr rs) (hm : ∀ c ∈ rs, c.g ≠ Glyph.ch 'm') (cur : List Tok)
    (hex : ∃ c ∈ rs, c.pre ≠ []) :
    ∃ cell, (rs.map Cell.toks).find? startsEsc = some cell ∧
      throughLastM cell = some (rs.foldr (fun c acc => nextCur acc c) cur) := by
  induction rs with
  | nil => obtain ⟨c, hc, _⟩ := hex; simp at hc
  | cons c cs ih =>
    have hc := hs c (by simp)
    have hse := startsEsc_toks c hc []
    simp only [List.append_nil] at hse
    by_cases hp : c.pre = []
    · have : startsEsc c.toks = false := by rw [hse]; simp [hp]
      simp only [List.map_cons, List.find?_cons, this, List.foldr_cons, nextCur_nil hp]
      apply ih (fun c' hc' => hs c' (by simp [hc'])) (fun c' hc' => hm c' (by simp [hc']))
      obtain ⟨c', hc', hne⟩ := hex
      rcases List.mem_cons.mp hc' with e | e
      · subst e; exact absurd hp hne
      · exact ⟨c', e, hne⟩
    · have : startsEsc c.toks = true := by rw [hse]; simp [hp]
      refine ⟨c.toks, by simp [this], ?_⟩
      rw [List.foldr_cons, nextCur_pre hp]
      exact throughLastM_toks c hc hp (hm c (by simp))

theorem WFFrom.glyphs {cur : List Tok} {cells : List Cell} (h : WFFrom cur cells) : ∀ c ∈ cells, c.g ≠ Glyph.ch 'm' := by
  induction cells generalizing cur with
  | nil => intro c hc; simp at hc
  | cons c cs ih =>
    obtain ⟨_, _, _, h4, h5⟩ := h
    intro c' hc'
    rcases List.mem_cons.mp hc' with e | e
    · subst e; exact h4
    · exact ih h5 c' e

theorem firstColor_cells (cells : List Cell) (h : WFFrom [] cells) (k : Nat) (hk : k < cells.length) :
    firstColor (absCells cells) (k : Int) =
      .ok (if cells[k].pre = [] then [curAt [] cells k] else []) := by
  unfold firstColor
  rw [pyGet_nat]
  obtain ⟨x, hx⟩ := absCells_get cells k hk
  have hs := h.allSgr
  have hck := hs cells[k] (List.getElem_mem hk)
  rw [hx]
  simp only [startsEsc_toks _ hck]
  by_cases hp : cells[k].pre = []
  · simp only [hp, List.isEmpty_nil, Bool.not_true, if_true]
    -- the first cell of a line has its own prefix, so `k ≥ 1`
    cases k with
    | zero =>
      cases cells with
      | nil => simp at hk
      | cons c cs =>
        have := h.2.1
        simp at hp
        rw [nextCur_nil hp] at this
        exact absurd rfl this
    | succ j =>
      have e : (((j + 1 : Nat) : Int) - 1) = (j : Int) := by omega
      have hne : cells ≠ [] := by intro e0; subst e0; simp at hk
      rw [e, pyRevFrom_nat _ _ (by rw [absCells_length _ hne]; omega), absCells_take _ _ hk, ← List.map_reverse]
      have hex : ∃ c ∈ (cells.take (j + 1)).reverse, c.pre ≠ [] := by
        cases cells with
        | nil => simp at hk
        | cons c cs =>
          refine ⟨c, by simp, ?_⟩
          intro e0
          have := h.2.1
          rw [nextCur_nil e0] at this
          exact absurd rfl this
      obtain ⟨cell, hf, ht⟩ := find_prefix (cells.take (j + 1)).reverse
        (fun c hc t ht => hs c (List.mem_of_mem_take (List.mem_reverse.mp hc)) t ht)
        (fun c hc => h.glyphs c (List.mem_of_mem_take (List.mem_reverse.mp hc))) [] hex
      simp only [Bool.false_eq_true, if_false, hf, ht]
      simp [curAt, List.foldr_reverse]
  · have : cells[k].pre.isEmpty = false := by simp [hp]
    simp [this, hp]

/-! ## canvas lines -/

def nn : List Tok := [Tok.nul, Tok.nul]

/-- a canvas line carrying image cells: left padding, the image line, right padding, `"\0\0"` -/
def imgCanvasLine (pl pr : Nat) (cells : List Cell) : List Tok :=
  blanks pl ++ absLine cells ++ blanks pr ++ nn

/-- a padding line of the canvas -/
def padCanvasLine (W : Nat) : List Tok := blanks W ++ nn

@[simp] theorem blanks_nat (n : Nat) : blanks (n : Int) = List.replicate n (Tok.glyph .blank) := by
  unfold blanks; simp

theorem cellsOf_blanks (p : Pen) (n : Nat) (rest : List Tok) :
    cellsOf p (List.replicate n (Tok.glyph .blank) ++ rest) = List.replicate n (.text .blank p.fg p.bg) ++ cellsOf p rest := by
  induction n with
  | zero => simp
  | succ n ih => simp [List.replicate_succ, cellsOf, ih]

theorem shows_blanks (n : Nat) (rest : List Tok) :
    (cellsOf ⟨none, none⟩ (List.replicate n (Tok.glyph .blank) ++ rest)).map Block.shows =
      List.replicate n NN ++ (cellsOf ⟨none, none⟩ rest).map Block.shows := by
  rw [cellsOf_blanks]; simp [Block.shows, NN]

theorem cellsOf_nn (p : Pen) : cellsOf p nn = [] := by simp [nn, cellsOf, Pen.step]

theorem slice_imgCanvasLine (pl pr : Nat) (cells : List Cell) :
    pySlice (imgCanvasLine pl pr cells) (pl : Int) (some (-((pr : Int) + 2))) = absLine cells := by
  have e : ((pr : Int) + 2) = ((pr + 2 : Nat) : Int) := by omega
  rw [e, pySlice_neg _ _ _ (by omega)]
  unfold imgCanvasLine nn
  simp only [blanks_nat, List.length_append, List.length_replicate, List.length_cons, List.length_nil]
  have e2 : pl + (absLine cells).length + pr + (0 + 1 + 1) - (pr + 2) = pl + (absLine cells).length := by omega
  rw [e2]
  simp [List.take_append, List.drop_append]

theorem padSeg_flatten (n : Int) : (padSeg n).flatten = blanks n := by
  unfold padSeg
  split
  · rename_i h; subst h; rfl
  · simp

/-! ## the image part of a horizontally trimmed row -/

/-- `image_line` (with `first_color`) followed by `color_reset`, flattened -/
def midToks (il : List Seg) (w tir : Int) : List Tok :=
  il.flatten ++ (if w > tir ∧ tir > 0 then [[Tok.sgr0]] else ([] : List Seg)).flatten

theorem imageLine_mid (cells : List Cell) (hwf : WFFrom [] cells) (w pl pr : Nat) (hw : cells.length = w)
    (til tir : Int) (k j : Nat) (hk : til = k) (hj : tir = j) (hkj : k + j ≤ w)
    (isFull isPartial : Bool) (hfull : isFull = true ↔ (k = 0 ∧ j = 0)) (hpart : isPartial = true ↔ (k ≠ w ∧ j ≠ w)) :
    ∃ il, imageLine (imgCanvasLine pl pr cells) pl ((pr : Int) + 2) isFull isPartial til tir = .ok il ∧
      ((k = w ∨ j = w) → 0 < w → midToks il w tir = []) ∧
      (k + j < w → (∃ m, midToks il w tir = m ++ [Tok.sgr0]) ∧
        ∀ rest, (cellsOf ⟨none, none⟩ (midToks il w tir ++ rest)).map Block.shows =
          ((intr [] cells).take (w - j)).drop k ++ (cellsOf ⟨none, none⟩ rest).map Block.shows) := by
  have hs := hwf.allSgr
  subst hk hj
  unfold imageLine
  rw [slice_imgCanvasLine]
  by_cases hF : isFull = true
  · -- the whole image line is visible
    obtain ⟨hk0, hj0⟩ := hfull.mp hF
    subst hk0 hj0
    simp only [hF, if_true]
    refine ⟨_, rfl, ?_, ?_⟩
    · intro h hw0; omega
    · intro _
      have hm : midToks [dropNul (absLine cells)] (w : Int) ((0 : Nat) : Int) = (cells.map Cell.toks).flatten ++ [Tok.sgr0] := by
        unfold midToks; simp [dropNul_absLine cells hs]
      rw [hm]
      refine ⟨⟨_, rfl⟩, fun rest => ?_⟩
      have := cells_shows cells [] ⟨none, none⟩ hwf rest
      simp only [penAfter] at this
      simp only [List.append_assoc, List.singleton_append]
      rw [this]
      congr 1
      simp only [Nat.sub_zero, List.drop_zero]
      rw [List.take_of_length_le (by rw [intr_length]; omega)]
  · have hF' : isFull = false := by simpa using hF
    by_cases hP : isPartial = true
    · obtain ⟨hkw, hjw⟩ := hpart.mp hP
      have hklt : k < cells.length := by omega
      simp only [hF', Bool.false_eq_true, if_false, hP, if_true]
      rw [splitNul_absLine cells hs, firstColor_cells cells hwf k hklt, pySlice_orNone]
      have hne : cells ≠ [] := by intro e; subst e; simp at hklt
      rw [absCells_length cells hne, hw]
      refine ⟨_, rfl, ?_, ?_⟩
      · intro h; omega
      · intro hlt
        -- the kept cells
        obtain ⟨kept, hkept⟩ : ∃ kept, kept = (cells.take (w - j)).drop k := ⟨_, rfl⟩
        have hkept' : kept = (cells.drop k).take (w - j - k) := by rw [hkept, List.drop_take]
        have hflat : midToks ((if cells[k].pre = [] then [curAt [] cells k] else []) ++
              [(((absCells cells).take (w - j)).drop k).flatten]) (w : Int) (j : Int) =
            (if cells[k].pre = [] then curAt [] cells k else []) ++ ((kept.map Cell.toks).flatten ++ [Tok.sgr0]) := by
          unfold midToks
          by_cases hj0 : j = 0
          · subst hj0
            have e1 : ¬ ((w : Int) > ((0 : Nat) : Int) ∧ ((0 : Nat) : Int) > 0) := by omega
            simp only [e1, if_false, Nat.sub_zero]
            rw [List.take_of_length_le (by rw [absCells_length cells hne]; omega), absCells_drop_flatten cells k hklt,
              hkept, Nat.sub_zero, List.take_of_length_le (by omega)]
            split <;> simp
          · have e1 : ((w : Int) > (j : Int) ∧ (j : Int) > 0) := by omega
            simp only [e1, and_self, if_true]
            rw [absCells_take cells (w - j) (by omega), hkept, List.map_drop]
            split <;> simp
        rw [hflat]
        constructor
        · exact ⟨_, by rw [← List.append_assoc]⟩
        · intro rest
          have hcur := WFFrom_drop k hwf
          have hwfk : WFFrom (curAt [] cells k) kept := by rw [hkept']; exact WFFrom_take _ hcur
          have hintr : intr (curAt [] cells k) kept = ((intr [] cells).take (w - j)).drop k := by
            rw [hkept', intr_take, intr_drop, List.drop_take]
          by_cases hp : cells[k].pre = []
          · simp only [hp, if_true, List.append_assoc, List.singleton_append]
            rw [cellsOf_pre _ _ _ (curAt_sgr cells hs [] k (by simp)), cells_shows kept _ _ hwfk rest, hintr]
          · simp only [hp, if_false, List.nil_append, List.append_assoc, List.singleton_append]
            have hk1 : kept = cells[k] :: ((cells.drop (k + 1)).take (w - j - k - 1)) := by
              rw [hkept', List.drop_eq_getElem_cons hklt]
              obtain ⟨n, hn⟩ : ∃ n, w - j - k = n + 1 := ⟨w - j - k - 1, by omega⟩
              rw [hn, List.take_succ_cons]; simp
            rw [hk1] at hwfk hintr ⊢
            obtain ⟨hwf0, hi0⟩ := WFFrom_head (cur' := []) hp hwfk
            have := cells_shows _ [] ⟨none, none⟩ hwf0 rest
            simp only [penAfter] at this
            rw [this, hi0, hintr]
    · have hP' : isPartial = false := by simpa using hP
      simp only [hF', hP', Bool.false_eq_true, if_false]
      refine ⟨[], rfl, ?_, ?_⟩
      · intro h hw0
        unfold midToks
        have e1 : ¬ ((w : Int) > (j : Int) ∧ (j : Int) > 0) := by omega
        rw [if_neg e1]; rfl
      · intro hlt
        have : k ≠ w ∧ j ≠ w := by omega
        exact absurd (hpart.mpr this) hP

/-! ## one trimmed image row -/

/-- colours do not bleed: the row is `img ++ pad` where `pad` holds only blanks (and the NUL workaround) and
    `img` either holds only blanks too (no attribute is touched) or ends with default attributes -/
def NoBleed (row : Row) : Prop :=
  ∃ img pad, row.flatten = img ++ pad ∧ (∀ t ∈ pad, t = Tok.glyph .blank ∨ t = Tok.nul) ∧
    ((∀ t ∈ img, t = Tok.glyph .blank) ∨ ∀ p : Pen, penAfter p img = ⟨none, none⟩)

structure HSetup (cv : Canvas) (W w pl pr : Nat) : Prop where
  cols : cv.cols = W
  imgCols : cv.imgCols = w
  pads : padSplit cv.hAlign (cv.cols - cv.imgCols) = ((pl : Int), (pr : Int))
  sum : W = pl + w + pr
  pos : 0 < w

theorem penAfter_sgr0 (p : Pen) (m : List Tok) : penAfter p (m ++ [Tok.sgr0]) = ⟨none, none⟩ := by
  rw [penAfter_append]; simp [penAfter, Pen.step]

theorem imageRow_spec (cv : Canvas) (W w pl pr tl c : Nat) (cells : List Cell) (hs : HSetup cv W w pl pr)
    (hw : cells.length = w) (hwf : WFFrom [] cells) (hc : 0 < c) (hfit : tl + c ≤ W) :
    ∃ row, imageRow cv (tl : Int) ((W : Int) - tl - c) (imgCanvasLine pl pr cells) = .ok row ∧
      rowShows row = ((List.replicate pl NN ++ intr [] cells ++ List.replicate pr NN).drop tl).take c ∧
      NoBleed row := by
  obtain ⟨hcols, himg, hpads, hsum, hpos⟩ := hs
  unfold imageRow
  rw [hcols, himg] at hpads
  simp only [hcols, himg, hpads]
  -- the four numbers
  have hWe : (W : Int) = (pl : Int) + (w : Int) + (pr : Int) := by omega
  obtain ⟨ct, hct⟩ : ∃ ct, ct = calcTrim (W : Int) (w : Int) (tl : Int) (pl : Int) ((W : Int) - tl - c) (pr : Int) := ⟨_, rfl⟩
  have hct2 : ct = (max 0 (min (pl : Int) ((pl : Int) + w + pr - ((pl : Int) + w + pr - tl - c)) - tl),
      min (w : Int) (max 0 ((tl : Int) - pl)), min (w : Int) (max 0 ((pl : Int) + w + pr - tl - c - pr)),
      max 0 (min (pr : Int) ((pl : Int) + w + pr - tl) - ((pl : Int) + w + pr - tl - c))) := by
    rw [hct, hWe]
    exact calcTrim_closed (pl : Int) (w : Int) (pr : Int) (tl : Int) ((pl : Int) + w + pr - tl - c)
      (by omega) (by omega) (by omega) (by omega) (by omega) (by omega)
  rw [← hct]
  obtain ⟨k, hk⟩ : ∃ k : Nat, ct.2.1 = (k : Int) := ⟨ct.2.1.toNat, by rw [hct2]; simp; omega⟩
  obtain ⟨j, hj⟩ : ∃ j : Nat, ct.2.2.1 = (j : Int) := ⟨ct.2.2.1.toNat, by rw [hct2]; simp; omega⟩
  have hkv : (k : Int) = min (w : Int) (max 0 ((tl : Int) - pl)) := by rw [← hk, hct2]
  have hjv : (j : Int) = min (w : Int) (max 0 ((pl : Int) + w + pr - tl - c - pr)) := by rw [← hj, hct2]
  have hkj : k + j ≤ w := by omega
  obtain ⟨il, hil, hempty, hmid⟩ := imageLine_mid cells hwf w pl pr hw ct.2.1 ct.2.2.1 k j hk hj hkj
    (decide (ct.2.1 = 0 ∧ 0 = ct.2.2.1)) (decide (ct.2.1 ≠ (w : Int) ∧ (w : Int) ≠ ct.2.2.1))
    (by simp only [decide_eq_true_eq]; omega) (by simp only [decide_eq_true_eq]; omega)
  rw [hil]
  refine ⟨_, rfl, ?_, ?_⟩
  · -- what it shows
    have hax := axis NN NN (intr [] cells) pl pr tl c (W : Int) (w : Int) (tl : Int) (pl : Int) ((W : Int) - tl - c) (pr : Int)
      hc (by rw [intr_length]; omega) (by rw [intr_length]; omega) (by rw [intr_length]; omega) rfl rfl rfl rfl
    rw [hax, ← hct]
    unfold rowShows
    have hflat : ∀ (cr : List Seg), (padSeg ct.1 ++ il ++ cr ++ padSeg ct.2.2.2 ++ [[Tok.nul, Tok.nul]]).flatten =
        blanks ct.1 ++ (il.flatten ++ cr.flatten ++ (blanks ct.2.2.2 ++ nn)) := by
      intro cr; simp [List.flatten_append, padSeg_flatten, nn]
    rw [hflat]
    have hmt : il.flatten ++ (if (w : Int) > ct.2.2.1 ∧ ct.2.2.1 > 0 then [[Tok.sgr0]] else ([] : List Seg)).flatten =
        midToks il w ct.2.2.1 := rfl
    rw [hmt, List.append_assoc (List.replicate ct.1.toNat NN)]
    unfold blanks
    rw [shows_blanks]
    congr 1
    by_cases he : k = w ∨ j = w
    · rw [hempty he hpos]
      have : (w : Int) = ct.2.1 ∨ (w : Int) = ct.2.2.1 := by omega
      simp only [this, if_true, List.nil_append]
      rw [shows_blanks, cellsOf_nn]; simp
    · have hlt : k + j < w := by omega
      have : ¬ ((w : Int) = ct.2.1 ∨ (w : Int) = ct.2.2.1) := by omega
      simp only [this, if_false]
      rw [(hmid hlt).2, shows_blanks, cellsOf_nn, hk, hj, pySlice_orNone, intr_length, hw]
      simp
  · -- no bleed
    refine ⟨blanks ct.1 ++ midToks il w ct.2.2.1, blanks ct.2.2.2 ++ nn, ?_, ?_, ?_⟩
    · simp [List.flatten_append, padSeg_flatten, nn, midToks]
    · intro t ht
      rcases List.mem_append.mp ht with h | h
      · left; unfold blanks at h; exact (List.mem_replicate.mp h).2
      · right; simpa [nn] using h
    · by_cases he : k = w ∨ j = w
      · left
        rw [hempty he hpos]
        intro t ht
        simp only [List.append_nil] at ht
        unfold blanks at ht; exact (List.mem_replicate.mp ht).2
      · right
        obtain ⟨m, hm⟩ := (hmid (by omega)).1
        intro p
        rw [hm, ← List.append_assoc, penAfter_sgr0]

/-! ## the canvas built by `UrwidImage.render` from rows of cells -/

def padSplitN (a : Align) (n : Nat) : Nat × Nat :=
  match a with
  | .first => (0, n)
  | .last => (n, 0)
  | .mid => (n / 2, n - n / 2)

theorem padSplit_nat (a : Align) (n : Nat) :
    padSplit a (n : Int) = (((padSplitN a n).1 : Int), ((padSplitN a n).2 : Int)) := by
  cases a <;> simp [padSplit, padSplitN] <;> omega

theorem padSplitN_sum (a : Align) (n : Nat) : (padSplitN a n).1 + (padSplitN a n).2 = n := by
  cases a <;> simp [padSplitN] <;> omega

/-- the canvas of an image whose primary render is `img` (rows of cells), `w × h` cells, in a `W × H` widget -/
def cellCanvas (img : List (List Cell)) (w h : Nat) (ha va : Align) (W H : Nat) : Canvas :=
  mkCanvas (img.map absLine) w h ha va W H

theorem cellCanvas_lines (img : List (List Cell)) (w h : Nat) (ha va : Align) (W H : Nat)
    (hw : w ≤ W) (hh : h ≤ H) :
    (cellCanvas img w h ha va W H).lines =
      List.replicate (padSplitN va (H - h)).1 (padCanvasLine W) ++
      img.map (imgCanvasLine (padSplitN ha (W - w)).1 (padSplitN ha (W - w)).2) ++
      List.replicate (padSplitN va (H - h)).2 (padCanvasLine W) := by
  unfold cellCanvas mkCanvas canvasLines formatRender
  have e1 : (W : Int) - (w : Int) = ((W - w : Nat) : Int) := by omega
  have e2 : (H : Int) - (h : Int) = ((H - h : Nat) : Int) := by omega
  simp only [e1, e2, padSplit_nat]
  have hbody : (if (W : Int) > (w : Int) then
        (img.map absLine).map (fun ln => blanks ((padSplitN ha (W - w)).1 : Int) ++ ln ++ blanks ((padSplitN ha (W - w)).2 : Int))
      else img.map absLine) =
      img.map (fun cells => blanks ((padSplitN ha (W - w)).1 : Int) ++ absLine cells ++ blanks ((padSplitN ha (W - w)).2 : Int)) := by
    split
    · simp
    · have : W - w = 0 := by omega
      have hz : padSplitN ha 0 = (0, 0) := by cases ha <;> rfl
      rw [this, hz]; simp [blanks]
  rw [hbody]
  split
  · simp [imgCanvasLine, padCanvasLine, nn, List.map_append]
  · have : H - h = 0 := by omega
    have hz : padSplitN va 0 = (0, 0) := by cases va <;> rfl
    rw [this, hz]
    simp [imgCanvasLine, nn]

/-- what the full canvas shows: default-background padding around the cells' own colours -/
def grid (img : List (List Cell)) (w h : Nat) (ha va : Align) (W H : Nat) : List (List Shown) :=
  List.replicate (padSplitN va (H - h)).1 (List.replicate W NN) ++
  img.map (fun cells => List.replicate (padSplitN ha (W - w)).1 NN ++ intr [] cells ++ List.replicate (padSplitN ha (W - w)).2 NN) ++
  List.replicate (padSplitN va (H - h)).2 (List.replicate W NN)

/-- the sub-rectangle `(tl, tt, c, r)` of a grid -/
def crop {α} (tl tt c r : Nat) (g : List (List α)) : List (List α) :=
  ((g.drop tt).take r).map fun row => (row.drop tl).take c

structure WFImage (img : List (List Cell)) (w h : Nat) : Prop where
  rows : img.length = h
  cols : ∀ cells ∈ img, cells.length = w
  wf : ∀ cells ∈ img, WFFrom [] cells
  wpos : 0 < w
  hpos : 0 < h

def okOr (e : Except Err Row) : Row :=
  match e with
  | .ok r => r
  | .error _ => []

theorem mapM_ok {α} (f : α → Except Err Row) (l : List α) (h : ∀ x ∈ l, ∃ y, f x = .ok y) :
    l.mapM f = .ok (l.map fun x => okOr (f x)) := by
  induction l with
  | nil => rfl
  | cons x xs ih =>
    obtain ⟨y, hy⟩ := h x (by simp)
    rw [List.mapM_cons, hy, ih (fun x' hx' => h x' (by simp [hx']))]
    simp [okOr, hy]
    rfl

theorem pySlice_map {α β} (f : α → β) (l : List α) (a : Int) (b : Option Int) :
    pySlice (l.map f) a b = (pySlice l a b).map f := by
  unfold pySlice
  simp [List.map_take, List.map_drop]

theorem mem_pySlice {α} {l : List α} {a : Int} {b : Option Int} {x : α} (h : x ∈ pySlice l a b) : x ∈ l := by
  unfold pySlice at h
  exact List.mem_of_mem_take (List.mem_of_mem_drop h)

theorem rowShows_padRow (c : Nat) : rowShows [blanks (c : Int) ++ [Tok.nul, Tok.nul]] = List.replicate c NN := by
  unfold rowShows
  simp only [List.flatten_cons, List.flatten_nil, List.append_nil, blanks_nat]
  rw [shows_blanks]
  have := cellsOf_nn ⟨none, none⟩
  unfold nn at this
  rw [this]; simp

theorem noBleed_padRow (c : Int) : NoBleed [blanks c ++ [Tok.nul, Tok.nul]] := by
  refine ⟨blanks c, nn, by simp [nn], ?_, Or.inl ?_⟩
  · intro t ht; right; simpa [nn] using ht
  · intro t ht; unfold blanks at ht; exact (List.mem_replicate.mp ht).2

/-- an untrimmed image line -/
theorem fullRow_img (pl pr : Nat) (cells : List Cell) (hwf : WFFrom [] cells) :
    rowShows [dropNul (imgCanvasLine pl pr cells), [Tok.nul, Tok.nul]] =
      List.replicate pl NN ++ intr [] cells ++ List.replicate pr NN ∧
    NoBleed [dropNul (imgCanvasLine pl pr cells), [Tok.nul, Tok.nul]] := by
  have hs := hwf.allSgr
  have hd : dropNul (imgCanvasLine pl pr cells) =
      List.replicate pl (Tok.glyph .blank) ++ ((cells.map Cell.toks).flatten ++ [Tok.sgr0]) ++ List.replicate pr (Tok.glyph .blank) := by
    unfold imgCanvasLine
    have hb : ∀ n : Nat, dropNul (List.replicate n (Tok.glyph .blank)) = List.replicate n (Tok.glyph .blank) := by
      intro n; apply dropNul_nonul; intro t ht; rw [(List.mem_replicate.mp ht).2]; intro e; cases e
    have hn : dropNul nn = [] := by simp [dropNul, nn]
    have happ : ∀ a b : List Tok, dropNul (a ++ b) = dropNul a ++ dropNul b := by
      intro a b; unfold dropNul; rw [List.filter_append]
    simp only [blanks_nat, happ, hb, hn, dropNul_absLine cells hs, List.append_nil]
  constructor
  · unfold rowShows
    simp only [List.flatten_cons, List.flatten_nil, List.append_nil, hd, List.append_assoc]
    rw [shows_blanks]
    have := cells_shows cells [] ⟨none, none⟩ hwf (List.replicate pr (Tok.glyph .blank) ++ [Tok.nul, Tok.nul])
    simp only [penAfter] at this
    simp only [List.singleton_append]
    rw [this, shows_blanks]
    have hn := cellsOf_nn ⟨none, none⟩
    unfold nn at hn
    rw [hn]; simp
  · refine ⟨List.replicate pl (Tok.glyph .blank) ++ ((cells.map Cell.toks).flatten ++ [Tok.sgr0]),
      List.replicate pr (Tok.glyph .blank) ++ nn, ?_, ?_, Or.inr ?_⟩
    · simp [hd, nn]
    · intro t ht
      rcases List.mem_append.mp ht with h | h
      · left; exact (List.mem_replicate.mp h).2
      · right; simpa [nn] using h
    · intro p; rw [← List.append_assoc, penAfter_sgr0]

theorem fullRow_pad (W : Nat) :
    rowShows [dropNul (padCanvasLine W), [Tok.nul, Tok.nul]] = List.replicate W NN ∧
    NoBleed [dropNul (padCanvasLine W), [Tok.nul, Tok.nul]] := by
  have hd : dropNul (padCanvasLine W) = List.replicate W (Tok.glyph .blank) := by
    unfold padCanvasLine dropNul
    simp only [blanks_nat, List.filter_append, nn]
    rw [List.filter_eq_self.mpr]
    · simp
    · intro t ht; rw [(List.mem_replicate.mp ht).2]; simp
  constructor
  · have := rowShows_padRow W
    unfold rowShows at this ⊢
    simpa [hd] using this
  · refine ⟨List.replicate W (Tok.glyph .blank), nn, by simp [hd, nn], ?_, Or.inl ?_⟩
    · intro t ht; right; simpa [nn] using ht
    · intro t ht; exact (List.mem_replicate.mp ht).2

end TIV.C17
