import TIV.C17.Proofs2
/-! C17: the lines `BlockImage._render_image(split_cells=True)` writes are well-formed rows of cells (link to C02's `want`) -/
set_option linter.unusedVariables false
namespace TIV.C17
open TIV TIV.Block

/-- cells each followed by NUL — how the renderer writes them before the last NUL is overwritten -/
def cellsNul (cs : List Cell) : List Tok := cs.flatMap fun c => c.toks ++ [Tok.nul]

/-- one colour run: the first cell carries the SGR prefix -/
def runCells (pre : List Tok) (g : Glyph) : Nat → List Cell
  | 0 => []
  | n + 1 => ⟨pre, g⟩ :: List.replicate n ⟨[], g⟩

theorem cellsNul_run (pre : List Tok) (g : Glyph) (n : Nat) :
    cellsNul (runCells pre g (n + 1)) = pre ++ glyphs g (n + 1) true := by
  have aux : ∀ m : Nat, cellsNul (List.replicate m (⟨[], g⟩ : Cell)) = (List.replicate m [Tok.glyph g, Tok.nul]).flatten := by
    intro m
    induction m with
    | zero => rfl
    | succ m ih =>
      have e : cellsNul (List.replicate (m + 1) (⟨[], g⟩ : Cell)) =
          [Tok.glyph g, Tok.nul] ++ cellsNul (List.replicate m (⟨[], g⟩ : Cell)) := by
        simp [cellsNul, List.replicate_succ, Cell.toks]
      rw [e, ih]; simp [List.replicate_succ]
  have e : cellsNul (runCells pre g (n + 1)) = pre ++ ([Tok.glyph g, Tok.nul] ++ cellsNul (List.replicate n (⟨[], g⟩ : Cell))) := by
    simp [cellsNul, runCells, Cell.toks]
  rw [e, aux]
  simp [glyphs, List.replicate_succ]

theorem WFFrom_any {cells : List Cell} (cur : List Tok) (h : WFFrom [] cells) :
    WFFrom cur cells ∧ intr cur cells = intr [] cells := by
  cases cells with
  | nil => exact ⟨trivial, rfl⟩
  | cons c cs =>
    have hp : c.pre ≠ [] := by
      intro e; have := h.2.1; rw [nextCur_nil e] at this; exact this rfl
    exact WFFrom_head hp h

theorem WFFrom_run (pre : List Tok) (g : Glyph) (n : Nat) (rest : List Cell) (cur : List Tok)
    (hp : pre ≠ []) (hs : ∀ t ∈ pre, isSgr t = true) (hd : Determined pre g) (hg : g ≠ Glyph.ch 'm')
    (hr : WFFrom [] rest) :
    WFFrom cur (runCells pre g (n + 1) ++ rest) ∧
      intr cur (runCells pre g (n + 1) ++ rest) = List.replicate (n + 1) (sh pre g) ++ intr [] rest := by
  have htail : ∀ m : Nat, WFFrom pre (List.replicate m (⟨[], g⟩ : Cell) ++ rest) ∧
      intr pre (List.replicate m (⟨[], g⟩ : Cell) ++ rest) = List.replicate m (sh pre g) ++ intr [] rest := by
    intro m
    induction m with
    | zero => simpa using WFFrom_any pre hr
    | succ m ih =>
      simp only [List.replicate_succ, List.cons_append, WFFrom, intr]
      have e : nextCur pre (⟨[], g⟩ : Cell) = pre := nextCur_nil rfl
      rw [e]
      exact ⟨⟨by simp, hp, hd, hg, ih.1⟩, by rw [ih.2]⟩
  simp only [runCells, List.cons_append, WFFrom, intr]
  have e : nextCur cur (⟨pre, g⟩ : Cell) = pre := nextCur_pre hp
  rw [e]
  exact ⟨⟨hs, hp, hd, hg, (htail n).1⟩, by rw [(htail n).2]; simp [List.replicate_succ]⟩

/-- one `update_buffer()` in split-cells mode is one run of cells that shows `want` -/
theorem updateBuffer_run (cfg : Cfg) (hsplit : cfg.split = true) (cl : PP) (n : Nat) :
    ∃ pre g, updateBuffer cfg cl (n + 1) = cellsNul (runCells pre g (n + 1)) ∧ pre ≠ [] ∧
      (∀ t ∈ pre, isSgr t = true) ∧ Determined pre g ∧ g ≠ Glyph.ch 'm' ∧ sh pre g = want cfg cl := by
  unfold updateBuffer
  obtain ⟨c1, c2, a1, a2⟩ := cl
  obtain ⟨r, g, b⟩ := c2
  simp only [hsplit]
  by_cases h1 : cfg.alpha = true ∧ a1 = 0 ∧ a2 = 0
  · refine ⟨[Tok.sgr0], .blank, ?_, by simp, by simp [isSgr], ?_, by simp, ?_⟩
    · rw [if_pos h1, cellsNul_run]; rfl
    · intro p; simp [showsPen, sh, penAfter, Pen.step]
    · simp [sh, showsPen, penAfter, Pen.step, Block.shows, want, h1.1, h1.2.1, h1.2.2]
  · rw [if_neg h1]
    by_cases h2 : cfg.alpha = true ∧ a1 = 0
    · refine ⟨[Tok.sgr0, Tok.fg (r, g, b)], .lower, ?_, by simp, by simp [isSgr], ?_, by simp, ?_⟩
      · rw [if_pos h2, cellsNul_run]; rfl
      · intro p; simp [showsPen, sh, penAfter, Pen.step]
      · have : ¬ a2 = 0 := fun e => h1 ⟨h2.1, h2.2, e⟩
        simp [sh, showsPen, penAfter, Pen.step, Block.shows, want, h2.1, h2.2, this]
    · rw [if_neg h2]
      by_cases h3 : cfg.alpha = true ∧ a2 = 0
      · refine ⟨[Tok.sgr0, Tok.fg c1], .upper, ?_, by simp, by simp [isSgr], ?_, by simp, ?_⟩
        · rw [if_pos h3, cellsNul_run]; rfl
        · intro p; simp [showsPen, sh, penAfter, Pen.step]
        · have : ¬ a1 = 0 := fun e => h2 ⟨h3.1, e⟩
          simp [sh, showsPen, penAfter, Pen.step, Block.shows, want, h3.1, h3.2, this]
      · rw [if_neg h3]
        have hw : want cfg ⟨c1, (r, g, b), a1, a2⟩ =
            if c1 = (r, g, b) then (some (tweak cfg (r, g, b)), some (tweak cfg (r, g, b)))
            else (some c1, some (tweak cfg (r, g, b))) := by
          unfold want
          cases hα : cfg.alpha
          · simp
          · have n1 : ¬ a1 = 0 := fun e => h2 ⟨hα, e⟩
            have n2 : ¬ a2 = 0 := fun e => h3 ⟨hα, e⟩
            simp [n1, n2]
        have htw : tweak cfg (r, g, b) = ((if cfg.kitty = true ∧ some (r, g, b) = cfg.bgColor then bump r else r), g, b) := by
          unfold tweak; split <;> rfl
        by_cases h4 : c1 = (r, g, b)
        · refine ⟨[Tok.bg ((if cfg.kitty = true ∧ some (r, g, b) = cfg.bgColor then bump r else r), g, b)], .blank,
            ?_, by simp, by simp [isSgr], ?_, by simp, ?_⟩
          · simp only [h4, if_true]
            rw [cellsNul_run]; rfl
          · intro p; simp [showsPen, sh, penAfter, Pen.step, Block.shows]
          · rw [hw, htw]; simp [sh, showsPen, penAfter, Pen.step, Block.shows, h4]
        · refine ⟨[Tok.bg ((if cfg.kitty = true ∧ some (r, g, b) = cfg.bgColor then bump r else r), g, b), Tok.fg c1], .upper,
            ?_, by simp, by simp [isSgr], ?_, by simp, ?_⟩
          · simp only [h4, if_false]
            rw [cellsNul_run]; rfl
          · intro p; simp [showsPen, sh, penAfter, Pen.step, Block.shows]
          · rw [hw, htw]; simp [sh, showsPen, penAfter, Pen.step, Block.shows, h4]

theorem cellsNul_append (a b : List Cell) : cellsNul (a ++ b) = cellsNul a ++ cellsNul b := by
  unfold cellsNul; simp

/-- the inner loop writes well-formed cells, one per pixel pair, showing `want` -/
theorem loop_cells (cfg : Cfg) (hsplit : cfg.split = true) (ps : List PP) : ∀ (cl : PP) (n : Nat),
    ∃ cells, loop cfg cl (n + 1) ps = cellsNul cells ∧ WFFrom [] cells ∧ cells ≠ [] ∧
      intr [] cells = List.replicate (n + 1) (want cfg cl) ++ ps.map (want cfg) := by
  induction ps with
  | nil =>
    intro cl n
    obtain ⟨pre, g, h1, h2, h3, h4, h5, h6⟩ := updateBuffer_run cfg hsplit cl n
    have := WFFrom_run pre g n [] [] h2 h3 h4 h5 trivial
    simp only [List.append_nil] at this
    refine ⟨runCells pre g (n + 1), by simpa [loop] using h1, this.1, by simp [runCells], ?_⟩
    rw [this.2, h6]; simp [intr]
  | cons p ps ih =>
    intro cl n
    unfold loop
    split
    · obtain ⟨pre, g, h1, h2, h3, h4, h5, h6⟩ := updateBuffer_run cfg hsplit cl n
      obtain ⟨rest, hr1, hr2, hr3, hr4⟩ := ih (newCluster cfg cl p) 0
      have := WFFrom_run pre g n rest [] h2 h3 h4 h5 hr2
      refine ⟨runCells pre g (n + 1) ++ rest, by rw [cellsNul_append, h1, hr1], this.1, by simp [runCells], ?_⟩
      rw [this.2, h6, hr4, want_newCluster]
      simp
    · rename_i hf
      have hf' : mustFlush cfg cl p = false := by simpa using hf
      obtain ⟨cells, hc1, hc2, hc3, hc4⟩ := ih cl (n + 1)
      refine ⟨cells, hc1, hc2, hc3, ?_⟩
      rw [hc4]
      simp [List.replicate_succ', same_want cfg cl p hf']

theorem absLine_cellsNul (cells : List Cell) (h : cells ≠ []) :
    absLine cells = (cellsNul cells).dropLast ++ [Tok.sgr0] := by
  induction cells with
  | nil => exact absurd rfl h
  | cons c cs ih =>
    cases cs with
    | nil => simp [absLine, cellsNul, List.dropLast_append_of_ne_nil]
    | cons c2 cs =>
      have := ih (by simp)
      simp only [absLine, this]
      have e : cellsNul (c :: c2 :: cs) = (c.toks ++ [Tok.nul]) ++ cellsNul (c2 :: cs) := by simp [cellsNul]
      have hne : cellsNul (c2 :: cs) ≠ [] := by simp [cellsNul, Cell.toks]
      rw [e, List.dropLast_append_of_ne_nil hne]
      simp

theorem cellsNul_last (cells : List Cell) (h : cells ≠ []) : ∃ xs, cellsNul cells = xs ++ [Tok.nul] := by
  induction cells with
  | nil => exact absurd rfl h
  | cons c cs ih =>
    cases cs with
    | nil => exact ⟨c.toks, by simp [cellsNul]⟩
    | cons c2 cs =>
      obtain ⟨xs, hxs⟩ := ih (by simp)
      refine ⟨c.toks ++ [Tok.nul] ++ xs, ?_⟩
      have e : cellsNul (c :: c2 :: cs) = (c.toks ++ [Tok.nul]) ++ cellsNul (c2 :: cs) := by simp [cellsNul]
      rw [e, hxs]; simp

/-- a block line in split-cells mode (with its closing `SGR 0`) is a well-formed row of cells showing `want` -/
theorem blockLine_cells (cfg : Cfg) (hsplit : cfg.split = true) (row : List PP) (hrow : row ≠ []) :
    ∃ cells, Block.line cfg row ++ [Tok.sgr0] = absLine cells ∧ WFFrom [] cells ∧
      intr [] cells = row.map (want cfg) := by
  cases row with
  | nil => exact absurd rfl hrow
  | cons p ps =>
    obtain ⟨cells, h1, h2, h3, h4⟩ := loop_cells cfg hsplit ps p 0
    refine ⟨cells, ?_, h2, by rw [h4]; simp⟩
    unfold Block.line
    simp only [hsplit, if_true]
    have hl : loop cfg p 0 (p :: ps) = loop cfg p 1 ps := by
      rw [loop]; simp [mustFlush_self]
    rw [hl, h1, absLine_cellsNul cells h3]
    obtain ⟨xs, hxs⟩ := cellsNul_last cells h3
    rw [hxs]
    unfold dropLastNul
    simp

/-! ## small facts used by the property theorems -/

theorem cellsOf_length_pen (p q : Pen) (ts : List Tok) : (cellsOf p ts).length = (cellsOf q ts).length := by
  induction ts generalizing p q with
  | nil => rfl
  | cons t ts ih => cases t <;> simp [cellsOf] <;> exact ih _ _

theorem crop_full {α} (g : List (List α)) (W H : Nat) (hH : g.length = H) (hW : ∀ row ∈ g, row.length = W) :
    crop 0 0 W H g = g := by
  unfold crop
  rw [List.drop_zero, List.take_of_length_le (by omega)]
  have : ∀ row ∈ g, (fun row : List α => (row.drop 0).take W) row = id row := by
    intro row hrow
    simp only [List.drop_zero, id]
    exact List.take_of_length_le (by rw [hW row hrow]; omega)
  rw [List.map_congr_left this, List.map_id]

theorem grid_length (img : List (List Cell)) (w h : Nat) (ha va : Align) (W H : Nat) (hI : WFImage img w h) (hh : h ≤ H) :
    (grid img w h ha va W H).length = H := by
  unfold grid
  have := padSplitN_sum va (H - h)
  simp [hI.rows]; omega

/-- what a block image of pixel-pair rows `px` shows in its widget: `Block.want` of every pixel pair,
    surrounded by default-background padding -/
def wantGrid (cfg : Block.Cfg) (px : List (List Block.PP)) (w h : Nat) (ha va : Align) (W H : Nat) : List (List Shown) :=
  List.replicate (padSplitN va (H - h)).1 (List.replicate W NN) ++
  px.map (fun row => List.replicate (padSplitN ha (W - w)).1 NN ++ row.map (Block.want cfg) ++ List.replicate (padSplitN ha (W - w)).2 NN) ++
  List.replicate (padSplitN va (H - h)).2 (List.replicate W NN)

theorem block_img (cfg : Block.Cfg) (hsplit : cfg.split = true) (px : List (List Block.PP)) (w : Nat) (hw0 : 0 < w)
    (hpx : ∀ row ∈ px, row.length = w) :
    ∃ img : List (List Cell), Block.renderLines cfg px = img.map absLine ∧ img.length = px.length ∧
      (∀ cells ∈ img, cells.length = w) ∧ (∀ cells ∈ img, WFFrom [] cells) ∧
      img.map (intr []) = px.map (fun row => row.map (Block.want cfg)) := by
  induction px with
  | nil => exact ⟨[], rfl, rfl, by simp, by simp, rfl⟩
  | cons row rest ih =>
    obtain ⟨img, h1, h2, h3, h4, h5⟩ := ih (fun r hr => hpx r (by simp [hr]))
    have hrl := hpx row (by simp)
    obtain ⟨cells, c1, c2, c3⟩ := blockLine_cells cfg hsplit row (by intro e; subst e; simp at hrl; omega)
    refine ⟨cells :: img, ?_, by simp [h2], ?_, ?_, ?_⟩
    · simp only [Block.renderLines, List.map_cons] at h1 ⊢
      rw [c1, h1]
    · intro cs hcs
      rcases List.mem_cons.mp hcs with e | e
      · subst e
        have := congrArg List.length c3
        rw [intr_length] at this
        simpa [hrl] using this
      · exact h3 cs e
    · intro cs hcs
      rcases List.mem_cons.mp hcs with e | e
      · subst e; exact c2
      · exact h4 cs e
    · simp only [List.map_cons, c3, h5]


end TIV.C17
