import TIV.Common.TermDrive
import TIV.C17.Model
/-! driver ops of C17 (plus the shared `term.run` / `tok.str`) -/
namespace TIV.C17
open TIV TIV.Wire

def pAlign : P Align := do
  let w ← word
  if w == "f" then pure .first else if w == "l" then pure .last else if w == "m" then pure .mid else failure

def pLines : P (List (List Tok)) := listOf (listOf TermDrive.pTok)

def segHex (s : Seg) : String := hexEncode (toksStr s).toUTF8.toList

/-- rows are compared as content: the bytes of a row, whatever way they are split into `(None, "U", …)` segments -/
def fmtRows (rows : List Row) : String :=
  String.intercalate " " ("ok" :: rows.map fun r => segHex r.flatten)

def pReq : P (Int × Int × Int × Int) := do
  let a ← int; let b ← int; let c ← int; let d ← int; pure (a, b, c, d)

def fmtErr : Err → String
  | .indexError => "err IndexError"
  | .valueError => "err ValueError"

def fmtContent : Except Err (List Row) → String
  | .ok rows => fmtRows rows
  | .error e => fmtErr e

def fmtGRow : GRow (List UInt8) → String
  | .line l d => hexEncode (l ++ (List.replicate d [8, 32]).flatten)
  | .blank n => hexEncode (List.replicate n.toNat 32)

def pSize : P (Int × Int) := do let a ← int; let b ← int; pure (a, b)

def handler : Handler := fun op args =>
  match op with
  | "trim" => run (do
      let size ← int; let isz ← int; let t1 ← int; let p1 ← int; let t2 ← int; let p2 ← int
      let (a, b, c, d) := calcTrim size isz t1 p1 t2 p2
      pure s!"ok {a} {b} {c} {d}") args
  | "content" => run (do
      let cols ← int; let rows ← int; let imgCols ← int; let imgRows ← int
      let hAlign ← pAlign; let vAlign ← pAlign
      let tl ← int; let tt ← int; let c ← int; let r ← int
      let lines ← pLines
      let cv : Canvas := { cols, rows, imgCols, imgRows, lines, hAlign, vAlign }
      pure (match textContent cv tl tt c r with
        | .ok rows => fmtRows rows
        | .error e => fmtErr e)) args
  | "contentat" => run (do
      let curW ← int; let curH ← int
      let cols ← int; let rows ← int; let imgCols ← int; let imgRows ← int
      let hAlign ← pAlign; let vAlign ← pAlign
      let tl ← int; let tt ← int; let c ← int; let r ← int
      let lines ← pLines
      let ws : WidgetState := { hAlign, vAlign, imageSize := (curW, curH) }
      let cv : CanvasVal := { cols, rows, imgCols, imgRows, lines }
      pure (match contentAt ws cv tl tt c r with
        | .ok rows => fmtRows rows
        | .error e => fmtErr e)) args
  | "contentn" => run (do
      -- several requests on ONE canvas value (consumed interleaved by the real code): each is answered on its own
      let cols ← int; let rows ← int; let imgCols ← int; let imgRows ← int
      let hAlign ← pAlign; let vAlign ← pAlign
      let reqs ← listOf pReq
      let lines ← pLines
      let cv : Canvas := { cols, rows, imgCols, imgRows, lines, hAlign, vAlign }
      pure (String.intercalate " / " (reqs.map fun (tl, tt, c, r) => fmtContent (textContent cv tl tt c r)))) args
  | "gfxn" => run (do
      let cols ← int; let rows ← int
      let cs ← nat; let ws ← nat; let k ← bool; let i ← bool; let ko ← bool
      let reqs ← listOf pReq
      let lines ← listOf hex
      pure (String.intercalate " / " (reqs.map fun (tl, tt, c, r) =>
        String.intercalate " " ("ok" :: (gfxContent lines cols rows tl tt c r (disguiseCount cs ws k i ko)).map fmtGRow)))) args
  | "gfx" => run (do
      let cols ← int; let rows ← int
      let tl ← int; let tt ← int; let c ← int; let r ← int
      let cs ← nat; let ws ← nat; let k ← bool; let i ← bool; let ko ← bool
      let lines ← listOf hex
      pure (String.intercalate " " ("ok" :: (gfxContent lines cols rows tl tt c r (disguiseCount cs ws k i ko)).map fmtGRow))) args
  | "foreign" => run (do
      let rows ← int; let tt ← int; let r ← int
      let lines ← listOf hex
      pure (String.intercalate " " ("ok" :: (foreignContent lines rows tt r).map fmtGRow))) args
  | "canvas" => run (do
      let imgCols ← int; let imgRows ← int; let hAlign ← pAlign; let vAlign ← pAlign
      let cols ← int; let rows ← int
      let render ← pLines
      let cv := mkCanvas render imgCols imgRows hAlign vAlign cols rows
      pure (String.intercalate " " ("ok" :: cv.lines.map segHex))) args
  | "rows" => run (do
      let fit ← bool; let c ← int; let vw ← pSize; let vo ← pSize
      let vs : SizeReq → Int × Int := fun | .width _ => vw | .original => vo | .frame _ _ _ => (0, 0)
      pure s!"ok {widgetRows vs fit c}") args
  | "flow" => run (do
      let fit ← bool; let c ← int; let vw ← pSize; let vo ← pSize
      let vs : SizeReq → Int × Int := fun | .width _ => vw | .original => vo | .frame _ _ _ => (0, 0)
      let ((a, b), (x, y)) := flowSizes vs fit c
      pure s!"ok {a} {b} {x} {y}") args
  | "box" => run (do
      let fit ← bool; let c ← int; let r ← int; let vf ← pSize
      let vs : SizeReq → Int × Int := fun _ => vf
      let ((a, b), (x, y)) := boxSizes vs fit c r
      pure s!"ok {a} {b} {x} {y}") args
  | "render" => run (do
      let fit ← bool; let fails ← bool; let ph ← bool; let kind ← word
      let (arg, vs) ← (do
        if kind == "flow" then
          let c ← int; let vw ← pSize; let vo ← pSize
          let vs : SizeReq → Int × Int := fun | .width _ => vw | .original => vo | .frame _ _ _ => (0, 0)
          pure (SizeArg.flow c, vs)
        else if kind == "box" then
          let c ← int; let r ← int; let vf ← pSize
          let vs : SizeReq → Int × Int := fun _ => vf
          pure (SizeArg.box c r, vs)
        else failure : P (SizeArg × (SizeReq → Int × Int)))
      pure (match widgetRender vs fit arg fails ph with
        | .image a b x y => s!"ok image {a} {b} {x} {y}"
        | .placeholder sz => String.intercalate " " ("ok placeholder" :: sz.map toString)
        | .raised => "err raised")) args
  | "split" => run (do
      let l ← listOf TermDrive.pTok
      pure (String.intercalate " " ("ok" :: (splitNul l).map segHex))) args
  | "firstcolor" => run (do
      let til ← int; let cells ← pLines
      pure (match firstColor cells til with
        | .ok segs => String.intercalate " " ("ok" :: segs.map segHex)
        | .error e => fmtErr e)) args
  | "slice" => run (do
      let start ← int; let stop ← optOf int; let l ← listOf nat
      pure (String.intercalate " " ("ok" :: (pySlice l start stop).map toString))) args
  | "revfrom" => run (do
      let i ← int; let l ← listOf nat
      pure (String.intercalate " " ("ok" :: (pyRevFrom l i).map toString))) args
  | "get" => run (do
      let i ← int; let l ← listOf nat
      pure (match pyGet l i with | some x => s!"ok {x}" | none => "err IndexError")) args
  | _ => TermDrive.handler op args

end TIV.C17
