import TIV.C17.Proofs
/-! C17: the whole of `content` on a canvas built from rows of cells -/
set_option linter.unusedVariables false
namespace TIV.C17
open TIV

theorem grid_row_length (img : List (List Cell)) (w h : Nat) (ha va : Align) (W H : Nat)
    (hI : WFImage img w h) (hw : w ≤ W) : ∀ row ∈ grid img w h ha va W H, row.length = W := by
  intro row hrow
  unfold grid at hrow
  have hs := padSplitN_sum ha (W - w)
  rcases List.mem_append.mp hrow with h1 | h1
  · rcases List.mem_append.mp h1 with h2 | h2
    · rw [(List.mem_replicate.mp h2).2]; simp
    · obtain ⟨cells, hc, rfl⟩ := List.mem_map.mp h2
      simp [intr_length, hI.cols cells hc]; omega
  · rw [(List.mem_replicate.mp h1).2]; simp

theorem textContent_spec (img : List (List Cell)) (w h : Nat) (ha va : Align) (W H : Nat)
    (hI : WFImage img w h) (hw : w ≤ W) (hh : h ≤ H)
    (tl tt c r : Nat) (hc : 0 < c) (hr : 0 < r) (hfc : tl + c ≤ W) (hfr : tt + r ≤ H)
    (cI rI : Int) (hcI : pyOr cI W = c) (hrI : pyOr rI H = r) :
    ∃ out, textContent (cellCanvas img w h ha va W H) tl tt cI rI = .ok out ∧
      out.map rowShows = crop tl tt c r (grid img w h ha va W H) ∧ ∀ row ∈ out, NoBleed row := by
  obtain ⟨cv, hcv⟩ : ∃ cv, cv = cellCanvas img w h ha va W H := ⟨_, rfl⟩
  have hcols : cv.cols = W := by rw [hcv]; rfl
  have hrows : cv.rows = H := by rw [hcv]; rfl
  have hic : cv.imgCols = w := by rw [hcv]; rfl
  have hir : cv.imgRows = h := by rw [hcv]; rfl
  have hha : cv.hAlign = ha := by rw [hcv]; rfl
  have hva : cv.vAlign = va := by rw [hcv]; rfl
  have hlines := cellCanvas_lines img w h ha va W H hw hh
  rw [← hcv] at hlines ⊢
  obtain ⟨pl, hpl⟩ : ∃ pl, pl = (padSplitN ha (W - w)).1 := ⟨_, rfl⟩
  obtain ⟨pr, hpr⟩ : ∃ pr, pr = (padSplitN ha (W - w)).2 := ⟨_, rfl⟩
  obtain ⟨pt, hpt⟩ : ∃ pt, pt = (padSplitN va (H - h)).1 := ⟨_, rfl⟩
  obtain ⟨pb, hpb⟩ : ∃ pb, pb = (padSplitN va (H - h)).2 := ⟨_, rfl⟩
  have hsumH := padSplitN_sum ha (W - w)
  have hsumV := padSplitN_sum va (H - h)
  rw [← hpl, ← hpr] at hsumH
  rw [← hpt, ← hpb] at hsumV
  rw [← hpl, ← hpr, ← hpt, ← hpb] at hlines
  have hgrid : grid img w h ha va W H = List.replicate pt (List.replicate W NN) ++
      img.map (fun cells => List.replicate pl NN ++ intr [] cells ++ List.replicate pr NN) ++
      List.replicate pb (List.replicate W NN) := by
    unfold grid; rw [← hpl, ← hpr, ← hpt, ← hpb]
  have hlen : cv.lines.length = H := by
    rw [hlines]; simp [hI.rows]; omega
  have hb : (H : Int) - (tt : Int) - (r : Int) = ((H - tt - r : Nat) : Int) := by omega
  unfold textContent
  simp only [hcols, hrows, hcI, hrI]
  by_cases hfull : tl = 0 ∧ c = W
  · -- no horizontal trim: whole lines
    obtain ⟨htl, hcW⟩ := hfull
    subst htl hcW
    have hcond : ((0 : Nat) : Int) = 0 ∧ (0 : Int) = (c : Int) - ((0 : Nat) : Int) - (c : Int) := by omega
    rw [if_pos hcond]
    refine ⟨_, rfl, ?_, ?_⟩
    · rw [hb, pySlice_orNone, hlen, List.drop_take]
      have e : H - (H - tt - r) - tt = r := by omega
      rw [e, List.map_map, List.map_take, List.map_drop]
      unfold crop
      have hmap : cv.lines.map (rowShows ∘ fun line => [dropNul line, [Tok.nul, Tok.nul]]) = grid img w h ha va c H := by
        rw [hlines, hgrid]
        simp only [List.map_append, List.map_replicate, List.map_map, Function.comp]
        congr 1
        · congr 1
          · rw [(fullRow_pad c).1]
          · apply List.map_congr_left
            intro cells hcells
            exact (fullRow_img pl pr cells (hI.wf cells hcells)).1
        · rw [(fullRow_pad c).1]
      rw [hmap]
      symm
      have hid : ∀ row ∈ List.take r (List.drop tt (grid img w h ha va c H)),
          (fun row : List Shown => (row.drop 0).take c) row = id row := by
        intro row hrow
        have := grid_row_length img w h ha va c H hI hw row (List.mem_of_mem_drop (List.mem_of_mem_take hrow))
        simp only [List.drop_zero, id]
        exact List.take_of_length_le (by omega)
      rw [List.map_congr_left hid, List.map_id]
    · intro row hrow
      obtain ⟨line, hline, rfl⟩ := List.mem_map.mp hrow
      have hl := mem_pySlice hline
      rw [hlines] at hl
      rcases List.mem_append.mp hl with h1 | h1
      · rcases List.mem_append.mp h1 with h2 | h2
        · rw [(List.mem_replicate.mp h2).2]; exact (fullRow_pad c).2
        · obtain ⟨cells, hcells, rfl⟩ := List.mem_map.mp h2
          exact (fullRow_img pl pr cells (hI.wf cells hcells)).2
      · rw [(List.mem_replicate.mp h1).2]; exact (fullRow_pad c).2
  · -- horizontal trim
    have hcond : ¬ ((tl : Int) = 0 ∧ (0 : Int) = (W : Int) - (tl : Int) - (c : Int)) := by omega
    simp only [hcond, if_false, hir, hva]
    have e2 : (H : Int) - (h : Int) = ((H - h : Nat) : Int) := by omega
    rw [e2, padSplit_nat, ← hpt, ← hpb]
    simp only
    obtain ⟨ct, hct⟩ : ∃ ct, ct = calcTrim (H : Int) (h : Int) (tt : Int) (pt : Int) ((H : Int) - tt - r) (pb : Int) := ⟨_, rfl⟩
    rw [← hct]
    -- the image lines of the canvas
    have hls : pySlice cv.lines (pt : Int) (orNone (-(pb : Int))) = img.map (imgCanvasLine pl pr) := by
      rw [pySlice_orNone, hlen, hlines]
      have e : H - pb = pt + (img.map (imgCanvasLine pl pr)).length := by simp [hI.rows]; omega
      rw [e]
      simp [List.take_append, List.drop_append, padCanvasLine]
    rw [hls]
    -- the image lines selected by the vertical trim: the middle term of `axis`
    have hsel : (if (decide ((h : Int) = ct.2.1 ∨ (h : Int) = ct.2.2.1)) = true then ([] : List (List Tok))
        else if (decide (ct.2.1 ≠ (h : Int) ∧ (h : Int) ≠ ct.2.2.1)) = true then
          pySlice (img.map (imgCanvasLine pl pr)) ct.2.1 (orNone (-ct.2.2.1))
        else img.map (imgCanvasLine pl pr)) =
        (pySlice (if (h : Int) = ct.2.1 ∨ (h : Int) = ct.2.2.1 then [] else img) ct.2.1 (orNone (-ct.2.2.1))).map (imgCanvasLine pl pr) := by
      by_cases hE : (h : Int) = ct.2.1 ∨ (h : Int) = ct.2.2.1
      · simp only [hE, decide_true, if_true]; simp [pySlice]
      · have hP : ct.2.1 ≠ (h : Int) ∧ (h : Int) ≠ ct.2.2.1 := by omega
        have d1 : decide ((h : Int) = ct.2.1 ∨ (h : Int) = ct.2.2.1) = false := decide_eq_false hE
        have d2 : decide (ct.2.1 ≠ (h : Int) ∧ (h : Int) ≠ ct.2.2.1) = true := decide_eq_true hP
        rw [d1, d2, if_neg Bool.false_ne_true, if_pos rfl, if_neg hE, pySlice_map]
    rw [hsel]
    obtain ⟨sel, hselv⟩ : ∃ sel, sel = pySlice (if (h : Int) = ct.2.1 ∨ (h : Int) = ct.2.2.1 then [] else img) ct.2.1 (orNone (-ct.2.2.1)) := ⟨_, rfl⟩
    rw [← hselv]
    have hselmem : ∀ cells ∈ sel, cells ∈ img := by
      intro cells hcs
      rw [hselv] at hcs
      have := mem_pySlice hcs
      split at this
      · simp at this
      · exact this
    have hS : HSetup cv W w pl pr := ⟨hcols, hic, by
      rw [hcols, hic, hha]
      have e1 : (W : Int) - (w : Int) = ((W - w : Nat) : Int) := by omega
      rw [e1, padSplit_nat, ← hpl, ← hpr], by omega, hI.wpos⟩
    have hrowsOK : ∀ line ∈ sel.map (imgCanvasLine pl pr), ∃ y, imageRow cv (tl : Int) ((W : Int) - tl - c) line = .ok y := by
      intro line hline
      obtain ⟨cells, hcells, rfl⟩ := List.mem_map.mp hline
      obtain ⟨row, hrow, _⟩ := imageRow_spec cv W w pl pr tl c cells hS (hI.cols cells (hselmem cells hcells))
        (hI.wf cells (hselmem cells hcells)) hc hfc
      exact ⟨row, hrow⟩
    rw [mapM_ok _ _ hrowsOK]
    refine ⟨_, rfl, ?_, ?_⟩
    · -- shows = crop
      unfold crop
      rw [hgrid]
      have hax := axis (List.replicate W NN) (List.replicate W NN)
        (img.map (fun cells => List.replicate pl NN ++ intr [] cells ++ List.replicate pr NN)) pt pb tt r
        (H : Int) (h : Int) (tt : Int) (pt : Int) ((H : Int) - tt - r) (pb : Int) hr
        (by simp [hI.rows]; omega) (by simp [hI.rows]; omega) (by simp [hI.rows]) rfl rfl rfl rfl
      rw [hax, ← hct]
      simp only [List.map_append, List.map_replicate, List.map_map]
      congr 1
      · congr 1
        · congr 1
          rw [rowShows_padRow]
          simp only [List.drop_replicate, List.take_replicate]
          congr 1; omega
        · rw [hselv]
          by_cases hE : (h : Int) = ct.2.1 ∨ (h : Int) = ct.2.2.1
          · simp [hE, pySlice]
          · simp only [hE, if_false]
            rw [pySlice_map, List.map_map]
            apply List.map_congr_left
            intro cells hcells
            have hmem := mem_pySlice hcells
            obtain ⟨row, hrow, hshow, _⟩ := imageRow_spec cv W w pl pr tl c cells hS (hI.cols cells hmem)
              (hI.wf cells hmem) hc hfc
            simp only [Function.comp, hrow, okOr, hshow]
      · congr 1
        rw [rowShows_padRow]
        simp only [List.drop_replicate, List.take_replicate]
        congr 1; omega
    · intro row hrow
      rcases List.mem_append.mp hrow with h1 | h1
      · rcases List.mem_append.mp h1 with h2 | h2
        · rw [(List.mem_replicate.mp h2).2]; exact noBleed_padRow _
        · obtain ⟨line, hline, rfl⟩ := List.mem_map.mp h2
          obtain ⟨cells, hcells, rfl⟩ := List.mem_map.mp hline
          obtain ⟨row, hrow, _, hnb⟩ := imageRow_spec cv W w pl pr tl c cells hS (hI.cols cells (hselmem cells hcells))
            (hI.wf cells (hselmem cells hcells)) hc hfc
          simp only [hrow, okOr]; exact hnb
      · rw [(List.mem_replicate.mp h1).2]; exact noBleed_padRow _

end TIV.C17
