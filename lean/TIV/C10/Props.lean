import TIV.C10.ProofsOps
/-!
# C10 — property theorems: render data is finalized exactly once and never used afterwards

All theorems quantify over every frame count `fc`, every history `h : List (Op × Flt)` (each
operation with its own fault plan: none, or "the k-th `_render_` / size validation / `write`
raises e") that is admissible (`Adm`), and every object / iterator of the resulting world.
A history step = the operation's program under its fault plan, then the exception is dropped and
the GC runs (`dropRefs`).
-/
namespace TIV.C10
open TIV.Prog

/-- INVARIANT: after every admissible history the world is quiescent-good -/
theorem inv_history (s : Bool) (h : List (Op × Flt)) : ∀ (w : World), Inv s w → Adm s h → Inv s (runHist w h) := by
  induction h with
  | nil => intro w hw _; exact hw
  | cons x h ih =>
    intro w hw hadm
    obtain ⟨op, f⟩ := x
    exact ih _ (step_inv s w op f (hadm (op, f) (List.mem_cons_self)) hw)
      (fun y hy => hadm y (List.mem_cons_of_mem _ hy))

/-- `finalize_once`: after every history (any faults), every library-owned render-data object has had
    `_finalize_render_data_` called exactly once — unless an iterator that is still open is using it,
    and then not at all. (At quiescence — every iterator exhausted, closed, failed or dropped — that is
    "exactly once for every library-owned object".) -/
theorem finalize_once (fc : Nat) (h : List (Op × Flt)) (hadm : Adm false h) (d : Nat) :
    let w := runHist (init fc) h
    d < w.nObjs → (w.objs d).owner = .lib →
      (w.objs d).finCalls = if attached w d then 0 else 1 := by
  intro w hd ho
  have key : Inv false w := inv_history false h _ (init_inv false fc) hadm
  obtain ⟨g, hr⟩ := key
  have ha := g.objA d hd
  by_cases hat : attached w d = true
  · obtain ⟨i, hi, h1, h2⟩ := (attached_iff w d).1 hat
    have := g.itF i hi h1
    rw [h2] at this
    simp [hat, ha, this]
  · by_cases hf : (w.objs d).finalized = true
    · simp [hat, ha, hf]
    · exfalso
      have hf' : (w.objs d).finalized = false := by simpa using hf
      have := hr d hd hf'
      rcases g.objD d hd ho hf' with hx | hx | hx
      · exact hx
      · exact hat ((attached_iff w d).2 hx)
      · rw [reachable_iff] at this
        rcases this with h1 | h1
        · rw [hx.2] at h1; cases h1
        · exact hat ((attached_iff w d).2 h1)

/-- never more than once, whoever owns the object -/
theorem finalize_at_most_once (fc : Nat) (h : List (Op × Flt)) (hadm : Adm false h) (d : Nat) :
    let w := runHist (init fc) h
    d < w.nObjs → (w.objs d).finCalls = (w.objs d).finalized.toNat ∧ (w.objs d).finCalls ≤ 1 := by
  intro w hd
  have key : Inv false w := inv_history false h _ (init_inv false fc) hadm
  have := key.1.objA d hd
  refine ⟨this, ?_⟩
  rw [this]; cases (w.objs d).finalized <;> simp

/-- `finalize_prompt`: in a strict history — in `render`/`draw`/iterator operations only `_render_`
    calls and writes of the drawing proper fail; in a subclass operation on `_init_render_` *anything*
    may fail (padding resolution,
    either size comparison, the renderer) — no library-owned object is ever left to
    `RenderData.__del__`: it was finalized explicitly, by the end of the operation that stopped using
    it. (`draw` itself calls `_init_render_(finalize=False)`, so a failing size validation *there* is
    the one case left to `__del__` — see `finalize_once`.) -/
theorem finalize_prompt (fc : Nat) (h : List (Op × Flt)) (hadm : Adm true h) (d : Nat) :
    let w := runHist (init fc) h
    d < w.nObjs → (w.objs d).owner = .lib → (w.objs d).viaDel = 0 := by
  intro w hd ho
  exact (inv_history true h _ (init_inv true fc) hadm).1.objE rfl d hd ho

/-- `finalize_prompt_init`: `_init_render_(…, finalize=True)` called by a subclass operation — for every
    flag combination, every state and every fault (in padding resolution, in the width or the height
    comparison of the size validation, in the renderer, or none): at the moment the call returns or
    raises — before any garbage collection — the data object it created has been finalized, exactly
    once, by library code, and not through `__del__`. -/
theorem finalize_prompt_init (it cs asc rp : Bool) (f : Flt) (w : World) (hadm : Admissible inj f) :
    let w' := (run sem (initRenderOpP it true cs asc rp) f w).1
    (w'.objs w.nObjs).finalized = true ∧ (w'.objs w.nObjs).finCalls = 1 ∧
    (w'.objs w.nObjs).libFin = 1 ∧ (w'.objs w.nObjs).viaDel = 0 ∧ (w'.objs w.nObjs).usedAfter = 0 := by
  intro w'
  let Q : World → Prop := fun v =>
    (v.objs w.nObjs).finalized = true ∧ (v.objs w.nObjs).finCalls = 1 ∧
    (v.objs w.nObjs).libFin = 1 ∧ (v.objs w.nObjs).viaDel = 0 ∧ (v.objs w.nObjs).usedAfter = 0
  have hwp : wp sem inj (initRenderOpP it true cs asc rp) f.isSome (fun _ v => Q v) (fun _ _ v => Q v) w := by
    unfold initRenderOpP initRender
    wpgo
    all_goals simp [Q, finalizeW, apply]
  have := wp_sound sem inj _ f _ _ w hadm hwp
  show Q w'
  generalize hr : run sem (initRenderOpP it true cs asc rp) f w = r at this
  have : w' = r.1 := by simp [w', hr]
  rw [this]
  obtain ⟨v, f', r'⟩ := r
  cases r' <;> exact ‹Post _ _ _›

/-- `finalize_prompt_str`: `str(renderable)` — in every state, under every fault of its single
    `_render_` call (any exception) or none: when `__str__` returns or raises, before any garbage
    collection, the render data it obtained has been finalized exactly once, by library code, not by
    `__del__`, and was not used afterwards. -/
theorem finalize_prompt_str (f : Flt) (w : World) (hadm : Admissible inj f) :
    Prompt w.nObjs (run sem strP f w).1 := by
  have hwp : wp sem inj strP f.isSome (fun _ v => Prompt w.nObjs v) (fun _ _ v => Prompt w.nObjs v) w := by
    unfold strP initRender
    simp only [Generated.initRenderIterationDefault, Generated.initRenderFinalizeDefault,
      Generated.initRenderCheckSizeDefault, Generated.initRenderAllowScrollDefault]
    wpgo
    all_goals constructor <;> simp [finalizeW, apply]
  have := wp_sound sem inj _ f _ _ w hadm hwp
  generalize run sem strP f w = r at this
  obtain ⟨v, f', r'⟩ := r
  cases r' <;> exact this

/-- the same for `render()` -/
theorem finalize_prompt_render (f : Flt) (w : World) (hadm : Admissible inj f) :
    Prompt w.nObjs (run sem renderP f w).1 := finalize_prompt_str f w hadm

/-- `finalize_prompt_draw`: after every history, `draw()` with any arguments under any fault in a
    `_render_` call (any frame, any exception incl. StopIteration / KeyboardInterrupt) or in a write of the
    drawing proper, or none: at the moment `draw()` returns or raises — before any garbage collection —
    the render data it created has been finalized, exactly once, by `draw` itself (library code, not
    `__del__`), and no frame was rendered with it afterwards.
    The exceptions, exactly (`injDraw`): a failing padding resolution / size validation — they happen
    inside `_init_render_(finalize=False)`, before `draw`'s `try`, so the unchanged code leaves that data to
    `RenderData.__del__` (see `draw_validation_failure_left_to_del`) — and a failing `write("\n")` of
    `draw`'s own clean-up, which precedes `finalize()` in the `finally`. -/
theorem finalize_prompt_draw (fc : Nat) (h : List (Op × Flt)) (hadm : Adm false h)
    (animate cs : Bool) (loops : Int) (cache : CacheArg) (bound : Nat) (f : Flt) (hf : Admissible injDraw f) :
    let w := runHist (init fc) h
    Prompt w.nObjs (run sem (drawP animate cs loops cache bound) f w).1 := by
  intro w
  have key : Inv false w := inv_history false h _ (init_inv false fc) hadm
  have := wp_sound sem injDraw _ f _ _ w hf (drawP_prompt animate cs loops cache bound _ key.1)
  generalize run sem (drawP animate cs loops cache bound) f w = r at this
  obtain ⟨v, f', r'⟩ := r
  cases r' <;> exact this

/-- the documented exception of `finalize_prompt_draw`, as the unchanged code has it: when the size
    validation of a `draw` fails, `draw()` raises with its data not finalized (the GC step then does it:
    `finalize_once`) -/
theorem draw_validation_failure_left_to_del (w : World) (animate : Bool) (loops : Int) (cache : CacheArg)
    (bound : Nat) (e : Exc) :
    let r := run sem (drawP animate true loops cache bound) (some (.validate, 0, e)) w
    r.2.2 = some e ∧ (r.1.objs w.nObjs).finalized = false ∧ (r.1.objs w.nObjs).finCalls = 0 := by
  simp [drawP, initRender, run, Prog.do, target, apply]

/-- `animate_leaves_data`: after every history, `_animate_` on data that is not the iterator's (made the
    way `draw` makes it) — every frame count kind (definite, INDEFINITE, not animated), every `loops` /
    `cache`, every fault plan (a frame render, a write, any exception class): when `_animate_` returns or
    raises, the data's `finalized` flag is unchanged (false) and its finalizer has not run. -/
theorem animate_leaves_data (fc : Nat) (h : List (Op × Flt)) (hadm : Adm false h) (it : Bool)
    (loops : Int) (cache : CacheArg) (bound : Nat) (f : Flt) (hf : Admissible (injS false) f) :
    let w := runHist (init fc) h
    let r := run sem (animateP w.nObjs loops cache bound) f (apply (.newData .lib it false) w)
    (r.1.objs w.nObjs).finalized = false ∧ (r.1.objs w.nObjs).finCalls = 0 := by
  intro w
  have key : Inv false w := inv_history false h _ (init_inv false fc) hadm
  obtain ⟨h1, h2⟩ := fresh (s := false) it key.1
  have hlt : ∀ j, j < (apply (.newData .lib it false) w).nIters →
      ((apply (.newData .lib it false) w).iters j).data < w.nObjs := fun j hj => key.1.itLt j hj
  have := wp_sound sem (injS false) _ f _ _ _ hf (animateP_spec loops cache bound f.isSome ⟨h1, h2⟩ hlt)
  intro r
  have hr : AP false w.nObjs r.1 := by
    simp only [r]
    generalize run sem (animateP w.nObjs loops cache bound) f (apply (.newData .lib it false) w) = q at this
    obtain ⟨v, f', r'⟩ := q
    cases r' <;> exact this
  obtain ⟨x1, x2, -, -⟩ := hr.g.xLive _ rfl
  have ha := hr.g.objA _ x1
  rw [x2] at ha
  exact ⟨x2, by simpa using ha⟩

/-- `caller_kept`: data handed in with `finalize=False` (owner = caller) is never finalized by library
    code -/
theorem caller_kept (fc : Nat) (h : List (Op × Flt)) (hadm : Adm false h) (d : Nat) :
    let w := runHist (init fc) h
    d < w.nObjs → (w.objs d).owner = .caller → (w.objs d).libFin = 0 := by
  intro w hd ho
  exact (inv_history false h _ (init_inv false fc) hadm).1.objC d hd ho

/-- `no_use_after`: no `_render_` call ever saw finalized data -/
theorem no_use_after (fc : Nat) (h : List (Op × Flt)) (hadm : Adm false h) (d : Nat) :
    let w := runHist (init fc) h
    d < w.nObjs → (w.objs d).usedAfter = 0 := by
  intro w hd
  exact (inv_history false h _ (init_inv false fc) hadm).1.objB d hd

/-- an open iterator's data is live, a closed iterator has let go of its generator and data -/
theorem iterator_state (fc : Nat) (h : List (Op × Flt)) (hadm : Adm false h) (i : Nat) :
    let w := runHist (init fc) h
    i < w.nIters →
      ((w.iters i).closed = false → (w.objs (w.iters i).data).finalized = false) ∧
      ((w.iters i).closed = true → (w.iters i).hasIterator = false ∧ (w.iters i).hasData = false) := by
  intro w hi
  have key : Inv false w := inv_history false h _ (init_inv false fc) hadm
  have g := key.1
  have hw := g.itWf i hi
  refine ⟨fun hc => g.itF i hi (by simp [hw.2, hc]), fun hc => by simp [hw, hc]⟩

/-! ## closed after exhaustion / close / error; idempotence -/

/-- `closed_after_end` (1): whenever `next()` raises an `Exception` — `StopIteration` at exhaustion,
    `StopDefiniteIterationError`, or whatever `_render_` raised — the iterator is closed afterwards.
    (A `KeyboardInterrupt` is not an `Exception`: see `finished_next_closes`.) For every state and
    fault plan. -/
theorem closed_after_end (i : Nat) (f : Flt) (w : World) (hadm : Admissible (injS false) f) :
    ∀ e, (run sem (nextP i) f w).2.2 = some e → e.isException = true →
      ((run sem (nextP i) f w).1.iters i).closed = true := by
  have hwp : wp sem (injS false) (nextP i) f.isSome (fun _ _ => True)
      (fun _ e w' => e.isException = true → (w'.iters i).closed = true) w := by
    unfold nextP
    simp only [wp]
    apply wp_trivial
    · intros; trivial
    · intro b e w'
      wpgo
      all_goals first
        | (simpa using closeW_closed w' i)
        | assumption
        | simp_all
  have := wp_sound sem (injS false) _ f _ _ w hadm hwp
  intro e he hex
  generalize run sem (nextP i) f w = r at this he
  obtain ⟨w', f', r'⟩ := r
  simp only at he; subst he
  exact this hex

/-- `closed_after_end` (2): on a closed iterator `next()` stops (and renders nothing, changes
    nothing) and the control operations raise the finalized-iterator error. -/
theorem closed_next_stops (i : Nat) (f : Flt) (w : World) (hc : (w.iters i).closed = true)
    (hi : (w.iters i).hasIterator = false) :
    run sem (nextP i) f w = (w, f, some .stopIteration) := by
  simp [run, nextP, genNext, hc, hi, Exc.isException]

/-- `closed_ops_raise`: on a finalized iterator every control operation, with every argument —
    `seek(offset, whence)` for every offset (also 0) and every whence, `set_render_size` /
    `set_frame_duration` / `set_padding` / `set_render_args` with the current or a new value — raises the
    finalized-iterator error and changes nothing, under every fault plan: the finalized check comes first. -/
theorem closed_ops_raise (i : Nat) (f : Flt) (w : World) (hc : (w.iters i).closed = true) :
    (∀ wh off, run sem (seekP i wh off) f w = (w, f, some .finalizedIter)) ∧
    (∀ k fresh, run sem (setP i k fresh) f w = (w, f, some .finalizedIter)) ∧
    (∀ g, run sem (ctlP i g) f w = (w, f, some .finalizedIter)) := by
  refine ⟨fun wh off => ?_, fun k fresh => ?_, fun g => ?_⟩ <;> simp [run, seekP, setP, ctlP, hc]

theorem closed_control_raises (i : Nat) (wh : Whence) (off : Int) (g : Ctl → Ctl) (f : Flt) (w : World)
    (hc : (w.iters i).closed = true) :
    run sem (seekP i wh off) f w = (w, f, some .finalizedIter) ∧
    run sem (ctlP i g) f w = (w, f, some .finalizedIter) :=
  ⟨(closed_ops_raise i f w hc).1 wh off, (closed_ops_raise i f w hc).2.2 g⟩

/-- `reentrant_close_changes_nothing`: `close()` — and `next()` — called from inside `_render_` while
    the generator is executing raise `ValueError` and change nothing (on an open iterator): the first
    thing `close()` does is to close the generator, before it touches the render data. -/
theorem reentrant_close_changes_nothing (i : Nat) (f : Flt) (w : World) (hc : (w.iters i).closed = false) :
    run sem (reCloseP i) f w = (w, f, some .valueError) ∧
    run sem (reNextP i) f w = (w, f, some .valueError) := by
  simp [run, reCloseP, reNextP, hc, Exc.isException]

/-- `closed_after_end` (3): `close()` and dropping the iterator close it -/
theorem closed_after_close (i : Nat) (f : Flt) (w : World) (hf : Admissible inj f) :
    ((run sem (closeP i) f w).1.iters i).closed = true ∧ (run sem (closeP i) f w).2.2 = none := by
  have := wp_sound sem inj (closeP i) f
    (fun _ w' => (w'.iters i).closed = true) (fun _ _ _ => False) w hf
    ((wp_closeP _ noHook_inj i _ _ _ w).2 (closeW_closed w i))
  generalize run sem (closeP i) f w = r at this
  obtain ⟨w', f', r'⟩ := r
  cases r' <;> simp_all [Post]

/-- after a `KeyboardInterrupt` out of `_render_` the generator is finished but the iterator is still
    open (it keeps its data alive); the next `next()` then closes it and stops. -/
theorem finished_next_closes (i : Nat) (f : Flt) (w : World) (hf : Admissible inj f)
    (hi : (w.iters i).hasIterator = true)
    (hg : (w.iters i).ctl.gen = .finished) :
    run sem (nextP i) f w = ((run sem (closeP i) f w).1, (run sem (closeP i) f w).2.1, some .stopIteration) := by
  have hc : (run sem (closeP i) f w).2.2 = none := (closed_after_close i f w hf).2
  simp only [nextP, genNext, run, hi, hg, Bool.not_true, Bool.false_eq_true, if_false, if_true, Exc.isException]
  generalize run sem (closeP i) f w = r at hc
  obtain ⟨w', f', r'⟩ := r
  simp only at hc; subst hc; rfl

/-- once closed, closed for ever: no operation of any history re-opens an iterator -/
theorem closed_stable (w : World) (op : Op) (f : Flt) (i : Nat) (hi : i < w.nIters)
    (hc : (w.iters i).closed = true) :
    i < (stepOp w op f).1.nIters ∧ ((stepOp w op f).1.iters i).closed = true := by
  unfold stepOp
  by_cases hv : valid w op = true
  · simp only [hv, if_true, dropRefsFast_eq]
    have hP := wp_act_invariant sem (fun _ _ => True) (fun w' => i < w'.nIters ∧ (w'.iters i).closed = true)
      (by
        intro a w' ⟨h1, h2⟩
        cases a <;> simp only [sem_apply, apply, setObj_iters, setObj_nIters, setIter_iters, setIter_nIters, log_iters,
          log_nIters] <;> (try exact ⟨h1, h2⟩) <;> (refine ⟨by omega, ?_⟩) <;> (split <;> simp_all) <;> omega)
      (by
        intro a w' ⟨h1, h2⟩
        cases a <;> simp only [sem_fapply, apply, setObj_iters, setObj_nIters, setIter_iters, setIter_nIters, log_iters,
          log_nIters] <;> (try exact ⟨h1, h2⟩) <;> (refine ⟨by omega, ?_⟩) <;> (split <;> simp_all) <;> omega)
      (opProg op) f.isSome w ⟨hi, hc⟩
    have := wp_sound sem (fun _ _ => True) (opProg op) f _ _ w (by cases f <;> simp [Admissible]) hP
    generalize run sem (opProg op) f w = r at this
    obtain ⟨w', f', r'⟩ := r
    cases r' <;> exact this
  · simp only [hv]; exact ⟨hi, hc⟩

/-- `close_idem`: a second `close()` does nothing -/
theorem close_idem (i : Nat) (w : World) : closeW i (closeW i w) = closeW i w := by
  have := closeW_closed w i
  generalize closeW i w = w1 at this ⊢
  simp [closeW, this]

theorem close_idem_run (i : Nat) (f f' : Flt) (w : World) (hf : Admissible inj f) (hf' : Admissible inj f') :
    (run sem (closeP i) f' (run sem (closeP i) f w).1).1 = (run sem (closeP i) f w).1 := by
  have key : ∀ f w, Admissible inj f → (run sem (closeP i) f w).1 = closeW i w := by
    intro f w hf
    have := wp_sound sem inj (closeP i) f
      (fun _ w' => w' = closeW i w) (fun _ _ _ => False) w hf
      ((wp_closeP _ noHook_inj i _ _ _ w).2 rfl)
    generalize run sem (closeP i) f w = r at this
    obtain ⟨w', f', r'⟩ := r
    cases r' <;> simp_all [Post]
  rw [key _ _ hf', key _ _ hf, close_idem]

/-- `finalize_idem`: a second `finalize()` does nothing (in particular calls
    `_finalize_render_data_` no second time) -/
theorem finalize_idem (d : Nat) (b b' : By) (w : World) : finalizeW d b' (finalizeW d b w) = finalizeW d b w := by
  by_cases h : (w.objs d).finalized = true
  · simp [finalizeW, h]
  · have : ((finalizeW d b w).objs d).finalized = true := by simp [finalizeW, h, apply]
    generalize finalizeW d b w = w1 at this ⊢
    simp [finalizeW, this]

/-- whatever the fault plan — including a `_finalize_render_data_` that raises — one `finalize()` call
    leaves exactly the world of the summary `finalizeW`: the hook has run (at most) once and the flag
    is set in the `finally` -/
theorem run_finalizeP_world (d : Nat) (b : By) (f : Flt) (w : World) :
    (run sem (finalizeP d b) f w).1 = finalizeW d b w := by
  unfold finalizeP finalizeW
  by_cases h : (w.objs d).finalized = true
  · simp [run, h]
  · cases f with
    | none => simp [run, h, Prog.do, target]
    | some tne =>
      obtain ⟨t, n, e⟩ := tne
      cases t <;> cases n <;> simp [run, h, Prog.do, target]

theorem finalize_idem_run (d : Nat) (b b' : By) (f f' : Flt) (w : World) :
    (run sem (finalizeP d b') f' (run sem (finalizeP d b) f w).1).1 = (run sem (finalizeP d b) f w).1 := by
  rw [run_finalizeP_world, run_finalizeP_world, finalize_idem]

/-- a sequence of `finalize()` calls on one object, each under its own fault plan (any of them may make
    the hook raise) -/
def runFins (d : Nat) : World → List (By × Flt) → World
  | w, [] => w
  | w, (b, f) :: cs => runFins d (run sem (finalizeP d b) f w).1 cs

/-- `finalize_once_even_if_raises`: for every non-empty sequence of `finalize()` calls on an object,
    from whichever holder (library, caller, `__del__`), with any pattern of raising
    `_finalize_render_data_` hooks (or any other fault plan): the hook runs exactly once — in the first
    call, even if it raises there — and `finalized` is true from the first call on. -/
theorem finalize_once_even_if_raises (d : Nat) (w : World) (hw : (w.objs d).finalized = false)
    (c : By × Flt) (cs : List (By × Flt)) :
    ((runFins d w (c :: cs)).objs d).finCalls = (w.objs d).finCalls + 1 ∧
    ((runFins d w (c :: cs)).objs d).finalized = true ∧
    ((run sem (finalizeP d c.1) c.2 w).1.objs d).finalized = true := by
  have h1 : ∀ (cs : List (By × Flt)) (v : World), (v.objs d).finalized = true → runFins d v cs = v := by
    intro cs
    induction cs with
    | nil => intro v _; rfl
    | cons c cs ih =>
      intro v hv
      obtain ⟨b, f⟩ := c
      have : (run sem (finalizeP d b) f v).1 = v := by rw [run_finalizeP_world]; simp [finalizeW, hv]
      simp only [runFins, this]; exact ih v hv
  obtain ⟨b, f⟩ := c
  have hfin : ((finalizeW d b w).objs d).finalized = true := by simp [finalizeW, hw, apply]
  simp only [runFins, run_finalizeP_world]
  rw [h1 cs _ hfin]
  refine ⟨by simp [finalizeW, hw, apply], hfin, hfin⟩

/-! ## data and iterator collected together -/

/-- `drop_both_once`: the caller drops data `d` and the iterator `i` at once and the collector runs the
    two `__del__`s in either order. If the finalizer of `d` has run as often as its flag says (which
    `finalize_at_most_once` gives after every history), then afterwards
    * data first (`RenderData.__del__`, then `RenderIterator.__del__` → `close()` → `finalize()`): the
      finalizer has run exactly once and the flag is set — whether or not `i` was to finalize `d`;
    * iterator first: still as often as the flag says (at most once); the GC step `dropRefs` then runs it
      iff the flag is not set (`inv_history`). -/
theorem drop_both_once (d i : Nat) (w : World) (hw : (w.objs d).finCalls = (w.objs d).finalized.toNat) :
    let wd := apply (.markDropped i) (closeW i (finalizeW d .del (apply (.callerDrop d) w)))
    let wi := apply (.callerDrop d) (apply (.markDropped i) (closeW i w))
    ((wd.objs d).finCalls = 1 ∧ (wd.objs d).finalized = true) ∧
    (wi.objs d).finCalls = (wi.objs d).finalized.toNat := by
  have key : ∀ v : World, (v.objs d).finCalls = (v.objs d).finalized.toNat →
      ((closeW i v).objs d).finCalls = ((closeW i v).objs d).finalized.toNat ∧
      ((v.objs d).finalized = true → ((closeW i v).objs d).finalized = true) := by
    intro v hv
    by_cases hc : (v.iters i).closed = true
    · have : closeW i v = v := by simp [closeW, hc]
      rw [this]; exact ⟨hv, id⟩
    · have hc' : (v.iters i).closed = false := by simpa using hc
      obtain ⟨-, -, -, -, -, -, p1, p2, p3, -⟩ := closeW_spec i hc'
      by_cases hd : d = (v.iters i).data
      · subst hd
        rw [p2, p3, hv]
        cases hf : (v.objs (v.iters i).data).finalized <;> cases hfd : (v.iters i).finalizeData <;> simp
      · rw [p1 d hd]; exact ⟨hv, id⟩
  intro wd wi
  refine ⟨?_, ?_⟩
  · have hfin : ((finalizeW d .del (apply (.callerDrop d) w)).objs d).finalized = true ∧
        ((finalizeW d .del (apply (.callerDrop d) w)).objs d).finCalls = 1 := by
      by_cases hf : (w.objs d).finalized = true
      · simp [finalizeW, apply, hf, hw]
      · simp [finalizeW, apply, hf] ; simp [hw, hf]
    have := key _ (by rw [hfin.1, hfin.2]; rfl)
    have h2 := this.2 hfin.1
    have h1 := this.1
    rw [h2] at h1
    have hm : ∀ v : World, (apply (.markDropped i) v).objs = v.objs := fun _ => rfl
    simp only [wd, hm]
    exact ⟨by simpa using h1, h2⟩
  · have := (key w hw).1
    have hm : ∀ v : World, (apply (.markDropped i) v).objs = v.objs := fun _ => rfl
    have hcd : ∀ v : World, ((apply (.callerDrop d) v).objs d).finCalls = (v.objs d).finCalls ∧
        ((apply (.callerDrop d) v).objs d).finalized = (v.objs d).finalized := fun _ => by simp [apply]
    simp only [wi, (hcd _).1, (hcd _).2, hm]
    exact this

/-! ## the translator's constants are the ones the model was written for -/

/-- read off the source of `RenderData.__del__`: the GC fallback is `self.finalize()` — it goes through
    the once-flag (the model's `dropRefs` and `dataDelP` are written with it) -/
theorem generated_del_is_finalize : Generated.dataDelCallsFinalize = true := by decide


theorem generated_defaults :
    Generated.initRenderFinalizeDefault = true ∧ Generated.initRenderIterationDefault = false ∧
    Generated.initRenderCheckSizeDefault = false ∧ Generated.initRenderAllowScrollDefault = false ∧
    Generated.fromRenderDataFinalizeDefault = true ∧
    Generated.drawAnimateDefault = true ∧ Generated.drawCheckSizeDefault = true ∧
    Generated.drawLoopsDefault < 0 ∧ 0 < Generated.drawCacheDefault ∧
    Generated.iterLoopsDefault = 1 ∧ 0 < Generated.iterCacheDefault ∧
    Generated.renderDataSlots = ["finalized"] := by decide

/-- `except Exception` catches exactly the modelled exceptions the model says it catches -/
theorem generated_exception_table :
    ∀ e : Exc, e ≠ .ret → e ≠ .brk → e ≠ .diverge →
      (excPyName e, e.isException) ∈ Generated.exceptionTable := by
  intro e; cases e <;> simp [excPyName, Exc.isException, Generated.exceptionTable]

/-! ## non-vacuity: the hypotheses are satisfiable by histories that exercise the interesting paths -/

/-- an animated draw whose second frame render fails, a draw whose size validation fails, an iterator
    interrupted at its first frame and then dropped -/
def sampleHist : List (Op × Flt) :=
  [(.draw true false 2 .on 0, some (.render, 1, .boom)),
   (.draw false true 1 .off 0, some (.validate, 0, .sizeError)),
   (.iterNew 2 .off, none), (.next 0, some (.render, 0, .keyboardInterrupt)), (.dropIter 0, none),
   (.mkData true, none), (.fromData 3 false 1 .off .none, none), (.next 1, none), (.close 1, none),
   (.iterNew 1 .on, none), (.next 2, some (.render, 0, .valueError)), (.next 2, some (.render, 0, .unicodeError)),
   (.draw true true 1 .off 0, some (.render, 2, .generatorExit)), (.str, some (.render, 0, .osError))]

example : Adm false sampleHist := by
  intro x hx
  simp only [sampleHist, List.mem_cons, List.not_mem_nil, or_false] at hx
  rcases hx with h | h | h | h | h | h | h | h | h | h | h | h | h | h <;> subst h <;> simp [Admissible, injOp, isDirect, injS, inj, Exc.generic]

/-- strict histories may fail anything inside a subclass operation on `_init_render_` -/
example : Adm true [(Op.initRender false true true false true, some (Target.validate, 1, Exc.sizeError)),
    (Op.initRender true true true true true, some (Target.resolve, 0, Exc.boom)),
    (Op.initRender false false true false false, some (Target.render, 0, Exc.keyboardInterrupt))] := by
  intro x hx
  simp only [List.mem_cons, List.not_mem_nil, or_false] at hx
  rcases hx with h | h | h <;> subst h <;> simp [Admissible, injOp, isDirect, injS, inj, Exc.generic]

example : Adm true [(Op.draw true false 2 .on 0, some (Target.render, 1, Exc.boom)), (Op.render, none)] := by
  intro x hx
  simp only [List.mem_cons, List.not_mem_nil, or_false] at hx
  rcases hx with h | h <;> subst h <;> simp [Admissible, injOp, isDirect, injS, inj, Exc.generic]

end TIV.C10
