/-!
# Prog — effect programs with `try/finally`, `try/except`, state reads and a fault plan
(DESIGN.md §2.3; generic, import-free — a candidate for `TIV/Common`)

A tiny deep embedding of exactly the control flow the draw / iterate code uses.

* `A` actions (total state updates), `E` exceptions, `W` world, `T` fault targets (classes of
  actions an exception can be injected into).
* A **fault plan** `some (t, k, e)`: the `k`-th (0-based) executed action whose target is `t`
  raises `e` (after applying `fapply`, the effect of the *attempt*); `none`: nothing is injected.
  At most one fault per run.
* Loops with a known trip count are unrolled when the program is built (`Prog.loop`);
  Python's `return`/`break` are pseudo-exceptions caught at the function/loop boundary.

`wp` is a weakest precondition that turns "for every fault index k" into one proof obligation
per faultable action; `wp_sound` proves it against the interpreter once and for all.
-/
namespace TIV.Prog

inductive Prog (A E W : Type) where
  | done
  | act (a : A) (k : Prog A E W)
  | raise (e : E)
  | seq (p q : Prog A E W)
  | tryFinally (body fin : Prog A E W)
  /-- `try body except <those e with catches e>: handler e` -/
  | tryExcept (body : Prog A E W) (catches : E → Bool) (handler : E → Prog A E W)
  /-- read the state and continue (an `if` on run-time state) -/
  | get (k : W → Prog A E W)

variable {A E W T : Type}

/-- `for i in range(start, start+n): body i`, unrolled -/
def Prog.loopFrom (body : Nat → Prog A E W) : Nat → Nat → Prog A E W
  | _, 0 => .done
  | start, n + 1 => .seq (body start) (Prog.loopFrom body (start + 1) n)

def Prog.loop (n : Nat) (body : Nat → Prog A E W) : Prog A E W := Prog.loopFrom body 0 n

/-- one action, then continue normally -/
def Prog.do (a : A) : Prog A E W := .act a .done

/-- semantic parameters of a machine -/
structure Sem (A W T : Type) where
  apply : A → W → W
  /-- effect of an action that raises the injected exception -/
  fapply : A → W → W
  target : A → Option T

abbrev Fault (E T : Type) := Option (T × Nat × E)

/-- big-step interpreter: final world, remaining fault plan, raised exception -/
def run [DecidableEq T] (S : Sem A W T) : Prog A E W → Fault E T → W → W × Fault E T × Option E
  | .done, f, w => (w, f, none)
  | .raise e, f, w => (w, f, some e)
  | .act a k, f, w =>
    match S.target a, f with
    | some t, some (t', n, e) =>
      if t = t' then
        match n with
        | 0 => (S.fapply a w, none, some e)
        | n + 1 => run S k (some (t', n, e)) (S.apply a w)
      else run S k f (S.apply a w)
    | _, _ => run S k f (S.apply a w)
  | .seq p q, f, w =>
    match run S p f w with
    | (w1, f1, none) => run S q f1 w1
    | (w1, f1, some e) => (w1, f1, some e)
  | .tryFinally body fin, f, w =>
    match run S body f w with
    | (w1, f1, r1) =>
      match run S fin f1 w1 with
      | (w2, f2, some e2) => (w2, f2, some e2)
      | (w2, f2, none) => (w2, f2, r1)
  | .tryExcept body c h, f, w =>
    match run S body f w with
    | (w1, f1, none) => (w1, f1, none)
    | (w1, f1, some e) => if c e then run S (h e) f1 w1 else (w1, f1, some e)
  | .get k, f, w => run S (k w) f w

/-- Weakest precondition. `armed` = a fault is still pending. `inj t e` = the exceptions that
    may be injected into target `t`. `Qn`/`Qx` = normal / exceptional postcondition. -/
def wp (S : Sem A W T) (inj : T → E → Prop) :
    Prog A E W → Bool → (Bool → W → Prop) → (Bool → E → W → Prop) → W → Prop
  | .done, b, Qn, _, w => Qn b w
  | .raise e, b, _, Qx, w => Qx b e w
  | .act a k, b, Qn, Qx, w =>
    (b = true → ∀ t, S.target a = some t → ∀ e, inj t e → Qx false e (S.fapply a w)) ∧
    wp S inj k b Qn Qx (S.apply a w)
  | .seq p q, b, Qn, Qx, w => wp S inj p b (fun b' w' => wp S inj q b' Qn Qx w') Qx w
  | .tryFinally body fin, b, Qn, Qx, w =>
    wp S inj body b (fun b' w' => wp S inj fin b' Qn Qx w')
      (fun b' e w' => wp S inj fin b' (fun b'' w'' => Qx b'' e w'') Qx w') w
  | .tryExcept body c h, b, Qn, Qx, w =>
    wp S inj body b Qn (fun b' e w' => if c e then wp S inj (h e) b' Qn Qx w' else Qx b' e w') w
  | .get k, b, Qn, Qx, w => wp S inj (k w) b Qn Qx w

/-- a fault plan only injects what `inj` admits -/
def Admissible (inj : T → E → Prop) : Fault E T → Prop
  | none => True
  | some (t, _, e) => inj t e

/-- what `wp` promises about a run -/
def Post (Qn : Bool → W → Prop) (Qx : Bool → E → W → Prop) : W × Fault E T × Option E → Prop
  | (w, f, none) => Qn f.isSome w
  | (w, f, some e) => Qx f.isSome e w

theorem run_adm [DecidableEq T] (S : Sem A W T) (inj : T → E → Prop) (p : Prog A E W) :
    ∀ (f : Fault E T) (w : W), Admissible inj f → Admissible inj (run S p f w).2.1 := by
  induction p with
  | done => intro f w h; simpa [run] using h
  | raise e => intro f w h; simpa [run] using h
  | act a k ih =>
    intro f w h
    unfold run
    cases hta : S.target a with
    | none => simpa using ih f _ h
    | some t =>
      cases f with
      | none => simpa using ih none _ h
      | some tne =>
        obtain ⟨t', n, e⟩ := tne
        by_cases htt : t = t'
        · subst htt
          cases n with
          | zero => simp [Admissible]
          | succ n => simpa using ih (some (t, n, e)) _ h
        · simpa [htt] using ih (some (t', n, e)) _ h
  | seq p q ihp ihq =>
    intro f w h
    have hp := ihp f w h
    unfold run
    generalize run S p f w = r at hp
    obtain ⟨w1, f1, r1⟩ := r
    cases r1 with
    | none => exact ihq f1 w1 hp
    | some e => exact hp
  | tryFinally body fin ihb ihf =>
    intro f w h
    have hb := ihb f w h
    unfold run
    generalize run S body f w = r at hb
    obtain ⟨w1, f1, r1⟩ := r
    have hf := ihf f1 w1 hb
    dsimp only
    generalize run S fin f1 w1 = r2 at hf ⊢
    obtain ⟨w2, f2, r2⟩ := r2
    cases r2 <;> exact hf
  | tryExcept body c h ihb ihh =>
    intro f w hadm
    have hb := ihb f w hadm
    unfold run
    generalize run S body f w = r at hb
    obtain ⟨w1, f1, r1⟩ := r
    cases r1 with
    | none => exact hb
    | some e =>
      by_cases hc : c e = true
      · simpa [hc] using ihh e f1 w1 hb
      · simpa [hc] using hb
  | get k ih =>
    intro f w h
    unfold run
    exact ih w f w h

theorem wp_sound [DecidableEq T] (S : Sem A W T) (inj : T → E → Prop) (p : Prog A E W) :
    ∀ (f : Fault E T) (Qn : Bool → W → Prop) (Qx : Bool → E → W → Prop) (w : W),
      Admissible inj f → wp S inj p f.isSome Qn Qx w → Post Qn Qx (run S p f w) := by
  induction p with
  | done => intro f Qn Qx w _ h; simpa [run, Post, wp] using h
  | raise e => intro f Qn Qx w _ h; simpa [run, Post, wp] using h
  | act a k ih =>
    intro f Qn Qx w hadm h
    simp only [wp] at h
    obtain ⟨hf, hk⟩ := h
    unfold run
    cases hta : S.target a with
    | none => simpa using ih f Qn Qx _ hadm hk
    | some t =>
      cases f with
      | none => simpa using ih none Qn Qx _ hadm hk
      | some tne =>
        obtain ⟨t', n, e⟩ := tne
        by_cases htt : t = t'
        · subst htt
          cases n with
          | zero =>
            simp only [if_true]
            exact hf rfl t hta e hadm
          | succ n =>
            simp only [if_true]
            exact ih (some (t, n, e)) Qn Qx _ hadm hk
        · simp only [htt, if_false]
          exact ih (some (t', n, e)) Qn Qx _ hadm hk
  | seq p q ihp ihq =>
    intro f Qn Qx w hadm h
    simp only [wp] at h
    have hp := ihp f _ _ w hadm h
    have ha := run_adm S inj p f w hadm
    unfold run
    generalize run S p f w = r at hp ha
    obtain ⟨w1, f1, r1⟩ := r
    cases r1 with
    | none => exact ihq f1 Qn Qx w1 ha hp
    | some e => exact hp
  | tryFinally body fin ihb ihf =>
    intro f Qn Qx w hadm h
    simp only [wp] at h
    have hb := ihb f _ _ w hadm h
    have ha := run_adm S inj body f w hadm
    unfold run
    generalize run S body f w = r at hb ha
    obtain ⟨w1, f1, r1⟩ := r
    cases r1 with
    | none =>
      have hf := ihf f1 Qn Qx w1 ha hb
      dsimp only
      generalize run S fin f1 w1 = r2 at hf ⊢
      obtain ⟨w2, f2, r2⟩ := r2
      cases r2 <;> exact hf
    | some e =>
      have hf := ihf f1 _ Qx w1 ha hb
      dsimp only
      generalize run S fin f1 w1 = r2 at hf ⊢
      obtain ⟨w2, f2, r2⟩ := r2
      cases r2 <;> exact hf
  | tryExcept body c h ihb ihh =>
    intro f Qn Qx w hadm hw
    simp only [wp] at hw
    have hb := ihb f _ _ w hadm hw
    have ha := run_adm S inj body f w hadm
    unfold run
    generalize run S body f w = r at hb ha
    obtain ⟨w1, f1, r1⟩ := r
    cases r1 with
    | none => exact hb
    | some e =>
      simp only [Post] at hb
      by_cases hc : c e = true
      · simp only [hc, if_true] at hb ⊢
        exact ihh e f1 Qn Qx w1 ha hb
      · simp only [hc] at hb ⊢
        exact hb
  | get k ih =>
    intro f Qn Qx w hadm h
    simp only [wp] at h
    unfold run
    exact ih w f Qn Qx w hadm h

/-- consequence rule -/
theorem wp_mono (S : Sem A W T) (inj : T → E → Prop) (p : Prog A E W) :
    ∀ (b : Bool) (Qn Qn' : Bool → W → Prop) (Qx Qx' : Bool → E → W → Prop) (w : W),
      (∀ b w, Qn b w → Qn' b w) → (∀ b e w, Qx b e w → Qx' b e w) →
      wp S inj p b Qn Qx w → wp S inj p b Qn' Qx' w := by
  induction p with
  | done => intro b Qn Qn' Qx Qx' w hn _ h; exact hn _ _ h
  | raise e => intro b Qn Qn' Qx Qx' w _ hx h; exact hx _ _ _ h
  | act a k ih =>
    intro b Qn Qn' Qx Qx' w hn hx h
    exact ⟨fun hb t ht e he => hx _ _ _ (h.1 hb t ht e he), ih b Qn Qn' Qx Qx' _ hn hx h.2⟩
  | seq p q ihp ihq =>
    intro b Qn Qn' Qx Qx' w hn hx h
    exact ihp b _ _ Qx Qx' w (fun b' w' h' => ihq b' Qn Qn' Qx Qx' w' hn hx h') hx h
  | tryFinally body fin ihb ihf =>
    intro b Qn Qn' Qx Qx' w hn hx h
    exact ihb b _ _ _ _ w (fun b' w' h' => ihf b' Qn Qn' Qx Qx' w' hn hx h')
      (fun b' e w' h' => ihf b' _ _ Qx Qx' w' (fun b'' w'' h'' => hx _ _ _ h'') hx h') h
  | tryExcept body c h ihb ihh =>
    intro b Qn Qn' Qx Qx' w hn hx hw
    refine ihb b Qn Qn' _ _ w hn ?_ hw
    intro b' e w' h'
    by_cases hc : c e = true
    · simp only [hc, if_true] at h' ⊢
      exact ihh e b' Qn Qn' Qx Qx' w' hn hx h'
    · simp only [hc] at h' ⊢
      exact hx _ _ _ h'
  | get k ih =>
    intro b Qn Qn' Qx Qx' w hn hx h
    exact ih w b Qn Qn' Qx Qx' w hn hx h

/-- loop rule: an invariant of the body (for every trip, normal exit) is an invariant of the loop;
    exceptional exits of a trip are exits of the loop -/
theorem wp_loopFrom (S : Sem A W T) (inj : T → E → Prop) (body : Nat → Prog A E W)
    (I : Bool → W → Prop) (Qx : Bool → E → W → Prop)
    (hbody : ∀ j b w, I b w → wp S inj (body j) b I Qx w) :
    ∀ n start b w, I b w → wp S inj (Prog.loopFrom body start n) b I Qx w := by
  intro n
  induction n with
  | zero => intro start b w h; simpa [Prog.loopFrom, wp] using h
  | succ n ih =>
    intro start b w h
    simp only [Prog.loopFrom, wp]
    exact wp_mono S inj (body start) b _ _ _ _ w (fun b' w' h' => ih (start + 1) b' w' h')
      (fun _ _ _ h' => h') (hbody start b w h)

/-! rules for postconditions that do not depend on how the program ended -/

theorem wp_tryFinally_uniform (S : Sem A W T) (inj : T → E → Prop) (body fin : Prog A E W)
    (Pmid Pend : W → Prop) (b : Bool) (w : W)
    (hb : wp S inj body b (fun _ w' => Pmid w') (fun _ _ w' => Pmid w') w)
    (hf : ∀ b' w', Pmid w' → wp S inj fin b' (fun _ w'' => Pend w'') (fun _ _ w'' => Pend w'') w') :
    wp S inj (.tryFinally body fin) b (fun _ w' => Pend w') (fun _ _ w' => Pend w') w := by
  simp only [wp]
  exact wp_mono S inj body b _ _ _ _ w (fun b' w' h' => hf b' w' h') (fun b' _ w' h' => hf b' w' h') hb

theorem wp_tryExcept_uniform (S : Sem A W T) (inj : T → E → Prop) (body : Prog A E W) (c : E → Bool)
    (h : E → Prog A E W) (Pmid Pend : W → Prop) (b : Bool) (w : W)
    (hb : wp S inj body b (fun _ w' => Pmid w') (fun _ _ w' => Pmid w') w)
    (hh : ∀ e b' w', Pmid w' → wp S inj (h e) b' (fun _ w'' => Pend w'') (fun _ _ w'' => Pend w'') w')
    (hm : ∀ w', Pmid w' → Pend w') :
    wp S inj (.tryExcept body c h) b (fun _ w' => Pend w') (fun _ _ w' => Pend w') w := by
  simp only [wp]
  refine wp_mono S inj body b _ _ _ _ w (fun _ w' h' => hm w' h') ?_ hb
  intro b' e w' h'
  by_cases hc : c e = true
  · simp only [hc, if_true]; exact hh e b' w' h'
  · simp only [hc]; exact hm w' h'

theorem wp_seq_uniform (S : Sem A W T) (inj : T → E → Prop) (p q : Prog A E W)
    (Pmid Pend : W → Prop) (b : Bool) (w : W)
    (hp : wp S inj p b (fun _ w' => Pmid w') (fun _ _ w' => Pmid w') w)
    (hq : ∀ b' w', Pmid w' → wp S inj q b' (fun _ w'' => Pend w'') (fun _ _ w'' => Pend w'') w')
    (hm : ∀ w', Pmid w' → Pend w') :
    wp S inj (.seq p q) b (fun _ w' => Pend w') (fun _ _ w' => Pend w') w := by
  simp only [wp]
  exact wp_mono S inj p b _ _ _ _ w (fun b' w' h' => hq b' w' h') (fun _ _ w' h' => hm w' h') hp

/-- postconditions that always hold -/
theorem wp_trivial (S : Sem A W T) (inj : T → E → Prop) (p : Prog A E W) :
    ∀ (b : Bool) (Qn : Bool → W → Prop) (Qx : Bool → E → W → Prop) (w : W),
      (∀ b w, Qn b w) → (∀ b e w, Qx b e w) → wp S inj p b Qn Qx w := by
  induction p with
  | done => intro b Qn Qx w hn _; exact hn b w
  | raise e => intro b Qn Qx w _ hx; exact hx b e w
  | act a k ih => intro b Qn Qx w hn hx; exact ⟨fun _ _ _ e _ => hx _ e _, ih b Qn Qx _ hn hx⟩
  | seq p q ihp ihq => intro b Qn Qx w hn hx; exact ihp b _ Qx w (fun b' w' => ihq b' Qn Qx w' hn hx) hx
  | tryFinally body fin ihb ihf =>
    intro b Qn Qx w hn hx
    exact ihb b _ _ w (fun b' w' => ihf b' Qn Qx w' hn hx) (fun b' e w' => ihf b' _ Qx w' (fun _ _ => hx _ e _) hx)
  | tryExcept body c h ihb ihh =>
    intro b Qn Qx w hn hx
    refine ihb b Qn _ w hn ?_
    intro b' e w'
    by_cases hc : c e = true
    · simp only [hc, if_true]; exact ihh e b' Qn Qx w' hn hx
    · simp only [hc]; exact hx _ _ _
  | get k ih => intro b Qn Qx w hn hx; exact ih w b Qn Qx w hn hx

/-- a predicate kept by every action is kept by every program, however it ends -/
theorem wp_act_invariant (S : Sem A W T) (inj : T → E → Prop) (Pinv : W → Prop)
    (ha : ∀ a w, Pinv w → Pinv (S.apply a w)) (hf : ∀ a w, Pinv w → Pinv (S.fapply a w)) (p : Prog A E W) :
    ∀ (b : Bool) (w : W), Pinv w → wp S inj p b (fun _ w' => Pinv w') (fun _ _ w' => Pinv w') w := by
  induction p with
  | done => intro b w h; exact h
  | raise e => intro b w h; exact h
  | act a k ih => intro b w h; exact ⟨fun _ _ _ _ _ => hf a w h, ih b _ (ha a w h)⟩
  | seq p q ihp ihq =>
    intro b w h
    exact wp_mono S inj p b _ _ _ _ w (fun b' w' h' => ihq b' w' h') (fun _ _ _ h' => h') (ihp b w h)
  | tryFinally body fin ihb ihf =>
    intro b w h
    exact wp_tryFinally_uniform S inj body fin Pinv Pinv b w (ihb b w h) (fun b' w' h' => ihf b' w' h')
  | tryExcept body c hd ihb ihh =>
    intro b w h
    exact wp_tryExcept_uniform S inj body c hd Pinv Pinv b w (ihb b w h) (fun e b' w' h' => ihh e b' w' h')
      (fun _ h' => h')
  | get k ih => intro b w h; exact ih w b w h

/-- fewer injectable exceptions, fewer obligations -/
theorem wp_inj_mono (S : Sem A W T) (inj inj' : T → E → Prop) (hi : ∀ t e, inj' t e → inj t e) (p : Prog A E W) :
    ∀ (b : Bool) (Qn : Bool → W → Prop) (Qx : Bool → E → W → Prop) (w : W),
      wp S inj p b Qn Qx w → wp S inj' p b Qn Qx w := by
  induction p with
  | done => intro b Qn Qx w h; exact h
  | raise e => intro b Qn Qx w h; exact h
  | act a k ih =>
    intro b Qn Qx w h
    exact ⟨fun hb t ht e he => h.1 hb t ht e (hi t e he), ih b Qn Qx _ h.2⟩
  | seq p q ihp ihq =>
    intro b Qn Qx w h
    exact wp_mono S inj' p b _ _ _ _ w (fun b' w' h' => ihq b' Qn Qx w' h') (fun _ _ _ h' => h') (ihp b _ Qx w h)
  | tryFinally body fin ihb ihf =>
    intro b Qn Qx w h
    exact wp_mono S inj' body b _ _ _ _ w (fun b' w' h' => ihf b' Qn Qx w' h')
      (fun b' e w' h' => ihf b' _ Qx w' h') (ihb b _ _ w h)
  | tryExcept body c hd ihb ihh =>
    intro b Qn Qx w h
    refine wp_mono S inj' body b _ _ _ _ w (fun _ _ h' => h') ?_ (ihb b Qn _ w h)
    intro b' e w' h'
    by_cases hc : c e = true
    · simp only [hc, if_true] at h' ⊢; exact ihh e b' Qn Qx w' h'
    · simp only [hc] at h' ⊢; exact h'
  | get k ih => intro b Qn Qx w h; exact ih w b Qn Qx w h

end TIV.Prog
