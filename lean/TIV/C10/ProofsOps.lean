import TIV.C10.Proofs
/-! # C10 — weakest preconditions of the operations' programs w.r.t. the invariant `G` -/
namespace TIV.C10
open TIV.Prog

/-- in strict mode only `_render_` calls fail -/
def injS (s : Bool) (t : Target) (e : Exc) : Prop := inj t e ∧ (s = true → t = .render ∨ t = .write)

/-- the faults under which `draw` promises to have finalized its data itself: any `_render_` call, any
    write of the drawing proper. Not: padding resolution / size validation (they happen inside
    `_init_render_(finalize=False)`, before `draw`'s `try` — the data is then left to `__del__`), nor
    the `write("\n")` of `draw`'s own clean-up, which precedes `finalize()` in the `finally`. -/
def injDraw (t : Target) (e : Exc) : Prop := inj t e ∧ (t = .render ∨ t = .write)

@[simp] theorem noHook_injDraw : NoHook injDraw := fun _ h => h.1

@[simp] theorem noHook_injS (s : Bool) : NoHook (injS s) := fun _ h => h.1

/-- what no operation on existing iterators changes -/
structure Fr (w0 w : World) : Prop where
  nObjs : w.nObjs = w0.nObjs
  nIters : w.nIters = w0.nIters
  fc : w.fc = w0.fc
  its : ∀ j, (w.iters j).data = (w0.iters j).data ∧ (w.iters j).finalizeData = (w0.iters j).finalizeData

theorem Fr.refl (w : World) : Fr w w := ⟨rfl, rfl, rfl, fun _ => ⟨rfl, rfl⟩⟩

structure GF (s : Bool) (X : Nat → Prop) (w0 w : World) : Prop where
  g : G s X w
  fr : Fr w0 w

theorem GF_ctl {s X w0 w} (i : Nat) (f : Ctl → Ctl) (h : GF s X w0 w) : GF s X w0 (apply (.ctl i f) w) := by
  obtain ⟨hg, ⟨f1, f2, f3, f5⟩⟩ := h
  refine ⟨G_same ?_ hg, ⟨f1, f2, f3, ?_⟩⟩
  · refine ⟨rfl, rfl, fun d => by simp [apply], fun j => ?_⟩
    by_cases hj : j = i <;> simp [apply, hj]
  · intro j; by_cases hj : j = i
    · subst hj; simpa [apply] using f5 j
    · simpa [apply, hj] using f5 j

theorem GF_render {s X w0 w} (d : Nat) (h : GF s X w0 w) (hd : (w.objs d).finalized = false) :
    GF s X w0 (apply (.render d) w) := by
  obtain ⟨hg, ⟨f1, f2, f3, f5⟩⟩ := h
  exact ⟨G_render d hg hd, ⟨f1, f2, f3, f5⟩⟩

theorem GF_renderEnd {s X w0 w} (d : Nat) (h : GF s X w0 w) (hd : (w.objs d).finalized = false) :
    GF s X w0 (apply (.renderEnd d) w) := by
  obtain ⟨hg, ⟨f1, f2, f3, f5⟩⟩ := h
  exact ⟨G_renderEnd d hg hd, ⟨f1, f2, f3, f5⟩⟩

theorem GF_logCb {s X w0 w} (o : Option Exc) (h : GF s X w0 w) : GF s X w0 (apply (.logCb o) w) := by
  obtain ⟨hg, ⟨f1, f2, f3, f5⟩⟩ := h
  exact ⟨G_same (w := w) (w' := apply (.logCb o) w) ⟨rfl, rfl, fun _ => by simp [apply], fun _ => by simp [apply]⟩ hg,
    ⟨f1, f2, f3, f5⟩⟩

theorem GF_closeW {s X w0 w} (i : Nat) (h : GF s X w0 w) (hi : i < w.nIters) : GF s X w0 (closeW i w) := by
  obtain ⟨hg, ⟨f1, f2, f3, f5⟩⟩ := h
  refine ⟨G_closeW i hg hi, ?_⟩
  by_cases hc : (w.iters i).closed = true
  · have : closeW i w = w := by simp [closeW, hc]
    rw [this]; exact ⟨f1, f2, f3, f5⟩
  · have hc' : (w.iters i).closed = false := by simpa using hc
    obtain ⟨n1, n2, n3, n4, o1, ⟨o2, o3, o4, o5, o6, -⟩, -⟩ := closeW_spec i hc'
    refine ⟨by omega, by omega, by rw [n3, f3], ?_⟩
    intro j
    by_cases hj : j = i
    · subst hj; rw [o5, o6]; exact f5 j
    · rw [o1 j hj]; exact f5 j

theorem GF_markDropped {s X w0 w} (i : Nat) (h : GF s X w0 w) : GF s X w0 (apply (.markDropped i) w) := by
  obtain ⟨hg, ⟨f1, f2, f3, f5⟩⟩ := h
  refine ⟨G_same ?_ hg, ⟨f1, f2, f3, ?_⟩⟩
  · refine ⟨rfl, rfl, fun d => by simp [apply], fun j => ?_⟩
    by_cases hj : j = i <;> simp [apply, hj]
  · intro j; by_cases hj : j = i
    · subst hj; simpa [apply] using f5 j
    · simpa [apply, hj] using f5 j

theorem GF_setFfw {s X w0 w} (v : Bool) (h : GF s X w0 w) : GF s X w0 (apply (.setFfw v) w) := by
  obtain ⟨hg, ⟨f1, f2, f3, f5⟩⟩ := h
  exact ⟨G_same (w := w) (w' := apply (.setFfw v) w) ⟨rfl, rfl, fun _ => by simp [apply], fun _ => by simp [apply]⟩ hg,
    ⟨f1, f2, f3, f5⟩⟩

section fields
variable (w : World) (i j d : Nat) (f : Ctl → Ctl)
@[simp] theorem ctl_objs : (apply (.ctl i f) w).objs = w.objs := rfl
@[simp] theorem ctl_nObjs : (apply (.ctl i f) w).nObjs = w.nObjs := rfl
@[simp] theorem ctl_nIters : (apply (.ctl i f) w).nIters = w.nIters := rfl
@[simp] theorem ctl_fc : (apply (.ctl i f) w).fc = w.fc := rfl
@[simp] theorem ctl_ffw : (apply (.ctl i f) w).ffw = w.ffw := rfl
@[simp] theorem ctl_data : ((apply (.ctl i f) w).iters j).data = (w.iters j).data := by
  by_cases h : j = i <;> simp [apply, h]
@[simp] theorem ctl_fd : ((apply (.ctl i f) w).iters j).finalizeData = (w.iters j).finalizeData := by
  by_cases h : j = i <;> simp [apply, h]
@[simp] theorem ctl_closed : ((apply (.ctl i f) w).iters j).closed = (w.iters j).closed := by
  by_cases h : j = i <;> simp [apply, h]
@[simp] theorem ctl_hasData : ((apply (.ctl i f) w).iters j).hasData = (w.iters j).hasData := by
  by_cases h : j = i <;> simp [apply, h]
@[simp] theorem ctl_hasIterator : ((apply (.ctl i f) w).iters j).hasIterator = (w.iters j).hasIterator := by
  by_cases h : j = i <;> simp [apply, h]
@[simp] theorem render_iters : (apply (.render d) w).iters = w.iters := rfl
@[simp] theorem render_nObjs : (apply (.render d) w).nObjs = w.nObjs := rfl
@[simp] theorem render_nIters : (apply (.render d) w).nIters = w.nIters := rfl
@[simp] theorem render_fc : (apply (.render d) w).fc = w.fc := rfl
@[simp] theorem render_ffw : (apply (.render d) w).ffw = w.ffw := rfl
@[simp] theorem render_finalized : ((apply (.render d) w).objs j).finalized = (w.objs j).finalized := by
  by_cases h : j = d <;> simp [apply, h]
@[simp] theorem logCb_objs (o : Option Exc) : (apply (.logCb o) w).objs = w.objs := rfl
@[simp] theorem logCb_iters (o : Option Exc) : (apply (.logCb o) w).iters = w.iters := rfl
@[simp] theorem logCb_nObjs (o : Option Exc) : (apply (.logCb o) w).nObjs = w.nObjs := rfl
@[simp] theorem logCb_nIters (o : Option Exc) : (apply (.logCb o) w).nIters = w.nIters := rfl
@[simp] theorem logCb_fc (o : Option Exc) : (apply (.logCb o) w).fc = w.fc := rfl
@[simp] theorem renderEnd_iters : (apply (.renderEnd d) w).iters = w.iters := rfl
@[simp] theorem renderEnd_nObjs : (apply (.renderEnd d) w).nObjs = w.nObjs := rfl
@[simp] theorem renderEnd_nIters : (apply (.renderEnd d) w).nIters = w.nIters := rfl
@[simp] theorem renderEnd_fc : (apply (.renderEnd d) w).fc = w.fc := rfl
@[simp] theorem renderEnd_finalized : ((apply (.renderEnd d) w).objs j).finalized = (w.objs j).finalized := by
  by_cases h : j = d <;> simp [apply, h]
@[simp] theorem write_id : apply .write w = w := rfl
@[simp] theorem validate_id : apply .validate w = w := rfl
@[simp] theorem resolve_id : apply .resolvePad w = w := rfl
@[simp] theorem writeNl_id : apply .writeNl w = w := rfl
@[simp] theorem convert_id : apply .convertArgs w = w := rfl
end fields

/-- closes goals `GF … (closeW/ctl/render … w)` from a hypothesis `GF … w` -/
macro "gf" : tactic =>
  `(tactic| ((repeat (first
      | assumption
      | apply GF_closeW
      | apply GF_ctl
      | apply GF_markDropped
      | apply GF_setFfw
      | apply GF_logCb
      | apply GF_renderEnd
      | apply GF_render))
    <;> (try simp) <;> (try assumption) <;> (try omega) <;> done))

theorem wp_ite {c : Prop} [Decidable c] (I : Target → Exc → Prop) (p q : P) (b : Bool)
    (Qn : Bool → World → Prop) (Qx : Bool → Exc → World → Prop) (w : World) :
    wp sem I (if c then p else q) b Qn Qx w ↔ ((c → wp sem I p b Qn Qx w) ∧ (¬ c → wp sem I q b Qn Qx w)) := by
  by_cases h : c <;> simp [h]

theorem ite_iff_and {c : Prop} [Decidable c] {A B : Prop} : (if c then A else B) ↔ ((c → A) ∧ (¬ c → B)) := by
  by_cases h : c <;> simp [h]

/-- unfolds `wp` over a program down to its leaves -/
macro "wpgo" : tactic =>
  `(tactic| repeat' (first
      | simp only [wp, Prog.do, sem_apply, sem_fapply, sem_target, target, reduceCtorEq, false_imp_iff,
          implies_true, true_and, and_true, Option.some.injEq, forall_eq', wp_closeP, wp_finalizeP, noHook_injS, noHook_injDraw, noHook_inj, wp_ite,
          ite_iff_and, true_imp_iff, not_true_eq_false, not_false_eq_true, Bool.false_eq_true, if_true, if_false]
      | dsimp only
      | split
      | apply And.intro
      | intro _))

/-- continuation-passing form of a spec -/
theorem cps {s X w0 w} {p : P} {b : Bool} (hw : GF s X w0 w)
    (h : wp sem (injS s) p b (fun _ w' => GF s X w0 w') (fun _ _ w' => GF s X w0 w') w)
    {Qn : Bool → World → Prop} {Qx : Bool → Exc → World → Prop}
    (hn : ∀ b' w', GF s X w0 w' → w'.nIters = w.nIters → w'.nObjs = w.nObjs → Qn b' w')
    (hx : ∀ b' e w', GF s X w0 w' → w'.nIters = w.nIters → w'.nObjs = w.nObjs → Qx b' e w') :
    wp sem (injS s) p b Qn Qx w :=
  wp_mono sem (injS s) p b _ _ _ _ w
    (fun b' w' h' => hn b' w' h' (by rw [h'.fr.nIters, hw.fr.nIters]) (by rw [h'.fr.nObjs, hw.fr.nObjs]))
    (fun b' e w' h' => hx b' e w' h' (by rw [h'.fr.nIters, hw.fr.nIters]) (by rw [h'.fr.nObjs, hw.fr.nObjs])) h

theorem cbPart_spec {s X w0 w} (i d : Nat) (cb : Option CbKind) (b : Bool) (h : GF s X w0 w)
    (hd : (w.objs d).finalized = false) :
    wp sem (injS s) (cbPart i d cb) b (fun _ w' => GF s X w0 w') (fun _ _ w' => GF s X w0 w') w := by
  cases cb with
  | none => simpa [cbPart, wp] using h
  | some k =>
    cases k with
    | close =>
      simp only [cbPart, cbProg, reCloseP]
      wpgo
      all_goals gf
    | next =>
      simp only [cbPart, cbProg, reCloseP, reNextP]
      wpgo
      all_goals gf
    | seek wh off =>
      simp only [cbPart, cbProg, seekP]
      wpgo
      all_goals gf

section
attribute [local irreducible] cbPart
theorem renderStep_spec {s X w0 w} (i : Nat) (cb : Option CbKind) (b : Bool) (h : GF s X w0 w)
    (hfin : (w.objs (w.iters i).data).finalized = false) :
    wp sem (injS s) (renderStep i cb) b (fun _ w' => GF s X w0 w')
      (fun _ _ w' => GF s X w0 w') w := by
  have hr : GF s X w0 (apply (.render (w.iters i).data) w) := GF_render _ h hfin
  unfold renderStep
  wpgo
  all_goals try wpgo
  all_goals try gf
  all_goals
    refine cps hr (cbPart_spec i _ cb _ hr (by simpa using hfin)) ?_ ?_
    · intro b' w' h' _ _; wpgo; all_goals gf
    · intro b' e w' h' _ _; wpgo; all_goals gf
end

theorem genBody_spec {s X w0 w} (i : Nat) (cb : Option CbKind) (b : Bool) (h : GF s X w0 w)
    (hfin : (w.objs (w.iters i).data).finalized = false) :
    wp sem (injS s) (genBody i cb) b (fun _ w' => GF s X w0 w') (fun _ _ w' => GF s X w0 w') w := by
  unfold genBody
  wpgo
  all_goals first
    | (apply renderStep_spec <;> gf)
    | gf

theorem nextP_spec {s X w0 w} (i : Nat) (b : Bool) (h : GF s X w0 w) (hi : i < w.nIters)
    (cb : Option CbKind := none) :
    wp sem (injS s) (nextP i cb) b (fun _ w' => GF s X w0 w') (fun _ _ w' => GF s X w0 w') w := by
  have hfin : (w.iters i).hasIterator = true → (w.objs (w.iters i).data).finalized = false := by
    intro hh
    have := h.g.itWf i hi
    exact h.g.itF i hi (by simp_all)
  unfold nextP genNext
  wpgo
  all_goals try gf
  refine cps h (genBody_spec i cb b h (hfin (by simp_all))) ?_ ?_
  · intros; gf
  · intro b' e w' h' hn ho
    wpgo
    all_goals gf

/-! ### operations on an existing iterator -/

theorem closeP_spec {s X w0 w} (i : Nat) (b : Bool) (h : GF s X w0 w) (hi : i < w.nIters) :
    wp sem (injS s) (closeP i) b (fun _ w' => GF s X w0 w') (fun _ _ w' => GF s X w0 w') w := by
  wpgo; gf

theorem seekP_spec {s X w0 w} (i : Nat) (wh : Whence) (off : Int) (b : Bool) (h : GF s X w0 w) :
    wp sem (injS s) (seekP i wh off) b (fun _ w' => GF s X w0 w') (fun _ _ w' => GF s X w0 w') w := by
  unfold seekP; wpgo; all_goals gf

theorem ctlP_spec {s X w0 w} (i : Nat) (f : Ctl → Ctl) (b : Bool) (h : GF s X w0 w) :
    wp sem (injS s) (ctlP i f) b (fun _ w' => GF s X w0 w') (fun _ _ w' => GF s X w0 w') w := by
  unfold ctlP; wpgo; all_goals gf

theorem dropIterP_spec {s X w0 w} (i : Nat) (b : Bool) (h : GF s X w0 w) (hi : i < w.nIters) :
    wp sem (injS s) (dropIterP i) b (fun _ w' => GF s X w0 w') (fun _ _ w' => GF s X w0 w') w := by
  unfold dropIterP; wpgo
  all_goals first
    | gf
    | (apply GF_markDropped; gf)

/-! ### operations that create data -/

def Only (d : Nat) : Nat → Prop := fun j => j = d

theorem fresh {s w} (it : Bool) (h : G s NoX w) :
    G s (Only w.nObjs) (apply (.newData .lib it false) w) ∧ ¬ Att (apply (.newData .lib it false) w) w.nObjs := by
  refine ⟨G_newData_lib it h (fun j => by simp [Only, NoX]), ?_⟩
  rintro ⟨k, hk, _, hd⟩
  have := h.itLt k hk
  simp [apply] at hd
  omega

theorem fin_end {s w} (d : Nat) (h : G s (Only d) w) (hna : ¬ Att w d) : G s NoX (finalizeW d .lib w) := by
  obtain ⟨h1, h2, h3, h4⟩ := h.xLive d rfl
  exact G_finalizeW d .lib h h1 hna (Or.inl ⟨rfl, h3⟩) (fun j => by simp [Only, NoX])

theorem forget_end {s w} (d : Nat) (h : G s (Only d) w) (hs : s = false) (hna : ¬ Att w d) : G s NoX w := by
  subst hs
  obtain ⟨h1, h2, h3, h4⟩ := h.xLive d rfl
  exact G_forget d h hna h4 (fun j => by simp [Only, NoX])

theorem Att_render (w : World) (d j : Nat) : Att (apply (.render d) w) j ↔ Att w j :=
  Att_congr (w := w) (w' := apply (.render d) w) rfl rfl j

theorem renderP_spec {s w} (b : Bool) (h : G s NoX w) :
    wp sem (injS s) renderP b (fun _ w' => G s NoX w') (fun _ _ w' => G s NoX w') w := by
  obtain ⟨h1, h2⟩ := fresh (s := s) false h
  have hx := h1.xLive _ rfl
  unfold renderP initRender
  simp only [Generated.initRenderIterationDefault, Generated.initRenderFinalizeDefault,
    Generated.initRenderCheckSizeDefault, Generated.initRenderAllowScrollDefault]
  wpgo
  all_goals
    apply fin_end
    · exact G_render _ h1 hx.2.1
    · rwa [Att_render]

theorem strP_spec {s w} (b : Bool) (h : G s NoX w) :
    wp sem (injS s) strP b (fun _ w' => G s NoX w') (fun _ _ w' => G s NoX w') w := renderP_spec b h

theorem iterNewP_spec {s w} (loops : Int) (c : CacheArg) (b : Bool) (h : G s NoX w) :
    wp sem (injS s) (iterNewP loops c) b (fun _ w' => G s NoX w') (fun _ _ w' => G s NoX w') w := by
  obtain ⟨h1, h2⟩ := fresh (s := s) true h
  have hx := h1.xLive _ rfl
  unfold iterNewP initChecks initRender
  simp only [Generated.initRenderCheckSizeDefault, Generated.initRenderAllowScrollDefault]
  wpgo
  all_goals first
    | exact h
    | exact G_newIter _ _ _ _ _ h1 hx.1 hx.2.1 h2 (by simp) (fun j => by simp [Only, NoX])

theorem fromDataP_spec {s w} (d : Nat) (fin : Bool) (loops : Int) (c : CacheArg) (a : ArgsKind) (b : Bool) (h : G s NoX w)
    (hd : d < w.nObjs) (hh : (w.objs d).held = true) (hna : ¬ Att w d) :
    wp sem (injS s) (fromDataP d fin loops c a) b (fun _ w' => G s NoX w') (fun _ _ w' => G s NoX w') w := by
  unfold fromDataP initChecks
  wpgo
  all_goals try simp only [convert_id]
  all_goals first
    | exact h
    | (refine G_newIter _ _ _ _ _ h hd (by simp_all) hna ?_ (fun j => by simp [NoX])
       intro _ ho
       have := h.objD d hd ho (by simp_all)
       simp_all [NoX])

theorem mkData_spec {s w} (it : Bool) (b : Bool) (h : G s NoX w) :
    wp sem (injS s) (Prog.do (.newData .caller it true)) b (fun _ w' => G s NoX w') (fun _ _ w' => G s NoX w') w := by
  wpgo; exact G_newData_caller it true h

theorem callerDrop_spec {s w} (d : Nat) (b : Bool) (h : G s NoX w) :
    wp sem (injS s) (Prog.do (.callerDrop d)) b (fun _ w' => G s NoX w') (fun _ _ w' => G s NoX w') w := by
  wpgo; exact G_callerDrop d h

theorem callerFinalize_spec {s w} (d : Nat) (b : Bool) (h : G s NoX w) (hd : d < w.nObjs)
    (hna : ¬ Att w d) (ho : (w.objs d).owner = .caller) :
    wp sem (injS s) (finalizeP d .caller) b (fun _ w' => G s NoX w') (fun _ _ w' => G s NoX w') w := by
  wpgo
  exact G_finalizeW d .caller h hd hna (Or.inr ⟨rfl, ho⟩) (fun j => by simp [NoX])

/-- a subclass operation on `_init_render_`: whatever fails — padding resolution, size validation,
    the renderer — and in whatever mode, the invariant holds when it returns or raises, *before* any
    GC step: with `finalize=True` the `finally` has finalized the data, with `finalize=False` the
    data is the subclass's. No restriction on the fault (`injS false`), also for strict `G`. -/
theorem initRenderOp_spec {s w} (it fin cs asc rp : Bool) (b : Bool) (h : G s NoX w) :
    wp sem (injS false) (initRenderOpP it fin cs asc rp) b (fun _ w' => G s NoX w') (fun _ _ w' => G s NoX w') w := by
  cases fin with
  | true =>
    obtain ⟨h1, h2⟩ := fresh (s := s) it h
    have hx := (h1.xLive _ rfl).2.1
    have hr := G_render _ h1 hx
    have hra : ¬ Att (apply (.render w.nObjs) (apply (.newData .lib it false) w)) w.nObjs := by rwa [Att_render]
    unfold initRenderOpP initRender
    wpgo
    all_goals try simp only [validate_id, resolve_id]
    all_goals first
      | exact fin_end _ hr hra
      | exact fin_end _ h1 h2
  | false =>
    have h1 := G_newData_caller (s := s) it false h
    have hx : ((apply (.newData .caller it false) w).objs w.nObjs).finalized = false := by simp [apply]
    have hr := G_render _ h1 hx
    unfold initRenderOpP initRender
    wpgo
    all_goals try simp only [validate_id, resolve_id]
    all_goals first
      | exact hr
      | exact h1

/-! ### `_animate_` and `draw` -/

theorem wp_act_quiet (I : Target → Exc → Prop) (a : Act) (k : P) (ht : target a = none) (b : Bool)
    (Qn : Bool → World → Prop) (Qx : Bool → Exc → World → Prop) (w : World) :
    wp sem I (.act a k) b Qn Qx w ↔ wp sem I k b Qn Qx (apply a w) := by
  simp [wp, ht]


section animate
variable {s : Bool} {d i : Nat} {w2 : World}

/-- a step of the `for frame in render_iter` loop keeps the invariant -/
theorem forBody_spec {w} (b : Bool) (hi : i < w2.nIters) (h : GF s (Only d) w2 w) (body : P)
    (hbody : ∀ b' w', GF s (Only d) w2 w' →
      wp sem (injS s) body b' (fun _ w'' => GF s (Only d) w2 w'') (fun _ _ w'' => GF s (Only d) w2 w'') w') :
    wp sem (injS s) (.seq (.tryExcept (nextP i) (· == .stopIteration) fun _ => .raise .brk) body) b
      (fun _ w'' => GF s (Only d) w2 w'') (fun _ _ w'' => GF s (Only d) w2 w'') w := by
  simp only [wp]
  refine cps h (nextP_spec i b h (by rw [h.fr.nIters]; exact hi)) ?_ ?_
  · intro b' w' h' _ _; exact hbody b' w' h'
  · intro b' e w' h' _ _; wpgo; all_goals exact h'

theorem forIter_spec {w} (b : Bool) (n : Nat) (inf : Bool) (hi : i < w2.nIters) (h : GF s (Only d) w2 w) (body : P)
    (hbody : ∀ b' w', GF s (Only d) w2 w' →
      wp sem (injS s) body b' (fun _ w'' => GF s (Only d) w2 w'') (fun _ _ w'' => GF s (Only d) w2 w'') w') :
    wp sem (injS s) (forIter i n inf body) b
      (fun _ w'' => GF s (Only d) w2 w'') (fun _ _ w'' => GF s (Only d) w2 w'') w := by
  unfold forIter Prog.loop
  simp only [wp]
  have hl := wp_loopFrom sem (injS s)
    (fun _ => Prog.seq (.tryExcept (nextP i) (· == .stopIteration) fun _ => .raise .brk) body)
    (fun _ w' => GF s (Only d) w2 w') (fun _ _ w' => GF s (Only d) w2 w')
    (fun _ b' w' h' => forBody_spec b' hi h' body hbody) n 0 b w h
  refine wp_mono sem (injS s) _ b _ _ _ _ w ?_ ?_ hl
  · intro b' w' h'; wpgo; all_goals exact h'
  · intro b' e w' h'; wpgo; all_goals exact h'

/-- the two writes of one animation frame -/
theorem frameWrites_spec {w} (b : Bool) (h : GF s (Only d) w2 w) :
    wp sem (injS s) frameWrites b
      (fun _ w'' => GF s (Only d) w2 w'') (fun _ _ w'' => GF s (Only d) w2 w'') w := by
  unfold frameWrites; wpgo; all_goals gf

theorem animBody_spec {w} (b : Bool) (n : Nat) (inf : Bool) (hi : i < w2.nIters) (h : GF s (Only d) w2 w) :
    wp sem (injS s) (animBody i n inf) b
      (fun _ w'' => GF s (Only d) w2 w'') (fun _ _ w'' => GF s (Only d) w2 w'') w := by
  unfold animBody
  simp only [wp]
  refine cps h (nextP_spec i b h (by rw [h.fr.nIters]; exact hi)) ?_ ?_
  · intro b' w' h' _ _
    wpgo
    all_goals try gf
    -- after the first frame: `set_padding`, then the loop
    all_goals
      refine cps (w := apply (.setFfw true) w') (by gf) (ctlP_spec i id _ (by gf)) ?_ ?_
      · intro b'' w'' h'' _ _
        exact forIter_spec b'' n inf hi h'' frameWrites (fun b3 w3 h3 => frameWrites_spec b3 h3)
      · intro b'' e w'' h'' _ _; exact h''
  · intro b' e w' h' _ _; wpgo; all_goals exact h'

/-- `GF` and the animation's iterator is closed -/
structure CL (s : Bool) (d i : Nat) (w2 w : World) : Prop where
  gf : GF s (Only d) w2 w
  cl : (w.iters i).closed = true

theorem closeW_closed (w : World) (i : Nat) : ((closeW i w).iters i).closed = true := by
  by_cases hc : (w.iters i).closed = true
  · simp [closeW, hc]
  · have hc' : (w.iters i).closed = false := by simpa using hc
    exact (closeW_spec i hc').2.2.2.2.2.1.2.2.1

theorem animRun_spec {w} (b : Bool) (n : Nat) (inf : Bool) (hi : i < w2.nIters) (h : GF s (Only d) w2 w) :
    wp sem (injS s) (animRun i n inf) b
      (fun _ w'' => CL s d i w2 w'') (fun _ _ w'' => CL s d i w2 w'') w := by
  have hiw : ∀ w', GF s (Only d) w2 w' → i < w'.nIters := fun w' h' => by rw [h'.fr.nIters]; exact hi
  have hdrop : ∀ b' w', CL s d i w2 w' →
      wp sem (injS s) (dropIterP i) b' (fun _ w'' => CL s d i w2 w'') (fun _ _ w'' => CL s d i w2 w'') w' := by
    intro b' w' ⟨h', hc⟩
    have hcw : closeW i w' = w' := by simp [closeW, hc]
    unfold dropIterP; wpgo
    all_goals (rw [hcw]; exact ⟨by gf, by simpa [apply] using hc⟩)
  have hfin1 : ∀ b' w', GF s (Only d) w2 w' →
      wp sem (injS s) (.seq (closeP i) (.get fun w' => if w'.ffw then .do .write else .done)) b'
        (fun _ w'' => CL s d i w2 w'') (fun _ _ w'' => CL s d i w2 w'') w' := by
    intro b' w' h'
    have := hiw w' h'
    wpgo
    all_goals exact ⟨by gf, by simpa using closeW_closed w' i⟩
  unfold animRun
  rw [wp_act_quiet _ _ _ rfl]
  refine wp_tryFinally_uniform sem (injS s) _ _ (CL s d i w2) (CL s d i w2) b _ ?_ hdrop
  refine wp_tryFinally_uniform sem (injS s) _ _ (GF s (Only d) w2) (CL s d i w2) b _ ?_ hfin1
  refine wp_tryExcept_uniform sem (injS s) _ _ _ (GF s (Only d) w2) (GF s (Only d) w2) b _ ?_ ?_ (fun _ h' => h')
  · exact animBody_spec b n inf hi (by gf)
  · intro e b' w' h'; simpa [wp] using h'

end animate

/-- the data of the running `draw` is in flight and nothing holds on to it -/
structure AP (s : Bool) (d : Nat) (w : World) : Prop where
  g : G s (Only d) w
  na : ¬ Att w d

theorem AP_of_CL {s d i w2 w} (h : CL s d i w2 w) (hn : w2.nIters = i + 1)
    (hlt : ∀ j, j < i → (w2.iters j).data < d) : AP s d w := by
  refine ⟨h.gf.g, ?_⟩
  rintro ⟨k, hk, hd, hdat⟩
  rw [h.gf.fr.nIters, hn] at hk
  by_cases hki : k = i
  · subst hki
    have := (h.gf.g.itWf k (by rw [h.gf.fr.nIters, hn]; omega)).2
    rw [h.cl, hd] at this; simp at this
  · have := hlt k (by omega)
    rw [← (h.gf.fr.its k).1, hdat] at this; omega

section
attribute [local irreducible] animRun
theorem animateP_spec {s d w1} (loops : Int) (cache : CacheArg) (bound : Nat) (b : Bool)
    (h : AP s d w1) (hlt : ∀ j, j < w1.nIters → (w1.iters j).data < d) :
    wp sem (injS s) (animateP d loops cache bound) b (fun _ w' => AP s d w') (fun _ _ w' => AP s d w') w1 := by
  obtain ⟨hx1, hx2, hx3, hx4⟩ := h.g.xLive d rfl
  unfold animateP catchRet
  refine wp_tryExcept_uniform sem (injS s) _ _ _ (AP s d) (AP s d) b _ ?_ ?_ (fun _ h' => h')
  · simp only [wp]
    unfold fromDataP initChecks
    wpgo
    all_goals try exact h
    -- the iterator exists
    all_goals
      refine wp_mono sem (injS s) _ _ _ _ _ _ _ ?_ ?_
        (animRun_spec (s := s) (d := d) (i := w1.nIters) (w2 := apply (.newIter d false _ _ _) w1) _ _ _
          (by simp [apply]) ⟨G_newIter d false _ _ _ h.g hx1 hx2 h.na (fun _ _ => rfl) (fun j => by simp), Fr.refl _⟩)
      · intro _ w' h'
        exact AP_of_CL h' (by simp [apply]) (fun j hj => by
          have := hlt j hj; simpa [apply, show j ≠ w1.nIters by omega] using this)
      · intro _ _ w' h'
        exact AP_of_CL h' (by simp [apply]) (fun j hj => by
          have := hlt j hj; simpa [apply, show j ≠ w1.nIters by omega] using this)
  · intro e b' w' h'; simpa [wp] using h'

end

section
attribute [local irreducible] animateP
theorem drawP_spec {s w} (animate cs : Bool) (loops : Int) (cache : CacheArg) (bound : Nat) (b : Bool)
    (h : G s NoX w) :
    wp sem (injS s) (drawP animate cs loops cache bound) b (fun _ w' => G s NoX w') (fun _ _ w' => G s NoX w') w := by
  obtain ⟨h1, h2⟩ := fresh (s := s) (decide (w.fc ≠ 1) && animate) h
  have hx := (h1.xLive _ rfl).2.1
  have hlt : ∀ j, j < (apply (.newData .lib (decide (w.fc ≠ 1) && animate) false) w).nIters →
      ((apply (.newData .lib (decide (w.fc ≠ 1) && animate) false) w).iters j).data < w.nObjs := fun j hj => h.itLt j hj
  have hr := G_render _ h1 hx
  have hra : ¬ Att (apply (.render w.nObjs) (apply (.newData .lib (decide (w.fc ≠ 1) && animate) false) w)) w.nObjs := by
    rwa [Att_render]
  have hsf : ∀ t e, injS s t e → t ≠ .render ∧ t ≠ .write → s = false := by
    intro t e hi ht; cases s <;> simp_all [injS]
  unfold drawP initRender
  wpgo
  all_goals simp only [write_id, validate_id, resolve_id, writeNl_id]
  all_goals first
    | exact fin_end _ hr hra
    | exact fin_end _ h1 h2
    | exact forget_end _ hr (hsf _ _ (by assumption) (by simp)) hra
    | exact forget_end _ h1 (hsf _ _ (by assumption) (by simp)) h2
    | (refine wp_mono sem (injS s) _ _ _ _ _ _ _ ?_ ?_ (animateP_spec loops cache bound _ ⟨h1, h2⟩ hlt)
       · intro b' w' h'
         exact ⟨fun _ e he => forget_end _ h'.g (hsf _ _ he (by simp)) h'.na, fin_end _ h'.g h'.na⟩
       · intro b' _ w' h'
         exact ⟨fun _ e he => forget_end _ h'.g (hsf _ _ he (by simp)) h'.na, fin_end _ h'.g h'.na⟩)
end

/-! ### promptness of `draw` -/

/-- object `d` has been finalized, once, by library code, not by `__del__`, and was never used after -/
structure Prompt (d : Nat) (w : World) : Prop where
  finalized : (w.objs d).finalized = true
  once : (w.objs d).finCalls = 1
  byLib : (w.objs d).libFin = 1
  notDel : (w.objs d).viaDel = 0
  notUsedAfter : (w.objs d).usedAfter = 0

theorem prompt_of_fin {s d w} (h : G s (Only d) w) : Prompt d (finalizeW d .lib w) := by
  obtain ⟨h1, h2, h3, h4⟩ := h.xLive d rfl
  have ha := h.objA d h1
  have hv := h.objV d h1
  have hb := h.objB d h1
  rw [h2] at ha
  simp only [Bool.toNat_false] at ha
  constructor <;> simp [finalizeW, h2, apply, ha, hb] <;> omega

section
attribute [local irreducible] animateP
theorem drawP_prompt {w} (animate cs : Bool) (loops : Int) (cache : CacheArg) (bound : Nat) (b : Bool)
    (h : G false NoX w) :
    wp sem injDraw (drawP animate cs loops cache bound) b (fun _ w' => Prompt w.nObjs w')
      (fun _ _ w' => Prompt w.nObjs w') w := by
  obtain ⟨h1, h2⟩ := fresh (s := false) (decide (w.fc ≠ 1) && animate) h
  have hx := (h1.xLive _ rfl).2.1
  have hlt : ∀ j, j < (apply (.newData .lib (decide (w.fc ≠ 1) && animate) false) w).nIters →
      ((apply (.newData .lib (decide (w.fc ≠ 1) && animate) false) w).iters j).data < w.nObjs := fun j hj => h.itLt j hj
  have hr := G_render _ h1 hx
  have hno : ∀ t e, injDraw t e → t ≠ .render ∧ t ≠ .write → False := by
    intro t e hi ht; simp_all [injDraw]
  unfold drawP initRender
  wpgo
  all_goals simp only [write_id, validate_id, resolve_id, writeNl_id]
  all_goals first
    | exact prompt_of_fin hr
    | exact prompt_of_fin h1
    | (refine wp_mono sem injDraw _ _ _ _ _ _ _ ?_ ?_
        (wp_inj_mono sem (injS false) injDraw (fun t e he => ⟨he.1, by simp⟩) _ _ _ _ _
          (animateP_spec loops cache bound _ ⟨h1, h2⟩ hlt))
       · intro b' w' h'
         exact ⟨fun _ e he => (hno _ _ he (by simp)).elim, prompt_of_fin h'.g⟩
       · intro b' _ w' h'
         exact ⟨fun _ e he => (hno _ _ he (by simp)).elim, prompt_of_fin h'.g⟩)
    | (exfalso; clear h h1 h2 hx hlt hr hno; simp_all [injDraw]; done)
end

/-! ### one history step -/

/-- operations whose programs are proved for *every* injectable fault, also in strict mode -/
def isDirect : Op → Bool
  | .initRender .. => true
  | _ => false

/-- what may be injected into an operation: in strict mode (`s = true`) only `_render_` calls fail —
    except in a subclass operation on `_init_render_`, where anything may. -/
def injOp (s : Bool) (op : Op) : Target → Exc → Prop := injS (s && !isDirect op)

/-- every fault plan of the history injects only what `inj` allows (strict mode: see `injOp`) -/
def Adm (s : Bool) (h : List (Op × Flt)) : Prop := ∀ x, x ∈ h → Admissible (injOp s x.1) x.2

theorem post_G {s : Bool} {r : World × Flt × Option Exc}
    (h : Post (fun _ w' => G s NoX w') (fun _ _ w' => G s NoX w') r) : G s NoX r.1 := by
  obtain ⟨w, f, e⟩ := r; cases e <;> exact h

theorem post_GF {s : Bool} {w : World} {r : World × Flt × Option Exc}
    (h : Post (fun _ w' => GF s NoX w w') (fun _ _ w' => GF s NoX w w') r) : G s NoX r.1 := by
  obtain ⟨w, f, e⟩ := r; cases e <;> exact h.g

/-- one history step keeps the quiescent invariant -/
theorem step_inv (s : Bool) (w : World) (op : Op) (f : Flt) (hadm : Admissible (injOp s op) f)
    (h : Inv s w) : Inv s (stepOp w op f).1 := by
  unfold stepOp
  by_cases hv : valid w op = true
  · simp only [hv, if_true, dropRefsFast_eq]
    apply G_dropRefs
    have h0 : GF s NoX w w := ⟨h.1, Fr.refl w⟩
    cases op with
    | initRender it fin cs asc rp =>
      exact post_G (wp_sound sem (injS false) _ f _ _ w (by simpa [injOp, isDirect] using hadm)
        (initRenderOp_spec it fin cs asc rp _ h.1))
    | str => exact post_G (wp_sound sem (injS s) _ f _ _ w (by simpa [injOp, isDirect] using hadm) (strP_spec _ h.1))
    | render => exact post_G (wp_sound sem (injS s) _ f _ _ w (by simpa [injOp, isDirect] using hadm) (renderP_spec _ h.1))
    | draw a cs l c b => exact post_G (wp_sound sem (injS s) _ f _ _ w (by simpa [injOp, isDirect] using hadm) (drawP_spec a cs l c b _ h.1))
    | iterNew l c => exact post_G (wp_sound sem (injS s) _ f _ _ w (by simpa [injOp, isDirect] using hadm) (iterNewP_spec l c _ h.1))
    | mkData it => exact post_G (wp_sound sem (injS s) _ f _ _ w (by simpa [injOp, isDirect] using hadm) (mkData_spec it _ h.1))
    | fromData d fin l c a =>
      simp only [valid, Bool.and_eq_true, decide_eq_true_eq, Bool.not_eq_true'] at hv
      have hna : ¬ Att w d := by rw [← attached_iff]; simp [hv.2]
      exact post_G (wp_sound sem (injS s) _ f _ _ w (by simpa [injOp, isDirect] using hadm) (fromDataP_spec d fin l c a _ h.1 hv.1.1 hv.1.2 hna))
    | next i =>
      simp only [valid, Bool.and_eq_true, decide_eq_true_eq] at hv
      exact post_GF (wp_sound sem (injS s) _ f _ _ w (by simpa [injOp, isDirect] using hadm) (nextP_spec i _ h0 hv.1))
    | close i =>
      simp only [valid, Bool.and_eq_true, decide_eq_true_eq] at hv
      exact post_GF (wp_sound sem (injS s) _ f _ _ w (by simpa [injOp, isDirect] using hadm) (closeP_spec i _ h0 hv.1))
    | seek i wh off =>
      exact post_GF (wp_sound sem (injS s) _ f _ _ w (by simpa [injOp, isDirect] using hadm) (seekP_spec i wh off _ h0))
    | set i k fr =>
      exact post_GF (wp_sound sem (injS s) _ f _ _ w (by simpa [injOp, isDirect] using hadm) (ctlP_spec i _ _ h0))
    | nextCb i cb =>
      simp only [valid, Bool.and_eq_true, decide_eq_true_eq] at hv
      exact post_GF (wp_sound sem (injS s) _ f _ _ w (by simpa [injOp, isDirect] using hadm)
        (nextP_spec i _ h0 hv.1 (some cb)))
    | bump i => exact post_GF (wp_sound sem (injS s) _ f _ _ w (by simpa [injOp, isDirect] using hadm) (ctlP_spec i _ _ h0))
    | dropIter i =>
      simp only [valid, Bool.and_eq_true, decide_eq_true_eq] at hv
      exact post_GF (wp_sound sem (injS s) _ f _ _ w (by simpa [injOp, isDirect] using hadm) (dropIterP_spec i _ h0 hv.1))
    | callerFinalize d =>
      simp only [valid, Bool.and_eq_true, decide_eq_true_eq, Bool.not_eq_true'] at hv
      have hna : ¬ Att w d := by rw [← attached_iff]; simp [hv.1.2]
      exact post_G (wp_sound sem (injS s) _ f _ _ w (by simpa [injOp, isDirect] using hadm) (callerFinalize_spec d _ h.1 hv.1.1.1 hna hv.2))
    | callerDrop d => exact post_G (wp_sound sem (injS s) _ f _ _ w (by simpa [injOp, isDirect] using hadm) (callerDrop_spec d _ h.1))
  · simp only [hv]; exact h

theorem init_inv (s : Bool) (fc : Nat) : Inv s (init fc) := by
  refine ⟨?_, fun d hd => by simp [init] at hd⟩
  constructor <;> simp [init, NoX]


end TIV.C10
