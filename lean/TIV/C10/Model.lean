import TIV.C10.Prog
import TIV.C10.Generated
/-!
# C10 — model: life cycle of render data and render iterators

Mirrors, branch by branch,
* `RenderData.finalize` / `__del__`                       (renderable/_types.py)
* `Renderable._init_render_`, `render`, `draw`, `_animate_` (renderable/_renderable.py)
* `RenderIterator.__init__`, `_init`, `_from_render_data_`, `__next__`, `close`, `__del__`,
  `seek`/`set_*` (their closed check), `_iterate`        (render/_iterator.py)
as `Prog`s over a heap of data objects and iterators. Everything that is not life cycle
(pixels, padding, sizes, timing) is absent; what decides *how many* renders happen
(frame count, loops, seek, the frame cache and its invalidation) is present.
-/
namespace TIV.C10
open TIV.Prog

/-- exceptions (`ret`, `brk`, `diverge` are control-flow pseudo-exceptions: `return`, `break`,
    "an infinite animation was still running when observation stopped") -/
inductive Exc
  | stopIteration | attributeError | valueError | sizeError | stopDefinite | finalizedIter
  | boom | keyboardInterrupt | ret | brk | diverge
  /-- further classes a frame render (a stream, a padding) may raise: a `ValueError` subclass, other
      built-in `Exception`s, and `BaseException`s that are not `Exception`s -/
  | unicodeError | typeError | keyError | runtimeError | osError | generatorExit | baseBoom
deriving DecidableEq, Repr, Inhabited

/-- `isinstance(e, Exception)` -/
def Exc.isException : Exc → Bool
  | .keyboardInterrupt | .ret | .brk | .diverge | .generatorExit | .baseBoom => false
  | _ => true

/-- the Python class of a (real) exception -/
def excPyName : Exc → String
  | .stopIteration => "StopIteration" | .attributeError => "AttributeError"
  | .valueError => "ValueError" | .sizeError => "RenderSizeOutofRangeError"
  | .stopDefinite => "StopDefiniteIterationError" | .finalizedIter => "FinalizedIteratorError"
  | .boom => "Boom" | .keyboardInterrupt => "KeyboardInterrupt"
  | .ret => "Ret" | .brk => "Brk" | .diverge => "Diverge"
  | .unicodeError => "UnicodeDecodeError" | .typeError => "TypeError" | .keyError => "KeyError"
  | .runtimeError => "RuntimeError" | .osError => "OSError" | .generatorExit => "GeneratorExit"
  | .baseBoom => "BaseBoom"

/-- exceptions the code has no special clause for (beyond `Exception` vs `BaseException` and
    `KeyboardInterrupt`): whatever third-party code may raise -/
def Exc.generic : Exc → Bool
  | .boom | .valueError | .unicodeError | .typeError | .keyError | .runtimeError | .osError
  | .keyboardInterrupt | .generatorExit | .baseBoom => true
  | _ => false

/-- `cwrite`: the `write("\n")` of `draw`'s own clean-up (`finally`) -/
inductive Target | render | validate | write | resolve | cwrite | finhook
deriving DecidableEq, Repr

inductive Owner | lib | caller
deriving DecidableEq, Repr

/-- who caused a `_finalize_render_data_` call -/
inductive By | lib | caller | del
deriving DecidableEq, Repr

structure Obj where
  owner : Owner := .lib
  iteration : Bool := false
  /-- the caller holds a reference -/
  held : Bool := false
  finalized : Bool := false
  /-- calls of `render_cls._finalize_render_data_` -/
  finCalls : Nat := 0
  libFin : Nat := 0
  viaDel : Nat := 0
  renders : Nat := 0
  /-- `_render_` calls that saw `finalized = True` -/
  usedAfter : Nat := 0

inductive Gen | suspended | finished
deriving DecidableEq, Repr

/-- the part of an iterator that only steers iteration -/
structure Ctl where
  gen : Gen := .suspended
  loop : Nat := 1
  inf : Bool := false
  offset : Nat := 0
  cached : Bool := false
  /-- frame ↦ the settings version it was rendered with -/
  cache : Nat → Option Nat := fun _ => none
  version : Nat := 0

structure Iter where
  data : Nat := 0
  finalizeData : Bool := true
  /-- attribute `_iterator` exists -/
  hasIterator : Bool := true
  /-- attribute `_render_data` exists -/
  hasData : Bool := true
  closed : Bool := false
  dropped : Bool := false
  ctl : Ctl := {}

inductive Ev
  | create (d : Nat)
  | render (d : Nat) (finalized : Bool)
  | fin (d : Nat) (by_ : By)
  /-- how a call made from inside `_render_` back into the iterator ended -/
  | cb (outcome : Option Exc)
  /-- `render_data.finalized` as seen at the end of a `_render_` that made such a call -/
  | renderEnd (d : Nat) (finalized : Bool)

structure World where
  /-- frame count of the renderable: 0 = INDEFINITE, 1 = not animated -/
  fc : Nat := 1
  nObjs : Nat := 0
  objs : Nat → Obj := fun _ => {}
  nIters : Nat := 0
  iters : Nat → Iter := fun _ => {}
  /-- `first_frame_written` of the running `_animate_` -/
  ffw : Bool := false
  trace : List Ev := []

def World.setObj (w : World) (d : Nat) (f : Obj → Obj) : World :=
  { w with objs := fun j => if j = d then f (w.objs j) else w.objs j }

def World.setIter (w : World) (i : Nat) (f : Iter → Iter) : World :=
  { w with iters := fun j => if j = i then f (w.iters j) else w.iters j }

def World.log (w : World) (e : Ev) : World := { w with trace := w.trace ++ [e] }

inductive CacheArg | off | on | upto (n : Nat)
deriving DecidableEq, Repr

inductive Act
  /-- `_get_render_data_(iteration=…)`; the new object's id is `nObjs` -/
  | newData (owner : Owner) (iteration held : Bool)
  /-- one comparison of the size validation of `_init_render_` (width, then — unless scrolling is
      allowed — height) -/
  | validate
  /-- `padding.resolve(terminal_size)` of a relative `AlignedPadding` -/
  | resolvePad
  /-- `output.write("\n")` in the `finally` of `draw` -/
  | writeNl
  /-- `RenderArgs(type(renderable), render_args)`: conversion of `None` / ancestor-class arguments -/
  | convertArgs
  /-- `renderable._render_(render_data, render_args)` -/
  | render (d : Nat)
  /-- `output.write(…)` -/
  | write
  /-- `if not self.finalized: try: render_cls._finalize_render_data_(self)` -/
  | finCall (d : Nat) (by_ : By)
  /-- `finally: self.finalized = True` -/
  | setFinalized (d : Nat)
  /-- the generator is created and run to the dummy frame (`self._render_data = render_data`, …) -/
  | newIter (d : Nat) (finalizeData : Bool) (loop : Nat) (inf cached : Bool)
  /-- any update of the steering state of iterator `i` -/
  | ctl (i : Nat) (f : Ctl → Ctl)
  /-- `self._iterator.close(); del self._iterator` -/
  | delIterator (i : Nat)
  /-- `del self._render_data` -/
  | delData (i : Nat)
  /-- `self._closed = True` -/
  | markClosed (i : Nat)
  | markDropped (i : Nat)
  | callerDrop (d : Nat)
  | setFfw (b : Bool)
  /-- the renderable notes how its call back into the iterator ended (it swallows the exception) -/
  | logCb (o : Option Exc)
  /-- the end of a `_render_` that called back: still rendering with this data -/
  | renderEnd (d : Nat)

def apply : Act → World → World
  | .newData o it h, w =>
    ({ w with nObjs := w.nObjs + 1 }.setObj w.nObjs fun _ => { owner := o, iteration := it, held := h }).log
      (.create w.nObjs)
  | .validate, w => w
  | .resolvePad, w => w
  | .writeNl, w => w
  | .convertArgs, w => w
  | .render d, w =>
    (w.setObj d fun o =>
      { o with renders := o.renders + 1, usedAfter := o.usedAfter + (if o.finalized then 1 else 0) }).log
      (.render d (w.objs d).finalized)
  | .write, w => w
  | .finCall d b, w =>
    (w.setObj d fun o =>
      { o with finCalls := o.finCalls + 1,
               libFin := o.libFin + (if b = .lib then 1 else 0),
               viaDel := o.viaDel + (if b = .del then 1 else 0) }).log (.fin d b)
  | .setFinalized d, w => w.setObj d fun o => { o with finalized := true }
  | .newIter d fd loop inf cached, w =>
    -- ghost: an iterator that is to finalize its data owns it from now on
    ({ w with nIters := w.nIters + 1 }.setIter w.nIters fun _ =>
      { data := d, finalizeData := fd, ctl := { loop := loop, inf := inf, cached := cached } }).setObj d
      fun o => { o with owner := if fd then .lib else o.owner }
  | .ctl i f, w => w.setIter i fun it => { it with ctl := f it.ctl }
  | .delIterator i, w => w.setIter i fun it => { it with hasIterator := false, ctl := { it.ctl with gen := .finished } }
  | .delData i, w => w.setIter i fun it => { it with hasData := false }
  | .markClosed i, w => w.setIter i fun it => { it with closed := true }
  | .markDropped i, w => w.setIter i fun it => { it with dropped := true }
  | .callerDrop d, w => w.setObj d fun o => { o with held := false }
  | .setFfw b, w => { w with ffw := b }
  | .logCb o, w => w.log (.cb o)
  | .renderEnd d, w =>
    (w.setObj d fun o => { o with usedAfter := o.usedAfter + (if o.finalized then 1 else 0) }).log
      (.renderEnd d (w.objs d).finalized)

def target : Act → Option Target
  | .render _ => some .render
  | .validate => some .validate
  | .resolvePad => some .resolve
  | .writeNl => some .cwrite
  | .finCall _ _ => some .finhook
  | .write => some .write
  | _ => none

/-- an action that raises the injected exception still has happened as an *attempt*
    (the `_render_` call was made and saw the data) -/
abbrev sem : Sem Act World Target := { apply := apply, fapply := apply, target := target }

/-- what can be injected where -/
def inj : Target → Exc → Prop
  | .render, e => e.generic = true ∨ e = .stopIteration ∨ e = .attributeError
  | .validate, e => e = .sizeError
  | .write, e => e.generic = true
  | .resolve, e => e.generic = true
  | .cwrite, e => e.generic = true
  -- a raising `_finalize_render_data_` is outside the property's fault sequences: the programs run it
  -- (driver, correspondence, `finalize_once_even_if_raises`), the history theorems do not inject it
  | .finhook, _ => False

abbrev P := Prog Act Exc World

/-! ## `RenderData.finalize()` and `__del__` -/

def finalizeP (d : Nat) (b : By) : P :=
  .get fun w =>
    if (w.objs d).finalized then .done
    else .tryFinally (.do (.finCall d b)) (.do (.setFinalized d))

/-! ## `Renderable._init_render_` -/

/-- `renderer` receives the id of the new data object. `owner`: whose data this is when
    `finalize = False` hands it back un-finalized (the library's own `draw`/`RenderIterator`, or the
    code of a subclass that called `_init_render_` itself). `relPad`: the padding is a relative
    `AlignedPadding`. -/
def initRender (owner : Owner) (iteration finalize checkSize allowScroll relPad : Bool)
    (renderer : Nat → P) : P :=
  .get fun w =>
    let d := w.nObjs
    .act (.newData owner iteration false) <|
      .tryFinally
        (.seq (if relPad then .do .resolvePad else .done) <|
         .seq (if checkSize then
                 .seq (.do .validate) (if allowScroll then .done else .do .validate)
               else .done)
           (renderer d))
        (if finalize then finalizeP d .lib else .done)

/-- `Renderable.render()` / `__str__` (no padding to resolve, no size validation) -/
def renderP : P :=
  initRender .lib Generated.initRenderIterationDefault Generated.initRenderFinalizeDefault
    Generated.initRenderCheckSizeDefault Generated.initRenderAllowScrollDefault false fun d => .do (.render d)

/-- `Renderable.__str__`: `self._init_render_(self._render_)[0].render_output` — every default -/
def strP : P :=
  initRender .lib Generated.initRenderIterationDefault Generated.initRenderFinalizeDefault
    Generated.initRenderCheckSizeDefault Generated.initRenderAllowScrollDefault false fun d => .do (.render d)

/-- an operation defined by a subclass that calls the extension point itself:
    `self._init_render_(self._render_, None, padding, iteration=…, finalize=…, check_size=…,
    allow_scroll=…)`. With `finalize=False` the data stays the subclass's. -/
def initRenderOpP (iteration finalize checkSize allowScroll relPad : Bool) : P :=
  initRender (if finalize then .lib else .caller) iteration finalize checkSize allowScroll relPad
    fun d => .do (.render d)

/-! ## `RenderIterator` -/

/-- `RenderIterator._init`: argument validation -/
def initChecks (loops : Int) (cache : CacheArg) : P :=
  .get fun w =>
    if w.fc = 1 then .raise .valueError
    else if loops = 0 then .raise .valueError
    else if cache = .upto 0 then .raise .valueError
    else .done

def loopOf (fc : Nat) (loops : Int) : Nat := if fc = 0 then 1 else loops.toNat
def infOf (fc : Nat) (loops : Int) : Bool := fc ≠ 0 && loops < 0
/-- iteration ends only through an exception (infinite looping, or INDEFINITE frame count) -/
def unbounded (fc : Nat) (loops : Int) : Bool := fc = 0 || loops < 0
def cachedOf (fc : Nat) : CacheArg → Bool
  | .off => false
  | .on => fc ≠ 0
  | .upto n => fc ≠ 0 && fc ≤ n

/-- `RenderIterator.__init__` -/
def iterNewP (loops : Int) (cache : CacheArg) : P :=
  .seq (initChecks loops cache) <|
    .get fun w =>
      let d := w.nObjs
      .seq (initRender .lib true false Generated.initRenderCheckSizeDefault
              Generated.initRenderAllowScrollDefault false fun _ => .done)
        (.do (.newIter d true (loopOf w.fc loops) (infOf w.fc loops) (cachedOf w.fc cache)))

/-- the `render_args` handed to `_from_render_data_`: `None`, arguments already associated with the
    renderable's own class (what `draw` passes to `_animate_`), or with an ancestor class -/
inductive ArgsKind | none | own | ancestor
deriving DecidableEq, Repr

/-- `RenderIterator._from_render_data_` -/
def fromDataP (d : Nat) (finalize : Bool) (loops : Int) (cache : CacheArg) (args : ArgsKind := .own) : P :=
  .seq (initChecks loops cache) <|
    .get fun w =>
      if (w.objs d).finalized then .raise .valueError
      else if !(w.objs d).iteration then .raise .valueError
      else
        -- `if not (render_args and render_args.render_cls is type(renderable)): render_args = RenderArgs(…)`
        .seq (if args = .own then .done else .do .convertArgs)
          (.do (.newIter d finalize (loopOf w.fc loops) (infOf w.fc loops) (cachedOf w.fc cache)))

/-- `RenderIterator.close()` -/
def closeP (i : Nat) : P :=
  .get fun w =>
    if (w.iters i).closed then .done
    else
      .act (.delIterator i) <|
        .seq (if (w.iters i).finalizeData then finalizeP (w.iters i).data .lib else .done) <|
          .act (.delData i) (.do (.markClosed i))

/-! steering updates of `_iterate` (named so that proofs can treat them as opaque) -/
/-- `renderable_data.frame_offset += 1` (definite frame count only) -/
def advCtl (definite : Bool) (c : Ctl) : Ctl := if definite then { c with offset := c.offset + 1 } else c
/-- `cache[frame_no] = (frame, size, duration, render_args)`, then advance -/
def storeCtl (definite : Bool) (frameNo : Nat) (c : Ctl) : Ctl :=
  advCtl definite
    (if c.cached then { c with cache := fun j => if j = frameNo then some c.version else c.cache j } else c)
/-- `frame_no = frame_offset = 0; if loop > 0: loop -= 1` -/
def endLoopCtl (c : Ctl) : Ctl := { c with offset := 0, loop := if c.inf then c.loop else c.loop - 1 }
def loop0Ctl (c : Ctl) : Ctl := { c with loop := 0 }
def finishCtl (c : Ctl) : Ctl := { c with gen := .finished }
def seekCtl (n : Nat) (c : Ctl) : Ctl := { c with offset := n }
def bumpCtl (c : Ctl) : Ctl := { c with version := c.version + 1 }

/-- `seek` / `set_*`: the finalized check, then the part that steers iteration -/
def ctlP (i : Nat) (f : Ctl → Ctl) : P :=
  .get fun w =>
    if (w.iters i).closed then .raise .finalizedIter
    else .do (.ctl i f)

inductive Whence | start | current | end_
deriving DecidableEq, Repr

/-- `RenderIterator.seek(offset, whence)`: the finalized check first, then the range tests -/
def seekP (i : Nat) (wh : Whence) (off : Int) : P :=
  .get fun w =>
    if (w.iters i).closed then .raise .finalizedIter
    else if w.fc = 0 then
      if (wh = .start ∧ off < 0) ∨ (wh = .end_ ∧ off > 0) then .raise .valueError else .done
    else
      let frame : Int :=
        match wh with
        | .start => off
        | .current => ((w.iters i).ctl.offset : Int) + off
        | .end_ => (w.fc : Int) + off - 1
      if 0 ≤ frame ∧ frame < (w.fc : Int) then .do (.ctl i (seekCtl frame.toNat)) else .raise .valueError

/-! calls from inside `_render_` back into the iterator: the generator `_iterate` is executing -/

/-- `close()` while the generator is executing: `self._iterator.close()` is the first thing `close()`
    does and it raises `ValueError: generator already executing` -/
def reCloseP (i : Nat) : P :=
  .get fun w => if (w.iters i).closed then .done else .raise .valueError

/-- `next()` while the generator is executing: `next(self._iterator)` raises ValueError, which
    `__next__` answers with `self.close()` — which raises the same -/
def reNextP (i : Nat) : P :=
  .tryExcept (.raise .valueError) (fun e => e.isException) fun e => .seq (reCloseP i) (.raise e)

inductive CbKind
  | close
  | next
  | seek (wh : Whence) (off : Int)

def cbProg (i : Nat) : CbKind → P
  | .close => reCloseP i
  | .next => reNextP i
  | .seek wh off => seekP i wh off

/-- the rest of a `_render_` that calls back into its iterator: the call (whatever it raises is
    caught and noted by the renderable), then the render goes on with the same data -/
def cbPart (i d : Nat) : Option CbKind → P
  | none => .done
  | some k =>
    .seq (.tryExcept (.seq (cbProg i k) (.do (.logCb none))) (fun _ => true) fun e => .do (.logCb (some e)))
      (.do (.renderEnd d))

/-- one frame of `_iterate` from the `try: frame = renderable._render_(…)` on -/
def renderStep (i : Nat) (cb : Option CbKind := none) : P :=
  .get fun w =>
    let it := w.iters i
    let c := it.ctl
    let definite := decide (1 < w.fc)
    let frameNo := if definite then c.offset else 0
    if c.cached && c.cache frameNo == some c.version then .do (.ctl i (advCtl definite))
    else
      .seq
        (.tryExcept (.seq (.do (.render it.data)) (cbPart i it.data cb)) (· == .stopIteration) fun _ =>
          if definite then .raise .stopDefinite
          else .act (.ctl i loop0Ctl) (.raise .ret))
        (.do (.ctl i (storeCtl definite frameNo)))

/-- resuming the generator `_iterate` after a `yield` (the dummy frame or a real one) -/
def genBody (i : Nat) (cb : Option CbKind := none) : P :=
  .get fun w =>
    let c := (w.iters i).ctl
    if 1 < w.fc ∧ ¬ c.offset < w.fc then
      -- the inner `while` ends: `frame_no = frame_offset = 0; if loop > 0: loop -= 1`
      .act (.ctl i endLoopCtl) <|
        .get fun w' =>
          let c' := (w'.iters i).ctl
          if ¬ c'.inf ∧ c'.loop = 0 then .raise .ret else renderStep i cb
    else renderStep i cb

/-- `next(self._iterator)` -/
def genNext (i : Nat) (cb : Option CbKind := none) : P :=
  .get fun w =>
    if !(w.iters i).hasIterator then .raise .attributeError
    else if (w.iters i).ctl.gen = .finished then .raise .stopIteration
    else
      -- a generator that returns or lets an exception out is finished
      .tryExcept (genBody i cb) (fun _ => true) fun e =>
        .act (.ctl i finishCtl)
          (.raise (if e = .ret then .stopIteration else e))

/-- `RenderIterator.__next__` -/
def nextP (i : Nat) (cb : Option CbKind := none) : P :=
  .tryExcept (genNext i cb) (fun e => e.isException) fun e =>
    if e = .stopIteration then .seq (closeP i) (.raise .stopIteration)
    else if e = .attributeError then
      .get fun w =>
        if (w.iters i).closed then .raise .stopIteration
        else .seq (closeP i) (.raise .attributeError)
    else .seq (closeP i) (.raise e)

/-- `set_render_size` & co.: cached frames become stale -/
def bumpP (i : Nat) : P := ctlP i bumpCtl

/-- the `set_*` control operations -/
inductive CtlKind | size | duration | padding | args
deriving DecidableEq, Repr

/-- `set_render_size` / `set_frame_duration` / `set_padding` / `set_render_args`: the finalized check, then
    (size, duration) a value that differs from the current one makes the cached frames stale -/
def setP (i : Nat) (k : CtlKind) (fresh : Bool) : P :=
  ctlP i (if fresh && (k = .size || k = .duration) then bumpCtl else id)

/-- `RenderIterator.__del__` (the caller dropped its last reference): `try: self.close() except
    AttributeError: pass`; whatever else comes out of a `__del__` is ignored by the interpreter -/
def dropIterP (i : Nat) : P :=
  .seq (.tryExcept (closeP i) (fun _ => true) fun _ => .done) (.do (.markDropped i))

/-! ## `Renderable._animate_` and `draw` -/

def catchRet (p : P) : P := .tryExcept p (· == .ret) fun _ => .done

/-- `for frame in render_iter: body` with at most `n` trips (`n` exceeds the number of frames
    left for a finite iterator; an infinite one that is still running after `n` frames is cut
    with `diverge`) -/
def forIter (i : Nat) (n : Nat) (inf : Bool) (body : P) : P :=
  .tryExcept
    (.seq
      (Prog.loop n fun _ =>
        .seq (.tryExcept (nextP i) (· == .stopIteration) fun _ => .raise .brk) body)
      (if inf then .raise .diverge else .done))
    (· == .brk) fun _ => .done

/-- the two writes of one frame: the frame (an interrupt ends the animation), the cursor move -/
def frameWrites : P :=
  .seq (.tryExcept (.do .write) (· == .keyboardInterrupt) fun _ => .raise .ret) (.do .write)

/-- the body of `_animate_`'s `try` -/
def animBody (i n : Nat) (inf : Bool) : P :=
  .seq (.tryExcept (nextP i) (· == .stopIteration) fun _ => .raise .ret) <|
  .seq (.tryExcept (.do .write) (· == .keyboardInterrupt) fun _ => .raise .ret) <|
  .act .write <|
  .act (.setFfw true) <|
  .seq (ctlP i id) <|
  forIter i n inf frameWrites

/-- `_animate_` once `render_iter` exists -/
def animRun (i n : Nat) (inf : Bool) : P :=
  .act (.setFfw false) <|
  -- the local `render_iter` dies with the call: `RenderIterator.__del__`
  (fun body => Prog.tryFinally body (dropIterP i)) <|
  .tryFinally
    (.tryExcept (animBody i n inf) (· == .keyboardInterrupt) fun _ => .done)
    (.seq (closeP i) (.get fun w' => if w'.ffw then .do .write else .done))

def animateP (d : Nat) (loops : Int) (cache : CacheArg) (bound : Nat) : P :=
  catchRet <|
    .get fun w =>
      .seq (fromDataP d false loops (if loops = 1 then .off else cache)) <|
        animRun w.nIters
          (if unbounded w.fc loops then bound else w.fc * (loopOf w.fc loops) + 1) (unbounded w.fc loops)

/-- `Renderable.draw()` on a non-tty stream (no cursor hiding, no termios) -/
def drawP (animate checkSize : Bool) (loops : Int) (cache : CacheArg) (bound : Nat) : P :=
  .get fun w =>
    let d := w.nObjs
    let animation := w.fc ≠ 1 && animate
    -- `allow_scroll=not animation and allow_scroll` with draw's default `allow_scroll=False`;
    -- draw's default padding `AlignedPadding(0, -2)` is relative
    .seq (initRender .lib animation false (animation || checkSize) false true fun _ => .done) <|
      .tryFinally
        (if animation then animateP d loops cache bound
         else
          .seq (.do (.render d))
            (.tryExcept (.do .write) (· == .keyboardInterrupt) fun e => .raise e))
        (.act .writeNl (finalizeP d .lib))

/-! ## data and iterator dying in the same garbage collection -/

/-- `RenderData.__del__`: `try: self.finalize() except AttributeError: pass` (anything else out of a
    `__del__` is ignored) -/
def dataDelP (d : Nat) : P :=
  .tryExcept (if Generated.dataDelCallsFinalize then finalizeP d .del else .do (.finCall d .del))
    (fun _ => true) fun _ => .done

/-- the caller drops its data and the iterator `i` over it together; the collector runs their
    finalizers in either order (`dataFirst`: `RenderData.__del__` before `RenderIterator.__del__`) -/
def dropBothP (d i : Nat) (dataFirst : Bool) : P :=
  .get fun w =>
    if i < w.nIters then
      -- only a *suspended* generator's frame refers back to the iterator and makes the pair a reference
      -- cycle for the collector to finalize in either order; otherwise reference counting destroys the
      -- iterator (which refers to the data) first
      if dataFirst && decide ((w.iters i).ctl.gen = .suspended) && !(w.iters i).closed then
        .seq (.do (.callerDrop d)) (.seq (dataDelP d) (dropIterP i))
      else .seq (dropIterP i) (.do (.callerDrop d))
    else .do (.callerDrop d)

/-- one caller operation: `data = r._get_render_data_(iteration=True); it = RenderIterator.
    _from_render_data_(r, data, args, finalize=fin); next(it) × n; del it, data`, then the collection -/
def handoverP (fin : Bool) (args : ArgsKind) (n : Nat) (dataFirst : Bool) : P :=
  .get fun w =>
    let d := w.nObjs
    let i := w.nIters
    .act (.newData .caller true true) <|
      .tryFinally (.seq (fromDataP d fin 1 .off args) (Prog.loop n fun _ => nextP i))
        (dropBothP d i dataFirst)

/-- a caller that made the data itself calls `_animate_(render_data, render_args, padding, loops, cache,
    output)` directly (as `draw` does), looks at the data afterwards and finalizes it — once -/
def animOpP (loops : Int) (cache : CacheArg) (bound : Nat) : P :=
  .get fun w =>
    let d := w.nObjs
    .act (.newData .caller true true) <|
      .tryFinally (animateP d loops cache bound) (.seq (finalizeP d .caller) (.do (.callerDrop d)))

/-! ## histories -/

inductive Op
  | render
  /-- `str(renderable)` -/
  | str
  /-- a subclass operation built on `_init_render_` -/
  | initRender (iteration finalize checkSize allowScroll relPad : Bool)
  | draw (animate checkSize : Bool) (loops : Int) (cache : CacheArg) (bound : Nat)
  | iterNew (loops : Int) (cache : CacheArg)
  /-- the caller: `data = renderable._get_render_data_(iteration=…)` -/
  | mkData (iteration : Bool)
  | fromData (d : Nat) (finalize : Bool) (loops : Int) (cache : CacheArg) (args : ArgsKind)
  | next (i : Nat)
  | close (i : Nat)
  | seek (i : Nat) (wh : Whence) (off : Int)
  /-- `set_*` with the current value (`fresh = false`) or a new one -/
  | set (i : Nat) (k : CtlKind) (fresh : Bool)
  /-- `next()` during whose frame render the renderable calls back into the iterator -/
  | nextCb (i : Nat) (cb : CbKind)
  | bump (i : Nat)
  | dropIter (i : Nat)
  /-- the caller: `data.finalize()` -/
  | callerFinalize (d : Nat)
  /-- the caller: `del data` -/
  | callerDrop (d : Nat)

def anyLt (p : Nat → Bool) : Nat → Bool
  | 0 => false
  | n + 1 => p n || anyLt p n

/-- some iterator still has `d` in its `_render_data` -/
def attached (w : World) (d : Nat) : Bool :=
  anyLt (fun i => (w.iters i).hasData && (w.iters i).data == d) w.nIters

def reachable (w : World) (d : Nat) : Bool := (w.objs d).held || attached w d

/-- the histories quantified over: ids exist, dropped iterators are gone, and the caller neither
    hands out nor finalizes data that an open iterator is using -/
def valid (w : World) : Op → Bool
  | .next i | .close i | .seek i _ _ | .bump i | .dropIter i | .set i _ _ | .nextCb i _ => decide (i < w.nIters) && !(w.iters i).dropped
  | .fromData d _ _ _ _ => decide (d < w.nObjs) && (w.objs d).held && !attached w d
  | .callerFinalize d =>
    decide (d < w.nObjs) && (w.objs d).held && !attached w d && decide ((w.objs d).owner = .caller)
  | .callerDrop d => decide (d < w.nObjs) && (w.objs d).held
  | _ => true

def opProg : Op → P
  | .render => renderP
  | .str => strP
  | .initRender it fin cs asc rp => initRenderOpP it fin cs asc rp
  | .draw a cs l c b => drawP a cs l c b
  | .iterNew l c => iterNewP l c
  | .mkData it => .do (.newData .caller it true)
  | .fromData d fin l c a => fromDataP d fin l c a
  | .next i => nextP i
  | .close i => closeP i
  | .seek i wh off => seekP i wh off
  | .set i k fr => setP i k fr
  | .nextCb i cb => nextP i (some cb)
  | .bump i => bumpP i
  | .dropIter i => dropIterP i
  | .callerFinalize d => finalizeP d .caller
  | .callerDrop d => .do (.callerDrop d)

/-- GC: every unreachable, not yet finalized object gets `RenderData.__del__` → `finalize()` -/
def dropRefs (w : World) : World :=
  { w with
    objs := fun d =>
      let o := w.objs d
      if d < w.nObjs ∧ !reachable w d ∧ !o.finalized then
        -- `RenderData.__del__` is `self.finalize()` (translated from its source): it sets the once-flag
        { o with finalized := Generated.dataDelCallsFinalize, finCalls := o.finCalls + 1, viaDel := o.viaDel + 1 }
      else o
    trace := w.trace ++
      ((List.range w.nObjs).filter fun d => !reachable w d && !(w.objs d).finalized).map fun d => Ev.fin d .del }

/-- the same, tabulated (the driver would otherwise re-evaluate a tower of closures);
    `dropRefsFast_eq` in Proofs -/
def dropRefsFast (w : World) : World :=
  let f := (dropRefs w).objs
  let tab := (List.range w.nObjs).map f
  { dropRefs w with objs := fun d => if d < w.nObjs then tab.getD d {} else w.objs d }

abbrev Flt := Fault Exc Target

/-- one step of a history: the operation under its fault plan, then the exception is dropped and
    the garbage collector runs -/
def stepOp (w : World) (op : Op) (f : Flt) : World × Option (Option Exc) :=
  if valid w op then
    match run sem (opProg op) f w with
    | (w', _, r) => (dropRefsFast w', some r)
  else (w, none)

def runHist (w : World) : List (Op × Flt) → World
  | [] => w
  | (op, f) :: h => runHist (stepOp w op f).1 h

def init (fc : Nat) : World := { fc := fc }

end TIV.C10
