import TIV.C10.Model
/-! # C10 — helper lemmas: field access after updates, atomic summaries of `finalize()` and
`close()`, the invariant `G` and its preservation by every action -/
namespace TIV.C10
open TIV.Prog

/-! ## field access -/
section simp_lemmas
variable (w : World) (d j i : Nat) (f : Obj → Obj) (g : Iter → Iter) (e : Ev)

@[simp] theorem setObj_objs : (w.setObj d f).objs j = if j = d then f (w.objs j) else w.objs j := rfl
@[simp] theorem setObj_iters : (w.setObj d f).iters = w.iters := rfl
@[simp] theorem setObj_nObjs : (w.setObj d f).nObjs = w.nObjs := rfl
@[simp] theorem setObj_nIters : (w.setObj d f).nIters = w.nIters := rfl
@[simp] theorem setObj_fc : (w.setObj d f).fc = w.fc := rfl
@[simp] theorem setObj_ffw : (w.setObj d f).ffw = w.ffw := rfl
@[simp] theorem setIter_iters : (w.setIter i g).iters j = if j = i then g (w.iters j) else w.iters j := rfl
@[simp] theorem setIter_objs : (w.setIter i g).objs = w.objs := rfl
@[simp] theorem setIter_nObjs : (w.setIter i g).nObjs = w.nObjs := rfl
@[simp] theorem setIter_nIters : (w.setIter i g).nIters = w.nIters := rfl
@[simp] theorem setIter_fc : (w.setIter i g).fc = w.fc := rfl
@[simp] theorem setIter_ffw : (w.setIter i g).ffw = w.ffw := rfl
@[simp] theorem log_objs : (w.log e).objs = w.objs := rfl
@[simp] theorem log_iters : (w.log e).iters = w.iters := rfl
@[simp] theorem log_nObjs : (w.log e).nObjs = w.nObjs := rfl
@[simp] theorem log_nIters : (w.log e).nIters = w.nIters := rfl
@[simp] theorem log_fc : (w.log e).fc = w.fc := rfl
@[simp] theorem log_ffw : (w.log e).ffw = w.ffw := rfl
end simp_lemmas

@[simp] theorem sem_apply : sem.apply = apply := rfl
@[simp] theorem sem_fapply : sem.fapply = apply := rfl
@[simp] theorem sem_target : sem.target = target := rfl

/-! ## `anyLt`, attachment -/

theorem anyLt_iff (p : Nat → Bool) (n : Nat) : anyLt p n = true ↔ ∃ i, i < n ∧ p i = true := by
  induction n with
  | zero => simp [anyLt]
  | succ n ih =>
    simp only [anyLt, Bool.or_eq_true, ih]
    constructor
    · rintro (h | ⟨i, hi, h⟩)
      · exact ⟨n, by omega, h⟩
      · exact ⟨i, by omega, h⟩
    · rintro ⟨i, hi, h⟩
      by_cases hin : i = n
      · subst hin; exact Or.inl h
      · exact Or.inr ⟨i, by omega, h⟩

/-- some iterator still has `d` in `_render_data` -/
def Att (w : World) (d : Nat) : Prop :=
  ∃ i, i < w.nIters ∧ (w.iters i).hasData = true ∧ (w.iters i).data = d

theorem attached_iff (w : World) (d : Nat) : attached w d = true ↔ Att w d := by
  simp [attached, anyLt_iff, Att]

/-! ## tabulated GC step -/

theorem dropRefsFast_eq (w : World) : dropRefsFast w = dropRefs w := by
  unfold dropRefsFast
  have : (fun d => if d < w.nObjs then ((List.range w.nObjs).map (dropRefs w).objs).getD d {} else w.objs d)
      = (dropRefs w).objs := by
    funext d
    by_cases h : d < w.nObjs
    · simp [h, List.getD, List.getElem?_map, List.getElem?_range]
    · simp [h, dropRefs]
  simp only [this]

/-! ## atomic summaries -/

/-- what `RenderData.finalize()` does -/
def finalizeW (d : Nat) (b : By) (w : World) : World :=
  if (w.objs d).finalized then w else apply (.setFinalized d) (apply (.finCall d b) w)

/-- what `RenderIterator.close()` does -/
def closeW (i : Nat) (w : World) : World :=
  if (w.iters i).closed then w
  else
    let w1 := apply (.delIterator i) w
    let w2 := if (w.iters i).finalizeData then finalizeW (w.iters i).data .lib w1 else w1
    apply (.markClosed i) (apply (.delData i) w2)

/-- the fault plans of `I` never make `_finalize_render_data_` raise -/
def NoHook (I : Target → Exc → Prop) : Prop := ∀ e, ¬ I .finhook e

@[simp] theorem noHook_inj : NoHook inj := fun _ h => h

theorem wp_finalizeP (I : Target → Exc → Prop) (hI : NoHook I) (d : Nat) (by_ : By) (b : Bool)
    (Qn : Bool → World → Prop) (Qx : Bool → Exc → World → Prop) (w : World) :
    wp sem I (finalizeP d by_) b Qn Qx w ↔ Qn b (finalizeW d by_ w) := by
  unfold finalizeP finalizeW
  have hI' : ∀ e, I Target.finhook e ↔ False := fun e => iff_false_intro (hI e)
  by_cases h : (w.objs d).finalized = true <;> simp [wp, h, Prog.do, target, hI']

theorem wp_closeP (I : Target → Exc → Prop) (hI : NoHook I) (i : Nat) (b : Bool)
    (Qn : Bool → World → Prop) (Qx : Bool → Exc → World → Prop) (w : World) :
    wp sem I (closeP i) b Qn Qx w ↔ Qn b (closeW i w) := by
  unfold closeP closeW
  by_cases h : (w.iters i).closed = true
  · simp [wp, h]
  · by_cases hf : (w.iters i).finalizeData = true <;>
      simp [wp, h, hf, Prog.do, target, wp_finalizeP _ hI]

/-! ## the invariant -/

/-- `s` = strict mode (no fault in size validation or in a write: nothing is left to the GC);
    `X` = library-owned data of the operation in flight (finalized by its `finally`). -/
structure G (s : Bool) (X : Nat → Prop) (w : World) : Prop where
  objA : ∀ d, d < w.nObjs → (w.objs d).finCalls = (w.objs d).finalized.toNat
  objB : ∀ d, d < w.nObjs → (w.objs d).usedAfter = 0
  objC : ∀ d, d < w.nObjs → (w.objs d).owner = .caller → (w.objs d).libFin = 0
  objD : ∀ d, d < w.nObjs → (w.objs d).owner = .lib → (w.objs d).finalized = false →
    X d ∨ Att w d ∨ (s = false ∧ (w.objs d).held = false)
  objV : ∀ d, d < w.nObjs → (w.objs d).viaDel + (w.objs d).libFin ≤ (w.objs d).finCalls
  objE : s = true → ∀ d, d < w.nObjs → (w.objs d).owner = .lib → (w.objs d).viaDel = 0
  xLive : ∀ d, X d → d < w.nObjs ∧ (w.objs d).finalized = false ∧ (w.objs d).owner = .lib ∧
    (w.objs d).held = false
  itWf : ∀ i, i < w.nIters → (w.iters i).hasIterator = !(w.iters i).closed ∧
    (w.iters i).hasData = !(w.iters i).closed
  itLt : ∀ i, i < w.nIters → (w.iters i).data < w.nObjs
  itF : ∀ i, i < w.nIters → (w.iters i).hasData = true → (w.objs (w.iters i).data).finalized = false
  itH : ∀ i j, i < w.nIters → j < w.nIters → (w.iters i).hasData = true → (w.iters j).hasData = true →
    (w.iters i).data = (w.iters j).data → i = j
  itI : ∀ i, i < w.nIters → (w.iters i).hasData = true → (w.iters i).finalizeData = true →
    (w.objs (w.iters i).data).owner = .lib ∧ ¬ X (w.iters i).data
  itJ : ∀ i, i < w.nIters → (w.iters i).hasData = true → (w.iters i).finalizeData = false →
    (w.objs (w.iters i).data).owner = .lib → X (w.iters i).data


/-- the fields `G` looks at are the same in both worlds -/
structure Same (w w' : World) : Prop where
  nObjs : w'.nObjs = w.nObjs
  nIters : w'.nIters = w.nIters
  objs : ∀ d, (w'.objs d).finCalls = (w.objs d).finCalls ∧ (w'.objs d).finalized = (w.objs d).finalized ∧
    (w'.objs d).usedAfter = (w.objs d).usedAfter ∧ (w'.objs d).owner = (w.objs d).owner ∧
    (w'.objs d).libFin = (w.objs d).libFin ∧ (w'.objs d).viaDel = (w.objs d).viaDel ∧
    (w'.objs d).held = (w.objs d).held
  iters : ∀ i, (w'.iters i).hasIterator = (w.iters i).hasIterator ∧ (w'.iters i).hasData = (w.iters i).hasData ∧
    (w'.iters i).closed = (w.iters i).closed ∧ (w'.iters i).data = (w.iters i).data ∧
    (w'.iters i).finalizeData = (w.iters i).finalizeData

theorem Same.att {w w'} (h : Same w w') (d : Nat) : Att w' d ↔ Att w d := by
  obtain ⟨h1, h2, h3, h4⟩ := h
  unfold Att
  constructor <;> rintro ⟨j, hj, ha, hb⟩ <;> refine ⟨j, by omega, ?_, ?_⟩ <;> grind

theorem G_same {s X w w'} (hs : Same w w') (h : G s X w) : G s X w' := by
  have hatt := hs.att
  obtain ⟨h1, h2, h3, h4⟩ := hs
  obtain ⟨a, b, c, dd, v, e, x, wf, lt, ff, hh, ii, jj⟩ := h
  constructor <;> grind

theorem G_X {s X X' w} (h : G s X w) (hx : ∀ d, X' d ↔ X d) : G s X' w := by
  have : X' = X := funext fun d => propext (hx d)
  rw [this]; exact h

theorem Att_congr {w w' : World} (h1 : w'.nIters = w.nIters) (h2 : w'.iters = w.iters) (d : Nat) :
    Att w' d ↔ Att w d := by
  unfold Att; rw [h1, h2]

theorem G_renderEnd {s X w} (d : Nat) (h : G s X w) (hd : (w.objs d).finalized = false) :
    G s X (apply (.renderEnd d) w) := by
  have hatt : ∀ j, Att (apply (.renderEnd d) w) j ↔ Att w j := Att_congr rfl rfl
  obtain ⟨a, b, c, dd, v, e, x, wf, lt, ff, hh, ii, jj⟩ := h
  constructor <;> simp only [apply, setObj_objs, setObj_iters, setObj_nObjs, setObj_nIters, log_objs,
    log_iters, log_nObjs, log_nIters] at hatt ⊢ <;> grind

theorem G_render {s X w} (d : Nat) (h : G s X w) (hd : (w.objs d).finalized = false) :
    G s X (apply (.render d) w) := by
  have hatt : ∀ j, Att (apply (.render d) w) j ↔ Att w j := Att_congr rfl rfl
  obtain ⟨a, b, c, dd, v, e, x, wf, lt, ff, hh, ii, jj⟩ := h
  constructor <;> simp only [apply, setObj_objs, setObj_iters, setObj_nObjs, setObj_nIters, log_objs,
    log_iters, log_nObjs, log_nIters] at hatt ⊢ <;> grind

section
local macro "unf" : tactic => `(tactic| simp only [apply, setObj_objs, setObj_iters, setObj_nObjs, setObj_nIters,
    setIter_iters, setIter_objs, setIter_nObjs, setIter_nIters, log_objs, log_iters, log_nObjs, log_nIters] at *)

theorem G_newData_lib {s X X' w} (it : Bool) (h : G s X w) (hx : ∀ j, X' j ↔ (X j ∨ j = w.nObjs)) :
    G s X' (apply (.newData .lib it false) w) := by
  have hatt : ∀ j, Att (apply (.newData .lib it false) w) j ↔ Att w j := Att_congr rfl rfl
  obtain ⟨a, b, c, dd, v, e, x, wf, lt, ff, hh, ii, jj⟩ := h
  constructor <;> unf <;> grind

theorem G_newData_caller {s X w} (it hd : Bool) (h : G s X w) :
    G s X (apply (.newData .caller it hd) w) := by
  have hatt : ∀ j, Att (apply (.newData .caller it hd) w) j ↔ Att w j := Att_congr rfl rfl
  obtain ⟨a, b, c, dd, v, e, x, wf, lt, ff, hh, ii, jj⟩ := h
  constructor <;> unf <;> grind

theorem G_callerDrop {s X w} (d : Nat) (h : G s X w) : G s X (apply (.callerDrop d) w) := by
  have hatt : ∀ j, Att (apply (.callerDrop d) w) j ↔ Att w j := Att_congr rfl rfl
  obtain ⟨a, b, c, dd, v, e, x, wf, lt, ff, hh, ii, jj⟩ := h
  constructor <;> unf <;> grind

theorem G_finalizeW {s X X' w} (d : Nat) (b : By) (h : G s X w) (hd : d < w.nObjs) (hna : ¬ Att w d)
    (hb : b = .lib ∧ (w.objs d).owner = .lib ∨ b = .caller ∧ (w.objs d).owner = .caller)
    (hx : ∀ j, X' j ↔ (X j ∧ j ≠ d)) : G s X' (finalizeW d b w) := by
  by_cases hf : (w.objs d).finalized = true
  · have : finalizeW d b w = w := by simp [finalizeW, hf]
    rw [this]
    obtain ⟨a, b', c, dd, v, e, x, wf, lt, ff, hh, ii, jj⟩ := h
    constructor <;> grind
  · have : finalizeW d b w = apply (.setFinalized d) (apply (.finCall d b) w) := by simp [finalizeW, hf]
    rw [this]
    have hatt : ∀ j, Att (apply (.setFinalized d) (apply (.finCall d b) w)) j ↔ Att w j := Att_congr rfl rfl
    have hna' : ∀ i, i < w.nIters → (w.iters i).hasData = true → (w.iters i).data ≠ d :=
      fun i hi h1 h2 => hna ⟨i, hi, h1, h2⟩
    obtain ⟨a, b', c, dd, v, e, x, wf, lt, ff, hh, ii, jj⟩ := h
    constructor <;> unf <;> grind

theorem G_forget {X X' w} (d : Nat) (h : G false X w) (hna : ¬ Att w d) (hh' : (w.objs d).held = false)
    (hx : ∀ j, X' j ↔ (X j ∧ j ≠ d)) : G false X' w := by
  have hna' : ∀ i, i < w.nIters → (w.iters i).hasData = true → (w.iters i).data ≠ d :=
    fun i hi h1 h2 => hna ⟨i, hi, h1, h2⟩
  obtain ⟨a, b', c, dd, v, e, x, wf, lt, ff, hh, ii, jj⟩ := h
  constructor <;> grind

theorem G_newIter {s X X' w} (d : Nat) (fd : Bool) (l : Nat) (inf c : Bool) (h : G s X w) (hd : d < w.nObjs)
    (hf : (w.objs d).finalized = false) (hna : ¬ Att w d)
    (h2 : fd = false → (w.objs d).owner = .lib → X d)
    (hx : ∀ j, X' j ↔ (X j ∧ (fd = true → j ≠ d))) :
    G s X' (apply (.newIter d fd l inf c) w) := by
  have hna' : ∀ i, i < w.nIters → (w.iters i).hasData = true → (w.iters i).data ≠ d :=
    fun i hi h1 h2 => hna ⟨i, hi, h1, h2⟩
  have hatt : ∀ j, Att (apply (.newIter d fd l inf c) w) j ↔ (Att w j ∨ j = d) := by
    intro j
    simp only [Att, apply, setObj_iters, setObj_nIters, setIter_iters, setIter_nIters]
    constructor
    · rintro ⟨i, hi, ha, hb⟩
      by_cases hin : i = w.nIters
      · subst hin; simp at hb; exact Or.inr hb.symm
      · simp only [hin, if_false] at ha hb; exact Or.inl ⟨i, by omega, ha, hb⟩
    · rintro (⟨i, hi, ha, hb⟩ | hj)
      · refine ⟨i, by omega, ?_, ?_⟩ <;> simp [show i ≠ w.nIters by omega, ha, hb]
      · exact ⟨w.nIters, by omega, by simp, by simp [hj]⟩
  obtain ⟨a, b', c', dd, v, e, x, wf, lt, ff, hh, ii, jj⟩ := h
  constructor <;> unf <;> grind

/-- field-wise description of `close()` on an open iterator -/
theorem closeW_spec {w : World} (i : Nat) (hc : (w.iters i).closed = false) :
    let w' := closeW i w
    let d := (w.iters i).data
    let fin := (w.iters i).finalizeData && !(w.objs d).finalized
    w'.nObjs = w.nObjs ∧ w'.nIters = w.nIters ∧ w'.fc = w.fc ∧ w'.ffw = w.ffw ∧
    (∀ j, j ≠ i → w'.iters j = w.iters j) ∧
    ((w'.iters i).hasIterator = false ∧ (w'.iters i).hasData = false ∧ (w'.iters i).closed = true ∧
      (w'.iters i).data = d ∧ (w'.iters i).finalizeData = (w.iters i).finalizeData ∧
      (w'.iters i).dropped = (w.iters i).dropped) ∧
    (∀ k, k ≠ d → w'.objs k = w.objs k) ∧
    ((w'.objs d).finalized = ((w.objs d).finalized || fin) ∧
      (w'.objs d).finCalls = (w.objs d).finCalls + fin.toNat ∧
      (w'.objs d).libFin = (w.objs d).libFin + fin.toNat ∧
      (w'.objs d).viaDel = (w.objs d).viaDel ∧ (w'.objs d).usedAfter = (w.objs d).usedAfter ∧
      (w'.objs d).owner = (w.objs d).owner ∧ (w'.objs d).held = (w.objs d).held ∧
      (w'.objs d).renders = (w.objs d).renders ∧ (w'.objs d).iteration = (w.objs d).iteration) := by
  intro w' d fin
  simp only [w', d, fin]
  unfold closeW
  simp only [hc, Bool.false_eq_true, if_false]
  by_cases hfd : (w.iters i).finalizeData = true
  · by_cases hf : (w.objs (w.iters i).data).finalized = true
    · simp [hfd, hf, finalizeW, apply]
      intro j hj; simp [hj]
    · simp [hfd, hf, finalizeW, apply]
      refine ⟨?_, ?_⟩
      · intro j hj; simp [hj]
      · intro k hk; simp [hk]
  · simp [hfd, apply]
    intro j hj; simp [hj]

theorem G_closeW {s X w} (i : Nat) (h : G s X w) (hi : i < w.nIters) : G s X (closeW i w) := by
  by_cases hc : (w.iters i).closed = true
  · have : closeW i w = w := by simp [closeW, hc]
    rw [this]; exact h
  · have hc' : (w.iters i).closed = false := by simpa using hc
    have hhd : (w.iters i).hasData = true := by have := (h.itWf i hi).2; simp_all
    have hfin : (w.objs (w.iters i).data).finalized = false := h.itF i hi hhd
    obtain ⟨n1, n2, -, -, o1, ⟨o2, o3, o4, o5, o6, -⟩, p1, p2, p3, p4, p5, p6, p7, p8, -, -⟩ := closeW_spec i hc'
    generalize closeW i w = w' at *
    have hatt : ∀ j, Att w' j ↔ (Att w j ∧ j ≠ (w.iters i).data) := by
      intro j
      unfold Att
      constructor
      · rintro ⟨k, hk, ha, hb⟩
        by_cases hki : k = i
        · subst hki; simp_all
        · rw [o1 k hki] at ha hb
          refine ⟨⟨k, by omega, ha, hb⟩, ?_⟩
          intro hj
          exact hki (h.itH k i (by omega) hi ha hhd (by omega))
      · rintro ⟨⟨k, hk, ha, hb⟩, hne⟩
        have hki : k ≠ i := by rintro rfl; exact hne hb.symm
        exact ⟨k, by omega, by rw [o1 k hki]; exact ha, by rw [o1 k hki]; exact hb⟩
    have hatt0 : ∀ j, Att w j → ∃ k, k < w.nIters ∧ (w.iters k).hasData = true ∧ (w.iters k).data = j := fun j h => h
    obtain ⟨a, b', c', dd, v, e, x, wf, lt, ff, hh, ii, jj⟩ := h
    constructor <;> grind

def NoX : Nat → Prop := fun _ => False

/-- quiescent invariant: `G` with nothing in flight, and whatever is not finalized is reachable -/
def Inv (s : Bool) (w : World) : Prop :=
  G s NoX w ∧ ∀ d, d < w.nObjs → (w.objs d).finalized = false → reachable w d = true

theorem reachable_iff (w : World) (d : Nat) : reachable w d = true ↔ ((w.objs d).held = true ∨ Att w d) := by
  simp [reachable, attached_iff]

theorem G_dropRefs {s w} (h : G s NoX w) : Inv s (dropRefs w) := by
  have hatt : ∀ j, Att (dropRefs w) j ↔ Att w j := Att_congr rfl rfl
  have hr : ∀ d, reachable w d = true ↔ ((w.objs d).held = true ∨ Att w d) := reachable_iff w
  have hr' : ∀ d, reachable (dropRefs w) d = true ↔ (((dropRefs w).objs d).held = true ∨ Att w d) := by
    intro d; rw [reachable_iff, hatt]
  have hn : (dropRefs w).nObjs = w.nObjs := rfl
  have hi : (dropRefs w).iters = w.iters := rfl
  have hni : (dropRefs w).nIters = w.nIters := rfl
  have ho : ∀ d, (dropRefs w).objs d =
      if d < w.nObjs ∧ reachable w d = false ∧ (w.objs d).finalized = false then
        { w.objs d with finalized := true, finCalls := (w.objs d).finCalls + 1, viaDel := (w.objs d).viaDel + 1 }
      else w.objs d := by
    intro d; simp [dropRefs, Generated.dataDelCallsFinalize]
  have hatt0 : ∀ j, Att w j → ∃ k, k < w.nIters ∧ (w.iters k).hasData = true ∧ (w.iters k).data = j := fun j h => h
  have hatt1 : ∀ k, k < w.nIters → (w.iters k).hasData = true → Att w (w.iters k).data := fun k h1 h2 => ⟨k, h1, h2, rfl⟩
  have hb : ∀ d, reachable w d = false ↔ ¬ ((w.objs d).held = true ∨ Att w d) := by
    intro d; rw [← hr]; simp
  unfold Inv
  generalize dropRefs w = w' at *
  obtain ⟨a, b', c', dd, v, e, x, wf, lt, ff, hh, ii, jj⟩ := h
  unfold NoX at *
  refine ⟨?_, ?_⟩
  · constructor <;> grind
  · grind

end

end TIV.C10
