import TIV.Common.DriverMain
import TIV.C10.Drive
def main : IO Unit := TIV.driverMain TIV.C10.handler
