import TIV.Common.Wire
import TIV.C10.Model
/-! driver ops of C10: `hist <fc> <n> (<op> <fault>)ⁿ` runs a whole history through `stepOp`;
the single-program ops of the model are all reachable as one-step histories. -/
namespace TIV.C10
open TIV.Wire TIV.Prog

def excName : Exc → String := excPyName

def allExcs : List Exc :=
  [.stopIteration, .attributeError, .valueError, .sizeError, .stopDefinite, .finalizedIter, .boom,
   .keyboardInterrupt, .unicodeError, .typeError, .keyError, .runtimeError, .osError, .generatorExit, .baseBoom]

/-- an injectable exception, by the name of its Python class -/
def pExc : Wire.P Exc := do
  let t ← word
  match allExcs.find? (fun e => excName e == t) with
  | some e => pure e
  | none => failure

def pExcAny : Wire.P Exc := do
  let t ← word
  match allExcs.find? (fun e => excName e == t) with
  | some e => pure e
  | none => failure

def pTarget : Wire.P Target := do
  let t ← word
  match t with
  | "render" => pure .render | "validate" => pure .validate | "write" => pure .write
  | "resolve" => pure .resolve | "cwrite" => pure .cwrite
  | "finhook" => pure .finhook
  | _ => failure

def pCache : Wire.P CacheArg := do
  let t ← word
  match t with
  | "off" => pure .off | "on" => pure .on
  | "upto" => do let n ← nat; pure (.upto n)
  | _ => failure

def pFault : Wire.P Flt := do
  let t ← word
  match t with
  | "nofault" => pure none
  | "fault" => do let tg ← pTarget; let k ← nat; let e ← pExc; pure (some (tg, k, e))
  | _ => failure

def pWhence : Wire.P Whence := do
  let t ← word
  match t with
  | "start" => pure .start | "current" => pure .current | "end" => pure .end_
  | _ => failure

def pCtlKind : Wire.P CtlKind := do
  let t ← word
  match t with
  | "size" => pure .size | "duration" => pure .duration | "padding" => pure .padding | "args" => pure .args
  | _ => failure

def pCb : Wire.P CbKind := do
  let t ← word
  match t with
  | "close" => pure .close | "next" => pure .next
  | "seek" => do let wh ← pWhence; let off ← int; pure (.seek wh off)
  | _ => failure

def pOp : Wire.P Op := do
  let t ← word
  match t with
  | "render" => pure .render
  | "str" => pure .str
  | "initRender" => do
    let it ← bool; let fin ← bool; let cs ← bool; let asc ← bool; let rp ← bool
    pure (.initRender it fin cs asc rp)
  | "draw" => do
    let a ← bool; let cs ← bool; let l ← int; let c ← pCache; let b ← nat
    pure (.draw a cs l c b)
  | "iterNew" => do let l ← int; let c ← pCache; pure (.iterNew l c)
  | "mkData" => do let it ← bool; pure (.mkData it)
  | "fromData" => do
    let d ← nat; let fin ← bool; let l ← int; let c ← pCache
    let a ← word
    match a with
    | "none" => pure (.fromData d fin l c .none)
    | "own" => pure (.fromData d fin l c .own)
    | "ancestor" => pure (.fromData d fin l c .ancestor)
    | _ => failure
  | "next" => do let i ← nat; pure (.next i)
  | "close" => do let i ← nat; pure (.close i)
  | "seek" => do let i ← nat; let wh ← pWhence; let off ← int; pure (.seek i wh off)
  | "set" => do let i ← nat; let k ← pCtlKind; let fr ← bool; pure (.set i k fr)
  | "nextCb" => do let i ← nat; let cb ← pCb; pure (.nextCb i cb)
  | "bump" => do let i ← nat; pure (.bump i)
  | "dropIter" => do let i ← nat; pure (.dropIter i)
  | "cfin" => do let d ← nat; pure (.callerFinalize d)
  | "cdrop" => do let d ← nat; pure (.callerDrop d)
  | _ => failure

def byName : By → String
  | .lib => "l" | .caller => "c" | .del => "d"

def evStr : Ev → String
  | .create d => s!"c{d}"
  | .render d f => s!"r{d}:{fmtBool f}"
  | .fin d b => s!"f{d}:{byName b}"
  | .cb none => "cb:ok"
  | .cb (some e) => s!"cb:{excName e}"
  | .renderEnd d f => s!"e{d}:{fmtBool f}"

def outcomeStr : Option (Option Exc) → String
  | none => "skip"
  | some none => "ok"
  | some (some e) => "err " ++ excName e

def closedMask (w : World) : String :=
  String.join ((List.range w.nIters).map fun i => fmtBool ((w.iters i).closed || (w.iters i).dropped))

def objStr (w : World) (d : Nat) : String :=
  let o := w.objs d
  s!"o{d}:{if o.owner = .lib then "l" else "c"}:{o.finCalls}:{o.libFin}:{o.viaDel}:{o.renders}:{o.usedAfter}"

/-- an item of a driver history: an `Op` of the model's histories, or the one-step caller scenario
    `handover` (data and iterator collected together; not an `Op`: see `drop_both_once`) -/
inductive HOp
  | op (o : Op)
  | handover (fin : Bool) (args : ArgsKind) (n : Nat) (dataFirst : Bool)
  | animate (loops : Int) (cache : CacheArg) (bound : Nat)

def pArgs : Wire.P ArgsKind := do
  let a ← word
  match a with
  | "none" => pure .none | "own" => pure .own | "ancestor" => pure .ancestor
  | _ => failure

def pHOp : Wire.P HOp := fun ts =>
  match ts with
  | "handover" :: rest => (do
      let fin ← bool; let a ← pArgs; let n ← nat; let df ← bool
      pure (HOp.handover fin a n df)) rest
  | "animate" :: rest => (do
      let l ← int; let c ← pCache; let b ← nat
      pure (HOp.animate l c b)) rest
  | _ => (do let o ← pOp; pure (HOp.op o)) ts

def stepH (w : World) (o : HOp) (f : Flt) : World × Option (Option Exc) :=
  match o with
  | .op o => stepOp w o f
  | .handover fin a n df =>
    match run sem (handoverP fin a n df) f w with
    | (w', _, r) => (dropRefsFast w', some r)
  | .animate l c b =>
    match run sem (animOpP l c b) f w with
    | (w', _, r) => (dropRefsFast w', some r)

/-- run a history, one output field per op: `<outcome>/<events of the op>/<closed flags>` -/
def runOut (w : World) : List (HOp × Flt) → List String → World × List String
  | [], acc => (w, acc.reverse)
  | (op, f) :: h, acc =>
    let r := stepH w op f
    let evs := (r.1.trace.drop w.trace.length).map evStr
    runOut r.1 h (s!"{outcomeStr r.2}/{String.intercalate "," evs}/{closedMask r.1}" :: acc)

def handler : Handler := fun op args =>
  match op with
  | "hist" => Wire.run (do
      let fc ← nat
      let h ← listOf (do let o ← pHOp; let f ← pFault; pure (o, f))
      let (w, outs) := runOut (init fc) h []
      let objs := (List.range w.nObjs).map (objStr w)
      pure ("ok " ++ String.intercalate "|" outs ++ " # " ++ String.intercalate " " objs)) args
  -- `RenderIterator._init`: what it derives from its arguments
  | "iterparams" => Wire.run (do
      let fc ← nat; let l ← int; let c ← pCache
      let w := init fc
      pure (match (run sem (initChecks l c) none w).2.2 with
        | some e => "err " ++ excName e
        | none => s!"ok {if infOf fc l then "inf" else toString (loopOf fc l)} {fmtBool (cachedOf fc c)} {fmtBool (unbounded fc l)}")) args
  -- `RenderData.finalize()` called n times on one fresh object, each call under its own fault plan
  | "finseq" => Wire.run (do
      let cs ← listOf (do
        let b ← word; let f ← pFault
        match b with
        | "l" => pure (By.lib, f) | "c" => pure (By.caller, f) | "d" => pure (By.del, f)
        | _ => failure)
      let w0 := apply (.newData .caller true true) (init 2)
      let (w, outs) := cs.foldl (fun (acc : World × List String) (c : By × Flt) =>
        let r := run sem (finalizeP 0 c.1) c.2 acc.1
        (r.1, acc.2 ++ [outcomeStr (some r.2.2)])) (w0, [])
      pure ("ok " ++ String.intercalate "|" outs ++ s!" # {(w.objs 0).finCalls} {fmtBool (w.objs 0).finalized}")) args
  -- `isinstance(e, Exception)` as the model has it
  | "isexc" => Wire.run (do let e ← pExcAny; pure ("ok " ++ fmtBool e.isException)) args
  | _ => none

end TIV.C10
