import TIV.Common.Base64
/-! base64: length law and round trip, for every byte list -/
namespace TIV.Base64

theorem ord_chr : ∀ n, n < 64 → ord (chr n) = some n := by decide
theorem chr_ne_pad : ∀ n, n < 64 → chr n ≠ pad := by decide

theorem enc_length (x : List Nat) : (enc x).length = 4 * ((x.length + 2) / 3) := by
  fun_induction enc x with
  | case1 => rfl
  | case2 a => simp
  | case3 a b => simp
  | case4 a b c rest ih => simp [ih]; omega

theorem enc_length_mod4 (x : List Nat) : (enc x).length % 4 = 0 := by
  rw [enc_length]; omega

theorem enc_ne_nil (x : List Nat) (h : x ≠ []) : enc x ≠ [] := by
  intro he
  have := enc_length x
  rw [he] at this
  cases x with
  | nil => exact h rfl
  | cons a t => simp at this; omega

/-- `standard_b64decode(standard_b64encode(x)) == x` for every byte string -/
theorem dec_enc (x : List Nat) (hb : ∀ a ∈ x, a < 256) : dec (enc x) = some x := by
  fun_induction enc x with
  | case1 => rfl
  | case2 a =>
    have ha : a < 256 := hb a (by simp)
    have h1 := ord_chr (a / 4) (by omega)
    have h2 := ord_chr (a % 4 * 16) (by omega)
    simp [dec, h1, h2]; omega
  | case3 a b =>
    have ha : a < 256 := hb a (by simp)
    have hb' : b < 256 := hb b (by simp)
    have h1 := ord_chr (a / 4) (by omega)
    have h2 := ord_chr (a % 4 * 16 + b / 16) (by omega)
    have h3 := ord_chr (b % 16 * 4) (by omega)
    have h4 := chr_ne_pad (b % 16 * 4) (by omega)
    simp [dec, h1, h2, h3, h4]; omega
  | case4 a b c rest ih =>
    have ha : a < 256 := hb a (by simp)
    have hb' : b < 256 := hb b (by simp)
    have hc : c < 256 := hb c (by simp)
    have h1 := ord_chr (a / 4) (by omega)
    have h2 := ord_chr (a % 4 * 16 + b / 16) (by omega)
    have h3 := ord_chr (b % 16 * 4 + c / 64) (by omega)
    have h4 := ord_chr (c % 64) (by omega)
    have h5 := chr_ne_pad (c % 64) (by omega)
    have ih' := ih (fun a ha => hb a (by simp [ha]))
    by_cases hr : rest = []
    · subst hr
      simp [enc, dec, h1, h2, h3, h4, h5]; omega
    · have hne := enc_ne_nil rest hr
      cases he : enc rest with
      | nil => exact absurd he hne
      | cons e es =>
        rw [he] at ih'
        simp [dec, h1, h2, h3, h4, ih']; omega

end TIV.Base64
