import TIV.Common.TermLemmas
/-!
# Text runs: what a list of text tokens (glyphs, NUL, SGR) does to a terminal.
`cellsOf` is the linear reading (the cells printed, in order); `run_text` places them.
-/
namespace TIV
open Term

def Tok.isText : Tok → Bool
  | .glyph _ | .nul | .sgr0 | .fg _ | .bg _ => true
  | _ => false

structure Pen where
  fg : Option RGB
  bg : Option RGB
deriving DecidableEq, Repr

def Pen.step (p : Pen) : Tok → Pen
  | .sgr0 => ⟨none, none⟩
  | .fg c => { p with fg := some c }
  | .bg c => { p with bg := some c }
  | _ => p

/-- the cells a text token list prints, in order, starting with pen `p` -/
def cellsOf (p : Pen) : List Tok → List CellContent
  | [] => []
  | .glyph g :: ts => .text g p.fg p.bg :: cellsOf p ts
  | t :: ts => cellsOf (p.step t) ts

def penAfter (p : Pen) : List Tok → Pen
  | [] => p
  | t :: ts => penAfter (p.step t) ts

/-- writes of consecutive cells starting at `(r, c)`, newest first -/
def writesOf (r c : Nat) : List CellContent → List Write
  | [] => []
  | v :: vs => writesOf r (c + 1) vs ++ [(r, c, v)]

theorem mem_writesOf {r c : Nat} {vs : List CellContent} {wr : Write} (h : wr ∈ writesOf r c vs) :
    wr.1 = r ∧ c ≤ wr.2.1 ∧ wr.2.1 < c + vs.length := by
  induction vs generalizing c with
  | nil => simp [writesOf] at h
  | cons v vs ih =>
    simp only [writesOf, List.mem_append, List.mem_singleton] at h
    rcases h with h | h
    · have := ih h; simp only [List.length_cons]; omega
    · subst h; simp

theorem writesOf_covers {r c : Nat} {vs : List CellContent} {j : Nat} (hj : j < vs.length) :
    (r, c + j, vs[j]) ∈ writesOf r c vs := by
  induction vs generalizing c j with
  | nil => simp at hj
  | cons v vs ih =>
    simp only [writesOf, List.mem_append, List.mem_singleton]
    cases j with
    | zero => right; simp
    | succ j =>
      left
      have := ih (c := c + 1) (j := j) (by simpa using hj)
      simpa [Nat.add_assoc, Nat.add_comm 1 j] using this

theorem cellsOf_append (p : Pen) (a b : List Tok) :
    cellsOf p (a ++ b) = cellsOf p a ++ cellsOf (penAfter p a) b := by
  induction a generalizing p with
  | nil => rfl
  | cons t ts ih => cases t <;> simp [cellsOf, penAfter, Pen.step, ih]

theorem penAfter_append (p : Pen) (a b : List Tok) : penAfter p (a ++ b) = penAfter (penAfter p a) b := by
  induction a generalizing p with
  | nil => rfl
  | cons t ts ih => simp [penAfter, ih]

/-- what a text run does -/
structure TextEffect (t t' : Term) (cs : List CellContent) (p' : Pen) : Prop where
  frame : Frame t t'
  row : t'.row = t.row
  imgs : t'.imgs = t.imgs
  fg : t'.fg = p'.fg
  bg : t'.bg = p'.bg
  log : t'.log = writesOf t.row t.col cs ++ t.log
  colE : cs = [] → t'.col = t.col ∧ t'.pw = t.pw
  colN : cs ≠ [] → t'.col = min (t.col + cs.length) (t.W - 1) ∧ (t'.pw = true ↔ t.col + cs.length = t.W)

theorem run_text (ts : List Tok) (htext : ∀ a ∈ ts, a.isText = true) :
    ∀ t : Term, ((t.pw = false ∧ t.col + (cellsOf ⟨t.fg, t.bg⟩ ts).length ≤ t.W) ∨ cellsOf ⟨t.fg, t.bg⟩ ts = []) →
      TextEffect t (t.run ts) (cellsOf ⟨t.fg, t.bg⟩ ts) (penAfter ⟨t.fg, t.bg⟩ ts) := by
  induction ts with
  | nil =>
    intro t _
    exact ⟨Frame.refl t, rfl, rfl, rfl, rfl, by simp [cellsOf, writesOf, Term.run], fun _ => ⟨rfl, rfl⟩,
      fun h => absurd rfl h⟩
  | cons a ts ih =>
    intro t hpre
    have hts : ∀ b ∈ ts, b.isText = true := fun b hb => htext b (by simp [hb])
    have ha := htext a (by simp)
    rw [Term.run_cons]
    cases a with
    | glyph g =>
      simp only [cellsOf] at hpre ⊢
      have hpre' : t.pw = false ∧ t.col + ((cellsOf ⟨t.fg, t.bg⟩ ts).length + 1) ≤ t.W := by
        rcases hpre with h | h
        · simpa using h
        · simp at h
      obtain ⟨hpw, hfit⟩ := hpre'
      by_cases hlast : t.col + 1 ≥ t.W
      · -- the glyph lands in the last column: pending wrap, nothing more may be printed
        have hnil : (cellsOf ⟨t.fg, t.bg⟩ ts).length = 0 := by omega
        have hnil' : cellsOf ⟨t.fg, t.bg⟩ ts = [] := List.length_eq_zero_iff.mp hnil
        obtain ⟨t1, ht1⟩ : ∃ t1, t1 = Term.step t (.glyph g) := ⟨_, rfl⟩
        have e : t1 = { t with log := (t.row, t.col, .text g t.fg t.bg) :: t.log, pw := true } := by
          rw [ht1]; simp [step, putGlyph, setCell, hpw, hlast]
        rw [← ht1]
        have p1 : t1.fg = t.fg := by rw [e]
        have p2 : t1.bg = t.bg := by rw [e]
        have p3 : t1.row = t.row := by rw [e]
        have p4 : t1.col = t.col := by rw [e]
        have p5 : t1.log = (t.row, t.col, .text g t.fg t.bg) :: t.log := by rw [e]
        have p6 : t1.pw = true := by rw [e]
        have p7 : t1.imgs = t.imgs := by rw [e]
        have pf : Frame t t1 := by rw [e]; exact ⟨rfl, rfl, rfl, rfl, rfl, rfl, rfl, rfl⟩
        have := ih hts t1 (Or.inr (by rw [p1, p2]; exact hnil'))
        rw [p1, p2] at this
        obtain ⟨f, hr, hi, hfg, hbg, hlog, hcE, _⟩ := this
        have hc := hcE hnil'
        refine ⟨pf.trans f, hr.trans p3, hi.trans p7, hfg, hbg, ?_, fun h => by simp at h, fun _ => ?_⟩
        · rw [hlog, hnil', p5]; simp [writesOf]
        · rw [hnil']
          simp only [List.length_cons, List.length_nil]
          refine ⟨by rw [hc.1, p4]; omega, ?_⟩
          rw [hc.2, p6]; simp; omega
      · obtain ⟨t1, ht1⟩ : ∃ t1, t1 = Term.step t (.glyph g) := ⟨_, rfl⟩
        have e : t1 = { t with log := (t.row, t.col, .text g t.fg t.bg) :: t.log, col := t.col + 1 } := by
          rw [ht1]; simp [step, putGlyph, setCell, hpw, hlast]
        rw [← ht1]
        have p1 : t1.fg = t.fg := by rw [e]
        have p2 : t1.bg = t.bg := by rw [e]
        have p3 : t1.row = t.row := by rw [e]
        have p4 : t1.col = t.col + 1 := by rw [e]
        have p5 : t1.log = (t.row, t.col, .text g t.fg t.bg) :: t.log := by rw [e]
        have p6 : t1.pw = false := by rw [e]; exact hpw
        have p7 : t1.imgs = t.imgs := by rw [e]
        have p8 : t1.W = t.W := by rw [e]
        have pf : Frame t t1 := by rw [e]; exact ⟨rfl, rfl, rfl, rfl, rfl, rfl, rfl, rfl⟩
        have := ih hts t1 (Or.inl ⟨p6, by rw [p1, p2, p4, p8]; omega⟩)
        rw [p1, p2] at this
        obtain ⟨f, hr, hi, hfg, hbg, hlog, hcE, hcN⟩ := this
        refine ⟨pf.trans f, hr.trans p3, hi.trans p7, hfg, hbg, ?_, fun h => by simp at h, fun _ => ?_⟩
        · rw [hlog, p5, p3, p4]; simp [writesOf]
        · simp only [List.length_cons]
          by_cases hn : cellsOf ⟨t.fg, t.bg⟩ ts = []
          · have hc := hcE hn
            rw [hn]
            simp only [List.length_nil]
            refine ⟨by rw [hc.1, p4]; omega, ?_⟩
            rw [hc.2, p6]; simp; omega
          · have hc := hcN hn
            rw [p4, p8] at hc
            refine ⟨by rw [hc.1]; omega, ?_⟩
            rw [hc.2]; omega
    | nul =>
      have e : Term.step t .nul = t := rfl
      rw [e]; exact ih hts t hpre
    | sgr0 =>
      have e : Term.step t .sgr0 = { t with fg := none, bg := none } := rfl
      rw [e]
      have := ih hts { t with fg := none, bg := none } hpre
      obtain ⟨f, hr, hi, hfg, hbg, hlog, hcE, hcN⟩ := this
      exact ⟨⟨f.W, f.H, f.kind, f.top, f.lm, f.vis, f.wrapped, f.scrolls⟩, hr, hi, hfg, hbg, hlog, hcE, hcN⟩
    | fg c =>
      have e : Term.step t (.fg c) = { t with fg := some c } := rfl
      rw [e]
      have := ih hts { t with fg := some c } hpre
      obtain ⟨f, hr, hi, hfg, hbg, hlog, hcE, hcN⟩ := this
      exact ⟨⟨f.W, f.H, f.kind, f.top, f.lm, f.vis, f.wrapped, f.scrolls⟩, hr, hi, hfg, hbg, hlog, hcE, hcN⟩
    | bg c =>
      have e : Term.step t (.bg c) = { t with bg := some c } := rfl
      rw [e]
      have := ih hts { t with bg := some c } hpre
      obtain ⟨f, hr, hi, hfg, hbg, hlog, hcE, hcN⟩ := this
      exact ⟨⟨f.W, f.H, f.kind, f.top, f.lm, f.vis, f.wrapped, f.scrolls⟩, hr, hi, hfg, hbg, hlog, hcE, hcN⟩
    | _ => simp [Tok.isText] at ha

end TIV
