/-!
# Tok — what the library ever writes to a terminal, as tokens (DESIGN.md §2.1)

Render models produce `List Tok`; `Tok.bytes` (in `TIV.Common.TokBytes`) serialises them with the
*generated* control-sequence templates for the byte-exact correspondence; `Term.step`
(`TIV.Common.Term`) gives them their meaning on a terminal.
-/
namespace TIV

abbrev RGB := Nat × Nat × Nat

/-- a printable character occupying one cell -/
inductive Glyph
  | blank            -- ' '
  | upper            -- '▀' U+2580
  | lower            -- '▄' U+2584
  | ch (c : Char)    -- any other one-column character (padding fill)
deriving DecidableEq, Repr

/-- the graphics protocols' display commands, reduced to what a terminal does with them -/
structure KittyCmd where
  cols : Nat            -- `c=`
  rows : Nat            -- `r=`
  z : Int               -- `z=`
  control : String      -- the control data of the first chunk, without the `,m=` suffix
  chunks : List (Bool × List Nat)   -- `(m flag, base64 payload)` per APC command
deriving DecidableEq, Repr

structure ITermCmd where
  cols : Nat            -- `width=`
  rows : Nat            -- `height=`
  noMove : Bool         -- `doNotMoveCursor=1`
  control : String      -- everything between `File=` and `:`
  payload : List Nat    -- base64 payload
deriving DecidableEq, Repr

inductive Tok
  | glyph (g : Glyph)
  | nul                               -- "\0" cell separator of split-cell renders (no effect)
  | sgr0                              -- CSI m
  | fg (c : RGB)                      -- CSI 38;2;r;g;b m
  | bg (c : RGB)                      -- CSI 48;2;r;g;b m
  | cuu (n : Nat) | cud (n : Nat) | cuf (n : Nat) | cub (n : Nat)   -- CSI n A/B/C/D (parameter as written)
  | ech (n : Nat)                     -- CSI n X
  | lf | cr
  | hideCur | showCur                 -- CSI ?25 l / h
  | syncBegin | syncEnd               -- CSI ?2026 h / l
  | kitty (k : KittyCmd)              -- a complete (possibly chunked) transmit-and-display
  | kittyDelCursor                    -- a=d,d=C
  | kittyDelAll                       -- a=d,d=A
  | kittyDelZ (z : Int)               -- a=d,d=Z,z=…
  | kittyEndChunked                   -- q=1,m=0
  | iterm (i : ITermCmd)              -- OSC 1337 ; File=… : payload ST
  | st                                -- a lone ESC \
deriving DecidableEq, Repr

def Tok.isLf : Tok → Bool
  | .lf => true
  | _ => false

/-- `n` copies of a glyph, optionally each followed by NUL (split cells) -/
def glyphs (g : Glyph) (n : Nat) (split : Bool := false) : List Tok :=
  if split then (List.replicate n [Tok.glyph g, Tok.nul]).flatten else List.replicate n (Tok.glyph g)

/-- `ctlseqs.cursor_up(n)` & co.: empty when `n ≤ 0` -/
def cursorUp (n : Int) : List Tok := if n > 0 then [.cuu n.toNat] else []
def cursorDown (n : Int) : List Tok := if n > 0 then [.cud n.toNat] else []
def cursorForward (n : Int) : List Tok := if n > 0 then [.cuf n.toNat] else []
def cursorBackward (n : Int) : List Tok := if n > 0 then [.cub n.toNat] else []

/-- a render as written: lines with `lf` between them -/
def joinLines : List (List Tok) → List Tok
  | [] => []
  | [l] => l
  | l :: ls => l ++ Tok.lf :: joinLines ls

end TIV
