import TIV.Common.Block
import TIV.Common.TextRun
/-!
# Block renderer: what a line prints (`line_shows`) and that it is a text run of exactly `w` cells.
-/
namespace TIV.Block
open TIV

/-- what a cell shows on a direct-colour terminal: (upper half, lower half); `none` = the
    terminal's own background. (`ch`, erased and image cells are not pixel cells.) -/
def shows : CellContent → Option RGB × Option RGB
  | .text .blank _ bg => (bg, bg)
  | .text .upper fg bg => (fg, bg)
  | .text .lower fg bg => (bg, fg)
  | .text (.ch _) _ bg => (bg, bg)
  | .erased bg => (bg, bg)
  | .image => (none, none)

/-- the kitty workaround applied to a colour that goes out as a *background* colour -/
def tweak (cfg : Cfg) (c : RGB) : RGB :=
  if cfg.kitty ∧ some c = cfg.bgColor then (bump c.1, c.2.1, c.2.2) else c

/-- SPECIFICATION of one cell: each half is the terminal's background when the image has an
    alpha channel and that pixel's (rounded) alpha is 0, else the pixel's colour — the lower
    (background-carried) colour going through the kitty workaround; a cell whose two pixels are
    equal is carried entirely by the background colour. -/
def want (cfg : Cfg) (p : PP) : Option RGB × Option RGB :=
  let tu := cfg.alpha && p.a1 == 0
  let tl := cfg.alpha && p.a2 == 0
  if tu && tl then (none, none)
  else if tu then (none, some p.c2)
  else if tl then (some p.c1, none)
  else if p.c1 = p.c2 then (some (tweak cfg p.c2), some (tweak cfg p.c2))
  else (some p.c1, some (tweak cfg p.c2))

theorem cellsOf_glyphs (p : Pen) (g : Glyph) (n : Nat) (split : Bool) (rest : List Tok) :
    cellsOf p (glyphs g n split ++ rest) = List.replicate n (.text g p.fg p.bg) ++ cellsOf p rest := by
  unfold glyphs
  cases split
  · induction n with
    | zero => simp
    | succ n ih => simp [List.replicate_succ, cellsOf] at ih ⊢; exact ih
  · induction n with
    | zero => simp
    | succ n ih => simp [List.replicate_succ, cellsOf, Pen.step] at ih ⊢; exact ih

theorem cellsOf_glyphs' (p : Pen) (g : Glyph) (n : Nat) (split : Bool) :
    cellsOf p (glyphs g n split) = List.replicate n (.text g p.fg p.bg) := by
  have := cellsOf_glyphs p g n split []
  simpa [cellsOf] using this

theorem penAfter_glyphs (p : Pen) (g : Glyph) (n : Nat) (split : Bool) (rest : List Tok) :
    penAfter p (glyphs g n split ++ rest) = penAfter p rest := by
  unfold glyphs
  cases split
  · induction n with
    | zero => simp
    | succ n ih => simp [List.replicate_succ, penAfter, Pen.step] at ih ⊢; exact ih
  · induction n with
    | zero => simp
    | succ n ih => simp [List.replicate_succ, penAfter, Pen.step] at ih ⊢; exact ih

theorem isText_glyphs (g : Glyph) (n : Nat) (split : Bool) : ∀ a ∈ glyphs g n split, a.isText = true := by
  unfold glyphs
  cases split <;> intro a ha
  · simp at ha; rw [ha.2]; rfl
  · simp at ha
    obtain ⟨l, ⟨_, rfl⟩, hl⟩ := ha
    simp at hl; rcases hl with rfl | rfl <;> rfl

/-- the cells one `update_buffer()` prints all show `want cluster` -/
theorem updateBuffer_shows (cfg : Cfg) (cl : PP) (n : Nat) (p : Pen) (rest : List Tok) :
    ∃ cs, cellsOf p (updateBuffer cfg cl n ++ rest) = cs ++ cellsOf (penAfter p (updateBuffer cfg cl n)) rest ∧
      cs.length = n ∧ cs.map shows = List.replicate n (want cfg cl) := by
  refine ⟨cellsOf p (updateBuffer cfg cl n), cellsOf_append _ _ _, ?_⟩
  unfold updateBuffer want tweak
  obtain ⟨c1, c2, a1, a2⟩ := cl
  obtain ⟨r, g, b⟩ := c2
  cases hα : cfg.alpha <;> by_cases h1 : a1 = 0 <;> by_cases h2 : a2 = 0 <;>
    by_cases h3 : c1 = (r, g, b) <;> by_cases h4 : cfg.kitty = true ∧ some (r, g, b) = cfg.bgColor <;>
    simp [hα, h1, h2, h3, h4, cellsOf, Pen.step, cellsOf_glyphs', shows]


theorem penAfter_updateBuffer_text (cfg : Cfg) (cl : PP) (n : Nat) :
    ∀ a ∈ updateBuffer cfg cl n, a.isText = true := by
  intro a ha
  unfold updateBuffer at ha
  have hg := isText_glyphs
  split at ha
  · simp at ha; rcases ha with rfl | h; rfl; exact hg _ _ _ a h
  · split at ha
    · simp at ha; rcases ha with rfl | rfl | h; rfl; rfl; exact hg _ _ _ a h
    · split at ha
      · simp at ha; rcases ha with rfl | rfl | h; rfl; rfl; exact hg _ _ _ a h
      · simp at ha
        rcases ha with rfl | h
        · rfl
        · split at h
          · exact hg _ _ _ a h
          · simp at h; rcases h with rfl | h; rfl; exact hg _ _ _ a h

/-- a run continues only over pixel pairs that show the same as the cluster -/
theorem same_want (cfg : Cfg) (cl p : PP) (h : mustFlush cfg cl p = false) : want cfg p = want cfg cl := by
  unfold mustFlush at h
  unfold want
  cases hα : cfg.alpha <;> simp_all <;> grind

theorem want_newCluster (cfg : Cfg) (cl p : PP) : want cfg (newCluster cfg cl p) = want cfg p := by
  unfold newCluster want
  cases hα : cfg.alpha <;> simp [hα]

theorem mustFlush_self (cfg : Cfg) (p : PP) : mustFlush cfg p p = false := by
  unfold mustFlush; simp

theorem loop_text (cfg : Cfg) (ps : List PP) : ∀ cl n, ∀ a ∈ loop cfg cl n ps, a.isText = true := by
  induction ps with
  | nil => intro cl n a ha; exact penAfter_updateBuffer_text cfg cl n a ha
  | cons p ps ih =>
    intro cl n a ha
    unfold loop at ha
    split at ha
    · rcases List.mem_append.mp ha with h | h
      · exact penAfter_updateBuffer_text cfg cl n a h
      · exact ih _ _ a h
    · exact ih _ _ a ha

/-- the inner loop prints exactly one cell per pixel pair, each showing what `want` says -/
theorem loop_shows (cfg : Cfg) (ps : List PP) : ∀ (cl : PP) (n : Nat) (pen : Pen),
    (cellsOf pen (loop cfg cl n ps)).map shows = List.replicate n (want cfg cl) ++ ps.map (want cfg) := by
  induction ps with
  | nil =>
    intro cl n pen
    obtain ⟨cs, h1, _, h3⟩ := updateBuffer_shows cfg cl n pen []
    simp only [loop, List.map_nil, List.append_nil]
    simp only [List.append_nil, cellsOf] at h1
    rw [h1, h3]
  | cons p ps ih =>
    intro cl n pen
    unfold loop
    split
    · obtain ⟨cs, h1, _, h3⟩ := updateBuffer_shows cfg cl n pen (loop cfg (newCluster cfg cl p) 1 ps)
      rw [h1, List.map_append, h3, ih]
      simp [want_newCluster]
    · rename_i hf
      have hf' : mustFlush cfg cl p = false := by simpa using hf
      rw [ih]
      simp [List.replicate_succ', same_want cfg cl p hf']

theorem cellsOf_dropLastNul (pen : Pen) (ts : List Tok) : cellsOf pen (dropLastNul ts) = cellsOf pen ts := by
  unfold dropLastNul
  split
  · rename_i h
    have hne : ts ≠ [] := by intro h0; subst h0; simp at h
    have hl : ts.getLast hne = Tok.nul := by
      have := List.getLast?_eq_some_getLast hne
      rw [this] at h; exact Option.some.inj h
    conv => rhs; rw [← List.dropLast_concat_getLast hne, hl, cellsOf_append]
    simp [cellsOf]
  · rfl

theorem dropLastNul_mem (ts : List Tok) : ∀ a ∈ dropLastNul ts, a ∈ ts := by
  intro a ha
  unfold dropLastNul at ha
  split at ha
  · rw [List.dropLast_eq_take] at ha; exact List.mem_of_mem_take ha
  · exact ha

theorem line_text (cfg : Cfg) (row : List PP) : ∀ a ∈ line cfg row, a.isText = true := by
  intro a ha
  unfold line at ha
  cases row with
  | nil => simp at ha
  | cons p ps =>
    simp only at ha
    split at ha
    · exact loop_text cfg _ _ _ a (dropLastNul_mem _ a ha)
    · exact loop_text cfg _ _ _ a ha

/-- C02 core, linear form: a rendered line prints one cell per pixel pair and each cell shows
    exactly what the specification `want` says — for every row content and every pen. -/
theorem line_shows (cfg : Cfg) (row : List PP) (pen : Pen) :
    (cellsOf pen (line cfg row)).map shows = row.map (want cfg) := by
  cases row with
  | nil => simp [line, cellsOf]
  | cons p ps =>
    have h : (cellsOf pen (loop cfg p 0 (p :: ps))).map shows = (p :: ps).map (want cfg) := by
      rw [loop_shows]; simp
    unfold line
    simp only
    split
    · rw [cellsOf_dropLastNul]; exact h
    · exact h

theorem line_length (cfg : Cfg) (row : List PP) (pen : Pen) : (cellsOf pen (line cfg row)).length = row.length := by
  have := congrArg List.length (line_shows cfg row pen)
  simpa using this

/-- C01 for one block line: `line ++ [SGR 0]` is a text run of `w` cells -/
theorem blockLine_ok (cfg : Cfg) (row : List PP) (w h i : Nat) (hlen : row.length = w) :
    LineOK (fun _ => True) w h i .reset (fun di => di = i) (line cfg row ++ [Tok.sgr0]) := by
  intro t r0 x _ hR
  have htext : ∀ a ∈ line cfg row ++ [Tok.sgr0], a.isText = true := by
    intro a ha
    rcases List.mem_append.mp ha with h | h
    · exact line_text cfg row a h
    · simp at h; subst h; rfl
  have hcs : cellsOf ⟨t.fg, t.bg⟩ (line cfg row ++ [Tok.sgr0]) = cellsOf ⟨t.fg, t.bg⟩ (line cfg row) := by
    rw [cellsOf_append]; simp [cellsOf]
  have hl : (cellsOf ⟨t.fg, t.bg⟩ (line cfg row ++ [Tok.sgr0])).length = w := by
    rw [hcs, line_length, hlen]
  have hpen : penAfter ⟨t.fg, t.bg⟩ (line cfg row ++ [Tok.sgr0]) = ⟨none, none⟩ := by
    rw [penAfter_append]; simp [penAfter, Pen.step]
  have hc := hR.col; have hw := hR.hw; have hf := hR.fitW
  have eff := run_text _ htext t (Or.inl ⟨hR.pw, by rw [hl, hc]; exact hf⟩)
  obtain ⟨f, hrow, _, hfg, hbg, hlog, _, hcN⟩ := eff
  have hne : cellsOf ⟨t.fg, t.bg⟩ (line cfg row ++ [Tok.sgr0]) ≠ [] := by
    intro h0; rw [h0] at hl; simp at hl; omega
  have hcol := hcN hne
  rw [hl, hc] at hcol
  refine ⟨f, hrow, hcol.1, fun hp => hcol.2.mp hp, ?_, _, hlog, ?_, ?_⟩
  · rw [hpen] at hfg hbg; exact ⟨hfg, hbg⟩
  · intro wr hwr
    have := mem_writesOf hwr
    rw [hl] at this
    have h1 := hR.row; have h3 := hR.hi
    unfold InRect; omega
  · intro di hdi j hj
    subst hdi
    have := writesOf_covers (r := t.row) (c := t.col) (vs := cellsOf ⟨t.fg, t.bg⟩ (line cfg row ++ [Tok.sgr0]))
      (j := j) (by rw [hl]; exact hj)
    rw [← hR.row, ← hc]
    exact ⟨_, this⟩


/-- the tokens a block render consists of: the three pixel glyphs, NUL, and SGR sequences -/
def _root_.TIV.Tok.isBlock : Tok → Bool
  | .glyph .blank | .glyph .upper | .glyph .lower | .nul | .sgr0 | .fg _ | .bg _ => true
  | _ => false

theorem isBlock_glyphs (g : Glyph) (hg : ∀ c, g ≠ .ch c) (n : Nat) (split : Bool) : ∀ a ∈ glyphs g n split, a.isBlock = true := by
  have hgb : (Tok.glyph g).isBlock = true := by cases g <;> first | rfl | exact absurd rfl (hg _)
  unfold glyphs
  cases split <;> intro a ha
  · simp at ha; rw [ha.2]; exact hgb
  · simp at ha
    obtain ⟨l, ⟨_, rfl⟩, hl⟩ := ha
    simp at hl; rcases hl with rfl | rfl
    · exact hgb
    · rfl

theorem updateBuffer_block (cfg : Cfg) (cl : PP) (n : Nat) :
    ∀ a ∈ updateBuffer cfg cl n, a.isBlock = true := by
  intro a ha
  unfold updateBuffer at ha
  have hg : ∀ (g : Glyph) (n : Nat) (sp : Bool), (∀ c, g ≠ .ch c) → ∀ a ∈ glyphs g n sp, a.isBlock = true :=
    fun g n sp h => isBlock_glyphs g h n sp
  split at ha
  · simp at ha; rcases ha with rfl | h; rfl; exact hg _ _ _ (by intro c; simp) a h
  · split at ha
    · simp at ha; rcases ha with rfl | rfl | h; rfl; rfl; exact hg _ _ _ (by intro c; simp) a h
    · split at ha
      · simp at ha; rcases ha with rfl | rfl | h; rfl; rfl; exact hg _ _ _ (by intro c; simp) a h
      · simp at ha
        rcases ha with rfl | h
        · rfl
        · split at h
          · exact hg _ _ _ (by intro c; simp) a h
          · simp at h; rcases h with rfl | h; rfl; exact hg _ _ _ (by intro c; simp) a h

theorem loop_block (cfg : Cfg) (ps : List PP) : ∀ cl n, ∀ a ∈ loop cfg cl n ps, a.isBlock = true := by
  induction ps with
  | nil => intro cl n a ha; exact updateBuffer_block cfg cl n a ha
  | cons p ps ih =>
    intro cl n a ha
    unfold loop at ha
    split at ha
    · rcases List.mem_append.mp ha with h | h
      · exact updateBuffer_block cfg cl n a h
      · exact ih _ _ a h
    · exact ih _ _ a ha

theorem line_block (cfg : Cfg) (row : List PP) : ∀ a ∈ line cfg row, a.isBlock = true := by
  intro a ha
  unfold line at ha
  cases row with
  | nil => simp at ha
  | cons p ps =>
    simp only at ha
    split at ha
    · exact loop_block cfg _ _ _ a (dropLastNul_mem _ a ha)
    · exact loop_block cfg _ _ _ a ha

end TIV.Block
