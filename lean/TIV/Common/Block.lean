import TIV.Common.Tok
/-!
# Block — `BlockImage._render_image` after `_get_render_data` (src/term_image/image/block.py:54-176)

Input: the flat `rgb` and `a` pixel lists the real `_get_render_data` returned, the render width
in pixels (= columns) and height in pixels (= 2 × lines), and the four booleans/values the
function reads from its environment. Output: tokens, line by line.
-/
namespace TIV.Block

structure Cfg where
  alpha : Bool              -- `img.mode == "RGBA"` after `_get_render_data`
  kitty : Bool              -- `self._is_on_kitty()`
  bgColor : Option RGB      -- `get_fg_bg_colors()[1]`
  split : Bool              -- `split_cells`
deriving DecidableEq, Repr

/-- one cell's worth of pixel data: upper pixel, lower pixel, their alpha values -/
structure PP where
  c1 : RGB
  c2 : RGB
  a1 : Nat
  a2 : Nat
deriving DecidableEq, Repr

/-- `r += r < 255 or -1` -/
def bump (r : Nat) : Nat := if r < 255 then r + 1 else r - 1

/-- `update_buffer()` for the current cluster `cl` and run length `n` -/
def updateBuffer (cfg : Cfg) (cl : PP) (n : Nat) : List Tok :=
  if cfg.alpha ∧ cl.a1 = 0 ∧ cl.a2 = 0 then
    Tok.sgr0 :: glyphs .blank n cfg.split
  else if cfg.alpha ∧ cl.a1 = 0 then
    Tok.sgr0 :: Tok.fg cl.c2 :: glyphs .lower n cfg.split
  else if cfg.alpha ∧ cl.a2 = 0 then
    Tok.sgr0 :: Tok.fg cl.c1 :: glyphs .upper n cfg.split
  else
    let (r, g, b) := cl.c2
    let r := if cfg.kitty ∧ some cl.c2 = cfg.bgColor then bump r else r
    Tok.bg (r, g, b) ::
      (if cl.c1 = cl.c2 then glyphs .blank n cfg.split
       else Tok.fg cl.c1 :: glyphs .upper n cfg.split)

/-- the big `if` of the inner loop: must the current cluster be flushed before pixel pair `p`? -/
def mustFlush (cfg : Cfg) (cl p : PP) : Bool :=
  !(cfg.alpha && p.a1 == 0 && cl.a1 == 0 && cl.a2 == 0 && p.a2 == 0) &&
  (p.c1 != cl.c1 || p.c2 != cl.c2 ||
    (cfg.alpha &&
      ((cl.a1 != p.a1 && p.a1 == 0) || (cl.a2 != p.a2 && p.a2 == 0) ||
       (cl.a1 == 0 && cl.a1 != p.a1) || (cl.a2 == 0 && cl.a2 != p.a2))))

/-- after a flush the cluster becomes the pixel pair; the alpha part only when `alpha` -/
def newCluster (cfg : Cfg) (cl p : PP) : PP :=
  if cfg.alpha then p else { c1 := p.c1, c2 := p.c2, a1 := cl.a1, a2 := cl.a2 }

/-- the inner `for` loop with its state `(cluster, n)`, then the final `update_buffer()` -/
def loop (cfg : Cfg) : PP → Nat → List PP → List Tok
  | cl, n, [] => updateBuffer cfg cl n
  | cl, n, p :: ps =>
    if mustFlush cfg cl p then updateBuffer cfg cl n ++ loop cfg (newCluster cfg cl p) 1 ps
    else loop cfg cl (n + 1) ps

/-- drop the last token if it is a NUL (`buffer.seek(buffer.tell() - 1)`) -/
def dropLastNul (ts : List Tok) : List Tok :=
  match ts.getLast? with
  | some .nul => ts.dropLast
  | _ => ts

/-- one line of cells (one row pair): initial cluster = first pixel pair, `n = 0` -/
def line (cfg : Cfg) (row : List PP) : List Tok :=
  match row with
  | [] => []
  | p :: _ =>
    let ts := loop cfg p 0 row
    if cfg.split then dropLastNul ts else ts

/-- all lines; `end_of_line = SGR_DEFAULT + "\n"` between lines, `SGR_DEFAULT` after the last -/
def renderLines (cfg : Cfg) (rows : List (List PP)) : List (List Tok) :=
  rows.map fun r => line cfg r ++ [Tok.sgr0]

def render (cfg : Cfg) (rows : List (List PP)) : List Tok := joinLines (renderLines cfg rows)

/-! ## slicing the flat pixel lists into row pairs (the `rgb_pairs` / `a_pairs` generators) -/

def zip4 : List RGB → List RGB → List Nat → List Nat → List PP
  | c1 :: r1, c2 :: r2, a1 :: s1, a2 :: s2 => ⟨c1, c2, a1, a2⟩ :: zip4 r1 r2 s1 s2
  | _, _, _, _ => []

/-- `for x in range(0, len(rgb), width * 2)`: rows `x…x+w` and `x+w…x+2w` zipped -/
def rowPairs (width : Nat) (rgb : List RGB) (a : List Nat) : Nat → List (List PP)
  | 0 => []
  | fuel + 1 =>
    if rgb.isEmpty ∨ width = 0 then []
    else
      zip4 (rgb.take width) ((rgb.drop width).take width) (a.take width) ((a.drop width).take width)
        :: rowPairs width (rgb.drop (2 * width)) (a.drop (2 * width)) fuel

end TIV.Block
