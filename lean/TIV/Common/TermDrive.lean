import TIV.Common.Wire
import TIV.Common.Term
import TIV.Common.TokBytes
import TIV.Common.Lex
/-!
# Wire format of tokens and terminal states; ops `term.run`, `tok.str`, `lex.run`, `term.runbytes`, `term.runbytes.n`
A token is one word: gB gU gL gC<code> | n | m | f<r>,<g>,<b> | b<r>,<g>,<b> | A<n> B<n> C<n> D<n> X<n>
| lf | cr | hc | sc | sb | se | K<cols>,<rows>,<z> | kd | ka | kz<z> | ke | I<cols>,<rows>,<0|1> | st
-/
namespace TIV.TermDrive
open TIV.Wire

def nats (s : String) : Option (List Nat) := (s.splitOn ",").mapM (·.toNat?)
def ints (s : String) : Option (List Int) := (s.splitOn ",").mapM (·.toInt?)

def parseTok (w : String) : Option Tok :=
  let rest (k : Nat) : String := (w.drop k).toString
  if w == "gB" then some (.glyph .blank) else if w == "gU" then some (.glyph .upper)
  else if w == "gL" then some (.glyph .lower)
  else if w.startsWith "gC" then (rest 2).toNat?.map fun n => .glyph (.ch (Char.ofNat n))
  else if w == "n" then some .nul else if w == "m" then some .sgr0
  else if w == "lf" then some .lf else if w == "cr" then some .cr
  else if w == "hc" then some .hideCur else if w == "sc" then some .showCur
  else if w == "sb" then some .syncBegin else if w == "se" then some .syncEnd
  else if w == "kd" then some .kittyDelCursor else if w == "ka" then some .kittyDelAll
  else if w == "ke" then some .kittyEndChunked else if w == "st" then some .st
  else if w.startsWith "kz" then (rest 2).toInt?.map .kittyDelZ
  else if w.startsWith "f" then match nats (rest 1) with
    | some [r, g, b] => some (.fg (r, g, b)) | _ => none
  else if w.startsWith "b" then match nats (rest 1) with
    | some [r, g, b] => some (.bg (r, g, b)) | _ => none
  else if w.startsWith "A" then (rest 1).toNat?.map .cuu
  else if w.startsWith "B" then (rest 1).toNat?.map .cud
  else if w.startsWith "C" then (rest 1).toNat?.map .cuf
  else if w.startsWith "D" then (rest 1).toNat?.map .cub
  else if w.startsWith "X" then (rest 1).toNat?.map .ech
  else if w.startsWith "K" then match ints (rest 1) with
    | some [c, r, z] => some (.kitty ⟨c.toNat, r.toNat, z, "", []⟩) | _ => none
  else if w.startsWith "I" then match nats (rest 1) with
    | some [c, r, nm] => some (.iterm ⟨c, r, nm != 0, "", []⟩) | _ => none
  else none

def fmtRGB : Option RGB → String
  | none => "d"
  | some (r, g, b) => s!"{r},{g},{b}"

def fmtGlyph : Glyph → String
  | .blank => "B" | .upper => "U" | .lower => "L" | .ch c => s!"C{c.toNat}"

def fmtTok : Tok → String
  | .glyph g => "g" ++ fmtGlyph g
  | .nul => "n" | .sgr0 => "m"
  | .fg (r, g, b) => s!"f{r},{g},{b}" | .bg (r, g, b) => s!"b{r},{g},{b}"
  | .cuu n => s!"A{n}" | .cud n => s!"B{n}" | .cuf n => s!"C{n}" | .cub n => s!"D{n}" | .ech n => s!"X{n}"
  | .lf => "lf" | .cr => "cr" | .hideCur => "hc" | .showCur => "sc" | .syncBegin => "sb" | .syncEnd => "se"
  | .kitty k => s!"K{k.cols},{k.rows},{k.z}" | .kittyDelCursor => "kd" | .kittyDelAll => "ka"
  | .kittyDelZ z => s!"kz{z}" | .kittyEndChunked => "ke"
  | .iterm i => s!"I{i.cols},{i.rows},{if i.noMove then 1 else 0}" | .st => "st"

def fmtCell : CellContent → String
  | .text g fg bg => s!"t:{fmtGlyph g}:{fmtRGB fg}:{fmtRGB bg}"
  | .erased bg => s!"e:{fmtRGB bg}"
  | .image => "i"

def parseKind (s : String) : Option TermKind :=
  match s with
  | "kitty" => some .kitty | "konsole" => some .konsole | "wezterm" => some .wezterm
  | "iterm2" => some .iterm2 | "other" => some .other | _ => none

def pTok : P Tok := do
  let w ← word
  match parseTok w with
  | some t => pure t
  | none => failure

/-- `W H kind row col top lm` -/
def pTerm : P Term := do
  let W ← nat; let H ← nat; let k ← word; let row ← nat; let col ← nat; let top ← nat; let lm ← nat
  match parseKind k with
  | some kind => pure { W, H, kind, row, col, top, lm }
  | none => failure

/-- the state after a run, and the writes it added (oldest first) -/
def fmtState (t0 t : Term) : String :=
  let newWrites := (t.log.take (t.log.length - t0.log.length)).reverse
  s!"{t.row} {t.col} {fmtBool t.pw} {t.top} {t.scrolls} {fmtBool t.wrapped} {fmtRGB t.fg} {fmtRGB t.bg} " ++
  s!"{fmtBool t.vis} " ++
  fmtList (fun p : Placement => s!"{fmtBool p.kittyProto},{p.row},{p.col},{p.cols},{p.rows},{p.z}") t.imgs ++ " " ++
  fmtList (fun w : Write => s!"{w.1},{w.2.1},{fmtCell w.2.2}") newWrites

/-- value of a lower-case hex digit given as a byte -/
def hexNib (b : UInt8) : Option UInt8 :=
  if 48 ≤ b && b ≤ 57 then some (b - 48) else if 97 ≤ b && b ≤ 102 then some (b - 87) else none

/-- `Wire.hexDecode` without the intermediate lists (render outputs are megabytes): the bytes of a
    lower-case hex word (`-` = empty), straight into a `ByteArray` -/
def hexBytes (w : String) : Option ByteArray :=
  if w == "-" then some ByteArray.empty
  else
    let src := w.toUTF8
    if src.size % 2 != 0 then none
    else Id.run do
      let mut out := ByteArray.emptyWithCapacity (src.size / 2)
      for i in [0:src.size / 2] do
        match hexNib (src.get! (2 * i)), hexNib (src.get! (2 * i + 1)) with
        | some x, some y => out := out.push (x * 16 + y)
        | _, _ => return none
      return some out

/-- the real output as the harness sends it: lower-case hex of its UTF-8 encoding -/
def pBytes : P (List Char) := do
  let w ← word
  match (hexBytes w).bind String.fromUTF8? with
  | some s => pure s.toList
  | none => failure

def handler : Handler := fun op args =>
  match op with
  | "lex.run" => run (do
      -- the Lean lexer (`TIV.Lex.lex`, proved inverse to `toksStr`) on real output bytes;
      -- answer in exactly the format of `harness/common/tokenizer.py`'s `wire()`
      let cs ← pBytes
      match Lex.lex cs with
      | some ts => pure ("ok " ++ fmtList fmtTok ts)
      | none => pure "err lex") args
  | "term.runbytes" => run (do
      -- `term.run` on what the Lean lexer reads from the bytes
      let t ← pTerm; let cs ← pBytes
      match Lex.lex cs with
      | some ts => pure ("ok " ++ fmtState t (t.run ts))
      | none => pure "err lex") args
  | "term.runbytes.n" => run (do
      -- one reading of the bytes, several terminals: `<hex> <n> (W H kind row col top lm)×n` →
      -- `ok <n tok…> | <state of term.run> | …` (the wire tokens first, then one state per terminal)
      let cs ← pBytes; let ts ← listOf pTerm
      match Lex.lex cs with
      | some toks => pure ("ok " ++ String.intercalate " | " (fmtList fmtTok toks :: ts.map fun t => fmtState t (t.run toks)))
      | none => pure "err lex") args
  | "term.run" => run (do
      let t ← pTerm; let ts ← listOf pTok
      pure ("ok " ++ fmtState t (t.run ts))) args
  | "tok.str" => run (do
      let ts ← listOf pTok
      pure ("ok " ++ hexEncode (toksStr ts).toUTF8.toList)) args
  | _ => none

end TIV.TermDrive
