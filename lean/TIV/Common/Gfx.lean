import TIV.Common.Tok
/-!
# Gfx — token structure of `KittyImage._render_image` and `ITerm2Image._render_image`
(src/term_image/image/kitty.py:398-489, iterm2.py:563-775). The payload-carrying commands are
data (`KittyCmd`, `ITermCmd`); this file is only about what goes around them.
-/
namespace TIV.Gfx

/-- `fill = ("" if mix else ERASE_CHARS % r_width) + (CURSOR_FORWARD % r_width)` -/
def fillToks (mix : Bool) (w : Nat) : List Tok := (if mix then [] else [Tok.ech w]) ++ [Tok.cuf w]

/-- one kitty line: `blend or KITTY_DELETE_CURSOR`, the transmission, the fill -/
def kittyLine (blend mix : Bool) (w : Nat) (k : KittyCmd) : List Tok :=
  (if blend then [] else [Tok.kittyDelCursor]) ++ [Tok.kitty k] ++ fillToks mix w

/-- LINES: one transmission per line -/
def kittyLines (blend mix : Bool) (w : Nat) (ks : List KittyCmd) : List (List Tok) :=
  ks.map (kittyLine blend mix w)

/-- WHOLE: the transmission on the first line, `fill` on every line -/
def kittyWhole (blend mix : Bool) (w h : Nat) (k : KittyCmd) : List (List Tok) :=
  kittyLine blend mix w k :: List.replicate (h - 1) (fillToks mix w)

/-- `erase = ERASE_CHARS % r_width if not mix and is_on_wezterm else ""` -/
def eraseToks (erase : Bool) (w : Nat) : List Tok := if erase then [Tok.ech w] else []

/-- iterm2 LINES: per line `erase`, the image (height=1), and on konsole `cursor_right` -/
def itermLine (erase konsole : Bool) (w : Nat) (c : ITermCmd) : List Tok :=
  eraseToks erase w ++ [Tok.iterm c] ++ (if konsole then [Tok.cuf w] else [])

def itermLines (erase konsole : Bool) (w : Nat) (cs : List ITermCmd) : List (List Tok) :=
  cs.map (itermLine erase konsole w)

/-- `cursor_up = CURSOR_UP % (r_height - 1) if r_height > 1 else ""` -/
def upToks (h : Nat) : List Tok := if h > 1 then [Tok.cuu (h - 1)] else []

/-- iterm2 WHOLE / ANIM.
    not konsole: `(erase cursor_right \n) × (h-1)`, then `erase cursor_up IMAGE`;
    konsole:     `IMAGE (cursor_right \n) × (h-1) cursor_right` -/
def itermWhole (erase konsole : Bool) (w h : Nat) (c : ITermCmd) : List (List Tok) :=
  if konsole then
    (eraseToks erase w ++ [Tok.iterm c, Tok.cuf w]) :: List.replicate (h - 1) [Tok.cuf w]
  else
    List.replicate (h - 1) (eraseToks erase w ++ [Tok.cuf w]) ++ [eraseToks erase w ++ upToks h ++ [Tok.iterm c]]

end TIV.Gfx
