/-!
# Wire — the driver line protocol (DESIGN.md, Appendix B)

One request per line, ASCII, space separated: `<prop> <op> <arg>…`.
Integers in decimal, byte strings in lower-case hex (`-` for the empty string), lists as a
count followed by that many items, booleans as `0`/`1`, options as `none` / `some …`.
Nothing here defaults: a token that does not parse makes the whole request `bad-op`.
-/
namespace TIV.Wire

/-- argument parser: consumes tokens from the front of the request -/
abbrev P := StateT (List String) Option

def word : P String := fun ts => match ts with
  | [] => none
  | t :: ts => some (t, ts)

def nat : P Nat := do
  let t ← word
  match t.toNat? with
  | some n => pure n
  | none => failure

def int : P Int := do
  let t ← word
  match t.toInt? with
  | some n => pure n
  | none => failure

def bool : P Bool := do
  let t ← word
  if t == "1" then pure true else if t == "0" then pure false else failure

def hexVal (c : Char) : Option Nat :=
  if '0' ≤ c ∧ c ≤ '9' then some (c.toNat - '0'.toNat)
  else if 'a' ≤ c ∧ c ≤ 'f' then some (c.toNat - 'a'.toNat + 10)
  else none

def hexDecodeAux : List Char → List UInt8 → Option (List UInt8)
  | [], acc => some acc.reverse
  | [_], _ => none
  | a :: b :: rest, acc =>
    match hexVal a, hexVal b with
    | some x, some y => hexDecodeAux rest (UInt8.ofNat (x * 16 + y) :: acc)
    | _, _ => none

def hexDecode (s : String) : Option (List UInt8) :=
  if s == "-" then some [] else hexDecodeAux s.toList []

def hexDigit (n : Nat) : Char :=
  if n < 10 then Char.ofNat (n + '0'.toNat) else Char.ofNat (n - 10 + 'a'.toNat)

def hexEncode (bs : List UInt8) : String :=
  if bs.isEmpty then "-"
  else String.ofList (bs.foldr (fun b acc => hexDigit (b.toNat / 16) :: hexDigit (b.toNat % 16) :: acc) [])

def hex : P (List UInt8) := do
  let t ← word
  match hexDecode t with
  | some b => pure b
  | none => failure

/-- `n item₁ … itemₙ` -/
def listOf {α} (p : P α) : P (List α) := do
  let n ← nat
  let rec go : Nat → List α → P (List α)
    | 0, acc => pure acc.reverse
    | k + 1, acc => do let x ← p; go k (x :: acc)
  go n []

def optOf {α} (p : P α) : P (Option α) := do
  let t ← word
  if t == "none" then pure none
  else if t == "some" then do let x ← p; pure (some x)
  else failure

/-- all tokens must have been consumed -/
def done : P Unit := fun ts => match ts with
  | [] => some ((), [])
  | _ => none

def run {α} (p : P α) (ts : List String) : Option α :=
  match (do let x ← p; done; pure x : P α) ts with
  | some (x, _) => some x
  | none => none

/-! formatting -/
def fmtList {α} (f : α → String) (xs : List α) : String :=
  String.intercalate " " (toString xs.length :: xs.map f)

def fmtBool (b : Bool) : String := if b then "1" else "0"

def fmtOpt {α} (f : α → String) : Option α → String
  | none => "none"
  | some x => "some " ++ f x

def utf8 (s : String) : List UInt8 := s.toUTF8.toList

/-- a dispatcher: `some response` when the op is known and parses, else `none` -/
abbrev Handler := String → List String → Option String

end TIV.Wire
