/-!
# Standard base64 (RFC 4648 §4), as `base64.standard_b64encode` / `standard_b64decode`.
Import-free, executable. Bytes are `Nat`s below 256 in the proofs' statements; the driver converts.
-/
namespace TIV.Base64

/-- the 64-character alphabet, as byte values -/
def alphabet : List Nat :=
  (List.range 26).map (· + 65) ++ (List.range 26).map (· + 97) ++ (List.range 10).map (· + 48) ++ [43, 47]

/-- sextet → alphabet byte -/
def chr (n : Nat) : Nat :=
  if n < 26 then n + 65 else if n < 52 then n - 26 + 97 else if n < 62 then n - 52 + 48
  else if n = 62 then 43 else 47

/-- alphabet byte → sextet -/
def ord (c : Nat) : Option Nat :=
  if 65 ≤ c ∧ c ≤ 90 then some (c - 65) else if 97 ≤ c ∧ c ≤ 122 then some (c - 97 + 26)
  else if 48 ≤ c ∧ c ≤ 57 then some (c - 48 + 52) else if c = 43 then some 62
  else if c = 47 then some 63 else none

def pad : Nat := 61 -- '='

/-- encode; every element of the input is taken modulo 256 by the caller (bytes) -/
def enc : List Nat → List Nat
  | [] => []
  | [a] => [chr (a / 4), chr (a % 4 * 16), pad, pad]
  | [a, b] => [chr (a / 4), chr (a % 4 * 16 + b / 16), chr (b % 16 * 4), pad]
  | a :: b :: c :: rest =>
    chr (a / 4) :: chr (a % 4 * 16 + b / 16) :: chr (b % 16 * 4 + c / 64) :: chr (c % 64) :: enc rest

/-- decode a padded base64 string (strict: length multiple of 4, padding only at the end) -/
def dec : List Nat → Option (List Nat)
  | [] => some []
  | [w, x, y, z] =>
    if y = pad ∧ z = pad then
      match ord w, ord x with
      | some p, some q => some [p * 4 + q / 16]
      | _, _ => none
    else if z = pad then
      match ord w, ord x, ord y with
      | some p, some q, some r => some [p * 4 + q / 16, q % 16 * 16 + r / 4]
      | _, _, _ => none
    else
      match ord w, ord x, ord y, ord z with
      | some p, some q, some r, some s => some [p * 4 + q / 16, q % 16 * 16 + r / 4, r % 4 * 64 + s]
      | _, _, _, _ => none
  | w :: x :: y :: z :: rest =>
    match ord w, ord x, ord y, ord z, dec rest with
    | some p, some q, some r, some s, some t =>
      some ((p * 4 + q / 16) :: (q % 16 * 16 + r / 4) :: (r % 4 * 64 + s) :: t)
    | _, _, _, _, _ => none
  | _ => none

end TIV.Base64
