import TIV.Common.Tok
/-!
# Term — the terminal model (DESIGN.md §2.2).  A *definition* (trusted base), not a theorem.

Rows are absolute (numbered from the top of the scroll-back, never renumbered); the viewport is
rows `top … top+H-1`; a line feed on the last visible row increments `top` — that is scrolling.
`lm` is the column a line feed returns to (0 for a tty with ONLCR; the anchor column when a
render is placed as a block, the way `Padding.pad`, urwid canvases and the library's own
`_format_render` place it).
-/
namespace TIV

inductive TermKind | kitty | konsole | wezterm | iterm2 | other
deriving DecidableEq, Repr

inductive CellContent
  | text (g : Glyph) (fg bg : Option RGB)   -- `none` = the terminal's default colour
  | erased (bg : Option RGB)                -- blanked by ECH
  | image                                   -- covered by a graphics placement
deriving DecidableEq, Repr

/-- one write to the screen: absolute row, column, new content -/
abbrev Write := Nat × Nat × CellContent

structure Placement where
  kittyProto : Bool      -- kitty graphics protocol (else iTerm2 inline image)
  row : Nat
  col : Nat
  cols : Nat
  rows : Nat
  z : Int
deriving DecidableEq, Repr

structure Term where
  W : Nat
  H : Nat
  kind : TermKind := .other
  row : Nat := 0
  col : Nat := 0
  top : Nat := 0
  lm : Nat := 0
  pw : Bool := false                 -- pending wrap (cursor "past" the last column)
  fg : Option RGB := none
  bg : Option RGB := none
  vis : Bool := true
  log : List Write := []             -- every cell write so far, newest first (monotone history)
  imgs : List Placement := []
  wrapped : Bool := false            -- ghost: an automatic wrap happened
  scrolls : Nat := 0                 -- ghost: number of scrolled lines

namespace Term

/-- the cells `(r, c) … (r, c+n-1)`, clipped to the width `W` -/
def rowCells (W r c n : Nat) (v : CellContent) : List Write :=
  (List.range (min n (W - c))).map fun i => (r, c + i, v)

/-- a `cols × rows` block of cells, clipped to the width -/
def rectCells (W r c cols rows : Nat) (v : CellContent) : List Write :=
  (List.range rows).flatMap fun i => rowCells W (r + i) c cols v

def setCell (t : Term) (r c : Nat) (v : CellContent) : Term := { t with log := (r, c, v) :: t.log }

def fillRow (t : Term) (r c n : Nat) (v : CellContent) : Term :=
  { t with log := rowCells t.W r c n v ++ t.log }

def touchRect (t : Term) (r c cols rows : Nat) : Term :=
  { t with log := rectCells t.W r c cols rows .image ++ t.log }

/-- current content of a cell: the newest write to it -/
def cellAt (t : Term) (r c : Nat) : Option CellContent :=
  (t.log.find? fun w => w.1 == r && w.2.1 == c).map (·.2.2)

def touched (t : Term) (r c : Nat) : Bool := t.log.any fun w => w.1 == r && w.2.1 == c

/-- index down one line, scrolling when on the last visible row; the column is left alone -/
def index (t : Term) : Term :=
  if t.row + 1 = t.top + t.H then { t with row := t.row + 1, top := t.top + 1, scrolls := t.scrolls + 1 }
  else { t with row := t.row + 1 }

def lineFeed (t : Term) : Term := { t.index with col := t.lm, pw := false }

def putGlyph (t : Term) (g : Glyph) : Term :=
  let t := if t.pw then { t.index with col := 0, pw := false, wrapped := true } else t
  let t := t.setCell t.row t.col (.text g t.fg t.bg)
  if t.col + 1 ≥ t.W then { t with pw := true } else { t with col := t.col + 1 }

/-- a numeric parameter 0 means 1 (ECMA-48 default) -/
def param (n : Nat) : Nat := if n = 0 then 1 else n

def inRect (p : Placement) (r c : Nat) : Bool :=
  p.row ≤ r && r < p.row + p.rows && p.col ≤ c && c < p.col + p.cols

def step (t : Term) : Tok → Term
  | .glyph g => t.putGlyph g
  | .nul => t
  | .sgr0 => { t with fg := none, bg := none }
  | .fg c => { t with fg := some c }
  | .bg c => { t with bg := some c }
  | .cuu n => { t with row := max t.top (t.row - param n), pw := false }
  | .cud n => { t with row := min (t.top + t.H - 1) (t.row + param n), pw := false }
  | .cuf n => { t with col := min (t.W - 1) (t.col + param n), pw := false }
  | .cub n => { t with col := t.col - param n, pw := false }
  | .ech n => t.fillRow t.row t.col (param n) (.erased t.bg)
  | .lf => t.lineFeed
  | .cr => { t with col := 0, pw := false }
  | .hideCur => { t with vis := false }
  | .showCur => { t with vis := true }
  | .syncBegin => t
  | .syncEnd => t
  | .kitty k =>
    -- `C=1`: the cursor stays where it is
    { (t.touchRect t.row t.col k.cols k.rows) with
      imgs := ⟨true, t.row, t.col, k.cols, k.rows, k.z⟩ :: t.imgs }
  | .kittyDelCursor => { t with imgs := t.imgs.filter fun p => !(p.kittyProto && inRect p t.row t.col) }
  | .kittyDelAll => { t with imgs := t.imgs.filter fun p => !p.kittyProto }
  | .kittyDelZ z => { t with imgs := t.imgs.filter fun p => !(p.kittyProto && p.z == z) }
  | .kittyEndChunked => t
  | .iterm i =>
    let t' := { (t.touchRect t.row t.col i.cols i.rows) with
                imgs := ⟨false, t.row, t.col, i.cols, i.rows, 0⟩ :: t.imgs }
    if i.noMove && t.kind == .konsole then t'
    else
      -- the cursor ends on the image's last row, just past its last column
      let bottom := t.top + t.H - 1
      let r := t.row + i.rows - 1
      let over := r - bottom
      { t' with row := r, top := t.top + over, scrolls := t.scrolls + over,
                col := min (t.W - 1) (t.col + i.cols), pw := false }
  | .st => t

def run (t : Term) (ts : List Tok) : Term := ts.foldl step t

theorem run_nil (t : Term) : run t [] = t := rfl
theorem run_cons (t : Term) (a : Tok) (ts : List Tok) : run t (a :: ts) = run (step t a) ts := rfl
theorem run_append (t : Term) (a b : List Tok) : run t (a ++ b) = run (run t a) b := by
  simp [run, List.foldl_append]

end Term
end TIV
