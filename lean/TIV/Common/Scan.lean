import TIV.Common.TokBytes
/-!
# Scan — when is a string a sequence of *complete* control sequences?  (trusted definition)

A reduced DEC/ECMA-48 scanner: `ground`, after `ESC`, inside a CSI sequence, inside an APC/OSC/DCS
string, after `ESC` inside a string. Anything a conforming parser would not accept at that point
(a control character in the middle of a CSI sequence, a non-printable inside a string, an `ESC`
in a string not followed by `\`) goes to the absorbing state `bad`. A string is *complete* when
scanning it from `ground` ends in `ground`.
-/
namespace TIV.Scan

inductive St | ground | esc | csi | str | strEsc | bad
deriving DecidableEq, Repr

def isParam (c : Char) : Bool := 0x30 ≤ c.toNat && c.toNat ≤ 0x3f
def isFinal (c : Char) : Bool := 0x40 ≤ c.toNat && c.toNat ≤ 0x7e
/-- printable: not a C0 control, not DEL (non-ASCII characters such as ▀ are printable) -/
def isPrint (c : Char) : Bool := 0x20 ≤ c.toNat && c.toNat != 0x7f
/-- allowed inside a control string: printable ASCII -/
def isStrChar (c : Char) : Bool := 0x20 ≤ c.toNat && c.toNat ≤ 0x7e

def step : St → Char → St
  | .ground, c =>
    if c = '\x1b' then .esc
    else if isPrint c || c = '\n' || c = '\r' || c = '\x00' then .ground else .bad
  | .esc, c =>
    if c = '[' then .csi else if c = '_' || c = ']' || c = 'P' then .str
    else if c = '\\' then .ground else .bad
  | .csi, c => if isParam c then .csi else if isFinal c then .ground else .bad
  | .str, c => if c = '\x1b' then .strEsc else if isStrChar c then .str else .bad
  | .strEsc, c => if c = '\\' then .ground else .bad
  | .bad, _ => .bad

def run (s : St) (cs : List Char) : St := cs.foldl step s

/-- every control sequence in the string is complete -/
def Complete (s : String) : Prop := run .ground s.toList = .ground

def nlCount (s : String) : Nat := s.toList.count '\n'

end TIV.Scan
