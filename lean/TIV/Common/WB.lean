import TIV.Common.Term
/-!
# WB — the "well-behaved render" contract (DESIGN.md §2.2) and its composition theorem.

A render is a list of lines (token lists without `lf`), written with `lf` between consecutive
lines. Line `i` of a `w × h` block anchored at `(r0, x)` starts with the cursor at `(r0+i, x)`.
`LineOK` says what running one line may do; `render_block` lifts it to the whole render.
-/
namespace TIV
open Term

/-- the cursor is in place to draw line `i` of a `w × h` block anchored at `(r0, x)` that fits -/
structure Ready (t : Term) (r0 x w h i : Nat) : Prop where
  row : t.row = r0 + i
  col : t.col = x
  pw : t.pw = false
  fitW : x + w ≤ t.W
  visTop : t.top ≤ r0
  visBot : r0 + h ≤ t.top + t.H
  hi : i < h
  hw : 0 < w

/-- a write lands inside the block -/
def InRect (r0 x w h : Nat) (wr : Write) : Prop :=
  r0 ≤ wr.1 ∧ wr.1 < r0 + h ∧ x ≤ wr.2.1 ∧ wr.2.1 < x + w

/-- text attributes after a line: `reset` (text renders end every line with SGR 0) or `kept`
    (graphics renders never touch them) -/
inductive SgrMode | reset | kept | keepsDefault
deriving DecidableEq

/-- `keepsDefault` (padded renders): default attributes before ⇒ default attributes after;
    both `reset` and `kept` imply it -/
def sgrOK (m : SgrMode) (t t' : Term) : Prop :=
  match m with
  | .reset => t'.fg = none ∧ t'.bg = none
  | .kept => t'.fg = t.fg ∧ t'.bg = t.bg
  | .keepsDefault => (t.fg = none ∧ t.bg = none) → (t'.fg = none ∧ t'.bg = none)

theorem sgrOK_weaken {m : SgrMode} {t t' : Term} (h : sgrOK m t t') : sgrOK .keepsDefault t t' := by
  cases m with
  | reset => exact fun _ => h
  | kept => intro hd; exact ⟨h.1.trans hd.1, h.2.trans hd.2⟩
  | keepsDefault => exact h

/-- everything a line must leave alone -/
structure Frame (t t' : Term) : Prop where
  W : t'.W = t.W
  H : t'.H = t.H
  kind : t'.kind = t.kind
  top : t'.top = t.top
  lm : t'.lm = t.lm
  vis : t'.vis = t.vis
  wrapped : t'.wrapped = t.wrapped
  scrolls : t'.scrolls = t.scrolls

theorem Frame.refl (t : Term) : Frame t t := ⟨rfl, rfl, rfl, rfl, rfl, rfl, rfl, rfl⟩

theorem Frame.trans {a b c : Term} (h1 : Frame a b) (h2 : Frame b c) : Frame a c :=
  ⟨h2.W.trans h1.W, h2.H.trans h1.H, h2.kind.trans h1.kind, h2.top.trans h1.top, h2.lm.trans h1.lm,
   h2.vis.trans h1.vis, h2.wrapped.trans h1.wrapped, h2.scrolls.trans h1.scrolls⟩

/-- the writes `new` touch every cell of the block's line `di` -/
def CoversRow (new : List Write) (r0 x w di : Nat) : Prop :=
  ∀ j, j < w → ∃ v, (r0 + di, x + j, v) ∈ new

/-- what running line `i` does, on every terminal of the kinds `K`, at every position where the block fits -/
structure LineEffect (t t' : Term) (r0 x w h : Nat) (m : SgrMode) (S : Nat → Prop) : Prop where
  frame : Frame t t'
  row : t'.row = t.row
  col : t'.col = min (x + w) (t.W - 1)
  pw : t'.pw = true → x + w = t.W
  sgr : sgrOK m t t'
  log : ∃ new, t'.log = new ++ t.log ∧ (∀ wr ∈ new, InRect r0 x w h wr) ∧
        ∀ di, S di → CoversRow new r0 x w di

/-- `S` = the lines of the block (relative row numbers) that this line is guaranteed to cover entirely -/
def LineOK (K : TermKind → Prop) (w h i : Nat) (m : SgrMode) (S : Nat → Prop) (l : List Tok) : Prop :=
  ∀ (t : Term) (r0 x : Nat), K t.kind → Ready t r0 x w h i → LineEffect t (t.run l) r0 x w h m S

theorem LineOK.mono {K K' : TermKind → Prop} (hK : ∀ k, K' k → K k) {w h i : Nat} {m : SgrMode}
    {S : Nat → Prop} {l : List Tok} (h0 : LineOK K w h i m S l) : LineOK K' w h i m S l :=
  fun t r0 x hk hR => h0 t r0 x (hK _ hk) hR

theorem LineOK.weakenSgr {K : TermKind → Prop} {w h i : Nat} {m : SgrMode}
    {S : Nat → Prop} {l : List Tok} (h0 : LineOK K w h i m S l) : LineOK K w h i .keepsDefault S l := by
  intro t r0 x hk hR
  have e := h0 t r0 x hk hR
  exact ⟨e.frame, e.row, e.col, e.pw, sgrOK_weaken e.sgr, e.log⟩

theorem LineOK.weakenS {K : TermKind → Prop} {w h i : Nat} {m : SgrMode}
    {S S' : Nat → Prop} (hS : ∀ d, S' d → S d) {l : List Tok} (h0 : LineOK K w h i m S l) :
    LineOK K w h i m S' l := by
  intro t r0 x hk hR
  have e := h0 t r0 x hk hR
  obtain ⟨new, h1, h2, h3⟩ := e.log
  exact ⟨e.frame, e.row, e.col, e.pw, e.sgr, new, h1, h2, fun d hd => h3 d (hS d hd)⟩

/-- what the whole render does -/
structure BlockEffect (t t' : Term) (r0 x w h : Nat) (m : SgrMode) : Prop where
  frame : Frame t t'
  row : t'.row = r0 + h - 1
  col : t'.col = min (x + w) (t.W - 1)
  sgr : sgrOK m t t'
  log : ∃ new, t'.log = new ++ t.log ∧ (∀ wr ∈ new, InRect r0 x w h wr) ∧
        ∀ di, di < h → CoversRow new r0 x w di

theorem lineFeed_ready {t : Term} {r0 x w h i : Nat} (hlm : t.lm = x) (hrow : t.row = r0 + i)
    (hfit : x + w ≤ t.W) (hw : 0 < w) (ht : t.top ≤ r0) (hb : r0 + h ≤ t.top + t.H) (hi : i + 1 < h) :
    Ready t.lineFeed r0 x w h (i + 1) ∧ Frame t t.lineFeed ∧ t.lineFeed.log = t.log ∧
    t.lineFeed.fg = t.fg ∧ t.lineFeed.bg = t.bg := by
  have hne : ¬ (t.row + 1 = t.top + t.H) := by omega
  have e : t.lineFeed = { t with row := t.row + 1, col := t.lm, pw := false } := by
    unfold lineFeed index; simp [hne]
  rw [e]
  exact ⟨⟨by show t.row + 1 = r0 + (i + 1); omega, hlm, rfl, hfit, ht, hb, hi, hw⟩,
    ⟨rfl, rfl, rfl, rfl, rfl, rfl, rfl, rfl⟩, rfl, rfl, rfl⟩

/-- lines `i, i+1, …` of the block, starting Ready at line `i` -/
theorem render_from (K : TermKind → Prop) (w h : Nat) (m : SgrMode) (S : Nat → Nat → Prop) :
    ∀ (ls : List (List Tok)) (i : Nat), ls ≠ [] → i + ls.length = h →
      (∀ j (hj : j < ls.length), LineOK K w h (i + j) m (S (i + j)) ls[j]) →
      ∀ (t : Term) (r0 x : Nat), K t.kind → t.lm = x → Ready t r0 x w h i →
        let t' := t.run (joinLines ls)
        Frame t t' ∧ t'.row = r0 + h - 1 ∧ t'.col = min (x + w) (t.W - 1) ∧
        (m = .reset → t'.fg = none ∧ t'.bg = none) ∧ (m = .kept → t'.fg = t.fg ∧ t'.bg = t.bg) ∧
        (m = .keepsDefault → (t.fg = none ∧ t.bg = none) → (t'.fg = none ∧ t'.bg = none)) ∧
        ∃ new, t'.log = new ++ t.log ∧ (∀ wr ∈ new, InRect r0 x w h wr) ∧
          ∀ k, i ≤ k → k < h → ∀ di, S k di → CoversRow new r0 x w di := by
  intro ls
  induction ls with
  | nil => intro i h; exact absurd rfl h
  | cons l rest ih =>
    intro i _ hlen hOK t r0 x hK hlm hR
    have h0 := hOK 0 (by simp) t r0 x hK hR
    simp only [Nat.add_zero, List.getElem_cons_zero] at h0
    cases rest with
    | nil =>
      simp only [joinLines]
      simp at hlen
      obtain ⟨new, hnew, hin, hcov⟩ := h0.log
      refine ⟨h0.frame, by rw [h0.row, hR.row]; omega, h0.col, ?_, ?_, ?_, new, hnew, hin, ?_⟩
      · intro hm; subst hm; exact h0.sgr
      · intro hm; subst hm; exact h0.sgr
      · intro hm; subst hm; exact h0.sgr
      · intro k hk1 hk2 di hS
        have : k = i := by omega
        subst this; exact hcov di hS
    | cons l2 rest2 =>
      simp only [joinLines]
      rw [Term.run_append, Term.run_cons]
      have hlen' : i + 1 + (l2 :: rest2).length = h := by simp at hlen ⊢; omega
      generalize t.run l = t1 at h0 ⊢
      have hfr := h0.frame
      have hi1 : i + 1 < h := by simp at hlen; omega
      have hlf := lineFeed_ready (t := t1) (r0 := r0) (x := x) (w := w) (h := h) (i := i)
        (by rw [hfr.lm]; exact hlm) (by rw [h0.row]; exact hR.row) (by rw [hfr.W]; exact hR.fitW) hR.hw
        (by rw [hfr.top]; exact hR.visTop) (by rw [hfr.top, hfr.H]; exact hR.visBot) hi1
      obtain ⟨hR2, hfr2, hlog2, hfg2, hbg2⟩ := hlf
      have step_eq : Term.step t1 Tok.lf = t1.lineFeed := rfl
      rw [step_eq]
      have hOK' : ∀ j (hj : j < (l2 :: rest2).length), LineOK K w h (i + 1 + j) m (S (i + 1 + j)) (l2 :: rest2)[j] := by
        intro j hj
        have := hOK (j + 1) (by simp at hj ⊢; omega)
        simpa [Nat.add_assoc, Nat.add_comm 1 j] using this
      have hK2 : K t1.lineFeed.kind := by rw [hfr2.kind, hfr.kind]; exact hK
      have hlm2 : t1.lineFeed.lm = x := by rw [hfr2.lm, hfr.lm]; exact hlm
      have := ih (i + 1) (by simp) hlen' hOK' t1.lineFeed r0 x hK2 hlm2 hR2
      obtain ⟨f3, hrow3, hcol3, hres3, hkept3, hdef3, new3, hnew3, hin3, hcov3⟩ := this
      obtain ⟨new1, hnew1, hin1, hcov1⟩ := h0.log
      refine ⟨(hfr.trans hfr2).trans f3, hrow3, ?_, hres3, ?_, ?_, new3 ++ new1, ?_, ?_, ?_⟩
      · rw [hcol3, hfr2.W, hfr.W]
      · intro hm
        have h3 := hkept3 hm
        subst hm
        have h1 : t1.fg = t.fg ∧ t1.bg = t.bg := h0.sgr
        rw [h3.1, h3.2, hfg2, hbg2]; exact h1
      · intro hm hd
        have h3 := hdef3 hm
        subst hm
        have h1 : t1.fg = none ∧ t1.bg = none := h0.sgr hd
        exact h3 (by rw [hfg2, hbg2]; exact h1)
      · rw [hnew3, hlog2, hnew1, List.append_assoc]
      · intro wr hwr
        rcases List.mem_append.mp hwr with h | h
        · exact hin3 wr h
        · exact hin1 wr h
      · intro k hk1 hk2 di hS j hj
        by_cases hki : k = i
        · subst hki
          obtain ⟨v, hv⟩ := hcov1 di hS j hj
          exact ⟨v, List.mem_append.mpr (Or.inr hv)⟩
        · obtain ⟨v, hv⟩ := hcov3 k (by omega) hk2 di hS j hj
          exact ⟨v, List.mem_append.mpr (Or.inl hv)⟩

/-- THE COMPOSITION THEOREM: a render whose every line is `LineOK`, written at any position
    where its `w × h` block fits (cursor at the block's top-left corner, line feeds returning
    to the block's left column), stays inside the block, does not scroll or wrap, and ends on
    the last line at `min (x+w) (W-1)`. -/
theorem render_block (K : TermKind → Prop) (w h : Nat) (m : SgrMode) (S : Nat → Nat → Prop)
    (ls : List (List Tok))
    (hlen : ls.length = h) (hh : 0 < h) (hOK : ∀ j (hj : j < ls.length), LineOK K w h j m (S j) ls[j])
    (hS : ∀ di, di < h → ∃ k, k < h ∧ S k di)
    (t : Term) (r0 x : Nat) (hK : K t.kind) (hlm : t.lm = x) (hR : Ready t r0 x w h 0) :
    BlockEffect t (t.run (joinLines ls)) r0 x w h m := by
  have hne : ls ≠ [] := by intro h0; subst h0; simp at hlen; omega
  have := render_from K w h m S ls 0 hne (by omega) (by simpa using hOK) t r0 x hK hlm hR
  obtain ⟨f, hrow, hcol, hres, hkept, hdef, new, hnew, hin, hcov⟩ := this
  refine ⟨f, hrow, hcol, ?_, new, hnew, hin, ?_⟩
  · cases m with
    | reset => exact hres rfl
    | kept => exact hkept rfl
    | keepsDefault => exact hdef rfl
  · intro di hdi
    obtain ⟨k, hk, hSk⟩ := hS di hdi
    exact hcov k (by omega) hk di hSk

end TIV
