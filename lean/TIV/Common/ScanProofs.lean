import TIV.Common.Scan
/-! every token the library writes serialises to complete control sequences; newlines come from `lf` only -/
namespace TIV.Scan
open TIV

theorem run_append (s : St) (a b : List Char) : run s (a ++ b) = run (run s a) b := by
  simp [run, List.foldl_append]

theorem run_cons (s : St) (c : Char) (cs : List Char) : run s (c :: cs) = run (step s c) cs := rfl
theorem run_nil (s : St) : run s [] = s := rfl

theorem run_csi_params (ps : List Char) (h : ∀ c ∈ ps, isParam c = true) : run .csi ps = .csi := by
  induction ps with
  | nil => rfl
  | cons c cs ih =>
    rw [run_cons]
    have hc := h c (by simp)
    simp only [step, hc, if_true]
    exact ih (fun d hd => h d (by simp [hd]))

theorem run_str_body (body : List Char) (h : ∀ c ∈ body, isStrChar c = true) : run .str body = .str := by
  induction body with
  | nil => rfl
  | cons c cs ih =>
    rw [run_cons]
    have hc := h c (by simp)
    have hne : c ≠ '\x1b' := by
      intro he; subst he; simp [isStrChar] at hc
    simp only [step, hne, hc, if_true, if_false]
    exact ih (fun d hd => h d (by simp [hd]))

theorem run_ground_print (cs : List Char) (h : ∀ c ∈ cs, isPrint c = true) : run .ground cs = .ground := by
  induction cs with
  | nil => rfl
  | cons c cs ih =>
    rw [run_cons]
    have hc := h c (by simp)
    have hne : c ≠ '\x1b' := by
      intro he; subst he; simp [isPrint] at hc
    simp only [step, hne, hc, if_false, Bool.true_or, if_true]
    exact ih (fun d hd => h d (by simp [hd]))

/-- `ESC [ params final` -/
theorem csi_complete (ps : List Char) (f : Char) (hp : ∀ c ∈ ps, isParam c = true)
    (hf1 : isParam f = false) (hf2 : isFinal f = true) :
    run .ground ('\x1b' :: '[' :: (ps ++ [f])) = .ground := by
  rw [run_cons, run_cons]
  have e1 : step .ground '\x1b' = .esc := by simp [step]
  have e2 : step .esc '[' = .csi := by simp [step]
  rw [e1, e2, run_append, run_csi_params ps hp]
  simp [run, step, hf1, hf2]

/-- `ESC intro body ESC \` for `intro ∈ { _ ] P }` -/
theorem str_complete (intro : Char) (body : List Char) (hi : intro = '_' ∨ intro = ']' ∨ intro = 'P')
    (hb : ∀ c ∈ body, isStrChar c = true) :
    run .ground ('\x1b' :: intro :: (body ++ ['\x1b', '\\'])) = .ground := by
  rw [run_cons, run_cons]
  have e1 : step .ground '\x1b' = .esc := by simp [step]
  have e2 : step .esc intro = .str := by rcases hi with rfl | rfl | rfl <;> simp [step]
  rw [e1, e2, run_append, run_str_body body hb]
  simp [run, step]

theorem digit_isParam {n : Nat} {c : Char} (h : c ∈ Nat.toDigits 10 n) : isParam c = true := by
  have := Nat.isDigit_of_mem_toDigits (by decide) (by decide) h
  simp [Char.isDigit, UInt32.le_iff_toNat_le] at this
  simp [isParam]
  have h1 : c.toNat = c.val.toNat := rfl
  omega

theorem digit_isStrChar {n : Nat} {c : Char} (h : c ∈ Nat.toDigits 10 n) : isStrChar c = true := by
  have := digit_isParam h
  simp [isParam] at this; simp [isStrChar]; omega

theorem natStr_params (n : Nat) : ∀ c ∈ (toString n).toList, isParam c = true := by
  intro c hc
  have : (toString n).toList = Nat.toDigits 10 n := by simp
  rw [this] at hc; exact digit_isParam hc

theorem natStr_strChars (n : Nat) : ∀ c ∈ (toString n).toList, isStrChar c = true := by
  intro c hc
  have : (toString n).toList = Nat.toDigits 10 n := by simp
  rw [this] at hc; exact digit_isStrChar hc

theorem intStr_strChars (z : Int) : ∀ c ∈ (toString z).toList, isStrChar c = true := by
  intro c hc
  cases z with
  | ofNat n =>
    have : (toString (Int.ofNat n)).toList = Nat.toDigits 10 n := by simp [toString, Int.repr]
    rw [this] at hc; exact digit_isStrChar hc
  | negSucc n =>
    have : (toString (Int.negSucc n)).toList = '-' :: Nat.toDigits 10 (n + 1) := by simp [toString, Int.repr]
    rw [this] at hc
    simp at hc
    rcases hc with rfl | hc
    · decide
    · exact digit_isStrChar hc

end TIV.Scan

namespace TIV.Scan
open TIV

/-- well-formed tokens: fill characters are printable, graphics control data and payloads are printable ASCII -/
def WfTok : Tok → Prop
  | .glyph (.ch c) => isPrint c = true
  | .kitty k => (∀ c ∈ k.control.toList, isStrChar c = true) ∧
      ∀ ch ∈ k.chunks, ∀ b ∈ ch.2, isStrChar (Char.ofNat b) = true
  | .iterm i => (∀ c ∈ i.control.toList, isStrChar c = true) ∧ ∀ b ∈ i.payload, isStrChar (Char.ofNat b) = true
  | _ => True

private theorem l_csi : "\x1b[".toList = ['\x1b', '['] := by decide
private theorem l_A : "A".toList = ['A'] := by decide
private theorem l_B : "B".toList = ['B'] := by decide
private theorem l_C : "C".toList = ['C'] := by decide
private theorem l_D : "D".toList = ['D'] := by decide
private theorem l_X : "X".toList = ['X'] := by decide
private theorem l_m : "m".toList = ['m'] := by decide
private theorem l_semi : ";".toList = [';'] := by decide
private theorem l_fg : "\x1b[38;2;".toList = ['\x1b', '[', '3', '8', ';', '2', ';'] := by decide
private theorem l_bg : "\x1b[48;2;".toList = ['\x1b', '[', '4', '8', ';', '2', ';'] := by decide

theorem csi1 (f : Char) (n : Nat) (hf1 : isParam f = false) (hf2 : isFinal f = true) :
    run .ground (['\x1b', '['] ++ (toString n).toList ++ [f]) = .ground := by
  have := csi_complete (toString n).toList f (natStr_params n) hf1 hf2
  simpa using this

theorem sgr_rgb (p : List Char) (hp : ∀ c ∈ p, isParam c = true) (r g b : Nat) :
    run .ground (['\x1b', '['] ++ p ++ (toString r).toList ++ [';'] ++ (toString g).toList ++ [';'] ++
      (toString b).toList ++ ['m']) = .ground := by
  have hps : ∀ c ∈ p ++ (toString r).toList ++ [';'] ++ (toString g).toList ++ [';'] ++ (toString b).toList,
      isParam c = true := by
    intro c hc
    simp only [List.mem_append, List.mem_singleton] at hc
    rcases hc with ((((h | h) | h) | h) | h) | h
    · exact hp c h
    · exact natStr_params r c h
    · subst h; decide
    · exact natStr_params g c h
    · subst h; decide
    · exact natStr_params b c h
  have := csi_complete _ 'm' hps (by decide) (by decide)
  simpa [List.append_assoc] using this

theorem asciiStr_toList (bs : List Nat) : (asciiStr bs).toList = bs.map Char.ofNat := by
  simp [asciiStr]

theorem kitty_command_chars (ctrl : String) (payload : List Nat) :
    (fill GenCtl.KITTY_TRANSMISSION [ctrl, asciiStr payload]).toList =
      '\x1b' :: '_' :: (('G' :: (ctrl.toList ++ ';' :: payload.map Char.ofNat)) ++ ['\x1b', '\\']) := by
  have a1 : "\x1b_G".toList = ['\x1b', '_', 'G'] := by decide
  have a2 : "\x1b\\".toList = ['\x1b', '\\'] := by decide
  simp [fill, GenCtl.KITTY_TRANSMISSION, a1, a2, l_semi, asciiStr_toList]

/-- one kitty APC command is complete -/
theorem kitty_command_complete (ctrl : String) (payload : List Nat)
    (hc : ∀ c ∈ ctrl.toList, isStrChar c = true) (hp : ∀ b ∈ payload, isStrChar (Char.ofNat b) = true) :
    run .ground (fill GenCtl.KITTY_TRANSMISSION [ctrl, asciiStr payload]).toList = .ground := by
  rw [kitty_command_chars]
  apply str_complete _ _ (Or.inl rfl)
  intro c hcm
  simp only [List.mem_cons, List.mem_append, List.mem_map] at hcm
  rcases hcm with rfl | h | rfl | ⟨b, hb, rfl⟩
  · decide
  · exact hc c h
  · decide
  · exact hp b hb

end TIV.Scan

namespace TIV.Scan
open TIV

theorem complete_flatMap {α} (f : α → List Char) (l : List α) (h : ∀ a ∈ l, run .ground (f a) = .ground) :
    run .ground (l.flatMap f) = .ground := by
  induction l with
  | nil => rfl
  | cons a as ih =>
    simp only [List.flatMap_cons, run_append, h a (by simp)]
    exact ih (fun b hb => h b (by simp [hb]))

theorem mflag_strChars (m : Bool) : ∀ c ∈ (if m then "m=1" else "m=0" : String).toList, isStrChar c = true := by
  cases m <;> decide

theorem kitty_complete (k : KittyCmd) (h : WfTok (.kitty k)) : run .ground k.str.toList = .ground := by
  obtain ⟨hc, hp⟩ := h
  unfold KittyCmd.str
  cases hk : k.chunks with
  | nil => rfl
  | cons first rest =>
    obtain ⟨m, c⟩ := first
    have hfirst := hp (m, c) (by rw [hk]; simp)
    simp only [String.toList_append, run_append, String.toList_join, List.flatMap_map]
    have hctl : ∀ ch ∈ (k.control ++ ",m=" ++ (if m then "1" else "0")).toList, isStrChar ch = true := by
      intro ch hch
      simp only [String.toList_append, List.mem_append] at hch
      rcases hch with (h | h) | h
      · exact hc ch h
      · revert ch; decide
      · cases m <;> (revert ch; decide)
    rw [kitty_command_complete _ c hctl hfirst]
    apply complete_flatMap
    intro mc hmc
    obtain ⟨m2, c2⟩ := mc
    exact kitty_command_complete _ c2 (mflag_strChars m2) (hp (m2, c2) (by rw [hk]; simp [hmc]))

theorem iterm_complete (i : ITermCmd) (h : WfTok (.iterm i)) : run .ground i.str.toList = .ground := by
  obtain ⟨hc, hp⟩ := h
  have a1 : "\x1b]1337;File=".toList = '\x1b' :: ']' :: "1337;File=".toList := by decide
  have a2 : "\x1b\\".toList = ['\x1b', '\\'] := by decide
  have a3 : ":".toList = [':'] := by decide
  have e : i.str.toList = '\x1b' :: ']' :: (("1337;File=".toList ++ i.control.toList ++ ':' :: i.payload.map Char.ofNat) ++ ['\x1b', '\\']) := by
    simp [ITermCmd.str, fill, GenCtl.ITERM2_START, GenCtl.ST, a1, a2, a3, asciiStr_toList]
  rw [e]
  apply str_complete _ _ (Or.inr (Or.inl rfl))
  intro c hcm
  simp only [List.mem_cons, List.mem_append, List.mem_map] at hcm
  rcases hcm with (h | h) | rfl | ⟨b, hb, rfl⟩
  · revert c; decide
  · exact hc c h
  · decide
  · exact hp b hb

/-- EVERY TOKEN serialises to complete control sequences (or plain characters) -/
theorem tok_complete (t : Tok) (h : WfTok t) : run .ground t.str.toList = .ground := by
  cases t with
  | glyph g =>
    cases g with
    | blank => decide
    | upper => decide
    | lower => decide
    | ch c =>
      have : isPrint c = true := h
      simp only [Tok.str, Glyph.str, String.toList_singleton]
      exact run_ground_print [c] (by simpa using this)
  | nul => decide
  | sgr0 => decide
  | fg c =>
    obtain ⟨r, g, b⟩ := c
    have := sgr_rgb ['3', '8', ';', '2', ';'] (by decide) r g b
    simpa [Tok.str, fill, GenCtl.SGR_FG_DIRECT, l_fg, l_semi, l_m] using this
  | bg c =>
    obtain ⟨r, g, b⟩ := c
    have := sgr_rgb ['4', '8', ';', '2', ';'] (by decide) r g b
    simpa [Tok.str, fill, GenCtl.SGR_BG_DIRECT, l_bg, l_semi, l_m] using this
  | cuu n => simpa [Tok.str, fill, GenCtl.CURSOR_UP, l_csi, l_A] using csi1 'A' n (by decide) (by decide)
  | cud n => simpa [Tok.str, fill, GenCtl.CURSOR_DOWN, l_csi, l_B] using csi1 'B' n (by decide) (by decide)
  | cuf n => simpa [Tok.str, fill, GenCtl.CURSOR_FORWARD, l_csi, l_C] using csi1 'C' n (by decide) (by decide)
  | cub n => simpa [Tok.str, fill, GenCtl.CURSOR_BACKWARD, l_csi, l_D] using csi1 'D' n (by decide) (by decide)
  | ech n => simpa [Tok.str, fill, GenCtl.ERASE_CHARS, l_csi, l_X] using csi1 'X' n (by decide) (by decide)
  | lf => decide
  | cr => decide
  | hideCur => decide
  | showCur => decide
  | syncBegin => decide
  | syncEnd => decide
  | kitty k => exact kitty_complete k h
  | kittyDelCursor => decide
  | kittyDelAll => decide
  | kittyDelZ z =>
    have a1 : "\x1b_Ga=d,d=Z,z=".toList = '\x1b' :: '_' :: "Ga=d,d=Z,z=".toList := by decide
    have a2 : ";\x1b\\".toList = [';', '\x1b', '\\'] := by decide
    have e : (Tok.str (.kittyDelZ z)).toList =
        '\x1b' :: '_' :: (("Ga=d,d=Z,z=".toList ++ (toString z).toList ++ [';']) ++ ['\x1b', '\\']) := by
      simp [Tok.str, fill, GenCtl.KITTY_DELETE_Z_INDEX, a1, a2]
    rw [e]
    apply str_complete _ _ (Or.inl rfl)
    intro c hcm
    simp only [List.mem_append, List.mem_singleton] at hcm
    rcases hcm with (h | h) | rfl
    · revert c; decide
    · exact intStr_strChars z c h
    · decide
  | kittyEndChunked => decide
  | iterm i => exact iterm_complete i h
  | st => decide

/-- A WHOLE TOKEN LIST is complete: scanning its serialisation from ground ends in ground -/
theorem toks_complete (ts : List Tok) (h : ∀ t ∈ ts, WfTok t) : Complete (toksStr ts) := by
  unfold Complete toksStr
  rw [String.toList_join, List.flatMap_map]
  exact complete_flatMap _ ts (fun t ht => tok_complete t (h t ht))

end TIV.Scan

namespace TIV.Scan
open TIV

theorem nl_not_param {c : Char} (h : isParam c = true) : c ≠ '\n' := by
  intro he; subst he; simp [isParam] at h
theorem nl_not_strChar {c : Char} (h : isStrChar c = true) : c ≠ '\n' := by
  intro he; subst he; simp [isStrChar] at h
theorem nl_not_print {c : Char} (h : isPrint c = true) : c ≠ '\n' := by
  intro he; subst he; simp [isPrint] at h

theorem natStr_noNl (n : Nat) : '\n' ∉ Nat.toDigits 10 n :=
  fun h => nl_not_param (digit_isParam h) rfl
theorem intStr_noNl (z : Int) : '\n' ∉ (toString z).toList :=
  fun h => nl_not_strChar (intStr_strChars z _ h) rfl

theorem kitty_command_noNl (ctrl : String) (payload : List Nat)
    (hc : ∀ c ∈ ctrl.toList, isStrChar c = true) (hp : ∀ b ∈ payload, isStrChar (Char.ofNat b) = true) :
    '\n' ∉ (fill GenCtl.KITTY_TRANSMISSION [ctrl, asciiStr payload]).toList := by
  rw [kitty_command_chars]
  intro hmem
  simp only [List.mem_cons, List.mem_append, List.mem_map, List.not_mem_nil, or_false] at hmem
  rcases hmem with h | h | (h | h | h | ⟨b, hb, he⟩) | h | h
  · exact absurd h (by decide)
  · exact absurd h (by decide)
  · exact absurd h (by decide)
  · exact nl_not_strChar (hc _ h) rfl
  · exact absurd h (by decide)
  · exact nl_not_strChar (he ▸ hp b hb) rfl
  · exact absurd h (by decide)
  · exact absurd h (by decide)

theorem kitty_noNl (k : KittyCmd) (h : WfTok (.kitty k)) : '\n' ∉ k.str.toList := by
  obtain ⟨hc, hp⟩ := h
  unfold KittyCmd.str
  cases hk : k.chunks with
  | nil => simp
  | cons first rest =>
    obtain ⟨m, c⟩ := first
    have hfirst := hp (m, c) (by rw [hk]; simp)
    have hctl : ∀ ch ∈ (k.control ++ ",m=" ++ (if m then "1" else "0")).toList, isStrChar ch = true := by
      intro ch hch
      simp only [String.toList_append, List.mem_append] at hch
      rcases hch with (h | h) | h
      · exact hc ch h
      · revert ch; decide
      · cases m <;> (revert ch; decide)
    simp only [String.toList_append, List.mem_append, String.toList_join, List.mem_flatMap, List.mem_map, not_or]
    refine ⟨kitty_command_noNl _ c hctl hfirst, ?_⟩
    rintro ⟨s, ⟨mc, hmc, rfl⟩, hs⟩
    obtain ⟨m2, c2⟩ := mc
    exact kitty_command_noNl _ c2 (mflag_strChars m2) (hp (m2, c2) (by rw [hk]; simp [hmc])) hs

/-- no token but `lf` serialises to anything containing a newline -/
theorem tok_noNl (t : Tok) (hne : t ≠ .lf) (h : WfTok t) : '\n' ∉ t.str.toList := by
  cases t with
  | glyph g =>
    cases g with
    | blank => decide
    | upper => decide
    | lower => decide
    | ch c =>
      have hp : isPrint c = true := h
      simp only [Tok.str, Glyph.str, String.toList_singleton, List.mem_singleton]
      exact fun he => nl_not_print hp he.symm
  | nul => decide
  | sgr0 => decide
  | fg c =>
    obtain ⟨r, g, b⟩ := c
    have h1 := natStr_noNl r; have h2 := natStr_noNl g; have h3 := natStr_noNl b
    simp [Tok.str, fill, GenCtl.SGR_FG_DIRECT, l_fg, l_semi, l_m, h1, h2, h3]
  | bg c =>
    obtain ⟨r, g, b⟩ := c
    have h1 := natStr_noNl r; have h2 := natStr_noNl g; have h3 := natStr_noNl b
    simp [Tok.str, fill, GenCtl.SGR_BG_DIRECT, l_bg, l_semi, l_m, h1, h2, h3]
  | cuu n => have := natStr_noNl n; simp [Tok.str, fill, GenCtl.CURSOR_UP, l_csi, l_A, this]
  | cud n => have := natStr_noNl n; simp [Tok.str, fill, GenCtl.CURSOR_DOWN, l_csi, l_B, this]
  | cuf n => have := natStr_noNl n; simp [Tok.str, fill, GenCtl.CURSOR_FORWARD, l_csi, l_C, this]
  | cub n => have := natStr_noNl n; simp [Tok.str, fill, GenCtl.CURSOR_BACKWARD, l_csi, l_D, this]
  | ech n => have := natStr_noNl n; simp [Tok.str, fill, GenCtl.ERASE_CHARS, l_csi, l_X, this]
  | lf => exact absurd rfl hne
  | cr => decide
  | hideCur => decide
  | showCur => decide
  | syncBegin => decide
  | syncEnd => decide
  | kitty k => exact kitty_noNl k h
  | kittyDelCursor => decide
  | kittyDelAll => decide
  | kittyDelZ z =>
    have a1 : "\x1b_Ga=d,d=Z,z=".toList = '\x1b' :: '_' :: "Ga=d,d=Z,z=".toList := by decide
    have a2 : ";\x1b\\".toList = [';', '\x1b', '\\'] := by decide
    have := intStr_noNl z
    simp only [Tok.str, fill, GenCtl.KITTY_DELETE_Z_INDEX, String.toList_append, a1, a2, List.mem_append,
      List.mem_cons, not_or, this, not_false_eq_true, and_true, List.not_mem_nil]
    decide
  | kittyEndChunked => decide
  | iterm i =>
    obtain ⟨hc, hp⟩ := h
    have a1 : "\x1b]1337;File=".toList = '\x1b' :: ']' :: "1337;File=".toList := by decide
    have a2 : "\x1b\\".toList = ['\x1b', '\\'] := by decide
    have a3 : ":".toList = [':'] := by decide
    have e : i.str.toList = '\x1b' :: ']' :: (("1337;File=".toList ++ i.control.toList ++ ':' :: i.payload.map Char.ofNat) ++ ['\x1b', '\\']) := by
      simp [ITermCmd.str, fill, GenCtl.ITERM2_START, GenCtl.ST, a1, a2, a3, asciiStr_toList]
    show '\n' ∉ i.str.toList
    rw [e]
    intro hmem
    simp only [List.mem_cons, List.mem_append, List.mem_map, List.not_mem_nil, or_false] at hmem
    rcases hmem with h | h | ((h | h) | h | ⟨b, hb, he⟩) | h | h
    · exact absurd h (by decide)
    · exact absurd h (by decide)
    · revert h; decide
    · exact nl_not_strChar (hc _ h) rfl
    · exact absurd h (by decide)
    · exact nl_not_strChar (he ▸ hp b hb) rfl
    · exact absurd h (by decide)
    · exact absurd h (by decide)
  | st => decide

/-- the number of newline characters in the serialisation is the number of `lf` tokens -/
theorem nlCount_toks (ts : List Tok) (h : ∀ t ∈ ts, WfTok t) : nlCount (toksStr ts) = ts.count .lf := by
  unfold nlCount toksStr
  rw [String.toList_join, List.flatMap_map]
  induction ts with
  | nil => rfl
  | cons t ts ih =>
    have iht := ih (fun u hu => h u (by simp [hu]))
    simp only [List.flatMap_cons, List.count_append, iht, List.count_cons]
    by_cases ht : t = .lf
    · subst ht
      have e : Tok.lf.str.toList = ['\n'] := by decide
      rw [e]; simp; omega
    · have := tok_noNl t ht (h t (by simp))
      rw [List.count_eq_zero_of_not_mem this]
      simp [ht]

end TIV.Scan
