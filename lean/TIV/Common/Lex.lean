import TIV.Common.TokBytes
import TIV.Common.Scan
/-!
# Lex — the terminal-side reading of the bytes the library writes, back into tokens

`lex : List Char → Option (List Tok)` is a deterministic, strict lexer for exactly the byte
language of `Tok.str` (TIV/Common/TokBytes.lean): glyphs, NUL, LF, CR, the CSI sequences the
library uses, kitty APC commands (a chunked transmission `…,m=1;… / m=1;… / m=0;…` is grouped
into ONE `Tok.kitty`, exactly as `KittyCmd.str` prints it), iterm2 OSC 1337 `File=` commands and
a bare `ST`.  Anything incomplete, unknown or non-canonical (leading zeros, colour component
> 255, a character outside the control/payload alphabets, non-graphics output inside a chunked
transmission, a transmission without its `m=0` chunk) makes the whole result `none`
(`harness/common/tokenizer.py` raises in these situations).

The lexer is written against the *shape* of the sequences; that these shapes are the ones of the
generated templates (`GenCtl.lean`, regenerated from `term_image._ctlseqs` on every run) is not
assumed but proved: `TIV.Lex.lex_toksStr` in `LexProofs.lean` (`lex (toksStr ts).toList = some ts`)
unfolds `Tok.str`, i.e. the templates, so a drifted template breaks that proof at build time.

Import-free of Mathlib; executable (driver ops `lex.run`, `term.runbytes` in TermDrive.lean).
-/
namespace TIV.Lex
open TIV

/-! ## character classes -/

/-- base64 alphabet and the padding character, as byte values (payload of kitty / iterm2 commands) -/
def b64Byte (b : Nat) : Bool :=
  (65 ≤ b && b ≤ 90) || (97 ≤ b && b ≤ 122) || (48 ≤ b && b ≤ 57) || b == 43 || b == 47 || b == 61

def isB64 (c : Char) : Bool := b64Byte c.toNat

/-- kitty control data: letters, digits, `=`, `,`, `-` -/
def isKCtl (c : Char) : Bool := c.isAlphanum || c == '=' || c == ',' || c == '-'

/-- iterm2 control data: printable ASCII except `:` (which ends it) -/
def isICtl (c : Char) : Bool := Scan.isStrChar c && c != ':'

/-- a character that is a glyph of its own (`Glyph.ch`): printable, and not one the lexer reads as
    something else -/
def isOther (c : Char) : Bool :=
  Scan.isPrint c && c != '\x1b' && c != ' ' && c != '▀' && c != '▄'

/-! ## numbers, as `toString` prints them (no sign for naturals, no leading zeros) -/

/-- a canonical decimal natural at the front of the input, and the rest -/
def readNat (cs : List Char) : Option (Nat × List Char) :=
  let ds := cs.takeWhile Char.isDigit
  let n := Nat.ofDigitChars 10 ds 0
  if Nat.toDigits 10 n = ds then some (n, cs.dropWhile Char.isDigit) else none

/-- the whole list is a canonical decimal natural -/
def readNatAll (ds : List Char) : Option Nat :=
  let n := Nat.ofDigitChars 10 ds 0
  if Nat.toDigits 10 n = ds then some n else none

/-- the whole list is a canonical decimal integer (`-` sign, no `+`, no `-0`) -/
def readIntAll (zs : List Char) : Option Int :=
  let z : Int :=
    if zs.head? = some '-' then -((Nat.ofDigitChars 10 zs.tail 0 : Nat) : Int)
    else ((Nat.ofDigitChars 10 zs 0 : Nat) : Int)
  if (toString z).toList = zs then some z else none

/-! ## key=value control data -/

/-- split at every `sep` (as `str.split(sep)`) -/
def splitC (sep : Char) : List Char → List (List Char)
  | [] => [[]]
  | c :: cs =>
    if c = sep then [] :: splitC sep cs
    else match splitC sep cs with
      | [] => [[c]]
      | h :: t => (c :: h) :: t

/-- `item.partition("=")`: key, and value (empty when there is no `=`) -/
def kvPart (item : List Char) : List Char × List Char :=
  (item.takeWhile (· != '='), (item.dropWhile (· != '=')).drop 1)

/-- `key=value`; an item without `=` is an error (kitty) -/
def kvOf (item : List Char) : Option (List Char × List Char) :=
  match item.dropWhile (· != '=') with
  | _ :: v => some (item.takeWhile (· != '='), v)
  | [] => none

/-- every item is `key=value` -/
def kvAll : List (List Char) → Option (List (List Char × List Char))
  | [] => some []
  | i :: is =>
    match kvOf i, kvAll is with
    | some kv, some r => some (kv :: r)
    | _, _ => none

/-- control data of a kitty transmit-and-display command (without the `,m=` item): distinct keys,
    `a=T`, `C=1` (the cursor stays), `c=`/`r=` canonical naturals, `z=` a canonical integer
    (default 0), no `m` key. Result: `(cols, rows, z)` -/
def parseKCtl (control : List Char) : Option (Nat × Nat × Int) :=
  match kvAll (splitC ',' control) with
  | none => none
  | some kvs =>
    if (kvs.map (·.1)).Nodup ∧ kvs.lookup ['a'] = some ['T'] ∧ kvs.lookup ['C'] = some ['1']
        ∧ kvs.lookup ['m'] = none then
      match kvs.lookup ['c'], kvs.lookup ['r'] with
      | some c, some r =>
        match readNatAll c, readNatAll r, (match kvs.lookup ['z'] with | none => some 0 | some zs => readIntAll zs) with
        | some c, some r, some z => some (c, r, z)
        | _, _, _ => none
      | _, _ => none
    else none

/-- control data of an iterm2 `File=` command: items separated by `;`, later duplicates win,
    `width=`/`height=` canonical naturals. Result: `(cols, rows, doNotMoveCursor=1)` -/
def parseICtl (control : List Char) : Option (Nat × Nat × Bool) :=
  let kvs := ((splitC ';' control).map kvPart).reverse
  match kvs.lookup ['w', 'i', 'd', 't', 'h'], kvs.lookup ['h', 'e', 'i', 'g', 'h', 't'] with
  | some w, some h =>
    match readNatAll w, readNatAll h with
    | some w, some h =>
      some (w, h, kvs.lookup ['d', 'o', 'N', 'o', 't', 'M', 'o', 'v', 'e', 'C', 'u', 'r', 's', 'o', 'r'] == some ['1'])
    | _, _ => none
  | _, _ => none

/-! ## one item of the stream -/

/-- what one complete sequence is: a token, or one APC command of a kitty transmission -/
inductive Raw
  | tok (t : Tok)
  | first (cols rows : Nat) (z : Int) (control : String) (m : Bool) (p : List Nat)
  | cont (m : Bool) (p : List Nat)
deriving DecidableEq, Repr

/-- after `CSI 38;` / `CSI 48;`: `2;r;g;b m` -/
def rgb (r1 : List Char) : Option (RGB × List Char) :=
  match r1 with
  | '2' :: ';' :: r2 =>
    match readNat r2 with
    | some (r, ';' :: r3) =>
      match readNat r3 with
      | some (g, ';' :: r4) =>
        match readNat r4 with
        | some (b, 'm' :: r5) => if r < 256 ∧ g < 256 ∧ b < 256 then some ((r, g, b), r5) else none
        | _ => none
      | _ => none
    | _ => none
  | _ => none

/-- after `ESC [` -/
def lexCsi (r : List Char) : Option (Tok × List Char) :=
  match readNat r with
  | some (n, f :: r1) =>
    if f = 'A' then some (.cuu n, r1) else if f = 'B' then some (.cud n, r1)
    else if f = 'C' then some (.cuf n, r1) else if f = 'D' then some (.cub n, r1)
    else if f = 'X' then some (.ech n, r1)
    else if f = ';' then
      if n = 38 then (rgb r1).map fun (c, r) => (.fg c, r)
      else if n = 48 then (rgb r1).map fun (c, r) => (.bg c, r)
      else none
    else none
  | some (_, []) => none
  | none =>
    match r with
    | 'm' :: r => some (.sgr0, r)
    | '?' :: '2' :: '5' :: 'h' :: r => some (.showCur, r)
    | '?' :: '2' :: '5' :: 'l' :: r => some (.hideCur, r)
    | '?' :: '2' :: '0' :: '2' :: '6' :: 'h' :: r => some (.syncBegin, r)
    | '?' :: '2' :: '0' :: '2' :: '6' :: 'l' :: r => some (.syncEnd, r)
    | _ => none

/-- a kitty delete command, after `a=d,` (no payload) -/
def delCmd (rest : List Char) : Option Tok :=
  if rest = ['d', '=', 'C'] then some .kittyDelCursor
  else if rest = ['d', '=', 'A'] then some .kittyDelAll
  else match rest with
    | 'd' :: '=' :: 'Z' :: ',' :: 'z' :: '=' :: zs => (readIntAll zs).map .kittyDelZ
    | _ => none

/-- the first command of a transmit-and-display: `<control>,m=<0|1>` -/
def firstCmd (ctrl : List Char) (pay : List Char) : Option Raw :=
  match ctrl.reverse with
  | f :: '=' :: 'm' :: ',' :: rc =>
    if f = '0' ∨ f = '1' then
      (parseKCtl rc.reverse).map fun (c, r, z) =>
        .first c r z (String.ofList rc.reverse) (f == '1') (pay.map Char.toNat)
    else none
  | _ => none

/-- which command a complete `ESC _ G ctrl ; payload ESC \` is -/
def classify (ctrl pay : List Char) : Option Raw :=
  match ctrl with
  | 'a' :: '=' :: 'd' :: ',' :: rest => if pay.isEmpty then (delCmd rest).map .tok else none
  | 'a' :: '=' :: 'T' :: ',' :: _ => firstCmd ctrl pay
  | ['m', '=', '0'] => some (.cont false (pay.map Char.toNat))
  | ['m', '=', '1'] => some (.cont true (pay.map Char.toNat))
  | ['q', '=', '1', ',', 'm', '=', '0'] => if pay.isEmpty then some (.tok .kittyEndChunked) else none
  | _ => none

/-- after `ESC _ G` -/
def lexApc (r : List Char) : Option (Raw × List Char) :=
  match r.dropWhile isKCtl with
  | ';' :: r1 =>
    match r1.dropWhile isB64 with
    | '\x1b' :: '\\' :: r2 => (classify (r.takeWhile isKCtl) (r1.takeWhile isB64)).map (·, r2)
    | _ => none
  | _ => none

/-- after `ESC ]` -/
def lexOsc (r : List Char) : Option (Tok × List Char) :=
  match r with
  | '1' :: '3' :: '3' :: '7' :: ';' :: 'F' :: 'i' :: 'l' :: 'e' :: '=' :: r0 =>
    match r0.dropWhile isICtl with
    | ':' :: r1 =>
      match r1.dropWhile isB64 with
      | '\x1b' :: '\\' :: r2 =>
        let control := r0.takeWhile isICtl
        (parseICtl control).map fun (w, h, nm) =>
          (.iterm ⟨w, h, nm, String.ofList control, (r1.takeWhile isB64).map Char.toNat⟩, r2)
      | _ => none
    | _ => none
  | _ => none

/-- a character outside any escape sequence -/
def plain (c : Char) : Option Tok :=
  if c = '\n' then some .lf else if c = '\r' then some .cr else if c = '\x00' then some .nul
  else if c = ' ' then some (.glyph .blank) else if c = '▀' then some (.glyph .upper)
  else if c = '▄' then some (.glyph .lower)
  else if isOther c then some (.glyph (.ch c)) else none

/-- the first complete sequence of the input, and the rest -/
def lexOne : List Char → Option (Raw × List Char)
  | [] => none
  | c :: r =>
    if c = '\x1b' then
      match r with
      | '[' :: r => (lexCsi r).map fun (t, r) => (.tok t, r)
      | '_' :: 'G' :: r => lexApc r
      | ']' :: r => (lexOsc r).map fun (t, r) => (.tok t, r)
      | '\\' :: r => some (.tok .st, r)
      | _ => none
    else (plain c).map fun t => (.tok t, r)

/-- all sequences; `fuel` bounds their number (`lex` gives it the length of the input) -/
def rawLex : Nat → List Char → Option (List Raw)
  | 0, cs => if cs.isEmpty then some [] else none
  | n + 1, cs =>
    if cs.isEmpty then some []
    else match lexOne cs with
      | none => none
      | some (x, rest) => (rawLex n rest).map (x :: ·)

/-! ## grouping the commands of a chunked transmission -/

/-- `pending`: the transmission in progress (its chunks so far). Inside one, only continuation
    chunks are accepted; the `m=0` chunk closes it; the input may not end inside one. -/
def group : Option KittyCmd → List Raw → Option (List Tok)
  | none, [] => some []
  | some _, [] => none
  | none, .tok t :: rs => (group none rs).map (t :: ·)
  | none, .first c r z ctl m p :: rs =>
    if m then group (some ⟨c, r, z, ctl, [(true, p)]⟩) rs
    else (group none rs).map (Tok.kitty ⟨c, r, z, ctl, [(false, p)]⟩ :: ·)
  | none, .cont _ _ :: _ => none
  | some k, .cont m p :: rs =>
    if m then group (some { k with chunks := k.chunks ++ [(true, p)] }) rs
    else (group none rs).map (Tok.kitty { k with chunks := k.chunks ++ [(false, p)] } :: ·)
  | some _, _ :: _ => none

/-- THE LEXER -/
def lex (cs : List Char) : Option (List Tok) := (rawLex cs.length cs).bind (group none)

def lexString (s : String) : Option (List Tok) := lex s.toList

/-! ## well-formed tokens: the ones the lexer reads back (`LexProofs.lex_toksStr`) -/

/-- the `m` flags of a transmission: at least one command, `m=1` on all but the last, `m=0` on the last -/
def flagsOK {α} : List (Bool × α) → Bool
  | [] => false
  | [(m, _)] => !m
  | (m, _) :: rest => m && flagsOK rest

/-- a kitty transmit-and-display as the library prints it: the control data starts with `a=T,`, is made of
    letters, digits, `=`, `,`, `-`, and *says* what the fields say (`c=cols`, `r=rows`, `z=z` or no `z` key
    and `z = 0`, all printed by `toString`; `C=1`; distinct keys; no `m` key — that is `parseKCtl`);
    the chunk flags are `1…10`; the payload is base64 characters -/
def wfKitty (k : KittyCmd) : Bool :=
  (match k.control.toList with | 'a' :: '=' :: 'T' :: ',' :: _ => true | _ => false)
  && k.control.toList.all isKCtl
  && parseKCtl k.control.toList == some (k.cols, k.rows, k.z)
  && flagsOK k.chunks
  && k.chunks.all fun ch => ch.2.all b64Byte

/-- an iterm2 inline image as the library prints it: the control data is printable ASCII without `:` and
    *says* what the fields say (`width=cols`, `height=rows` printed by `toString`, `noMove` iff
    `doNotMoveCursor=1` — that is `parseICtl`); the payload is base64 characters -/
def wfITerm (i : ITermCmd) : Bool :=
  i.control.toList.all isICtl
  && parseICtl i.control.toList == some (i.cols, i.rows, i.noMove)
  && i.payload.all b64Byte

/-- numbers are printed by `toString` in `Tok.str`, so nothing to ask of cursor/erase parameters;
    colour components are below 256; a `Glyph.ch` is a printable character that is not the space, a
    half block or ESC (those have their own tokens) -/
def WfTok : Tok → Bool
  | .glyph (.ch c) => isOther c
  | .fg (r, g, b) => decide (r < 256) && decide (g < 256) && decide (b < 256)
  | .bg (r, g, b) => decide (r < 256) && decide (g < 256) && decide (b < 256)
  | .kitty k => wfKitty k
  | .iterm i => wfITerm i
  | _ => true

/-- no condition relates neighbours: every token's serialisation is self-delimiting -/
def WfToks (ts : List Tok) : Prop := ∀ t ∈ ts, WfTok t = true

instance (ts : List Tok) : Decidable (WfToks ts) := by unfold WfToks; infer_instance

end TIV.Lex
