import TIV.Common.Lex
import TIV.Common.ScanProofs
import TIV.Common.Block
import TIV.Common.Gfx
import TIV.C01.Model
import TIV.C03.Props
/-!
# LexProofs — the lexer reads back what the token printer wrote  (docs/lexer.md)

* `lex_toksStr (ts) (h : WfToks ts) : lex (toksStr ts).toList = some ts` — THE ROUND TRIP, for every
  constructor of `Tok`; `Tok.str` is unfolded down to the generated templates of `GenCtl.lean`, so a
  template that drifts in `term_image._ctlseqs` breaks this file at build time.
* `lex_sound : lex cs = some ts → (toksStr ts).toList = cs` and `lex_injective` — the converse: the lexer
  loses nothing the printer distinguishes.
* `lex_complete : lex cs = some ts → Scan.run .ground cs = .ground` — what the lexer accepts is complete for
  the trusted scanner of `Common/Scan.lean`.
* the render models produce well-formed tokens: `wf_blockLine`, `wf_blockRender`, `wf_kittyLine(s)`,
  `wf_kittyWhole`, `wf_itermLine(s)`, `wf_itermWhole`, `wf_joinLines`, `wf_kittyCmd`, `wf_itermCmd`; hence
  `lex_block_render`, `lex_kitty_render`, `lex_iterm_render`: the lexer reads back every render the C01
  theorems speak about.
-/
namespace TIV.Lex
open TIV

/-! ## lists -/

theorem takeWhile_app_cons {p : Char → Bool} (a : List Char) (c : Char) (rest : List Char)
    (ha : ∀ x ∈ a, p x = true) (hc : p c = false) : (a ++ c :: rest).takeWhile p = a := by
  rw [List.takeWhile_append_of_pos ha, List.takeWhile_cons_of_neg (by simp [hc])]; simp

theorem dropWhile_app_cons {p : Char → Bool} (a : List Char) (c : Char) (rest : List Char)
    (ha : ∀ x ∈ a, p x = true) (hc : p c = false) : (a ++ c :: rest).dropWhile p = c :: rest := by
  rw [List.dropWhile_append_of_pos ha, List.dropWhile_cons_of_neg (by simp [hc])]

/-! ## numbers -/

theorem digits_isDigit (n : Nat) : ∀ c ∈ Nat.toDigits 10 n, c.isDigit = true :=
  fun _ h => Nat.isDigit_of_mem_toDigits (by decide) (by decide) h

theorem natStr (n : Nat) : (toString n).toList = Nat.toDigits 10 n := by simp

theorem readNat_digits (n : Nat) (c : Char) (rest : List Char) (hc : c.isDigit = false) :
    readNat (Nat.toDigits 10 n ++ c :: rest) = some (n, c :: rest) := by
  unfold readNat
  simp only [takeWhile_app_cons _ c rest (digits_isDigit n) hc, dropWhile_app_cons _ c rest (digits_isDigit n) hc,
    Nat.ofDigitChars_ten_toDigits, if_true]

theorem readNatAll_digits (n : Nat) : readNatAll (Nat.toDigits 10 n) = some n := by
  simp [readNatAll, Nat.ofDigitChars_ten_toDigits]

theorem digits_head (n : Nat) : (Nat.toDigits 10 n).head? ≠ some '-' := by
  cases h : Nat.toDigits 10 n with
  | nil => simp
  | cons c cs =>
    have := digits_isDigit n c (by rw [h]; simp)
    simp only [List.head?_cons, ne_eq, Option.some.injEq]
    intro he; subst he; simp [Char.isDigit] at this

theorem intStr_ofNat (n : Nat) : (toString (Int.ofNat n)).toList = Nat.toDigits 10 n := by
  simp [toString, Int.repr]

theorem intStr_negSucc (n : Nat) : (toString (Int.negSucc n)).toList = '-' :: Nat.toDigits 10 (n + 1) := by
  simp [toString, Int.repr]

theorem readIntAll_toString (z : Int) : readIntAll (toString z).toList = some z := by
  cases z with
  | ofNat n =>
    rw [intStr_ofNat]
    unfold readIntAll
    simp only [digits_head n, if_false, Nat.ofDigitChars_ten_toDigits]
    rw [show ((n : Nat) : Int) = Int.ofNat n from rfl, intStr_ofNat]; simp
  | negSucc n =>
    rw [intStr_negSucc]
    unfold readIntAll
    simp only [List.head?_cons, if_true, List.tail_cons, Nat.ofDigitChars_ten_toDigits]
    rw [show -((n + 1 : Nat) : Int) = Int.negSucc n from rfl, intStr_negSucc]; simp

/-! ## literal pieces of the generated templates -/
theorem l_csi : "\x1b[".toList = ['\x1b', '['] := by decide
theorem l_A : "A".toList = ['A'] := by decide
theorem l_B : "B".toList = ['B'] := by decide
theorem l_C : "C".toList = ['C'] := by decide
theorem l_D : "D".toList = ['D'] := by decide
theorem l_X : "X".toList = ['X'] := by decide
theorem l_m : "m".toList = ['m'] := by decide
theorem l_semi : ";".toList = [';'] := by decide
theorem l_fg : "\x1b[38;2;".toList = ['\x1b', '[', '3', '8', ';', '2', ';'] := by decide
theorem l_bg : "\x1b[48;2;".toList = ['\x1b', '[', '4', '8', ';', '2', ';'] := by decide

/-! ## one token -/

theorem lexCsi_num (n : Nat) (f : Char) (rest : List Char) (hf : f.isDigit = false) :
    lexCsi (Nat.toDigits 10 n ++ f :: rest) =
      (if f = 'A' then some (.cuu n, rest) else if f = 'B' then some (.cud n, rest)
       else if f = 'C' then some (.cuf n, rest) else if f = 'D' then some (.cub n, rest)
       else if f = 'X' then some (.ech n, rest)
       else if f = ';' then
         if n = 38 then (rgb rest).map fun (c, r) => (.fg c, r)
         else if n = 48 then (rgb rest).map fun (c, r) => (.bg c, r)
         else none
       else none) := by
  unfold lexCsi
  rw [readNat_digits n f rest hf]

theorem rgb_digits (r g b : Nat) (rest : List Char) (h : r < 256 ∧ g < 256 ∧ b < 256) :
    rgb ('2' :: ';' :: (Nat.toDigits 10 r ++ ';' :: (Nat.toDigits 10 g ++ ';' :: (Nat.toDigits 10 b ++ 'm' :: rest)))) =
      some ((r, g, b), rest) := by
  unfold rgb
  simp only [readNat_digits r ';' _ (by decide), readNat_digits g ';' _ (by decide),
    readNat_digits b 'm' _ (by decide), h, and_self, if_true]

theorem ofNat_toNat_b64 (b : Nat) (h : b64Byte b = true) : (Char.ofNat b).toNat = b := by
  have hb : b < 128 := by simp [b64Byte] at h; omega
  unfold Char.ofNat
  have : b.isValidChar := Or.inl (by omega)
  simp [this, Char.ofNatAux, Char.toNat]

theorem b64_chars (c : List Nat) (h : c.all b64Byte = true) : ∀ x ∈ c.map Char.ofNat, isB64 x = true := by
  intro x hx
  simp only [List.mem_map] at hx
  obtain ⟨b, hb, rfl⟩ := hx
  have hb' := List.all_eq_true.mp h b hb
  simp [isB64, ofNat_toNat_b64 b hb', hb']

theorem b64_back (c : List Nat) (h : c.all b64Byte = true) : (c.map Char.ofNat).map Char.toNat = c := by
  induction c with
  | nil => rfl
  | cons b bs ih =>
    simp only [List.all_cons, Bool.and_eq_true] at h
    simp [ofNat_toNat_b64 b h.1, ih h.2]

/-- `ESC _ G ctrl ; payload ESC \` is read as one command with that control data and payload -/
theorem lexApc_cmd (ctrl : List Char) (pay : List Nat) (rest : List Char)
    (hc : ∀ x ∈ ctrl, isKCtl x = true) (hp : pay.all b64Byte = true) :
    lexApc (ctrl ++ ';' :: (pay.map Char.ofNat ++ '\x1b' :: '\\' :: rest)) =
      (classify ctrl (pay.map Char.ofNat)).map (·, rest) := by
  unfold lexApc
  rw [dropWhile_app_cons ctrl ';' _ hc (by decide), takeWhile_app_cons ctrl ';' _ hc (by decide)]
  simp only
  rw [dropWhile_app_cons _ '\x1b' _ (b64_chars pay hp) (by decide),
    takeWhile_app_cons _ '\x1b' _ (b64_chars pay hp) (by decide)]
  simp

theorem l_apc : "\x1b_G".toList = ['\x1b', '_', 'G'] := by decide
theorem l_st : "\x1b\\".toList = ['\x1b', '\\'] := by decide

/-- the characters of one APC command printed with the generated template -/
theorem kitty_cmd_chars (ctrl : String) (pay : List Nat) :
    (fill GenCtl.KITTY_TRANSMISSION [ctrl, asciiStr pay]).toList =
      '\x1b' :: '_' :: 'G' :: (ctrl.toList ++ ';' :: (pay.map Char.ofNat ++ ['\x1b', '\\'])) := by
  simp [fill, GenCtl.KITTY_TRANSMISSION, l_apc, l_st, l_semi, asciiStr]

theorem lexOne_cmd (ctrl : String) (pay : List Nat) (rest : List Char)
    (hc : ∀ x ∈ ctrl.toList, isKCtl x = true) (hp : pay.all b64Byte = true) :
    lexOne ((fill GenCtl.KITTY_TRANSMISSION [ctrl, asciiStr pay]).toList ++ rest) =
      (classify ctrl.toList (pay.map Char.ofNat)).map (·, rest) := by
  rw [kitty_cmd_chars]
  have := lexApc_cmd ctrl.toList pay rest hc hp
  simp only [List.cons_append, List.append_assoc, List.nil_append] at this ⊢
  simp only [lexOne, if_true, this]

theorem lexOne_cont (m : Bool) (pay : List Nat) (rest : List Char) (hp : pay.all b64Byte = true) :
    lexOne ((fill GenCtl.KITTY_TRANSMISSION [if m then "m=1" else "m=0", asciiStr pay]).toList ++ rest) =
      some (.cont m pay, rest) := by
  rw [lexOne_cmd _ pay rest (by cases m <;> decide) hp]
  cases m <;> simp [classify, b64_back pay hp, show "m=0".toList = ['m', '=', '0'] from by decide,
    show "m=1".toList = ['m', '=', '1'] from by decide]

theorem l_cm : ",m=".toList = [',', 'm', '='] := by decide
theorem l_0 : "0".toList = ['0'] := by decide
theorem l_1 : "1".toList = ['1'] := by decide

theorem lexOne_first (cols rows : Nat) (z : Int) (control : String) (m : Bool) (pay : List Nat) (rest : List Char)
    (hpre : (match control.toList with | 'a' :: '=' :: 'T' :: ',' :: _ => true | _ => false) = true)
    (hc : control.toList.all isKCtl = true)
    (hparse : parseKCtl control.toList = some (cols, rows, z))
    (hp : pay.all b64Byte = true) :
    lexOne ((fill GenCtl.KITTY_TRANSMISSION [control ++ ",m=" ++ (if m then "1" else "0"), asciiStr pay]).toList ++ rest) =
      some (.first cols rows z control m pay, rest) := by
  have hcl : ∀ x ∈ control.toList, isKCtl x = true := List.all_eq_true.mp hc
  rw [lexOne_cmd _ pay rest ?_ hp]
  · obtain ⟨tail, htail⟩ : ∃ tail, control.toList = 'a' :: '=' :: 'T' :: ',' :: tail := by
      revert hpre; split <;> simp_all
    have hrev : ((control ++ ",m=" ++ (if m then "1" else "0")).toList).reverse =
        (if m then '1' else '0') :: '=' :: 'm' :: ',' :: control.toList.reverse := by
      cases m <;> simp [l_cm, l_0, l_1]
    have hcl' : (control ++ ",m=" ++ (if m then "1" else "0")).toList =
        'a' :: '=' :: 'T' :: ',' :: (tail ++ ",m=".toList ++ (if m then "1" else "0").toList) := by
      simp [htail]
    have hcls : classify (control ++ ",m=" ++ (if m then "1" else "0")).toList (pay.map Char.ofNat) =
        firstCmd (control ++ ",m=" ++ (if m then "1" else "0")).toList (pay.map Char.ofNat) := by
      rw [hcl']; simp [classify]
    rw [hcls]
    unfold firstCmd
    rw [hrev]
    cases m <;> simp [hparse, b64_back pay hp]
  · intro x hx
    simp only [String.toList_append, List.mem_append] at hx
    rcases hx with (h | h) | h
    · exact hcl x h
    · revert x; decide
    · cases m <;> (revert x; decide)

theorem readNat_nondigit (c : Char) (rest : List Char) (hc : c.isDigit = false) : readNat (c :: rest) = none := by
  simp [readNat, List.takeWhile_cons_of_neg, hc]

theorem digit_kctl (n : Nat) : ∀ c ∈ Nat.toDigits 10 n, isKCtl c = true := by
  intro c hc
  have := digits_isDigit n c hc
  simp [isKCtl, Char.isAlphanum, this]

theorem intStr_kctl (z : Int) : ∀ c ∈ (toString z).toList, isKCtl c = true := by
  intro c hc
  cases z with
  | ofNat n => rw [intStr_ofNat] at hc; exact digit_kctl n c hc
  | negSucc n =>
    rw [intStr_negSucc] at hc
    simp only [List.mem_cons] at hc
    rcases hc with rfl | hc
    · decide
    · exact digit_kctl _ c hc

theorem lexOne_iterm (i : ITermCmd) (h : wfITerm i = true) (rest : List Char) :
    lexOne (i.str.toList ++ rest) = some (.tok (.iterm i), rest) := by
  simp only [wfITerm, Bool.and_eq_true, beq_iff_eq] at h
  obtain ⟨⟨hc, hparse⟩, hp⟩ := h
  have hcl : ∀ x ∈ i.control.toList, isICtl x = true := List.all_eq_true.mp hc
  have a1 : "\x1b]1337;File=".toList = ['\x1b', ']', '1', '3', '3', '7', ';', 'F', 'i', 'l', 'e', '='] := by decide
  have a3 : ":".toList = [':'] := by decide
  have e : i.str.toList ++ rest = '\x1b' :: ']' :: '1' :: '3' :: '3' :: '7' :: ';' :: 'F' :: 'i' :: 'l' :: 'e' :: '=' ::
      (i.control.toList ++ ':' :: (i.payload.map Char.ofNat ++ '\x1b' :: '\\' :: rest)) := by
    simp [ITermCmd.str, fill, GenCtl.ITERM2_START, GenCtl.ST, a1, l_st, a3, asciiStr]
  rw [e]
  simp only [lexOne, if_true, lexOsc]
  rw [dropWhile_app_cons _ ':' _ hcl (by decide), takeWhile_app_cons _ ':' _ hcl (by decide)]
  simp only
  rw [dropWhile_app_cons _ '\x1b' _ (b64_chars _ hp) (by decide),
    takeWhile_app_cons _ '\x1b' _ (b64_chars _ hp) (by decide)]
  simp [hparse, b64_back _ hp]

theorem lexOne_delZ (z : Int) (rest : List Char) :
    lexOne ((Tok.kittyDelZ z).str.toList ++ rest) = some (.tok (.kittyDelZ z), rest) := by
  have a1 : "\x1b_Ga=d,d=Z,z=".toList = '\x1b' :: '_' :: 'G' :: "a=d,d=Z,z=".toList := by decide
  have a2 : ";\x1b\\".toList = [';', '\x1b', '\\'] := by decide
  have e : (Tok.kittyDelZ z).str.toList ++ rest = '\x1b' :: '_' :: 'G' ::
      (("a=d,d=Z,z=".toList ++ (toString z).toList) ++ ';' :: (([] : List Nat).map Char.ofNat ++ '\x1b' :: '\\' :: rest)) := by
    simp [Tok.str, fill, GenCtl.KITTY_DELETE_Z_INDEX, a1, a2]
  rw [e]
  simp only [lexOne, if_true]
  rw [lexApc_cmd _ [] rest ?_ (by rfl)]
  · have a4 : "a=d,d=Z,z=".toList = ['a', '=', 'd', ',', 'd', '=', 'Z', ',', 'z', '='] := by decide
    have := readIntAll_toString z
    simp only [toString] at this
    simp [a4, classify, delCmd, this]
  · intro x hx
    simp only [List.mem_append] at hx
    rcases hx with h | h
    · revert x; decide
    · exact intStr_kctl z x h

/-- every token but a kitty transmission is one item of the stream, and the lexer reads it back -/
theorem lexOne_tok (t : Tok) (hw : WfTok t = true) (hk : ∀ k, t ≠ .kitty k) (rest : List Char) :
    lexOne (t.str.toList ++ rest) = some (.tok t, rest) := by
  cases t with
  | glyph g =>
    cases g with
    | blank => simp [Tok.str, Glyph.str, lexOne, plain]
    | upper => simp [Tok.str, Glyph.str, GenCtl.UPPER_PIXEL, lexOne, plain]
    | lower => simp [Tok.str, Glyph.str, GenCtl.LOWER_PIXEL, lexOne, plain]
    | ch c =>
      have h : isOther c = true := hw
      have h' := h
      simp only [isOther, Scan.isPrint, Bool.and_eq_true, bne_iff_ne, ne_eq, decide_eq_true_eq] at h'
      obtain ⟨⟨⟨⟨⟨h1, h2⟩, h3⟩, h4⟩, h5⟩, h6⟩ := h'
      have n1 : c ≠ '\n' := by intro he; subst he; simp at h1
      have n2 : c ≠ '\r' := by intro he; subst he; simp at h1
      have n3 : c ≠ '\x00' := by intro he; subst he; simp at h1
      simp [Tok.str, Glyph.str, lexOne, plain, h3, h4, h5, h6, n1, n2, n3, h]
  | nul => simp [Tok.str, lexOne, plain]
  | sgr0 =>
    have e : (Tok.sgr0).str.toList = ['\x1b', '[', 'm'] := by decide
    simp [e, lexOne, lexCsi, readNat_nondigit]
  | fg c =>
    obtain ⟨r, g, b⟩ := c
    have hb : r < 256 ∧ g < 256 ∧ b < 256 := by simpa [WfTok, and_assoc] using hw
    have e : (Tok.fg (r, g, b)).str.toList ++ rest = '\x1b' :: '[' :: (Nat.toDigits 10 38 ++ ';' ::
        ('2' :: ';' :: (Nat.toDigits 10 r ++ ';' :: (Nat.toDigits 10 g ++ ';' :: (Nat.toDigits 10 b ++ 'm' :: rest))))) := by
      have : Nat.toDigits 10 38 = ['3', '8'] := by decide
      simp [Tok.str, fill, GenCtl.SGR_FG_DIRECT, l_fg, l_semi, l_m, this]
    rw [e]
    simp only [lexOne, if_true]
    rw [lexCsi_num 38 ';' _ (by decide), rgb_digits r g b rest hb]
    simp
  | bg c =>
    obtain ⟨r, g, b⟩ := c
    have hb : r < 256 ∧ g < 256 ∧ b < 256 := by simpa [WfTok, and_assoc] using hw
    have e : (Tok.bg (r, g, b)).str.toList ++ rest = '\x1b' :: '[' :: (Nat.toDigits 10 48 ++ ';' ::
        ('2' :: ';' :: (Nat.toDigits 10 r ++ ';' :: (Nat.toDigits 10 g ++ ';' :: (Nat.toDigits 10 b ++ 'm' :: rest))))) := by
      have : Nat.toDigits 10 48 = ['4', '8'] := by decide
      simp [Tok.str, fill, GenCtl.SGR_BG_DIRECT, l_bg, l_semi, l_m, this]
    rw [e]
    simp only [lexOne, if_true]
    rw [lexCsi_num 48 ';' _ (by decide), rgb_digits r g b rest hb]
    simp
  | cuu n =>
    have := lexCsi_num n 'A' rest (by decide)
    simp [Tok.str, fill, GenCtl.CURSOR_UP, l_csi, l_A, lexOne, this]
  | cud n =>
    have := lexCsi_num n 'B' rest (by decide)
    simp [Tok.str, fill, GenCtl.CURSOR_DOWN, l_csi, l_B, lexOne, this]
  | cuf n =>
    have := lexCsi_num n 'C' rest (by decide)
    simp [Tok.str, fill, GenCtl.CURSOR_FORWARD, l_csi, l_C, lexOne, this]
  | cub n =>
    have := lexCsi_num n 'D' rest (by decide)
    simp [Tok.str, fill, GenCtl.CURSOR_BACKWARD, l_csi, l_D, lexOne, this]
  | ech n =>
    have := lexCsi_num n 'X' rest (by decide)
    simp [Tok.str, fill, GenCtl.ERASE_CHARS, l_csi, l_X, lexOne, this]
  | lf => simp [Tok.str, lexOne, plain]
  | cr => simp [Tok.str, lexOne, plain]
  | hideCur =>
    have e : (Tok.hideCur).str.toList = ['\x1b', '[', '?', '2', '5', 'l'] := by decide
    simp [e, lexOne, lexCsi, readNat_nondigit]
  | showCur =>
    have e : (Tok.showCur).str.toList = ['\x1b', '[', '?', '2', '5', 'h'] := by decide
    simp [e, lexOne, lexCsi, readNat_nondigit]
  | syncBegin =>
    have e : (Tok.syncBegin).str.toList = ['\x1b', '[', '?', '2', '0', '2', '6', 'h'] := by decide
    simp [e, lexOne, lexCsi, readNat_nondigit]
  | syncEnd =>
    have e : (Tok.syncEnd).str.toList = ['\x1b', '[', '?', '2', '0', '2', '6', 'l'] := by decide
    simp [e, lexOne, lexCsi, readNat_nondigit]
  | kitty k => exact absurd rfl (hk k)
  | kittyDelCursor =>
    have e : (Tok.kittyDelCursor).str.toList = (fill GenCtl.KITTY_TRANSMISSION ["a=d,d=C", asciiStr []]).toList := by decide
    rw [e, lexOne_cmd _ [] rest (by decide) (by rfl)]
    have : "a=d,d=C".toList = ['a', '=', 'd', ',', 'd', '=', 'C'] := by decide
    simp [this, classify, delCmd]
  | kittyDelAll =>
    have e : (Tok.kittyDelAll).str.toList = (fill GenCtl.KITTY_TRANSMISSION ["a=d,d=A", asciiStr []]).toList := by decide
    rw [e, lexOne_cmd _ [] rest (by decide) (by rfl)]
    have : "a=d,d=A".toList = ['a', '=', 'd', ',', 'd', '=', 'A'] := by decide
    simp [this, classify, delCmd]
  | kittyDelZ z => exact lexOne_delZ z rest
  | kittyEndChunked =>
    have e : (Tok.kittyEndChunked).str.toList = (fill GenCtl.KITTY_TRANSMISSION ["q=1,m=0", asciiStr []]).toList := by decide
    rw [e, lexOne_cmd _ [] rest (by decide) (by rfl)]
    have : "q=1,m=0".toList = ['q', '=', '1', ',', 'm', '=', '0'] := by decide
    simp [this, classify]
  | iterm i => exact lexOne_iterm i hw rest
  | st =>
    have e : (Tok.st).str.toList = ['\x1b', '\\'] := by decide
    simp [e, lexOne]

/-! ## the stream of items -/

/-- the items a token is printed as: one, except a kitty transmission (one per APC command) -/
def rawOf : Tok → List Raw
  | .kitty k =>
    match k.chunks with
    | [] => []
    | (m, c) :: rest => .first k.cols k.rows k.z k.control m c :: rest.map fun mc => .cont mc.1 mc.2
  | t => [.tok t]

theorem rawLex_step {cs : List Char} {x : Raw} {rest : List Char} (h : lexOne cs = some (x, rest)) (n : Nat) :
    rawLex (n + 1) cs = (rawLex n rest).map (x :: ·) := by
  cases cs with
  | nil => simp [lexOne] at h
  | cons c cs => simp [rawLex, h]

theorem rawLex_nil (n : Nat) : rawLex n [] = some [] := by cases n <;> simp [rawLex]

theorem contStr_toList (l : List (Bool × List Nat)) :
    (String.join (l.map fun (m, c) => fill GenCtl.KITTY_TRANSMISSION [if m then "m=1" else "m=0", asciiStr c])).toList =
      l.flatMap fun mc => (fill GenCtl.KITTY_TRANSMISSION [if mc.1 then "m=1" else "m=0", asciiStr mc.2]).toList := by
  simp [String.toList_join, List.flatMap_map]

theorem rawLex_conts (l : List (Bool × List Nat)) (hp : l.all (fun ch => ch.2.all b64Byte) = true) (n : Nat) (rest : List Char) :
    rawLex (n + l.length)
      ((l.flatMap fun mc => (fill GenCtl.KITTY_TRANSMISSION [if mc.1 then "m=1" else "m=0", asciiStr mc.2]).toList) ++ rest) =
      (rawLex n rest).map ((l.map fun mc => Raw.cont mc.1 mc.2) ++ ·) := by
  induction l with
  | nil => simp
  | cons mc l ih =>
    obtain ⟨m, c⟩ := mc
    simp only [List.all_cons, Bool.and_eq_true] at hp
    simp only [List.flatMap_cons, List.append_assoc, List.length_cons, List.map_cons]
    rw [show n + (l.length + 1) = (n + l.length) + 1 from by omega,
      rawLex_step (lexOne_cont m c _ hp.1), ih hp.2]
    cases rawLex n rest <;> simp

theorem rawLex_tok (t : Tok) (hw : WfTok t = true) (n : Nat) (rest : List Char) :
    rawLex (n + (rawOf t).length) (t.str.toList ++ rest) = (rawLex n rest).map (rawOf t ++ ·) := by
  by_cases hk : ∃ k, t = .kitty k
  · obtain ⟨k, rfl⟩ := hk
    have h : wfKitty k = true := hw
    simp only [wfKitty, Bool.and_eq_true, beq_iff_eq] at h
    obtain ⟨⟨⟨⟨hpre, hc⟩, hparse⟩, hflags⟩, hp⟩ := h
    simp only [Tok.str, KittyCmd.str, rawOf]
    cases hch : k.chunks with
    | nil => rw [hch] at hflags; simp [flagsOK] at hflags
    | cons mc l =>
      obtain ⟨m, c⟩ := mc
      rw [hch] at hp
      simp only [List.all_cons, Bool.and_eq_true] at hp
      simp only [String.toList_append, contStr_toList, List.append_assoc, List.length_cons, List.length_map]
      rw [show n + (l.length + 1) = (n + l.length) + 1 from by omega,
        rawLex_step (lexOne_first k.cols k.rows k.z k.control m c _ hpre hc hparse hp.1), rawLex_conts l hp.2]
      cases rawLex n rest <;> simp
  · have hk' : ∀ k, t ≠ .kitty k := fun k h => hk ⟨k, h⟩
    have e : rawOf t = [.tok t] := by cases t <;> first | rfl | exact absurd rfl (hk' _)
    rw [e]
    simp only [List.length_singleton]
    rw [rawLex_step (lexOne_tok t hw hk' rest)]
    cases rawLex n rest <;> simp

theorem toksStr_cons (t : Tok) (ts : List Tok) : (toksStr (t :: ts)).toList = t.str.toList ++ (toksStr ts).toList := by
  simp [toksStr, String.toList_join]

theorem rawLex_toks (ts : List Tok) (hw : WfToks ts) (n : Nat) :
    rawLex (n + (ts.flatMap rawOf).length) (toksStr ts).toList = some (ts.flatMap rawOf) := by
  induction ts generalizing n with
  | nil => simp [toksStr, rawLex_nil]
  | cons t ts ih =>
    rw [toksStr_cons, List.flatMap_cons, List.length_append,
      show n + ((rawOf t).length + (ts.flatMap rawOf).length) = (n + (ts.flatMap rawOf).length) + (rawOf t).length from by omega,
      rawLex_tok t (hw t (by simp)), ih (fun u hu => hw u (by simp [hu]))]
    simp

/-! ## grouping -/

theorem group_conts (cs : List (Bool × List Nat)) (hf : flagsOK cs = true) (k0 : KittyCmd) (rest : List Raw) :
    group (some k0) ((cs.map fun mc => Raw.cont mc.1 mc.2) ++ rest) =
      (group none rest).map (Tok.kitty { k0 with chunks := k0.chunks ++ cs } :: ·) := by
  induction cs generalizing k0 with
  | nil => simp [flagsOK] at hf
  | cons mc cs ih =>
    obtain ⟨m, c⟩ := mc
    cases cs with
    | nil =>
      simp only [flagsOK, Bool.not_eq_true'] at hf
      subst hf
      simp [group]
    | cons mc2 cs2 =>
      simp only [flagsOK, Bool.and_eq_true] at hf
      obtain ⟨rfl, hf2⟩ := hf
      have := ih hf2 { k0 with chunks := k0.chunks ++ [(true, c)] }
      simp only [List.map_cons, List.cons_append, group, if_true] at this ⊢
      rw [this]
      simp [List.append_assoc]

theorem group_tok (t : Tok) (hw : WfTok t = true) (rest : List Raw) :
    group none (rawOf t ++ rest) = (group none rest).map (t :: ·) := by
  by_cases hk : ∃ k, t = .kitty k
  · obtain ⟨k, rfl⟩ := hk
    have h : wfKitty k = true := hw
    simp only [wfKitty, Bool.and_eq_true, beq_iff_eq] at h
    obtain ⟨⟨⟨⟨hpre, hc⟩, hparse⟩, hflags⟩, hp⟩ := h
    obtain ⟨cols, rows, z, control, chunks⟩ := k
    simp only [rawOf]
    simp only at hflags
    cases chunks with
    | nil => simp [flagsOK] at hflags
    | cons mc l =>
      obtain ⟨m, c⟩ := mc
      cases l with
      | nil =>
        simp only [flagsOK, Bool.not_eq_true'] at hflags
        subst hflags
        simp [group]
      | cons mc2 l2 =>
        simp only [flagsOK, Bool.and_eq_true] at hflags
        obtain ⟨rfl, hf2⟩ := hflags
        have := group_conts (mc2 :: l2) hf2 ⟨cols, rows, z, control, [(true, c)]⟩ rest
        simp only [List.cons_append, group, if_true]
        rw [this]
        simp
  · have hk' : ∀ k, t ≠ .kitty k := fun k h => hk ⟨k, h⟩
    have e : rawOf t = [.tok t] := by cases t <;> first | rfl | exact absurd rfl (hk' _)
    rw [e]; simp [group]

theorem group_toks (ts : List Tok) (hw : WfToks ts) : group none (ts.flatMap rawOf) = some ts := by
  induction ts with
  | nil => simp [group]
  | cons t ts ih =>
    rw [List.flatMap_cons, group_tok t (hw t (by simp)), ih (fun u hu => hw u (by simp [hu]))]
    simp

/-! ## enough fuel: every item is at least one character -/

theorem length_le_flatMap {α β} (f : α → List β) (l : List α) (h : ∀ a ∈ l, f a ≠ []) :
    l.length ≤ (l.flatMap f).length := by
  induction l with
  | nil => simp
  | cons a l ih =>
    have ha : 0 < (f a).length := List.length_pos_iff.mpr (h a (by simp))
    have := ih (fun b hb => h b (by simp [hb]))
    simp only [List.flatMap_cons, List.length_cons, List.length_append]
    omega

theorem rawOf_length_le (t : Tok) (hw : WfTok t = true) : (rawOf t).length ≤ t.str.toList.length := by
  by_cases hk : ∃ k, t = .kitty k
  · obtain ⟨k, rfl⟩ := hk
    simp only [Tok.str, KittyCmd.str, rawOf]
    cases k.chunks with
    | nil => simp
    | cons mc l =>
      obtain ⟨m, c⟩ := mc
      simp only [String.toList_append, contStr_toList, List.length_cons, List.length_map, List.length_append]
      have h1 : 0 < (fill GenCtl.KITTY_TRANSMISSION [k.control ++ ",m=" ++ (if m then "1" else "0"), asciiStr c]).toList.length := by
        rw [kitty_cmd_chars]; simp
      have h2 := length_le_flatMap
        (fun mc : Bool × List Nat => (fill GenCtl.KITTY_TRANSMISSION [if mc.1 then "m=1" else "m=0", asciiStr mc.2]).toList) l
        (by intro a _; rw [kitty_cmd_chars]; simp)
      omega
  · have hk' : ∀ k, t ≠ .kitty k := fun k h => hk ⟨k, h⟩
    have e : rawOf t = [.tok t] := by cases t <;> first | rfl | exact absurd rfl (hk' _)
    rw [e]
    have := lexOne_tok t hw hk' []
    cases hs : t.str.toList with
    | nil => rw [hs] at this; simp [lexOne] at this
    | cons c cs => simp

theorem raws_length_le (ts : List Tok) (hw : WfToks ts) : (ts.flatMap rawOf).length ≤ (toksStr ts).toList.length := by
  induction ts with
  | nil => simp
  | cons t ts ih =>
    have h1 := rawOf_length_le t (hw t (by simp))
    have h2 := ih (fun u hu => hw u (by simp [hu]))
    rw [toksStr_cons]
    simp only [List.flatMap_cons, List.length_append]
    omega

/-! ## THE ROUND TRIP -/

/-- THE LEXER READS BACK WHAT THE PRINTER WROTE: for every well-formed token list, lexing the exact
    string `toksStr` builds from the *generated* control-sequence templates gives the tokens back —
    nothing lost, nothing merged, nothing split differently (a chunked kitty transmission comes back
    as the one `Tok.kitty` it was). -/
theorem lex_toksStr (ts : List Tok) (h : WfToks ts) : lex (toksStr ts).toList = some ts := by
  unfold lex
  obtain ⟨n, hn⟩ := Nat.exists_eq_add_of_le (raws_length_le ts h)
  rw [hn, Nat.add_comm, rawLex_toks ts h n]
  simpa using group_toks ts h

/-- a kitty transmission in three chunks, with compression flag and negative z-index -/
def exKitty : KittyCmd :=
  ⟨3, 1, -2, "a=T,f=32,t=d,s=24,v=16,z=-2,o=z,C=1,c=3,r=1",
    [(true, [65, 66, 67, 68]), (true, [69, 70, 71, 72]), (false, [73, 65, 61, 61])]⟩
def exITerm : ITermCmd :=
  ⟨4, 2, true, "size=3;width=4;height=2;preserveAspectRatio=0;inline=1;doNotMoveCursor=1", [65, 66, 67, 61]⟩
/-- a block line, a kitty line and an iterm2 line, with cursor moves, a delete and a bare ST -/
def exToks : List Tok :=
  [.bg (1, 2, 3), .fg (255, 0, 10), .glyph .upper, .nul, .glyph .blank, .sgr0, .lf,
   .kittyDelCursor, .kitty exKitty, .ech 3, .cuf 3, .lf,
   .cuu 1, .iterm exITerm, .glyph (.ch 'x'), .kittyDelZ (-7), .hideCur, .syncBegin, .st]

/-- non-vacuity: the hypothesis holds for a concrete multi-token output with all three renderers' tokens … -/
example : WfToks exToks := by decide
/-- … so the theorem applies to it -/
example : lex (toksStr exToks).toList = some exToks := lex_toksStr exToks (by decide)
/-- and `WfToks` is not trivially true: a colour component of 256, a `Glyph.ch ' '` (printed like `blank`),
    a transmission whose last chunk says `m=1`, a control string that disagrees with the fields -/
example : ¬ WfToks [.fg (256, 0, 0)] := by decide
example : ¬ WfToks [.glyph (.ch ' ')] := by decide
example : ¬ WfToks [.kitty { exKitty with chunks := [(true, [65])] }] := by decide
example : ¬ WfToks [.kitty { exKitty with cols := 4 }] := by decide

/-! ## soundness: what the lexer returns prints back to exactly the bytes it read -/

theorem readNat_sound {cs : List Char} {n : Nat} {rest : List Char} (h : readNat cs = some (n, rest)) :
    cs = Nat.toDigits 10 n ++ rest := by
  unfold readNat at h
  simp only at h
  split at h
  · rename_i hd
    simp only [Option.some.injEq, Prod.mk.injEq] at h
    obtain ⟨rfl, rfl⟩ := h
    rw [hd]; exact (List.takeWhile_append_dropWhile (p := Char.isDigit) (l := cs)).symm
  · exact absurd h (by simp)

theorem readNatAll_sound {ds : List Char} {n : Nat} (h : readNatAll ds = some n) : ds = Nat.toDigits 10 n := by
  unfold readNatAll at h
  simp only at h
  split at h
  · rename_i hd
    simp only [Option.some.injEq] at h
    subst h; exact hd.symm
  · exact absurd h (by simp)

theorem readIntAll_sound {zs : List Char} {z : Int} (h : readIntAll zs = some z) : zs = (toString z).toList := by
  unfold readIntAll at h
  by_cases hh : zs.head? = some '-'
  · simp only [hh, if_true] at h
    split at h
    · rename_i hd
      simp only [Option.some.injEq] at h
      subst h; exact hd.symm
    · exact absurd h (by simp)
  · simp only [hh, if_false] at h
    split at h
    · rename_i hd
      simp only [Option.some.injEq] at h
      subst h; exact hd.symm
    · exact absurd h (by simp)

theorem rgb_sound {r1 : List Char} {c : RGB} {rest : List Char} (h : rgb r1 = some (c, rest)) :
    r1 = '2' :: ';' :: (Nat.toDigits 10 c.1 ++ ';' :: (Nat.toDigits 10 c.2.1 ++ ';' :: (Nat.toDigits 10 c.2.2 ++ 'm' :: rest))) ∧
      c.1 < 256 ∧ c.2.1 < 256 ∧ c.2.2 < 256 := by
  unfold rgb at h
  split at h
  · split at h
    · rename_i hr
      split at h
      · rename_i hg
        split at h
        · rename_i hb
          split at h
          · rename_i hlt
            simp only [Option.some.injEq, Prod.mk.injEq] at h
            obtain ⟨rfl, rfl⟩ := h
            rw [readNat_sound hr, readNat_sound hg, readNat_sound hb]
            exact ⟨rfl, hlt⟩
          · exact absurd h (by simp)
        · exact absurd h (by simp)
      · exact absurd h (by simp)
    · exact absurd h (by simp)
  · exact absurd h (by simp)

theorem lexCsi_sound {r : List Char} {t : Tok} {rest : List Char} (h : lexCsi r = some (t, rest)) :
    '\x1b' :: '[' :: r = t.str.toList ++ rest ∧ Scan.WfTok t := by
  unfold lexCsi at h
  split at h
  · rename_i n f r1 hn
    have hr := readNat_sound hn
    subst hr
    split at h
    · simp only [Option.some.injEq, Prod.mk.injEq] at h; obtain ⟨rfl, rfl⟩ := h; subst_vars
      exact ⟨by simp [Tok.str, fill, GenCtl.CURSOR_UP, l_csi, l_A], trivial⟩
    · split at h
      · simp only [Option.some.injEq, Prod.mk.injEq] at h; obtain ⟨rfl, rfl⟩ := h; subst_vars
        exact ⟨by simp [Tok.str, fill, GenCtl.CURSOR_DOWN, l_csi, l_B], trivial⟩
      · split at h
        · simp only [Option.some.injEq, Prod.mk.injEq] at h; obtain ⟨rfl, rfl⟩ := h; subst_vars
          exact ⟨by simp [Tok.str, fill, GenCtl.CURSOR_FORWARD, l_csi, l_C], trivial⟩
        · split at h
          · simp only [Option.some.injEq, Prod.mk.injEq] at h; obtain ⟨rfl, rfl⟩ := h; subst_vars
            exact ⟨by simp [Tok.str, fill, GenCtl.CURSOR_BACKWARD, l_csi, l_D], trivial⟩
          · split at h
            · simp only [Option.some.injEq, Prod.mk.injEq] at h; obtain ⟨rfl, rfl⟩ := h; subst_vars
              exact ⟨by simp [Tok.str, fill, GenCtl.ERASE_CHARS, l_csi, l_X], trivial⟩
            · split at h
              · rename_i hf
                subst hf
                split at h
                · rename_i h38
                  subst h38
                  cases hrgb : rgb r1 with
                  | none => rw [hrgb] at h; simp at h
                  | some cr =>
                    obtain ⟨c, r'⟩ := cr
                    rw [hrgb] at h
                    simp only [Option.map_some, Option.some.injEq, Prod.mk.injEq] at h
                    obtain ⟨rfl, rfl⟩ := h
                    obtain ⟨e, -⟩ := rgb_sound hrgb
                    obtain ⟨cr, cg, cb⟩ := c
                    subst e
                    have : Nat.toDigits 10 38 = ['3', '8'] := by decide
                    exact ⟨by simp [Tok.str, fill, GenCtl.SGR_FG_DIRECT, l_fg, l_semi, l_m, this], trivial⟩
                · split at h
                  · rename_i h48
                    subst h48
                    cases hrgb : rgb r1 with
                    | none => rw [hrgb] at h; simp at h
                    | some cr =>
                      obtain ⟨c, r'⟩ := cr
                      rw [hrgb] at h
                      simp only [Option.map_some, Option.some.injEq, Prod.mk.injEq] at h
                      obtain ⟨rfl, rfl⟩ := h
                      obtain ⟨e, -⟩ := rgb_sound hrgb
                      obtain ⟨cr, cg, cb⟩ := c
                      subst e
                      have : Nat.toDigits 10 48 = ['4', '8'] := by decide
                      exact ⟨by simp [Tok.str, fill, GenCtl.SGR_BG_DIRECT, l_bg, l_semi, l_m, this], trivial⟩
                  · exact absurd h (by simp)
              · exact absurd h (by simp)
  · exact absurd h (by simp)
  · have fin : ∀ (t0 : Tok) (cs r0 : List Char), t0.str.toList = '\x1b' :: '[' :: cs → Scan.WfTok t0 →
        some (t0, r0) = some (t, rest) → '\x1b' :: '[' :: (cs ++ r0) = t.str.toList ++ rest ∧ Scan.WfTok t := by
      intro t0 cs r0 hcs hw he
      simp only [Option.some.injEq, Prod.mk.injEq] at he
      obtain ⟨rfl, rfl⟩ := he
      rw [hcs]; exact ⟨rfl, hw⟩
    split at h
    · exact fin .sgr0 ['m'] _ (by decide) trivial h
    · exact fin .showCur ['?', '2', '5', 'h'] _ (by decide) trivial h
    · exact fin .hideCur ['?', '2', '5', 'l'] _ (by decide) trivial h
    · exact fin .syncBegin ['?', '2', '0', '2', '6', 'h'] _ (by decide) trivial h
    · exact fin .syncEnd ['?', '2', '0', '2', '6', 'l'] _ (by decide) trivial h
    · exact absurd h (by simp)

/-- the characters an item of the stream stands for -/
def Raw.chars : Raw → List Char
  | .tok t => t.str.toList
  | .first _ _ _ ctl m p => (fill GenCtl.KITTY_TRANSMISSION [ctl ++ ",m=" ++ (if m then "1" else "0"), asciiStr p]).toList
  | .cont m p => (fill GenCtl.KITTY_TRANSMISSION [if m then "m=1" else "m=0", asciiStr p]).toList

/-- what `Scan`'s completeness theorems ask of an item -/
def Raw.Ok : Raw → Prop
  | .tok t => Scan.WfTok t
  | .first _ _ _ ctl _ p => (∀ c ∈ ctl.toList, Scan.isStrChar c = true) ∧ ∀ b ∈ p, Scan.isStrChar (Char.ofNat b) = true
  | .cont _ p => ∀ b ∈ p, Scan.isStrChar (Char.ofNat b) = true

theorem kctl_strChar {c : Char} (h : isKCtl c = true) : Scan.isStrChar c = true := by
  simp only [isKCtl, Char.isAlphanum, Char.isAlpha, Char.isUpper, Char.isLower, Char.isDigit, Bool.or_eq_true,
    Bool.and_eq_true, decide_eq_true_eq, beq_iff_eq, UInt32.le_iff_toNat_le] at h
  have hv : c.toNat = c.val.toNat := rfl
  simp only [Scan.isStrChar, Bool.and_eq_true, decide_eq_true_eq, hv]
  rcases h with ((h | h) | h) | h
  · rcases h with (h | h) | h <;> simp at h <;> omega
  · subst h; decide
  · subst h; decide
  · subst h; decide

theorem b64_strChar {c : Char} (h : isB64 c = true) : Scan.isStrChar c = true := by
  simp only [isB64, b64Byte, Bool.or_eq_true, Bool.and_eq_true, decide_eq_true_eq, beq_iff_eq] at h
  simp only [Scan.isStrChar, Bool.and_eq_true, decide_eq_true_eq]
  omega

theorem ofNat_toNat_map (pay : List Char) : (pay.map Char.toNat).map Char.ofNat = pay := by
  induction pay with
  | nil => rfl
  | cons c cs ih => simp only [List.map_cons, Char.ofNat_toNat, ih]

theorem ofNat_toNat_comp (pay : List Char) : List.map ((fun b => Char.ofNat b) ∘ Char.toNat) pay = pay := by
  induction pay with
  | nil => rfl
  | cons c cs ih => simp only [List.map_cons, Function.comp, Char.ofNat_toNat]; rw [← ih]; simp

theorem pay_ok (pay : List Char) (hp : ∀ c ∈ pay, isB64 c = true) :
    ∀ b ∈ pay.map Char.toNat, Scan.isStrChar (Char.ofNat b) = true := by
  intro b hb
  simp only [List.mem_map] at hb
  obtain ⟨c, hc, rfl⟩ := hb
  simpa using b64_strChar (hp c hc)

theorem cmd_chars (ctrl : List Char) (pay : List Char) :
    (fill GenCtl.KITTY_TRANSMISSION [String.ofList ctrl, asciiStr (pay.map Char.toNat)]).toList =
      '\x1b' :: '_' :: 'G' :: (ctrl ++ ';' :: (pay ++ ['\x1b', '\\'])) := by
  rw [kitty_cmd_chars, ofNat_toNat_map, String.toList_ofList]

theorem delCmd_sound {rest : List Char} {t : Tok} (h : delCmd rest = some t) :
    t.str.toList = '\x1b' :: '_' :: 'G' :: ('a' :: '=' :: 'd' :: ',' :: rest ++ [';', '\x1b', '\\']) ∧ Scan.WfTok t := by
  unfold delCmd at h
  split at h
  · rename_i hr; subst hr
    simp only [Option.some.injEq] at h; subst h
    exact ⟨by decide, trivial⟩
  · split at h
    · rename_i hr; subst hr
      simp only [Option.some.injEq] at h; subst h
      exact ⟨by decide, trivial⟩
    · split at h
      · rename_i zs _ _
        cases hz : readIntAll zs with
        | none => rw [hz] at h; simp at h
        | some z =>
          rw [hz] at h
          simp only [Option.map_some, Option.some.injEq] at h; subst h
          have e := readIntAll_sound hz
          subst e
          have a1 : "\x1b_Ga=d,d=Z,z=".toList = ['\x1b', '_', 'G', 'a', '=', 'd', ',', 'd', '=', 'Z', ',', 'z', '='] := by decide
          have a2 : ";\x1b\\".toList = [';', '\x1b', '\\'] := by decide
          exact ⟨by simp [Tok.str, fill, GenCtl.KITTY_DELETE_Z_INDEX, a1, a2], trivial⟩
      · exact absurd h (by simp)

theorem firstCmd_sound {ctrl pay : List Char} {x : Raw} (h : firstCmd ctrl pay = some x)
    (hc : ∀ c ∈ ctrl, isKCtl c = true) (hp : ∀ c ∈ pay, isB64 c = true) :
    x.chars = '\x1b' :: '_' :: 'G' :: (ctrl ++ ';' :: (pay ++ ['\x1b', '\\'])) ∧ x.Ok := by
  unfold firstCmd at h
  split at h
  · rename_i f rc hrev
    have h1 : ctrl = rc.reverse ++ [',', 'm', '=', f] := by
      have := congrArg List.reverse hrev
      rw [List.reverse_reverse] at this
      rw [this]; simp
    split at h
    · rename_i hf
      cases hparse : parseKCtl rc.reverse with
      | none => rw [hparse] at h; simp at h
      | some crz =>
        obtain ⟨c, r, z⟩ := crz
        rw [hparse] at h
        simp only [Option.map_some, Option.some.injEq] at h; subst h
        have hctrl : (String.ofList rc.reverse ++ ",m=" ++ (if (f == '1') = true then "1" else "0")) = String.ofList ctrl := by
          apply String.toList_injective
          rcases hf with rfl | rfl <;> simp [h1, l_cm, l_0, l_1]
        refine ⟨?_, ?_, pay_ok pay hp⟩
        · simp only [Raw.chars]
          rw [hctrl, cmd_chars]
        · intro ch hch
          apply kctl_strChar
          apply hc
          rw [h1]
          simp only [String.toList_ofList] at hch
          simp [hch]
    · exact absurd h (by simp)
  · exact absurd h (by simp)

theorem classify_sound {ctrl pay : List Char} {x : Raw} (h : classify ctrl pay = some x)
    (hc : ∀ c ∈ ctrl, isKCtl c = true) (hp : ∀ c ∈ pay, isB64 c = true) :
    x.chars = '\x1b' :: '_' :: 'G' :: (ctrl ++ ';' :: (pay ++ ['\x1b', '\\'])) ∧ x.Ok := by
  unfold classify at h
  split at h
  · -- delete
    rename_i rest
    split at h
    · rename_i hpe
      have : pay = [] := by simpa using hpe
      subst this
      cases hd : delCmd rest with
      | none => rw [hd] at h; simp at h
      | some t =>
        rw [hd] at h
        simp only [Option.map_some, Option.some.injEq] at h; subst h
        obtain ⟨e, hw⟩ := delCmd_sound hd
        exact ⟨by simpa [Raw.chars] using e, hw⟩
    · exact absurd h (by simp)
  · exact firstCmd_sound h hc hp
  · simp only [Option.some.injEq] at h; subst h
    exact ⟨by have := cmd_chars ['m', '=', '0'] pay; simpa [Raw.chars] using this, pay_ok pay hp⟩
  · simp only [Option.some.injEq] at h; subst h
    exact ⟨by have := cmd_chars ['m', '=', '1'] pay; simpa [Raw.chars] using this, pay_ok pay hp⟩
  · split at h
    · rename_i hpe
      have : pay = [] := by simpa using hpe
      subst this
      simp only [Option.some.injEq] at h; subst h
      exact ⟨by decide, trivial⟩
    · exact absurd h (by simp)
  · exact absurd h (by simp)

theorem mem_takeWhile {p : Char → Bool} {l : List Char} {c : Char} (h : c ∈ l.takeWhile p) : p c = true := by
  induction l with
  | nil => simp at h
  | cons a l ih =>
    by_cases ha : p a = true
    · rw [List.takeWhile_cons_of_pos ha] at h
      rcases List.mem_cons.mp h with rfl | h
      · exact ha
      · exact ih h
    · rw [List.takeWhile_cons_of_neg ha] at h; simp at h

theorem lexApc_sound {r : List Char} {x : Raw} {rest : List Char} (h : lexApc r = some (x, rest)) :
    '\x1b' :: '_' :: 'G' :: r = x.chars ++ rest ∧ x.Ok := by
  unfold lexApc at h
  split at h
  · rename_i r1 hd1
    split at h
    · rename_i r2 hd2
      cases hcl : classify (r.takeWhile isKCtl) (r1.takeWhile isB64) with
      | none => rw [hcl] at h; simp at h
      | some y =>
        rw [hcl] at h
        simp only [Option.map_some, Option.some.injEq, Prod.mk.injEq] at h
        obtain ⟨rfl, rfl⟩ := h
        obtain ⟨e, hok⟩ := classify_sound hcl (fun c hc => mem_takeWhile hc) (fun c hc => mem_takeWhile hc)
        refine ⟨?_, hok⟩
        have e1 := (List.takeWhile_append_dropWhile (p := isKCtl) (l := r)).symm
        have e2 := (List.takeWhile_append_dropWhile (p := isB64) (l := r1)).symm
        rw [hd1] at e1; rw [hd2] at e2
        rw [e]
        conv => lhs; rw [e1, e2]
        simp
    · exact absurd h (by simp)
  · exact absurd h (by simp)

theorem ictl_strChar {c : Char} (h : isICtl c = true) : Scan.isStrChar c = true := by
  simp only [isICtl, Bool.and_eq_true] at h; exact h.1

theorem lexOsc_sound {r : List Char} {t : Tok} {rest : List Char} (h : lexOsc r = some (t, rest)) :
    '\x1b' :: ']' :: r = t.str.toList ++ rest ∧ Scan.WfTok t := by
  unfold lexOsc at h
  split at h
  · rename_i r0
    split at h
    · rename_i r1 hd1
      split at h
      · rename_i r2 hd2
        simp only at h
        cases hpi : parseICtl (r0.takeWhile isICtl) with
        | none => rw [hpi] at h; simp at h
        | some whn =>
          obtain ⟨w, hh, nm⟩ := whn
          rw [hpi] at h
          simp only [Option.map_some, Option.some.injEq, Prod.mk.injEq] at h
          obtain ⟨rfl, rfl⟩ := h
          have e1 := (List.takeWhile_append_dropWhile (p := isICtl) (l := r0)).symm
          have e2 := (List.takeWhile_append_dropWhile (p := isB64) (l := r1)).symm
          rw [hd1] at e1; rw [hd2] at e2
          have a1 : "\x1b]1337;File=".toList = ['\x1b', ']', '1', '3', '3', '7', ';', 'F', 'i', 'l', 'e', '='] := by decide
          have a3 : ":".toList = [':'] := by decide
          refine ⟨?_, ?_, pay_ok _ (fun c hc => mem_takeWhile hc)⟩
          · conv => lhs; rw [e1, e2]
            simp [Tok.str, ITermCmd.str, fill, GenCtl.ITERM2_START, GenCtl.ST, a1, l_st, a3, asciiStr, ofNat_toNat_comp]
          · intro c hc
            simp only [String.toList_ofList] at hc
            exact ictl_strChar (mem_takeWhile hc)
      · exact absurd h (by simp)
    · exact absurd h (by simp)
  · exact absurd h (by simp)

theorem plain_sound {c : Char} {t : Tok} (h : plain c = some t) : t.str.toList = [c] ∧ Scan.WfTok t := by
  unfold plain at h
  split at h
  · rename_i hc; subst hc; simp only [Option.some.injEq] at h; subst h; exact ⟨by decide, trivial⟩
  · split at h
    · rename_i hc; subst hc; simp only [Option.some.injEq] at h; subst h; exact ⟨by decide, trivial⟩
    · split at h
      · rename_i hc; subst hc; simp only [Option.some.injEq] at h; subst h; exact ⟨by decide, trivial⟩
      · split at h
        · rename_i hc; subst hc; simp only [Option.some.injEq] at h; subst h; exact ⟨by decide, trivial⟩
        · split at h
          · rename_i hc; subst hc; simp only [Option.some.injEq] at h; subst h; exact ⟨by decide, trivial⟩
          · split at h
            · rename_i hc; subst hc; simp only [Option.some.injEq] at h; subst h; exact ⟨by decide, trivial⟩
            · split at h
              · rename_i hc
                simp only [Option.some.injEq] at h; subst h
                refine ⟨by simp [Tok.str, Glyph.str], ?_⟩
                simp only [isOther, Bool.and_eq_true] at hc
                exact hc.1.1.1.1
              · exact absurd h (by simp)

/-- ONE ITEM: the characters consumed are exactly the item's printed form, and they are complete
    control sequences in the sense of `Scan` -/
theorem lexOne_sound {cs : List Char} {x : Raw} {rest : List Char} (h : lexOne cs = some (x, rest)) :
    cs = x.chars ++ rest ∧ x.Ok := by
  unfold lexOne at h
  split at h
  · exact absurd h (by simp)
  · rename_i c r
    split at h
    · rename_i hc; subst hc
      split at h
      · rename_i r'
        cases hl : lexCsi r' with
        | none => rw [hl] at h; simp at h
        | some tr =>
          obtain ⟨t, r2⟩ := tr
          rw [hl] at h
          simp only [Option.map_some, Option.some.injEq, Prod.mk.injEq] at h
          obtain ⟨rfl, rfl⟩ := h
          exact lexCsi_sound hl
      · exact lexApc_sound h
      · rename_i r'
        cases hl : lexOsc r' with
        | none => rw [hl] at h; simp at h
        | some tr =>
          obtain ⟨t, r2⟩ := tr
          rw [hl] at h
          simp only [Option.map_some, Option.some.injEq, Prod.mk.injEq] at h
          obtain ⟨rfl, rfl⟩ := h
          exact lexOsc_sound hl
      · simp only [Option.some.injEq, Prod.mk.injEq] at h
        obtain ⟨rfl, rfl⟩ := h
        exact ⟨by simp [Raw.chars, show (Tok.st).str.toList = ['\x1b', '\\'] from by decide], trivial⟩
      · exact absurd h (by simp)
    · cases hp : plain c with
      | none => rw [hp] at h; simp at h
      | some t =>
        rw [hp] at h
        simp only [Option.map_some, Option.some.injEq, Prod.mk.injEq] at h
        obtain ⟨rfl, rfl⟩ := h
        obtain ⟨e, hw⟩ := plain_sound hp
        exact ⟨by simp [Raw.chars, e], hw⟩

theorem rawLex_sound (n : Nat) : ∀ (cs : List Char) (rs : List Raw), rawLex n cs = some rs →
    cs = rs.flatMap Raw.chars ∧ ∀ x ∈ rs, x.Ok := by
  induction n with
  | zero =>
    intro cs rs h
    simp only [rawLex] at h
    split at h
    · rename_i he
      simp only [Option.some.injEq] at h; subst h
      exact ⟨by simpa using he, by simp⟩
    · exact absurd h (by simp)
  | succ n ih =>
    intro cs rs h
    simp only [rawLex] at h
    split at h
    · rename_i he
      simp only [Option.some.injEq] at h; subst h
      exact ⟨by simpa using he, by simp⟩
    · split at h
      · exact absurd h (by simp)
      · rename_i x rest hx
        cases hr : rawLex n rest with
        | none => rw [hr] at h; simp at h
        | some rs' =>
          rw [hr] at h
          simp only [Option.map_some, Option.some.injEq] at h; subst h
          obtain ⟨e1, ok1⟩ := lexOne_sound hx
          obtain ⟨e2, ok2⟩ := ih rest rs' hr
          refine ⟨?_, ?_⟩
          · rw [List.flatMap_cons, ← e2]; exact e1
          · intro y hy
            rcases List.mem_cons.mp hy with rfl | hy
            · exact ok1
            · exact ok2 y hy

theorem raw_complete (x : Raw) (h : x.Ok) : Scan.run .ground x.chars = .ground := by
  cases x with
  | tok t => exact Scan.tok_complete t h
  | first c r z ctl m p =>
    obtain ⟨hc, hp⟩ := h
    apply Scan.kitty_command_complete _ p _ hp
    intro ch hch
    simp only [String.toList_append, List.mem_append] at hch
    rcases hch with (h | h) | h
    · exact hc ch h
    · revert ch; decide
    · cases m <;> (revert ch; decide)
  | cont m p => exact Scan.kitty_command_complete _ p (Scan.mflag_strChars m) h

/-- WHAT THE LEXER ACCEPTS IS COMPLETE: if `lex` reads the characters at all, then scanning them
    with the (trusted) ECMA-48 scanner of `Common/Scan.lean` from the ground state ends in the ground
    state — no control sequence is cut short, none is malformed. -/
theorem lex_complete (cs : List Char) (ts : List Tok) (h : lex cs = some ts) : Scan.run .ground cs = .ground := by
  unfold lex at h
  cases hr : rawLex cs.length cs with
  | none => rw [hr] at h; simp at h
  | some rs =>
    obtain ⟨e, ok⟩ := rawLex_sound _ cs rs hr
    rw [e]
    exact Scan.complete_flatMap Raw.chars rs (fun x hx => raw_complete x (ok x hx))

/-! ### grouping loses nothing -/

theorem kitty_str_snoc (k : KittyCmd) (hne : k.chunks ≠ []) (m : Bool) (p : List Nat) :
    ({ k with chunks := k.chunks ++ [(m, p)] } : KittyCmd).str.toList = k.str.toList ++ (Raw.cont m p).chars := by
  obtain ⟨cols, rows, z, control, chunks⟩ := k
  cases chunks with
  | nil => exact absurd rfl hne
  | cons mc rest =>
    obtain ⟨m0, c0⟩ := mc
    simp [KittyCmd.str, Raw.chars, String.toList_join, List.flatMap_map]

theorem group_sound : ∀ (pend : Option KittyCmd) (rs : List Raw) (ts : List Tok),
    (∀ k, pend = some k → k.chunks ≠ []) → group pend rs = some ts →
    (match pend with | none => [] | some k => k.str.toList) ++ rs.flatMap Raw.chars = (toksStr ts).toList := by
  intro pend rs
  induction rs generalizing pend with
  | nil =>
    intro ts hp h
    cases pend with
    | none => simp [group] at h; subst h; simp [toksStr]
    | some k => simp [group] at h
  | cons x rs ih =>
    intro ts hp h
    cases pend with
    | none =>
      cases x with
      | tok t =>
        simp only [group] at h
        cases hg : group none rs with
        | none => rw [hg] at h; simp at h
        | some ts' =>
          rw [hg] at h
          simp only [Option.map_some, Option.some.injEq] at h; subst h
          have := ih none ts' (by simp) hg
          simp only [List.nil_append] at this
          rw [toksStr_cons, ← this]; simp [Raw.chars]
      | first c r z ctl m p =>
        simp only [group] at h
        cases m with
        | true =>
          simp only [if_true] at h
          have := ih (some ⟨c, r, z, ctl, [(true, p)]⟩) ts (by intro k hk; simp at hk; subst hk; simp) h
          simp only at this
          rw [← this]
          simp [Raw.chars, KittyCmd.str]
        | false =>
          simp only [Bool.false_eq_true, if_false] at h
          cases hg : group none rs with
          | none => rw [hg] at h; simp at h
          | some ts' =>
            rw [hg] at h
            simp only [Option.map_some, Option.some.injEq] at h; subst h
            have := ih none ts' (by simp) hg
            simp only [List.nil_append] at this
            rw [toksStr_cons, ← this]; simp [Raw.chars, Tok.str, KittyCmd.str]
      | cont m p => simp [group] at h
    | some k =>
      have hne := hp k rfl
      cases x with
      | tok t => simp [group] at h
      | first c r z ctl m p => simp [group] at h
      | cont m p =>
        simp only [group] at h
        cases m with
        | true =>
          simp only [if_true] at h
          have := ih (some { k with chunks := k.chunks ++ [(true, p)] }) ts
            (by intro k' hk; simp at hk; subst hk; simp) h
          simp only at this
          rw [← this, kitty_str_snoc k hne]; simp
        | false =>
          simp only [Bool.false_eq_true, if_false] at h
          cases hg : group none rs with
          | none => rw [hg] at h; simp at h
          | some ts' =>
            rw [hg] at h
            simp only [Option.map_some, Option.some.injEq] at h; subst h
            have := ih none ts' (by simp) hg
            simp only [List.nil_append] at this
            rw [toksStr_cons, ← this]
            simp only [Tok.str, kitty_str_snoc k hne]; simp

/-- SOUNDNESS: whatever the lexer returns prints back to exactly the characters it read — the
    lexer neither drops nor invents nor reorders anything the token printer distinguishes. With
    `lex_toksStr`: on well-formed token lists `lex` and `toksStr` are inverse to each other. -/
theorem lex_sound (cs : List Char) (ts : List Tok) (h : lex cs = some ts) : (toksStr ts).toList = cs := by
  unfold lex at h
  cases hr : rawLex cs.length cs with
  | none => rw [hr] at h; simp at h
  | some rs =>
    rw [hr] at h
    simp only [Option.bind_some] at h
    obtain ⟨e, -⟩ := rawLex_sound _ cs rs hr
    have := group_sound none rs ts (by simp) h
    simp only [List.nil_append] at this
    rw [← this, ← e]

/-- the printer is injective on what the lexer accepts: two readings of the same bytes are equal,
    and two different accepted byte strings are read as different token lists -/
theorem lex_injective (a b : List Char) (ts : List Tok) (ha : lex a = some ts) (hb : lex b = some ts) : a = b := by
  rw [← lex_sound a ts ha, ← lex_sound b ts hb]

/-- non-vacuity of `lex_complete` / `lex_sound`: the lexer does accept a multi-token output (so the hypothesis
    `lex cs = some ts` is satisfiable) … -/
example : Scan.run .ground (toksStr exToks).toList = .ground :=
  lex_complete _ exToks (lex_toksStr exToks (by decide))
example : ∃ cs ts, lex cs = some ts ∧ ts.length = 19 ∧ (toksStr ts).toList = cs :=
  ⟨_, exToks, lex_toksStr exToks (by decide), rfl, rfl⟩
/-- … and rejects what is cut short or not canonical (so `lex_complete` is not about everything): a CSI without
    its final byte, an APC without ST, a parameter with a leading zero, a colour component of 256, text inside a
    chunked transmission, a transmission without its `m=0` chunk -/
example : lex "\x1b[3".toList = none := by decide
example : lex "\x1b_Ga=d,d=C;".toList = none := by decide
example : lex "\x1b[03A".toList = none := by decide
example : lex "\x1b[38;2;256;0;0m".toList = none := by decide
example : lex "\x1b_Ga=T,C=1,c=1,r=1,m=1;AAAA\x1b\\x\x1b_Gm=0;\x1b\\".toList = none := by decide
example : lex "\x1b_Ga=T,C=1,c=1,r=1,m=1;AAAA\x1b\\".toList = none := by decide

/-! ## the renderers' lines are well formed -/

theorem wfToks_append {a b : List Tok} (ha : WfToks a) (hb : WfToks b) : WfToks (a ++ b) := by
  intro t ht
  rcases List.mem_append.mp ht with h | h
  · exact ha t h
  · exact hb t h

theorem wfToks_cons {t : Tok} {ts : List Tok} (ht : WfTok t = true) (hts : WfToks ts) : WfToks (t :: ts) := by
  intro u hu
  rcases List.mem_cons.mp hu with rfl | h
  · exact ht
  · exact hts u h

theorem wfToks_nil : WfToks [] := by intro t ht; simp at ht

/-- lines joined with `lf` -/
theorem wf_joinLines (ls : List (List Tok)) (h : ∀ l ∈ ls, WfToks l) : WfToks (joinLines ls) := by
  induction ls with
  | nil => exact wfToks_nil
  | cons l rest ih =>
    cases rest with
    | nil => simpa [joinLines] using h l (by simp)
    | cons l2 rest2 =>
      simp only [joinLines]
      exact wfToks_append (h l (by simp)) (wfToks_cons rfl (ih (fun m hm => h m (by simp [hm]))))

/-! ### block -/

abbrev okRGB (c : RGB) : Prop := c.1 < 256 ∧ c.2.1 < 256 ∧ c.2.2 < 256
/-- both pixels of a cell have 8-bit colour components (`_get_render_data` returns bytes) -/
abbrev okPP (p : Block.PP) : Prop := okRGB p.c1 ∧ okRGB p.c2

theorem wf_fg (c : RGB) (h : okRGB c) : WfTok (.fg c) = true := by
  obtain ⟨r, g, b⟩ := c; simpa [WfTok, okRGB, and_assoc] using h
theorem wf_bg (c : RGB) (h : okRGB c) : WfTok (.bg c) = true := by
  obtain ⟨r, g, b⟩ := c; simpa [WfTok, okRGB, and_assoc] using h

theorem wf_glyphs (g : Glyph) (hg : ∀ c, g ≠ .ch c) (n : Nat) (split : Bool) : WfToks (glyphs g n split) := by
  have hgb : WfTok (Tok.glyph g) = true := by cases g <;> first | rfl | exact absurd rfl (hg _)
  unfold glyphs
  cases split <;> intro a ha
  · simp at ha; rw [ha.2]; exact hgb
  · simp at ha
    obtain ⟨l, ⟨_, rfl⟩, hl⟩ := ha
    simp at hl; rcases hl with rfl | rfl
    · exact hgb
    · rfl

theorem wf_updateBuffer (cfg : Block.Cfg) (cl : Block.PP) (n : Nat) (h : okPP cl) :
    WfToks (Block.updateBuffer cfg cl n) := by
  have hg : ∀ (g : Glyph), (∀ c, g ≠ .ch c) → WfToks (glyphs g n cfg.split) := fun g hg => wf_glyphs g hg n cfg.split
  obtain ⟨h1, h2⟩ := h
  unfold Block.updateBuffer
  split
  · exact wfToks_cons rfl (hg _ (by intro c; simp))
  · split
    · exact wfToks_cons rfl (wfToks_cons (wf_fg _ h2) (hg _ (by intro c; simp)))
    · split
      · exact wfToks_cons rfl (wfToks_cons (wf_fg _ h1) (hg _ (by intro c; simp)))
      · rcases hc2 : cl.c2 with ⟨r, g, b⟩
        have h2' : r < 256 ∧ g < 256 ∧ b < 256 := by simpa [okRGB, hc2] using h2
        simp only
        refine wfToks_cons (wf_bg _ ?_) ?_
        · refine ⟨?_, h2'.2.1, h2'.2.2⟩
          simp only
          split
          · unfold Block.bump; split <;> omega
          · exact h2'.1
        · split
          · exact hg _ (by intro c; simp)
          · exact wfToks_cons (wf_fg _ h1) (hg _ (by intro c; simp))

theorem wf_loop (cfg : Block.Cfg) (ps : List Block.PP) (hps : ∀ p ∈ ps, okPP p) :
    ∀ cl n, okPP cl → WfToks (Block.loop cfg cl n ps) := by
  induction ps with
  | nil => intro cl n hcl; exact wf_updateBuffer cfg cl n hcl
  | cons p ps ih =>
    intro cl n hcl
    have hp : okPP p := hps p (by simp)
    have ih' := ih (fun q hq => hps q (by simp [hq]))
    unfold Block.loop
    split
    · refine wfToks_append (wf_updateBuffer cfg cl n hcl) (ih' _ _ ?_)
      unfold Block.newCluster; split
      · exact hp
      · exact hp
    · exact ih' _ _ hcl

theorem dropLastNul_sub (ts : List Tok) : ∀ a ∈ Block.dropLastNul ts, a ∈ ts := by
  intro a ha
  unfold Block.dropLastNul at ha
  split at ha
  · rw [List.dropLast_eq_take] at ha; exact List.mem_of_mem_take ha
  · exact ha

/-- BLOCK: one line of cells (`Block.line`, the "blockLine" of the renderer) -/
theorem wf_blockLine (cfg : Block.Cfg) (row : List Block.PP) (h : ∀ p ∈ row, okPP p) : WfToks (Block.line cfg row) := by
  unfold Block.line
  cases row with
  | nil => exact wfToks_nil
  | cons p ps =>
    have hl := wf_loop cfg (p :: ps) h p 0 (h p (by simp))
    simp only
    split
    · intro a ha; exact hl a (dropLastNul_sub _ a ha)
    · exact hl

/-- BLOCK: a whole render -/
theorem wf_blockRender (cfg : Block.Cfg) (rows : List (List Block.PP)) (h : ∀ row ∈ rows, ∀ p ∈ row, okPP p) :
    WfToks (Block.render cfg rows) := by
  unfold Block.render Block.renderLines
  apply wf_joinLines
  intro l hl
  simp only [List.mem_map] at hl
  obtain ⟨row, hrow, rfl⟩ := hl
  exact wfToks_append (wf_blockLine cfg row (h row hrow)) (wfToks_cons rfl wfToks_nil)

/-! ### kitty and iterm2 lines -/

theorem wf_fillToks (mix : Bool) (w : Nat) : WfToks (Gfx.fillToks mix w) := by
  cases mix <;> (intro t ht; simp [Gfx.fillToks] at ht)
  · rcases ht with rfl | rfl <;> rfl
  · subst ht; rfl

/-- KITTY: one line (`Gfx.kittyLine`) -/
theorem wf_kittyLine (blend mix : Bool) (w : Nat) (k : KittyCmd) (hk : wfKitty k = true) :
    WfToks (Gfx.kittyLine blend mix w k) := by
  unfold Gfx.kittyLine
  refine wfToks_append (wfToks_append ?_ (wfToks_cons hk wfToks_nil)) (wf_fillToks mix w)
  cases blend
  · exact wfToks_cons rfl wfToks_nil
  · exact wfToks_nil

theorem wf_kittyLines (blend mix : Bool) (w : Nat) (ks : List KittyCmd) (hk : ∀ k ∈ ks, wfKitty k = true) :
    WfToks (joinLines (Gfx.kittyLines blend mix w ks)) := by
  apply wf_joinLines
  intro l hl
  simp only [Gfx.kittyLines, List.mem_map] at hl
  obtain ⟨k, hkm, rfl⟩ := hl
  exact wf_kittyLine blend mix w k (hk k hkm)

theorem wf_kittyWhole (blend mix : Bool) (w h : Nat) (k : KittyCmd) (hk : wfKitty k = true) :
    WfToks (joinLines (Gfx.kittyWhole blend mix w h k)) := by
  apply wf_joinLines
  intro l hl
  simp only [Gfx.kittyWhole, List.mem_cons, List.mem_replicate] at hl
  rcases hl with rfl | ⟨_, rfl⟩
  · exact wf_kittyLine blend mix w k hk
  · exact wf_fillToks mix w

theorem wf_eraseToks (e : Bool) (w : Nat) : WfToks (Gfx.eraseToks e w) := by
  cases e <;> (intro t ht; simp [Gfx.eraseToks] at ht)
  subst ht; rfl

theorem wf_upToks (h : Nat) : WfToks (Gfx.upToks h) := by
  intro t ht
  unfold Gfx.upToks at ht
  split at ht <;> simp at ht
  subst ht; rfl

/-- ITERM2: one line (`Gfx.itermLine`) -/
theorem wf_itermLine (erase konsole : Bool) (w : Nat) (c : ITermCmd) (hc : wfITerm c = true) :
    WfToks (Gfx.itermLine erase konsole w c) := by
  unfold Gfx.itermLine
  refine wfToks_append (wfToks_append (wf_eraseToks erase w) (wfToks_cons hc wfToks_nil)) ?_
  cases konsole
  · exact wfToks_nil
  · exact wfToks_cons rfl wfToks_nil

theorem wf_itermLines (erase konsole : Bool) (w : Nat) (cs : List ITermCmd) (hc : ∀ c ∈ cs, wfITerm c = true) :
    WfToks (joinLines (Gfx.itermLines erase konsole w cs)) := by
  apply wf_joinLines
  intro l hl
  simp only [Gfx.itermLines, List.mem_map] at hl
  obtain ⟨c, hcm, rfl⟩ := hl
  exact wf_itermLine erase konsole w c (hc c hcm)

theorem wf_itermWhole (erase konsole : Bool) (w h : Nat) (c : ITermCmd) (hc : wfITerm c = true) :
    WfToks (joinLines (Gfx.itermWhole erase konsole w h c)) := by
  apply wf_joinLines
  intro l hl
  unfold Gfx.itermWhole at hl
  cases konsole
  · simp only [Bool.false_eq_true, if_false, List.mem_append, List.mem_replicate, List.mem_singleton] at hl
    rcases hl with ⟨_, rfl⟩ | rfl
    · exact wfToks_append (wf_eraseToks erase w) (wfToks_cons rfl wfToks_nil)
    · exact wfToks_append (wfToks_append (wf_eraseToks erase w) (wf_upToks h)) (wfToks_cons hc wfToks_nil)
  · simp only [if_true, List.mem_cons, List.mem_replicate] at hl
    rcases hl with rfl | ⟨_, rfl⟩
    · exact wfToks_append (wf_eraseToks erase w) (wfToks_cons hc (wfToks_cons rfl wfToks_nil))
    · exact wfToks_cons rfl wfToks_nil

/-! ## control data of the C01 render models -/

theorem splitC_last (sep : Char) (a : List Char) (h : sep ∉ a) : splitC sep a = [a] := by
  induction a with
  | nil => rfl
  | cons c cs ih =>
    simp only [List.mem_cons, not_or] at h
    have hne : c ≠ sep := fun e => h.1 e.symm
    simp [splitC, hne, ih h.2]

theorem splitC_item (sep : Char) (a rest : List Char) (h : sep ∉ a) :
    splitC sep (a ++ sep :: rest) = a :: splitC sep rest := by
  induction a with
  | nil => simp [splitC]
  | cons c cs ih =>
    simp only [List.mem_cons, not_or] at h
    have hne : c ≠ sep := fun e => h.1 e.symm
    simp [splitC, hne, ih h.2]

/-- items joined with a separator character -/
def joinSep (sep : Char) : List (List Char) → List Char
  | [] => []
  | [a] => a
  | a :: rest => a ++ sep :: joinSep sep rest

theorem splitC_joinSep (sep : Char) (items : List (List Char)) (hne : items ≠ []) (h : ∀ i ∈ items, sep ∉ i) :
    splitC sep (joinSep sep items) = items := by
  induction items with
  | nil => exact absurd rfl hne
  | cons a rest ih =>
    cases rest with
    | nil => simpa [joinSep] using splitC_last sep a (h a (by simp))
    | cons b rest2 =>
      simp only [joinSep]
      rw [splitC_item sep a _ (h a (by simp))]
      have := ih (by simp) (fun i hi => h i (by simp [hi]))
      rw [this]

theorem kittyCtl_chars (fmt width v z : Int) (rw r level : Nat) (p : List Nat) :
    (C01.kittyCmd fmt width v z rw r level p).control.toList =
      joinSep ',' ([['a', '=', 'T'], 'f' :: '=' :: Nat.toDigits 10 fmt.toNat, ['t', '=', 'd'],
        's' :: '=' :: Nat.toDigits 10 width.toNat, 'v' :: '=' :: Nat.toDigits 10 v.toNat,
        'z' :: '=' :: (toString z).toList] ++ (if level ≠ 0 then [['o', '=', 'z']] else []) ++
        [['C', '=', '1'], 'c' :: '=' :: Nat.toDigits 10 rw, 'r' :: '=' :: Nat.toDigits 10 r]) := by
  have d1 : Nat.toDigits 10 1 = ['1'] := by decide
  by_cases hl : level = 0
  · simp [C01.kittyCmd, C03.Control.withLevel, C03.Control.render, C03.kv, hl, joinSep, d1]
  · simp [C01.kittyCmd, C03.Control.withLevel, C03.Control.render, C03.kv, hl, joinSep, d1]

theorem comma_digits (n : Nat) : ',' ∉ Nat.toDigits 10 n := by
  intro h; have := digits_isDigit n _ h; simp [Char.isDigit] at this

theorem comma_intStr (z : Int) : ',' ∉ (toString z).toList := by
  intro h; have := intStr_kctl z _ h
  cases z with
  | ofNat n => rw [intStr_ofNat] at h; exact comma_digits n h
  | negSucc n =>
    rw [intStr_negSucc] at h
    simp only [List.mem_cons] at h
    rcases h with h | h
    · exact absurd h (by decide)
    · exact comma_digits _ h

theorem parseKCtl_kittyCmd (fmt width v z : Int) (rw r level : Nat) (p : List Nat) :
    parseKCtl (C01.kittyCmd fmt width v z rw r level p).control.toList = some (rw, r, z) := by
  rw [kittyCtl_chars]
  unfold parseKCtl
  have hz := readIntAll_toString z
  simp only [toString] at hz
  rw [splitC_joinSep]
  · by_cases hl : level = 0
    · simp [hl, kvAll, kvOf, List.lookup, readNatAll_digits, hz]
    · simp [hl, kvAll, kvOf, List.lookup, readNatAll_digits, hz]
  · simp
  · intro i hi
    have h1 := comma_digits
    have h2 := comma_intStr z
    simp only [toString] at h2
    by_cases hl : level = 0 <;> simp [hl] at hi <;> rcases hi with rfl | rfl | rfl | rfl | rfl | rfl | rfl | rfl | rfl | rfl <;> simp [h1, h2]

theorem mem_joinSep {sep : Char} {items : List (List Char)} {c : Char} (h : c ∈ joinSep sep items) :
    c = sep ∨ ∃ i ∈ items, c ∈ i := by
  induction items with
  | nil => simp [joinSep] at h
  | cons a rest ih =>
    cases rest with
    | nil => exact Or.inr ⟨a, by simp, by simpa [joinSep] using h⟩
    | cons b rest2 =>
      simp only [joinSep, List.mem_append, List.mem_cons] at h
      rcases h with h | h | h
      · exact Or.inr ⟨a, by simp, h⟩
      · exact Or.inl h
      · rcases ih h with h | ⟨i, hi, hc⟩
        · exact Or.inl h
        · exact Or.inr ⟨i, by simp [hi], hc⟩

theorem flagsOK_of_flags {α} (l : List (Bool × α)) (k : Nat) (h : l.map Prod.fst = List.replicate k true ++ [false]) :
    flagsOK l = true := by
  induction k generalizing l with
  | zero =>
    match l, h with
    | [(m, c)], h => simp at h; simp [flagsOK, h]
  | succ k ih =>
    match l, h with
    | (m, c) :: rest, h =>
      simp only [List.map_cons, List.replicate_succ, List.cons_append, List.cons.injEq] at h
      have hr := ih rest h.2
      cases rest with
      | nil => simp [flagsOK] at hr
      | cons b rest2 => simp [flagsOK, h.1, hr]

theorem chr_b64 (n : Nat) : b64Byte (Base64.chr n) = true := by
  unfold Base64.chr b64Byte
  split <;> (try split) <;> (try split) <;> (try split) <;> simp <;> omega

theorem enc_b64 (x : List Nat) : ∀ b ∈ Base64.enc x, b64Byte b = true := by
  fun_induction Base64.enc x with
  | case1 => simp
  | case2 a =>
    intro b hb; simp at hb
    rcases hb with rfl | rfl | rfl <;> first | exact chr_b64 _ | decide
  | case3 a b =>
    intro c hc; simp at hc
    rcases hc with rfl | rfl | rfl | rfl <;> first | exact chr_b64 _ | decide
  | case4 a b c rest ih =>
    intro d hd; simp at hd
    rcases hd with rfl | rfl | rfl | rfl | hd <;> first | exact chr_b64 _ | exact ih d hd

/-- C01's kitty command (`ControlData(f, s, v, z, c, r)` through `Transmission`, chunked at 4096) is well formed,
    for every format, size, z-index, compression level and payload -/
theorem wf_kittyCmd (fmt width v z : Int) (rw r level : Nat) (p : List Nat) :
    wfKitty (C01.kittyCmd fmt width v z rw r level p) = true := by
  simp only [wfKitty, Bool.and_eq_true, beq_iff_eq]
  refine ⟨⟨⟨⟨?_, ?_⟩, parseKCtl_kittyCmd ..⟩, ?_⟩, ?_⟩
  · rw [kittyCtl_chars]; simp [joinSep]
  · rw [List.all_eq_true, kittyCtl_chars]
    intro c hc
    rcases mem_joinSep hc with rfl | ⟨i, hi, hci⟩
    · decide
    · have h1 := digit_kctl
      have h2 := intStr_kctl z
      by_cases hl : level = 0 <;> simp [hl] at hi <;>
        rcases hi with rfl | rfl | rfl | rfl | rfl | rfl | rfl | rfl | rfl | rfl <;>
        simp only [List.mem_cons, List.not_mem_nil, or_false] at hci <;>
        first
        | (rcases hci with rfl | rfl | rfl <;> decide)
        | (rcases hci with rfl | rfl | hci <;> first | decide | exact h1 _ _ hci | exact h2 _ hci)
  · obtain ⟨k, hk⟩ := C03.chunks_flags 4096 (by decide) (Base64.enc p)
    exact flagsOK_of_flags _ k hk
  · rw [List.all_eq_true]
    intro ch hch
    rw [List.all_eq_true]
    intro b hb
    have hcat := C03.chunks_concat 4096 (by decide) (Base64.enc p)
    have : b ∈ Base64.enc p := by
      rw [← hcat]
      simp only [List.mem_flatten, List.mem_map]
      exact ⟨ch.2, ⟨ch, hch, rfl⟩, hb⟩
    exact enc_b64 p b this

theorem kvPart_kv (k v : List Char) (hk : ∀ c ∈ k, (c != '=') = true) : kvPart (k ++ '=' :: v) = (k, v) := by
  unfold kvPart
  rw [takeWhile_app_cons k '=' v hk (by decide), dropWhile_app_cons k '=' v hk (by decide)]
  rfl

def kSize : List Char := ['s', 'i', 'z', 'e']
def kWidth : List Char := ['w', 'i', 'd', 't', 'h']
def kHeight : List Char := ['h', 'e', 'i', 'g', 'h', 't']
def kPAR : List Char := "preserveAspectRatio".toList
def kInline : List Char := "inline".toList
def kDNM : List Char := ['d', 'o', 'N', 'o', 't', 'M', 'o', 'v', 'e', 'C', 'u', 'r', 's', 'o', 'r']

theorem itermCtl_chars (w h : Nat) (konsole : Bool) (p : List Nat) :
    (C01.itermCmd w h konsole p).control.toList =
      joinSep ';' ([kSize ++ '=' :: Nat.toDigits 10 p.length, kWidth ++ '=' :: Nat.toDigits 10 w,
        kHeight ++ '=' :: Nat.toDigits 10 h, kPAR ++ '=' :: ['0'], kInline ++ '=' :: ['1']] ++
        (if konsole then [kDNM ++ '=' :: ['1']] else [])) := by
  have a1 : "size=".toList = kSize ++ ['='] := by decide
  have a2 : ";width=".toList = ';' :: (kWidth ++ ['=']) := by decide
  have a3 : ";height=".toList = ';' :: (kHeight ++ ['=']) := by decide
  have a4 : ";preserveAspectRatio=0;inline=1".toList = ';' :: (kPAR ++ '=' :: '0' :: ';' :: (kInline ++ ['=', '1'])) := by decide
  have a5 : ";doNotMoveCursor=1".toList = ';' :: (kDNM ++ ['=', '1']) := by decide
  cases konsole <;> simp [C01.itermCmd, toString, joinSep, a1, a2, a3, a4, a5]

theorem semi_digits (n : Nat) : ';' ∉ Nat.toDigits 10 n := by
  intro h; have := digits_isDigit n _ h; simp [Char.isDigit] at this

theorem digit_ictl (n : Nat) : ∀ c ∈ Nat.toDigits 10 n, isICtl c = true := by
  intro c hc
  have h1 := Scan.digit_isStrChar hc
  have h2 : c ≠ ':' := by intro e; subst e; have := digits_isDigit n _ hc; simp [Char.isDigit] at this
  simp [isICtl, h1, h2]

theorem parseICtl_itermCmd (w h : Nat) (konsole : Bool) (p : List Nat) :
    parseICtl (C01.itermCmd w h konsole p).control.toList = some (w, h, konsole) := by
  rw [itermCtl_chars]
  unfold parseICtl
  rw [splitC_joinSep]
  · have e1 := kvPart_kv kSize (Nat.toDigits 10 p.length) (by decide)
    have e2 := kvPart_kv kWidth (Nat.toDigits 10 w) (by decide)
    have e3 := kvPart_kv kHeight (Nat.toDigits 10 h) (by decide)
    have e4 := kvPart_kv kPAR ['0'] (by decide)
    have e5 := kvPart_kv kInline ['1'] (by decide)
    have e6 := kvPart_kv kDNM ['1'] (by decide)
    have n1 : (['w', 'i', 'd', 't', 'h'] == kDNM) = false := by decide
    have n2 : (['w', 'i', 'd', 't', 'h'] == kInline) = false := by decide
    have n3 : (['w', 'i', 'd', 't', 'h'] == kPAR) = false := by decide
    have n4 : (['w', 'i', 'd', 't', 'h'] == kHeight) = false := by decide
    have n5 : (['w', 'i', 'd', 't', 'h'] == kWidth) = true := by decide
    have m1 : (['h', 'e', 'i', 'g', 'h', 't'] == kDNM) = false := by decide
    have m2 : (['h', 'e', 'i', 'g', 'h', 't'] == kInline) = false := by decide
    have m3 : (['h', 'e', 'i', 'g', 'h', 't'] == kPAR) = false := by decide
    have m4 : (['h', 'e', 'i', 'g', 'h', 't'] == kHeight) = true := by decide
    have d1 : (['d', 'o', 'N', 'o', 't', 'M', 'o', 'v', 'e', 'C', 'u', 'r', 's', 'o', 'r'] == kDNM) = true := by decide
    have d2 : (['d', 'o', 'N', 'o', 't', 'M', 'o', 'v', 'e', 'C', 'u', 'r', 's', 'o', 'r'] == kInline) = false := by decide
    have d3 : (['d', 'o', 'N', 'o', 't', 'M', 'o', 'v', 'e', 'C', 'u', 'r', 's', 'o', 'r'] == kPAR) = false := by decide
    have d4 : (['d', 'o', 'N', 'o', 't', 'M', 'o', 'v', 'e', 'C', 'u', 'r', 's', 'o', 'r'] == kHeight) = false := by decide
    have d5 : (['d', 'o', 'N', 'o', 't', 'M', 'o', 'v', 'e', 'C', 'u', 'r', 's', 'o', 'r'] == kWidth) = false := by decide
    have d6 : (['d', 'o', 'N', 'o', 't', 'M', 'o', 'v', 'e', 'C', 'u', 'r', 's', 'o', 'r'] == kSize) = false := by decide
    cases konsole
    · simp only [Bool.false_eq_true, if_false, List.append_nil, List.map_cons, List.map_nil, e1, e2, e3, e4, e5,
        List.reverse_cons, List.reverse_nil, List.nil_append, List.cons_append, List.lookup, n2, n3, n4, n5, m2, m3, m4,
        d2, d3, d4, d5, d6, readNatAll_digits]
      rfl
    · simp only [if_true, List.cons_append, List.nil_append, List.map_cons, List.map_nil, e1, e2, e3, e4, e5, e6,
        List.reverse_cons, List.reverse_nil, List.lookup, n1, m1, d1, n2, n3, n4, n5, m2, m3, m4, readNatAll_digits]
      rfl
  · simp
  · intro i hi
    have h1 := semi_digits
    cases konsole <;> simp at hi <;> rcases hi with rfl | rfl | rfl | rfl | rfl | rfl <;>
      first | decide | (simp only [List.mem_append, List.mem_cons, not_or]; exact ⟨by decide, by decide, h1 _⟩)

theorem ictl_item (k v : List Char) (hk : ∀ c ∈ k, isICtl c = true) (hv : ∀ c ∈ v, isICtl c = true) :
    ∀ c ∈ k ++ '=' :: v, isICtl c = true := by
  intro c hc
  simp only [List.mem_append, List.mem_cons] at hc
  rcases hc with h | rfl | h
  · exact hk c h
  · decide
  · exact hv c h

/-- C01's iterm2 command is well formed, for every size, terminal flavour and payload -/
theorem wf_itermCmd (w h : Nat) (konsole : Bool) (p : List Nat) : wfITerm (C01.itermCmd w h konsole p) = true := by
  simp only [wfITerm, Bool.and_eq_true, beq_iff_eq]
  refine ⟨⟨?_, parseICtl_itermCmd ..⟩, ?_⟩
  · rw [List.all_eq_true, itermCtl_chars]
    intro c hc
    rcases mem_joinSep hc with rfl | ⟨i, hi, hci⟩
    · decide
    · have h1 := digit_ictl
      cases konsole <;> simp only [Bool.false_eq_true, if_false, if_true, List.append_nil, List.cons_append,
          List.nil_append, List.mem_cons, List.not_mem_nil, or_false] at hi <;>
        rcases hi with rfl | rfl | rfl | rfl | rfl | rfl <;>
        first
        | exact ictl_item _ _ (by decide) (h1 _) c hci
        | exact ictl_item _ _ (by decide) (by decide) c hci
  · rw [List.all_eq_true]; exact enc_b64 p

/-! ## every render of the three C01 models is read back -/

/-- BLOCK: the lexer reads back every block render (pixel components are bytes) -/
theorem lex_block_render (cfg : Block.Cfg) (rows : List (List Block.PP)) (h : ∀ row ∈ rows, ∀ p ∈ row, okPP p) :
    lex (toksStr (Block.render cfg rows)).toList = some (Block.render cfg rows) :=
  lex_toksStr _ (wf_blockRender cfg rows h)

theorem wf_kittyRender (a : C01.KittyArgs) (payloads : List (List Nat)) :
    WfToks (joinLines (C01.kittyLinesOf a payloads)) := by
  unfold C01.kittyLinesOf
  split
  · split
    · exact wf_kittyWhole _ _ _ _ _ (wf_kittyCmd ..)
    · exact wfToks_nil
  · apply wf_kittyLines
    intro k hk
    simp only [List.mem_map] at hk
    obtain ⟨p, _, rfl⟩ := hk
    exact wf_kittyCmd ..

/-- KITTY: the lexer reads back every kitty render (LINES and WHOLE, every flag, z-index, compression
    level, size and payload — chunked transmissions included) -/
theorem lex_kitty_render (a : C01.KittyArgs) (payloads : List (List Nat)) :
    lex (toksStr (joinLines (C01.kittyLinesOf a payloads))).toList = some (joinLines (C01.kittyLinesOf a payloads)) :=
  lex_toksStr _ (wf_kittyRender a payloads)

theorem wf_itermRender (a : C01.ITermArgs) (payloads : List (List Nat)) :
    WfToks (joinLines (C01.itermLinesOf a payloads)) := by
  unfold C01.itermLinesOf
  split
  · split
    · exact wf_itermWhole _ _ _ _ _ (wf_itermCmd ..)
    · exact wfToks_nil
  · apply wf_itermLines
    intro c hc
    simp only [List.mem_map] at hc
    obtain ⟨p, _, rfl⟩ := hc
    exact wf_itermCmd ..

/-- ITERM2: the lexer reads back every iterm2 render (LINES, WHOLE/ANIM, every terminal flavour) -/
theorem lex_iterm_render (a : C01.ITermArgs) (payloads : List (List Nat)) :
    lex (toksStr (joinLines (C01.itermLinesOf a payloads))).toList = some (joinLines (C01.itermLinesOf a payloads)) :=
  lex_toksStr _ (wf_itermRender a payloads)

/-! non-vacuity of the three render theorems: concrete renders with several lines and tokens -/
example : lex (toksStr (Block.render ⟨true, true, some (0, 0, 0), true⟩
      [[⟨(1, 2, 3), (0, 0, 0), 255, 255⟩, ⟨(1, 2, 3), (9, 9, 9), 0, 255⟩], [⟨(255, 255, 255), (7, 7, 7), 255, 0⟩, ⟨(0, 0, 0), (0, 0, 0), 0, 0⟩]])).toList =
    some (Block.render ⟨true, true, some (0, 0, 0), true⟩
      [[⟨(1, 2, 3), (0, 0, 0), 255, 255⟩, ⟨(1, 2, 3), (9, 9, 9), 0, 255⟩], [⟨(255, 255, 255), (7, 7, 7), 255, 0⟩, ⟨(0, 0, 0), (0, 0, 0), 0, 0⟩]]) :=
  lex_block_render _ _ (by decide)
example : Tok.bg (1, 0, 0) ∈ Block.render ⟨true, true, some (0, 0, 0), true⟩
      [[⟨(1, 2, 3), (0, 0, 0), 255, 255⟩, ⟨(1, 2, 3), (9, 9, 9), 0, 255⟩], [⟨(255, 255, 255), (7, 7, 7), 255, 0⟩, ⟨(0, 0, 0), (0, 0, 0), 0, 0⟩]] := by
  decide
example : Tok.kitty (C01.kittyCmd 32 4 2 (-1) 2 1 1 [4, 5, 6]) ∈
    joinLines (C01.kittyLinesOf ⟨false, false, false, -1, 1, 32, 2, 2, 4, 4⟩ [[1, 2, 3], [4, 5, 6]]) := by
  simp [C01.kittyLinesOf, Gfx.kittyLines, Gfx.kittyLine, joinLines]
example : Tok.iterm (C01.itermCmd 3 2 true [1, 2, 3]) ∈
    joinLines (C01.itermLinesOf ⟨true, true, false, false, 3, 2⟩ [[1, 2, 3]]) := by
  simp [C01.itermLinesOf, Gfx.itermWhole, joinLines]

end TIV.Lex
