import TIV.Common.WB
/-! basic lemmas about the terminal model used by every render proof -/
namespace TIV
open Term

theorem mem_rowCells {W r c n : Nat} {v : CellContent} {wr : Write} (h : wr ∈ rowCells W r c n v) :
    wr.1 = r ∧ c ≤ wr.2.1 ∧ wr.2.1 < c + n ∧ wr.2.1 < W := by
  unfold rowCells at h
  simp only [List.mem_map, List.mem_range] at h
  obtain ⟨i, hi, rfl⟩ := h
  have := Nat.lt_min.mp hi
  refine ⟨rfl, ?_, ?_, ?_⟩ <;> simp only <;> omega

theorem mem_rectCells {W r c cols rows : Nat} {v : CellContent} {wr : Write}
    (h : wr ∈ rectCells W r c cols rows v) :
    r ≤ wr.1 ∧ wr.1 < r + rows ∧ c ≤ wr.2.1 ∧ wr.2.1 < c + cols ∧ wr.2.1 < W := by
  unfold rectCells at h
  simp only [List.mem_flatMap, List.mem_range] at h
  obtain ⟨i, hi, hm⟩ := h
  have := mem_rowCells hm
  omega

theorem param_pos {n : Nat} (h : 0 < n) : param n = n := by
  unfold param; split <;> omega

/-- positions written by a row fill, when it fits -/
theorem rowCells_covers {W r c n : Nat} {v : CellContent} (hfit : c + n ≤ W) {j : Nat} (hj : j < n) :
    (r, c + j, v) ∈ rowCells W r c n v := by
  unfold rowCells
  simp only [List.mem_map, List.mem_range]
  exact ⟨j, by omega, rfl⟩

theorem rectCells_covers {W r c cols rows : Nat} {v : CellContent} (hfit : c + cols ≤ W)
    {i j : Nat} (hi : i < rows) (hj : j < cols) :
    (r + i, c + j, v) ∈ rectCells W r c cols rows v := by
  unfold rectCells
  simp only [List.mem_flatMap, List.mem_range]
  exact ⟨i, hi, rowCells_covers hfit hj⟩

end TIV
