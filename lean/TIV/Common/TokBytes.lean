import TIV.Common.Tok
import TIV.Common.GenCtl
/-!
# Serialisation of tokens with the generated control-sequence templates.
`Tok.str` is the exact string the library writes for the token.
-/
namespace TIV

/-- interleave the literal pieces of a printf template with its arguments -/
def fill : List String → List String → String
  | [], _ => ""
  | [p], _ => p
  | p :: ps, [] => p ++ fill ps []
  | p :: ps, a :: as => p ++ a ++ fill ps as

def asciiStr (bs : List Nat) : String := String.ofList (bs.map fun b => Char.ofNat b)

def Glyph.str : Glyph → String
  | .blank => " "
  | .upper => GenCtl.UPPER_PIXEL
  | .lower => GenCtl.LOWER_PIXEL
  | .ch c => String.singleton c

def KittyCmd.str (k : KittyCmd) : String :=
  match k.chunks with
  | [] => ""
  | (m, c) :: rest =>
    fill GenCtl.KITTY_TRANSMISSION [k.control ++ ",m=" ++ (if m then "1" else "0"), asciiStr c]
      ++ String.join (rest.map fun (m, c) =>
          fill GenCtl.KITTY_TRANSMISSION [if m then "m=1" else "m=0", asciiStr c])

def ITermCmd.str (i : ITermCmd) : String :=
  fill GenCtl.ITERM2_START [] ++ i.control ++ ":" ++ asciiStr i.payload ++ fill GenCtl.ST []

def Tok.str : Tok → String
  | .glyph g => g.str
  | .nul => "\x00"
  | .sgr0 => fill GenCtl.SGR_DEFAULT []
  | .fg (r, g, b) => fill GenCtl.SGR_FG_DIRECT [toString r, toString g, toString b]
  | .bg (r, g, b) => fill GenCtl.SGR_BG_DIRECT [toString r, toString g, toString b]
  | .cuu n => fill GenCtl.CURSOR_UP [toString n]
  | .cud n => fill GenCtl.CURSOR_DOWN [toString n]
  | .cuf n => fill GenCtl.CURSOR_FORWARD [toString n]
  | .cub n => fill GenCtl.CURSOR_BACKWARD [toString n]
  | .ech n => fill GenCtl.ERASE_CHARS [toString n]
  | .lf => "\n"
  | .cr => "\r"
  | .hideCur => fill GenCtl.HIDE_CURSOR []
  | .showCur => fill GenCtl.SHOW_CURSOR []
  | .syncBegin => fill GenCtl.BEGIN_SYNCED_UPDATE []
  | .syncEnd => fill GenCtl.END_SYNCED_UPDATE []
  | .kitty k => k.str
  | .kittyDelCursor => fill GenCtl.KITTY_DELETE_CURSOR []
  | .kittyDelAll => fill GenCtl.KITTY_DELETE_ALL []
  | .kittyDelZ z => fill GenCtl.KITTY_DELETE_Z_INDEX [toString z]
  | .kittyEndChunked => fill GenCtl.KITTY_END_CHUNKED []
  | .iterm i => i.str
  | .st => fill GenCtl.ST []

def toksStr (ts : List Tok) : String := String.join (ts.map Tok.str)

end TIV
