import TIV.Common.Wire
/-! stdin/stdout loop shared by the per-property drivers -/
namespace TIV

partial def driverLoop (inp out : IO.FS.Stream) (handler : Wire.Handler) : IO Unit := do
  let line ← inp.getLine
  if line.isEmpty then return ()
  let toks := (line.trimAscii.toString.splitOn " ").filter (· ≠ "")
  let resp := match toks with
    | [] => "bad-op"
    | op :: args => (handler op args).getD "bad-op"
  out.putStrLn resp
  driverLoop inp out handler

def driverMain (handler : Wire.Handler) : IO Unit := do
  let inp ← IO.getStdin
  let out ← IO.getStdout
  driverLoop inp out handler
  out.flush

end TIV
