import TIV.Common.Gfx
import TIV.Common.TermLemmas
/-! `LineOK` for every line shape of the kitty and iterm2 renderers -/
namespace TIV.Gfx
open TIV Term

def anyKind : TermKind → Prop := fun _ => True
def isKonsole : TermKind → Prop := fun k => k = .konsole
def notKonsole : TermKind → Prop := fun k => k ≠ .konsole

/-- unfold a concrete short token line on a symbolic terminal -/
macro "tsimp" : tactic =>
  `(tactic| (simp [kittyLine, fillToks, eraseToks, upToks, itermLine, Term.run, step, fillRow, touchRect,
      Nat.min_comm, *]) <;> omega)

theorem frame_of {t t' : Term} (h1 : t'.W = t.W) (h2 : t'.H = t.H) (h3 : t'.kind = t.kind)
    (h4 : t'.top = t.top) (h5 : t'.lm = t.lm) (h6 : t'.vis = t.vis) (h7 : t'.wrapped = t.wrapped)
    (h8 : t'.scrolls = t.scrolls) : Frame t t' := ⟨h1, h2, h3, h4, h5, h6, h7, h8⟩

theorem inRect_row {t : Term} {r0 x w h i : Nat} (hR : Ready t r0 x w h i) (v : CellContent) :
    ∀ wr ∈ rowCells t.W t.row t.col w v, InRect r0 x w h wr := by
  intro wr hwr
  have := mem_rowCells hwr
  have h1 := hR.row; have h2 := hR.col; have h3 := hR.hi
  unfold InRect; omega

theorem inRect_rect {t : Term} {r0 x w h i : Nat} (hR : Ready t r0 x w h i) (rows : Nat) (hr : i + rows ≤ h) :
    ∀ wr ∈ rectCells t.W t.row t.col w rows .image, InRect r0 x w h wr := by
  intro wr hwr
  have := mem_rectCells hwr
  have h1 := hR.row; have h2 := hR.col; have h3 := hR.hi
  unfold InRect; omega

theorem covers_rect {t : Term} {r0 x w h i : Nat} (hR : Ready t r0 x w h i) (rows : Nat) (new : List Write)
    (hsub : ∀ wr ∈ rectCells t.W t.row t.col w rows .image, wr ∈ new) :
    ∀ di, (i ≤ di ∧ di < i + rows) → CoversRow new r0 x w di := by
  intro di hdi j hj
  refine ⟨.image, hsub _ ?_⟩
  have h1 := hR.row; have h2 := hR.col; have h3 := hR.fitW
  have := rectCells_covers (W := t.W) (r := t.row) (c := t.col) (cols := w) (rows := rows) (v := .image)
    (by omega) (i := di - i) (j := j) (by omega) hj
  have e1 : t.row + (di - i) = r0 + di := by omega
  rw [e1] at this; rw [← h2]; exact this

theorem covers_rect0 {t : Term} {r0 x w h i : Nat} (hR : Ready t r0 x w h i) (new : List Write)
    (hsub : ∀ wr ∈ rectCells t.W r0 t.col w h .image, wr ∈ new) :
    ∀ di, di < h → CoversRow new r0 x w di := by
  intro di hdi j hj
  refine ⟨.image, hsub _ ?_⟩
  have h2 := hR.col; have h3 := hR.fitW
  have := rectCells_covers (W := t.W) (r := r0) (c := t.col) (cols := w) (rows := h) (v := .image)
    (by omega) (i := di) (j := j) hdi hj
  rw [← h2]; exact this

def noRows : Nat → Prop := fun _ => False
def rowsFrom (i n : Nat) : Nat → Prop := fun di => i ≤ di ∧ di < i + n

/-- `fill` alone (kitty WHOLE lines after the first) -/
theorem fill_ok (mix : Bool) (w h i : Nat) : LineOK anyKind w h i .kept noRows (fillToks mix w) := by
  intro t r0 x _ hR
  have hp := param_pos hR.hw
  have hc := hR.col
  cases mix
  · exact ⟨frame_of (by tsimp) (by tsimp) (by tsimp) (by tsimp) (by tsimp) (by tsimp) (by tsimp) (by tsimp),
      by tsimp, by tsimp, by tsimp, ⟨by tsimp, by tsimp⟩,
      ⟨rowCells t.W t.row t.col w (.erased t.bg), by tsimp, inRect_row hR _, fun _ h => h.elim⟩⟩
  · exact ⟨frame_of (by tsimp) (by tsimp) (by tsimp) (by tsimp) (by tsimp) (by tsimp) (by tsimp) (by tsimp),
      by tsimp, by tsimp, by tsimp, ⟨by tsimp, by tsimp⟩, ⟨[], by tsimp, by simp, fun _ h => h.elim⟩⟩

/-- a kitty line carrying a transmission of `w × rows` cells with `i + rows ≤ h` -/
theorem kittyLine_ok (blend mix : Bool) (w h i : Nat) (k : KittyCmd) (hc : k.cols = w) (hr : i + k.rows ≤ h) :
    LineOK anyKind w h i .kept (rowsFrom i k.rows) (kittyLine blend mix w k) := by
  intro t r0 x _ hR
  have hp := param_pos hR.hw
  have hcol := hR.col
  have hin := inRect_rect hR k.rows hr
  have hin2 := inRect_row (h := h) hR (.erased t.bg)
  cases blend <;> cases mix
  all_goals
    refine ⟨frame_of (by tsimp) (by tsimp) (by tsimp) (by tsimp) (by tsimp) (by tsimp) (by tsimp) (by tsimp),
      by tsimp, by tsimp, by tsimp, ⟨by tsimp, by tsimp⟩, ?_⟩
  · exact ⟨rowCells t.W t.row t.col w (.erased t.bg) ++ rectCells t.W t.row t.col w k.rows .image, by tsimp,
      by intro wr hwr; rcases List.mem_append.mp hwr with h | h; exact hin2 wr h; exact hin wr h,
      covers_rect hR k.rows _ (fun _ h => List.mem_append.mpr (Or.inr h))⟩
  · exact ⟨rectCells t.W t.row t.col w k.rows .image, by tsimp, hin, covers_rect hR k.rows _ (fun _ h => h)⟩
  · exact ⟨rowCells t.W t.row t.col w (.erased t.bg) ++ rectCells t.W t.row t.col w k.rows .image, by tsimp,
      by intro wr hwr; rcases List.mem_append.mp hwr with h | h; exact hin2 wr h; exact hin wr h,
      covers_rect hR k.rows _ (fun _ h => List.mem_append.mpr (Or.inr h))⟩
  · exact ⟨rectCells t.W t.row t.col w k.rows .image, by tsimp, hin, covers_rect hR k.rows _ (fun _ h => h)⟩


/-- `[cuf w]` alone (iterm2 WHOLE on konsole, lines after the first) -/
theorem cuf_ok (w h i : Nat) : LineOK anyKind w h i .kept noRows [Tok.cuf w] := fill_ok true w h i

/-- iterm2 LINES on konsole: the image does not move the cursor, `cursor_right` does -/
theorem itermLine_ok_konsole (erase : Bool) (w h i : Nat) (c : ITermCmd) (hc : c.cols = w) (hr : i + c.rows ≤ h)
    (hn : c.noMove = true) : LineOK isKonsole w h i .kept (rowsFrom i c.rows) (itermLine erase true w c) := by
  intro t r0 x hK hR
  have hK' : t.kind = .konsole := hK
  have hp := param_pos hR.hw
  have hcol := hR.col
  have hin := inRect_rect hR c.rows hr
  have hin2 := inRect_row (h := h) hR (.erased t.bg)
  cases erase
  all_goals
    refine ⟨frame_of (by tsimp) (by tsimp) (by tsimp) (by tsimp) (by tsimp) (by tsimp) (by tsimp) (by tsimp),
      by tsimp, by tsimp, by tsimp, ⟨by tsimp, by tsimp⟩, ?_⟩
  · exact ⟨rectCells t.W t.row t.col w c.rows .image, by tsimp, hin, covers_rect hR c.rows _ (fun _ h => h)⟩
  · exact ⟨rectCells t.W t.row t.col w c.rows .image ++ rowCells t.W t.row t.col w (.erased t.bg), by tsimp,
      by intro wr hwr; rcases List.mem_append.mp hwr with h | h; exact hin wr h; exact hin2 wr h,
      covers_rect hR c.rows _ (fun _ h => List.mem_append.mpr (Or.inl h))⟩

/-- iterm2 LINES elsewhere: a one-line image leaves the cursor just past it on the same line -/
theorem itermLine_ok_other (erase : Bool) (w h i : Nat) (c : ITermCmd) (hc : c.cols = w) (hr : c.rows = 1)
    (hn : c.noMove = false) : LineOK notKonsole w h i .kept (rowsFrom i 1) (itermLine erase false w c) := by
  intro t r0 x _ hR
  have hp := param_pos hR.hw
  have hcol := hR.col
  have hin := inRect_rect hR 1 (by have := hR.hi; omega)
  have hin2 := inRect_row (h := h) hR (.erased t.bg)
  have hrow := hR.row; have hvb := hR.visBot; have hi := hR.hi
  have hover : t.row - (t.top + t.H - 1) = 0 := by omega
  cases erase
  all_goals
    refine ⟨frame_of (by tsimp) (by tsimp) (by tsimp) (by tsimp) (by tsimp) (by tsimp) (by tsimp) (by tsimp),
      by tsimp, by tsimp, by tsimp, ⟨by tsimp, by tsimp⟩, ?_⟩
  · exact ⟨rectCells t.W t.row t.col w 1 .image, by tsimp, hin, covers_rect hR 1 _ (fun _ h => h)⟩
  · exact ⟨rectCells t.W t.row t.col w 1 .image ++ rowCells t.W t.row t.col w (.erased t.bg), by tsimp,
      by intro wr hwr; rcases List.mem_append.mp hwr with h | h; exact hin wr h; exact hin2 wr h,
      covers_rect hR 1 _ (fun _ h => List.mem_append.mpr (Or.inl h))⟩

/-- iterm2 WHOLE on konsole, first line: the whole image, then `cursor_right` -/
theorem itermWholeFirst_ok_konsole (erase : Bool) (w h : Nat) (c : ITermCmd) (hc : c.cols = w) (hr : c.rows ≤ h)
    (hn : c.noMove = true) : LineOK isKonsole w h 0 .kept (rowsFrom 0 c.rows) (eraseToks erase w ++ [Tok.iterm c, Tok.cuf w]) := by
  have := itermLine_ok_konsole erase w h 0 c hc (by omega) hn
  simpa [itermLine] using this

/-- iterm2 WHOLE elsewhere, last line: erase, go up to the first line, draw the whole image;
    the image leaves the cursor on its last line just past its last column -/
theorem itermWholeLast_ok_other (erase : Bool) (w h : Nat) (c : ITermCmd) (hc : c.cols = w) (hr : c.rows = h)
    (hn : c.noMove = false) (hh : 0 < h) :
    LineOK notKonsole w h (h - 1) .kept (fun di => di < h) (eraseToks erase w ++ upToks h ++ [Tok.iterm c]) := by
  intro t r0 x _ hR
  have hp := param_pos hR.hw
  have hcol := hR.col
  have hrow := hR.row; have hvb := hR.visBot; have hvt := hR.visTop
  have hin2 := inRect_row (h := h) hR (.erased t.bg)
  have hin : ∀ wr ∈ rectCells t.W r0 t.col w h .image, InRect r0 x w h wr := by
    intro wr hwr
    have := mem_rectCells hwr
    unfold InRect; omega
  by_cases h1 : h = 1
  · subst h1
    have hr0 : t.row = r0 := by omega
    have hover : r0 - (t.top + t.H - 1) = 0 := by omega
    cases erase
    all_goals
      refine ⟨frame_of (by tsimp) (by tsimp) (by tsimp) (by tsimp) (by tsimp) (by tsimp) (by tsimp) (by tsimp),
        by tsimp, by tsimp, by tsimp, ⟨by tsimp, by tsimp⟩, ?_⟩
    · exact ⟨rectCells t.W r0 t.col w 1 .image, by tsimp, hin, covers_rect0 hR _ (fun _ h => h)⟩
    · exact ⟨rectCells t.W r0 t.col w 1 .image ++ rowCells t.W t.row t.col w (.erased t.bg), by tsimp,
        by intro wr hwr; rcases List.mem_append.mp hwr with h | h; exact hin wr h; exact hin2 wr h,
        covers_rect0 hR _ (fun _ h => List.mem_append.mpr (Or.inl h))⟩
  · have hgt : h > 1 := by omega
    have hp2 : param (h - 1) = h - 1 := param_pos (by omega)
    have hup : max t.top (t.row - (h - 1)) = r0 := by omega
    have hback : r0 + h - 1 = t.row := by omega
    have hover : t.row - (t.top + t.H - 1) = 0 := by omega
    cases erase
    all_goals
      refine ⟨frame_of (by tsimp) (by tsimp) (by tsimp) (by tsimp) (by tsimp) (by tsimp) (by tsimp) (by tsimp),
        by tsimp, by tsimp, by tsimp, ⟨by tsimp, by tsimp⟩, ?_⟩
    · exact ⟨rectCells t.W r0 t.col w h .image, by tsimp, hin, covers_rect0 hR _ (fun _ h => h)⟩
    · exact ⟨rectCells t.W r0 t.col w h .image ++ rowCells t.W t.row t.col w (.erased t.bg), by tsimp,
        by intro wr hwr; rcases List.mem_append.mp hwr with h | h; exact hin wr h; exact hin2 wr h,
        covers_rect0 hR _ (fun _ h => List.mem_append.mpr (Or.inl h))⟩

end TIV.Gfx
