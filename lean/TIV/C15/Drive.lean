import TIV.Common.Wire
import TIV.C15.Model
/-! driver ops of C15: `run` (a history over the sequential model), `conc` (a coarse schedule
    over the lock model of `cached`), `divbits` (CPython int/int), `proviso` (the two provisos) -/
namespace TIV.C15
open TIV.Wire

def pStr : P Str := do let b ← hex; pure (b.map (·.toNat))

def pRGB : P RGB := do let r ← nat; let g ← nat; let b ← nat; pure (r, g, b)

def pTerm : P Term := do
  let ioctlFail ← bool; let ansCell ← bool; let ansArea ← bool; let termux ← bool; let kittyGfx ← bool
  let xtv ← optOf (do let n ← pStr; let v ← pStr; pure (n, v))
  let envProg ← optOf pStr; let envVer ← optOf pStr
  let fg ← optOf pRGB; let bg ← optOf pRGB
  pure { ioctlFail, ansCell, ansArea, termux, kittyGfx, xtv, envProg, envVer, fg, bg }

def pWin : P Win := do
  let cols ← nat; let rows ← nat; let xpx ← nat; let ypx ← nat
  let cw ← nat; let ch ← nat; let aw ← nat; let ah ← nat
  pure { cols, rows, xpx, ypx, cw, ch, aw, ah }

def pOp : P Op := do
  let t ← word
  match t with
  | "rs" => do let w ← pWin; pure (.resize w)
  | "swon" => pure .swapOn
  | "swoff" => pure .swapOff
  | "qon" => pure .qOn
  | "qoff" => pure .qOff
  | "sr" => do
    let k ← word
    match k with
    | "fixed" => pure (.setRatio .fixed)
    | "dynamic" => pure (.setRatio .dynamic)
    | "lit" => do let b ← nat; pure (.setRatio (.lit b))
    | _ => failure
  | "acr" => do let v ← optOf bool; pure (.setAcr v)
  | "gcs" => pure .getCellSize
  | "gcsr" => do let p ← nat; let w ← pWin; pure (.getCellSizeR p w)
  | "gcr" => pure .getCellRatio
  | "use" => do
    let k ← word; let n ← nat
    match k with
    | "cp" => pure (.useCell .colsPx n)
    | "lp" => pure (.useCell .linesPx n)
    | "pc" => pure (.useCell .pxCols n)
    | "pl" => pure (.useCell .pxLines n)
    | "rs" => pure (.useCell .renderSize n)
    | _ => failure
  | "gco" => do
    let k ← word
    match k with
    | "0" => pure (.getColors .noarg)
    | "F" => pure (.getColors .hexF)
    | "T" => pure (.getColors .hexT)
    | _ => failure
  | "gnv" => pure .getNV
  | "iok" => pure .isOnKitty
  | "ksup" => pure .kittySup
  | "isup" => pure .itermSup
  | "tsc" => pure .tsc
  | "tsci" => pure .tscInval
  | "pr" => do let a ← nat; pure (.probe a)
  | "pri" => pure .probeInval
  | "tscr" => pure .tscRaise
  | "sp" => pure .startProc
  | _ => failure

def hex16 (n : Nat) : String :=
  String.ofList ((List.range 16).reverse.map (fun i => hexDigit (n / 16 ^ i % 16)))

def hex2 (n : Nat) : String := String.ofList [hexDigit (n / 16 % 16), hexDigit (n % 16)]

def fmtColor (hx : Bool) : Option RGB → String
  | none => "none"
  | some (r, g, b) =>
    if hx then "s:" ++ hex2 r ++ hex2 g ++ hex2 b else s!"t:{r},{g},{b}"

def fmtOStr : Option Str → String
  | none => "none"
  | some s => "s" ++ hexEncode (s.map UInt8.ofNat)

def fmtErr : Err → String
  | .valueError => "ValueError" | .termImageError => "TermImageError" | .attributeError => "AttributeError"
  | .runtimeError => "RuntimeError"

def fmtEv : Ev → String
  | .cellRead => "cr" | .qCell => "qc" | .qColors => "qo" | .qName => "qn" | .qKitty => "qk"
  | .bProbe => "bp" | .bTsc => "bt"

def fmtVal : Val → String
  | .unit => "-"
  | .cell none => "none"
  | .cell (some (w, h)) => s!"size {w} {h}"
  | .ratio r => "r " ++ hex16 (ratioBits r)
  | .colors hx fg bg => "col " ++ fmtColor hx fg ++ " " ++ fmtColor hx bg
  | .nv n v => "nv " ++ fmtOStr n ++ " " ++ fmtOStr v
  | .bool b => if b then "T" else "F"
  | .num n => s!"n{n}"
  | .stamp c r x y => s!"st {c} {r} {x} {y}"
  | .err e => "err:" ++ fmtErr e

def fmtOut (o : Val × List Ev) : String :=
  fmtVal o.1 ++ (if o.2.isEmpty then "" else "~" ++ String.intercalate "," (o.2.map fmtEv))

def fmtPC : Conc.PC → String
  | .start => "start" | .locked => "locked" | .miss => "miss"
  | .ran v => s!"ran{v}" | .have v => s!"have{v}" | .done v => s!"done{v}"

def handler : Handler := fun op args =>
  match op with
  | "run" => Wire.run (do
      let T ← pTerm; let w ← pWin; let ops ← listOf pOp
      let r := TIV.C15.run T (St.init w) ops
      pure ("ok " ++ String.intercalate "|" (r.2.map fmtOut))) args
  | "conc" => Wire.run (do
      let as ← listOf nat; let sched ← listOf nat
      let arg := fun t => as.getD t 0
      let s := Conc.runC arg Conc.CSt.init sched
      let per := (List.range as.length).map (fun t =>
        fmtPC (s.pc t) ++ "/" ++ toString (s.runs (arg t)) ++ "/" ++
          (match s.cache (arg t) with | some v => toString v | none => "none"))
      pure ("ok " ++ String.intercalate " " per)) args
  | "race" => Wire.run (do
      -- race <n> <c0: none|some b> <steps…> <k>: the toggle does k steps, the reader runs as far as it
      -- can, the toggle finishes, the reader finishes
      let n ← bool; let c0 ← optOf bool; let steps ← listOf nat; let k ← nat
      let prog := Race.decode steps
      let sched := List.replicate k Race.Who.T ++ List.replicate 5 Race.Who.R ++
        List.replicate 4 Race.Who.T ++ List.replicate 5 Race.Who.R
      let s := Race.rrun prog n (Race.RSt.init n c0) sched
      let cache := match s.cache with
        | none => "empty" | some c => if c == s.flag then "fresh" else "stale"
      let rv := match s.rval with
        | none => "none" | some f => if f == n then "new" else "old"
      pure ("ok " ++ fmtBool s.flag ++ " " ++ cache ++ " " ++ rv ++ " " ++ toString s.pc)) args
  | "racer" => Wire.run (do
      -- racer <n> <c0> <steps…> <j>: the reader (an in-flight call) does j steps, the toggle runs as far
      -- as it can, the reader finishes, the toggle finishes
      let n ← bool; let c0 ← optOf bool; let steps ← listOf nat; let j ← nat
      let _tag ← word  -- which cached function the harness ran (nv / co)
      let prog := Race.decode steps
      let sched := List.replicate j Race.Who.R ++ List.replicate 4 Race.Who.T ++
        List.replicate 5 Race.Who.R ++ List.replicate 4 Race.Who.T
      let s := Race.rrun prog n (Race.RSt.init n c0) sched
      let cache := match s.cache with
        | none => "empty" | some c => if c == s.flag then "fresh" else "stale"
      let rv := match s.rval with
        | none => "none" | some f => if f == n then "new" else "old"
      pure ("ok " ++ fmtBool s.flag ++ " " ++ cache ++ " " ++ rv)) args
  | "waiter" => Wire.run (do
      -- a lookup (T2) that has to wait for `_cell_size_lock` held by another lookup (T1 at window A): the
      -- size is read only after the lock was obtained, so T2 is a plain lookup at the window current then (C);
      -- window B, current only while T2 waited, is never read.  Values: the first lookup, T1, T2, then lookups back at B, at C, at A.
      let T ← pTerm; let P ← pWin; let A ← pWin; let B ← pWin; let C ← pWin
      -- an earlier successful lookup at window P, then the terminal becomes A
      let r := TIV.C15.run T (St.init P)
        -- T1 itself is overtaken by the resize to C right after its ioctl (`getCellSizeR 2 C`)
        [.getCellSize, .resize A, .getCellSizeR 2 C, .getCellSize, .resize B, .getCellSize, .resize C, .getCellSize, .resize A,
         .getCellSize]
      let vals := r.2.filterMap (fun o => match o.1 with | .cell c => some (fmtVal (.cell c)) | _ => none)
      pure ("ok " ++ String.intercalate "|" vals)) args
  | "handover" => Wire.run (do
      -- first Process.start() with a lookup in flight, then a toggle: in the model the hand-over is atomic
      -- w.r.t. lookups (`startProc` leaves the state alone), so after the effective toggle the cache is
      -- cleared (`toggles_invalidate`) whatever the lookup stored before it
      let t ← word
      let op ← (if t == "swon" then pure Op.swapOn else if t == "qon" then pure Op.qOn else failure)
      let s0 : St := St.init { cols := 100, rows := 40, xpx := 1000, ypx := 800, cw := 10, ch := 20, aw := 1000, ah := 800 }
      let s0 : St := if t == "qon" then { s0 with queries := false } else s0
      let T : Term := { ioctlFail := false, ansCell := true, ansArea := false, termux := false, kittyGfx := false,
                        xtv := none, envProg := none, envVer := none, fg := none, bg := none }
      let s := exec T s0 [.getCellSize, .startProc, .resize { cols := 100, rows := 40, xpx := 1200, ypx := 1000, cw := 12, ch := 25, aw := 1200, ah := 1000 }, op]
      pure (if s.cc == CC.cleared then "ok fresh" else "ok stale")) args
  | "divbits" => Wire.run (do let a ← nat; let b ← nat; pure ("ok " ++ hex16 (divBits a b))) args
  | _ => none

end TIV.C15
