import TIV.C15.Model
/-! helper lemmas for C15: the freshness invariant and its preservation -/
set_option linter.unusedSimpArgs false
namespace TIV.C15

/-- the cell cache as filled for window `l` with settings `swap`, `q` -/
def filled (T : Term) (l : Win) (swap q : Bool) : CC :=
  ⟨l.cols, l.rows, (computeCell T l swap q).1.1, (computeCell T l swap q).1.2⟩

/-- INVARIANT.  `g` = window at the last `get_cell_size` call since the last effective toggle,
    `gt` = window at the last call of the `terminal_size_cached` probe since its invalidation.
    `q = true ∨ s.queries = false`: a value computed while queries were disabled exists only
    while they still are.  `sc = false` / `stt = false` drop the part that needs the cell / probe proviso (so that the
    query-related parts hold over *every* history). -/
structure Inv (sc stt : Bool) (T : Term) (s : Core) (g gt : Option Win) : Prop where
  winOk : s.win.ok
  gOk : ∀ l, g = some l → l.ok
  cell : sc = true → s.cc = CC.cleared ∨
    ∃ l q, g = some l ∧ s.cc = filled T l s.swap q ∧ (q = true ∨ s.queries = false)
  colors : ∀ k v, s.colors k = some v → ∃ q, v = colorsBody T q ∧ (q = true ∨ s.queries = false)
  nv : ∀ v, s.nv = some v → ∃ q, v = nameBody T q ∧ (q = true ∨ s.queries = false)
  tsc : stt = true → s.tsc = none ∨ ∃ l, gt = some l ∧ s.tsc = some (tscBody l, (l.cols, l.rows))
  rColors : ∀ k, s.rColors k = if (s.colors k).isSome then 1 else 0
  rNv : s.rNv = if s.nv.isSome then 1 else 0
  rProbe : ∀ a, s.rProbe a = if (s.probe a).isSome then 1 else 0
  ratio : ∀ r, s.ratio = some r → r.truthy = true

theorem cleared_ne_filled (T : Term) (l : Win) (sw q : Bool) (h : l.ok) : filled T l sw q ≠ CC.cleared := by
  intro e
  have : l.cols = 0 := by simpa [filled, CC.cleared] using congrArg CC.c e
  unfold Win.ok at h; omega

theorem inv_init (sc stt : Bool) (T : Term) (w : Win) (h : w.ok) : Inv sc stt T (Core.init w) none none where
  winOk := h
  gOk := by intro l e; cases e
  cell := fun _ => Or.inl rfl
  colors := by intro k v e; cases e
  nv := by intro v e; cases e
  tsc := fun _ => Or.inl rfl
  rColors := by intro k; rfl
  rNv := rfl
  rProbe := by intro a; rfl
  ratio := by intro r e; cases e; decide

/-! ### get_cell_size -/

theorem getCellSize_reads (T : Term) (s : Core) : readsCell (getCellSize T s).2.2 = true := by
  unfold getCellSize; split <;> simp [readsCell]

/-- what `get_cell_size` returns and leaves behind, given the invariant and the proviso -/
theorem getCellSize_spec (sc stt : Bool) (T : Term) (s : Core) (g gt : Option Win) (hI : Inv sc stt T s g gt)
    (hst : sc = true) (hp : provisoAt g s.win) :
    ∃ q, (q = true ∨ s.queries = false) ∧ (q = s.queries ∨ s.cc ≠ CC.cleared) ∧
      (getCellSize T s).1 = { s with cc := filled T s.win s.swap q } ∧
      (getCellSize T s).2.1 = sizeOf (computeCell T s.win s.swap q).1 := by
  unfold getCellSize
  split
  · rename_i hhit
    rcases hI.cell hst with hc | ⟨l, q, hg, hcc, hq⟩
    · exfalso
      have := hI.winOk; unfold Win.ok at this
      rw [hc] at hhit; simp [CC.cleared] at hhit; omega
    · have hl : l = s.win := by
        apply hp l hg
        rw [hcc] at hhit; simp [filled] at hhit
        exact ⟨hhit.1.symm, hhit.2.symm⟩
      subst hl
      refine ⟨q, hq, Or.inr ?_, ?_, ?_⟩
      · rw [hcc]; exact cleared_ne_filled T _ _ _ hI.winOk
      · cases s; simp_all
      · rw [hcc]; rfl
  · refine ⟨s.queries, ?_, Or.inl rfl, rfl, rfl⟩
    cases s.queries <;> simp

theorem getCellSize_frame (T : Term) (s : Core) : ∃ c, (getCellSize T s).1 = { s with cc := c } := by
  unfold getCellSize; split
  · exact ⟨s.cc, by cases s; rfl⟩
  · exact ⟨_, rfl⟩

theorem inv_getCellSize (sc stt : Bool) (T : Term) (s : Core) (g gt : Option Win) (hI : Inv sc stt T s g gt)
    (hp : sc = true → provisoAt g s.win) : Inv sc stt T (getCellSize T s).1 (some s.win) gt := by
  cases sc with
  | true =>
    obtain ⟨q, hq, _, hs, _⟩ := getCellSize_spec true stt T s g gt hI rfl (hp rfl)
    rw [hs]
    exact {
      winOk := hI.winOk
      gOk := by intro l e; cases e; exact hI.winOk
      cell := fun _ => Or.inr ⟨s.win, q, rfl, rfl, hq⟩
      colors := hI.colors, nv := hI.nv, tsc := hI.tsc, rColors := hI.rColors, rNv := hI.rNv
      rProbe := hI.rProbe, ratio := hI.ratio }
  | false =>
    obtain ⟨c, hc⟩ := getCellSize_frame T s
    rw [hc]
    exact {
      winOk := hI.winOk
      gOk := by intro l e; cases e; exact hI.winOk
      cell := fun h => by cases h
      colors := hI.colors, nv := hI.nv, tsc := hI.tsc, rColors := hI.rColors, rNv := hI.rNv
      rProbe := hI.rProbe, ratio := hI.ratio }

theorem proviso_self (w : Win) : provisoAt (some w) w := by
  intro l e _; cases e; rfl

/-! ### cached query features -/

theorem getNV_reads (T : Term) (s : Core) : readsCell (getNV T s).2.2 = false := by
  unfold getNV; split <;> simp [readsCell]

theorem inv_getNV (sc stt : Bool) (T : Term) (s : Core) (g gt : Option Win) (hI : Inv sc stt T s g gt) :
    Inv sc stt T (getNV T s).1 g gt := by
  unfold getNV
  split
  · exact hI
  · rename_i hnone
    exact {
      winOk := hI.winOk, gOk := hI.gOk, cell := hI.cell, colors := hI.colors
      nv := by
        intro v e; simp at e; subst e
        refine ⟨s.queries, rfl, ?_⟩; cases s.queries <;> simp
      tsc := hI.tsc, rColors := hI.rColors
      rNv := by have := hI.rNv; simp [hnone] at this ⊢; exact this
      rProbe := hI.rProbe, ratio := hI.ratio }

/-- `get_terminal_name_version` returns a value computed with queries enabled, or with them
    disabled while they still are -/
theorem getNV_val (sc stt : Bool) (T : Term) (s : Core) (g gt : Option Win) (hI : Inv sc stt T s g gt) :
    ∃ q, (getNV T s).2.1 = nameBody T q ∧ (q = true ∨ s.queries = false) := by
  unfold getNV
  split
  · rename_i v hv; exact hI.nv v hv
  · refine ⟨s.queries, rfl, ?_⟩; cases s.queries <;> simp

theorem getNV_core (T : Term) (s : Core) :
    (getNV T s).1 = s ∨ (s.nv = none ∧ (getNV T s).1 = { s with nv := some (nameBody T s.queries), rNv := s.rNv + 1 }) := by
  unfold getNV; split
  · exact Or.inl rfl
  · rename_i h; exact Or.inr ⟨h, rfl⟩

theorem getColors_reads (T : Term) (s : Core) (k : CKey) : readsCell (getColors T s k).2.2 = false := by
  unfold getColors; split <;> simp [readsCell]

theorem inv_getColors (sc stt : Bool) (T : Term) (s : Core) (k : CKey) (g gt : Option Win) (hI : Inv sc stt T s g gt) :
    Inv sc stt T (getColors T s k).1 g gt := by
  unfold getColors
  split
  · exact hI
  · rename_i hnone
    exact {
      winOk := hI.winOk, gOk := hI.gOk, cell := hI.cell
      colors := by
        intro k' v e
        by_cases hk : k' = k
        · subst hk; simp [upd] at e; subst e
          refine ⟨s.queries, rfl, ?_⟩; cases s.queries <;> simp
        · simp [upd, hk] at e; exact hI.colors k' v e
      nv := hI.nv, tsc := hI.tsc
      rColors := by
        intro k'
        by_cases hk : k' = k
        · subst hk; have := hI.rColors k'; simp [upd, hnone] at this ⊢; exact this
        · simp [upd, hk]; exact hI.rColors k'
      rNv := hI.rNv, rProbe := hI.rProbe, ratio := hI.ratio }

theorem getColors_val (sc stt : Bool) (T : Term) (s : Core) (k : CKey) (g gt : Option Win) (hI : Inv sc stt T s g gt) :
    ∃ q, (getColors T s k).2.1 = .colors k.hex (colorsBody T q).1 (colorsBody T q).2 ∧
      (q = true ∨ s.queries = false) := by
  unfold getColors
  split
  · rename_i v hv
    obtain ⟨q, hq, hq'⟩ := hI.colors k v hv
    exact ⟨q, by rw [hq], hq'⟩
  · refine ⟨s.queries, rfl, ?_⟩; cases s.queries <;> simp

/-! ### the two probes -/

theorem tscCall_reads (s : Core) : readsCell (tscCall s).2.2 = false := by
  unfold tscCall; split
  · simp only []; split <;> simp [readsCell]
  · simp [readsCell]

theorem tscCall_spec (sc stt : Bool) (T : Term) (s : Core) (g gt : Option Win) (hI : Inv sc stt T s g gt)
    (hst : stt = true) (hp : provisoAt gt s.win) :
    (tscCall s).1 = { s with tsc := some (tscBody s.win, (s.win.cols, s.win.rows)) } ∧
    (tscCall s).2.1 = stampVal (tscBody s.win) := by
  unfold tscCall
  rcases hI.tsc hst with hn | ⟨l, hg, ht⟩
  · simp [hn]
  · simp only [ht]
    split
    · exact ⟨rfl, rfl⟩
    · rename_i hne
      have hl : l = s.win := by
        apply hp l hg
        simp at hne
        exact ⟨hne.1.symm, hne.2.symm⟩
      subst hl
      refine ⟨?_, rfl⟩
      cases s; simp_all

theorem tscCall_frame (s : Core) : ∃ c, (tscCall s).1 = { s with tsc := c } := by
  unfold tscCall; split
  · simp only []; split
    · exact ⟨_, rfl⟩
    · exact ⟨s.tsc, by cases s; rfl⟩
  · exact ⟨_, rfl⟩

theorem inv_tscCall (sc stt : Bool) (T : Term) (s : Core) (g gt : Option Win) (hI : Inv sc stt T s g gt)
    (hp : stt = true → provisoAt gt s.win) : Inv sc stt T (tscCall s).1 g (some s.win) := by
  cases stt with
  | true =>
    rw [(tscCall_spec sc true T s g gt hI rfl (hp rfl)).1]
    exact {
      winOk := hI.winOk, gOk := hI.gOk, cell := hI.cell, colors := hI.colors, nv := hI.nv
      tsc := fun _ => Or.inr ⟨s.win, rfl, rfl⟩
      rColors := hI.rColors, rNv := hI.rNv, rProbe := hI.rProbe, ratio := hI.ratio }
  | false =>
    obtain ⟨c, hc⟩ := tscCall_frame s
    rw [hc]
    exact {
      winOk := hI.winOk, gOk := hI.gOk, cell := hI.cell, colors := hI.colors, nv := hI.nv
      tsc := fun h => by cases h
      rColors := hI.rColors, rNv := hI.rNv, rProbe := hI.rProbe, ratio := hI.ratio }

theorem tscRaiseCall_state (s : Core) : (tscRaiseCall s).1 = s := by
  unfold tscRaiseCall; split
  · simp only []; split <;> rfl
  · rfl

theorem tscRaiseCall_reads (s : Core) : readsCell (tscRaiseCall s).2.2 = false := by
  unfold tscRaiseCall; split
  · simp only []; split <;> simp [readsCell]
  · simp [readsCell]

theorem probeCall_reads (s : Core) (a : Nat) : readsCell (probeCall s a).2.2 = false := by
  unfold probeCall; split <;> simp [readsCell]

theorem inv_probeCall (sc stt : Bool) (T : Term) (s : Core) (a : Nat) (g gt : Option Win) (hI : Inv sc stt T s g gt) :
    Inv sc stt T (probeCall s a).1 g gt := by
  unfold probeCall
  split
  · exact hI
  · rename_i hnone
    exact {
      winOk := hI.winOk, gOk := hI.gOk, cell := hI.cell, colors := hI.colors, nv := hI.nv
      tsc := hI.tsc, rColors := hI.rColors, rNv := hI.rNv
      rProbe := by
        intro a'
        by_cases ha : a' = a
        · subst ha; have := hI.rProbe a'; simp [upd, hnone] at this ⊢; exact this
        · simp [upd, ha]; exact hI.rProbe a'
      ratio := hI.ratio }


/-! ### small facts -/

theorem readsCell_append (a b : List Ev) : readsCell (a ++ b) = (readsCell a || readsCell b) := by
  simp [readsCell]

theorem readsCell_nil : readsCell [] = false := rfl

theorem getNV_idem (T : Term) (s : Core) : getNV T (getNV T s).1 = ((getNV T s).1, (getNV T s).2.1, []) := by
  cases h : s.nv <;> simp [getNV, h]

theorem readsCell_cons (e : Ev) (l : List Ev) : readsCell (e :: l) = (e == .cellRead || readsCell l) := by
  simp [readsCell]

theorem sizeOf_some {c p : Nat × Nat} (h : sizeOf c = some p) : p.1 ≠ 0 := by
  unfold sizeOf at h
  split at h
  · cases h
  · rename_i hc; cases h; omega

theorem getCellSize_val_sizeOf (T : Term) (s : Core) : ∃ c, (getCellSize T s).2.1 = sizeOf c := by
  unfold getCellSize; split
  · exact ⟨_, rfl⟩
  · exact ⟨_, rfl⟩

theorem ratioOfCell_truthy (T : Term) (s : Core) : (ratioOfCell (getCellSize T s).2.1).truthy = true := by
  obtain ⟨c, hc⟩ := getCellSize_val_sizeOf T s
  rw [hc]
  cases h : sizeOf c with
  | none => decide
  | some p =>
    have := sizeOf_some h
    obtain ⟨w, hh⟩ := p
    simp [ratioOfCell, RatioVal.truthy]; exact this

theorem lit_truthy (b : Nat) (h : leZero b = false) : (RatioVal.lit b).truthy = true := by
  unfold leZero at h
  simp only [RatioVal.truthy]
  simp at h
  by_cases hm : b % 2 ^ 63 = 0
  · exfalso
    have := h (by omega)
    omega
  · simpa using hm

theorem getCellSize_win (T : Term) (s : Core) : (getCellSize T s).1.win = s.win := by
  unfold getCellSize; split <;> rfl

theorem inv_ratio_none (sc stt : Bool) (T : Term) (s : Core) (g gt : Option Win) (hI : Inv sc stt T s g gt) :
    Inv sc stt T { s with ratio := none } g gt :=
  { winOk := hI.winOk, gOk := hI.gOk, cell := hI.cell, colors := hI.colors, nv := hI.nv, tsc := hI.tsc
    rColors := hI.rColors, rNv := hI.rNv, rProbe := hI.rProbe, ratio := by intro r e; cases e }

theorem inv_ratio_some (sc stt : Bool) (T : Term) (s : Core) (g gt : Option Win) (r : RatioVal) (hr : r.truthy = true)
    (hI : Inv sc stt T s g gt) : Inv sc stt T { s with ratio := some r } g gt :=
  { winOk := hI.winOk, gOk := hI.gOk, cell := hI.cell, colors := hI.colors, nv := hI.nv, tsc := hI.tsc
    rColors := hI.rColors, rNv := hI.rNv, rProbe := hI.rProbe
    ratio := by intro r' e; cases e; exact hr }

/-! ### composite operations: which `Core` they leave and whether they read the cell size -/

theorem kittySupported_core (T : Term) (s : St) :
    ((kittySupported T s).1.toCore = s.toCore ∨ (kittySupported T s).1.toCore = (getNV T s.toCore).1) ∧
    readsCell (kittySupported T s).2.2 = false := by
  unfold kittySupported
  split
  · exact ⟨Or.inl rfl, rfl⟩
  · simp only [getNV_idem]
    repeat' split
    all_goals simp [readsCell_append, getNV_reads, readsCell_cons, readsCell_nil]

theorem itermSupported_core (T : Term) (s : St) :
    ((itermSupported T s).1.toCore = s.toCore ∨ (itermSupported T s).1.toCore = (getNV T s.toCore).1) ∧
    readsCell (itermSupported T s).2.2 = false := by
  unfold itermSupported
  split
  · exact ⟨Or.inl rfl, rfl⟩
  · have hr := getNV_reads T s.toCore
    generalize getNV T s.toCore = r at hr ⊢
    obtain ⟨c, ⟨n, v⟩, evs⟩ := r
    simp only [] at hr ⊢
    cases n with
    | none => simp [hr]
    | some name =>
      simp only []
      repeat' split
      all_goals simp [hr]


theorem setAuto_inv (sc stt : Bool) (T : Term) (s : St) (fixed : Bool) (g gt : Option Win) (hI : Inv sc stt T s.toCore g gt)
    (hp : readsCell (setAuto T s fixed).2.2 = true → sc = true → provisoAt g s.win) :
    Inv sc stt T (setAuto T s fixed).1.toCore (if readsCell (setAuto T s fixed).2.2 then some s.win else g) gt := by
  have h1 := getCellSize_reads T s.toCore
  have hw := getCellSize_win T s.toCore
  unfold setAuto at hp ⊢
  cases hacr : s.acr with
  | none =>
    simp only [hacr] at hp ⊢
    have hI1 : (sc = true → provisoAt g s.win) → Inv sc stt T (getCellSize T s.toCore).1 (some s.win) gt :=
      fun h => inv_getCellSize sc stt T s.toCore g gt hI h
    by_cases hc : (some (getCellSize T s.toCore).2.1.isSome != some true) = true
    · rw [if_pos hc] at hp ⊢
      simp only [h1] at hp ⊢
      exact hI1 (hp trivial)
    · rw [if_neg hc] at hp ⊢
      cases fixed with
      | true =>
        simp only [readsCell_append, h1, Bool.true_or, if_true] at hp ⊢
        have hI2 := inv_getCellSize sc stt T _ _ gt (hI1 (hp trivial)) (by intro _; rw [hw]; exact proviso_self _)
        rw [hw] at hI2
        exact inv_ratio_some sc stt T _ _ gt _ (ratioOfCell_truthy T _) hI2
      | false =>
        simp only [h1, Bool.false_eq_true, if_false, if_true] at hp ⊢
        exact inv_ratio_none sc stt T _ _ gt (hI1 (hp trivial))
  | some b =>
    simp only [hacr] at hp ⊢
    by_cases hc : (some b != some true) = true
    · rw [if_pos hc] at hp ⊢
      simpa [readsCell_nil] using hI
    · rw [if_neg hc] at hp ⊢
      cases fixed with
      | true =>
        simp only [List.nil_append, h1, if_true] at hp ⊢
        have hI2 := inv_getCellSize sc stt T _ g gt hI (hp trivial)
        exact inv_ratio_some sc stt T _ _ gt _ (ratioOfCell_truthy T _) hI2
      | false =>
        simp only [readsCell_nil, Bool.false_eq_true, if_false] at hp ⊢
        exact inv_ratio_none sc stt T _ g gt hI


theorem inv_toggle_swap (sc stt : Bool) (T : Term) (s : Core) (g gt : Option Win) (b : Bool) (hI : Inv sc stt T s g gt) :
    Inv sc stt T { s with swap := b, cc := CC.cleared } none gt :=
  { winOk := hI.winOk, gOk := by intro l e; cases e
    cell := fun _ => Or.inl rfl, colors := hI.colors, nv := hI.nv, tsc := hI.tsc
    rColors := hI.rColors, rNv := hI.rNv, rProbe := hI.rProbe, ratio := hI.ratio }

theorem inv_qOff (sc stt : Bool) (T : Term) (s : Core) (g gt : Option Win) (hI : Inv sc stt T s g gt) :
    Inv sc stt T { s with queries := false } g gt :=
  { winOk := hI.winOk, gOk := hI.gOk
    cell := by
      intro hst
      rcases hI.cell hst with h | ⟨l, q, hg, hcc, _⟩
      · exact Or.inl h
      · exact Or.inr ⟨l, q, hg, hcc, Or.inr rfl⟩
    colors := by
      intro k v e; obtain ⟨q, hq, _⟩ := hI.colors k v e; exact ⟨q, hq, Or.inr rfl⟩
    nv := by
      intro v e; obtain ⟨q, hq, _⟩ := hI.nv v e; exact ⟨q, hq, Or.inr rfl⟩
    tsc := hI.tsc, rColors := hI.rColors, rNv := hI.rNv, rProbe := hI.rProbe, ratio := hI.ratio }

theorem inv_qOn (sc stt : Bool) (T : Term) (s : Core) (g gt : Option Win) (hI : Inv sc stt T s g gt) (hq : s.queries = false) :
    Inv sc stt T (qOnCore s) none gt := by
  unfold qOnCore
  simp only [hq, Bool.not_false, if_true]
  exact {
    winOk := hI.winOk, gOk := by intro l e; cases e
    cell := fun _ => Or.inl rfl
    colors := by intro k v e; cases e
    nv := by intro v e; cases e
    tsc := hI.tsc
    rColors := by intro k; rfl
    rNv := rfl, rProbe := hI.rProbe, ratio := hI.ratio }

theorem qOnCore_noop (s : Core) (hq : s.queries = true) : qOnCore s = s := by
  unfold qOnCore; simp [hq]

theorem getCellRatio_cases (T : Term) (s : Core) :
    ((getCellRatio T s).1 = s ∧ readsCell (getCellRatio T s).2.2 = false) ∨
    ((getCellRatio T s).1 = (getCellSize T s).1 ∧ readsCell (getCellRatio T s).2.2 = true) := by
  unfold getCellRatio
  split
  · split
    · exact Or.inl ⟨rfl, rfl⟩
    · exact Or.inr ⟨rfl, getCellSize_reads T s⟩
  · exact Or.inr ⟨rfl, getCellSize_reads T s⟩

theorem inv_step (sc stt : Bool) (T : Term) (s : St) (g gt : Option Win) (op : Op) (hI : Inv sc stt T s.toCore g gt)
    (hp : readsCell (step T s op).2.2 = true → sc = true → provisoAt g (readWin s op))
    (hpt : (op = .tsc ∨ op = .tscRaise) → stt = true → provisoAt gt s.win)
    (hr : ∀ w, (op = .resize w ∨ ∃ p, op = .getCellSizeR p w) → w.ok) :
    Inv sc stt T (step T s op).1.toCore (ghostStep T s g op) (tscGhostStep s gt op) := by
  cases op with
  | resize w =>
    simp only [step, ghostStep, readWin, effectiveToggle, tscGhostStep, readsCell_nil, Bool.false_eq_true, if_false]
    exact { winOk := hr w (Or.inl rfl), gOk := hI.gOk, cell := hI.cell, colors := hI.colors, nv := hI.nv, tsc := hI.tsc
            rColors := hI.rColors, rNv := hI.rNv, rProbe := hI.rProbe, ratio := hI.ratio }
  | swapOn =>
    cases hs : s.swap
    · simp [step, ghostStep, readWin, effectiveToggle, tscGhostStep, hs]
      exact inv_toggle_swap sc stt T s.toCore g gt true hI
    · simp [step, ghostStep, readWin, effectiveToggle, tscGhostStep, hs, readsCell_nil]
      exact hI
  | swapOff =>
    cases hs : s.swap
    · simp [step, ghostStep, readWin, effectiveToggle, tscGhostStep, hs, readsCell_nil]
      exact hI
    · simp [step, ghostStep, readWin, effectiveToggle, tscGhostStep, hs]
      exact inv_toggle_swap sc stt T s.toCore g gt false hI
  | qOff =>
    simp only [step, ghostStep, readWin, effectiveToggle, tscGhostStep, readsCell_nil, Bool.false_eq_true, if_false]
    exact inv_qOff sc stt T s.toCore g gt hI
  | qOn =>
    cases hq : s.queries
    · simp only [step, ghostStep, readWin, effectiveToggle, tscGhostStep, hq, Bool.not_false, if_true]
      exact inv_qOn sc stt T s.toCore g gt hI hq
    · simp only [step, ghostStep, readWin, effectiveToggle, tscGhostStep, hq, Bool.not_true, readsCell_nil,
        Bool.false_eq_true, if_false]
      rw [qOnCore_noop _ hq]; exact hI
  | setRatio a =>
    cases a with
    | lit b =>
      simp only [step, setCellRatio, ghostStep, readWin, effectiveToggle, tscGhostStep, Bool.false_eq_true, if_false]
      by_cases hz : leZero b = true
      · simp only [hz, if_true, readsCell_nil, Bool.false_eq_true, if_false]
        exact hI
      · simp only [hz, Bool.false_eq_true, if_false, readsCell_nil]
        exact inv_ratio_some sc stt T _ g gt _ (lit_truthy b (by simpa using hz)) hI
    | fixed =>
      simp only [step, setCellRatio, ghostStep, readWin, effectiveToggle, tscGhostStep, Bool.false_eq_true, if_false] at hp ⊢
      exact setAuto_inv sc stt T s true g gt hI hp
    | dynamic =>
      simp only [step, setCellRatio, ghostStep, readWin, effectiveToggle, tscGhostStep, Bool.false_eq_true, if_false] at hp ⊢
      exact setAuto_inv sc stt T s false g gt hI hp
  | setAcr v =>
    simp only [step, ghostStep, readWin, effectiveToggle, tscGhostStep, readsCell_nil, Bool.false_eq_true, if_false]
    exact hI
  | getCellSize =>
    simp only [step, ghostStep, readWin, effectiveToggle, tscGhostStep, getCellSize_reads, Bool.false_eq_true, if_false,
      if_true] at hp ⊢
    exact inv_getCellSize sc stt T s.toCore g gt hI (hp trivial)
  | getCellSizeR p w =>
    have hrd : readsCell (getCellSizeR T s.toCore p w).2.2 = true := getCellSize_reads T _
    simp only [step, ghostStep, readWin, effectiveToggle, tscGhostStep, hrd, Bool.false_eq_true, if_false,
      if_true] at hp ⊢
    have hmok : (mixWin p s.win w).ok := by
      have := hI.winOk
      unfold mixWin Win.ok at *
      split
      · exact this
      · split <;> exact this
    have hI1 : Inv sc stt T { s.toCore with win := mixWin p s.win w } g gt :=
      { winOk := hmok, gOk := hI.gOk, cell := hI.cell, colors := hI.colors, nv := hI.nv, tsc := hI.tsc
        rColors := hI.rColors, rNv := hI.rNv, rProbe := hI.rProbe, ratio := hI.ratio }
    have hI2 := inv_getCellSize sc stt T _ g gt hI1 (hp trivial)
    exact { winOk := hr w (Or.inr ⟨p, rfl⟩), gOk := hI2.gOk, cell := hI2.cell, colors := hI2.colors, nv := hI2.nv
            tsc := hI2.tsc, rColors := hI2.rColors, rNv := hI2.rNv, rProbe := hI2.rProbe, ratio := hI2.ratio }
  | useCell k n =>
    simp only [step, St.lift, useCell, ghostStep, readWin, effectiveToggle, tscGhostStep, getCellSize_reads,
      Bool.false_eq_true, if_false, if_true] at hp ⊢
    exact inv_getCellSize sc stt T s.toCore g gt hI (hp trivial)
  | getCellRatio =>
    simp only [step, St.lift, ghostStep, readWin, effectiveToggle, tscGhostStep, Bool.false_eq_true, if_false] at hp ⊢
    rcases getCellRatio_cases T s.toCore with ⟨h1, h2⟩ | ⟨h1, h2⟩
    · rw [h1]; simp only [h2, Bool.false_eq_true, if_false]; exact hI
    · rw [h2] at hp; rw [h1]; simp only [h2, if_true]
      exact inv_getCellSize sc stt T s.toCore g gt hI (hp rfl)
  | getColors k =>
    simp only [step, St.lift, ghostStep, readWin, effectiveToggle, tscGhostStep, getColors_reads, Bool.false_eq_true, if_false]
    exact inv_getColors sc stt T s.toCore k g gt hI
  | getNV =>
    simp only [step, ghostStep, readWin, effectiveToggle, tscGhostStep, getNV_reads, Bool.false_eq_true, if_false]
    exact inv_getNV sc stt T s.toCore g gt hI
  | isOnKitty =>
    simp only [step, St.lift, isOnKitty, ghostStep, readWin, effectiveToggle, tscGhostStep, getNV_reads, Bool.false_eq_true,
      if_false]
    exact inv_getNV sc stt T s.toCore g gt hI
  | kittySup =>
    obtain ⟨hc, hrd⟩ := kittySupported_core T s
    simp only [step, ghostStep, readWin, effectiveToggle, tscGhostStep, hrd, Bool.false_eq_true, if_false]
    rcases hc with h | h <;> rw [h]
    · exact hI
    · exact inv_getNV sc stt T s.toCore g gt hI
  | itermSup =>
    obtain ⟨hc, hrd⟩ := itermSupported_core T s
    simp only [step, ghostStep, readWin, effectiveToggle, tscGhostStep, hrd, Bool.false_eq_true, if_false]
    rcases hc with h | h <;> rw [h]
    · exact hI
    · exact inv_getNV sc stt T s.toCore g gt hI
  | tsc =>
    simp only [step, St.lift, ghostStep, readWin, effectiveToggle, tscGhostStep, tscCall_reads, Bool.false_eq_true, if_false]
    exact inv_tscCall sc stt T s.toCore g gt hI (hpt (Or.inl rfl))
  | tscRaise =>
    simp only [step, St.lift, ghostStep, readWin, effectiveToggle, tscGhostStep, tscRaiseCall_reads, Bool.false_eq_true,
      if_false, tscRaiseCall_state]
    exact hI
  | startProc =>
    simp only [step, ghostStep, readWin, effectiveToggle, tscGhostStep, readsCell_nil, Bool.false_eq_true, if_false]
    exact hI
  | tscInval =>
    simp only [step, ghostStep, readWin, effectiveToggle, tscGhostStep, readsCell_nil, Bool.false_eq_true, if_false]
    exact { winOk := hI.winOk, gOk := hI.gOk, cell := hI.cell, colors := hI.colors, nv := hI.nv, tsc := fun _ => Or.inl rfl
            rColors := hI.rColors, rNv := hI.rNv, rProbe := hI.rProbe, ratio := hI.ratio }
  | probe a =>
    simp only [step, St.lift, ghostStep, readWin, effectiveToggle, tscGhostStep, probeCall_reads, Bool.false_eq_true, if_false]
    exact inv_probeCall sc stt T s.toCore a g gt hI
  | probeInval =>
    simp only [step, ghostStep, readWin, effectiveToggle, tscGhostStep, readsCell_nil, Bool.false_eq_true, if_false]
    exact { winOk := hI.winOk, gOk := hI.gOk, cell := hI.cell, colors := hI.colors, nv := hI.nv, tsc := hI.tsc
            rColors := hI.rColors, rNv := hI.rNv
            rProbe := by intro a; rfl
            ratio := hI.ratio }


/-! ### histories -/

theorem exec_nil (T : Term) (s : St) : exec T s [] = s := rfl

theorem exec_cons (T : Term) (s : St) (op : Op) (ops : List Op) :
    exec T s (op :: ops) = exec T (step T s op).1 ops := rfl

theorem exec_append (T : Term) (s : St) (h h' : List Op) :
    exec T s (h ++ h') = exec T (exec T s h) h' := by
  induction h generalizing s with
  | nil => rfl
  | cons op ops ih => simp only [List.cons_append, exec_cons]; exact ih _

theorem cellProviso_append (T : Term) (s : St) (g : Option Win) (h h' : List Op) :
    cellProviso T s g (h ++ h') ↔
      cellProviso T s g h ∧ cellProviso T (exec T s h) (ghostRun T s g h) h' := by
  induction h generalizing s g with
  | nil => simp [cellProviso, exec_nil, ghostRun]
  | cons op ops ih =>
    simp only [List.cons_append, cellProviso, exec_cons, ghostRun, ih, and_assoc]

theorem tscProviso_append (T : Term) (s : St) (g : Option Win) (h h' : List Op) :
    tscProviso T s g (h ++ h') ↔
      tscProviso T s g h ∧ tscProviso T (exec T s h) (tscGhostRun T s g h) h' := by
  induction h generalizing s g with
  | nil => simp [tscProviso, exec_nil, tscGhostRun]
  | cons op ops ih =>
    simp only [List.cons_append, tscProviso, exec_cons, tscGhostRun, ih, and_assoc]

/-- the invariant holds along every history (with `st = true`: every history satisfying the provisos) -/
theorem inv_run (sc stt : Bool) (T : Term) (s : St) (g gt : Option Win) (h : List Op)
    (hI : Inv sc stt T s.toCore g gt) (hr : resizesOk h)
    (hp : sc = true → cellProviso T s g h) (hpt : stt = true → tscProviso T s gt h) :
    Inv sc stt T (exec T s h).toCore (ghostRun T s g h) (tscGhostRun T s gt h) := by
  induction h generalizing s g gt with
  | nil => exact hI
  | cons op ops ih =>
    simp only [exec_cons, ghostRun, tscGhostRun]
    apply ih
    · apply inv_step sc stt T s g gt op hI
      · intro hrd hst; exact (hp hst).1 hrd
      · intro hop hst; exact (hpt hst).1 hop
      · intro w hw
        rcases hw with hw | ⟨p, hw⟩
        · exact hr w (Or.inl (by simp [hw]))
        · exact hr w (Or.inr ⟨p, by simp [hw]⟩)
    · intro w hw
      rcases hw with hw | ⟨p, hw⟩
      · exact hr w (Or.inl (List.mem_cons_of_mem _ hw))
      · exact hr w (Or.inr ⟨p, List.mem_cons_of_mem _ hw⟩)
    · intro hst; exact (hp hst).2
    · intro hst; exact (hpt hst).2

theorem inv_reach (sc stt : Bool) (T : Term) (w0 : Win) (h : List Op) (hw : w0.ok) (hr : resizesOk h)
    (hp : sc = true → cellProviso T (St.init w0) none h)
    (hpt : stt = true → tscProviso T (St.init w0) none h) :
    Inv sc stt T (exec T (St.init w0) h).toCore (ghostRun T (St.init w0) none h)
      (tscGhostRun T (St.init w0) none h) :=
  inv_run sc stt T (St.init w0) none none h (inv_init sc stt T w0 hw) hr hp hpt

/-! ### fresh computations -/

theorem getCellSize_miss (T : Term) (s : Core) (h : ¬(s.win.cols = s.cc.c ∧ s.win.rows = s.cc.r)) :
    (getCellSize T s).2.1 = sizeOf (computeCell T s.win s.swap s.queries).1 := by
  unfold getCellSize; rw [if_neg h]

theorem getCellSize_fresh (T : Term) (s : Core) (hw : s.win.ok) :
    (getCellSize T s.fresh).2.1 = sizeOf (computeCell T s.win s.swap s.queries).1 := by
  have h : ¬(s.fresh.win.cols = s.fresh.cc.c ∧ s.fresh.win.rows = s.fresh.cc.r) := by
    show ¬(s.win.cols = 0 ∧ s.win.rows = 0)
    unfold Win.ok at hw; omega
  exact getCellSize_miss T s.fresh h

/-- `c` is what a fresh computation gives now — or, while queries are disabled, what it gave
    when they were enabled (a known fact about the terminal is not forgotten by disabling) -/
def FreshCell (T : Term) (s : Core) (c : Option (Nat × Nat)) : Prop :=
  (s.queries = true → c = (getCellSize T s.fresh).2.1) ∧
  (c = (getCellSize T s.fresh).2.1 ∨ c = (getCellSize T { s.fresh with queries := true }).2.1)

theorem freshCell_of_spec (T : Term) (s : Core) (hw : s.win.ok) (q : Bool)
    (hq : q = true ∨ s.queries = false) :
    FreshCell T s (sizeOf (computeCell T s.win s.swap q).1) := by
  have h1 := getCellSize_fresh T s hw
  have h2 := getCellSize_fresh T { s with queries := true } hw
  unfold FreshCell
  have e : ({ s with queries := true } : Core).fresh = { s.fresh with queries := true } := rfl
  rw [e] at h2
  rw [h1, h2]
  simp only []
  constructor
  · intro hs; rcases hq with h | h
    · rw [h, hs]
    · rw [hs] at h; cases h
  · cases q with
    | true => right; rfl
    | false =>
      rcases hq with h | h
      · cases h
      · left; rw [h]

theorem getCellSize_freshCell (stt : Bool) (T : Term) (s : Core) (g gt : Option Win) (hI : Inv true stt T s g gt)
    (hp : provisoAt g s.win) : FreshCell T s (getCellSize T s).2.1 := by
  obtain ⟨q, hq, _, _, hv⟩ := getCellSize_spec true stt T s g gt hI rfl hp
  rw [hv]; exact freshCell_of_spec T s hI.winOk q hq

end TIV.C15
