import TIV.Common.DriverMain
import TIV.C15.Drive
def main : IO Unit := TIV.driverMain TIV.C15.handler
