import TIV.C15.Model
/-! the lock model of `cached`: mutual exclusion ⇒ the body runs at most once per argument -/
namespace TIV.C15.Conc
open TIV.C15

def inCS : PC → Prop
  | .locked | .miss | .ran _ | .have _ => True
  | _ => False

def isRan : PC → Prop
  | .ran _ => True
  | _ => False

structure CInv (arg : Nat → Nat) (s : CSt) : Prop where
  excl : ∀ t, inCS (s.pc t) → s.owner = some t
  missNone : ∀ t, (s.pc t = .miss ∨ isRan (s.pc t)) → s.cache (arg t) = none
  runs : ∀ a, s.runs a ≤ 1 ∧ (s.runs a ≠ 0 → (s.cache a).isSome ∨ ∃ t, arg t = a ∧ isRan (s.pc t))
  vals : ∀ t v, (s.pc t = .have v ∨ s.pc t = .done v) → s.cache (arg t) = some v

theorem cinv_init (arg : Nat → Nat) : CInv arg CSt.init where
  excl := by intro t h; simp [CSt.init, inCS] at h
  missNone := by intro t h; simp [CSt.init, isRan] at h
  runs := by intro a; simp [CSt.init]
  vals := by intro t v h; simp [CSt.init] at h

theorem cinv_fine (arg : Nat → Nat) (s : CSt) (t : Nat) (hI : CInv arg s) : CInv arg (fine arg s t) := by
  unfold fine
  split
  · -- start
    rename_i hpc
    split
    · rename_i hfree
      refine ⟨?_, ?_, ?_, ?_⟩
      · intro t' h
        by_cases e : t' = t
        · subst e; rfl
        · simp [upd, e] at h; have := hI.excl t' h; rw [hfree] at this; cases this
      · intro t' h
        by_cases e : t' = t
        · subst e; simp [upd, isRan] at h
        · simp [upd, e] at h; exact hI.missNone t' h
      · intro a
        refine ⟨(hI.runs a).1, fun hne => ?_⟩
        rcases (hI.runs a).2 hne with h | ⟨t', ha, hr⟩
        · exact Or.inl h
        · refine Or.inr ⟨t', ha, ?_⟩
          by_cases e : t' = t
          · subst e; rw [hpc] at hr; simp [isRan] at hr
          · simp [upd, e]; exact hr
      · intro t' v h
        by_cases e : t' = t
        · subst e; simp [upd] at h
        · simp [upd, e] at h; exact hI.vals t' v h
    · exact hI
  · -- locked
    rename_i hpc
    have hown : s.owner = some t := hI.excl t (by rw [hpc]; trivial)
    split
    · rename_i v hv
      refine ⟨?_, ?_, ?_, ?_⟩
      · intro t' h
        by_cases e : t' = t
        · subst e; exact hown
        · simp [upd, e] at h; exact hI.excl t' h
      · intro t' h
        by_cases e : t' = t
        · subst e; simp [upd, isRan] at h
        · simp [upd, e] at h; exact hI.missNone t' h
      · intro a
        refine ⟨(hI.runs a).1, fun hne => ?_⟩
        rcases (hI.runs a).2 hne with h | ⟨t', ha, hr⟩
        · exact Or.inl h
        · refine Or.inr ⟨t', ha, ?_⟩
          by_cases e : t' = t
          · subst e; rw [hpc] at hr; simp [isRan] at hr
          · simp [upd, e]; exact hr
      · intro t' v' h
        by_cases e : t' = t
        · subst e; simp [upd] at h; rw [← h]; exact hv
        · simp [upd, e] at h; exact hI.vals t' v' h
    · rename_i hv
      refine ⟨?_, ?_, ?_, ?_⟩
      · intro t' h
        by_cases e : t' = t
        · subst e; exact hown
        · simp [upd, e] at h; exact hI.excl t' h
      · intro t' h
        by_cases e : t' = t
        · subst e; exact hv
        · simp [upd, e] at h; exact hI.missNone t' h
      · intro a
        refine ⟨(hI.runs a).1, fun hne => ?_⟩
        rcases (hI.runs a).2 hne with h | ⟨t', ha, hr⟩
        · exact Or.inl h
        · refine Or.inr ⟨t', ha, ?_⟩
          by_cases e : t' = t
          · subst e; rw [hpc] at hr; simp [isRan] at hr
          · simp [upd, e]; exact hr
      · intro t' v' h
        by_cases e : t' = t
        · subst e; simp [upd] at h
        · simp [upd, e] at h; exact hI.vals t' v' h
  · -- miss: the body runs
    rename_i hpc
    have hown : s.owner = some t := hI.excl t (by rw [hpc]; trivial)
    have hnone : s.cache (arg t) = none := hI.missNone t (Or.inl hpc)
    have hzero : s.runs (arg t) = 0 := by
      by_cases hz : s.runs (arg t) = 0
      · exact hz
      · exfalso
        rcases (hI.runs (arg t)).2 hz with h | ⟨t', _, hr⟩
        · rw [hnone] at h; simp at h
        · have hcs : inCS (s.pc t') := by
            cases hp : s.pc t' <;> simp [hp, isRan] at hr <;> trivial
          have := hI.excl t' hcs
          rw [hown] at this
          have e : t = t' := by injection this
          subst e; rw [hpc] at hr; simp [isRan] at hr
    refine ⟨?_, ?_, ?_, ?_⟩
    · intro t' h
      by_cases e : t' = t
      · subst e; exact hown
      · simp [upd, e] at h; exact hI.excl t' h
    · intro t' h
      by_cases e : t' = t
      · subst e; exact hnone
      · simp [upd, e] at h; exact hI.missNone t' h
    · intro a
      by_cases ea : a = arg t
      · subst ea
        simp only [upd, if_true, hzero]
        refine ⟨by omega, fun _ => Or.inr ⟨t, rfl, ?_⟩⟩
        simp [isRan]
      · simp only [upd, ea, if_false]
        refine ⟨(hI.runs a).1, fun hne => ?_⟩
        rcases (hI.runs a).2 hne with h | ⟨t', ha, hr⟩
        · exact Or.inl h
        · refine Or.inr ⟨t', ha, ?_⟩
          by_cases e : t' = t
          · subst e; rw [hpc] at hr; simp [isRan] at hr
          · simp [e]; exact hr
    · intro t' v' h
      by_cases e : t' = t
      · subst e; simp [upd] at h
      · simp [upd, e] at h; exact hI.vals t' v' h
  · -- ran v: setdefault
    rename_i v hpc
    have hown : s.owner = some t := hI.excl t (by rw [hpc]; trivial)
    have hnone : s.cache (arg t) = none := hI.missNone t (Or.inr (by rw [hpc]; trivial))
    simp only [hnone]
    have others : ∀ t', t' ≠ t → ¬ inCS (s.pc t') := by
      intro t' e hcs
      have := hI.excl t' hcs
      rw [hown] at this
      exact e (by injection this with h; exact h.symm)
    refine ⟨?_, ?_, ?_, ?_⟩
    · intro t' h
      by_cases e : t' = t
      · subst e; exact hown
      · simp [upd, e] at h; exact hI.excl t' h
    · intro t' h
      by_cases e : t' = t
      · subst e; simp [upd, isRan] at h
      · exfalso
        simp [upd, e] at h
        apply others t' e
        rcases h with h | h
        · rw [h]; trivial
        · cases hp : s.pc t' <;> simp [hp, isRan] at h <;> trivial
    · intro a
      refine ⟨(hI.runs a).1, fun hne => ?_⟩
      rcases (hI.runs a).2 hne with h | ⟨t', ha, hr⟩
      · left
        by_cases ea : a = arg t
        · simp [upd, ea]
        · simp [upd, ea]; exact h
      · left
        have : t' = t := by
          by_cases e : t' = t
          · exact e
          · exfalso; apply others t' e
            cases hp : s.pc t' <;> simp [hp, isRan] at hr <;> trivial
        subst this
        simp [upd, ha.symm]
    · intro t' v' h
      by_cases e : t' = t
      · subst e; simp [upd] at h; simp [upd, h]
      · simp [upd, e] at h
        have hv := hI.vals t' v' h
        by_cases ea : arg t' = arg t
        · rw [ea, hnone] at hv; cases hv
        · simp [upd, ea]; exact hv
  · -- have v: release
    rename_i v hpc
    have hown : s.owner = some t := hI.excl t (by rw [hpc]; trivial)
    refine ⟨?_, ?_, ?_, ?_⟩
    · intro t' h
      by_cases e : t' = t
      · subst e; simp [upd, inCS] at h
      · exfalso
        simp [upd, e] at h
        have := hI.excl t' h
        rw [hown] at this
        exact e (by injection this with h; exact h.symm)
    · intro t' h
      by_cases e : t' = t
      · subst e; simp [upd, isRan] at h
      · simp [upd, e] at h; exact hI.missNone t' h
    · intro a
      refine ⟨(hI.runs a).1, fun hne => ?_⟩
      rcases (hI.runs a).2 hne with h | ⟨t', ha, hr⟩
      · exact Or.inl h
      · refine Or.inr ⟨t', ha, ?_⟩
        by_cases e : t' = t
        · subst e; rw [hpc] at hr; simp [isRan] at hr
        · simp [upd, e]; exact hr
    · intro t' v' h
      by_cases e : t' = t
      · subst e; simp [upd] at h; rw [← h]; exact hI.vals t' v (Or.inl hpc)
      · simp [upd, e] at h; exact hI.vals t' v' h
  · exact hI

theorem cinv_runF (arg : Nat → Nat) (s : CSt) (sched : List Nat) (hI : CInv arg s) :
    CInv arg (runF arg s sched) := by
  induction sched generalizing s with
  | nil => exact hI
  | cons t ts ih => exact ih _ (cinv_fine arg s t hI)

/-- a coarse schedule is a fine schedule -/
theorem coarse_is_fine (arg : Nat → Nat) (s : CSt) (t : Nat) :
    ∃ sched, coarse arg s t = runF arg s sched := by
  unfold coarse
  by_cases h1 : atYield ((fine arg s t).pc t) = true
  · refine ⟨[t], ?_⟩
    simp only [h1, if_true]; rfl
  · by_cases h2 : atYield ((fine arg (fine arg s t) t).pc t) = true
    · refine ⟨[t, t], ?_⟩
      simp only [if_neg h1, h2, if_true]; rfl
    · refine ⟨[t, t, t], ?_⟩
      simp only [if_neg h1, if_neg h2]; rfl

theorem cinv_runC (arg : Nat → Nat) (s : CSt) (sched : List Nat) (hI : CInv arg s) :
    CInv arg (runC arg s sched) := by
  induction sched generalizing s with
  | nil => exact hI
  | cons t ts ih =>
    obtain ⟨f, hf⟩ := coarse_is_fine arg s t
    apply ih
    rw [hf]; exact cinv_runF arg s f hI

end TIV.C15.Conc

/-! the toggle / reader race -/
namespace TIV.C15.Race
open TIV.C15

def RPC.inCS : RPC → Bool
  | .locked | .miss | .got _ | .rel => true
  | _ => false

/-- invariant of the canonical order `setFlag; lock; clear; unlock` (toggle towards `n`) -/
def RInv (n : Bool) (s : RSt) : Prop :=
  s.pc ≤ 4 ∧
  (s.owner = some .T ↔ (s.pc = 2 ∨ s.pc = 3)) ∧
  (s.owner = some .R ↔ s.rpc.inCS = true) ∧
  (s.flag = if s.pc = 0 then !n else n) ∧
  (match s.rpc with | .got f => f = s.flag ∨ s.pc = 1 | _ => True) ∧
  (match s.cache with | some c => c = s.flag ∨ s.pc = 1 ∨ s.pc = 2 | none => True)

theorem rinv_init (n : Bool) (c : Option Bool) (hc : c = none ∨ c = some (!n)) : RInv n (RSt.init n c) := by
  rcases hc with hc | hc <;> subst hc <;> simp [RInv, RSt.init, RPC.inCS]

theorem rinv_step (n : Bool) (s : RSt) (w : Who) (h : RInv n s) : RInv n (rstep canonical n s w) := by
  obtain ⟨flag, cache, owner, pc, rpc, rval⟩ := s
  have hpc : pc = 0 ∨ pc = 1 ∨ pc = 2 ∨ pc = 3 ∨ pc = 4 := by have := h.1; simp at this; omega
  rcases hpc with e | e | e | e | e <;> subst e <;> cases w <;> cases rpc <;> cases cache <;> rcases owner with _ | (_ | _) <;>
    simp_all [RInv, rstep, canonical, RPC.inCS]

theorem rinv_run (n : Bool) (s : RSt) (sched : List Who) (h : RInv n s) :
    RInv n (rrun canonical n s sched) := by
  induction sched generalizing s with
  | nil => exact h
  | cons w ws ih => exact ih _ (rinv_step n s w h)

end TIV.C15.Race

