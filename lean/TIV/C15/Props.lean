import TIV.C15.Proofs
import TIV.C15.ProofsConc
import TIV.C15.Generated
/-!
# C15 — cached terminal facts never outlive the condition they were computed under

All theorems are about `TIV.C15.step` / `exec` (the mirror of the top-level functions of
`term_image` and `term_image.utils`, see Model.lean) for **every** terminal `T`, every initial
window and **every** history of operations.  "Fresh" always means: the same model function run
on `Core.fresh s` — the state with the same window and settings in which nothing has been
computed yet.

The property's proviso ("pixel-size changes are only required to be noticed when they coincide
with a change of the terminal size in cells or with one of the toggles") is the hypothesis
`cellProviso` (Model.lean): whenever `get_cell_size` is called and the size in cells equals the
one at the previous call since the last effective toggle, the window is unchanged.
-/
namespace TIV.C15

/-! ## translator constants -/

theorem generated_defaults :
    Generated.initCellCache = [CC.cleared.c, CC.cleared.r, CC.cleared.w, CC.cleared.h] ∧
    Generated.clearedCellCache = [CC.cleared.c, CC.cleared.r, CC.cleared.w, CC.cleared.h] ∧
    Generated.initQueries = true ∧ Generated.initSwap = false ∧ Generated.fallbackCell = (1, 2) ∧
    Generated.initAcr = none ∧ Generated.initSupported = none ∧
    (RatioVal.lit Generated.initRatioBits).truthy = true ∧ leZero Generated.initRatioBits = false := by
  decide

theorem generated_support_constants :
    Generated.kittyMinVer = [0, 20, 0] ∧ Generated.konsoleMinVer = [22, 4, 0] ∧
    Generated.itermNames = [sIterm2, sKonsole, [119, 101, 122, 116, 101, 114, 109]] := by decide

/-- `TextImage._is_on_kitty` carries no cache of its own (the repair), and `enable_queries()`
    invalidates exactly the two `cached` query features the model clears in `qOnCore` -/
theorem generated_invalidation :
    Generated.isOnKittyCached = false ∧
    Generated.enableQueriesInvalidates = ["get_fg_bg_colors", "get_terminal_name_version"] := by decide

/-- the three toggles do their steps in the race-free order *write the flag, take the lock, clear,
    release* (read off their AST), and reach the cache through `utils.<name>` at call time (not
    through names bound at import time, which `_process_start_wrapper` would orphan) -/
theorem generated_toggle_order :
    Race.decode Generated.swapOnSteps = Race.canonical ∧ Race.decode Generated.swapOffSteps = Race.canonical ∧
    Race.decode Generated.qOnSteps = Race.canonical ∧ Generated.togglesUseUtilsGlobals = true := by decide

/-! ## fresh -/

/-- FRESH (cell size).  After every history whose resizes are real windows and which — together
    with the final read — satisfies the proviso, `get_cell_size()` returns what a fresh
    computation gives for the current window and settings; while queries are disabled it may
    instead be the value a fresh computation gives with queries enabled (computed before they
    were disabled).  In particular, with queries enabled nothing obtained while they were
    disabled is returned (`enable_discards` for the cell size). -/
theorem fresh (T : Term) (w0 : Win) (h : List Op) (hw : w0.ok) (hr : resizesOk h)
    (hp : cellProviso T (St.init w0) none (h ++ [.getCellSize])) :
    FreshCell T (exec T (St.init w0) h).toCore (getCellSize T (exec T (St.init w0) h).toCore).2.1 := by
  rw [cellProviso_append] at hp
  have hI := inv_reach true false T w0 h hw hr (fun _ => hp.1) (fun h => by cases h)
  refine getCellSize_freshCell false T _ _ _ hI ?_
  have := hp.2.1
  simp only [step, getCellSize_reads, readWin] at this
  exact this trivial

/-- DYNAMIC follows: in DYNAMIC mode `get_cell_ratio()` is `truediv` of a fresh cell size (or of
    the `(1, 2)` fallback when a fresh computation finds none), under the same proviso. -/
theorem dynamic_follows (T : Term) (w0 : Win) (h : List Op) (hw : w0.ok) (hr : resizesOk h)
    (hd : (exec T (St.init w0) h).ratio = none)
    (hp : cellProviso T (St.init w0) none (h ++ [.getCellRatio])) :
    ∃ c, (getCellRatio T (exec T (St.init w0) h).toCore).2.1 = .ratio (ratioOfCell c) ∧
      FreshCell T (exec T (St.init w0) h).toCore c := by
  rw [cellProviso_append] at hp
  have hI := inv_reach true false T w0 h hw hr (fun _ => hp.1) (fun h => by cases h)
  have hread := hp.2.1
  simp only [step, St.lift, getCellRatio, hd, getCellSize_reads, readWin] at hread
  refine ⟨(getCellSize T (exec T (St.init w0) h).toCore).2.1, ?_, ?_⟩
  · simp only [getCellRatio, hd]
  · exact getCellSize_freshCell false T _ _ _ hI (hread trivial)

/-- CONSUMERS follow: the graphics-image conversions between pixels and cells (`_pixels_cols`,
    `_pixels_lines`, `_get_render_size`) use a fresh cell size (or the `(1, 2)` fallback) after every
    history satisfying the proviso — in particular after every toggle — and read it exactly once. -/
theorem consumers_follow (T : Term) (w0 : Win) (h : List Op) (k : UseKind) (n : Nat) (hw : w0.ok)
    (hr : resizesOk h) (hp : cellProviso T (St.init w0) none (h ++ [.useCell k n])) :
    ∃ c, (useCell T (exec T (St.init w0) h).toCore k n).2.1 = useVal k n (c.getD Generated.fallbackCell) ∧
      FreshCell T (exec T (St.init w0) h).toCore c := by
  rw [cellProviso_append] at hp
  have hI := inv_reach true false T w0 h hw hr (fun _ => hp.1) (fun h => by cases h)
  have hread := hp.2.1
  simp only [step, St.lift, useCell, getCellSize_reads, readWin] at hread
  exact ⟨_, rfl, getCellSize_freshCell false T _ _ _ hI (hread trivial)⟩

/-- closed world: the only memoized functions of the package (every use of `cached`,
    `terminal_size_cached`, `functools.lru_cache/cache/cached_property`, found by an AST scan of all its
    modules) are the two the model carries and `enable_queries()` invalidates — a new memo anywhere
    (e.g. a derived per-terminal-size memo over `get_cell_size`) breaks this obligation -/
theorem generated_memo_closed_world :
    Generated.memoized = ["term_image.utils:get_fg_bg_colors:cached",
      "term_image.utils:get_terminal_name_version:cached"] := by decide

/-- the hand-over of the cache to a shared `Array` at the first `Process.start()` happens while
    holding `_cell_size_lock`, i.e. never while a lookup is in flight (AST of `_process_start_wrapper`) -/
theorem generated_handover_locked : Generated.handoverUnderCellLock = true := by decide

/-- FIXED is a snapshot: once the ratio is a (truthy) value — set by FIXED or by a float —
    `get_cell_ratio()` returns exactly it and computes nothing, whatever resizes, toggles and
    reads happen, until the next `set_cell_ratio`. -/
theorem fixed_snapshot (T : Term) (s : St) (r : RatioVal) (h : List Op)
    (hs : s.ratio = some r) (ht : r.truthy = true) (hno : ∀ a, Op.setRatio a ∉ h) :
    getCellRatio T (exec T s h).toCore = ((exec T s h).toCore, .ratio r, []) := by
  have key : ∀ (h : List Op) (s : St), s.ratio = some r → (∀ a, Op.setRatio a ∉ h) →
      (exec T s h).ratio = some r := by
    intro h
    induction h with
    | nil => intro s hs _; exact hs
    | cons op ops ih =>
      intro s hs hno
      rw [exec_cons]
      apply ih
      · cases op with
        | setRatio a => exact absurd (List.mem_cons_self) (hno a)
        | getCellSize =>
          obtain ⟨c, hc⟩ := getCellSize_frame T s.toCore
          simp only [step, hc]; exact hs
        | getCellSizeR p w =>
          obtain ⟨c, hc⟩ := getCellSize_frame T { s.toCore with win := mixWin p s.win w }
          simp only [step, getCellSizeR, hc]; exact hs
        | useCell k n =>
          obtain ⟨c, hc⟩ := getCellSize_frame T s.toCore
          simp only [step, St.lift, useCell, hc]; exact hs
        | getCellRatio =>
          simp only [step, St.lift, getCellRatio, hs, ht, if_true]
        | getColors k =>
          simp only [step, St.lift, getColors]; split <;> exact hs
        | getNV => simp only [step, getNV]; split <;> exact hs
        | isOnKitty => simp only [step, St.lift, isOnKitty, getNV]; split <;> exact hs
        | kittySup =>
          rcases (kittySupported_core T s).1 with e | e
          · simp only [step]; show (kittySupported T s).1.toCore.ratio = _; rw [e]; exact hs
          · simp only [step]; show (kittySupported T s).1.toCore.ratio = _; rw [e]
            simp only [getNV]; split <;> exact hs
        | itermSup =>
          rcases (itermSupported_core T s).1 with e | e
          · simp only [step]; show (itermSupported T s).1.toCore.ratio = _; rw [e]; exact hs
          · simp only [step]; show (itermSupported T s).1.toCore.ratio = _; rw [e]
            simp only [getNV]; split <;> exact hs
        | tsc =>
          obtain ⟨c, hc⟩ := tscCall_frame s.toCore
          simp only [step, St.lift, hc]; exact hs
        | probe a => simp only [step, St.lift, probeCall]; split <;> exact hs
        | tscRaise => simp only [step, St.lift, tscRaiseCall_state]; exact hs
        | swapOn => simp only [step]; split <;> exact hs
        | swapOff => simp only [step]; split <;> exact hs
        | qOn => simp only [step, qOnCore]; split <;> exact hs
        | _ => exact hs
      · intro a ha; exact hno a (List.mem_cons_of_mem _ ha)
  have := key h s hs hno
  simp only [getCellRatio, this, ht, if_true]

/-- …and the snapshot FIXED takes is `truediv` of a fresh cell size (or of the fallback) at
    the moment of the call, under the proviso. -/
theorem fixed_sets_fresh (T : Term) (w0 : Win) (h : List Op) (hw : w0.ok) (hr : resizesOk h)
    (hp : cellProviso T (St.init w0) none (h ++ [.setRatio .fixed]))
    (hok : (step T (exec T (St.init w0) h) (.setRatio .fixed)).2.1 = .unit) :
    ∃ c, (step T (exec T (St.init w0) h) (.setRatio .fixed)).1.ratio = some (ratioOfCell c) ∧
      (ratioOfCell c).truthy = true ∧ FreshCell T (exec T (St.init w0) h).toCore c := by
  rw [cellProviso_append] at hp
  have hI := inv_reach true false T w0 h hw hr (fun _ => hp.1) (fun h => by cases h)
  have hread := hp.2.1
  generalize exec T (St.init w0) h = s at hI hread hok ⊢
  generalize ghostRun T (St.init w0) none h = g at hI hread
  generalize tscGhostRun T (St.init w0) none h = gt at hI
  simp only [step, setCellRatio, readWin] at hread hok ⊢
  have h1 := getCellSize_reads T s.toCore
  have hwn := getCellSize_win T s.toCore
  unfold setAuto at hread hok ⊢
  cases hacr : s.acr with
  | none =>
    simp only [hacr] at hread hok ⊢
    by_cases hc : (some (getCellSize T s.toCore).2.1.isSome != some true) = true
    · rw [if_pos hc] at hok; cases hok
    · rw [if_neg hc] at hread hok ⊢
      simp only [if_true, readsCell_append, h1, Bool.true_or] at hread ⊢
      have hpa := hread trivial
      have hI1 := inv_getCellSize true false T s.toCore g gt hI (fun _ => hpa)
      obtain ⟨q1, hq1, _, hs1, _⟩ := getCellSize_spec true false T s.toCore g gt hI rfl hpa
      obtain ⟨q2, hq2, _, _, hv2⟩ := getCellSize_spec true false T _ _ gt hI1 rfl
        (by rw [hwn]; exact proviso_self _)
      refine ⟨_, rfl, ratioOfCell_truthy T _, ?_⟩
      rw [hv2, hs1]
      exact freshCell_of_spec T s.toCore hI.winOk q2 (by simpa [hs1] using hq2)
  | some b =>
    simp only [hacr] at hread hok ⊢
    by_cases hc : (some b != some true) = true
    · rw [if_pos hc] at hok; cases hok
    · rw [if_neg hc] at hread hok ⊢
      simp only [if_true, List.nil_append, h1] at hread ⊢
      refine ⟨_, rfl, ratioOfCell_truthy T _, ?_⟩
      exact getCellSize_freshCell false T _ _ _ hI (hread trivial)

/-! ## toggles_invalidate -/

/-- every effective toggle (`enable/disable_win_size_swap` that changes the setting,
    `enable_queries` while disabled) clears the cell-size cache — in **any** state, no proviso:
    the next `get_cell_size()` is a fresh computation under the new settings. -/
theorem toggles_invalidate (T : Term) (s : St) (op : Op) (hw : s.win.ok)
    (he : effectiveToggle s op = true) :
    (step T s op).1.cc = CC.cleared ∧
    (getCellSize T (step T s op).1.toCore).2.1 = (getCellSize T (step T s op).1.toCore.fresh).2.1 ∧
    (getCellSize T (step T s op).1.toCore).2.1 =
      sizeOf (computeCell T s.win (step T s op).1.swap (step T s op).1.queries).1 := by
  have key : ∀ c : Core, c.win = s.win → c.cc = CC.cleared →
      c.cc = CC.cleared ∧ (getCellSize T c).2.1 = (getCellSize T c.fresh).2.1 ∧
      (getCellSize T c).2.1 = sizeOf (computeCell T s.win c.swap c.queries).1 := by
    intro c hcw hcc
    have hwc : c.win.ok := by rw [hcw]; exact hw
    have hm : ¬(c.win.cols = c.cc.c ∧ c.win.rows = c.cc.r) := by
      rw [hcc]; show ¬(c.win.cols = 0 ∧ c.win.rows = 0); unfold Win.ok at hwc; omega
    refine ⟨hcc, ?_, ?_⟩
    · rw [getCellSize_miss T c hm, getCellSize_fresh T c hwc]
    · rw [getCellSize_miss T c hm, hcw]
  cases op with
  | swapOn =>
    simp only [effectiveToggle] at he
    have e : (step T s .swapOn).1 = { s with swap := true, cc := CC.cleared } := by simp [step, he]
    rw [e]; exact key _ rfl rfl
  | swapOff =>
    simp only [effectiveToggle] at he
    have e : (step T s .swapOff).1 = { s with swap := false, cc := CC.cleared } := by simp [step, he]
    rw [e]; exact key _ rfl rfl
  | qOn =>
    simp only [effectiveToggle] at he
    have h1 : (qOnCore s.toCore).win = s.win := by simp [qOnCore, he]
    have h2 : (qOnCore s.toCore).cc = CC.cleared := by simp [qOnCore, he]
    exact key (qOnCore s.toCore) h1 h2
  | _ => simp [effectiveToggle] at he

/-! ## a resize that arrives during a lookup -/

/-- the store of `get_cell_size` files the result under the size read at the START of the lookup
    (`_cell_size_cache[:] = terminal_size + cell_size`, read off the AST), not under a re-read one -/
theorem generated_store_key : Generated.storeKeyIsFirstRead = true := by decide

/-- …and that read is lexically inside the `with _cell_size_lock` block: a lookup that has to wait
    for the lock reads the size only once it has it, so the key (and divisor) it uses is the size
    current while it measures — the model's lookup (`getCellSize`) is atomic for exactly this reason -/
theorem generated_size_read_locked : Generated.sizeReadUnderLock = true := by decide

/-- LOOKUP RACE.  A resize to a window with a different size in cells that arrives at **any** point
    of a lookup (after the size read, after the ioctl, after the query was written), from **any**
    state: whatever that overtaken call measured, it is filed under the size read first, so it is
    not served afterwards — the next `get_cell_size()` at the new, quiet geometry misses and is a
    fresh computation for it; and the entry left behind is keyed by the size that was current when
    the lookup began. -/
theorem lookup_race_fresh (T : Term) (s : Core) (p : Nat) (w' : Win) (hw' : w'.ok)
    (hne : ¬(w'.cols = s.win.cols ∧ w'.rows = s.win.rows)) :
    let s' := (getCellSizeR T s p w').1
    (s'.cc = CC.cleared ∨ (s'.cc.c = s.win.cols ∧ s'.cc.r = s.win.rows)) ∧
    (getCellSize T s').2.1 = (getCellSize T s'.fresh).2.1 ∧
    (getCellSize T s').2.1 = sizeOf (computeCell T w' s.swap s.queries).1 := by
  have hm : (mixWin p s.win w').cols = s.win.cols ∧ (mixWin p s.win w').rows = s.win.rows := by
    unfold mixWin; split
    · exact ⟨rfl, rfl⟩
    · split <;> exact ⟨rfl, rfl⟩
  -- the state the overtaken lookup leaves: only `cc` (and the window) changed, key = first read
  have hkey : ((getCellSizeR T s p w').1.cc = s.cc ∨
      ((getCellSizeR T s p w').1.cc.c = s.win.cols ∧ (getCellSizeR T s p w').1.cc.r = s.win.rows)) ∧
      (getCellSizeR T s p w').1.win = w' ∧ (getCellSizeR T s p w').1.swap = s.swap ∧
      (getCellSizeR T s p w').1.queries = s.queries := by
    unfold getCellSizeR getCellSize
    split
    · exact ⟨Or.inl rfl, rfl, rfl, rfl⟩
    · exact ⟨Or.inr ⟨hm.1, hm.2⟩, rfl, rfl, rfl⟩
  obtain ⟨hk, hwin, hsw, hq⟩ := hkey
  -- a hit of the overtaken lookup means the old key was already the first-read size
  have hk' : (getCellSizeR T s p w').1.cc = CC.cleared ∨
      ((getCellSizeR T s p w').1.cc.c = s.win.cols ∧ (getCellSizeR T s p w').1.cc.r = s.win.rows) := by
    rcases hk with h | h
    · by_cases hh : (mixWin p s.win w').cols = s.cc.c ∧ (mixWin p s.win w').rows = s.cc.r
      · right; rw [h]; exact ⟨by rw [← hh.1, hm.1], by rw [← hh.2, hm.2]⟩
      · right
        have : (getCellSizeR T s p w').1.cc.c = s.win.cols ∧ (getCellSizeR T s p w').1.cc.r = s.win.rows := by
          unfold getCellSizeR getCellSize
          rw [if_neg hh]; exact ⟨hm.1, hm.2⟩
        exact this
    · exact Or.inr h
  dsimp only
  refine ⟨hk', ?_⟩
  have hmiss : ¬((getCellSizeR T s p w').1.win.cols = (getCellSizeR T s p w').1.cc.c ∧
      (getCellSizeR T s p w').1.win.rows = (getCellSizeR T s p w').1.cc.r) := by
    rw [hwin]
    rcases hk' with h | h
    · rw [h]; show ¬(w'.cols = 0 ∧ w'.rows = 0); unfold Win.ok at hw'; omega
    · rw [h.1, h.2]; exact hne
  have hok' : (getCellSizeR T s p w').1.win.ok := by rw [hwin]; exact hw'
  refine ⟨?_, ?_⟩
  · rw [getCellSize_miss T _ hmiss, getCellSize_fresh T _ hok']
  · rw [getCellSize_miss T _ hmiss, hwin, hsw, hq]

/-! ## enable_discards -/

/-- `enable_queries()` while disabled empties the three caches it is documented to invalidate -/
theorem enable_clears (T : Term) (s : St) (hq : s.queries = false) :
    (step T s .qOn).1.queries = true ∧ (step T s .qOn).1.cc = CC.cleared ∧
    (∀ k, (step T s .qOn).1.colors k = none) ∧ (step T s .qOn).1.nv = none := by
  simp [step, qOnCore, hq]

/-- ENABLE DISCARDS.  After **every** history (no proviso needed), whenever queries are enabled,
    `get_terminal_name_version()`, `get_fg_bg_colors(…)` and `TextImage._is_on_kitty()` return
    what a fresh computation gives: nothing obtained while queries were disabled survives
    re-enabling them.  (For the cell size this is the first half of `fresh`.) -/
theorem enable_discards (T : Term) (w0 : Win) (h : List Op) (hw : w0.ok) (hr : resizesOk h)
    (hq : (exec T (St.init w0) h).queries = true) :
    let s := (exec T (St.init w0) h).toCore
    (getNV T s).2.1 = (getNV T s.fresh).2.1 ∧
    (∀ k, (getColors T s k).2.1 = (getColors T s.fresh k).2.1) ∧
    (isOnKitty T s).2.1 = (isOnKitty T s.fresh).2.1 := by
  have hI := inv_reach false false T w0 h hw hr (fun h => by cases h) (fun h => by cases h)
  generalize (exec T (St.init w0) h).toCore = s at hI hq
  have hnv : (getNV T s).2.1 = (getNV T s.fresh).2.1 := by
    obtain ⟨q, hv, hq'⟩ := getNV_val false false T s _ _ hI
    have : q = true := by rcases hq' with h | h; exact h; rw [hq] at h; cases h
    rw [hv, this]
    simp [getNV, Core.fresh, hq]
  refine ⟨hnv, ?_, ?_⟩
  · intro k
    obtain ⟨q, hv, hq'⟩ := getColors_val false false T s k _ _ hI
    have : q = true := by rcases hq' with h | h; exact h; rw [hq] at h; cases h
    rw [hv, this]
    simp [getColors, Core.fresh, hq]
  · simp only [isOnKitty, hnv]

/-! the derived caches are NOT discarded (findings, DESIGN §6 S1): concrete witnesses -/

def kittyTerm : Term :=
  { ioctlFail := false, ansCell := true, ansArea := false, termux := false, kittyGfx := true,
    xtv := some (sKitty, [48, 46, 51, 48, 46, 49]), envProg := none, envVer := none, fg := none, bg := none }

def win0 : Win := { cols := 80, rows := 30, xpx := 0, ypx := 0, cw := 10, ch := 20, aw := 800, ah := 600 }

/-- `KittyImage.is_supported()` answered while queries were disabled stays `False` after
    `enable_queries()` although a fresh check on the same terminal says `True` -/
theorem enable_discards_counterexample_kitty :
    let s := exec kittyTerm (St.init win0) [.qOff, .kittySup, .qOn]
    s.queries = true ∧ (kittySupported kittyTerm s).2.1 = .bool false ∧
    (kittySupported kittyTerm { s with kittySup := none }).2.1 = .bool true := by
  decide

def itermTerm : Term :=
  { ioctlFail := false, ansCell := true, ansArea := false, termux := false, kittyGfx := false,
    xtv := some ([105, 84, 101, 114, 109, 50], [51, 46, 52, 46, 49, 54]), envProg := none, envVer := none, fg := none, bg := none }

theorem enable_discards_counterexample_iterm2 :
    let s := exec itermTerm (St.init win0) [.qOff, .itermSup, .qOn]
    s.queries = true ∧ (itermSupported itermTerm s).2.1 = .bool false ∧
    (itermSupported itermTerm { s with itermSup := none }).2.1 = .bool true := by
  decide

/-- `set_cell_ratio(DYNAMIC)` keeps raising after `enable_queries()` on a terminal whose cell size
    is available by query only -/
theorem enable_discards_counterexample_acr :
    let s := exec kittyTerm (St.init win0) [.qOff, .setRatio .dynamic, .qOn]
    s.queries = true ∧ (setAuto kittyTerm s false).2.1 = .err .termImageError ∧
    (setAuto kittyTerm { s with acr := none } false).2.1 = .unit := by
  decide

/-! ## cached_once -/

/-- CACHED ONCE (sequential).  Along **every** history, between two invalidations the body of
    a memoized function has run at most once per argument tuple — exactly once iff the value
    is cached (`rColors`/`rNv`/`rProbe` count body runs since the last invalidation; the
    harness observes the same count as `qo`/`qn`/`bp` events). -/
theorem cached_once (T : Term) (w0 : Win) (h : List Op) (hw : w0.ok) (hr : resizesOk h) :
    let s := (exec T (St.init w0) h).toCore
    (∀ k, s.rColors k ≤ 1 ∧ (s.rColors k = 1 ↔ (s.colors k).isSome)) ∧
    (s.rNv ≤ 1 ∧ (s.rNv = 1 ↔ s.nv.isSome)) ∧
    (∀ a, s.rProbe a ≤ 1 ∧ (s.rProbe a = 1 ↔ (s.probe a).isSome)) := by
  have hI := inv_reach false false T w0 h hw hr (fun h => by cases h) (fun h => by cases h)
  generalize (exec T (St.init w0) h).toCore = s at hI
  refine ⟨fun k => ?_, ?_, fun a => ?_⟩
  · rw [hI.rColors k]; cases (s.colors k) <;> simp
  · rw [hI.rNv]; cases s.nv <;> simp
  · rw [hI.rProbe a]; cases (s.probe a) <;> simp

/-- a memoized body runs only on a miss: a call whose key is cached emits no body event and
    returns the cached value -/
theorem cached_hit_runs_nothing (T : Term) (s : Core) (k : CKey) (a : Nat) :
    ((s.colors k).isSome → (getColors T s k).2.2 = [] ∧ (getColors T s k).1 = s) ∧
    (s.nv.isSome → (getNV T s).2.2 = [] ∧ (getNV T s).1 = s) ∧
    ((s.probe a).isSome → (probeCall s a).2.2 = [] ∧ (probeCall s a).1 = s) := by
  refine ⟨?_, ?_, ?_⟩
  · intro h; cases hc : s.colors k with
    | none => rw [hc] at h; cases h
    | some v => simp [getColors, hc]
  · intro h; cases hc : s.nv with
    | none => rw [hc] at h; cases h
    | some v => simp [getNV, hc]
  · intro h; cases hc : s.probe a with
    | none => rw [hc] at h; cases h
    | some v => simp [probeCall, hc]

/-- `terminal_size_cached`: under its proviso the probe returns what its body gives for the
    current window, and the body runs only when the terminal size differs from the one at the
    previous call (or after an invalidation) -/
theorem tsc_fresh (T : Term) (w0 : Win) (h : List Op) (hw : w0.ok) (hr : resizesOk h)
    (hp : tscProviso T (St.init w0) none (h ++ [.tsc])) :
    let s := (exec T (St.init w0) h).toCore
    (tscCall s).2.1 = (tscCall s.fresh).2.1 ∧
    (∀ v, s.tsc = some (v, (s.win.cols, s.win.rows)) → (tscCall s).2.2 = []) := by
  rw [tscProviso_append] at hp
  have hI := inv_reach false true T w0 h hw hr (fun h => by cases h) (fun _ => hp.1)
  have hpa := hp.2.1 (Or.inl rfl)
  generalize (exec T (St.init w0) h) = s at hI hpa
  refine ⟨?_, ?_⟩
  · rw [(tscCall_spec false true T s.toCore _ _ hI rfl hpa).2]
    simp [tscCall, Core.fresh]
  · intro v hv; simp [tscCall, hv]

/-- …including bodies that raise: for every history (raising calls included) under the probe's
    proviso, a call whose body raises leaves the memo exactly as it was, and it either raises —
    only when the body had to run (nothing memoized for the current size) — or returns the fresh
    value for the current window.  (`tsc_fresh` above already ranges over histories that
    contain raising calls.) -/
theorem tsc_fresh_raising (T : Term) (w0 : Win) (h : List Op) (hw : w0.ok) (hr : resizesOk h)
    (hp : tscProviso T (St.init w0) none (h ++ [.tscRaise])) :
    let s := (exec T (St.init w0) h).toCore
    (tscRaiseCall s).1 = s ∧
    (((tscRaiseCall s).2.1 = .err .runtimeError ∧ (tscRaiseCall s).2.2 = [.bTsc] ∧
        ∀ v, s.tsc ≠ some (v, (s.win.cols, s.win.rows))) ∨
     ((tscRaiseCall s).2.1 = (tscCall s.fresh).2.1 ∧ (tscRaiseCall s).2.2 = [])) := by
  rw [tscProviso_append] at hp
  have hI := inv_reach false true T w0 h hw hr (fun h => by cases h) (fun _ => hp.1)
  have hpa := hp.2.1 (Or.inr rfl)
  generalize (exec T (St.init w0) h) = s at hI hpa
  refine ⟨tscRaiseCall_state _, ?_⟩
  rcases hI.tsc rfl with hn | ⟨l, hg, ht⟩
  · left; simp [tscRaiseCall, hn]
  · by_cases hts : (s.win.cols, s.win.rows) = (l.cols, l.rows)
    · right
      have hl : l = s.win := by
        apply hpa l hg
        simp at hts; exact ⟨hts.1.symm, hts.2.symm⟩
      subst hl
      simp [tscRaiseCall, ht, tscCall, Core.fresh]
    · left
      simp only [tscRaiseCall, ht]
      refine ⟨by simp [hts], by simp [hts], ?_⟩
      intro v hv
      simp at hv; exact hts (by rw [hv.2.1, hv.2.2])

/-- TOGGLE RACE.  A toggle (towards flag value `n`, steps in the order the translator read off
    the code) running against a `get_cell_size()` of another thread, from a cache that is empty or
    fresh for the old setting: for **every** interleaving, once the toggle has finished the cache
    is empty or was computed under the *current* flag — at every later moment too, so after both
    have finished the next `get_cell_size()` is fresh. -/
theorem toggle_race_fresh (n : Bool) (c0 : Option Bool) (hc0 : c0 = none ∨ c0 = some (!n))
    (steps : List Nat) (hs : steps = Generated.swapOnSteps ∨ steps = Generated.swapOffSteps ∨ steps = Generated.qOnSteps)
    (sched : List Race.Who) :
    let s := Race.rrun (Race.decode steps) n (Race.RSt.init n c0) sched
    s.pc = 4 → s.flag = n ∧ (s.cache = none ∨ s.cache = some s.flag) := by
  have hd : Race.decode steps = Race.canonical := by
    rcases hs with h | h | h <;> subst h
    · exact generated_toggle_order.1
    · exact generated_toggle_order.2.1
    · exact generated_toggle_order.2.2.1
  rw [hd]
  have hI := Race.rinv_run n _ sched (Race.rinv_init n c0 hc0)
  generalize Race.rrun Race.canonical n (Race.RSt.init n c0) sched = s at hI
  dsimp only
  intro hpc
  obtain ⟨_, _, _, hf, _, hc⟩ := hI
  rw [hpc] at hf hc
  have hf' : s.flag = n := by simpa using hf
  refine ⟨hf', ?_⟩
  cases hcc : s.cache with
  | none => left; rfl
  | some c =>
    right; rw [hcc] at hc
    have : c = s.flag := by simpa using hc
    rw [this]

/-- INVALIDATE ORDERED.  The same machine is the memo of `cached` under `enable_queries()`: the
    toggle is *write `_queries_enabled`; `_invalidate_cache()` = take the decorator's lock, `cache.clear()`,
    release* (order and locking read off the AST of `enable_queries` and of `cached`'s `invalidate`), the
    reader is an in-flight first call (take the lock, miss, run the body — which reads the flag —,
    `setdefault`, release).  For **every** interleaving: once `enable_queries()` has returned, the memo is
    empty or holds a value computed with queries enabled — a result obtained by a body that saw them
    disabled is never in the cache after the invalidation has completed, however the two overlapped. -/
theorem invalidate_ordered (c0 : Option Bool) (hc0 : c0 = none ∨ c0 = some false) (sched : List Race.Who) :
    let s := Race.rrun (Race.decode Generated.cachedInvalSteps) true (Race.RSt.init true c0) sched
    s.pc = 4 → s.flag = true ∧ (s.cache = none ∨ s.cache = some true) := by
  have hd : Race.decode Generated.cachedInvalSteps = Race.canonical := by decide
  rw [hd]
  have hI := Race.rinv_run true _ sched (Race.rinv_init true c0 (by simpa using hc0))
  generalize Race.rrun Race.canonical true (Race.RSt.init true c0) sched = s at hI
  dsimp only
  intro hpc
  obtain ⟨_, _, _, hf, _, hc⟩ := hI
  rw [hpc] at hf hc
  have hf' : s.flag = true := by simpa using hf
  refine ⟨hf', ?_⟩
  cases hcc : s.cache with
  | none => left; rfl
  | some c =>
    right; rw [hcc] at hc
    have : c = s.flag := by simpa using hc
    rw [this, hf']

/-- without the lock around `cache.clear()` the in-flight body stores its disabled-state result after
    the clear (the schedule the interleaving search reproduces on the real code) -/
theorem invalidate_unlocked_counterexample :
    let s := Race.rrun [.setFlag, .clear] true (Race.RSt.init true none)
      [.R, .R, .R, .T, .T, .R, .R]
    s.rpc = .done ∧ s.flag = true ∧ s.cache = some false := by decide

/-- the order matters: with *clear first, flag last* a reader in the gap re-fills the cache
    under the old setting (the schedule the harness' interleaving search reproduces) -/
theorem toggle_race_counterexample :
    let s := Race.rrun [.lock, .clear, .unlock, .setFlag] true (Race.RSt.init true (some false))
      [.T, .T, .T, .R, .R, .R, .R, .R, .T]
    s.pc = 4 ∧ s.rpc = .done ∧ s.flag = true ∧ s.cache = some false := by decide

/-- CACHED ONCE (concurrent first calls).  For every number of threads, every assignment of
    arguments and **every** interleaving of the steps *acquire / look up / run body /
    setdefault / release*: the body runs at most once per argument, at most one thread is
    between acquire and release, and every call that has a value has the cached one (so calls
    with equal arguments return equal values). -/
theorem cached_once_concurrent (arg : Nat → Nat) (sched : List Nat) :
    let s := Conc.runF arg Conc.CSt.init sched
    (∀ a, s.runs a ≤ 1) ∧
    (∀ t t', Conc.inCS (s.pc t) → Conc.inCS (s.pc t') → t = t') ∧
    (∀ t v, s.pc t = .done v → s.cache (arg t) = some v) ∧
    (∀ t t' v v', arg t = arg t' → s.pc t = .done v → s.pc t' = .done v' → v = v') := by
  have hI := Conc.cinv_runF arg Conc.CSt.init sched (Conc.cinv_init arg)
  generalize Conc.runF arg Conc.CSt.init sched = s at hI
  refine ⟨fun a => (hI.runs a).1, ?_, fun t v h => hI.vals t v (Or.inr h), ?_⟩
  · intro t t' h h'
    have e := hI.excl t h
    rw [hI.excl t' h'] at e
    injection e with e; exact e.symm
  · intro t t' v v' ha h h'
    have e := hI.vals t v (Or.inr h)
    rw [ha, hI.vals t' v' (Or.inr h')] at e
    injection e with e; exact e.symm

/-- the same for the coarse schedules the harness forces on real threads -/
theorem cached_once_concurrent_coarse (arg : Nat → Nat) (sched : List Nat) :
    ∀ a, (Conc.runC arg Conc.CSt.init sched).runs a ≤ 1 :=
  fun a => ((Conc.cinv_runC arg Conc.CSt.init sched (Conc.cinv_init arg)).runs a).1

/-! ## non-vacuity -/

/-- a history with a resize, a toggle and reads that satisfies the proviso -/
example : cellProviso kittyTerm (St.init win0) none
    ([.getCellSize, .resize { win0 with cols := 100, aw := 1000 }, .getCellSize, .swapOn,
      .resize { win0 with cols := 100, aw := 1200 }] ++ [.getCellSize]) := by
  simp [cellProviso, step, provisoAt, ghostStep, readWin, effectiveToggle, readsCell, getCellSize, sameCells,
    St.init, Core.init, win0, CC.cleared, computeCell, kittyTerm, Generated.initSwap, Generated.initQueries]

/-- the proviso is not vacuous either: the A→A' font change without a toggle violates it -/
example : ¬ cellProviso kittyTerm (St.init win0) none
    [.getCellSize, .resize { win0 with cw := 12 }, .getCellSize] := by
  simp [cellProviso, step, provisoAt, ghostStep, readWin, effectiveToggle, readsCell, getCellSize, sameCells,
    St.init, Core.init, win0, CC.cleared, computeCell, kittyTerm, Generated.initSwap, Generated.initQueries]

example : (exec kittyTerm (St.init win0) [.setRatio .dynamic]).ratio = none := by decide

example : (Conc.runF (fun _ => 7) Conc.CSt.init [0, 1, 0, 0, 1, 0, 0, 1, 1, 1]).runs 7 = 1 := by decide

end TIV.C15
