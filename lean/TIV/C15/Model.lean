import TIV.C15.Generated
/-!
# C15 — model of the cached terminal facts (sequential part)

Mirrors, branch by branch,
* `term_image.utils.get_cell_size` (`_cell_size_cache` keyed by the terminal size),
* `term_image.utils.cached` as used by `get_fg_bg_colors` / `get_terminal_name_version`
  (a dict keyed by the argument tuple, cleared by `_invalidate_cache`),
* `term_image.utils.terminal_size_cached` (a last-value cache keyed by the terminal size),
* `term_image.{enable,disable}_queries`, `{enable,disable}_win_size_swap`,
  `set_cell_ratio`, `get_cell_ratio`, `AutoCellRatio.is_supported`,
* `TextImage._is_on_kitty` (after the repair: not separately cached),
  `KittyImage.is_supported`, `ITerm2Image.is_supported` (class attribute `_supported`).

External parts are parameters: what the terminal answers (`Term`, `Win`), CPython's true
division (`RatioVal.frac w h` stands for `truediv(w, h)`; the driver prints its binary64
image with `divBits`), regex parsing of the replies (the model receives the parsed numbers).
-/
namespace TIV.C15

/-- what `resize` changes: the window as the tty driver reports it (TIOCGWINSZ: `cols rows
    xpx ypx`) and as the terminal reports it when asked (`CSI 16 t` → `ch;cw`, `CSI 14 t` → `ah;aw`) -/
structure Win where
  cols : Nat
  rows : Nat
  xpx : Nat
  ypx : Nat
  cw : Nat
  ch : Nat
  aw : Nat
  ah : Nat
deriving DecidableEq, Repr

/-- a terminal has at least one column and one row (`floordiv` by the terminal size) -/
def Win.ok (w : Win) : Prop := 0 < w.cols ∧ 0 < w.rows

instance (w : Win) : Decidable w.ok := by unfold Win.ok; exact inferInstance

abbrev RGB := Nat × Nat × Nat

/-- names and versions are strings of code points (ASCII); kept as lists so that every function
    over them is structural -/
abbrev Str := List Nat

def sKitty : Str := [107, 105, 116, 116, 121]
def sIterm2 : Str := [105, 116, 101, 114, 109, 50]
def sKonsole : Str := [107, 111, 110, 115, 111, 108, 101]

inductive Err | valueError | termImageError | attributeError | runtimeError
deriving DecidableEq, Repr

/-- the identity of the terminal: fixed over a history -/
structure Term where
  ioctlFail : Bool          -- TIOCGWINSZ raises OSError
  ansCell : Bool            -- answers `CSI 16 t`
  ansArea : Bool            -- answers `CSI 14 t`
  termux : Bool             -- `$SHELL` starts with the termux prefix
  kittyGfx : Bool           -- answers the kitty graphics query with `i=31;OK`
  xtv : Option (Str × Str)  -- XTVERSION reply (name, version)
  envProg : Option Str      -- `$TERM_PROGRAM`
  envVer : Option Str       -- `$TERM_PROGRAM_VERSION`
  fg : Option RGB           -- OSC 10 reply (parsed)
  bg : Option RGB           -- OSC 11 reply (parsed)

/-- `_cell_size_cache` = `[cols, rows, cell_w, cell_h]` -/
structure CC where
  c : Nat
  r : Nat
  w : Nat
  h : Nat
deriving DecidableEq, Repr

def CC.cleared : CC := ⟨0, 0, 0, 0⟩

/-- `frac w h` = `truediv(w, h)`; `lit bits` = a float given by the user -/
inductive RatioVal
  | frac (w h : Nat)
  | lit (bits : Nat)
deriving DecidableEq, Repr

/-- Python truthiness of the float (`_cell_ratio or …`) -/
def RatioVal.truthy : RatioVal → Bool
  | .frac w _ => w != 0
  | .lit b => b % 2 ^ 63 != 0

/-- `ratio <= 0.0` on the binary64 image (NaN compares false) -/
def leZero (b : Nat) : Bool :=
  let mag := b % 2 ^ 63
  let isNaN := decide (mag > 0x7ff0000000000000)
  !isNaN && (decide (b / 2 ^ 63 % 2 = 1) || mag == 0)

inductive CKey | noarg | hexF | hexT
deriving DecidableEq, Repr

def CKey.hex : CKey → Bool
  | .hexT => true
  | _ => false

inductive Val
  | unit
  | cell (c : Option (Nat × Nat))
  | ratio (r : RatioVal)
  | colors (hex : Bool) (fg bg : Option RGB)
  | nv (n v : Option Str)
  | bool (b : Bool)
  | num (n : Nat)
  | stamp (cols rows xpx ypx : Nat)
  | err (e : Err)
deriving DecidableEq, Repr

/-- observable events: a call of `get_cell_size`, a call of `query_terminal` by the body of
    the named feature (made whether or not queries are enabled), a run of a probe body -/
inductive Ev | cellRead | qCell | qColors | qName | qKitty | bProbe | bTsc
deriving DecidableEq, Repr

def upd {α β} [DecidableEq α] (f : α → β) (a : α) (b : β) : α → β :=
  fun x => if x = a then b else f x

abbrev NV := Option Str × Option Str

/-- everything except the three "support" flags (the part the freshness invariant is about) -/
structure Core where
  win : Win
  swap : Bool                    -- utils._swap_win_size
  queries : Bool                 -- utils._queries_enabled
  ratio : Option RatioVal        -- term_image._cell_ratio (None = DYNAMIC)
  cc : CC                        -- utils._cell_size_cache
  colors : CKey → Option (Option RGB × Option RGB)   -- `cached` dict of get_fg_bg_colors
  nv : Option NV                 -- `cached` dict of get_terminal_name_version (one key)
  tsc : Option ((Nat × Nat × Nat × Nat) × (Nat × Nat))  -- a `terminal_size_cached` probe
  probe : Nat → Option Nat       -- a `cached` probe: argument ↦ value
  probeTotal : Nat               -- the probe body returns its global run index
  -- ghost: body runs since the last invalidation (observed by the harness as events)
  rColors : CKey → Nat
  rNv : Nat
  rProbe : Nat → Nat

structure St extends Core where
  kittySup : Option Bool         -- KittyImage._supported
  itermSup : Option Bool         -- ITerm2Image._supported
  acr : Option Bool              -- AutoCellRatio.is_supported

def Core.init (w : Win) : Core :=
  { win := w, swap := Generated.initSwap, queries := Generated.initQueries,
    ratio := some (.lit Generated.initRatioBits), cc := CC.cleared,
    colors := fun _ => none, nv := none, tsc := none,
    probe := fun _ => none, probeTotal := 0,
    rColors := fun _ => 0, rNv := 0, rProbe := fun _ => 0 }

def St.init (w : Win) : St :=
  { toCore := Core.init w, kittySup := Generated.initSupported,
    itermSup := Generated.initSupported, acr := Generated.initAcr }

/-- all caches dropped, settings and environment kept: the state a *fresh computation* runs in -/
def Core.fresh (s : Core) : Core :=
  { s with cc := CC.cleared, colors := fun _ => none, nv := none, tsc := none }

/-! ## get_cell_size -/

def sizeOf (c : Nat × Nat) : Option (Nat × Nat) :=
  if c.1 = 0 ∨ c.2 = 0 then none else some c

def swapIf (b : Bool) (p : Nat × Nat) : Nat × Nat := if b then (p.2, p.1) else p

/-- the part of `get_cell_size` below the cache test; `q` = `_queries_enabled` -/
def computeCell (T : Term) (w : Win) (swap q : Bool) : (Nat × Nat) × List Ev :=
  if !T.ioctlFail && w.xpx != 0 && w.ypx != 0 then
    let ta := swapIf swap (w.xpx, w.ypx)
    ((ta.1 / w.cols, ta.2 / w.rows), [])
  else if q && T.ansCell then ((w.cw, w.ch), [.qCell])
  else if q && T.ansArea then
    let ta := if T.termux then (w.aw, w.ah * 2) else (w.aw, w.ah)
    let ta := swapIf swap ta
    ((ta.1 / w.cols, ta.2 / w.rows), [.qCell])
  else ((0, 0), [.qCell])

def getCellSize (T : Term) (s : Core) : Core × Option (Nat × Nat) × List Ev :=
  if s.win.cols = s.cc.c ∧ s.win.rows = s.cc.r then
    (s, sizeOf (s.cc.w, s.cc.h), [.cellRead])
  else
    let r := computeCell T s.win s.swap s.queries
    ({ s with cc := ⟨s.win.cols, s.win.rows, r.1.1, r.1.2⟩ }, sizeOf r.1, .cellRead :: r.2)

/-- A resize to `w'` that arrives *during* a lookup that started at window `w`, at point
    `p`: 1 = right after the size read (pixels and replies are already the new ones), 2 = right after
    the ioctl (only the XTWINOPS replies are the new ones), otherwise after the query was written /
    before the store (everything measured is the old geometry).  The lookup sees this window: -/
def mixWin (p : Nat) (w w' : Win) : Win :=
  if p = 1 then { w' with cols := w.cols, rows := w.rows }
  else if p = 2 then { w' with cols := w.cols, rows := w.rows, xpx := w.xpx, ypx := w.ypx }
  else w

/-- `get_cell_size()` overtaken by a resize: the size read FIRST is both the cache key tested and
    the key stored (`_cell_size_cache[:] = terminal_size + cell_size`), whatever it measured -/
def getCellSizeR (T : Term) (s : Core) (p : Nat) (w' : Win) : Core × Option (Nat × Nat) × List Ev :=
  let r := getCellSize T { s with win := mixWin p s.win w' }
  ({ r.1 with win := w' }, r.2.1, r.2.2)

/-! ## the two `cached` query features -/

def colorsBody (T : Term) (q : Bool) : Option RGB × Option RGB :=
  if q then (T.fg, T.bg) else (none, none)

def getColors (T : Term) (s : Core) (k : CKey) : Core × Val × List Ev :=
  match s.colors k with
  | some v => (s, .colors k.hex v.1 v.2, [])
  | none =>
    let v := colorsBody T s.queries
    ({ s with colors := upd s.colors k (some v), rColors := upd s.rColors k (s.rColors k + 1) },
     .colors k.hex v.1 v.2, [.qColors])

/-- `str.lower()` on ASCII -/
def lower (s : Str) : Str := s.map (fun c => if 65 ≤ c ∧ c ≤ 90 then c + 32 else c)

def nameBody (T : Term) (q : Bool) : NV :=
  match (if q then T.xtv else none) with
  | some (n, v) => (some (lower n), some v)
  | none => (T.envProg.map lower, T.envVer)

def getNV (T : Term) (s : Core) : Core × NV × List Ev :=
  match s.nv with
  | some v => (s, v, [])
  | none =>
    let v := nameBody T s.queries
    ({ s with nv := some v, rNv := s.rNv + 1 }, v, [.qName])

/-- `TextImage._is_on_kitty` after the repair: a plain function of `get_terminal_name_version` -/
def isOnKitty (T : Term) (s : Core) : Core × Val × List Ev :=
  let r := getNV T s
  (r.1, .bool (r.2.1.1 == some sKitty), r.2.2)

/-! ## support checks (class attribute `_supported`, never invalidated) -/

def digitVal? (c : Nat) : Option Nat :=
  if 48 ≤ c ∧ c ≤ 57 then some (c - 48) else none

def natOfDigits? : Str → Nat → Option Nat
  | [], acc => some acc
  | c :: cs, acc => match digitVal? c with
    | some d => natOfDigits? cs (acc * 10 + d)
    | none => none

/-- `int(part)` restricted to plain decimal digit strings (anything else: `ValueError`) -/
def intPart? (p : Str) : Option Nat :=
  if p.isEmpty then none else natOfDigits? p 0

/-- `version.split(".")` -/
def splitDots : Str → List Str
  | [] => [[]]
  | c :: cs =>
    if c = 46 then [] :: splitDots cs
    else match splitDots cs with
      | [] => [[c]]
      | p :: ps => (c :: p) :: ps

def allSome : List (Option Nat) → Option (List Nat)
  | [] => some []
  | none :: _ => none
  | some x :: xs => match allSome xs with
    | some r => some (x :: r)
    | none => none

/-- `tuple(map(int, version.split(".")))` -/
def parseVer (v : Str) : Option (List Nat) := allSome ((splitDots v).map intPart?)

/-- Python's tuple `>=` -/
def verGE : List Nat → List Nat → Bool
  | _, [] => true
  | [], _ :: _ => false
  | a :: as, b :: bs => if a > b then true else if a < b then false else verGE as bs

def kittySupported (T : Term) (s : St) : St × Val × List Ev :=
  match s.kittySup with
  | some b => (s, .bool b, [])
  | none =>
    let r1 := getNV T s.toCore
    let s : St := { s with toCore := r1.1, kittySup := some false }
    if r1.2.1.1 == some sIterm2 then (s, .bool false, r1.2.2)
    else
      let evs := r1.2.2 ++ [.qKitty]
      if s.queries && T.kittyGfx then
        let r2 := getNV T s.toCore
        let s : St := { s with toCore := r2.1 }
        let evs := evs ++ r2.2.2
        let name := r2.2.1.1
        let version := r2.2.1.2
        if name == some sKitty && (version != none && version != some []) then
          match parseVer (version.getD []) with
          | some t =>
            if verGE t Generated.kittyMinVer then ({ s with kittySup := some true }, .bool true, evs)
            else (s, .bool false, evs)
          | none => (s, .bool false, evs)
        else if name == some sKonsole then ({ s with kittySup := some true }, .bool true, evs)
        else (s, .bool false, evs)
      else (s, .bool false, evs)

def itermSupported (T : Term) (s : St) : St × Val × List Ev :=
  match s.itermSup with
  | some b => (s, .bool b, [])
  | none =>
    let r1 := getNV T s.toCore
    let s : St := { s with toCore := r1.1, itermSup := some false }
    let evs := r1.2.2
    match r1.2.1.1 with
    | none => (s, .bool false, evs)
    | some name =>
      if Generated.itermNames.contains name then
        if name != sKonsole then ({ s with itermSup := some true }, .bool true, evs)
        else match r1.2.1.2 with
          | none => (s, .err .attributeError, evs)
          | some v => match parseVer v with
            | none => (s, .bool false, evs)
            | some t =>
              if verGE t Generated.konsoleMinVer then ({ s with itermSup := some true }, .bool true, evs)
              else (s, .bool false, evs)
      else (s, .bool false, evs)

/-! ## cell ratio -/

def ratioOfCell (c : Option (Nat × Nat)) : RatioVal :=
  match c with
  | some (w, h) => .frac w h
  | none => .frac Generated.fallbackCell.1 Generated.fallbackCell.2

inductive RatioArg | fixed | dynamic | lit (bits : Nat)
deriving DecidableEq, Repr

def getCellRatio (T : Term) (s : Core) : Core × Val × List Ev :=
  match s.ratio with
  | some r =>
    if r.truthy then (s, .ratio r, [])
    else let g := getCellSize T s; (g.1, .ratio (ratioOfCell g.2.1), g.2.2)
  | none => let g := getCellSize T s; (g.1, .ratio (ratioOfCell g.2.1), g.2.2)

/-- `set_cell_ratio(AutoCellRatio.FIXED | DYNAMIC)` -/
def setAuto (T : Term) (s : St) (fixed : Bool) : St × Val × List Ev :=
  let r0 : St × List Ev := match s.acr with
    | none => let g := getCellSize T s.toCore; ({ s with toCore := g.1, acr := some g.2.1.isSome }, g.2.2)
    | some _ => (s, [])
  let s := r0.1
  if s.acr != some true then (s, .err .termImageError, r0.2)
  else if fixed then
    let g := getCellSize T s.toCore
    ({ s with toCore := { g.1 with ratio := some (ratioOfCell g.2.1) } }, .unit, r0.2 ++ g.2.2)
  else ({ s with ratio := none }, .unit, r0.2)

def setCellRatio (T : Term) (s : St) (a : RatioArg) : St × Val × List Ev :=
  match a with
  | .lit b => if leZero b then (s, .err .valueError, []) else ({ s with ratio := some (.lit b) }, .unit, [])
  | .fixed => setAuto T s true
  | .dynamic => setAuto T s false

/-! ## consumers of the cell size (graphics images) -/

/-- `GraphicsImage._pixels_cols(cols=n)`, `_pixels_lines(lines=n)`, `_pixels_cols(pixels=n)`,
    `_pixels_lines(pixels=n)`, `_get_render_size()` of an image whose rendered size is `n × n` -/
inductive UseKind | colsPx | linesPx | pxCols | pxLines | renderSize
deriving DecidableEq, Repr

def useVal (k : UseKind) (n : Nat) (c : Nat × Nat) : Val :=
  match k with
  | .colsPx => .num (n * c.1)
  | .linesPx => .num (n * c.2)
  | .pxCols => .num (n / c.1)
  | .pxLines => .num (n / c.2)
  | .renderSize => .cell (some (n * c.1, n * c.2))

/-- each of them is `… get_cell_size() or (1, 2) …`: one plain call, nothing memoized on top -/
def useCell (T : Term) (s : Core) (k : UseKind) (n : Nat) : Core × Val × List Ev :=
  let g := getCellSize T s
  (g.1, useVal k n (g.2.1.getD Generated.fallbackCell), g.2.2)

/-! ## probes for the two decorators -/

def tscBody (w : Win) : Nat × Nat × Nat × Nat := (w.cols, w.rows, w.xpx, w.ypx)

def stampVal (v : Nat × Nat × Nat × Nat) : Val := .stamp v.1 v.2.1 v.2.2.1 v.2.2.2

/-- `terminal_size_cached_wrapper` -/
def tscCall (s : Core) : Core × Val × List Ev :=
  let ts := (s.win.cols, s.win.rows)
  match s.tsc with
  | some (v, ts') =>
    if ts ≠ ts' then ({ s with tsc := some (tscBody s.win, ts) }, stampVal (tscBody s.win), [.bTsc])
    else (s, stampVal v, [])
  | none => ({ s with tsc := some (tscBody s.win, ts) }, stampVal (tscBody s.win), [.bTsc])

/-- the same wrapper when the body raises (if it has to run): `cache = (func(…), ts)` is never
    reached, so the cache is left exactly as it was; a hit returns the cached value -/
def tscRaiseCall (s : Core) : Core × Val × List Ev :=
  let ts := (s.win.cols, s.win.rows)
  match s.tsc with
  | some (v, ts') => if ts ≠ ts' then (s, .err .runtimeError, [.bTsc]) else (s, stampVal v, [])
  | none => (s, .err .runtimeError, [.bTsc])

/-- `cached_wrapper` around a body that returns its global run index -/
def probeCall (s : Core) (a : Nat) : Core × Val × List Ev :=
  match s.probe a with
  | some v => (s, .num v, [])
  | none =>
    ({ s with probe := upd s.probe a (some s.probeTotal), probeTotal := s.probeTotal + 1,
              rProbe := upd s.rProbe a (s.rProbe a + 1) }, .num s.probeTotal, [.bProbe])

/-! ## operations -/

inductive Op
  | resize (w : Win)
  | swapOn | swapOff | qOn | qOff
  | setRatio (a : RatioArg)
  | setAcr (v : Option Bool)
  | getCellSize | getCellRatio | getColors (k : CKey) | getNV | isOnKitty
  | getCellSizeR (p : Nat) (w : Win)   -- a lookup overtaken by a resize at point `p`
  | useCell (k : UseKind) (n : Nat)    -- a graphics-image consumer of the cell size
  | kittySup | itermSup
  | tsc | tscInval | probe (a : Nat) | probeInval
  | tscRaise      -- a probe call whose body raises if it runs
  | startProc     -- `multiprocessing.Process.start` (rebinds the cache to a shared Array with the same content)
deriving DecidableEq, Repr

/-- lift a `Core` operation -/
def St.lift (s : St) (r : Core × Val × List Ev) : St × Val × List Ev := ({ s with toCore := r.1 }, r.2.1, r.2.2)

def qOnCore (s : Core) : Core :=
  if !s.queries then
    { s with queries := true, colors := fun _ => none, rColors := fun _ => 0, nv := none, rNv := 0,
             cc := CC.cleared }
  else s

def step (T : Term) (s : St) : Op → St × Val × List Ev
  | .resize w => ({ s with win := w }, .unit, [])
  | .swapOn => (if !s.swap then { s with swap := true, cc := CC.cleared } else s, .unit, [])
  | .swapOff => (if s.swap then { s with swap := false, cc := CC.cleared } else s, .unit, [])
  | .qOff => ({ s with queries := false }, .unit, [])
  | .qOn => ({ s with toCore := qOnCore s.toCore }, .unit, [])
  | .setRatio a => setCellRatio T s a
  | .setAcr v => ({ s with acr := v }, .unit, [])
  | .getCellSize => let g := getCellSize T s.toCore; ({ s with toCore := g.1 }, .cell g.2.1, g.2.2)
  | .getCellSizeR p w => let g := getCellSizeR T s.toCore p w; ({ s with toCore := g.1 }, .cell g.2.1, g.2.2)
  | .getCellRatio => s.lift (getCellRatio T s.toCore)
  | .useCell k n => s.lift (useCell T s.toCore k n)
  | .getColors k => s.lift (getColors T s.toCore k)
  | .getNV => let g := getNV T s.toCore; ({ s with toCore := g.1 }, .nv g.2.1.1 g.2.1.2, g.2.2)
  | .isOnKitty => s.lift (isOnKitty T s.toCore)
  | .kittySup => kittySupported T s
  | .itermSup => itermSupported T s
  | .tsc => s.lift (tscCall s.toCore)
  | .tscInval => ({ s with tsc := none }, .unit, [])
  | .tscRaise => s.lift (tscRaiseCall s.toCore)
  | .startProc => (s, .unit, [])
  | .probe a => s.lift (probeCall s.toCore a)
  | .probeInval => ({ s with probe := fun _ => none, rProbe := fun _ => 0 }, .unit, [])

/-- run a history, collecting the per-op outputs -/
def run (T : Term) : St → List Op → St × List (Val × List Ev)
  | s, [] => (s, [])
  | s, op :: ops =>
    let r := step T s op
    let rest := run T r.1 ops
    (rest.1, (r.2.1, r.2.2) :: rest.2)

def exec (T : Term) (s : St) (ops : List Op) : St := (run T s ops).1

/-! ## the proviso of the property, as a predicate on histories

The ghost `Option Win` is the window at the most recent call of `get_cell_size` since the most
recent *effective* toggle (`none` right after a toggle).  `cellProviso` says: whenever
`get_cell_size` is called and the terminal size in cells equals the one at that previous
call, everything else the window reports is unchanged too — i.e. pixel sizes change only
together with the size in cells *as observed by consecutive reads*, or with a toggle. -/

def readsCell (ev : List Ev) : Bool := ev.any (· == .cellRead)

def effectiveToggle (s : St) : Op → Bool
  | .swapOn => !s.swap
  | .swapOff => s.swap
  | .qOn => !s.queries
  | _ => false

/-- the window a read of this op measures (the mixed one for an overtaken lookup) -/
def readWin (s : St) : Op → Win
  | .getCellSizeR p w => mixWin p s.win w
  | _ => s.win

def ghostStep (T : Term) (s : St) (g : Option Win) (op : Op) : Option Win :=
  if effectiveToggle s op then none
  else if readsCell (step T s op).2.2 then some (readWin s op) else g

def sameCells (l w : Win) : Prop := l.cols = w.cols ∧ l.rows = w.rows

def provisoAt (g : Option Win) (w : Win) : Prop := ∀ l, g = some l → sameCells l w → l = w

def cellProviso (T : Term) : St → Option Win → List Op → Prop
  | _, _, [] => True
  | s, g, op :: ops =>
    (readsCell (step T s op).2.2 = true → provisoAt g (readWin s op)) ∧
    cellProviso T (step T s op).1 (ghostStep T s g op) ops

def ghostRun (T : Term) : St → Option Win → List Op → Option Win
  | _, g, [] => g
  | s, g, op :: ops => ghostRun T (step T s op).1 (ghostStep T s g op) ops

/-- same for the `terminal_size_cached` probe: ghost = window at its last call since its last
    invalidation -/
def tscGhostStep (s : St) (g : Option Win) : Op → Option Win
  | .tsc => some s.win
  | .tscInval => none
  | _ => g

def tscProviso (T : Term) : St → Option Win → List Op → Prop
  | _, _, [] => True
  | s, g, op :: ops =>
    ((op = .tsc ∨ op = .tscRaise) → provisoAt g s.win) ∧ tscProviso T (step T s op).1 (tscGhostStep s g op) ops

def tscGhostRun (T : Term) : St → Option Win → List Op → Option Win
  | _, g, [] => g
  | s, g, op :: ops => tscGhostRun T (step T s op).1 (tscGhostStep s g op) ops

def resizesOk (h : List Op) : Prop := ∀ w, (Op.resize w ∈ h ∨ ∃ p, Op.getCellSizeR p w ∈ h) → w.ok

/-! ## concurrent first calls of a `cached` function

`cached_wrapper` is `with lock: try: return cache[args] except KeyError: return
cache.setdefault(args, func(*args))` — lock first, then check.  Threads are natural numbers,
thread `t` calls the wrapper once with argument `arg t`.  A schedule is a list of thread ids;
scheduling a thread that cannot move (blocked on the lock, or finished) is a stutter. -/
namespace Conc

inductive PC
  | start                -- before `lock.acquire()`
  | locked               -- holds the lock, about to look the key up
  | miss                 -- KeyError: about to run the body
  | ran (v : Nat)        -- body returned `v`, about to `setdefault`
  | have (v : Nat)       -- has the value to return, about to release the lock
  | done (v : Nat)       -- returned `v`
deriving DecidableEq, Repr

structure CSt where
  pc : Nat → PC
  owner : Option Nat
  cache : Nat → Option Nat     -- argument ↦ value
  runs : Nat → Nat             -- argument ↦ number of body runs
  total : Nat                  -- the body returns its global run index

def CSt.init : CSt :=
  { pc := fun _ => .start, owner := none, cache := fun _ => none, runs := fun _ => 0, total := 0 }

def fine (arg : Nat → Nat) (s : CSt) (t : Nat) : CSt :=
  match s.pc t with
  | .start => if s.owner = none then { s with owner := some t, pc := upd s.pc t .locked } else s
  | .locked =>
    match s.cache (arg t) with
    | some v => { s with pc := upd s.pc t (.have v) }
    | none => { s with pc := upd s.pc t .miss }
  | .miss =>
    { s with pc := upd s.pc t (.ran s.total), total := s.total + 1,
             runs := upd s.runs (arg t) (s.runs (arg t) + 1) }
  | .ran v =>
    match s.cache (arg t) with
    | some v' => { s with pc := upd s.pc t (.have v') }
    | none => { s with cache := upd s.cache (arg t) (some v), pc := upd s.pc t (.have v) }
  | .have v => { s with owner := none, pc := upd s.pc t (.done v) }
  | .done _ => s

def runF (arg : Nat → Nat) (s : CSt) (sched : List Nat) : CSt := sched.foldl (fine arg) s

/-- the points at which the harness can park a real thread: before the acquire, inside the
    body, after the return -/
def atYield : PC → Bool
  | .start | .miss | .done _ => true
  | _ => false

/-- one scheduling decision of the harness = the fine steps of that thread up to its next
    yield point (a particular fine schedule, so every theorem about `runF` applies) -/
def coarse (arg : Nat → Nat) (s : CSt) (t : Nat) : CSt :=
  let s := fine arg s t
  let s := if atYield (s.pc t) then s else fine arg s t
  if atYield (s.pc t) then s else fine arg s t

def runC (arg : Nat → Nat) (s : CSt) (sched : List Nat) : CSt := sched.foldl (coarse arg) s

end Conc


/-! ## a toggle racing a concurrent `get_cell_size()`

The toggle (`enable/disable_win_size_swap`, `enable_queries`) is the sequence of atomic steps the
translator reads off its AST (`Generated.*Steps`): write the flag (outside the lock), take
`_cell_size_lock`, clear the cache, release.  The reader is `get_cell_size()` in another thread:
take the lock, look the cache up, on a miss read the flag (inside the lock) and compute, store,
release.  The cache content is abstracted to the flag value it was computed under. -/
namespace Race

inductive TStep | setFlag | lock | clear | unlock
deriving DecidableEq, Repr

def decodeStep : Nat → Option TStep
  | 0 => some .setFlag | 1 => some .lock | 2 => some .clear | 3 => some .unlock | _ => none

def decode (l : List Nat) : List TStep := l.filterMap decodeStep

inductive Who | T | R
deriving DecidableEq, Repr

inductive RPC
  | start | locked | miss | got (f : Bool) | rel | done
deriving DecidableEq, Repr

structure RSt where
  flag : Bool                -- `_swap_win_size` / `_queries_enabled`
  cache : Option Bool        -- none = cleared; some f = filled by a computation that saw flag `f`
  owner : Option Who         -- holder of `_cell_size_lock`
  pc : Nat                   -- index of the toggle's next step
  rpc : RPC
  rval : Option Bool         -- what the reader returned was computed under this flag
deriving DecidableEq, Repr

def RSt.init (n : Bool) (cache : Option Bool) : RSt :=
  { flag := !n, cache := cache, owner := none, pc := 0, rpc := .start, rval := none }

/-- one step of the toggle (towards flag value `n`) or of the reader; blocked/finished = stutter -/
def rstep (prog : List TStep) (n : Bool) (s : RSt) : Who → RSt
  | .T =>
    match prog[s.pc]? with
    | none => s
    | some .setFlag => { s with flag := n, pc := s.pc + 1 }
    | some .lock => if s.owner = none then { s with owner := some .T, pc := s.pc + 1 } else s
    | some .clear => { s with cache := none, pc := s.pc + 1 }
    | some .unlock => { s with owner := none, pc := s.pc + 1 }
  | .R =>
    match s.rpc with
    | .start => if s.owner = none then { s with owner := some .R, rpc := .locked } else s
    | .locked =>
      match s.cache with
      | some f => { s with rpc := .rel, rval := some f }
      | none => { s with rpc := .miss }
    | .miss => { s with rpc := .got s.flag }
    | .got f => { s with cache := some f, rpc := .rel, rval := some f }
    | .rel => { s with owner := none, rpc := .done }
    | .done => s

def rrun (prog : List TStep) (n : Bool) (s : RSt) (sched : List Who) : RSt := sched.foldl (rstep prog n) s

/-- the order the code has (and must have) -/
def canonical : List TStep := [.setFlag, .lock, .clear, .unlock]

end Race

/-! ## CPython `int / int` (correctly rounded), used by the driver to print `frac w h` -/

def divBits (a b : Nat) : Nat :=
  if a = 0 ∨ b = 0 then 0 else
  let e0 : Int := (a.log2 : Int) - (b.log2 : Int)
  -- a / b < 2^e0  ⇔  a * 2^lb < b * 2^la
  let e : Int := if a * 2 ^ b.log2 < b * 2 ^ a.log2 then e0 - 1 else e0
  let sh : Int := 52 - e
  let num := if sh ≥ 0 then a * 2 ^ sh.toNat else a
  let den := if sh ≥ 0 then b else b * 2 ^ (-sh).toNat
  let q := num / den
  let r := num % den
  let q := if 2 * r > den ∨ (2 * r = den ∧ q % 2 = 1) then q + 1 else q
  let (q, e) := if q = 2 ^ 53 then (2 ^ 52, e + 1) else (q, e)
  (e + 1023).toNat * 2 ^ 52 + (q - 2 ^ 52)

def ratioBits : RatioVal → Nat
  | .frac w h => divBits w h
  | .lit b => b

end TIV.C15
