import TIV.Common.DriverMain
import TIV.C02.Drive
def main : IO Unit := TIV.driverMain TIV.C02.handler
