import TIV.Common.Block
import TIV.C04.Softfloat
/-!
# C02 model — the part of `_get_render_data` after Pillow that decides transparency
(src/term_image/image/common.py:1419-1525): with `round_alpha`, `a = [0 if val < alpha else 255 …]`
where `alpha = round(alpha * 255)`; compositing formula of `Image.alpha_composite` for opaque backgrounds.
-/
namespace TIV.C02

/-- `[0 if val < thr else 255 for val in a]` -/
def roundAlpha (thr : Nat) (a : List Nat) : List Nat := a.map fun v => if v < thr then 0 else 255

/-- `alpha = round(alpha * 255)` for the float `alpha` given by its binary64 image:
    one correctly rounded multiplication, then Python's round-half-even -/
def threshold (alphaBits : Nat) : Option Nat :=
  (C04.SF.ofBits alphaBits).map fun a => C04.SF.round (C04.SF.mul a (C04.SF.ofNat 255))

/-- Pillow's `alpha_composite` of a source pixel channel `s` with alpha `a` over an opaque
    background channel `b` (both 0…255): `ImagingAlphaComposite` with `dst.a = 255` reduces to
    the classic `MULDIV255`-style blend `(s·a + b·(255−a)) / 255` rounded to nearest. -/
def blendChannel (s a b : Nat) : Nat :=
  let t := s * a + b * (255 - a) + 128
  ((t >>> 8) + t) >>> 8

end TIV.C02
