import TIV.C02.Proofs
import TIV.C02.Model
/-!
# C02 — block renders show exactly the image's pixels.

`Block.want` is the specification of one cell (TIV/Common/BlockProofs.lean). The theorems say
that for every pixel grid, every alpha class, background, kitty-workaround and split-cells
setting, interpreting the render on the terminal model yields, cell for cell, `want` of the
corresponding pixel pair.
-/
namespace TIV.C02
open TIV Term Block

/-- LINEAR FORM (every row content, every pen): one cell per pixel pair, each showing `want` -/
theorem line_shows (cfg : Cfg) (row : List PP) (pen : Pen) :
    (cellsOf pen (line cfg row)).map shows = row.map (want cfg) := Block.line_shows cfg row pen

/-- what `want` means, stated per half: a half is the terminal's own background exactly when the
    image has an alpha channel and that pixel's alpha is 0; otherwise it is the pixel's colour,
    except that a colour carried by the cell's *background* that equals the terminal background on
    kitty is nudged by one in red (so that kitty renders it at all). -/
theorem want_upper (cfg : Cfg) (p : PP) :
    ((want cfg p).1 = none ↔ (cfg.alpha = true ∧ p.a1 = 0)) ∧
    (∀ c, (want cfg p).1 = some c → c = p.c1 ∨ (p.c1 = p.c2 ∧ c = tweak cfg p.c2)) := by
  unfold want
  cases hα : cfg.alpha <;> by_cases h1 : p.a1 = 0 <;> by_cases h2 : p.a2 = 0 <;> by_cases h3 : p.c1 = p.c2 <;>
    simp [hα, h1, h2, h3] <;> (try (intro c hc; subst hc; simp [h3]))

theorem want_lower (cfg : Cfg) (p : PP) :
    ((want cfg p).2 = none ↔ (cfg.alpha = true ∧ p.a2 = 0)) ∧
    (∀ c, (want cfg p).2 = some c → c = p.c2 ∨ c = tweak cfg p.c2) := by
  unfold want
  cases hα : cfg.alpha <;> by_cases h1 : p.a1 = 0 <;> by_cases h2 : p.a2 = 0 <;> by_cases h3 : p.c1 = p.c2 <;>
    simp [hα, h1, h2, h3]

/-- the kitty workaround changes a colour only when it equals the terminal background, by exactly
    one in red, and the result differs from that background -/
theorem tweak_spec (cfg : Cfg) (c : RGB) :
    (¬(cfg.kitty = true ∧ some c = cfg.bgColor) → tweak cfg c = c) ∧
    ((cfg.kitty = true ∧ some c = cfg.bgColor) → c.1 ≤ 255 →
      (tweak cfg c).2 = c.2 ∧ ((tweak cfg c).1 = c.1 + 1 ∨ (tweak cfg c).1 + 1 = c.1) ∧
      some (tweak cfg c) ≠ cfg.bgColor ∧ (tweak cfg c).1 ≤ 255) := by
  unfold tweak bump
  constructor
  · intro h; simp [h]
  · intro h hc
    obtain ⟨r, g, b⟩ := c
    simp only [h, and_self, if_true]
    have hb : cfg.bgColor = some (r, g, b) := h.2.symm
    rw [hb]
    by_cases hr : r < 255
    · simp [hr]; omega
    · have : r = 255 := by simp at hc; omega
      subst this; simp

/-- disabling transparency ignores alpha -/
theorem no_alpha_ignores (cfg : Cfg) (hα : cfg.alpha = false) (p q : PP) (h1 : p.c1 = q.c1) (h2 : p.c2 = q.c2) :
    want cfg p = want cfg q := by
  unfold want; simp [hα, h1, h2]

/-- a uniformly coloured opaque image stays uniform: every cell shows the same pair -/
theorem uniform (cfg : Cfg) (c : RGB) (row : List PP) (hrow : ∀ p ∈ row, p.c1 = c ∧ p.c2 = c ∧ p.a1 ≠ 0 ∧ p.a2 ≠ 0)
    (pen : Pen) : ∀ s ∈ (cellsOf pen (line cfg row)).map shows, s = (some (tweak cfg c), some (tweak cfg c)) := by
  rw [line_shows]
  intro s hs
  simp only [List.mem_map] at hs
  obtain ⟨p, hp, rfl⟩ := hs
  obtain ⟨h1, h2, h3, h4⟩ := hrow p hp
  unfold want; simp [h1, h2, h3, h4]

/-- one block line, exactly: the cells it writes, where, and what they show -/
theorem blockLine_exact (cfg : Cfg) (row : List PP) (t : Term) (hpw : t.pw = false)
    (hfit : t.col + row.length ≤ t.W) :
    ∃ cs : List CellContent, cs.length = row.length ∧ cs.map shows = row.map (want cfg) ∧
      (t.run (line cfg row ++ [Tok.sgr0])).log = writesOf t.row t.col cs ++ t.log := by
  have htext : ∀ a ∈ line cfg row ++ [Tok.sgr0], a.isText = true := by
    intro a ha
    rcases List.mem_append.mp ha with h | h
    · exact line_text cfg row a h
    · simp at h; subst h; rfl
  have hcs : cellsOf ⟨t.fg, t.bg⟩ (line cfg row ++ [Tok.sgr0]) = cellsOf ⟨t.fg, t.bg⟩ (line cfg row) := by
    rw [cellsOf_append]; simp [cellsOf]
  have hl : (cellsOf ⟨t.fg, t.bg⟩ (line cfg row)).length = row.length := line_length cfg row _
  have eff := run_text _ htext t (Or.inl ⟨hpw, by rw [hcs, hl]; exact hfit⟩)
  refine ⟨cellsOf ⟨t.fg, t.bg⟩ (line cfg row), hl, Block.line_shows cfg row _, ?_⟩
  rw [eff.log, hcs]

/-- lines `i0, i0+1, …` of a block render, read back from the terminal -/
theorem render_shows_from (cfg : Cfg) (w h : Nat) :
    ∀ (rows : List (List PP)) (i0 : Nat), rows ≠ [] → i0 + rows.length = h →
      (∀ row ∈ rows, row.length = w) →
      ∀ (t : Term) (r0 x : Nat), t.lm = x → Ready t r0 x w h i0 →
        let t' := t.run (joinLines (renderLines cfg rows))
        (∃ new, t'.log = new ++ t.log ∧ ∀ wr ∈ new, r0 + i0 ≤ wr.1) ∧
        ∀ i row, rows[i]? = some row → ∀ j p, row[j]? = some p → ∃ c,
          t'.cellAt (r0 + i0 + i) (x + j) = some c ∧ shows c = want cfg p := by
  intro rows
  induction rows with
  | nil => intro i0 h; exact absurd rfl h
  | cons row rest ih =>
    intro i0 _ hlen hw t r0 x hlm hR
    have hrw : row.length = w := hw row (by simp)
    have hOK := blockLine_ok cfg row w h i0 hrw t r0 x trivial hR
    obtain ⟨cs, hcl, hcshow, hclog⟩ := blockLine_exact cfg row t hR.pw (by rw [hR.col, hrw]; exact hR.fitW)
    rw [hR.row, hR.col] at hclog
    have hread : ∀ (pre : List Write), (∀ wr ∈ pre, r0 + i0 + 1 ≤ wr.1) → ∀ j p, row[j]? = some p → ∃ c,
        ((pre ++ (writesOf (r0 + i0) x cs ++ t.log)).find? (fun wr => wr.1 == r0 + i0 && wr.2.1 == x + j)).map (·.2.2)
          = some c ∧ shows c = want cfg p := by
      intro pre hpre j p hp
      have hjr : j < row.length := (List.getElem?_eq_some_iff.mp hp).1
      rw [find_skip _ pre _ (by intro a ha; have := hpre a ha; simp; intro h; omega)]
      rw [find_writesOf _ _ _ _ j (by omega)]
      refine ⟨cs[j]'(by omega), rfl, ?_⟩
      have := congrArg (fun l => l[j]?) hcshow
      simp only [List.getElem?_map, hp] at this
      rw [List.getElem?_eq_getElem (by omega)] at this
      simpa using this
    cases rest with
    | nil =>
      simp only [renderLines, List.map_cons, List.map_nil, joinLines]
      refine ⟨⟨writesOf (r0 + i0) x cs, hclog, ?_⟩, ?_⟩
      · intro wr hwr; have := mem_writesOf hwr; omega
      · intro i r hi j p hp
        have hi0 : i = 0 ∧ r = row := by
          cases i with
          | zero => simp at hi; exact ⟨rfl, hi.symm⟩
          | succ i => simp at hi
        obtain ⟨rfl, rfl⟩ := hi0
        obtain ⟨c, hc1, hc2⟩ := hread [] (by simp) j p hp
        refine ⟨c, ?_, hc2⟩
        unfold cellAt; rw [hclog]; simpa using hc1
    | cons row2 rest2 =>
      simp only [renderLines, List.map_cons, joinLines] at ih ⊢
      rw [Term.run_append, Term.run_cons]
      generalize ht1 : t.run (line cfg row ++ [Tok.sgr0]) = t1 at hOK hclog
      have hfr := hOK.frame
      have hi1 : i0 + 1 < h := by simp at hlen; omega
      have hlf := lineFeed_ready (t := t1) (r0 := r0) (x := x) (w := w) (h := h) (i := i0)
        (by rw [hfr.lm]; exact hlm) (by rw [hOK.row]; exact hR.row) (by rw [hfr.W]; exact hR.fitW) hR.hw
        (by rw [hfr.top]; exact hR.visTop) (by rw [hfr.top, hfr.H]; exact hR.visBot) hi1
      obtain ⟨hR2, hfr2, hlog2, _, _⟩ := hlf
      have step_eq : Term.step t1 Tok.lf = t1.lineFeed := rfl
      rw [step_eq]
      have := ih (i0 + 1) (by simp) (by simp at hlen ⊢; omega) (fun r hr => hw r (by simp at hr ⊢; right; exact hr))
        t1.lineFeed r0 x (by rw [hfr2.lm, hfr.lm]; exact hlm) hR2
      obtain ⟨⟨new3, hnew3, hrows3⟩, hcells3⟩ := this
      refine ⟨⟨new3 ++ writesOf (r0 + i0) x cs, by rw [hnew3, hlog2, hclog, List.append_assoc], ?_⟩, ?_⟩
      · intro wr hwr
        rcases List.mem_append.mp hwr with h | h
        · have := hrows3 wr h; omega
        · have := mem_writesOf h; omega
      · intro i r hi j p hp
        cases i with
        | zero =>
          have hr : r = row := by simp at hi; exact hi.symm
          subst hr
          obtain ⟨c, hc1, hc2⟩ := hread new3 (fun wr hwr => by have := hrows3 wr hwr; omega) j p hp
          refine ⟨c, ?_, hc2⟩
          unfold cellAt; rw [hnew3, hlog2, hclog]; simpa using hc1
        | succ i =>
          obtain ⟨c, hc1, hc2⟩ := hcells3 i r (by simpa using hi) j p hp
          refine ⟨c, ?_, hc2⟩
          have e : r0 + i0 + (i + 1) = r0 + (i0 + 1) + i := by omega
          rw [e]; exact hc1

/-- C02, TERMINAL FORM: write a block render at any position where it fits; afterwards every cell
    `(r0+i, x+j)` of the rectangle shows exactly `want` of pixel pair `(i, j)` — for every pixel
    grid, alpha class, terminal background, kitty workaround and split-cells setting. -/
theorem render_shows (cfg : Cfg) (rows : List (List PP)) (w h : Nat) (hh : rows.length = h) (hpos : 0 < h)
    (hw : ∀ row ∈ rows, row.length = w) (t : Term) (r0 x : Nat) (hlm : t.lm = x) (hR : Ready t r0 x w h 0)
    (i : Nat) (hi : i < rows.length) (j : Nat) (hj : j < rows[i].length) :
    ∃ c, (t.run (Block.render cfg rows)).cellAt (r0 + i) (x + j) = some c ∧ shows c = want cfg rows[i][j] := by
  have hne : rows ≠ [] := by intro h0; subst h0; simp at hh; omega
  have := (render_shows_from cfg w h rows 0 hne (by omega) hw t r0 x hlm hR).2 i rows[i]
    (List.getElem?_eq_getElem hi) j rows[i][j] (List.getElem?_eq_getElem hj)
  obtain ⟨c, hc1, hc2⟩ := this
  exact ⟨c, by simpa [Block.render] using hc1, hc2⟩

/-- thresholded transparency is bi-level: an alpha value becomes 0 exactly when it is below the
    threshold, 255 otherwise — so after rounding "alpha = 0" is "pixel below the threshold" -/
theorem threshold_class (thr : Nat) (a : List Nat) :
    (roundAlpha thr a).length = a.length ∧
    ∀ i (hi : i < a.length), ((roundAlpha thr a)[i]'(by simp [roundAlpha]; exact hi) = 0 ↔ a[i] < thr) ∧
      ((roundAlpha thr a)[i]'(by simp [roundAlpha]; exact hi) = 255 ↔ ¬ a[i] < thr) := by
  refine ⟨by simp [roundAlpha], ?_⟩
  intro i hi
  simp only [roundAlpha, List.getElem_map]
  by_cases h : a[i] < thr <;> simp [h]

/-- non-vacuity: a 2×1 image with a transparent upper-left pixel -/
example : (cellsOf ⟨none, none⟩ (line ⟨true, false, none, false⟩
    [⟨(1, 2, 3), (4, 5, 6), 0, 255⟩, ⟨(1, 2, 3), (1, 2, 3), 255, 255⟩])).map shows
    = [(none, some (4, 5, 6)), (some (1, 2, 3), some (1, 2, 3))] := by
  rw [line_shows]; simp [want, tweak]

end TIV.C02
