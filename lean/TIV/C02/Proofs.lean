import TIV.Common.BlockProofs
/-! C02 helper lemmas: reading cells back from the write log -/
namespace TIV.C02
open TIV Term Block

theorem find_skip {α} (p : α → Bool) (pre rest : List α) (h : ∀ a ∈ pre, p a = false) :
    (pre ++ rest).find? p = rest.find? p := by
  induction pre with
  | nil => rfl
  | cons a as ih =>
    have ha := h a (by simp)
    simp only [List.cons_append, List.find?_cons, ha]
    exact ih (fun b hb => h b (by simp [hb]))

/-- the newest write to `(r, c+j)` in a freshly written run of cells is cell `j` -/
theorem find_writesOf (r c : Nat) (vs : List CellContent) (rest : List Write) (j : Nat) (hj : j < vs.length) :
    (writesOf r c vs ++ rest).find? (fun w => w.1 == r && w.2.1 == c + j) = some (r, c + j, vs[j]) := by
  induction vs generalizing c j rest with
  | nil => simp at hj
  | cons v vs ih =>
    simp only [writesOf, List.append_assoc]
    cases j with
    | zero =>
      rw [find_skip]
      · simp
      · intro a ha
        have := mem_writesOf ha
        simp; intro _; omega
    | succ j =>
      have := ih (c + 1) ([(r, c, v)] ++ rest) j (by simpa using hj)
      simp only [List.getElem_cons_succ]
      have e : c + 1 + j = c + (j + 1) := by omega
      rw [e] at this
      exact this

end TIV.C02
