import TIV.C01.Drive
import TIV.C02.Model
import TIV.Common.BlockProofs
/-! driver ops of C02: everything of C01 (`block`, `term.run`) plus `want` and `rounda` -/
namespace TIV.C02
open TIV TIV.Wire TIV.C01

def fmtHalf : Option RGB → String
  | none => "t"
  | some (r, g, b) => s!"{r},{g},{b}"

def handler : Handler := fun op args =>
  match op with
  | "want" => run (do
      let cfg ← pCfg; let width ← nat; let rgb ← hex; let a ← hex
      let px := rgbs (toNats rgb)
      let rows := Block.rowPairs width px (toNats a) (px.length + 1)
      pure ("ok " ++ String.intercalate " | " (rows.map fun row =>
        String.intercalate " " (row.map fun p =>
          let w := Block.want cfg p
          fmtHalf w.1 ++ "/" ++ fmtHalf w.2)))) args
  | "rounda" => run (do
      let thr ← nat; let a ← hex
      pure ("ok " ++ hexEncode ((roundAlpha thr (toNats a)).map UInt8.ofNat))) args
  | "thr" => run (do
      let bits ← nat
      pure (match threshold bits with
        | some t => s!"ok {t}"
        | none => "err notfinite")) args
  | "blend" => run (do
      let s ← nat; let a ← nat; let b ← nat
      pure s!"ok {blendChannel s a b}") args
  | _ => C01.handler op args

end TIV.C02
