import TIV.Common.Tok
import TIV.C05.Generated
/-!
# C05 model — the Padding API (src/term_image/padding.py), `Renderable.render(padding=…)`
(src/term_image/renderable/_renderable.py) and the old API's `_check_formatting` /
`_format_render` (src/term_image/image/common.py), at the level of tokens.

A render output is a `List Tok` (lines separated by `Tok.lf`), exactly the string the library
handles; `str.replace("\n", …)` is `replaceLf`. Where the real code raises, the model returns
the exception class in `Err`.
-/
namespace TIV.C05
open TIV

inductive Err
  | RelativePaddingDimensionError | ValueError | TypeError | IndexError | ZeroDivisionError
deriving DecidableEq, Repr

inductive HAlign | left | center | right
deriving DecidableEq, Repr
inductive VAlign | top | middle | bottom
deriving DecidableEq, Repr

/-- the `IntEnum` values, used to index `_ALIGN_RATIOS` -/
def HAlign.idx : HAlign → Nat | .left => 0 | .center => 1 | .right => 2
def VAlign.idx : VAlign → Nat | .top => 0 | .middle => 1 | .bottom => 2

/-- `Padding.fill`: a string occupying exactly one column, or the empty string -/
inductive Fill
  | glyph (g : Glyph)
  | empty
deriving DecidableEq, Repr

/-- `AlignedPadding(width, height, h_align, v_align, fill)` -/
structure Aligned where
  width : Int
  height : Int
  hAlign : HAlign
  vAlign : VAlign
  fill : Fill
deriving DecidableEq, Repr

/-- `relative = not width > 0 < height` -/
def Aligned.relative (a : Aligned) : Bool := !(decide (a.width > 0) && decide (0 < a.height))

/-- an `ExactPadding` instance (its dimensions passed validation) -/
structure Exact where
  left : Nat
  top : Nat
  right : Nat
  bottom : Nat
  fill : Fill
deriving DecidableEq, Repr

/-- `ExactPadding.__init__`: `for name in ("left", "top", "right", "bottom"): if value < 0: raise` -/
def mkExact (l t r b : Int) (fill : Fill) : Except Err Exact :=
  if l < 0 then .error .ValueError
  else if t < 0 then .error .ValueError
  else if r < 0 then .error .ValueError
  else if b < 0 then .error .ValueError
  else .ok ⟨l.toNat, t.toNat, r.toNat, b.toNat, fill⟩

inductive Padding
  | aligned (a : Aligned)
  | exact (e : Exact)
deriving DecidableEq, Repr

def Padding.fill : Padding → Fill
  | .aligned a => a.fill
  | .exact e => e.fill

abbrev Dims := Nat × Nat × Nat × Nat   -- (left, top, right, bottom)

/-- one axis of `AlignedPadding._get_exact_dimensions_`:
    `if width > render_width: padding_width = width - render_width;
     numerator, denominator = _ALIGN_RATIOS[align]; left = padding_width * numerator // denominator;
     right = padding_width - left` else `left = right = 0` -/
def alignedAxis (minDim : Int) (renderDim : Nat) (alignIdx : Nat) : Except Err (Nat × Nat) :=
  if minDim > renderDim then
    let padding := (minDim - renderDim).toNat
    match Generated.alignRatios[alignIdx]? with
    | none => .error .IndexError
    | some (num, den) =>
      if den = 0 then .error .ZeroDivisionError
      else
        let first := padding * num / den
        .ok (first, padding - first)
  else .ok (0, 0)

/-- `AlignedPadding._get_exact_dimensions_` -/
def alignedDims (a : Aligned) (rw rh : Nat) : Except Err Dims :=
  if a.relative then .error .RelativePaddingDimensionError
  else do
    let (left, right) ← alignedAxis a.width rw a.hAlign.idx
    let (top, bottom) ← alignedAxis a.height rh a.vAlign.idx
    pure (left, top, right, bottom)

/-- `Padding._get_exact_dimensions_` (Exact: `astuple(self)[:4]`) -/
def exactDims : Padding → Nat → Nat → Except Err Dims
  | .aligned a, rw, rh => alignedDims a rw rh
  | .exact e, _, _ => .ok (e.left, e.top, e.right, e.bottom)

/-- `Padding.get_padded_size` (the base class implementation) -/
def basePaddedSize (p : Padding) (rw rh : Nat) : Except Err (Nat × Nat) := do
  let (left, top, right, bottom) ← exactDims p rw rh
  pure (left + rw + right, top + rh + bottom)

/-- `get_padded_size` as dispatched: `AlignedPadding` overrides it with
    `(max(width, render_width), max(height, render_height))` -/
def paddedSize : Padding → Nat → Nat → Except Err (Nat × Nat)
  | .aligned a, rw, rh =>
    if a.relative then .error .RelativePaddingDimensionError
    else .ok ((max a.width rw).toNat, (max a.height rh).toNat)
  | .exact e, rw, rh => basePaddedSize (.exact e) rw rh

/-- `Padding.to_exact` -/
def toExact (p : Padding) (rw rh : Nat) : Except Err Padding :=
  match p with
  | .exact e => .ok (.exact e)
  | .aligned a => do
    let (left, top, right, bottom) ← alignedDims a rw rh
    let e ← mkExact left top right bottom a.fill
    pure (.exact e)

/-- `AlignedPadding.resolve(terminal_size)` -/
def Aligned.resolve (a : Aligned) (tw th : Nat) : Aligned :=
  if !a.relative then a
  else
    let width := if a.width ≤ 0 then max ((tw : Int) + a.width) 1 else a.width
    let height := if a.height ≤ 0 then max ((th : Int) + a.height) 1 else a.height
    { a with width := width, height := height }

/-! ## `pad` -/

/-- `fill * n` for a non-empty fill, `cursor_forward(n)` for the empty one -/
def fillSeg (f : Fill) (n : Nat) : List Tok :=
  match f with
  | .glyph g => glyphs g n
  | .empty => cursorForward n

/-- `render.replace("\n", sep)` -/
def replaceLf (sep : List Tok) (render : List Tok) : List Tok :=
  render.flatMap fun tok => if tok = Tok.lf then sep else [tok]

/-- the body of `Padding.pad` after `_get_exact_dimensions_` -/
def padToks (f : Fill) (left top right bottom : Nat) (rw : Nat) (render : List Tok) : List Tok :=
  let width := left + rw + right
  let horizontal := left ≠ 0 ∨ right ≠ 0
  let vertical := top ≠ 0 ∨ bottom ≠ 0
  let leftPadding := fillSeg f left
  let rightPadding := fillSeg f right
  let topPadding := if top ≠ 0 then (List.replicate top (fillSeg f width ++ [Tok.lf])).flatten else []
  let bottomPadding := if bottom ≠ 0 then (List.replicate bottom (Tok.lf :: fillSeg f width)).flatten else []
  if horizontal ∨ vertical then
    topPadding ++ leftPadding ++
      (if horizontal then replaceLf (rightPadding ++ [Tok.lf] ++ leftPadding) render else render) ++
      rightPadding ++ bottomPadding
  else render

/-- `Padding.pad(render, render_size)` -/
def Padding.pad (p : Padding) (render : List Tok) (rw rh : Nat) : Except Err (List Tok) := do
  let (left, top, right, bottom) ← exactDims p rw rh
  pure (padToks p.fill left top right bottom rw render)

/-- the same output seen as lines: `top` fill lines, every line of the render between its left
    and right padding, `bottom` fill lines (equal to `padToks` by `Proofs.padToks_joinLines`) -/
def padLines (f : Fill) (left top right bottom : Nat) (rw : Nat) (lines : List (List Tok)) : List (List Tok) :=
  List.replicate top (fillSeg f (left + rw + right)) ++
    lines.map (fun ln => fillSeg f left ++ ln ++ fillSeg f right) ++
    List.replicate bottom (fillSeg f (left + rw + right))

/-- split a render at its line feeds (inverse of `joinLines`) -/
def splitLines : List Tok → List (List Tok)
  | [] => [[]]
  | tok :: rest =>
    match splitLines rest with
    | [] => [[tok]]     -- unreachable
    | cur :: more => if tok = Tok.lf then [] :: cur :: more else (tok :: cur) :: more

/-! ## `Renderable.render(render_args, padding)` (and the non-animated branch of `draw`) -/

/-- `_init_render_`: `if padding and isinstance(padding, AlignedPadding) and padding.relative:
    padding = padding.resolve(terminal_size)` -/
def resolvePadding (p : Padding) (tw th : Nat) : Padding :=
  match p with
  | .aligned a => if a.relative then Padding.aligned (a.resolve tw th) else p
  | .exact _ => p

/-- `padded_size = padding.get_padded_size(frame.render_size)`; the frame is returned as is when
    the sizes are equal, else padded. Result: `(padded size, render output)`. -/
def renderPadded (p : Padding) (tw th : Nat) (render : List Tok) (rw rh : Nat) :
    Except Err ((Nat × Nat) × List Tok) := do
  let p := resolvePadding p tw th
  let padded ← paddedSize p rw rh
  if (rw, rh) = padded then pure ((rw, rh), render)
  else do
    let out ← p.pad render rw rh
    pure (padded, out)

/-! ## the old API (`BaseImage`) -/

/-- an argument as Python sees it: `None`, a `str`, or something of another type -/
inductive PyArg
  | none
  | str (s : String)
  | other
deriving DecidableEq, Repr

/-- `if not isinstance(x, (type(None), str)): raise TypeError`;
    `if None is not x not in set(symbols): x = names.get(x) or raise ValueError` -/
def checkAlign (symbols : List String) (names : List (String × String)) : PyArg → Except Err (Option String)
  | .other => .error .TypeError
  | .none => .ok none
  | .str s =>
    if symbols.contains s then .ok (some s)
    else match names.lookup s with
      | some sym => if sym = "" then .error .ValueError else .ok (some sym)
      | none => .error .ValueError

/-- `width if width > 0 else max(terminal_dimension + width, 1)` -/
def absDim (d : Int) (term : Nat) : Nat := if d > 0 then d.toNat else (max ((term : Int) + d) 1).toNat

/-- `BaseImage._check_formatting(h_align, width, v_align, height)`; `none` for a width/height
    that is not an `int` -/
def checkFormatting (hAlign : PyArg) (width : Option Int) (vAlign : PyArg) (height : Option Int)
    (tw th : Nat) : Except Err (Option String × Nat × Option String × Nat) := do
  let h ← checkAlign Generated.hAlignSymbols Generated.hAlignNames hAlign
  let v ← checkAlign Generated.vAlignSymbols Generated.vAlignNames vAlign
  match width with
  | none => .error .TypeError
  | some width =>
    match height with
    | none => .error .TypeError
    | some height => pure (h, absDim width tw, v, absDim height th)

/-- `BaseImage._format_render(render, h_align, width, v_align, height)` with
    `cols, lines = self.rendered_size` (the repaired code: the padding lines are
    `max(width, cols)` wide — fixes/C05-format-render-narrow-fill.diff) -/
def formatRender (hAlign : Option String) (width : Nat) (vAlign : Option String) (height : Nat)
    (cols lines : Nat) (render : List Tok) : List Tok :=
  let blanks (n : Nat) : List Tok := glyphs .blank n
  let (left, right, render) :=
    if width > cols then
      let (left, right) :=
        if hAlign = some "<" then ([], blanks (width - cols))
        else if hAlign = some ">" then (blanks (width - cols), [])
        else
          let left := blanks ((width - cols) / 2)
          (left, blanks (width - cols - left.length))
      (left, right, replaceLf (right ++ [Tok.lf] ++ left) render)
    else ([], [], render)
  let (top, bottom) :=
    if height > lines then
      let (top, bottom) :=
        if vAlign = some "^" then (0, height - lines)
        else if vAlign = some "_" then (height - lines, 0)
        else
          let top := (height - lines) / 2
          (top, height - lines - top)
      let fill := blanks (max width cols)
      ((List.replicate top (fill ++ [Tok.lf])).flatten, (List.replicate bottom (Tok.lf :: fill)).flatten)
    else ([], [])
  if width > cols ∨ height > lines then top ++ left ++ render ++ right ++ bottom else render

/-- the alignment `_format_render` acts on for a (checked) `h_align` / `v_align` -/
def hAlignOf (s : Option String) : HAlign := if s = some "<" then .left else if s = some ">" then .right else .center
def vAlignOf (s : Option String) : VAlign := if s = some "^" then .top else if s = some "_" then .bottom else .middle

/-! ## the other entry points of the old API that pad an image render -/

/-- `BaseImage.draw(h_align, pad_width, v_align, pad_height, …, animate=False, check_size=False)` as
    written to the output: `_check_formatting`; `if pad_width > terminal_width: raise ValueError`
    (the argument as given); `print(_format_render(render, *fmt), end="")`; finally
    `print(SGR_DEFAULT, SHOW_CURSOR * isatty, sep="")` (not a tty: `CSI m` and a newline) -/
def drawOutput (hAlign : PyArg) (width : Option Int) (vAlign : PyArg) (height : Option Int) (tw th : Nat)
    (cols lines : Nat) (render : List Tok) : Except Err (List Tok) := do
  let (h, wd, v, hg) ← checkFormatting hAlign width vAlign height tw th
  match width with
  | none => .error .TypeError
  | some w =>
    if w > (tw : Int) then .error .ValueError
    else pure (formatRender h wd v hg cols lines render ++ [Tok.sgr0, Tok.lf])

/-- what one `next()` of an `ImageIterator` finds: `image.rendered_size` at that moment and what
    `image._render_image(img, alpha, frame=True, **style_args)` returns then -/
structure IterStep where
  cols : Nat
  lines : Nat
  render : List Tok

/-- `*fmt` = the first four items of `image._check_format_spec(format_spec)` -/
structure Fmt where
  hAlign : Option String
  width : Nat
  vAlign : Option String
  height : Nat

/-- `image._format_render(image._render_image(img, alpha, frame=True, **style_args), *fmt)`:
    `_format_render` reads `self.rendered_size` when it is called, i.e. per frame -/
def Fmt.frame (f : Fmt) (s : IterStep) : List Tok :=
  formatRender f.hAlign f.width f.vAlign f.height s.cols s.lines s.render

/-- the *cached* argument: a `bool` or a positive `int` -/
inductive CachedArg
  | bool (b : Bool)
  | count (n : Nat)

/-- `self._cached = repeat != 1 and (cached if isinstance(cached, bool) else image.n_frames <= cached)` -/
def cachedEff (rep : Int) (c : CachedArg) (nFrames : Nat) : Bool :=
  rep != 1 && (match c with
    | .bool b => b
    | .count n => decide (nFrames ≤ n))

/-- `cache[n] = (frame, hash(image.rendered_size))`; `(None, None)` = `none`. The hash of the size
    tuple is modelled by the size itself. -/
abbrev Cache := List (Option (List Tok × (Nat × Nat)))

/-- one `next()` of `ImageIterator._animate` for a consumer that never seeks, `k` frames having
    been yielded before: frame number `n = k mod n_frames`; the first pass (and every pass when not
    cached) renders and formats with the size read now and stores `(frame, size)` when cached; the
    later passes of a cached iteration take `cache[n]` and re-render when the size differs -/
def iterNext (f : Fmt) (cached : Bool) (nFrames k : Nat) (cache : Cache) (s : IterStep) : Cache × List Tok :=
  let n := k % nFrames
  if cached ∧ k ≥ nFrames then
    match cache[n]? with
    | some (some (frame, size)) =>
      if (s.cols, s.lines) ≠ size then
        let fr := f.frame s
        (cache.set n (some (fr, (s.cols, s.lines))), fr)
      else (cache, frame)
    | _ =>
      let fr := f.frame s
      (cache.set n (some (fr, (s.cols, s.lines))), fr)
  else
    let fr := f.frame s
    (if cached then cache.set n (some (fr, (s.cols, s.lines))) else cache, fr)

/-- the frames of successive `next()` calls; `none` = `StopIteration` (after `repeat × n_frames`
    frames for a positive repeat count) -/
def iterGo (f : Fmt) (rep : Int) (cached : Bool) (nFrames : Nat) :
    Nat → Cache → List IterStep → List (Option (List Tok))
  | _, _, [] => []
  | k, cache, s :: rest =>
    if rep ≥ 0 ∧ (k : Int) ≥ rep * nFrames then none :: iterGo f rep cached nFrames (k + 1) cache rest
    else
      let (cache', fr) := iterNext f cached nFrames k cache s
      some fr :: iterGo f rep cached nFrames (k + 1) cache' rest

/-- `ImageIterator(image, repeat, format_spec, cached)` consumed with `next()` -/
def iterFrames (f : Fmt) (rep : Int) (c : CachedArg) (nFrames : Nat) (steps : List IterStep) :
    List (Option (List Tok)) :=
  iterGo f rep (cachedEff rep c nFrames) nFrames 0 (List.replicate nFrames none) steps

/-- `BaseImage._display_animated` up to the end of the last frame: `print(next(animator))`, then
    per further frame `print("\r", cursor_up(lines - 1), frame)` with
    `lines = max(fmt[-1], self.rendered_height)` (text styles: `_clear_frame()` does nothing) -/
def animBody (padHeight lines : Nat) (frames : List (List Tok)) : List Tok :=
  match frames with
  | [] => []
  | first :: rest =>
    first ++ (rest.map fun fr => [Tok.cr] ++ cursorUp (((max padHeight lines : Nat) : Int) - 1) ++ fr).flatten

/-- `draw(…, animate=True, repeat, cached)` of an animated image as written to a non-tty output:
    `_check_formatting`, `pad_width > terminal_width` / `pad_height > terminal_height` → `ValueError`,
    the frames of `ImageIterator._animate` (the size is pinned while `draw()` runs), `CSI m`, newline -/
def drawAnimatedOutput (hAlign : PyArg) (width : Option Int) (vAlign : PyArg) (height : Option Int) (tw th : Nat)
    (rep : Int) (c : CachedArg) (nFrames : Nat) (steps : List IterStep) : Except Err (List Tok) := do
  let (h, wd, v, hg) ← checkFormatting hAlign width vAlign height tw th
  match width, height with
  | some w, some ht =>
    if w > (tw : Int) then .error .ValueError
    else if ht > (th : Int) then .error .ValueError
    else
      let frames := (iterFrames ⟨h, wd, v, hg⟩ rep c nFrames steps).filterMap id
      let lines := match steps with
        | [] => 0
        | s :: _ => s.lines
      pure (animBody hg lines frames ++ [Tok.sgr0, Tok.lf])
  | _, _ => .error .TypeError

end TIV.C05
