import TIV.C05.Model
import TIV.C05.Proofs
import TIV.C05.Translated
/-!
# C05 — the hand-written padding kernels ARE the translation of the current source

`TIV.C05.Translated.*` is regenerated on every run from the source of `term_image.padding`
and of `BaseImage._check_formatting` / `_format_render`.  Each theorem states, for all
arguments, that the model function equals the generated one (through the obvious embedding
`Nat → Int` and `Err → its class name`), so any change of such a kernel breaks the build.
-/
namespace TIV.C05

/-- the exception class a model error stands for -/
def Err.name : Err → String
  | .RelativePaddingDimensionError => "RelativePaddingDimensionError"
  | .ValueError => "ValueError"
  | .TypeError => "TypeError"
  | .IndexError => "IndexError"
  | .ZeroDivisionError => "ZeroDivisionError"

def dimsToInt (d : Dims) : Int × Int × Int × Int := (d.1, d.2.1, d.2.2.1, d.2.2.2)
def sizeToInt (s : Nat × Nat) : Int × Int := (s.1, s.2)

theorem Aligned.relative_false_iff (a : Aligned) : a.relative = false ↔ 0 < a.width ∧ 0 < a.height := by
  unfold Aligned.relative; simp

/-- how a model result reads as a result of the translated function -/
def asPy {α β} (f : α → β) (r : Except Err α) : Except String β :=
  match r with
  | .ok v => .ok (f v)
  | .error e => .error e.name

/-- TRANSLATION TIE `AlignedPadding._get_exact_dimensions_`: all instances (relative or not), all
    alignments, all render sizes -/
theorem alignedDims_eq_translated (a : Aligned) (rw rh : Nat) :
    asPy dimsToInt (alignedDims a rw rh)
      = Translated.get_exact_dimensions a.relative a.width a.height a.hAlign.idx a.vAlign.idx (rw, rh) := by
  unfold alignedDims Translated.get_exact_dimensions
  cases hr : a.relative
  · rcases a with ⟨w, h, ha, va, f⟩
    by_cases h1 : (rw : Int) < w <;> by_cases h2 : (rh : Int) < h <;> cases ha <;> cases va <;>
      simp [h1, h2, asPy, dimsToInt, alignedAxis, HAlign.idx, VAlign.idx, Generated.alignRatios,
        Translated._ALIGN_RATIOS_at, bind, Except.bind, pure, Except.pure, Int.fdiv_eq_ediv_of_nonneg] <;>
      omega
  · simp [asPy, Err.name]

example : Translated.get_exact_dimensions false 10 7 1 2 (4, 2) = .ok (3, 5, 3, 0) := by decide

/-- TRANSLATION TIE `AlignedPadding.get_padded_size` (the override) -/
theorem paddedSize_aligned_eq_translated (a : Aligned) (rw rh : Nat) :
    asPy sizeToInt (paddedSize (.aligned a) rw rh)
      = Translated.get_padded_size a.relative a.width a.height (rw, rh) := by
  unfold paddedSize Translated.get_padded_size
  cases hr : a.relative <;> simp [hr, asPy, sizeToInt, Err.name]

example : Translated.get_padded_size false 10 2 (4, 5) = .ok (10, 5) := by decide

/-- TRANSLATION TIE `Padding.get_padded_size` (the base-class implementation, through
    `_get_exact_dimensions_`) on an aligned padding -/
theorem basePaddedSize_aligned_eq_translated (a : Aligned) (rw rh : Nat) :
    asPy sizeToInt (basePaddedSize (.aligned a) rw rh)
      = Translated.base_get_padded_size a.relative a.width a.height a.hAlign.idx a.vAlign.idx (rw, rh) := by
  unfold basePaddedSize Translated.base_get_padded_size
  rw [← alignedDims_eq_translated]
  simp only [exactDims]
  cases alignedDims a rw rh with
  | error e => simp [asPy, bind, Except.bind]
  | ok d => simp [asPy, bind, Except.bind, pure, Except.pure, sizeToInt, dimsToInt]

example : Translated.base_get_padded_size false 10 2 1 1 (4, 5) = .ok (10, 5) := by decide

/-- TRANSLATION TIE `AlignedPadding.resolve`: the (width, height) of the returned instance -/
theorem resolve_eq_translated (a : Aligned) (tw th : Nat) :
    ((a.resolve tw th).width, (a.resolve tw th).height)
      = Translated.resolve a.relative a.width a.height (tw, th) := by
  unfold Aligned.resolve Translated.resolve
  cases hr : a.relative <;> simp

/-- …and it changes nothing else -/
theorem resolve_other_fields (a : Aligned) (tw th : Nat) :
    (a.resolve tw th).hAlign = a.hAlign ∧ (a.resolve tw th).vAlign = a.vAlign ∧ (a.resolve tw th).fill = a.fill := by
  unfold Aligned.resolve; split <;> simp

example : Translated.resolve true (-3) 0 (80, 24) = (77, 24) := by decide

/-- TRANSLATION TIE `_check_formatting`: the resolution of a relative pad width / height -/
theorem absDim_eq_translated (d : Int) (term : Nat) :
    (absDim d term : Int) = Translated.check_formatting_width d term ∧
    (absDim d term : Int) = Translated.check_formatting_height d term := by
  unfold absDim Translated.check_formatting_width Translated.check_formatting_height
  constructor <;> (simp only []; split <;> omega)

example : Translated.check_formatting_width (-100) 80 = 1 := by decide

/-- one axis of the margins `_format_render` computes inline -/
def fmtAxis (p q : Prop) [Decidable p] [Decidable q] (want have_ : Nat) : Nat × Nat :=
  if want > have_ then
    if p then (0, want - have_) else if q then (want - have_, 0)
    else ((want - have_) / 2, want - have_ - (want - have_) / 2)
  else (0, 0)

theorem fmtDims_axes (ha va : Option String) (width height cols lines : Nat) :
    fmtDims ha va width height cols lines =
      ((fmtAxis (ha = some "<") (ha = some ">") width cols).1, (fmtAxis (va = some "^") (va = some "_") height lines).1,
       (fmtAxis (ha = some "<") (ha = some ">") width cols).2, (fmtAxis (va = some "^") (va = some "_") height lines).2) := rfl

/-- TRANSLATION TIE `_format_render`: the margins it computes inline (`fmtDims`, which
    `Proofs.formatRender_eq_pad` shows `formatRender` pads with) are the translated
    horizontal / vertical blocks, under the `if width > cols` / `if height > lines` they sit in -/
theorem fmtAxis_eq_translated (p q : Prop) [Decidable p] [Decidable q] (want have_ : Nat) :
    (((fmtAxis p q want have_).1 : Int), ((fmtAxis p q want have_).2 : Int))
        = (if want > have_ then Translated.format_render_horizontal (decide p) (decide q) want have_ else (0, 0)) ∧
    (((fmtAxis p q want have_).1 : Int), ((fmtAxis p q want have_).2 : Int))
        = (if want > have_ then Translated.format_render_vertical (decide p) (decide q) want have_ else (0, 0)) := by
  unfold fmtAxis Translated.format_render_horizontal Translated.format_render_vertical
  by_cases h1 : want > have_ <;> by_cases hp : p <;> by_cases hq : q <;>
    simp [h1, hp, hq, Int.fdiv_eq_ediv_of_nonneg] <;> omega

theorem fmtDims_eq_translated (ha va : Option String) (width height cols lines : Nat) :
    dimsToInt (fmtDims ha va width height cols lines) =
      (let hz := if width > cols then
          Translated.format_render_horizontal (ha = some "<") (ha = some ">") width cols else (0, 0)
       let vt := if height > lines then
          Translated.format_render_vertical (va = some "^") (va = some "_") height lines else (0, 0)
       (hz.1, vt.1, hz.2, vt.2)) := by
  have H := (fmtAxis_eq_translated (ha = some "<") (ha = some ">") width cols).1
  have V := (fmtAxis_eq_translated (va = some "^") (va = some "_") height lines).2
  rw [fmtDims_axes]
  simp only [dimsToInt, ← H, ← V]

example : Translated.format_render_horizontal false false 10 3 = (3, 4) := by decide
example : Translated.format_render_vertical false true 10 3 = (7, 0) := by decide

end TIV.C05
