import TIV.C05.Proofs
import TIV.Common.LexProofs
/-! `WfToks` (the Lean lexer's round-trip precondition, TIV.Common.Lex) of padded outputs -/
namespace TIV.C05
open TIV TIV.Lex

/-- the fill can be read back: a `Glyph.ch c` fill needs `isOther c` (printable, not the space, a half
    block or ESC — those are `blank`/`upper`/`lower`); the empty fill (`cursor_forward`) has no condition -/
def Fill.wf : Fill → Bool
  | .glyph g => WfTok (.glyph g)
  | .empty => true

theorem wf_fillSeg (f : Fill) (hf : f.wf = true) (n : Nat) : WfToks (fillSeg f n) := by
  intro t ht
  cases f with
  | glyph g =>
    simp only [fillSeg, glyphs, Bool.false_eq_true, if_false] at ht
    rw [(List.mem_replicate.mp ht).2]; exact hf
  | empty =>
    simp only [fillSeg, cursorForward] at ht
    split at ht
    · simp at ht; rw [ht]; rfl
    · simp at ht

theorem wf_flatten_replicate (n : Nat) (x : List Tok) (hx : WfToks x) : WfToks (List.replicate n x).flatten := by
  intro t ht
  simp only [List.mem_flatten, List.mem_replicate] at ht
  obtain ⟨l, ⟨_, rfl⟩, h⟩ := ht
  exact hx t h

theorem wf_replaceLf (sep render : List Tok) (hs : WfToks sep) (hr : WfToks render) : WfToks (replaceLf sep render) := by
  intro t ht
  simp only [replaceLf, List.mem_flatMap] at ht
  obtain ⟨a, ha, h⟩ := ht
  split at h
  · exact hs t h
  · simp at h; rw [h]; exact hr a ha

theorem wf_lf : WfToks [Tok.lf] := by decide

theorem wf_padToksW (f : Fill) (hf : f.wf = true) (l t r b w : Nat) (render : List Tok) (hr : WfToks render) :
    WfToks (padToksW f l t r b w render) := by
  have hF := wf_fillSeg f hf
  have hsep : WfToks (fillSeg f r ++ [Tok.lf] ++ fillSeg f l) := wfToks_append (wfToks_append (hF r) wf_lf) (hF l)
  have htop : WfToks (if t ≠ 0 then (List.replicate t (fillSeg f w ++ [Tok.lf])).flatten else []) := by
    split
    · exact wf_flatten_replicate _ _ (wfToks_append (hF w) wf_lf)
    · exact wfToks_nil
  have hbot : WfToks (if b ≠ 0 then (List.replicate b (Tok.lf :: fillSeg f w)).flatten else []) := by
    split
    · exact wf_flatten_replicate _ _ (wfToks_cons rfl (hF w))
    · exact wfToks_nil
  have hmid : WfToks (if l ≠ 0 ∨ r ≠ 0 then replaceLf (fillSeg f r ++ [Tok.lf] ++ fillSeg f l) render else render) := by
    split
    · exact wf_replaceLf _ _ hsep hr
    · exact hr
  unfold padToksW
  simp only
  split
  · exact wfToks_append (wfToks_append (wfToks_append (wfToks_append htop (hF l)) hmid) (hF r)) hbot
  · exact hr

theorem wf_padToks (f : Fill) (hf : f.wf = true) (l t r b rw : Nat) (render : List Tok) (hr : WfToks render) :
    WfToks (padToks f l t r b rw render) := by
  rw [padToks_eq_W]; exact wf_padToksW f hf l t r b _ render hr

theorem wf_formatRender (ha va : Option String) (width height cols lines : Nat) (render : List Tok) (hr : WfToks render) :
    WfToks (formatRender ha width va height cols lines render) := by
  rw [formatRender_eq_W]; exact wf_padToksW _ rfl _ _ _ _ _ render hr

end TIV.C05
