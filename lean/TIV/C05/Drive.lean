import TIV.Common.TermDrive
import TIV.C05.Model
/-!
driver ops of C05 (also serves the shared `term.run` / `tok.str`).

Wire formats
* fill: a glyph token word (`gB`, `gU`, `gL`, `gC<code>`) or `-` (empty fill)
* padding: `A <width> <height> <L|C|R> <T|M|B> <fill>` | `E <left> <top> <right> <bottom> <fill>`
  (constructing `E` with a negative dimension is `err ValueError`, as in Python)
* render tokens: `n tok…` where a token is a word of TermDrive, or, carrying the exact bytes,
  `KX cols rows z <hex control without ,m=> nchunks (m <hex payload>)…` / `IX cols rows nomove <hex control> <hex payload>`
* PyArg: `none` | `other` | `str <hex>`; optional int: `none` | `some n`
-/
namespace TIV.C05
open TIV TIV.Wire

def toNats (bs : List UInt8) : List Nat := bs.map (·.toNat)

def pTokX : P Tok := do
  let w ← word
  if w == "KX" then do
    let cols ← nat; let rows ← nat; let z ← int; let ctrl ← hex
    let chunks ← listOf (do let m ← bool; let p ← hex; pure (m, toNats p))
    pure (.kitty ⟨cols, rows, z, asciiStr (toNats ctrl), chunks⟩)
  else if w == "IX" then do
    let cols ← nat; let rows ← nat; let nm ← bool; let ctrl ← hex; let p ← hex
    pure (.iterm ⟨cols, rows, nm, asciiStr (toNats ctrl), toNats p⟩)
  else match TermDrive.parseTok w with
    | some t => pure t
    | none => failure

def pFill : P Fill := do
  let w ← word
  if w == "-" then pure .empty
  else match TermDrive.parseTok w with
    | some (.glyph g) => pure (.glyph g)
    | _ => failure

def pHAlign : P HAlign := do
  let w ← word
  if w == "L" then pure .left else if w == "C" then pure .center else if w == "R" then pure .right else failure

def pVAlign : P VAlign := do
  let w ← word
  if w == "T" then pure .top else if w == "M" then pure .middle else if w == "B" then pure .bottom else failure

def pAligned : P Aligned := do
  let width ← int; let height ← int; let hAlign ← pHAlign; let vAlign ← pVAlign; let fill ← pFill
  pure { width, height, hAlign, vAlign, fill }

def pPadding : P (Except Err Padding) := do
  let w ← word
  if w == "A" then do let a ← pAligned; pure (.ok (.aligned a))
  else if w == "E" then do
    let l ← int; let t ← int; let r ← int; let b ← int; let fill ← pFill
    pure ((mkExact l t r b fill).map Padding.exact)
  else failure

def pPyArg : P PyArg := do
  let w ← word
  if w == "none" then pure .none
  else if w == "other" then pure .other
  else if w == "str" then do
    let b ← hex
    pure (.str (asciiStr (toNats b)))
  else failure

def fmtErr : Err → String
  | .RelativePaddingDimensionError => "err RelativePaddingDimensionError"
  | .ValueError => "err ValueError"
  | .TypeError => "err TypeError"
  | .IndexError => "err IndexError"
  | .ZeroDivisionError => "err ZeroDivisionError"

def fmtFill : Fill → String
  | .empty => "-"
  | .glyph g => "g" ++ TermDrive.fmtGlyph g

def fmtH : HAlign → String | .left => "L" | .center => "C" | .right => "R"
def fmtV : VAlign → String | .top => "T" | .middle => "M" | .bottom => "B"

def fmtPadding : Padding → String
  | .aligned a => s!"A {a.width} {a.height} {fmtH a.hAlign} {fmtV a.vAlign} {fmtFill a.fill}"
  | .exact e => s!"E {e.left} {e.top} {e.right} {e.bottom} {fmtFill e.fill}"

def fmtExcept {α} (f : α → String) : Except Err α → String
  | .ok x => "ok " ++ f x
  | .error e => fmtErr e

def strHex (ts : List Tok) : String := hexEncode (toksStr ts).toUTF8.toList

def fmtOptStr : Option String → String
  | none => "none"
  | some s => "str " ++ hexEncode s.toUTF8.toList

def handler : Handler := fun op args =>
  match op with
  | "dims" => run (do
      let p ← pPadding; let rw ← nat; let rh ← nat
      pure (fmtExcept (fun (d : Dims) => s!"{d.1} {d.2.1} {d.2.2.1} {d.2.2.2}") (p >>= fun p => exactDims p rw rh))) args
  | "psize" => run (do
      let p ← pPadding; let rw ← nat; let rh ← nat
      pure (fmtExcept (fun (s : (Nat × Nat) × (Nat × Nat)) => s!"{s.1.1} {s.1.2} {s.2.1} {s.2.2}")
        (p >>= fun p => do let a ← paddedSize p rw rh; let b ← basePaddedSize p rw rh; pure (a, b)))) args
  | "toexact" => run (do
      let p ← pPadding; let rw ← nat; let rh ← nat
      pure (fmtExcept fmtPadding (p >>= fun p => toExact p rw rh))) args
  | "resolve" => run (do
      let a ← pAligned; let tw ← nat; let th ← nat
      pure s!"ok {fmtBool a.relative} {fmtPadding (.aligned (a.resolve tw th))} {fmtBool (a.resolve tw th).relative}") args
  | "pad" => run (do
      let p ← pPadding; let rw ← nat; let rh ← nat; let ts ← listOf pTokX
      pure (fmtExcept strHex (p >>= fun p => p.pad ts rw rh))) args
  | "padl" => run (do
      let f ← pFill; let l ← nat; let t ← nat; let r ← nat; let b ← nat; let rw ← nat; let ts ← listOf pTokX
      pure ("ok " ++ strHex (joinLines (padLines f l t r b rw (splitLines ts))))) args
  | "render" => run (do
      let p ← pPadding; let tw ← nat; let th ← nat; let rw ← nat; let rh ← nat; let ts ← listOf pTokX
      pure (fmtExcept (fun (r : (Nat × Nat) × List Tok) => s!"{r.1.1} {r.1.2} {strHex r.2}")
        (p >>= fun p => renderPadded p tw th ts rw rh))) args
  | "chkfmt" => run (do
      let h ← pPyArg; let w ← optOf int; let v ← pPyArg; let ht ← optOf int; let tw ← nat; let th ← nat
      pure (fmtExcept (fun (r : Option String × Nat × Option String × Nat) =>
          s!"{fmtOptStr r.1} {r.2.1} {fmtOptStr r.2.2.1} {r.2.2.2}")
        (checkFormatting h w v ht tw th))) args
  | "format" => run (do
      let h ← pPyArg; let w ← optOf int; let v ← pPyArg; let ht ← optOf int; let tw ← nat; let th ← nat
      let cols ← nat; let lines ← nat; let ts ← listOf pTokX
      pure (fmtExcept strHex ((checkFormatting h w v ht tw th).map fun (ha, wd, va, hg) =>
        formatRender ha wd va hg cols lines ts))) args
  | "draw" => run (do
      let h ← pPyArg; let w ← optOf int; let v ← pPyArg; let ht ← optOf int; let tw ← nat; let th ← nat
      let cols ← nat; let lines ← nat; let ts ← listOf pTokX
      pure (fmtExcept strHex (drawOutput h w v ht tw th cols lines ts))) args
  | "iter" => run (do
      let h ← pPyArg; let w ← optOf int; let v ← pPyArg; let ht ← optOf int; let tw ← nat; let th ← nat
      let cw ← word
      let c ← (if cw == "b0" then pure (CachedArg.bool false) else if cw == "b1" then pure (CachedArg.bool true)
        else if cw.startsWith "c" then (match (cw.drop 1).toString.toNat? with
          | some n => pure (CachedArg.count n)
          | none => failure) else failure : P CachedArg)
      let rep ← int; let nFrames ← nat
      let steps ← listOf (do let cols ← nat; let lines ← nat; let ts ← listOf pTokX; pure (⟨cols, lines, ts⟩ : IterStep))
      pure (fmtExcept (fun (fs : List (Option (List Tok))) =>
          String.intercalate "|" (fs.map fun | none => "stop" | some fr => strHex fr))
        ((checkFormatting h w v ht tw th).map fun (ha, wd, va, hg) =>
          iterFrames ⟨ha, wd, va, hg⟩ rep c nFrames steps))) args
  | "adraw" => run (do
      let h ← pPyArg; let w ← optOf int; let v ← pPyArg; let ht ← optOf int; let tw ← nat; let th ← nat
      let cw ← word
      let c ← (if cw == "b0" then pure (CachedArg.bool false) else if cw == "b1" then pure (CachedArg.bool true)
        else if cw.startsWith "c" then (match (cw.drop 1).toString.toNat? with
          | some n => pure (CachedArg.count n)
          | none => failure) else failure : P CachedArg)
      let rep ← int; let nFrames ← nat
      let steps ← listOf (do let cols ← nat; let lines ← nat; let ts ← listOf pTokX; pure (⟨cols, lines, ts⟩ : IterStep))
      pure (fmtExcept strHex (drawAnimatedOutput h w v ht tw th rep c nFrames steps))) args
  | _ => TermDrive.handler op args

end TIV.C05
