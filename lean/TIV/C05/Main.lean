import TIV.Common.DriverMain
import TIV.C05.Drive
def main : IO Unit := TIV.driverMain TIV.C05.handler
