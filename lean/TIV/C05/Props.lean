import TIV.C05.Proofs
import TIV.C05.WfProofs
import TIV.Common.BlockProofs
import TIV.Common.GfxProofs
/-!
# C05 — padding and alignment place the render exactly, inside exactly the padded size.

Part 1 (arithmetic): `aligned_dims`, `no_effect`, `padded_size_agrees`, `resolve_rel`, `resolve_abs`,
`exact_rejects_negative`, `relative_unresolved_errors`, `check_formatting_dims`, `render_padded_eq`.
Part 2 (on the terminal model, for **every** inner render whose lines meet the C01 contract
`LineOK` — text with SGR, kitty / iterm2 graphics with cursor-movement fills alike):
`pad_structure`, `pad_WB`, `pad_block`, `pad_inner`, `pad_fill`, `pad_outside`.
Part 3 (old API): `format_render_eq`.
-/
namespace TIV.C05
open TIV Term

/-! ## translator tie -/

/-- `_ALIGN_RATIOS`, the `HAlign` / `VAlign` values (they index it), the old API's alignment
    symbols and names, and the defaults, as read from the live package -/
theorem generated_tables :
    Generated.alignRatios = [(0, 1), (1, 2), (1, 1)] ∧
    Generated.hAlignValues = [("LEFT", HAlign.left.idx), ("CENTER", HAlign.center.idx), ("RIGHT", HAlign.right.idx)] ∧
    Generated.vAlignValues = [("TOP", VAlign.top.idx), ("MIDDLE", VAlign.middle.idx), ("BOTTOM", VAlign.bottom.idx)] ∧
    Generated.hAlignSymbols = ["<", ">", "|"] ∧ Generated.vAlignSymbols = ["-", "^", "_"] ∧
    Generated.hAlignNames = [("center", "|"), ("left", "<"), ("right", ">")] ∧
    Generated.vAlignNames = [("bottom", "_"), ("middle", "-"), ("top", "^")] ∧
    Generated.defaultFill = " " ∧ Generated.defaultPadWidth = 0 ∧ Generated.defaultPadHeight = -2 := by decide

/-- every ratio is a fraction in `[0, 1]` with a non-zero denominator -/
theorem ratios_proper : ∀ nd ∈ Generated.alignRatios, nd.2 ≠ 0 ∧ nd.1 ≤ nd.2 := by decide

/-! ## Part 1 — dimensions -/

/-- ALIGNED PADDING: for absolute minimum dimensions the exact margins exist, sum (per axis) to
    `max(minimum, render) − render`, are `(max − render) · num / den` with the generated ratio of
    the alignment on the left/top, and the three alignments put the remainder where documented:
    LEFT/TOP nothing before, RIGHT/BOTTOM nothing after, CENTER/MIDDLE half before (rounded down)
    and the odd cell after. -/
theorem aligned_dims (a : Aligned) (rw rh : Nat) (hw : a.width > 0) (hh : a.height > 0) :
    ∃ l t r b, alignedDims a rw rh = .ok (l, t, r, b) ∧
      l + r = (max a.width rw).toNat - rw ∧ t + b = (max a.height rh).toNat - rh ∧
      (∃ n d, Generated.alignRatios[a.hAlign.idx]? = some (n, d) ∧ l = ((max a.width rw).toNat - rw) * n / d) ∧
      (∃ n d, Generated.alignRatios[a.vAlign.idx]? = some (n, d) ∧ t = ((max a.height rh).toNat - rh) * n / d) ∧
      (a.hAlign = .left → l = 0) ∧ (a.hAlign = .right → r = 0) ∧
      (a.hAlign = .center → l = ((max a.width rw).toNat - rw) / 2 ∧ l ≤ r ∧ r ≤ l + 1) ∧
      (a.vAlign = .top → t = 0) ∧ (a.vAlign = .bottom → b = 0) ∧
      (a.vAlign = .middle → t = ((max a.height rh).toNat - rh) / 2 ∧ t ≤ b ∧ b ≤ t + 1) := by
  have hrel : a.relative = false := (relative_false_iff a).mpr ⟨hw, hh⟩
  obtain ⟨l, r, h1, s1, q1, _, x0, x2, x1⟩ := alignedAxis_spec a.width rw a.hAlign.idx a.hAlign.idx_lt
  obtain ⟨t, b, h2, s2, q2, _, y0, y2, y1⟩ := alignedAxis_spec a.height rh a.vAlign.idx a.vAlign.idx_lt
  refine ⟨l, t, r, b, ?_, s1, s2, q1, q2, ?_, ?_, ?_, ?_, ?_, ?_⟩
  · simp only [alignedDims, hrel, Bool.false_eq_true, if_false, h1, h2]; rfl
  · intro h; exact x0 (by rw [h]; rfl)
  · intro h; exact x2 (by rw [h]; rfl)
  · intro h; exact x1 (by rw [h]; rfl)
  · intro h; exact y0 (by rw [h]; rfl)
  · intro h; exact y2 (by rw [h]; rfl)
  · intro h; exact y1 (by rw [h]; rfl)

example : alignedDims ⟨8, 5, .center, .bottom, .glyph .blank⟩ 3 2 = .ok (2, 3, 3, 0) := by rfl

/-- NO EFFECT: a minimum dimension no larger than the render's leaves that axis unpadded -/
theorem no_effect (a : Aligned) (rw rh l t r b : Nat) (h : alignedDims a rw rh = .ok (l, t, r, b)) :
    (a.width ≤ rw → l = 0 ∧ r = 0) ∧ (a.height ≤ rh → t = 0 ∧ b = 0) := by
  cases hrel : a.relative with
  | true => rw [alignedDims_rel a rw rh hrel] at h; cases h
  | false =>
    obtain ⟨l', r', t', b', h1, h2, h3⟩ := alignedDims_abs a rw rh hrel
    rw [h3] at h
    injection h with h
    obtain ⟨_, _, e1, _, _, z1, _⟩ := alignedAxis_spec a.width rw a.hAlign.idx a.hAlign.idx_lt
    obtain ⟨_, _, e2, _, _, z2, _⟩ := alignedAxis_spec a.height rh a.vAlign.idx a.vAlign.idx_lt
    rw [h1] at e1; rw [h2] at e2
    injection e1 with e1; injection e2 with e2
    simp only [Prod.mk.injEq] at h e1 e2
    obtain ⟨rfl, rfl, rfl, rfl⟩ := h
    obtain ⟨rfl, rfl⟩ := e1
    obtain ⟨rfl, rfl⟩ := e2
    exact ⟨z1, z2⟩

example : alignedDims ⟨3, 9, .center, .middle, .empty⟩ 3 2 = .ok (0, 3, 0, 4) := by rfl

/-- `ExactPadding(l, t, r, b)` raises `ValueError` exactly when a dimension is negative -/
theorem exact_rejects_negative (l t r b : Int) (f : Fill) :
    (mkExact l t r b f = .error .ValueError ↔ (l < 0 ∨ t < 0 ∨ r < 0 ∨ b < 0)) ∧
    (0 ≤ l → 0 ≤ t → 0 ≤ r → 0 ≤ b → mkExact l t r b f = .ok ⟨l.toNat, t.toNat, r.toNat, b.toNat, f⟩) := by
  constructor
  · unfold mkExact
    constructor
    · intro h
      by_cases h1 : l < 0
      · exact Or.inl h1
      · by_cases h2 : t < 0
        · exact Or.inr (Or.inl h2)
        · by_cases h3 : r < 0
          · exact Or.inr (Or.inr (Or.inl h3))
          · by_cases h4 : b < 0
            · exact Or.inr (Or.inr (Or.inr h4))
            · simp [h1, h2, h3, h4] at h
    · intro h
      by_cases h1 : l < 0
      · simp [h1]
      · by_cases h2 : t < 0
        · simp [h1, h2]
        · by_cases h3 : r < 0
          · simp [h1, h2, h3]
          · have h4 : b < 0 := by omega
            simp [h1, h2, h3, h4]
  · intro h1 h2 h3 h4
    have g1 : ¬ l < 0 := by omega
    have g2 : ¬ t < 0 := by omega
    have g3 : ¬ r < 0 := by omega
    have g4 : ¬ b < 0 := by omega
    simp [mkExact, g1, g2, g3, g4]

/-- AGREEMENT: whenever the exact margins `(l, t, r, b)` exist, `get_padded_size` (both the base
    implementation and `AlignedPadding`'s override) is `(l + w + r, t + h + b)`; `to_exact` is the
    `ExactPadding` with those margins and the same fill, and padding through it gives the same
    output; the output has `t + h + b` lines, each built from one line of the render or the fill. -/
theorem padded_size_agrees (p : Padding) (rw rh l t r b : Nat) (h : exactDims p rw rh = .ok (l, t, r, b)) :
    paddedSize p rw rh = .ok (l + rw + r, t + rh + b) ∧
    basePaddedSize p rw rh = .ok (l + rw + r, t + rh + b) ∧
    toExact p rw rh = .ok (.exact ⟨l, t, r, b, p.fill⟩) ∧
    exactDims (.exact ⟨l, t, r, b, p.fill⟩) rw rh = .ok (l, t, r, b) ∧
    (∀ render, (Padding.exact ⟨l, t, r, b, p.fill⟩).pad render rw rh = p.pad render rw rh) ∧
    (∀ render, p.pad render rw rh = .ok (padToks p.fill l t r b rw render)) ∧
    (∀ lines : List (List Tok), lines.length = rh → (padLines p.fill l t r b rw lines).length = t + rh + b) := by
  have hbase : basePaddedSize p rw rh = .ok (l + rw + r, t + rh + b) := by
    simp only [basePaddedSize, h]; rfl
  have hpad : ∀ render, p.pad render rw rh = .ok (padToks p.fill l t r b rw render) := by
    intro render; simp only [Padding.pad, h]; rfl
  refine ⟨?_, hbase, ?_, rfl, ?_, hpad, ?_⟩
  · cases p with
    | exact e => exact hbase
    | aligned a =>
      cases hrel : a.relative with
      | true => simp only [exactDims] at h; rw [alignedDims_rel a rw rh hrel] at h; cases h
      | false =>
        obtain ⟨hw, hh⟩ := (relative_false_iff a).mp hrel
        obtain ⟨l', t', r', b', h1, s1, s2, _⟩ := aligned_dims a rw rh hw hh
        simp only [exactDims] at h
        rw [h1] at h
        injection h with h
        simp only [Prod.mk.injEq] at h
        obtain ⟨rfl, rfl, rfl, rfl⟩ := h
        simp only [paddedSize, hrel, Bool.false_eq_true, if_false]
        congr 2 <;> omega
  · cases p with
    | exact e =>
      simp only [exactDims] at h
      injection h with h
      simp only [Prod.mk.injEq] at h
      obtain ⟨rfl, rfl, rfl, rfl⟩ := h
      rfl
    | aligned a =>
      simp only [exactDims] at h
      simp only [toExact, h, Padding.fill]
      show (do let e ← mkExact l t r b a.fill; pure (Padding.exact e)) = _
      rw [mkExact_nat]; rfl
  · intro render
    rw [hpad]; rfl
  · intro lines hlen
    rw [padLines_length, hlen]

example : paddedSize (.aligned ⟨8, 5, .center, .bottom, .empty⟩) 3 2 = .ok (8, 5) := by rfl

/-- RESOLVE (relative): a non-positive minimum dimension `d` resolves to `max(terminal + d, 1)`,
    a positive one is kept; alignment and fill are kept; the result is absolute -/
theorem resolve_rel (a : Aligned) (tw th : Nat) :
    (a.resolve tw th).width = (if a.width ≤ 0 then max ((tw : Int) + a.width) 1 else a.width) ∧
    (a.resolve tw th).height = (if a.height ≤ 0 then max ((th : Int) + a.height) 1 else a.height) ∧
    (a.resolve tw th).hAlign = a.hAlign ∧ (a.resolve tw th).vAlign = a.vAlign ∧
    (a.resolve tw th).fill = a.fill ∧ (a.resolve tw th).relative = false := by
  cases hrel : a.relative with
  | false =>
    obtain ⟨hw, hh⟩ := (relative_false_iff a).mp hrel
    have e : a.resolve tw th = a := by simp [Aligned.resolve, hrel]
    rw [e]
    have g1 : ¬ a.width ≤ 0 := by omega
    have g2 : ¬ a.height ≤ 0 := by omega
    simp [g1, g2, hrel]
  | true =>
    have hr : a.resolve tw th =
        { a with width := if a.width ≤ 0 then max ((tw : Int) + a.width) 1 else a.width,
                 height := if a.height ≤ 0 then max ((th : Int) + a.height) 1 else a.height } := by
      simp [Aligned.resolve, hrel]
    rw [hr]
    refine ⟨rfl, rfl, rfl, rfl, rfl, ?_⟩
    rw [relative_false_iff]
    constructor
    · simp only; split <;> omega
    · simp only; split <;> omega

example : (Aligned.resolve ⟨-3, 0, .left, .top, .empty⟩ 2 7).width = 1 ∧
    (Aligned.resolve ⟨-3, 0, .left, .top, .empty⟩ 2 7).height = 7 := by decide

/-- RESOLVE (absolute): resolving an absolute padding returns it unchanged -/
theorem resolve_abs (a : Aligned) (tw th : Nat) (h : a.relative = false) : a.resolve tw th = a := by
  simp [Aligned.resolve, h]

/-- UNRESOLVED RELATIVE PADDING: every operation but `resolve` raises
    `RelativePaddingDimensionError` -/
theorem relative_unresolved_errors (a : Aligned) (h : a.relative = true) (rw rh : Nat) (render : List Tok) :
    exactDims (.aligned a) rw rh = .error .RelativePaddingDimensionError ∧
    paddedSize (.aligned a) rw rh = .error .RelativePaddingDimensionError ∧
    basePaddedSize (.aligned a) rw rh = .error .RelativePaddingDimensionError ∧
    toExact (.aligned a) rw rh = .error .RelativePaddingDimensionError ∧
    (Padding.aligned a).pad render rw rh = .error .RelativePaddingDimensionError ∧
    ∀ tw th, (a.resolve tw th).relative = false := by
  have hd : exactDims (.aligned a) rw rh = .error .RelativePaddingDimensionError := alignedDims_rel a rw rh h
  refine ⟨hd, by simp [paddedSize, h], ?_, ?_, ?_, fun tw th => (resolve_rel a tw th).2.2.2.2.2⟩
  · simp only [basePaddedSize, hd]; rfl
  · simp only [toExact, alignedDims_rel a rw rh h]; rfl
  · simp only [Padding.pad, hd]; rfl

example : (⟨0, -2, .center, .middle, .glyph .blank⟩ : Aligned).relative = true := by decide

/-- OLD API: `_check_formatting` turns the padding width/height into the same absolute values
    `AlignedPadding.resolve` does, and they are positive -/
theorem check_formatting_dims (h v : PyArg) (w ht : Int) (tw th : Nat) (res : Option String × Nat × Option String × Nat)
    (hr : checkFormatting h (some w) v (some ht) tw th = .ok res) :
    (res.2.1 : Int) = (if w ≤ 0 then max ((tw : Int) + w) 1 else w) ∧
    (res.2.2.2 : Int) = (if ht ≤ 0 then max ((th : Int) + ht) 1 else ht) ∧
    0 < res.2.1 ∧ 0 < res.2.2.2 ∧
    (res.2.1 : Int) = (Aligned.resolve ⟨w, ht, .center, .middle, .empty⟩ tw th).width ∧
    (res.2.2.2 : Int) = (Aligned.resolve ⟨w, ht, .center, .middle, .empty⟩ tw th).height := by
  have key : res.2.1 = absDim w tw ∧ res.2.2.2 = absDim ht th := by
    unfold checkFormatting at hr
    cases h1 : checkAlign Generated.hAlignSymbols Generated.hAlignNames h with
    | error e => rw [h1] at hr; cases hr
    | ok a =>
      cases h2 : checkAlign Generated.vAlignSymbols Generated.vAlignNames v with
      | error e => rw [h1, h2] at hr; cases hr
      | ok b =>
        rw [h1, h2] at hr
        injection hr with hr
        rw [← hr]
        exact ⟨rfl, rfl⟩
  obtain ⟨k1, k2⟩ := key
  have r := resolve_rel ⟨w, ht, .center, .middle, .empty⟩ tw th
  rw [r.1, r.2.1, k1, k2]
  simp only [absDim]
  refine ⟨?_, ?_, ?_, ?_, ?_, ?_⟩ <;> split <;> omega

/-- `_init_render_` always hands on an absolute padding: an `AlignedPadding` resolved against the
    terminal size (resolving an absolute one changes nothing) -/
theorem resolve_padding_eq (p : Padding) (tw th : Nat) :
    resolvePadding p tw th = (match p with
      | .aligned a => Padding.aligned (a.resolve tw th)
      | .exact e => Padding.exact e) := by
  cases p with
  | exact e => rfl
  | aligned a =>
    cases hrel : a.relative with
    | true => simp [resolvePadding, hrel]
    | false => simp [resolvePadding, hrel, resolve_abs a tw th hrel]

/-- `Renderable.render(padding=…)`: a relative padding is resolved against the terminal size and
    the frame is the padded size with `pad`'s output; returning the frame unchanged when the sizes
    are equal is invisible (then `pad` is the identity) -/
theorem render_padded_eq (p : Padding) (tw th : Nat) (render : List Tok) (rw rh : Nat) :
    renderPadded p tw th render rw rh =
      (do let s ← paddedSize (resolvePadding p tw th) rw rh
          let out ← (resolvePadding p tw th).pad render rw rh
          pure (s, out)) := by
  unfold renderPadded
  generalize resolvePadding p tw th = p'
  cases hd : exactDims p' rw rh with
  | error e =>
    have : paddedSize p' rw rh = .error e := by
      cases hp' : p' with
      | exact x => rw [hp'] at hd; cases hd
      | aligned a =>
        rw [hp'] at hd
        simp only [exactDims] at hd
        cases hrel : a.relative with
        | true => rw [alignedDims_rel a rw rh hrel] at hd; injection hd with hd; subst hd; simp [paddedSize, hrel]
        | false => obtain ⟨_, _, _, _, _, _, h3⟩ := alignedDims_abs a rw rh hrel; rw [h3] at hd; cases hd
    simp only [this]; rfl
  | ok d =>
    obtain ⟨l, t, r, b⟩ := d
    obtain ⟨h1, _, _, _, _, h6, _⟩ := padded_size_agrees p' rw rh l t r b hd
    simp only [h1, h6]
    by_cases heq : (rw, rh) = (l + rw + r, t + rh + b)
    · have heq' := heq
      simp only [Prod.mk.injEq] at heq'
      have : l = 0 ∧ r = 0 ∧ t = 0 ∧ b = 0 := by omega
      obtain ⟨rfl, rfl, rfl, rfl⟩ := this
      simp [bind, Except.bind, pure, Except.pure, padToks_zero]
    · simp [bind, Except.bind, pure, Except.pure, heq]

/-! ## Part 2 — the padded render on the terminal -/

/-- STRUCTURE: `pad`'s string surgery (`top + left + render.replace("\n", right + "\n" + left) + right
    + bottom`) yields exactly: `t` fill lines, every line of the render between its left and right
    padding, `b` fill lines -/
theorem pad_structure (f : Fill) (l t r b rw : Nat) (lines : List (List Tok)) (hne : lines ≠ [])
    (hlf : ∀ ln ∈ lines, Tok.lf ∉ ln) :
    padToks f l t r b rw (joinLines lines) = joinLines (padLines f l t r b rw lines) :=
  padToks_joinLines f l t r b rw lines hne hlf

/-- PAD_WB: if every line of the inner `w × h` render meets the C01 contract (on the terminal kinds
    `K`, with any SGR mode `m`), every line of the padded render meets it for the
    `(l+w+r) × (t+h+b)` box, in mode `keepsDefault`; `padCover` says which cells each line writes. -/
theorem pad_WB (K : TermKind → Prop) (f : Fill) (l tp r b w h : Nat) (m : SgrMode) (S : Nat → Nat → Prop)
    (lines : List (List Tok)) (hlen : lines.length = h) (hw : 0 < w)
    (hOK : ∀ i (hi : i < lines.length), LineOK K w h i m (S i) lines[i]) :
    ∀ i' (hi' : i' < (padLines f l tp r b w lines).length),
      LineOK K (l + w + r) (tp + h + b) i' .keepsDefault
        (fun di => ∀ dj, dj < l + w + r → padCover f l tp r w h S i' di dj)
        (padLines f l tp r b w lines)[i'] :=
  fun i' hi' => (padLines_okC K f l tp r b w h m S lines hlen hw hOK i' hi').toLineOK

/-- PAD_BLOCK: the padded render, written at any position where the padded box fits, changes only
    cells of the box, does not scroll or wrap, ends on the box's last line at `min (x+W) (W_term-1)`,
    keeps default attributes default; and when the fill is not empty and the inner render covers
    its rectangle, it covers every cell of the box (`BlockEffect` of the padded size). -/
theorem pad_block (K : TermKind → Prop) (f : Fill) (l tp r b w h : Nat) (m : SgrMode) (S : Nat → Nat → Prop)
    (lines : List (List Tok)) (hlen : lines.length = h) (hh : 0 < h) (hw : 0 < w)
    (hlf : ∀ ln ∈ lines, Tok.lf ∉ ln)
    (hOK : ∀ i (hi : i < lines.length), LineOK K w h i m (S i) lines[i])
    (t : Term) (r0 x : Nat) (hK : K t.kind) (hlm : t.lm = x) (hR : Ready t r0 x (l + w + r) (tp + h + b) 0) :
    BlockEffectC t (t.run (padToks f l tp r b w (joinLines lines))) r0 x (l + w + r) (tp + h + b)
        (PadWrite f l tp w h r0 x) (fun di dj => ∃ k, k < tp + h + b ∧ padCover f l tp r w h S k di dj) ∧
    (f ≠ .empty → (∀ di, di < h → ∃ k, k < h ∧ S k di) →
      BlockEffect t (t.run (padToks f l tp r b w (joinLines lines))) r0 x (l + w + r) (tp + h + b) .keepsDefault) := by
  have hne : lines ≠ [] := by intro h0; subst h0; simp at hlen; omega
  rw [padToks_joinLines f l tp r b w lines hne hlf]
  have hC := render_blockC K (l + w + r) (tp + h + b) (PadWrite f l tp w h) (padCover f l tp r w h S)
    (padLines f l tp r b w lines) (by rw [padLines_length, hlen]) (by omega)
    (padLines_okC K f l tp r b w h m S lines hlen hw hOK) t r0 x hK hlm hR
  refine ⟨hC, ?_⟩
  intro hf hS
  obtain ⟨new, h1, h2, _, h4⟩ := hC.log
  refine ⟨hC.frame, hC.row, hC.col, hC.sgr, new, h1, h2, ?_⟩
  intro di hdi dj hdj
  apply h4
  by_cases c1 : di < tp ∨ tp + h ≤ di
  · exact ⟨di, hdi, Or.inr ⟨c1, hf, rfl, hdj⟩⟩
  · by_cases c2 : dj < l ∨ l + w ≤ dj
    · refine ⟨di, hdi, Or.inl ⟨by omega, by omega, Or.inl ⟨hf, by omega, ?_⟩⟩⟩
      rcases c2 with c2 | c2
      · exact Or.inl c2
      · exact Or.inr ⟨c2, hdj⟩
    · obtain ⟨k, hk, hSk⟩ := hS (di - tp) (by omega)
      refine ⟨tp + k, by omega, Or.inl ⟨by omega, by omega, Or.inr ⟨by omega, ?_, by omega, by omega⟩⟩⟩
      have e : tp + k - tp = k := by omega
      rw [e]; exact hSk

/-- PAD_INNER: line `tp + i` of the padded render is `left padding ++ line i of the render ++ right
    padding`, and after the left padding the terminal is `Ready` to draw line `i` of the inner
    `w × h` block anchored at the offset `(r0 + tp, x + l)`, with the pen, the placements and every
    mode unchanged and only the fill cells written — so the inner line runs unchanged, exactly as
    its own contract says, at the offset dictated by the margins. -/
theorem pad_inner (K : TermKind → Prop) (f : Fill) (l tp r b w h : Nat) (m : SgrMode) (S : Nat → Nat → Prop)
    (lines : List (List Tok)) (hlen : lines.length = h) (hw : 0 < w)
    (hOK : ∀ i (hi : i < lines.length), LineOK K w h i m (S i) lines[i]) (i : Nat) (hi : i < lines.length) :
    (padLines f l tp r b w lines)[tp + i]? = some (fillSeg f l ++ lines[i] ++ fillSeg f r) ∧
    ∀ (t : Term) (r0 x : Nat), K t.kind → Ready t r0 x (l + w + r) (tp + h + b) (tp + i) →
      let t1 := t.run (fillSeg f l)
      Ready t1 (r0 + tp) (x + l) w h i ∧ Frame t t1 ∧ t1.fg = t.fg ∧ t1.bg = t.bg ∧ t1.imgs = t.imgs ∧
        t1.log = fillWrites f t.row t.col l t.fg t.bg ++ t.log ∧
        LineEffect t1 (t1.run lines[i]) (r0 + tp) (x + l) w h m (S i) ∧
        t.run (fillSeg f l ++ lines[i] ++ fillSeg f r) = (t1.run lines[i]).run (fillSeg f r) :=
  ⟨padLines_get_mid f l tp r b w lines i hi,
   fun t r0 x hK hR => padLine_inner K f l tp r b w h i m (S i) lines[i] (by omega) hw (hOK i hi) t r0 x hK hR⟩

/-- PAD_FILL: starting with default attributes, after the padded render every cell of the box
    outside the inner rectangle holds the fill glyph with default attributes; with the empty fill
    it is exactly as it was (content and touched-ness). -/
theorem pad_fill (K : TermKind → Prop) (f : Fill) (l tp r b w h : Nat) (m : SgrMode) (S : Nat → Nat → Prop)
    (lines : List (List Tok)) (hlen : lines.length = h) (hh : 0 < h) (hw : 0 < w)
    (hlf : ∀ ln ∈ lines, Tok.lf ∉ ln)
    (hOK : ∀ i (hi : i < lines.length), LineOK K w h i m (S i) lines[i])
    (t : Term) (r0 x : Nat) (hK : K t.kind) (hlm : t.lm = x) (hR : Ready t r0 x (l + w + r) (tp + h + b) 0)
    (hdef : t.fg = none ∧ t.bg = none) (di dj : Nat) (hdi : di < tp + h + b) (hdj : dj < l + w + r)
    (hout : ¬ (tp ≤ di ∧ di < tp + h ∧ l ≤ dj ∧ dj < l + w)) :
    let t' := t.run (padToks f l tp r b w (joinLines lines))
    (∀ g, f = .glyph g → t'.cellAt (r0 + di) (x + dj) = some (.text g none none)) ∧
    (f = .empty → t'.cellAt (r0 + di) (x + dj) = t.cellAt (r0 + di) (x + dj) ∧
      t'.touched (r0 + di) (x + dj) = t.touched (r0 + di) (x + dj)) := by
  intro t'
  obtain ⟨hC, _⟩ := pad_block K f l tp r b w h m S lines hlen hh hw hlf hOK t r0 x hK hlm hR
  obtain ⟨new, h1, _, h3, h4⟩ := hC.log
  have hQ := h3 hdef
  have hnotin : ∀ wr : Write, wr.1 = r0 + di → wr.2.1 = x + dj → ¬ InRect (r0 + tp) (x + l) w h wr := by
    intro wr e1 e2 hin
    unfold InRect at hin
    omega
  constructor
  · intro g hg
    apply cellAt_new h1
    · apply h4
      by_cases c1 : di < tp ∨ tp + h ≤ di
      · exact ⟨di, hdi, Or.inr ⟨c1, by rw [hg]; simp, rfl, hdj⟩⟩
      · refine ⟨di, hdi, Or.inl ⟨by omega, by omega, Or.inl ⟨by rw [hg]; simp, by omega, ?_⟩⟩⟩
        by_cases c2 : dj < l
        · exact Or.inl c2
        · exact Or.inr ⟨by omega, hdj⟩
    · intro wr hwr e1 e2
      rcases hQ wr hwr with hin | ⟨g', hg', hv⟩
      · exact absurd hin (hnotin wr e1 e2)
      · rw [hg] at hg'; injection hg' with hg'; rw [hv, hg']
  · intro hf
    apply cellAt_untouched h1
    intro wr hwr ⟨e1, e2⟩
    rcases hQ wr hwr with hin | ⟨g', hg', _⟩
    · exact hnotin wr e1 e2 hin
    · rw [hf] at hg'; cases hg'

/-- PAD_OUTSIDE: no cell outside the padded box changes -/
theorem pad_outside (K : TermKind → Prop) (f : Fill) (l tp r b w h : Nat) (m : SgrMode) (S : Nat → Nat → Prop)
    (lines : List (List Tok)) (hlen : lines.length = h) (hh : 0 < h) (hw : 0 < w)
    (hlf : ∀ ln ∈ lines, Tok.lf ∉ ln)
    (hOK : ∀ i (hi : i < lines.length), LineOK K w h i m (S i) lines[i])
    (t : Term) (r0 x : Nat) (hK : K t.kind) (hlm : t.lm = x) (hR : Ready t r0 x (l + w + r) (tp + h + b) 0)
    (rr cc : Nat) (hout : ¬ (r0 ≤ rr ∧ rr < r0 + (tp + h + b) ∧ x ≤ cc ∧ cc < x + (l + w + r))) :
    let t' := t.run (padToks f l tp r b w (joinLines lines))
    t'.cellAt rr cc = t.cellAt rr cc ∧ t'.touched rr cc = t.touched rr cc := by
  intro t'
  obtain ⟨hC, _⟩ := pad_block K f l tp r b w h m S lines hlen hh hw hlf hOK t r0 x hK hlm hR
  obtain ⟨new, h1, h2, _, _⟩ := hC.log
  apply cellAt_untouched h1
  intro wr hwr ⟨e1, e2⟩
  have := h2 wr hwr
  unfold InRect at this
  omega

/-! ### instances: the real renderers' lines meet the hypotheses -/

/-- a padded BLOCK render (text with SGR; every pixel content, size, padding, non-empty fill)
    occupies exactly the padded box -/
theorem pad_block_text (cfg : Block.Cfg) (rows : List (List Block.PP)) (w h : Nat)
    (hh : rows.length = h) (hrow : ∀ row ∈ rows, row.length = w) (hpos : 0 < h) (hw : 0 < w)
    (f : Fill) (hf : f ≠ .empty) (l tp r b : Nat)
    (t : Term) (r0 x : Nat) (hlm : t.lm = x) (hR : Ready t r0 x (l + w + r) (tp + h + b) 0) :
    BlockEffect t (t.run (padToks f l tp r b w (Block.render cfg rows))) r0 x (l + w + r) (tp + h + b) .keepsDefault := by
  refine (pad_block (fun _ => True) f l tp r b w h .reset (fun j di => di = j) (Block.renderLines cfg rows)
    (by simp [Block.renderLines, hh]) hpos hw ?_ ?_ t r0 x trivial hlm hR).2 hf (fun di hdi => ⟨di, hdi, rfl⟩)
  · intro ln hln hmem
    simp only [Block.renderLines, List.mem_map] at hln
    obtain ⟨row, _, rfl⟩ := hln
    rcases List.mem_append.mp hmem with h1 | h1
    · have := Block.line_text cfg row _ h1
      simp [Tok.isText] at this
    · simp at h1
  · intro i hi
    simp only [Block.renderLines, List.getElem_map]
    apply Block.blockLine_ok
    exact hrow _ (List.getElem_mem _)

/-- a padded iterm2 WHOLE render on a non-konsole terminal — the inner render reserves its lines
    with cursor movements, goes back **up** `h − 1` lines on its last line and draws all rows from
    there — still occupies exactly the padded box -/
theorem pad_block_iterm_whole (erase : Bool) (w h : Nat) (c : ITermCmd)
    (hc : c.cols = w ∧ c.rows = h ∧ c.noMove = false) (hpos : 0 < h) (hw : 0 < w)
    (f : Fill) (hf : f ≠ .empty) (l tp r b : Nat)
    (t : Term) (r0 x : Nat) (hK : Gfx.notKonsole t.kind) (hlm : t.lm = x)
    (hR : Ready t r0 x (l + w + r) (tp + h + b) 0) :
    BlockEffect t (t.run (padToks f l tp r b w (joinLines (Gfx.itermWhole erase false w h c)))) r0 x
      (l + w + r) (tp + h + b) .keepsDefault := by
  obtain ⟨h1, h2, h3⟩ := hc
  refine (pad_block Gfx.notKonsole f l tp r b w h .kept
    (fun j => if j = h - 1 then (fun di => di < h) else Gfx.noRows) (Gfx.itermWhole erase false w h c)
    (by simp [Gfx.itermWhole]; omega) hpos hw ?_ ?_ t r0 x hK hlm hR).2 hf
    (fun di hdi => ⟨h - 1, by omega, by simp; exact hdi⟩)
  · intro ln hln hmem
    simp only [Gfx.itermWhole, Bool.false_eq_true, if_false, List.mem_append, List.mem_replicate,
      List.mem_singleton] at hln
    rcases hln with ⟨_, rfl⟩ | rfl
    · cases erase <;> simp [Gfx.eraseToks] at hmem
    · cases erase <;> simp [Gfx.eraseToks, Gfx.upToks] at hmem <;> split at hmem <;> simp at hmem
  · intro j hj
    have hj' : j < h := by simp [Gfx.itermWhole] at hj; omega
    simp only [Gfx.itermWhole, Bool.false_eq_true, if_false]
    by_cases hjl : j = h - 1
    · subst hjl
      rw [List.getElem_append_right (by simp)]
      simp only [List.length_replicate, Nat.sub_self, List.getElem_cons_zero, if_true]
      exact Gfx.itermWholeLast_ok_other erase w h c h1 h2 h3 hpos
    · rw [List.getElem_append_left (by simp; omega)]
      simp only [List.getElem_replicate, hjl, if_false]
      have := Gfx.fill_ok (!erase) w h j
      cases erase <;> exact LineOK.mono (K := Gfx.anyKind) (fun _ _ => trivial)
        (by simpa [Gfx.fillToks, Gfx.eraseToks] using this)

/-- non-vacuity: a 2×1 inner text line `XY␛[m` meets the contract's hypotheses; padded to 4×3
    with `#` it fits at (row 1, column 2) of a 7×5 terminal -/
example : Ready ({ W := 7, H := 5, row := 1, col := 2, lm := 2 } : Term) 1 2 (1 + 2 + 1) (1 + 1 + 1) 0 :=
  ⟨rfl, rfl, rfl, by decide, by decide, by decide, by decide, by decide⟩

example : padLines (.glyph (.ch '#')) 1 1 1 1 2 [[.glyph (.ch 'X'), .glyph (.ch 'Y'), .sgr0]] =
    [glyphs (.ch '#') 4, glyphs (.ch '#') 1 ++ [.glyph (.ch 'X'), .glyph (.ch 'Y'), .sgr0] ++ glyphs (.ch '#') 1,
     glyphs (.ch '#') 4] := by decide

/-! ## Part 3 — the old API -/

/-- OLD API = NEW API: `_format_render(render, h_align, width, v_align, height)` (width, height
    already absolute, as `_check_formatting` returns them) is `AlignedPadding(width, height, h, v,
    " ").pad(render, rendered_size)` — hence all of Part 2 applies to `format(image, spec)`,
    `draw()` and the image iterators. (Holds for the repaired `_format_render`; the unrepaired
    one writes `width`-wide padding lines under/over a wider render.) -/
theorem format_render_eq (ha va : Option String) (width height cols lines : Nat) (render : List Tok)
    (hw : 0 < width) (hh : 0 < height) :
    (Padding.aligned ⟨width, height, hAlignOf ha, vAlignOf va, .glyph .blank⟩).pad render cols lines =
      .ok (formatRender ha width va height cols lines render) := by
  have hd := fmtDims_eq ha va width height cols lines (.glyph .blank) hw hh
  simp only [Padding.pad, exactDims, hd, Padding.fill, bind, Except.bind, pure, Except.pure]
  rw [formatRender_eq_W, padToks_eq_W]
  congr 2
  unfold fmtDims
  by_cases hW : width > cols <;> by_cases a1 : ha = some "<" <;> by_cases a2 : ha = some ">" <;>
    simp [hW, a1, a2] <;> omega

example : formatRender (some "<") 3 (some "^") 2 1 1 [.glyph .upper] =
    [.glyph .upper, .glyph .blank, .glyph .blank, .lf, .glyph .blank, .glyph .blank, .glyph .blank] := by decide

/-! ## Part 4 — every entry point of the old API that pads an image render -/

/-- BOX THEOREM FOR THE OLD API: `_format_render` of a `cols × lines` render whose lines meet the
    C01 contract, written where the `max(width, cols) × max(height, lines)` box fits, changes
    exactly the cells of that box, covers all of them, does not scroll or wrap and ends on the
    box's last line. (`format(image, spec)`, `f"{image:spec}"`, `draw()` and every `ImageIterator`
    frame are `_format_render` outputs.) -/
theorem format_render_block (K : TermKind → Prop) (ha va : Option String) (width height cols lines : Nat)
    (m : SgrMode) (S : Nat → Nat → Prop) (ls : List (List Tok)) (hlen : ls.length = lines) (hh : 0 < lines)
    (hw : 0 < cols) (hlf : ∀ ln ∈ ls, Tok.lf ∉ ln)
    (hOK : ∀ i (hi : i < ls.length), LineOK K cols lines i m (S i) ls[i])
    (hS : ∀ di, di < lines → ∃ k, k < lines ∧ S k di)
    (t : Term) (r0 x : Nat) (hK : K t.kind) (hlm : t.lm = x)
    (hR : Ready t r0 x (max width cols) (max height lines) 0) :
    BlockEffect t (t.run (formatRender ha width va height cols lines (joinLines ls))) r0 x
      (max width cols) (max height lines) .keepsDefault := by
  obtain ⟨e1, e2⟩ := fmtDims_sum ha va width height cols lines
  rw [formatRender_eq_W, ← e1, ← padToks_eq_W, ← e2]
  rw [← e1, ← e2] at hR
  exact (pad_block K (.glyph .blank) _ _ _ _ cols lines m S ls hlen hh hw hlf hOK t r0 x hK hlm hR).2
    (by simp) hS

/-- `draw(h_align, pad_width, v_align, pad_height)` (not animated) writes `_format_render`'s output
    for the checked arguments followed by `CSI m` and a newline, and only for a padding width
    within the terminal width -/
theorem draw_output_eq (h v : PyArg) (w ht : Option Int) (tw th cols lines : Nat) (render out : List Tok)
    (hd : drawOutput h w v ht tw th cols lines render = .ok out) :
    ∃ ha wd va hg wi, checkFormatting h w v ht tw th = .ok (ha, wd, va, hg) ∧ w = some wi ∧ wi ≤ (tw : Int) ∧
      out = formatRender ha wd va hg cols lines render ++ [Tok.sgr0, Tok.lf] := by
  unfold drawOutput at hd
  cases hc : checkFormatting h w v ht tw th with
  | error e => rw [hc] at hd; cases hd
  | ok r =>
    obtain ⟨ha, wd, va, hg⟩ := r
    rw [hc] at hd
    cases w with
    | none => cases hd
    | some wi =>
      simp only [bind, Except.bind] at hd
      by_cases hgt : wi > (tw : Int)
      · simp [hgt] at hd
      · simp only [hgt, if_false] at hd
        injection hd with hd
        exact ⟨ha, wd, va, hg, wi, rfl, rfl, by omega, hd.symm⟩

/-- ITERATOR: the frame yielded by the `k`-th `next()` of an `ImageIterator` (any repeat count,
    cached or not, any sequence of image sizes) is `_format_render`, **for the size the image has
    at that `next()`**, of a render of the same frame number made at a `next()` `j ≤ k` at which
    the image had that same size (`j = k` unless the frame comes from the cache) — i.e. it is
    `AlignedPadding(width, height, h, v, " ").pad(render, current size)`. A frame formatted for a
    size read earlier (hoisted out of the loop) does not satisfy this. -/
theorem iter_frames_padded (f : Fmt) (rep : Int) (c : CachedArg) (nFrames : Nat) (steps : List IterStep)
    (k : Nat) (fr : List Tok) (h : (iterFrames f rep c nFrames steps)[k]? = some (some fr)) :
    ∃ j sj sk, j ≤ k ∧ j % nFrames = k % nFrames ∧ steps[j]? = some sj ∧ steps[k]? = some sk ∧
      (sj.cols, sj.lines) = (sk.cols, sk.lines) ∧
      fr = formatRender f.hAlign f.width f.vAlign f.height sk.cols sk.lines sj.render ∧
      (0 < f.width → 0 < f.height →
        (Padding.aligned ⟨f.width, f.height, hAlignOf f.hAlign, vAlignOf f.vAlign, .glyph .blank⟩).pad
          sj.render sk.cols sk.lines = .ok fr) := by
  unfold iterFrames at h
  obtain ⟨j, sj, sk, h1, h2, h3, h4, h5, h6⟩ :=
    iterGo_spec f rep _ nFrames steps steps 0 _ (by simp) (cacheInv_init f nFrames steps) k fr h
  simp only [Nat.zero_add] at h1 h2 h4
  have hfr : fr = formatRender f.hAlign f.width f.vAlign f.height sk.cols sk.lines sj.render := by
    simp only [Prod.mk.injEq] at h5
    rw [h6, Fmt.frame, h5.1, h5.2]
  exact ⟨j, sj, sk, h1, h2, h3, h4, h5, hfr,
    fun hw hh => by rw [hfr]; exact format_render_eq _ _ _ _ _ _ _ hw hh⟩

/-- ITERATOR FRAMES ON THE TERMINAL: if every render the image produces (for its size at that
    moment) meets the C01 contract, every yielded frame occupies exactly the
    `max(width, cols) × max(height, lines)` box for the image's size at that `next()` -/
theorem iter_frame_block (f : Fmt) (rep : Int) (c : CachedArg) (nFrames : Nat) (steps : List IterStep)
    (k : Nat) (fr : List Tok) (h : (iterFrames f rep c nFrames steps)[k]? = some (some fr))
    (K : TermKind → Prop) (m : SgrMode)
    (hren : ∀ (j : Nat) (sj : IterStep), steps[j]? = some sj → ∃ (ls : List (List Tok)) (S : Nat → Nat → Prop),
      sj.render = joinLines ls ∧ ls.length = sj.lines ∧ 0 < sj.lines ∧ 0 < sj.cols ∧ (∀ ln ∈ ls, Tok.lf ∉ ln) ∧
      (∀ i (hi : i < ls.length), LineOK K sj.cols sj.lines i m (S i) ls[i]) ∧
      (∀ di, di < sj.lines → ∃ k', k' < sj.lines ∧ S k' di)) :
    ∃ sk, steps[k]? = some sk ∧ ∀ (t : Term) (r0 x : Nat), K t.kind → t.lm = x →
      Ready t r0 x (max f.width sk.cols) (max f.height sk.lines) 0 →
      BlockEffect t (t.run fr) r0 x (max f.width sk.cols) (max f.height sk.lines) .keepsDefault := by
  obtain ⟨j, sj, sk, _, _, h3, h4, h5, h6, _⟩ := iter_frames_padded f rep c nFrames steps k fr h
  obtain ⟨ls, S, g1, g2, g3, g4, g5, g6, g7⟩ := hren j sj h3
  simp only [Prod.mk.injEq] at h5
  rw [h5.2] at g2 g3 g7
  rw [h5.1] at g4
  rw [h5.1, h5.2] at g6
  refine ⟨sk, h4, fun t r0 x hK hlm hR => ?_⟩
  rw [h6, g1]
  exact format_render_block K _ _ _ _ _ _ m S ls g2 g3 g4 g5 g6 g7 t r0 x hK hlm hR

/-- ANIMATED `draw()`: the first frame, then `\r`, `cursor_up(max(pad_height, lines) − 1)` and the
    next frame, …: if every formatted frame occupies the `w × max(pad_height, lines)` box drawn from
    its top-left corner at column 0, the whole animation changes only cells of that one box and
    ends on its last line (going up `pad_height − 1` lines instead does not have this property). -/
theorem draw_animated_in_box (K : TermKind → Prop) (padHeight lines w : Nat) (frames : List (List Tok))
    (hne : frames ≠ []) (hw : 0 < w) (hl : 0 < max padHeight lines)
    (hok : ∀ fr ∈ frames, FrameOK K w (max padHeight lines) fr)
    (t : Term) (r0 : Nat) (hK : K t.kind) (hlm : t.lm = 0) (hR : Ready t r0 0 w (max padHeight lines) 0) :
    let t' := t.run (animBody padHeight lines frames)
    Frame t t' ∧ t'.row = r0 + max padHeight lines - 1 ∧
      ((t.fg = none ∧ t.bg = none) → (t'.fg = none ∧ t'.bg = none)) ∧
      ∃ new, t'.log = new ++ t.log ∧ ∀ wr ∈ new, InRect r0 0 w (max padHeight lines) wr := by
  intro t'
  cases frames with
  | nil => exact absurd rfl hne
  | cons first rest =>
    have e1 := hok first (by simp) t r0 hK hlm hR
    simp only [t', animBody]
    rw [Term.run_append]
    generalize t.run first = t1 at e1
    have f1 := e1.frame
    obtain ⟨f2, r2, s2, new2, hn2, hin2⟩ := later_frames K w (max padHeight lines) hl hw rest
      (fun fr h => hok fr (by simp [h])) t1 r0 (by rw [f1.kind]; exact hK) (by rw [f1.lm]; exact hlm) e1.row
      (by rw [f1.W]; have := hR.fitW; omega) (by rw [f1.top]; exact hR.visTop)
      (by rw [f1.top, f1.H]; exact hR.visBot)
    obtain ⟨new1, hn1, hin1, _⟩ := e1.log
    refine ⟨f1.trans f2, r2, fun hd => s2 (e1.sgr hd), new2 ++ new1, by rw [hn2, hn1, List.append_assoc], ?_⟩
    intro wr hwr
    rcases List.mem_append.mp hwr with h' | h'
    · exact hin2 wr h'
    · exact hin1 wr h'

/-- non-vacuity: a cached two-pass iteration over 1 frame whose size changes from 1×1 to 2×1
    between the passes re-formats for the new size -/
example : iterFrames ⟨some "<", 3, some "^", 1⟩ 2 (.bool true) 1
    [⟨1, 1, [.glyph .upper]⟩, ⟨2, 1, [.glyph .upper, .glyph .lower]⟩] =
    [some [.glyph .upper, .glyph .blank, .glyph .blank], some [.glyph .upper, .glyph .lower, .glyph .blank]] := by
  decide

/-! ## Part 5 — the theorems are about bytes: the Lean lexer reads every padded output back -/

/-- `pad` of a well-formed render with a readable fill (`Glyph.ch c` needs `isOther c`; blank, the
    half blocks and the empty fill need nothing) is well-formed -/
theorem pad_wf (f : Fill) (hf : f.wf = true) (l t r b rw : Nat) (render : List Tok) (hr : Lex.WfToks render) :
    Lex.WfToks (padToks f l t r b rw render) := wf_padToks f hf l t r b rw render hr

/-- ROUND TRIP: the strict lexer `TIV.Lex.lex` reads the bytes `Padding.pad` writes back into exactly
    the tokens of the model's padded output -/
theorem lex_pad (f : Fill) (hf : f.wf = true) (l t r b rw : Nat) (render : List Tok) (hr : Lex.WfToks render) :
    Lex.lex (toksStr (padToks f l t r b rw render)).toList = some (padToks f l t r b rw render) :=
  Lex.lex_toksStr _ (wf_padToks f hf l t r b rw render hr)

theorem lex_padding_pad (p : Padding) (hf : p.fill.wf = true) (render : List Tok) (rw rh : Nat) (out : List Tok)
    (hr : Lex.WfToks render) (h : p.pad render rw rh = .ok out) : Lex.lex (toksStr out).toList = some out := by
  cases hd : exactDims p rw rh with
  | error e => simp only [Padding.pad, hd] at h; cases h
  | ok d =>
    obtain ⟨l, t, r, b⟩ := d
    rw [(padded_size_agrees p rw rh l t r b hd).2.2.2.2.2.1 render] at h
    injection h with h
    rw [← h]; exact lex_pad p.fill hf l t r b rw render hr

/-- the same for the old API: `_format_render` outputs and hence every `ImageIterator` frame -/
theorem lex_format_render (ha va : Option String) (width height cols lines : Nat) (render : List Tok)
    (hr : Lex.WfToks render) :
    Lex.lex (toksStr (formatRender ha width va height cols lines render)).toList =
      some (formatRender ha width va height cols lines render) :=
  Lex.lex_toksStr _ (wf_formatRender ha va width height cols lines render hr)

theorem lex_iter_frame (f : Fmt) (rep : Int) (c : CachedArg) (nFrames : Nat) (steps : List IterStep)
    (hr : ∀ s ∈ steps, Lex.WfToks s.render) (k : Nat) (fr : List Tok)
    (h : (iterFrames f rep c nFrames steps)[k]? = some (some fr)) : Lex.lex (toksStr fr).toList = some fr := by
  obtain ⟨j, sj, sk, _, _, h3, _, _, h6, _⟩ := iter_frames_padded f rep c nFrames steps k fr h
  rw [h6]
  exact lex_format_render _ _ _ _ _ _ _ (hr sj (List.mem_of_getElem? h3))

/-- PAD_BLOCK ON BYTES: whatever the lexer reads from the bytes of the padded output has the box
    effect of `pad_block` — the box theorems are statements about the bytes written -/
theorem pad_block_bytes (K : TermKind → Prop) (f : Fill) (hf : f.wf = true) (l tp r b w h : Nat) (m : SgrMode)
    (S : Nat → Nat → Prop) (lines : List (List Tok)) (hlen : lines.length = h) (hh : 0 < h) (hw : 0 < w)
    (hlf : ∀ ln ∈ lines, Tok.lf ∉ ln) (hwf : ∀ ln ∈ lines, Lex.WfToks ln)
    (hOK : ∀ i (hi : i < lines.length), LineOK K w h i m (S i) lines[i])
    (t : Term) (r0 x : Nat) (hK : K t.kind) (hlm : t.lm = x) (hR : Ready t r0 x (l + w + r) (tp + h + b) 0)
    (ts : List Tok) (hlex : Lex.lex (toksStr (padToks f l tp r b w (joinLines lines))).toList = some ts) :
    BlockEffectC t (t.run ts) r0 x (l + w + r) (tp + h + b)
      (PadWrite f l tp w h r0 x) (fun di dj => ∃ k, k < tp + h + b ∧ padCover f l tp r w h S k di dj) := by
  rw [lex_pad f hf l tp r b w _ (Lex.wf_joinLines lines hwf)] at hlex
  injection hlex with hlex
  rw [← hlex]
  exact (pad_block K f l tp r b w h m S lines hlen hh hw hlf hOK t r0 x hK hlm hR).1

example : Fill.wf (.glyph (.ch '#')) = true ∧ Fill.wf (.glyph .blank) = true ∧ Fill.wf .empty = true ∧
    Fill.wf (.glyph (.ch ' ')) = false := by decide

end TIV.C05
