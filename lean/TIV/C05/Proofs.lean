import TIV.C05.Model
import TIV.Common.TextRun
import TIV.Common.TermLemmas
/-! helper lemmas of C05 -/
namespace TIV.C05
open TIV Term

/-! ## `pad` on the flat token stream = `padLines` on the lines -/

theorem fillSeg_zero (f : Fill) : fillSeg f 0 = [] := by
  cases f <;> simp [fillSeg, glyphs, cursorForward]

theorem replaceLf_append (sep a b : List Tok) : replaceLf sep (a ++ b) = replaceLf sep a ++ replaceLf sep b := by
  simp [replaceLf, List.flatMap_append]

theorem replaceLf_noLf (sep : List Tok) (ln : List Tok) (h : Tok.lf ∉ ln) : replaceLf sep ln = ln := by
  induction ln with
  | nil => rfl
  | cons a rest ih =>
    have h1 : a ≠ Tok.lf := fun e => h (by simp [e])
    have h2 : Tok.lf ∉ rest := fun e => h (by simp [e])
    have := ih h2
    simp only [replaceLf, List.flatMap_cons] at this ⊢
    rw [this]; simp [h1]

theorem replaceLf_lf_cons (sep rest : List Tok) : replaceLf sep (Tok.lf :: rest) = sep ++ replaceLf sep rest := by
  simp [replaceLf, List.flatMap_cons]

theorem joinLines_cons_cons (a b : List Tok) (rest : List (List Tok)) :
    joinLines (a :: b :: rest) = a ++ Tok.lf :: joinLines (b :: rest) := rfl

theorem joinLines_cons_ne (a : List Tok) (X : List (List Tok)) (h : X ≠ []) :
    joinLines (a :: X) = a ++ Tok.lf :: joinLines X := by
  cases X with
  | nil => exact absurd rfl h
  | cons b rest => rfl

theorem joinLines_append_single (X : List (List Tok)) (a : List Tok) (h : X ≠ []) :
    joinLines (X ++ [a]) = joinLines X ++ Tok.lf :: a := by
  induction X with
  | nil => exact absurd rfl h
  | cons b rest ih =>
    cases rest with
    | nil => simp [joinLines]
    | cons c rest2 =>
      have := ih (by simp)
      simp only [List.cons_append, joinLines_cons_cons] at this ⊢
      rw [this]; simp

/-- the horizontal part: left padding, the render with every `\n` replaced, right padding -/
theorem horizontal_join (L R : List Tok) : ∀ (lines : List (List Tok)), lines ≠ [] → (∀ ln ∈ lines, Tok.lf ∉ ln) →
    L ++ replaceLf (R ++ [Tok.lf] ++ L) (joinLines lines) ++ R = joinLines (lines.map fun ln => L ++ ln ++ R) := by
  intro lines
  induction lines with
  | nil => intro h; exact absurd rfl h
  | cons a rest ih =>
    intro _ hlf
    have ha : Tok.lf ∉ a := hlf a (by simp)
    cases rest with
    | nil => simp [joinLines, replaceLf_noLf _ a ha]
    | cons b rest2 =>
      have := ih (by simp) (fun ln h => hlf ln (by simp [h]))
      simp only [List.map_cons, joinLines_cons_cons] at this ⊢
      rw [replaceLf_append, replaceLf_noLf _ a ha, replaceLf_lf_cons, ← this]
      simp [List.append_assoc]

theorem join_top (F : List Tok) (n : Nat) (X : List (List Tok)) (h : X ≠ []) :
    joinLines (List.replicate n F ++ X) = (List.replicate n (F ++ [Tok.lf])).flatten ++ joinLines X := by
  induction n with
  | zero => simp
  | succ k ih =>
    rw [List.replicate_succ, List.cons_append, joinLines_cons_ne _ _ (by simp [h]), ih]
    simp [List.replicate_succ]

theorem join_bottom (F : List Tok) (n : Nat) (X : List (List Tok)) (h : X ≠ []) :
    joinLines (X ++ List.replicate n F) = joinLines X ++ (List.replicate n (Tok.lf :: F)).flatten := by
  induction n generalizing X with
  | zero => simp
  | succ k ih =>
    rw [List.replicate_succ', ← List.append_assoc, joinLines_append_single _ _ (by simp [h]), ih X h]
    simp [List.replicate_succ']

/-- `Padding.pad`'s string surgery produces exactly the padded lines -/
theorem padToks_joinLines (f : Fill) (l t r b rw : Nat) (lines : List (List Tok)) (hne : lines ≠ [])
    (hlf : ∀ ln ∈ lines, Tok.lf ∉ ln) :
    padToks f l t r b rw (joinLines lines) = joinLines (padLines f l t r b rw lines) := by
  have hmapne : (lines.map fun ln => fillSeg f l ++ ln ++ fillSeg f r) ≠ [] := by simpa using hne
  have hbody : (if l ≠ 0 ∨ r ≠ 0 then
        fillSeg f l ++ replaceLf (fillSeg f r ++ [Tok.lf] ++ fillSeg f l) (joinLines lines) ++ fillSeg f r
      else fillSeg f l ++ joinLines lines ++ fillSeg f r) =
      joinLines (lines.map fun ln => fillSeg f l ++ ln ++ fillSeg f r) := by
    split
    · exact horizontal_join _ _ lines hne hlf
    · rename_i h
      have hl : l = 0 := by omega
      have hr : r = 0 := by omega
      subst hl; subst hr
      simp [fillSeg_zero]
  unfold padLines
  rw [List.append_assoc, join_top _ _ _ (by simp [hne]), join_bottom _ _ _ hmapne, ← hbody]
  unfold padToks
  by_cases hh : l ≠ 0 ∨ r ≠ 0
  · simp only [hh, true_or, if_true]
    by_cases ht : t ≠ 0 <;> by_cases hb : b ≠ 0 <;> simp [ht, hb, List.append_assoc]
    all_goals (first | (have : t = 0 := by omega) | skip)
    all_goals simp_all
  · have hl : l = 0 := by omega
    have hr : r = 0 := by omega
    subst hl; subst hr
    simp only [fillSeg_zero, ne_eq, not_true_eq_false, or_self, if_false, List.nil_append, List.append_nil, false_or]
    by_cases ht : t ≠ 0 <;> by_cases hb : b ≠ 0 <;> simp [ht, hb, List.append_assoc]
    all_goals simp_all

/-! ## what a padding segment does on the terminal -/

/-- the writes of `n` fill glyphs starting at `(r, c)` under the pen `(fg, bg)`; none for the empty fill -/
def fillWrites (f : Fill) (r c n : Nat) (fg bg : Option RGB) : List Write :=
  match f with
  | .glyph g => writesOf r c (List.replicate n (.text g fg bg))
  | .empty => []

theorem cellsOf_replicate (p : Pen) (g : Glyph) (n : Nat) :
    cellsOf p (List.replicate n (Tok.glyph g)) = List.replicate n (.text g p.fg p.bg) := by
  induction n with
  | zero => rfl
  | succ k ih => simp [List.replicate_succ, cellsOf, ih]

theorem penAfter_replicate (p : Pen) (g : Glyph) (n : Nat) :
    penAfter p (List.replicate n (Tok.glyph g)) = p := by
  induction n with
  | zero => rfl
  | succ k ih => simp [List.replicate_succ, penAfter, Pen.step, ih]

structure FillEffect (f : Fill) (n : Nat) (t t' : Term) : Prop where
  frame : Frame t t'
  row : t'.row = t.row
  fg : t'.fg = t.fg
  bg : t'.bg = t.bg
  imgs : t'.imgs = t.imgs
  col : t'.col = min (t.col + n) (t.W - 1)
  pw : t'.pw = true → t.col + n = t.W ∨ (n = 0 ∧ t.pw = true)
  log : t'.log = fillWrites f t.row t.col n t.fg t.bg ++ t.log

/-- a padding segment of `n` columns that fits: `n` fill glyphs are a text run; `cursor_forward(n)`
    moves without writing; nothing at all for `n = 0` -/
theorem fillSeg_effect (f : Fill) (n : Nat) (t : Term) (hpw : n ≠ 0 → t.pw = false) (hfit : t.col + n ≤ t.W)
    (hcol : t.col < t.W) : FillEffect f n t (t.run (fillSeg f n)) := by
  by_cases hn : n = 0
  · subst hn
    rw [fillSeg_zero]
    refine ⟨Frame.refl t, rfl, rfl, rfl, rfl, ?_, ?_, ?_⟩
    · show t.col = _; omega
    · intro h; exact Or.inr ⟨rfl, h⟩
    · cases f <;> simp [fillWrites, writesOf, Term.run_nil]
  · have hpw := hpw hn
    cases f with
    | glyph g =>
      have htext : ∀ a ∈ List.replicate n (Tok.glyph g), a.isText = true := by
        intro a ha; rw [(List.mem_replicate.mp ha).2]; rfl
      have e := run_text (List.replicate n (Tok.glyph g)) htext t
        (Or.inl ⟨hpw, by rw [cellsOf_replicate]; simpa using hfit⟩)
      rw [cellsOf_replicate, penAfter_replicate] at e
      have hne : List.replicate n (CellContent.text g t.fg t.bg) ≠ [] := by
        intro h; have := congrArg List.length h; simp at this; exact hn this
      have hc := e.colN hne
      simp only [List.length_replicate] at hc
      simp only [fillSeg, glyphs, Bool.false_eq_true, if_false]
      exact ⟨e.frame, e.row, e.fg, e.bg, e.imgs, hc.1, fun h => Or.inl (hc.2.mp h), e.log⟩
    | empty =>
      have hpos : (n : Int) > 0 := by omega
      have hp : param n = n := param_pos (by omega)
      simp only [fillSeg, cursorForward, hpos, if_true, Int.toNat_natCast]
      refine ⟨⟨rfl, rfl, rfl, rfl, rfl, rfl, rfl, rfl⟩, rfl, rfl, rfl, rfl, ?_, ?_, ?_⟩
      · simp [Term.run, step, hp, Nat.min_comm]
      · intro h; simp [Term.run, step] at h
      · simp [Term.run, step, fillWrites]

theorem mem_writesOf_val {r c : Nat} {vs : List CellContent} {wr : Write} (h : wr ∈ writesOf r c vs) :
    wr.2.2 ∈ vs := by
  induction vs generalizing c with
  | nil => simp [writesOf] at h
  | cons v vs ih =>
    simp only [writesOf, List.mem_append, List.mem_singleton] at h
    rcases h with h | h
    · exact List.mem_cons_of_mem _ (ih h)
    · subst h; simp

theorem mem_fillWrites {f : Fill} {r c n : Nat} {fg bg : Option RGB} {wr : Write}
    (h : wr ∈ fillWrites f r c n fg bg) :
    wr.1 = r ∧ c ≤ wr.2.1 ∧ wr.2.1 < c + n ∧ ∃ g, f = .glyph g ∧ wr.2.2 = .text g fg bg := by
  cases f with
  | empty => simp [fillWrites] at h
  | glyph g =>
    simp only [fillWrites] at h
    have h1 := mem_writesOf h
    have h2 := mem_writesOf_val h
    simp only [List.length_replicate] at h1
    exact ⟨h1.1, h1.2.1, h1.2.2, g, rfl, (List.mem_replicate.mp h2).2⟩

theorem fillWrites_covers {g : Glyph} {r c n : Nat} {fg bg : Option RGB} {j : Nat} (hj : j < n) :
    (r, c + j, CellContent.text g fg bg) ∈ fillWrites (.glyph g) r c n fg bg := by
  have := writesOf_covers (r := r) (c := c) (vs := List.replicate n (CellContent.text g fg bg)) (j := j)
    (by simpa using hj)
  simpa [fillWrites] using this

/-! ## the cell-level contract (a refinement of `LineOK` / `render_block` of TIV.Common.WB)

`LineOK` records which *whole rows* of the block a line covers. A padded line covers only parts
of rows (the inner render may draw all its rows from one line — iterm2 WHOLE — while the side
paddings are written row by row), so coverage is tracked per cell here: `C di dj` = the line
writes cell `(di, dj)` of the block. `Q` is a property of every write the line makes when the
text attributes were default when the line started. -/

structure LineEffectC (t t' : Term) (r0 x w h : Nat) (Q : Write → Prop) (C : Nat → Nat → Prop) : Prop where
  frame : Frame t t'
  row : t'.row = t.row
  col : t'.col = min (x + w) (t.W - 1)
  pw : t'.pw = true → x + w = t.W
  sgr : sgrOK .keepsDefault t t'
  log : ∃ new, t'.log = new ++ t.log ∧ (∀ wr ∈ new, InRect r0 x w h wr) ∧
        ((t.fg = none ∧ t.bg = none) → ∀ wr ∈ new, Q wr) ∧
        ∀ di dj, C di dj → ∃ v, (r0 + di, x + dj, v) ∈ new

def LineOKC (K : TermKind → Prop) (w h i : Nat) (Q : Nat → Nat → Write → Prop) (C : Nat → Nat → Prop)
    (l : List Tok) : Prop :=
  ∀ (t : Term) (r0 x : Nat), K t.kind → Ready t r0 x w h i → LineEffectC t (t.run l) r0 x w h (Q r0 x) C

/-- the cell-level contract implies the row-level one -/
theorem LineOKC.toLineOK {K : TermKind → Prop} {w h i : Nat} {Q : Nat → Nat → Write → Prop}
    {C : Nat → Nat → Prop} {l : List Tok} (h0 : LineOKC K w h i Q C l) :
    LineOK K w h i .keepsDefault (fun di => ∀ dj, dj < w → C di dj) l := by
  intro t r0 x hK hR
  have e := h0 t r0 x hK hR
  obtain ⟨new, h1, h2, _, h4⟩ := e.log
  exact ⟨e.frame, e.row, e.col, e.pw, e.sgr, new, h1, h2, fun di hdi j hj => h4 di j (hdi j hj)⟩

/-- what the whole render does, cell level -/
structure BlockEffectC (t t' : Term) (r0 x w h : Nat) (Q : Write → Prop) (C : Nat → Nat → Prop) : Prop where
  frame : Frame t t'
  row : t'.row = r0 + h - 1
  col : t'.col = min (x + w) (t.W - 1)
  sgr : sgrOK .keepsDefault t t'
  log : ∃ new, t'.log = new ++ t.log ∧ (∀ wr ∈ new, InRect r0 x w h wr) ∧
        ((t.fg = none ∧ t.bg = none) → ∀ wr ∈ new, Q wr) ∧
        ∀ di dj, C di dj → ∃ v, (r0 + di, x + dj, v) ∈ new

theorem render_fromC (K : TermKind → Prop) (w h : Nat) (Q : Nat → Nat → Write → Prop) (C : Nat → Nat → Nat → Prop) :
    ∀ (ls : List (List Tok)) (i : Nat), ls ≠ [] → i + ls.length = h →
      (∀ j (hj : j < ls.length), LineOKC K w h (i + j) Q (C (i + j)) ls[j]) →
      ∀ (t : Term) (r0 x : Nat), K t.kind → t.lm = x → Ready t r0 x w h i →
        BlockEffectC t (t.run (joinLines ls)) r0 x w h (Q r0 x) (fun di dj => ∃ k, i ≤ k ∧ k < h ∧ C k di dj) := by
  intro ls
  induction ls with
  | nil => intro i h; exact absurd rfl h
  | cons l rest ih =>
    intro i _ hlen hOK t r0 x hK hlm hR
    have h0 := hOK 0 (by simp) t r0 x hK hR
    simp only [Nat.add_zero, List.getElem_cons_zero] at h0
    cases rest with
    | nil =>
      simp only [joinLines]
      simp at hlen
      obtain ⟨new, hnew, hin, hq, hcov⟩ := h0.log
      refine ⟨h0.frame, by rw [h0.row, hR.row]; omega, h0.col, h0.sgr, new, hnew, hin, hq, ?_⟩
      intro di dj ⟨k, hk1, hk2, hC⟩
      have : k = i := by omega
      subst this; exact hcov di dj hC
    | cons l2 rest2 =>
      simp only [joinLines]
      rw [Term.run_append, Term.run_cons]
      have hlen' : i + 1 + (l2 :: rest2).length = h := by simp at hlen ⊢; omega
      generalize t.run l = t1 at h0 ⊢
      have hfr := h0.frame
      have hi1 : i + 1 < h := by simp at hlen; omega
      have hlf := lineFeed_ready (t := t1) (r0 := r0) (x := x) (w := w) (h := h) (i := i)
        (by rw [hfr.lm]; exact hlm) (by rw [h0.row]; exact hR.row) (by rw [hfr.W]; exact hR.fitW) hR.hw
        (by rw [hfr.top]; exact hR.visTop) (by rw [hfr.top, hfr.H]; exact hR.visBot) hi1
      obtain ⟨hR2, hfr2, hlog2, hfg2, hbg2⟩ := hlf
      have step_eq : Term.step t1 Tok.lf = t1.lineFeed := rfl
      rw [step_eq]
      have hOK' : ∀ j (hj : j < (l2 :: rest2).length),
          LineOKC K w h (i + 1 + j) Q (C (i + 1 + j)) (l2 :: rest2)[j] := by
        intro j hj
        have := hOK (j + 1) (by simp at hj ⊢; omega)
        simpa [Nat.add_assoc, Nat.add_comm 1 j] using this
      have hK2 : K t1.lineFeed.kind := by rw [hfr2.kind, hfr.kind]; exact hK
      have hlm2 : t1.lineFeed.lm = x := by rw [hfr2.lm, hfr.lm]; exact hlm
      have e3 := ih (i + 1) (by simp) hlen' hOK' t1.lineFeed r0 x hK2 hlm2 hR2
      obtain ⟨new3, hnew3, hin3, hq3, hcov3⟩ := e3.log
      obtain ⟨new1, hnew1, hin1, hq1, hcov1⟩ := h0.log
      have hdef1 : (t.fg = none ∧ t.bg = none) → (t1.lineFeed.fg = none ∧ t1.lineFeed.bg = none) := by
        intro hd; rw [hfg2, hbg2]; exact h0.sgr hd
      refine ⟨(hfr.trans hfr2).trans e3.frame, e3.row, ?_, ?_, new3 ++ new1, ?_, ?_, ?_, ?_⟩
      · rw [e3.col, hfr2.W, hfr.W]
      · intro hd; exact e3.sgr (hdef1 hd)
      · rw [hnew3, hlog2, hnew1, List.append_assoc]
      · intro wr hwr
        rcases List.mem_append.mp hwr with h | h
        · exact hin3 wr h
        · exact hin1 wr h
      · intro hd wr hwr
        rcases List.mem_append.mp hwr with h | h
        · exact hq3 (hdef1 hd) wr h
        · exact hq1 hd wr h
      · intro di dj ⟨k, hk1, hk2, hC⟩
        by_cases hki : k = i
        · subst hki
          obtain ⟨v, hv⟩ := hcov1 di dj hC
          exact ⟨v, List.mem_append.mpr (Or.inr hv)⟩
        · obtain ⟨v, hv⟩ := hcov3 di dj ⟨k, by omega, hk2, hC⟩
          exact ⟨v, List.mem_append.mpr (Or.inl hv)⟩

/-- composition at the cell level -/
theorem render_blockC (K : TermKind → Prop) (w h : Nat) (Q : Nat → Nat → Write → Prop) (C : Nat → Nat → Nat → Prop)
    (ls : List (List Tok)) (hlen : ls.length = h) (hh : 0 < h)
    (hOK : ∀ j (hj : j < ls.length), LineOKC K w h j Q (C j) ls[j])
    (t : Term) (r0 x : Nat) (hK : K t.kind) (hlm : t.lm = x) (hR : Ready t r0 x w h 0) :
    BlockEffectC t (t.run (joinLines ls)) r0 x w h (Q r0 x) (fun di dj => ∃ k, k < h ∧ C k di dj) := by
  have hne : ls ≠ [] := by intro h0; subst h0; simp at hlen; omega
  have e := render_fromC K w h Q C ls 0 hne (by omega) (by simpa using hOK) t r0 x hK hlm hR
  obtain ⟨new, h1, h2, h3, h4⟩ := e.log
  exact ⟨e.frame, e.row, e.col, e.sgr, new, h1, h2, h3, fun di dj ⟨k, hk, hC⟩ => h4 di dj ⟨k, by omega, hk, hC⟩⟩

/-! ## the lines of a padded render -/

/-- a write of a padded render lands inside the inner rectangle, or is a fill glyph with default attributes -/
def PadWrite (f : Fill) (l tp w h : Nat) (r0 x : Nat) (wr : Write) : Prop :=
  InRect (r0 + tp) (x + l) w h wr ∨ ∃ g, f = .glyph g ∧ wr.2.2 = .text g none none

/-- cells written by a fill line (line `i'` of the box): its whole row, unless the fill is empty -/
def fillCover (f : Fill) (wtot i' : Nat) (di dj : Nat) : Prop := f ≠ .empty ∧ di = i' ∧ dj < wtot

/-- cells written by the padded line carrying line `i` of the inner render: the side paddings of
    its own row, and the inner cells of the rows the inner line covers -/
def contentCover (f : Fill) (l tp r w : Nat) (S : Nat → Prop) (i : Nat) (di dj : Nat) : Prop :=
  (f ≠ .empty ∧ di = tp + i ∧ (dj < l ∨ (l + w ≤ dj ∧ dj < l + w + r))) ∨
  (tp ≤ di ∧ S (di - tp) ∧ l ≤ dj ∧ dj < l + w)

theorem fillLine_okC (K : TermKind → Prop) (f : Fill) (l tp w h wtot htot i' : Nat) (hi : i' < htot) :
    LineOKC K wtot htot i' (PadWrite f l tp w h) (fillCover f wtot i') (fillSeg f wtot) := by
  intro t r0 x _ hR
  have hrow := hR.row; have hcol := hR.col; have hfit := hR.fitW; have hw := hR.hw
  have e := fillSeg_effect f wtot t (fun _ => hR.pw) (by omega) (by omega)
  refine ⟨e.frame, e.row, by rw [e.col, hcol], ?_, ?_, fillWrites f t.row t.col wtot t.fg t.bg, e.log, ?_, ?_, ?_⟩
  · intro h; rcases e.pw h with h1 | h1 <;> omega
  · intro hd; rw [e.fg, e.bg]; exact hd
  · intro wr hwr
    have := mem_fillWrites hwr
    unfold InRect; omega
  · intro hd wr hwr
    obtain ⟨_, _, _, g, hg, hv⟩ := mem_fillWrites hwr
    rw [hd.1, hd.2] at hv
    exact Or.inr ⟨g, hg, hv⟩
  · intro di dj ⟨hne, hdi, hdj⟩
    cases f with
    | empty => exact absurd rfl hne
    | glyph g =>
      refine ⟨CellContent.text g t.fg t.bg, ?_⟩
      have := fillWrites_covers (g := g) (r := t.row) (c := t.col) (n := wtot) (fg := t.fg) (bg := t.bg) hdj
      rw [hrow, hcol, ← hdi] at this ⊢
      exact this

theorem padLine_okC (K : TermKind → Prop) (f : Fill) (l tp r b w h i : Nat) (m : SgrMode) (S : Nat → Prop)
    (ln : List Tok) (hi : i < h) (hw : 0 < w) (hOK : LineOK K w h i m S ln) :
    LineOKC K (l + w + r) (tp + h + b) (tp + i) (PadWrite f l tp w h) (contentCover f l tp r w S i)
      (fillSeg f l ++ ln ++ fillSeg f r) := by
  intro t r0 x hK hR
  have hrow := hR.row; have hcol := hR.col; have hfit := hR.fitW
  have hvt := hR.visTop; have hvb := hR.visBot
  rw [Term.run_append, Term.run_append]
  have e1 := fillSeg_effect f l t (fun _ => hR.pw) (by omega) (by omega)
  generalize t.run (fillSeg f l) = t1 at e1 ⊢
  have hW1 := e1.frame.W
  have hc1 : t1.col = x + l := by rw [e1.col]; omega
  have hpw1 : t1.pw = false := by
    cases hp : t1.pw with
    | false => rfl
    | true => rcases e1.pw hp with h1 | h1
              · omega
              · rw [hR.pw] at h1; cases h1.2
  have hR1 : Ready t1 (r0 + tp) (x + l) w h i :=
    ⟨by rw [e1.row]; omega, hc1, hpw1, by rw [hW1]; omega, by rw [e1.frame.top]; omega,
     by rw [e1.frame.top, e1.frame.H]; omega, hi, hw⟩
  have e2 := hOK t1 (r0 + tp) (x + l) (by rw [e1.frame.kind]; exact hK) hR1
  generalize t1.run ln = t2 at e2 ⊢
  have hW2 := e2.frame.W
  have hc2 := e2.col
  have hpw2 := e2.pw
  have e3 := fillSeg_effect f r t2
    (by intro hr
        cases hp : t2.pw with
        | false => rfl
        | true => have := hpw2 hp; omega)
    (by rw [hc2]; omega) (by rw [hc2]; omega)
  generalize t2.run (fillSeg f r) = t3 at e3 ⊢
  obtain ⟨new2, hnew2, hin2, hcov2⟩ := e2.log
  refine ⟨e1.frame.trans (e2.frame.trans e3.frame), by rw [e3.row, e2.row, e1.row],
    by rw [e3.col, hc2]; omega, ?_, ?_,
    fillWrites f t2.row t2.col r t2.fg t2.bg ++ new2 ++ fillWrites f t.row t.col l t.fg t.bg, ?_, ?_, ?_, ?_⟩
  · intro h
    rcases e3.pw h with h1 | h1
    · omega
    · have := hpw2 h1.2; omega
  · intro hd
    have h1 : t1.fg = none ∧ t1.bg = none := by rw [e1.fg, e1.bg]; exact hd
    have h2 : t2.fg = none ∧ t2.bg = none := sgrOK_weaken e2.sgr h1
    rw [e3.fg, e3.bg]; exact h2
  · rw [e3.log, hnew2, e1.log]; simp [List.append_assoc]
  · intro wr hwr
    rcases List.mem_append.mp hwr with h1 | h1
    · rcases List.mem_append.mp h1 with h2 | h2
      · have := mem_fillWrites h2
        have hr2 := e2.row; have hr1 := e1.row
        unfold InRect; omega
      · have := hin2 wr h2
        unfold InRect at this ⊢; omega
    · have := mem_fillWrites h1
      unfold InRect; omega
  · intro hd wr hwr
    have hd1 : t1.fg = none ∧ t1.bg = none := by rw [e1.fg, e1.bg]; exact hd
    have hd2 : t2.fg = none ∧ t2.bg = none := sgrOK_weaken e2.sgr hd1
    rcases List.mem_append.mp hwr with h1 | h1
    · rcases List.mem_append.mp h1 with h2 | h2
      · obtain ⟨_, _, _, g, hg, hv⟩ := mem_fillWrites h2
        rw [hd2.1, hd2.2] at hv
        exact Or.inr ⟨g, hg, hv⟩
      · exact Or.inl (hin2 wr h2)
    · obtain ⟨_, _, _, g, hg, hv⟩ := mem_fillWrites h1
      rw [hd.1, hd.2] at hv
      exact Or.inr ⟨g, hg, hv⟩
  · intro di dj hC
    rcases hC with ⟨hne, hdi, hdj⟩ | ⟨hdi, hS, hdj1, hdj2⟩
    · cases f with
      | empty => exact absurd rfl hne
      | glyph g =>
        rcases hdj with hdj | ⟨hdj1, hdj2⟩
        · refine ⟨CellContent.text g t.fg t.bg, List.mem_append.mpr (Or.inr ?_)⟩
          have := fillWrites_covers (g := g) (r := t.row) (c := t.col) (n := l) (fg := t.fg) (bg := t.bg) hdj
          rw [hrow, hcol, ← hdi] at this ⊢
          exact this
        · refine ⟨CellContent.text g t2.fg t2.bg, List.mem_append.mpr (Or.inl (List.mem_append.mpr (Or.inl ?_)))⟩
          have := fillWrites_covers (g := g) (r := t2.row) (c := t2.col) (n := r) (fg := t2.fg) (bg := t2.bg)
            (j := dj - (l + w)) (by omega)
          have e1' : t2.row = r0 + di := by rw [e2.row, e1.row]; omega
          have e2' : t2.col + (dj - (l + w)) = x + dj := by rw [hc2]; omega
          rw [e1', e2'] at this
          rw [e1']
          exact this
    · obtain ⟨v, hv⟩ := hcov2 (di - tp) hS (dj - l) (by omega)
      have e1' : r0 + tp + (di - tp) = r0 + di := by omega
      have e2' : x + l + (dj - l) = x + dj := by omega
      rw [e1', e2'] at hv
      exact ⟨v, List.mem_append.mpr (Or.inl (List.mem_append.mpr (Or.inr hv)))⟩

theorem LineOKC.weakenC {K : TermKind → Prop} {w h i : Nat} {Q : Nat → Nat → Write → Prop}
    {C C' : Nat → Nat → Prop} (hC : ∀ di dj, C' di dj → C di dj) {l : List Tok} (h0 : LineOKC K w h i Q C l) :
    LineOKC K w h i Q C' l := by
  intro t r0 x hK hR
  have e := h0 t r0 x hK hR
  obtain ⟨new, h1, h2, h3, h4⟩ := e.log
  exact ⟨e.frame, e.row, e.col, e.pw, e.sgr, new, h1, h2, h3, fun di dj hd => h4 di dj (hC di dj hd)⟩

theorem padLines_length (f : Fill) (l t r b rw : Nat) (lines : List (List Tok)) :
    (padLines f l t r b rw lines).length = t + lines.length + b := by
  simp [padLines]; omega

theorem padLines_get_top (f : Fill) (l t r b rw : Nat) (lines : List (List Tok)) (j : Nat) (hj : j < t) :
    (padLines f l t r b rw lines)[j]? = some (fillSeg f (l + rw + r)) := by
  simp [padLines, List.getElem?_append, hj]

theorem padLines_get_mid (f : Fill) (l t r b rw : Nat) (lines : List (List Tok)) (i : Nat) (hi : i < lines.length) :
    (padLines f l t r b rw lines)[t + i]? = some (fillSeg f l ++ lines[i] ++ fillSeg f r) := by
  simp [padLines, List.getElem?_append, hi]

theorem padLines_get_bot (f : Fill) (l t r b rw : Nat) (lines : List (List Tok)) (j : Nat) (hj : j < b) :
    (padLines f l t r b rw lines)[t + lines.length + j]? = some (fillSeg f (l + rw + r)) := by
  have h1 : ¬ (t + lines.length + j < t) := by omega
  have h2 : ¬ (t + lines.length + j - t < lines.length) := by omega
  have h3 : t + lines.length + j - t - lines.length = j := by omega
  simp [padLines, List.getElem?_append, h1, h2, h3, hj]

/-- which cells line `i'` of the padded render writes -/
def padCover (f : Fill) (l tp r w h : Nat) (S : Nat → Nat → Prop) (i' di dj : Nat) : Prop :=
  (tp ≤ i' ∧ i' < tp + h ∧ contentCover f l tp r w (S (i' - tp)) (i' - tp) di dj) ∨
  ((i' < tp ∨ tp + h ≤ i') ∧ fillCover f (l + w + r) i' di dj)

/-- every line of a padded render meets the cell-level contract of the padded box -/
theorem padLines_okC (K : TermKind → Prop) (f : Fill) (l tp r b w h : Nat) (m : SgrMode) (S : Nat → Nat → Prop)
    (lines : List (List Tok)) (hlen : lines.length = h) (hw : 0 < w)
    (hOK : ∀ i (hi : i < lines.length), LineOK K w h i m (S i) lines[i]) :
    ∀ j (hj : j < (padLines f l tp r b w lines).length),
      LineOKC K (l + w + r) (tp + h + b) j (PadWrite f l tp w h) (padCover f l tp r w h S j)
        (padLines f l tp r b w lines)[j] := by
  intro j hj
  have hjl : j < tp + h + b := by rw [padLines_length, hlen] at hj; exact hj
  by_cases h1 : j < tp
  · have hget : (padLines f l tp r b w lines)[j] = fillSeg f (l + w + r) := by
      have := padLines_get_top f l tp r b w lines j h1
      exact (List.getElem?_eq_some_iff.mp this).2
    rw [hget]
    apply LineOKC.weakenC _ (fillLine_okC K f l tp w h (l + w + r) (tp + h + b) j hjl)
    intro di dj hC
    rcases hC with ⟨h2, _, _⟩ | ⟨_, h3⟩
    · omega
    · exact h3
  · by_cases h2 : j < tp + h
    · have hi : j - tp < lines.length := by omega
      have hget : (padLines f l tp r b w lines)[j] = fillSeg f l ++ lines[j - tp] ++ fillSeg f r := by
        have := padLines_get_mid f l tp r b w lines (j - tp) hi
        have e : tp + (j - tp) = j := by omega
        rw [e] at this
        exact (List.getElem?_eq_some_iff.mp this).2
      rw [hget]
      have := padLine_okC K f l tp r b w h (j - tp) m (S (j - tp)) lines[j - tp] (by omega) hw (hOK (j - tp) hi)
      have e : tp + (j - tp) = j := by omega
      rw [e] at this
      apply LineOKC.weakenC _ this
      intro di dj hC
      rcases hC with ⟨_, _, h3⟩ | ⟨h3, _⟩
      · exact h3
      · omega
    · have hget : (padLines f l tp r b w lines)[j] = fillSeg f (l + w + r) := by
        have := padLines_get_bot f l tp r b w lines (j - (tp + h)) (by omega)
        have e : tp + lines.length + (j - (tp + h)) = j := by omega
        rw [e] at this
        exact (List.getElem?_eq_some_iff.mp this).2
      rw [hget]
      apply LineOKC.weakenC _ (fillLine_okC K f l tp w h (l + w + r) (tp + h + b) j hjl)
      intro di dj hC
      rcases hC with ⟨_, h3, _⟩ | ⟨_, h3⟩
      · omega
      · exact h3

/-! ## reading cells back -/

theorem cellAt_new {t t' : Term} {new : List Write} (hlog : t'.log = new ++ t.log) {r c : Nat} {v0 : CellContent}
    (hex : ∃ v, (r, c, v) ∈ new) (hall : ∀ wr ∈ new, wr.1 = r → wr.2.1 = c → wr.2.2 = v0) :
    t'.cellAt r c = some v0 := by
  unfold cellAt
  rw [hlog, List.find?_append]
  cases hf : new.find? (fun w => w.1 == r && w.2.1 == c) with
  | none =>
    obtain ⟨v, hv⟩ := hex
    have := List.find?_eq_none.mp hf (r, c, v) hv
    simp at this
  | some wr =>
    have hp := List.find?_some hf
    have hm := List.mem_of_find?_eq_some hf
    simp only [Bool.and_eq_true, beq_iff_eq] at hp
    simp [hall wr hm hp.1 hp.2]

theorem cellAt_untouched {t t' : Term} {new : List Write} (hlog : t'.log = new ++ t.log) {r c : Nat}
    (hnone : ∀ wr ∈ new, ¬ (wr.1 = r ∧ wr.2.1 = c)) :
    t'.cellAt r c = t.cellAt r c ∧ t'.touched r c = t.touched r c := by
  have hf : new.find? (fun w => w.1 == r && w.2.1 == c) = none := by
    apply List.find?_eq_none.mpr
    intro wr hwr
    have := hnone wr hwr
    simpa using this
  have ha : new.any (fun w => w.1 == r && w.2.1 == c) = false := by
    apply List.any_eq_false.mpr
    intro wr hwr
    have := hnone wr hwr
    simpa using this
  unfold cellAt touched
  rw [hlog, List.find?_append, hf, List.any_append, ha]
  simp

/-! ## arithmetic of `AlignedPadding._get_exact_dimensions_` -/

theorem alignedAxis_spec (m : Int) (rd idx : Nat) (hidx : idx < 3) :
    ∃ a b, alignedAxis m rd idx = .ok (a, b) ∧ a + b = (max m rd).toNat - rd ∧
      (∃ n d, Generated.alignRatios[idx]? = some (n, d) ∧ a = ((max m rd).toNat - rd) * n / d) ∧
      (m ≤ rd → a = 0 ∧ b = 0) ∧ (idx = 0 → a = 0) ∧ (idx = 2 → b = 0) ∧
      (idx = 1 → a = ((max m rd).toNat - rd) / 2 ∧ a ≤ b ∧ b ≤ a + 1) := by
  have h3 : idx = 0 ∨ idx = 1 ∨ idx = 2 := by omega
  by_cases hm : m > rd
  · have hmax : (max m (rd : Int)).toNat - rd = (m - rd).toNat := by omega
    rcases h3 with h | h | h <;> subst h
    · refine ⟨0, (m - rd).toNat, ?_, by omega, ⟨0, 1, by simp [Generated.alignRatios], by simp⟩, by omega, by simp, by simp, by simp⟩
      simp [alignedAxis, hm, Generated.alignRatios]
    · refine ⟨(m - rd).toNat / 2, (m - rd).toNat - (m - rd).toNat / 2, ?_, by omega,
        ⟨1, 2, by simp [Generated.alignRatios], by rw [hmax]; simp⟩, by omega, by simp, by simp, by intro _; omega⟩
      simp [alignedAxis, hm, Generated.alignRatios]
    · refine ⟨(m - rd).toNat, 0, ?_, by omega, ⟨1, 1, by simp [Generated.alignRatios], by rw [hmax]; simp⟩,
        by omega, by simp, by simp, by simp⟩
      simp [alignedAxis, hm, Generated.alignRatios]
  · have hmax : (max m (rd : Int)).toNat - rd = 0 := by omega
    refine ⟨0, 0, by simp [alignedAxis, hm], by omega, ?_, by simp, by simp, by simp, by intro _; omega⟩
    rcases h3 with h | h | h <;> subst h
    · exact ⟨0, 1, by simp [Generated.alignRatios], by simp⟩
    · exact ⟨1, 2, by simp [Generated.alignRatios], by rw [hmax]⟩
    · exact ⟨1, 1, by simp [Generated.alignRatios], by rw [hmax]⟩

theorem HAlign.idx_lt (a : HAlign) : a.idx < 3 := by cases a <;> simp [HAlign.idx]
theorem VAlign.idx_lt (a : VAlign) : a.idx < 3 := by cases a <;> simp [VAlign.idx]

theorem relative_false_iff (a : Aligned) : a.relative = false ↔ (a.width > 0 ∧ a.height > 0) := by
  simp [Aligned.relative]

theorem relative_true_iff (a : Aligned) : a.relative = true ↔ (a.width ≤ 0 ∨ a.height ≤ 0) := by
  simp [Aligned.relative]

theorem alignedDims_rel (a : Aligned) (rw rh : Nat) (h : a.relative = true) :
    alignedDims a rw rh = .error .RelativePaddingDimensionError := by
  simp [alignedDims, h]

theorem alignedDims_abs (a : Aligned) (rw rh : Nat) (h : a.relative = false) :
    ∃ l r t b, alignedAxis a.width rw a.hAlign.idx = .ok (l, r) ∧ alignedAxis a.height rh a.vAlign.idx = .ok (t, b) ∧
      alignedDims a rw rh = .ok (l, t, r, b) := by
  obtain ⟨l, r, h1, _⟩ := alignedAxis_spec a.width rw a.hAlign.idx a.hAlign.idx_lt
  obtain ⟨t, b, h2, _⟩ := alignedAxis_spec a.height rh a.vAlign.idx a.vAlign.idx_lt
  refine ⟨l, r, t, b, h1, h2, ?_⟩
  simp only [alignedDims, h, Bool.false_eq_true, if_false, h1, h2]
  rfl

theorem mkExact_nat (l t r b : Nat) (f : Fill) : mkExact l t r b f = .ok ⟨l, t, r, b, f⟩ := by
  have h1 : ¬ ((l : Int) < 0) := by omega
  have h2 : ¬ ((t : Int) < 0) := by omega
  have h3 : ¬ ((r : Int) < 0) := by omega
  have h4 : ¬ ((b : Int) < 0) := by omega
  simp [mkExact, h1, h2, h3, h4]

theorem padToks_zero (f : Fill) (rw : Nat) (render : List Tok) : padToks f 0 0 0 0 rw render = render := by
  simp [padToks]

/-- the padded line carrying line `i` of the inner render: after the left padding the terminal is
    `Ready` for line `i` of the inner block anchored at the offset `(tp, l)`, with the same pen,
    and differs from the start state only by the fill writes -/
theorem padLine_inner (K : TermKind → Prop) (f : Fill) (l tp r b w h i : Nat) (m : SgrMode) (S : Nat → Prop)
    (ln : List Tok) (hi : i < h) (hw : 0 < w) (hOK : LineOK K w h i m S ln)
    (t : Term) (r0 x : Nat) (hK : K t.kind) (hR : Ready t r0 x (l + w + r) (tp + h + b) (tp + i)) :
    let t1 := t.run (fillSeg f l)
    Ready t1 (r0 + tp) (x + l) w h i ∧ Frame t t1 ∧ t1.fg = t.fg ∧ t1.bg = t.bg ∧ t1.imgs = t.imgs ∧
      t1.log = fillWrites f t.row t.col l t.fg t.bg ++ t.log ∧
      LineEffect t1 (t1.run ln) (r0 + tp) (x + l) w h m S ∧
      t.run (fillSeg f l ++ ln ++ fillSeg f r) = ((t1.run ln).run (fillSeg f r)) := by
  intro t1
  have hrow := hR.row; have hcol := hR.col; have hfit := hR.fitW
  have hvt := hR.visTop; have hvb := hR.visBot
  have e1 := fillSeg_effect f l t (fun _ => hR.pw) (by omega) (by omega)
  have hW1 := e1.frame.W
  have hc1 : t1.col = x + l := by show (t.run (fillSeg f l)).col = _; rw [e1.col]; omega
  have hpw1 : t1.pw = false := by
    cases hp : t1.pw with
    | false => rfl
    | true => rcases e1.pw hp with h1 | h1
              · omega
              · rw [hR.pw] at h1; cases h1.2
  have hR1 : Ready t1 (r0 + tp) (x + l) w h i :=
    ⟨by show (t.run (fillSeg f l)).row = _; rw [e1.row]; omega, hc1, hpw1,
     by show x + l + w ≤ (t.run (fillSeg f l)).W; rw [hW1]; omega,
     by show (t.run (fillSeg f l)).top ≤ _; rw [e1.frame.top]; omega,
     by show _ ≤ (t.run (fillSeg f l)).top + (t.run (fillSeg f l)).H; rw [e1.frame.top, e1.frame.H]; omega, hi, hw⟩
  refine ⟨hR1, e1.frame, e1.fg, e1.bg, e1.imgs, e1.log, ?_, ?_⟩
  · exact hOK t1 (r0 + tp) (x + l) (by show K (t.run (fillSeg f l)).kind; rw [e1.frame.kind]; exact hK) hR1
  · rw [Term.run_append, Term.run_append]

/-! ## the old API's `_format_render` is `pad` with an aligned padding -/

theorem glyphs_length (g : Glyph) (n : Nat) : (glyphs g n).length = n := by simp [glyphs]

/-- the margins `_format_render` computes inline -/
def fmtDims (ha va : Option String) (width height cols lines : Nat) : Dims :=
  let (l, r) :=
    if width > cols then
      if ha = some "<" then (0, width - cols)
      else if ha = some ">" then (width - cols, 0)
      else ((width - cols) / 2, width - cols - (width - cols) / 2)
    else (0, 0)
  let (t, b) :=
    if height > lines then
      if va = some "^" then (0, height - lines)
      else if va = some "_" then (height - lines, 0)
      else ((height - lines) / 2, height - lines - (height - lines) / 2)
    else (0, 0)
  (l, t, r, b)

/-- `padToks` with the width of the fill lines as a parameter -/
def padToksW (f : Fill) (left top right bottom : Nat) (width : Nat) (render : List Tok) : List Tok :=
  let horizontal := left ≠ 0 ∨ right ≠ 0
  let vertical := top ≠ 0 ∨ bottom ≠ 0
  let leftPadding := fillSeg f left
  let rightPadding := fillSeg f right
  let topPadding := if top ≠ 0 then (List.replicate top (fillSeg f width ++ [Tok.lf])).flatten else []
  let bottomPadding := if bottom ≠ 0 then (List.replicate bottom (Tok.lf :: fillSeg f width)).flatten else []
  if horizontal ∨ vertical then
    topPadding ++ leftPadding ++
      (if horizontal then replaceLf (rightPadding ++ [Tok.lf] ++ leftPadding) render else render) ++
      rightPadding ++ bottomPadding
  else render

theorem padToks_eq_W (f : Fill) (l t r b rw : Nat) (render : List Tok) :
    padToks f l t r b rw render = padToksW f l t r b (l + rw + r) render := rfl

theorem formatRender_eq_W (ha va : Option String) (width height cols lines : Nat) (render : List Tok) :
    formatRender ha width va height cols lines render =
      padToksW (.glyph .blank) (fmtDims ha va width height cols lines).1 (fmtDims ha va width height cols lines).2.1
        (fmtDims ha va width height cols lines).2.2.1 (fmtDims ha va width height cols lines).2.2.2
        (max width cols) render := by
  unfold formatRender padToksW fmtDims
  simp only [fillSeg, glyphs_length]
  by_cases hW : width > cols <;> by_cases hH : height > lines <;>
    by_cases a1 : ha = some "<" <;> by_cases a2 : ha = some ">" <;>
    by_cases b1 : va = some "^" <;> by_cases b2 : va = some "_" <;>
    simp [hW, hH, a1, a2, b1, b2, glyphs]
  all_goals (repeat' split)
  all_goals (first | rfl | omega | (have q : (height - lines) / 2 = 0 := (by omega); have q' : (width - cols) / 2 = 0 := (by omega); simp [q, q']) | (have q : (height - lines) / 2 = 0 := (by omega); simp [q]) | (have q' : (width - cols) / 2 = 0 := (by omega); simp [q']) | skip)


theorem alignedAxis_val (m rd idx : Nat) (hidx : idx < 3) :
    alignedAxis (m : Int) rd idx = .ok
      (if idx = 0 then (0, max m rd - rd) else if idx = 2 then (max m rd - rd, 0)
       else ((max m rd - rd) / 2, max m rd - rd - (max m rd - rd) / 2)) := by
  obtain ⟨a, b, h, hsum, _, _, h0, h2, h1⟩ := alignedAxis_spec (m : Int) rd idx hidx
  rw [h]
  have hmax : (max (m : Int) (rd : Int)).toNat = max m rd := by omega
  rw [hmax] at hsum h1
  have h3 : idx = 0 ∨ idx = 1 ∨ idx = 2 := by omega
  rcases h3 with e | e | e <;> subst e
  · have := h0 rfl; simp; omega
  · have := h1 rfl; simp; omega
  · have := h2 rfl; simp; omega

theorem fmtDims_eq (ha va : Option String) (width height cols lines : Nat) (f : Fill) (hw : 0 < width) (hh : 0 < height) :
    alignedDims ⟨width, height, hAlignOf ha, vAlignOf va, f⟩ cols lines = .ok (fmtDims ha va width height cols lines) := by
  have hrel : (⟨width, height, hAlignOf ha, vAlignOf va, f⟩ : Aligned).relative = false := by
    rw [relative_false_iff]; constructor <;> (simp only; omega)
  simp only [alignedDims, hrel, Bool.false_eq_true, if_false]
  rw [alignedAxis_val _ _ _ (HAlign.idx_lt _), alignedAxis_val _ _ _ (VAlign.idx_lt _)]
  unfold fmtDims hAlignOf vAlignOf
  by_cases hW : width > cols <;> by_cases hH : height > lines <;>
    by_cases a1 : ha = some "<" <;> by_cases a2 : ha = some ">" <;>
    by_cases b1 : va = some "^" <;> by_cases b2 : va = some "_" <;>
    simp [hW, hH, a1, a2, b1, b2, HAlign.idx, VAlign.idx, bind, Except.bind, pure, Except.pure]
  all_goals (first | omega | (constructor <;> omega) | (refine ⟨?_, ?_, ?_, ?_⟩ <;> omega) | skip)

/-! ## `ImageIterator`: the cache never serves a frame formatted for another size -/

/-- every cache entry is a frame formatted, at an earlier `next()` of the same frame number, with
    the size the image had then -/
def CacheInv (f : Fmt) (nFrames : Nat) (all : List IterStep) (k : Nat) (cache : Cache) : Prop :=
  ∀ n fr sz, cache[n]? = some (some (fr, sz)) →
    ∃ j sj, j < k ∧ j % nFrames = n ∧ all[j]? = some sj ∧ (sj.cols, sj.lines) = sz ∧ fr = f.frame sj

theorem CacheInv.mono {f : Fmt} {nFrames : Nat} {all : List IterStep} {k : Nat} {cache : Cache}
    (h : CacheInv f nFrames all k cache) : CacheInv f nFrames all (k + 1) cache := by
  intro n fr sz hc
  obtain ⟨j, sj, h1, h2⟩ := h n fr sz hc
  exact ⟨j, sj, by omega, h2⟩

theorem CacheInv.set {f : Fmt} {nFrames : Nat} {all : List IterStep} {k : Nat} {cache : Cache} {s : IterStep}
    (h : CacheInv f nFrames all k cache) (hs : all[k]? = some s) :
    CacheInv f nFrames all (k + 1) (cache.set (k % nFrames) (some (f.frame s, (s.cols, s.lines)))) := by
  intro n fr sz hc
  rw [List.getElem?_set] at hc
  by_cases hn : k % nFrames = n
  · simp only [hn, if_true] at hc
    split at hc
    · injection hc with hc; injection hc with hc
      simp only [Prod.mk.injEq] at hc
      exact ⟨k, s, by omega, hn, hs, hc.2, hc.1.symm⟩
    · cases hc
  · simp only [hn, if_false] at hc
    exact h.mono n fr sz hc

theorem iterNext_spec (f : Fmt) (cached : Bool) (nFrames : Nat) (all : List IterStep) (k : Nat) (cache : Cache)
    (s : IterStep) (hinv : CacheInv f nFrames all k cache) (hs : all[k]? = some s) :
    CacheInv f nFrames all (k + 1) (iterNext f cached nFrames k cache s).1 ∧
    ∃ j sj, j ≤ k ∧ j % nFrames = k % nFrames ∧ all[j]? = some sj ∧ (sj.cols, sj.lines) = (s.cols, s.lines) ∧
      (iterNext f cached nFrames k cache s).2 = f.frame sj := by
  have fresh : ∃ j sj, j ≤ k ∧ j % nFrames = k % nFrames ∧ all[j]? = some sj ∧ (sj.cols, sj.lines) = (s.cols, s.lines) ∧
      f.frame s = f.frame sj := ⟨k, s, Nat.le_refl _, rfl, hs, rfl, rfl⟩
  unfold iterNext
  simp only
  split
  · split
    · rename_i frame size hc
      split
      · exact ⟨hinv.set hs, fresh⟩
      · rename_i hne
        have hsz : (s.cols, s.lines) = size := by simpa using hne
        obtain ⟨j, sj, h1, h2, h3, h4, h5⟩ := hinv _ frame size hc
        exact ⟨hinv.mono, j, sj, by omega, h2, h3, by rw [h4, hsz], h5⟩
    · exact ⟨hinv.set hs, fresh⟩
  · refine ⟨?_, fresh⟩
    split
    · exact hinv.set hs
    · exact hinv.mono

theorem iterGo_spec (f : Fmt) (rep : Int) (cached : Bool) (nFrames : Nat) (all : List IterStep) :
    ∀ (steps : List IterStep) (k : Nat) (cache : Cache), steps = all.drop k → CacheInv f nFrames all k cache →
      ∀ i fr, (iterGo f rep cached nFrames k cache steps)[i]? = some (some fr) →
        ∃ j sj sk, j ≤ k + i ∧ j % nFrames = (k + i) % nFrames ∧ all[j]? = some sj ∧ all[k + i]? = some sk ∧
          (sj.cols, sj.lines) = (sk.cols, sk.lines) ∧ fr = f.frame sj := by
  intro steps
  induction steps with
  | nil => intro k cache _ _ i fr h; simp [iterGo] at h
  | cons s rest ih =>
    intro k cache hdrop hinv i fr h
    have hs : all[k]? = some s := by
      have := congrArg (fun l => l[0]?) hdrop
      simpa using this.symm
    have hrest : rest = all.drop (k + 1) := by
      have := congrArg List.tail hdrop
      simpa using this
    unfold iterGo at h
    split at h
    · cases i with
      | zero => simp at h
      | succ i =>
        simp only [List.getElem?_cons_succ] at h
        obtain ⟨j, sj, sk, h1, h2, h3, h4, h5⟩ := ih (k + 1) cache hrest hinv.mono i fr h
        exact ⟨j, sj, sk, by omega, by rw [h2]; congr 1; omega, h3, by rw [← h4]; congr 1; omega, h5⟩
    · obtain ⟨hinv', j0, sj0, g1, g2, g3, g4, g5⟩ := iterNext_spec f cached nFrames all k cache s hinv hs
      cases i with
      | zero =>
        simp only [List.getElem?_cons_zero, Option.some.injEq] at h
        exact ⟨j0, sj0, s, by omega, by simpa using g2, g3, by simpa using hs, g4, by rw [← h, g5]⟩
      | succ i =>
        simp only [List.getElem?_cons_succ] at h
        obtain ⟨j, sj, sk, h1, h2, h3, h4, h5⟩ := ih (k + 1) _ hrest hinv' i fr h
        exact ⟨j, sj, sk, by omega, by rw [h2]; congr 1; omega, h3, by rw [← h4]; congr 1; omega, h5⟩

theorem cacheInv_init (f : Fmt) (nFrames : Nat) (all : List IterStep) :
    CacheInv f nFrames all 0 (List.replicate nFrames none) := by
  intro n fr sz hc
  rw [List.getElem?_replicate] at hc
  split at hc <;> simp at hc


theorem fmtDims_sum (ha va : Option String) (width height cols lines : Nat) :
    (fmtDims ha va width height cols lines).1 + cols + (fmtDims ha va width height cols lines).2.2.1 = max width cols ∧
    (fmtDims ha va width height cols lines).2.1 + lines + (fmtDims ha va width height cols lines).2.2.2 = max height lines := by
  unfold fmtDims
  by_cases hW : width > cols <;> by_cases hH : height > lines <;>
    by_cases a1 : ha = some "<" <;> by_cases a2 : ha = some ">" <;>
    by_cases b1 : va = some "^" <;> by_cases b2 : va = some "_" <;>
    simp [hW, hH, a1, a2, b1, b2] <;> omega

/-! ## animated `draw()`: every frame is drawn over the previous one -/

/-- a formatted frame: drawn from the top-left corner of the `w × h` box at column 0 it is a `BlockEffect` -/
def FrameOK (K : TermKind → Prop) (w h : Nat) (fr : List Tok) : Prop :=
  ∀ (t : Term) (r0 : Nat), K t.kind → t.lm = 0 → Ready t r0 0 w h 0 → BlockEffect t (t.run fr) r0 0 w h .keepsDefault

theorem back_to_first_line (t : Term) (r0 w h : Nat) (hrow : t.row = r0 + h - 1) (hfit : w ≤ t.W)
    (hvt : t.top ≤ r0) (hvb : r0 + h ≤ t.top + t.H) (hh : 0 < h) (hw : 0 < w) :
    let t' := t.run ([Tok.cr] ++ cursorUp ((h : Int) - 1))
    Ready t' r0 0 w h 0 ∧ Frame t t' ∧ t'.log = t.log ∧ t'.fg = t.fg ∧ t'.bg = t.bg := by
  intro t'
  by_cases h1 : h = 1
  · subst h1
    have : t' = { t with col := 0, pw := false } := by simp [t', cursorUp, Term.run, step]
    rw [this]
    exact ⟨⟨by simp; omega, rfl, rfl, by simpa using hfit, hvt, hvb, hh, hw⟩, ⟨rfl, rfl, rfl, rfl, rfl, rfl, rfl, rfl⟩, rfl, rfl, rfl⟩
  · have hpos : (h : Int) - 1 > 0 := by omega
    have hn : ((h : Int) - 1).toNat = h - 1 := by omega
    have hp : param (h - 1) = h - 1 := param_pos (by omega)
    have hlt : (1 : Int) < (h : Int) := by omega
    have : t' = { t with col := 0, pw := false, row := max t.top (t.row - (h - 1)) } := by
      simp [t', cursorUp, hlt, hn, Term.run, step, hp]
    rw [this]
    refine ⟨⟨?_, rfl, rfl, by simpa using hfit, hvt, hvb, hh, hw⟩, ⟨rfl, rfl, rfl, rfl, rfl, rfl, rfl, rfl⟩, rfl, rfl, rfl⟩
    show max t.top (t.row - (h - 1)) = r0 + 0
    omega

/-- what the frames after the first do, starting at the end of a frame -/
theorem later_frames (K : TermKind → Prop) (w h : Nat) (hh : 0 < h) (hw : 0 < w) :
    ∀ (rest : List (List Tok)), (∀ fr ∈ rest, FrameOK K w h fr) →
    ∀ (t : Term) (r0 : Nat), K t.kind → t.lm = 0 → t.row = r0 + h - 1 → w ≤ t.W → t.top ≤ r0 → r0 + h ≤ t.top + t.H →
      let t' := t.run (rest.map fun fr => [Tok.cr] ++ cursorUp ((h : Int) - 1) ++ fr).flatten
      Frame t t' ∧ t'.row = r0 + h - 1 ∧ ((t.fg = none ∧ t.bg = none) → (t'.fg = none ∧ t'.bg = none)) ∧
        ∃ new, t'.log = new ++ t.log ∧ ∀ wr ∈ new, InRect r0 0 w h wr := by
  intro rest
  induction rest with
  | nil =>
    intro _ t r0 _ _ hrow _ _ _
    exact ⟨Frame.refl t, hrow, fun h => h, [], rfl, by simp⟩
  | cons fr rest ih =>
    intro hok t r0 hK hlm hrow hfit hvt hvb
    simp only [List.map_cons, List.flatten_cons]
    rw [Term.run_append, Term.run_append]
    obtain ⟨hR1, f1, l1, fg1, bg1⟩ := back_to_first_line t r0 w h hrow hfit hvt hvb hh hw
    generalize t.run ([Tok.cr] ++ cursorUp ((h : Int) - 1)) = t1 at hR1 f1 l1 fg1 bg1
    have e2 := hok fr (by simp) t1 r0 (by rw [f1.kind]; exact hK) (by rw [f1.lm]; exact hlm) hR1
    generalize t1.run fr = t2 at e2
    have f2 := e2.frame
    have := ih (fun fr' h' => hok fr' (by simp [h'])) t2 r0 (by rw [f2.kind, f1.kind]; exact hK)
      (by rw [f2.lm, f1.lm]; exact hlm) e2.row (by rw [f2.W, f1.W]; exact hfit) (by rw [f2.top, f1.top]; exact hvt)
      (by rw [f2.top, f2.H, f1.top, f1.H]; exact hvb)
    obtain ⟨f3, r3, s3, new3, hn3, hin3⟩ := this
    obtain ⟨new2, hn2, hin2, _⟩ := e2.log
    refine ⟨f1.trans (f2.trans f3), r3, ?_, new3 ++ new2, by rw [hn3, hn2, l1, List.append_assoc], ?_⟩
    · intro hd
      exact s3 (e2.sgr (by rw [fg1, bg1]; exact hd))
    · intro wr hwr
      rcases List.mem_append.mp hwr with h' | h'
      · exact hin3 wr h'
      · exact hin2 wr h'

end TIV.C05
