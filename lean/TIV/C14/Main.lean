import TIV.Common.DriverMain
import TIV.C14.Drive
def main : IO Unit := TIV.driverMain TIV.C14.handler
