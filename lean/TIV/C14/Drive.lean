import TIV.Common.Wire
import TIV.C14.Model
import TIV.C14.Deco
/-! driver ops of C14: `sched n proc₀ … procₙ₋₁ k step₁ … stepₖ m flavour₁ … flavourₘ`
    steps: `c<t>` call, `s<t>.<child>` start, `a<t>` advance / return, `w<t>` write a query,
    `d<t>` read a reply part, `r` the terminal delivers a reply part.
    `fsched …` is the same op on the model's side: the trailing tokens name the REAL query functions
    each thread runs (nv = get_terminal_name_version, fb = get_fg_bg_colors, cs = get_cell_size). -/
namespace TIV.C14
open TIV.Wire

def lkName : Lk → String
  | .T p => s!"T{p}"
  | .M p => s!"M{p}"

/-- what the step did, in the vocabulary of the instrumented implementation -/
def describe (s : State) (t : Nat) (a : Act) (s' : State) : String :=
  let p := s.proc t
  match a with
  | .respond => match s.pend with
      | q :: _ => s!"rsp:{q.1}.{q.2}"
      | [] => "x"
  | .call => "call"
  | .start _ => "start"
  | .raise => "raise"
  | .fail => "fail"
  | .wr => s!"wr:{s.nextQ}"
  | .rd => match s.outq t, s.repl with
      | some (q, _), r :: _ => s!"rd:{q}:{r.1}.{r.2}"
      | _, _ => "x"
  | .adv => match s.thr t with
    | .idle => "x"
    | .sync f _ => match f.pc with
      | .ld1 | .ld2 => s!"ld:{lkName (s.cur p)}"
      | .aq1 => s!"aq:{lkName f.l1}:{(s'.lk f.l1).count}"
      | .aq2 => s!"aq:{lkName f.l2}:{(s'.lk f.l2).count}"
      | .cs => "ret"
      | .rl2 => s!"rl:{lkName f.l2}:{(s'.lk f.l2).count}"
      | .rl1 => s!"rl:{lkName f.l1}:{(s'.lk f.l1).count}"
    | .start pc l pass c => match pc with
      | .ld => s!"ld:{lkName (s.cur p)}"
      | .aq => s!"aq:{lkName l}:{(s'.lk l).count}"
      | .chk => if (s.cur p).isThreadLock then "chk:sw" else "chk:rd"
      | .sw => s!"sw:{lkName (s'.cur p)}"
      | .rd => s!"pass:{lkName (s.cur p)}"
      | .rl => s!"rl:{lkName l}:{(s'.lk l).count}"
      | .fk => s!"fk:{c}:{lkName pass}"

def runDescribe (s : State) : List (Nat × Act) → State × List String
  | [] => (s, [])
  | (t, a) :: rest =>
    match step s t a with
    | some s' => let (e, evs) := runDescribe s' rest; (e, describe s t a s' :: evs)
    | none => let (e, evs) := runDescribe s rest; (e, "x" :: evs)

def parseStep (tok : String) : Option (Nat × Act) :=
  match tok.toList with
  | ['r'] => some (0, .respond)
  | 'c' :: ds => (String.ofList ds).toNat?.map fun t => (t, .call)
  | 'a' :: ds => (String.ofList ds).toNat?.map fun t => (t, .adv)
  | 'e' :: ds => (String.ofList ds).toNat?.map fun t => (t, .raise)
  | 'f' :: ds => (String.ofList ds).toNat?.map fun t => (t, .fail)
  | 'w' :: ds => (String.ofList ds).toNat?.map fun t => (t, .wr)
  | 'd' :: ds => (String.ofList ds).toNat?.map fun t => (t, .rd)
  | 's' :: ds =>
    match (String.ofList ds).splitOn "." with
    | [a, b] => match a.toNat?, b.toNat? with
      | some t, some c => some (t, .start c)
      | _, _ => none
    | _ => none
  | _ => none

def pStep : P (Nat × Act) := do
  let t ← word
  match parseStep t with
  | some x => pure x
  | none => failure

def procOf (ps : List Nat) (t : Nat) : Nat := ps.getD t 0

def maxProc (ps : List Nat) (steps : List (Nat × Act)) : Nat :=
  let m := ps.foldl max 0
  steps.foldl (fun m (_, a) => match a with | .start c => max m c | _ => m) m

def summary (s : State) (n np : Nat) : String :=
  let ins := (List.range n).filter fun t => (s.thr t).inside
  let insS := if ins.isEmpty then "-" else String.intercalate "," (ins.map toString)
  let curs := (List.range (np + 1)).filter (fun p => s.up p) |>.map fun p => s!"{p}:{lkName (s.cur p)}"
  let outs := (List.range n).filterMap fun t => (s.outq t).map fun (q, k) => s!"{t}:{q}.{k}"
  let outS := if outs.isEmpty then "-" else String.intercalate "," outs
  s!"inside={insS} cur={String.intercalate "," curs} out={outS} unread={(s.repl ++ s.pend).length}"

def parseDeco (tok : String) : Option Deco.Op :=
  match tok.toList with
  | 'n' :: ds => (String.ofList ds).toNat?.map Deco.Op.new
  | 'd' :: ds => (String.ofList ds).toNat?.map Deco.Op.dec
  | 'c' :: ds => (String.ofList ds).toNat?.map Deco.Op.call
  | 'x' :: ds => (String.ofList ds).toNat?.map Deco.Op.drop
  | _ => none

def pDeco : P Deco.Op := do
  let t ← word
  match parseDeco t with
  | some x => pure x
  | none => failure

/-- a trailing list that may be absent altogether -/
def optList : P (List String) := fun ts => match ts with
  | [] => some ([], [])
  | _ => listOf word ts

/-- all remaining words -/
def optList0 : P (List String) := fun ts => some (ts, [])

def handler : Handler := fun op args =>
  match op with
  | "sched" => run (do
      let ps ← listOf nat
      let steps ← listOf pStep
      let flav ← listOf word   -- how child i adopts the lock (run | fork | import; `-o`: its Process subclass overrides run() without super().run()): one model step
      -- base (run | fork | import) plus modifiers: o = run() overridden, d = daemonic child
      if !(flav.all fun f => match f.splitOn "-" with
          | b :: mods => (b == "run" || b == "fork" || b == "import") && mods.all (fun m => m == "o" || m == "d")
          | [] => false) then failure
      -- optionally: which synchronized function each thread calls at top level (p = probe,
      -- i / w / f = UrwidImageScreen.get_available_raw_input / write / flush) — one model `call`
      let fns ← optList
      if !(fns.all fun f => f == "p" || f == "i" || f == "w" || f == "f") then failure
      let (e, evs) := runDescribe (init (procOf ps)) steps
      let en := (runSched (init (procOf ps)) steps).2
      -- `runSched` (the function the theorems talk about) and `runDescribe` must agree
      let agree := en == evs.map (· != "x")
      pure (if agree then
        "ok " ++ String.intercalate "|" evs ++ " # " ++ summary e ps.length (maxProc ps steps)
      else "err runSched-disagrees")) args
  -- `deco k op…`: create (n<i>) / lock_tty (d<i>) / call (c<i>) / drop (x<i>) callables in slots
  | "deco" => run (do
      let ops ← listOf pDeco
      pure ("ok " ++ String.intercalate "|" (Deco.run Deco.empty ops).2)) args
  | "fsched" => run (do
      let ps ← listOf nat
      let steps ← listOf pStep
      let progs ← listOf word   -- per thread: the real functions it calls, e.g. `nv+cs`
      if !(progs.all fun p => (p.splitOn "+").all fun f => f == "nv" || f == "fb" || f == "cs" || f == "-") then failure
      let (e, evs) := runDescribe (init (procOf ps)) steps
      let en := (runSched (init (procOf ps)) steps).2
      let agree := en == evs.map (· != "x")
      pure (if agree then
        "ok " ++ String.intercalate "|" evs ++ " # " ++ summary e ps.length (maxProc ps steps)
      else "err runSched-disagrees")) args
  -- a real-multiprocessing run: the model's prediction is theorem `mutex` — no two synchronized
  -- calls overlap, whatever the start method
  | "mp" => run (do
      let m ← word; let h ← word; let _ ← nat; let _ ← nat
      -- optionally: how the child's code is supplied (target | run | runsuper) and whether foreign
      -- wrappers were put on BaseProcess before the import (0 | 1)
      let extra ← optList0
      if !(extra.all fun w => w == "target" || w == "run" || w == "runsuper" || w == "after" || w == "failfirst" || w == "daemon" || w == "pool" || w == "0" || w == "1") then failure
      if (m == "fork" || m == "spawn" || m == "forkserver" || m == "mixed" || m == "spawn+fork" || m == "forkserver+fork") && (h == "default" || h == "ctx") then
        pure "ok overlaps=0"
      else failure) args
  | _ => none

end TIV.C14
