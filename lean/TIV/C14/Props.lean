import TIV.C14.Step
import TIV.C14.Generated
import TIV.C14.Deco
/-!
# C14 — property theorems: terminal access is serialised across threads and processes

All theorems quantify over every reachable state of the transition system of `Model.lean`:
any assignment `proc` of threads to processes (no bound on the number of threads or
processes), any interleaving of `lock_tty` calls (nested to any depth), `Process.start()` calls
(from outside synchronized calls) and terminal replies.
-/
namespace TIV.C14

/-- the wrappers the model was written for are the ones in the imported package: the sequence
    of global loads / `__enter__`s of `lock_tty_wrapper`, the sequence of loads / stores of
    `_tty_lock` in `_process_start_wrapper`, the class whose `start`/`run` are wrapped (every
    process class derives from it), and the two places where a child adopts the lock. -/
theorem generated_shape :
    Generated.syncOps = syncOps ∧ Generated.startOps = startOps ∧
    Generated.wrappedClass = "multiprocessing.process.BaseProcess" ∧
    Generated.childAdoption = ["bootstrap", "import"] ∧
    -- the original `Process.start()` (possibly `os.fork()`) is called once, at the top level of the
    -- wrapper: not inside any `with` (the model's `fk` comes after `rl` — the starting thread holds
    -- no terminal lock at the fork), not under an `if` (every process object, daemonic or not, goes
    -- through the hand-over), not inside a `try` (`Act.fail` undoes nothing)
    Generated.startCallContext = ["<top>"] := by decide

/-- CHILD CREATION is what `fk` says and nothing else: the hand-over is installed on
    `BaseProcess.start`, the adoption on `BaseProcess._bootstrap` (what every start method calls in
    the child and what a `Process` subclass overriding `run()` cannot bypass), and the package
    registers NO at-fork hook (`os.register_at_fork`, `multiprocessing.util.register_after_fork`) that
    could re-bind or re-count the lock in a forked child. -/
theorem generated_child_creation :
    Generated.wrappedMethods =
      ["multiprocessing.process.BaseProcess._bootstrap <- _process_bootstrap_wrapper",
       "multiprocessing.process.BaseProcess.start <- _process_start_wrapper"] ∧
    Generated.atForkHooks = [] := by decide

/-- every site of utils.py that touches the global `_tty_lock` is one the model accounts for (a new
    site, or a synchronized section with a single `with` item, breaks this). -/
theorem generated_sites : Generated.ttyLockSites = lockSites := by decide

/-- `_rlock_type` is evaluated before the import-time adoption (see `initOrder`) -/
theorem generated_init_order : Generated.moduleInitOrder = initOrder := by decide

/-- nothing in the package binds the lock OBJECT by name (`from ..utils import _tty_lock`): such an
    alias goes stale when `utils._tty_lock` is re-bound by the first `Process.start()`; every section
    of the model loads the global `cur p` at call time. -/
theorem generated_no_alias : Generated.lockAliases = [] := by decide

/-- the urwid screen's terminal-touching methods are all overridden with `@lock_tty`: the redraw,
    the transmission of the output buffer, the input poll and `write()` (which application code and
    `clear_images(now=False)` call outside a redraw) -/
theorem generated_screen_sync :
    Generated.screenSyncMethods = ["draw_screen", "flush", "get_available_raw_input", "write"] := by decide

/-- the anchored users are synchronized through `lock_tty` -/
theorem generated_users : ∀ u ∈ requiredUsers, u ∈ Generated.lockTtyUsers := by decide

/-- MUTUAL EXCLUSION: in every reachable state at most one thread — of whatever process — is
    executing the body of a synchronized function. -/
theorem mutex {proc : Nat → Nat} {s : State} (hr : Reachable proc s) {t u : Nat}
    (ht : (s.thr t).inside = true) (hu : (s.thr u).inside = true) : t = u :=
  hr.inv.mutex ht hu

/-- the thread inside owns the lock its process's `_tty_lock` global names *now*, and all running
    processes name the same lock unless only the root runs. -/
theorem inside_owns_current {proc : Nat → Nat} {s : State} (hr : Reachable proc s) {t : Nat}
    (ht : (s.thr t).inside = true) : (s.lk (s.cur (s.proc t))).owner = some t :=
  hr.inv.inside_owns ht

/-- after the first `Process.start()` went through, every running process's global names the one
    process lock created by the root. -/
theorem children_share_lock {proc : Nat → Nat} {s : State} (hr : Reachable proc s) {p : Nat}
    (hp : p ≠ 0) (hup : s.up p = true) : s.cur p = .M 0 ∧ s.cur 0 = .M 0 := by
  have h := hr.inv
  refine ⟨?_, h.child p hp hup⟩
  rcases h.curOK p hup with e | ⟨e, _⟩
  · exact e
  · exact absurd e hp

/-- THE HAND-OVER: at the moment a thread is about to replace the global (it holds the old lock),
    no thread of any process is inside a synchronized function. -/
theorem handover_exclusive {proc : Nat → Nat} {s : State} (hr : Reachable proc s) {t : Nat}
    {l pass : Lk} {c : Nat} (ht : s.thr t = .start .sw l pass c) (u : Nat) :
    (s.thr u).inside = false := by
  have h := hr.inv
  cases hi : (s.thr u).inside
  · rfl
  · exfalso
    have hg := h.good t
    rw [ht] at hg
    obtain ⟨g1, g2, _, _⟩ := hg
    obtain ⟨hc, hp0⟩ := g2 rfl
    have hl : l = .T 0 := by
      rcases g1 (by simp) with e | ⟨_, e, _⟩
      · rw [e, hc]
      · exact e
    have hown : (s.lk (.T 0)).owner = some t :=
      h.owner_of_held (by rw [ht]; simp [TState.held, SPc.has, hl])
    have hupt : s.up (s.proc t) = true := by
      cases hu : s.up (s.proc t)
      · have := h.down t hu; rw [ht] at this; cases this
      · rfl
    have e := h.cur_eq (h.inside_up hi) hupt
    have o := h.inside_owns hi
    rw [e, hc, hown] at o
    injection o with o
    subst o
    rw [ht] at hi
    simp [TState.inside] at hi

/-- A FAILING START KEEPS THE LOCK: when the original `Process.start()` raises after the hand-over,
    no process's global changes (in particular the root keeps naming the migrated lock), no lock
    changes hands and no child comes up — and the resulting state is reachable, so `mutex` and all
    the other theorems hold after it whatever other threads did in between. -/
theorem failed_start_keeps_lock {proc : Nat → Nat} {s s' : State} (hr : Reachable proc s) {t : Nat}
    (hs : step s t .fail = some s') :
    s'.cur = s.cur ∧ s'.lk = s.lk ∧ s'.up = s.up ∧ s'.thr t = .idle ∧ Reachable proc s' := by
  refine ⟨?_, ?_, ?_, ?_, Reachable.step t .fail hr hs⟩ <;>
  · unfold TIV.C14.step at hs
    simp only at hs
    cases hup : s.up (s.proc t) with
    | false => simp [hup] at hs
    | true =>
      simp only [hup, if_true] at hs
      cases hthr : s.thr t with
      | idle => simp [hthr] at hs
      | sync f rest => simp [hthr] at hs
      | start pc l pass c =>
        simp only [hthr] at hs
        by_cases hpc : pc = .fk
        · simp only [hpc, if_true, Option.some.injEq] at hs; subst hs; simp [setThr]
        · simp [hpc] at hs

/-- RE-ENTRANCY: a nested call never waits — both acquisitions of an inner activation are
    enabled (the lock it loaded is the one the thread already owns). -/
theorem reentrant {proc : Nat → Nat} {s : State} (hr : Reachable proc s) {t : Nat}
    {f g : Frame} {r : List Frame} (ht : s.thr t = .sync f (g :: r))
    (hpc : f.pc = .aq1 ∨ f.pc = .aq2) : (step s t .adv).isSome = true := by
  have h := hr.inv
  have hg := h.good t
  rw [ht] at hg
  have hg' : stackOK (s.proc t) (s.cur (s.proc t)) (f :: g :: r) := hg
  obtain ⟨hf, hn, hrest⟩ := hg'
  have hgb : g.pc.inBody = true := hn.2
  have hgcs : g.pc.inCS = true := by cases hp : g.pc <;> simp_all [Pc.inBody, Pc.inCS]
  have hin : (s.thr t).inside = true := by
    rw [ht]; simp [TState.inside, hgcs]
  have hown := h.inside_owns hin
  have hup := h.inside_up hin
  have acq_ok : ∀ L, L = s.cur (s.proc t) → ((s.lk L).acquire t).isSome = true := by
    intro L e; subst e
    unfold LockSt.acquire; rw [hown]; simp
  unfold TIV.C14.step
  simp only [hup, if_true, ht]
  unfold stepFrame
  rcases hpc with e | e
  · have hl : f.l1 = s.cur (s.proc t) := hn.1 (by rw [e]; simp)
    have := acq_ok f.l1 hl
    simp only [e]
    cases ha : (s.lk f.l1).acquire t with
    | none => rw [ha] at this; cases this
    | some x => simp
  · have hl : f.l2 = s.cur (s.proc t) := hf.2 (by rw [e]; simp [Pc.dpc])
    have := acq_ok f.l2 hl
    simp only [e]
    cases ha : (s.lk f.l2).acquire t with
    | none => rw [ha] at this; cases this
    | some x => simp

/-- … and the lock is fully released when the outermost call has returned: an idle thread owns
    no lock with a positive count. -/
theorem released_when_idle {proc : Nat → Nat} {s : State} (hr : Reachable proc s) {t : Nat}
    (ht : s.thr t = .idle) (L : Lk) (ho : (s.lk L).owner = some t) : (s.lk L).count = 0 := by
  have := hr.inv.acc L t
  rw [ht, ho] at this
  simpa [TState.held] using this.symm

/-- OWN REPLY: every reply part a thread has read is a part of the reply to the query that same
    thread wrote (FIFO terminal, replies in several parts, any scheduling of their delivery, the
    query and the reads possibly made by different nested calls of one compound section). -/
theorem own_reply {proc : Nat → Nat} {s : State} (hr : Reachable proc s) :
    ∀ e ∈ s.log, e.2.2.1 = e.2.1 :=
  hr.inv.tlog

/-- NO REPLY LOST, NONE LEFT OVER, NONE DELIVERED TO ANOTHER CALLER: the terminal's queues
    (delivered ++ undelivered) hold exactly the not-yet-read parts of the reply to the one thread
    that has a reply outstanding — in order — and nothing when no thread has. -/
theorem no_reply_lost {proc : Nat → Nat} {s : State} (hr : Reachable proc s) :
    (∀ u q k, s.outq u = some (q, k) → s.repl ++ s.pend = partsFrom q k) ∧
    ((∀ u, s.outq u = none) → s.repl ++ s.pend = []) :=
  ⟨fun u q k h => (hr.inv.tsome u q k h).1, hr.inv.tnone⟩

/-- COMPOUND SECTION: a thread that is not inside a synchronized section has read its reply
    completely (query + drain happen under one outermost acquisition) … -/
theorem section_drained {proc : Nat → Nat} {s : State} (hr : Reachable proc s) {t : Nat}
    (ht : (s.thr t).inside = false) : s.outq t = none := by
  cases ho : s.outq t with
  | none => rfl
  | some v =>
    have := hr.inv.tin t (by rw [ho]; simp)
    rw [ht] at this; cases this

/-- … hence at most one thread (of all processes) has a reply outstanding at any time … -/
theorem one_outstanding {proc : Nat → Nat} {s : State} (hr : Reachable proc s) {t u : Nat}
    (ht : s.outq t ≠ none) (hu : s.outq u ≠ none) : t = u :=
  hr.inv.mutex (hr.inv.tin t ht) (hr.inv.tin u hu)

/-- … and when every thread is idle nothing is left unread in the terminal's queues. -/
theorem idle_nothing_unread {proc : Nat → Nat} {s : State} (hr : Reachable proc s)
    (hi : ∀ t, s.thr t = .idle) : s.repl ++ s.pend = [] :=
  hr.inv.tnone (fun u => section_drained hr (by rw [hi u]; rfl))

/-! ### which callables are synchronised: `no_redecorate(lock_tty)` -/

/-- decorating a function that was never decorated always wraps it … -/
theorem Deco.decorate_fresh : Deco.decorate .fn = (.wrapper, true) := rfl

/-- … and decorating twice is decorating once (the wrapper is returned unchanged). -/
theorem Deco.decorate_idempotent (o : Deco.Obj) :
    Deco.decorate (Deco.decorate o).1 = ((Deco.decorate o).1, false) := by
  cases o <;> rfl

theorem Deco.wrapper_kept {i : Nat} : ∀ (mid : List Deco.Op) (s : Deco.St),
    s i = some .wrapper → (∀ op ∈ mid, op.keeps i = true) → (Deco.run s mid).1 i = some .wrapper
  | [], _, h, _ => h
  | op :: rest, s, h, hk => by
    have hop := hk op (by simp)
    have hrest : ∀ o ∈ rest, o.keeps i = true := fun o ho => hk o (by simp [ho])
    have hs : (Deco.step s op).1 i = some .wrapper := by
      cases op with
      | new j =>
        have : i ≠ j := by intro e; subst e; simp [Deco.Op.keeps] at hop
        simp [Deco.step, Deco.St.set, this, h]
      | dec j =>
        simp only [Deco.step]
        cases hj : s j with
        | none => simpa using h
        | some o =>
          by_cases e : i = j
          · subst e; rw [h] at hj; cases hj; simp [Deco.St.set, Deco.decorate]
          · simp [Deco.St.set, e, h]
      | call j =>
        simp only [Deco.step]
        cases hj : s j with
        | none => simpa using h
        | some o => cases o <;> simpa using h
      | drop j =>
        have : i ≠ j := by intro e; subst e; simp [Deco.Op.keeps] at hop
        simp only [Deco.step]
        cases hj : s j with
        | none => simpa using h
        | some o => simp [Deco.St.set, this, h]
    simpa [Deco.run] using Deco.wrapper_kept rest _ hs hrest

/-- EVERY CALLABLE RETURNED BY `lock_tty` IS SYNCHRONISED, in every history of creating, decorating,
    calling and dropping callables: once slot `i` has been decorated, every call of it — until the
    slot is given a new object or dropped — runs with the terminal lock held. -/
theorem Deco.decorated_calls_sync (s : Deco.St) (i : Nat) (o : Deco.Obj) (hs : s i = some o)
    (mid : List Deco.Op) (hk : ∀ op ∈ mid, op.keeps i = true) :
    (Deco.run s (.dec i :: mid ++ [.call i])).2.getLast? = some "sync" := by
  have h1 : (Deco.step s (.dec i)).1 i = some .wrapper := by
    simp only [Deco.step, hs]; cases o <;> simp [Deco.St.set, Deco.decorate]
  have h2 := Deco.wrapper_kept mid _ h1 hk
  have key : ∀ (l : List Deco.Op) (t : Deco.St), (Deco.run t l).1 i = some .wrapper →
      (Deco.run t (l ++ [.call i])).2.getLast? = some "sync" := by
    intro l
    induction l with
    | nil => intro t ht; simp [Deco.run, Deco.step] at ht ⊢; simp [ht]
    | cons op rest ih =>
      intro t ht
      have := ih (Deco.step t op).1 (by simpa [Deco.run] using ht)
      simp only [List.cons_append, Deco.run]
      cases hr : (Deco.run (Deco.step t op).1 (rest ++ [.call i])).2 with
      | nil => rw [hr] at this; simp at this
      | cons a b => rw [hr] at this; simpa [List.getLast?_cons_cons] using this
  have := key mid (Deco.step s (.dec i)).1 h2
  simp only [Deco.run, List.cons_append]
  cases hr : (Deco.run (Deco.step s (.dec i)).1 (mid ++ [.call i])).2 with
  | nil => rw [hr] at this; simp at this
  | cons a b => rw [hr] at this; simpa [List.getLast?_cons_cons] using this

example : (Deco.run Deco.empty [.new 0, .dec 0, .call 0, .drop 0, .new 0, .call 0, .dec 0, .dec 0, .call 0]).2
    = ["new", "wrap", "sync", "drop", "new", "plain", "wrap", "same", "sync"] := by decide

/-- schedules of the driver produce reachable states, so the theorems apply to every trace the
    correspondence check replays on the real code -/
theorem runSched_reachable {proc : Nat → Nat} :
    ∀ (sch : List (Nat × Act)) {s : State}, Reachable proc s → Reachable proc (runSched s sch).1
  | [], _, h => h
  | (t, a) :: rest, s, h => by
    unfold runSched
    cases hs : step s t a with
    | none => simpa using runSched_reachable rest h
    | some s' => simpa using runSched_reachable rest (Reachable.step t a h hs)

/-! ### non-vacuity: the interesting states are reachable -/

/-- the racing schedule the doubled `with` exists for: thread 0 loads the thread lock, thread 1
    swaps the lock and forks child process 1, thread 2 (in the child) enters; thread 0 then
    acquires the stale lock and must wait at its *second* acquisition. -/
def raceSched : List (Nat × Act) :=
  [(0, .call), (0, .adv),                                   -- t0: load T0
   (1, .start 1), (1, .adv), (1, .adv), (1, .adv), (1, .adv), (1, .adv), (1, .adv),  -- swap, fork
   (2, .call), (2, .adv), (2, .adv), (2, .adv), (2, .adv),  -- child thread inside, holds M0
   (0, .adv), (0, .adv)]                                    -- t0: acquires stale T0, loads M0

def raceProc : Nat → Nat := fun t => if t = 2 then 1 else 0

example : ((runSched (init raceProc) raceSched).1.thr 2).inside = true := by decide
example : (runSched (init raceProc) raceSched).2.all id = true := by decide
/-- thread 0 is now blocked at its second acquisition — the step is not enabled -/
example : (step (runSched (init raceProc) raceSched).1 0 .adv).isSome = false := by decide
/-- RAISING BODIES: thread 2's nested activation raises, the exception is handled in the outer body,
    which then raises itself; both `with` statements release, the thread ends idle holding nothing
    and thread 0 (blocked above) gets in — all of it inside `Reachable`, so `mutex` covers it. -/
example : let r := runSched (init raceProc) (raceSched ++
      [(2, .call), (2, .adv), (2, .adv), (2, .adv), (2, .adv), (2, .raise), (2, .adv), (2, .adv),
       (2, .raise), (2, .adv), (2, .adv), (0, .adv)])
    r.2.all id = true ∧ (r.1.thr 2) = .idle ∧ (r.1.thr 0).inside = true := by decide
/-- TWO CONCURRENT FIRST STARTS: both starters load the thread lock; the second one re-tests the
    global after acquiring it, takes the `rd` branch and hands over the SAME lock `M 0`. -/
def twoStarts : List (Nat × Act) :=
  [(0, .start 1), (1, .start 2), (0, .adv), (1, .adv), (0, .adv), (0, .adv), (0, .adv), (0, .adv),
   (1, .adv), (1, .adv), (1, .adv), (1, .adv), (0, .adv), (1, .adv)]
example : (runSched (init (fun _ => 0)) twoStarts).2.all id = true ∧
    (runSched (init (fun _ => 0)) twoStarts).1.cur 1 = .M 0 ∧
    (runSched (init (fun _ => 0)) twoStarts).1.cur 2 = .M 0 ∧
    (runSched (init (fun _ => 0)) twoStarts).1.cur 0 = .M 0 := by decide
/-- the first start migrates the lock and then FAILS while thread 1 has entered on the new lock;
    thread 1 stays the only one inside, thread 0's next call queues on `M 0` -/
def failSched : List (Nat × Act) :=
  [(0, .start 1), (0, .adv), (0, .adv), (0, .adv), (0, .adv), (0, .adv),
   (1, .call), (1, .adv), (1, .adv), (1, .adv), (1, .adv), (0, .fail),
   (0, .call), (0, .adv)]
example : (runSched (init (fun _ => 0)) failSched).2.all id = true ∧
    (runSched (init (fun _ => 0)) failSched).1.cur 0 = .M 0 ∧
    ((runSched (init (fun _ => 0)) failSched).1.thr 1).inside = true ∧
    (step (runSched (init (fun _ => 0)) failSched).1 0 .adv).isSome = false := by decide
/-- a nested call inside the child: hypotheses of `reentrant` are satisfiable -/
example : (step (runSched (init raceProc) (raceSched ++ [(2, .call), (2, .adv)])).1 2 .adv).isSome
    = true := by decide
/-- a query / two-part reply round trip is reachable, so `own_reply` speaks about a non-empty log -/
example : (runSched (init raceProc)
    (raceSched ++ [(2, .wr), (0, .respond), (2, .rd), (0, .respond), (2, .rd)])).1.log
    = [(2, 0, (0, 0)), (2, 0, (0, 1))] := by decide
/-- the compound-section rule bites: with the tail of the reply outstanding the outermost
    activation cannot return (this is the step a `get_terminal_name_version` without its outer
    `with _tty_lock, _tty_lock:` would take) … -/
example : (step (runSched (init raceProc)
    (raceSched ++ [(2, .wr), (0, .respond), (2, .rd)])).1 2 .adv).isSome = false := by decide
/-- … while a nested activation (`query_terminal`, `read_tty`) may return with it outstanding -/
example : (step (runSched (init raceProc)
    (raceSched ++ [(2, .call), (2, .adv), (2, .adv), (2, .adv), (2, .adv),
                   (2, .wr), (0, .respond), (2, .rd)])).1 2 .adv).isSome = true := by decide

end TIV.C14
