/-!
# C14 — `no_redecorate(lock_tty)`: which callables are synchronised

`lock_tty` is wrapped by `no_redecorate`:

    obj = args[0]
    if not hasattr(obj, "_lock_tty_wrapped_"):
        obj = decor(obj)                       # lock_tty: a NEW wrapper function, synchronised
        setattr(obj, "_lock_tty_wrapped_", ...)
    return obj

The marker is an attribute of the wrapper object itself: it lives and dies with the object, and a
function object that has just been created has no attributes. A callable is held in a slot
(`Nat → Option Obj`); the model has no notion of an address — nothing in the code above looks at one.
-/
namespace TIV.C14.Deco

/-- a plain function, or a wrapper returned by `lock_tty` (carries the marker, synchronises) -/
inductive Obj where
  | fn
  | wrapper
  deriving DecidableEq, Repr

inductive Op where
  | new (i : Nat)    -- slot i := a brand-new function object
  | dec (i : Nat)    -- slot i := lock_tty(slot i)
  | call (i : Nat)   -- call slot i; is the terminal lock held inside?
  | drop (i : Nat)   -- drop the last reference (the object is freed)
  deriving DecidableEq, Repr

abbrev St := Nat → Option Obj

def St.set (s : St) (i : Nat) (v : Option Obj) : St := fun j => if j = i then v else s j

/-- `no_redecorate_wrapper(obj)`: (the object returned, whether `lock_tty` proper was applied) -/
def decorate : Obj → Obj × Bool
  | .fn => (.wrapper, true)        -- no marker: wrap, mark
  | .wrapper => (.wrapper, false)  -- marker present: returned unchanged

def step (s : St) : Op → St × String
  | .new i => (s.set i (some .fn), "new")
  | .dec i => match s i with
      | none => (s, "x")
      | some o => ((s.set i (some (decorate o).1)), if (decorate o).2 then "wrap" else "same")
  | .call i => match s i with
      | none => (s, "x")
      | some .fn => (s, "plain")
      | some .wrapper => (s, "sync")
  | .drop i => match s i with
      | none => (s, "x")
      | some _ => (s.set i none, "drop")

def run (s : St) : List Op → St × List String
  | [] => (s, [])
  | op :: rest =>
    let (s', o) := step s op
    let (e, os) := run s' rest
    (e, o :: os)

def empty : St := fun _ => none

/-- the op leaves slot `i` alone (it neither replaces nor drops its object) -/
def Op.keeps (i : Nat) : Op → Bool
  | .new j => j != i
  | .drop j => j != i
  | _ => true

end TIV.C14.Deco
