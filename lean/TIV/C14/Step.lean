import TIV.C14.Proofs
/-!
# C14 — every step preserves the invariant
-/
namespace TIV.C14

/-- generic re-assembly of the invariant after a step of thread `t` that leaves every process's
    global, the set of running processes and the terminal alone -/
theorem Inv.upd {s s' : State} (h : Inv s) (t : Nat) (x : TState)
    (hproc : s'.proc = s.proc) (hthr : s'.thr = fun i => if i = t then x else s.thr i)
    (hcur : s'.cur = s.cur) (hupe : s'.up = s.up)
    (hup : s.up (s.proc t) = true)
    (hacc : Acc s'.thr s'.lk)
    (hg : x.good (s.proc t) (s.cur (s.proc t)))
    (ho : s'.outq = s.outq) (h1 : s'.repl = s.repl) (h2 : s'.pend = s.pend) (h3 : s'.log = s.log)
    (hin : s.outq t ≠ none → x.inside = true) : Inv s' := by
  refine ⟨hacc, ?_, ?_, ?_, ?_, ?_, ?_, ?_, ?_, ?_⟩
  · rw [hupe]; exact h.up0
  · rw [hupe, hcur]; exact h.curOK
  · rw [hupe, hcur]; exact h.child
  · intro u hu
    rw [hupe, hproc] at hu
    rw [hthr]
    by_cases e : u = t
    · subst e; rw [hup] at hu; cases hu
    · simp only [e, if_false]; exact h.down u hu
  · intro u
    rw [hthr, hproc, hcur]
    by_cases e : u = t
    · subst e; simp only [if_true]; exact hg
    · simp only [e, if_false]; exact h.good u
  · rw [ho, h1, h2]; exact h.tsome
  · rw [ho, h1, h2]; exact h.tnone
  · intro u hu
    rw [ho] at hu
    rw [hthr]
    by_cases e : u = t
    · subst e; simp only [if_true]; exact hin hu
    · simp only [e, if_false]; exact h.tin u hu
  · rw [h3]; exact h.tlog

theorem good_top {p c} {f f' : Frame} {rest : List Frame} (hg : stackOK p c (f :: rest))
    (hf : f'.good p c) (hn : rest ≠ [] → f'.pc ≠ .ld1 → f'.l1 = c) :
    stackOK p c (f' :: rest) := by
  refine ⟨hf, ?_, hg.2.2⟩
  cases rest with
  | nil => trivial
  | cons g r => exact ⟨hn (by simp), hg.2.1.2⟩

/-- the frame-level facts every `lock_tty_wrapper` step needs -/
theorem stepFrame_inv {s s' : State} (h : Inv s) {t : Nat} {f : Frame} {rest : List Frame}
    (hup : s.up (s.proc t) = true) (hthr : s.thr t = .sync f rest)
    (hs : stepFrame s t (s.proc t) f rest = some s') : Inv s' := by
  have hg := h.good t
  rw [hthr] at hg
  have hg' : stackOK (s.proc t) (s.cur (s.proc t)) (f :: rest) := hg
  obtain ⟨hf, hn, hr⟩ := hg'
  have hnest : rest ≠ [] → (f.pc ≠ .ld1 → f.l1 = s.cur (s.proc t)) := by
    intro hne; cases rest with
    | nil => exact absurd rfl hne
    | cons g r => exact hn.1
  have hti := h.tin t
  rw [hthr] at hti
  unfold stepFrame at hs
  cases hpc : f.pc <;> simp only [hpc] at hs
  case ld1 =>
    injection hs with hs; subst hs
    refine h.upd t (.sync { f with pc := .aq1, l1 := s.cur (s.proc t) } rest)
      rfl rfl rfl rfl hup ?_ ?_ rfl rfl rfl rfl ?_
    · exact h.acc.pure t _ (by intro L; simp [hthr, TState.held, Frame.held, hpc, Pc.has1, Pc.has2])
    · exact good_top hg ⟨fun _ => Or.inl rfl, by simp [Pc.dpc]⟩ (fun _ _ => rfl)
    · intro hne; simpa [TState.inside, hpc, Pc.inCS] using hti hne
  case aq1 =>
    cases ha : (s.lk f.l1).acquire t with
    | none => simp [ha] at hs
    | some l =>
      simp only [ha, Option.map_some, Option.some.injEq] at hs; subst hs
      refine h.upd t (.sync { f with pc := .ld2 } rest) rfl rfl rfl rfl hup ?_ ?_ rfl rfl rfl rfl ?_
      · exact h.acc.acq t _ f.l1 l ha (by
          intro L; simp [hthr, TState.held, Frame.held, hpc, Pc.has1, Pc.has2]; omega)
      · exact good_top hg ⟨fun _ => hf.1 (by simp [hpc]), by simp [Pc.dpc]⟩
          (fun hne _ => hnest hne (by simp [hpc]))
      · intro hne; simpa [TState.inside, hpc, Pc.inCS] using hti hne
  case ld2 =>
    injection hs with hs; subst hs
    refine h.upd t (.sync { f with pc := .aq2, l2 := s.cur (s.proc t) } rest)
      rfl rfl rfl rfl hup ?_ ?_ rfl rfl rfl rfl ?_
    · exact h.acc.pure t _ (by intro L; simp [hthr, TState.held, Frame.held, hpc, Pc.has1, Pc.has2])
    · exact good_top hg ⟨fun _ => hf.1 (by simp [hpc]), fun _ => rfl⟩
        (fun hne _ => hnest hne (by simp [hpc]))
    · intro hne; simpa [TState.inside, hpc, Pc.inCS] using hti hne
  case aq2 =>
    cases ha : (s.lk f.l2).acquire t with
    | none => simp [ha] at hs
    | some l =>
      simp only [ha, Option.map_some, Option.some.injEq] at hs; subst hs
      refine h.upd t (.sync { f with pc := .cs } rest) rfl rfl rfl rfl hup ?_ ?_ rfl rfl rfl rfl ?_
      · exact h.acc.acq t _ f.l2 l ha (by
          intro L; simp [hthr, TState.held, Frame.held, hpc, Pc.has1, Pc.has2]; omega)
      · exact good_top hg ⟨fun _ => hf.1 (by simp [hpc]), fun _ => hf.2 (by simp [hpc, Pc.dpc])⟩
          (fun hne _ => hnest hne (by simp [hpc]))
      · intro _; simp [TState.inside, Pc.inCS]
  case cs =>
    by_cases hc : (rest.isEmpty && (s.outq t).isSome) = true
    · simp [hc] at hs
    · simp only [hc, Bool.false_eq_true, if_false, Option.some.injEq] at hs; subst hs
      refine h.upd t (.sync { f with pc := .rl2 } rest) rfl rfl rfl rfl hup ?_ ?_ rfl rfl rfl rfl ?_
      · exact h.acc.pure t _ (by intro L; simp [hthr, TState.held, Frame.held, hpc, Pc.has1, Pc.has2])
      · exact good_top hg ⟨fun _ => hf.1 (by simp [hpc]), fun _ => hf.2 (by simp [hpc, Pc.dpc])⟩
          (fun hne _ => hnest hne (by simp [hpc]))
      · intro hne
        cases rest with
        | nil =>
          exfalso; apply hc
          cases ho : s.outq t with
          | none => exact absurd ho hne
          | some v => simp
        | cons g gs =>
          have hgb : g.pc.inBody = true := hn.2
          have : g.pc.inCS = true := by cases hp : g.pc <;> simp_all [Pc.inBody, Pc.inCS]
          simp [TState.inside, this]
  case rl2 =>
    cases ha : (s.lk f.l2).release t with
    | none => simp [ha] at hs
    | some l =>
      simp only [ha, Option.map_some, Option.some.injEq] at hs; subst hs
      refine h.upd t (.sync { f with pc := .rl1 } rest) rfl rfl rfl rfl hup ?_ ?_ rfl rfl rfl rfl ?_
      · exact h.acc.rel t _ f.l2 l ha (by
          intro L; simp [hthr, TState.held, Frame.held, hpc, Pc.has1, Pc.has2]; omega)
      · exact good_top hg ⟨fun _ => hf.1 (by simp [hpc]), by simp [Pc.dpc]⟩
          (fun hne _ => hnest hne (by simp [hpc]))
      · intro hne; simpa [TState.inside, hpc, Pc.inCS] using hti hne
  case rl1 =>
    cases ha : (s.lk f.l1).release t with
    | none => simp [ha] at hs
    | some l =>
      simp only [ha, Option.map_some, Option.some.injEq] at hs; subst hs
      cases rest with
      | nil =>
        refine h.upd t .idle rfl rfl rfl rfl hup ?_ ?_ rfl rfl rfl rfl ?_
        · exact h.acc.rel t _ f.l1 l ha (by
            intro L; simp [hthr, TState.held, Frame.held, heldFs, hpc, Pc.has1, Pc.has2])
        · trivial
        · intro hne; have := hti hne; simp [TState.inside, hpc, Pc.inCS] at this
      | cons g gs =>
        refine h.upd t (.sync g gs) rfl rfl rfl rfl hup ?_ ?_ rfl rfl rfl rfl ?_
        · exact h.acc.rel t _ f.l1 l ha (by
            intro L; simp [hthr, TState.held, Frame.held, heldFs, hpc, Pc.has1, Pc.has2]; omega)
        · exact hr
        · intro hne; simpa [TState.inside, hpc, Pc.inCS] using hti hne

/-! ### the hand-over: `_tty_lock = mp_RLock()` while holding the old lock -/

theorem stack_swap : ∀ {st : List Frame}, stackOK 0 (.T 0) st → heldFs st (.T 0) = 0 →
    stackOK 0 (.M 0) st
  | [], _, _ => trivial
  | f :: r, hs, hh => by
    obtain ⟨hf, hn, hr⟩ := hs
    simp only [heldFs] at hh
    have hf0 : f.held (.T 0) = 0 := by omega
    have hr0 : heldFs r (.T 0) = 0 := by omega
    have hno1 : f.pc.has1 = false := by
      cases hb : f.pc.has1
      · rfl
      · have hne : f.pc ≠ .ld1 := by intro e; rw [e] at hb; simp [Pc.has1] at hb
        have hl : f.l1 = .T 0 := by
          rcases hf.1 hne with e | ⟨_, e, _⟩
          · exact e
          · exact e
        unfold Frame.held at hf0; simp [hb, hl] at hf0
    have hpcs : f.pc = .ld1 ∨ f.pc = .aq1 := by
      cases hp : f.pc <;> simp_all [Pc.has1]
    refine ⟨⟨?_, ?_⟩, ?_, stack_swap hr hr0⟩
    · intro hne
      rcases hf.1 hne with e | ⟨_, e, _⟩
      · exact Or.inr ⟨rfl, e, rfl⟩
      · exact Or.inr ⟨rfl, e, rfl⟩
    · intro hd; rcases hpcs with e | e <;> rw [e] at hd <;> simp [Pc.dpc] at hd
    · cases r with
      | nil => trivial
      | cons g gs =>
        exfalso
        have hgb : g.pc.inBody = true := hn.2
        have hg1 : g.pc.has1 = true := by cases hp : g.pc <;> simp_all [Pc.inBody, Pc.has1]
        have hgne : g.pc ≠ .ld1 := by intro e; rw [e] at hgb; simp [Pc.inBody] at hgb
        have hl : g.l1 = .T 0 := by
          rcases hr.1.1 hgne with e | ⟨_, e, _⟩
          · exact e
          · exact e
        simp only [heldFs] at hr0
        have : 1 ≤ g.held (.T 0) := by unfold Frame.held; simp [hg1, hl]
        omega

theorem good_swap {x : TState} (hg : x.good 0 (.T 0)) (hh : x.held (.T 0) = 0) :
    x.good 0 (.M 0) := by
  cases x with
  | idle => trivial
  | sync f r => exact stack_swap hg (by simpa [TState.held, heldFs] using hh)
  | start pc l pass c =>
    obtain ⟨h1, h2, h3, h4⟩ := hg
    refine ⟨?_, ?_, ?_, ?_⟩
    · intro hne
      rcases h1 hne with e | ⟨_, e, _⟩
      · exact Or.inr ⟨rfl, e, rfl⟩
      · exact Or.inr ⟨rfl, e, rfl⟩
    · intro e
      exfalso
      have hl : l = .T 0 := by
        rcases h1 (by rw [e]; simp) with e' | ⟨_, e', _⟩
        · exact e'
        · exact e'
      simp [TState.held, e, SPc.has, hl] at hh
    · intro _; rfl
    · intro e; exact absurd (h4 e).2 (by simp)

theorem stepStart_inv {s s' : State} (h : Inv s) {t : Nat} {pc : SPc} {l pass : Lk} {c : Nat}
    (hup : s.up (s.proc t) = true) (hthr : s.thr t = .start pc l pass c)
    (hs : stepStart s t (s.proc t) pc l pass c = some s') : Inv s' := by
  have hg := h.good t
  rw [hthr] at hg
  obtain ⟨g1, g2, g3, g4⟩ := hg
  unfold stepStart at hs
  cases pc <;> simp only at hs
  case ld =>
    injection hs with hs; subst hs
    refine h.upd t _ rfl rfl rfl rfl hup ?_ ?_ rfl rfl rfl rfl (fun hne => by have := h.tin t hne; simp [hthr, TState.inside] at this)
    · exact h.acc.pure t _ (by intro L; simp [hthr, TState.held, SPc.has])
    · exact ⟨fun _ => Or.inl rfl, by simp, by simp, by simp⟩
  case aq =>
    cases ha : (s.lk l).acquire t with
    | none => simp [ha] at hs
    | some x =>
      simp only [ha, Option.map_some, Option.some.injEq] at hs; subst hs
      refine h.upd t _ rfl rfl rfl rfl hup ?_ ?_ rfl rfl rfl rfl (fun hne => by have := h.tin t hne; simp [hthr, TState.inside] at this)
      · exact h.acc.acq t _ l x ha (by intro L; simp [hthr, TState.held, SPc.has])
      · exact ⟨fun _ => g1 (by simp), by simp, by simp, by simp⟩
  case chk =>
    injection hs with hs; subst hs
    refine h.upd t _ rfl rfl rfl rfl hup ?_ ?_ rfl rfl rfl rfl (fun hne => by have := h.tin t hne; simp [hthr, TState.inside] at this)
    · exact h.acc.pure t _ (by
        intro L; cases (s.cur (s.proc t)).isThreadLock <;> simp [hthr, TState.held, SPc.has])
    · have hc := h.curOK _ hup
      cases hb : (s.cur (s.proc t)).isThreadLock
      · have : s.cur (s.proc t) = .M 0 := by
          rcases hc with e | ⟨_, e⟩
          · exact e
          · rw [e] at hb; simp [Lk.isThreadLock] at hb
        exact ⟨fun _ => g1 (by simp), by simp, fun _ => this, by simp⟩
      · have : s.cur (s.proc t) = .T 0 ∧ s.proc t = 0 := by
          rcases hc with e | ⟨e0, e⟩
          · rw [e] at hb; simp [Lk.isThreadLock] at hb
          · exact ⟨e, e0⟩
        exact ⟨fun _ => g1 (by simp), fun _ => this, by simp, by simp⟩
  case sw =>
    injection hs with hs; subst hs
    obtain ⟨hc, hp0⟩ := g2 rfl
    have hl : l = .T 0 := by
      rcases g1 (by simp) with e | ⟨_, e, _⟩
      · rw [e, hc]
      · exact e
    have hown : (s.lk (.T 0)).owner = some t :=
      h.owner_of_held (by rw [hthr]; simp [TState.held, SPc.has, hl])
    have hfree : ∀ u, u ≠ t → (s.thr u).held (.T 0) = 0 := by
      intro u hu
      have := h.acc (.T 0) u
      rw [hown] at this
      have hne : ¬ (t = u) := fun e => hu e.symm
      simpa [hne] using this
    have htin : ∀ u, s.outq u ≠ none → (if u = t then TState.start .rl l (.M (s.proc t)) c else s.thr u).inside = true := by
      intro u hu
      by_cases e : u = t
      · subst e; have := h.tin u hu; simp [hthr, TState.inside] at this
      · simp only [e, if_false]; exact h.tin u hu
    refine ⟨?_, h.up0, ?_, ?_, ?_, ?_, h.tsome, h.tnone, htin, h.tlog⟩
    · exact h.acc.pure t _ (by intro L; simp [hthr, TState.held, SPc.has])
    · intro p hp
      show (if p = s.proc t then Lk.M (s.proc t) else s.cur p) = .M 0 ∨
        (p = 0 ∧ (if p = s.proc t then Lk.M (s.proc t) else s.cur p) = .T 0)
      by_cases e : p = s.proc t
      · left; simp [e, hp0]
      · simp only [e, if_false]; exact h.curOK p hp
    · intro p _ _
      show (if 0 = s.proc t then Lk.M (s.proc t) else s.cur 0) = .M 0
      simp [hp0]
    · intro u hu
      change s.up (s.proc u) = false at hu
      show (if u = t then _ else s.thr u) = TState.idle
      by_cases e : u = t
      · subst e; rw [hup] at hu; cases hu
      · simp only [e, if_false]; exact h.down u hu
    · intro u
      show TState.good (s.proc u) (if s.proc u = s.proc t then Lk.M (s.proc t) else s.cur (s.proc u))
        (if u = t then _ else s.thr u)
      by_cases e : u = t
      · subst e
        simp only [if_true, hp0]
        exact ⟨fun _ => Or.inr ⟨rfl, hl, rfl⟩, by simp, by simp, fun _ => ⟨rfl, rfl⟩⟩
      · simp only [e, if_false]
        by_cases ep : s.proc u = s.proc t
        · simp only [ep, if_true, hp0]
          have := h.good u
          rw [ep, hc, hp0] at this
          exact good_swap this (hfree u e)
        · simp only [ep, if_false]; exact h.good u
  case rd =>
    injection hs with hs; subst hs
    refine h.upd t _ rfl rfl rfl rfl hup ?_ ?_ rfl rfl rfl rfl (fun hne => by have := h.tin t hne; simp [hthr, TState.inside] at this)
    · exact h.acc.pure t _ (by intro L; simp [hthr, TState.held, SPc.has])
    · exact ⟨fun _ => g1 (by simp), by simp, by simp, fun _ => ⟨g3 rfl, g3 rfl⟩⟩
  case rl =>
    cases ha : (s.lk l).release t with
    | none => simp [ha] at hs
    | some x =>
      simp only [ha, Option.map_some, Option.some.injEq] at hs; subst hs
      refine h.upd t _ rfl rfl rfl rfl hup ?_ ?_ rfl rfl rfl rfl (fun hne => by have := h.tin t hne; simp [hthr, TState.inside] at this)
      · exact h.acc.rel t _ l x ha (by intro L; simp [hthr, TState.held, SPc.has])
      · exact ⟨fun _ => g1 (by simp), by simp, by simp, fun _ => g4 (Or.inl rfl)⟩
  case fk =>
    cases hcu : s.up c with
    | true => simp [hcu] at hs
    | false =>
      simp only [hcu, Bool.false_eq_true, if_false, Option.some.injEq] at hs; subst hs
      obtain ⟨hpass, hcM⟩ := g4 (Or.inr rfl)
      have hc0 : c ≠ 0 := by intro e; rw [e, h.up0] at hcu; cases hcu
      have hcur0 : s.cur 0 = .M 0 := by
        by_cases e : s.proc t = 0
        · have := hcM; rwa [e] at this
        · exact h.child _ e hup
      have htin : ∀ u, s.outq u ≠ none → (if u = t then TState.idle else s.thr u).inside = true := by
        intro u hu
        by_cases e : u = t
        · subst e; have := h.tin u hu; simp [hthr, TState.inside] at this
        · simp only [e, if_false]; exact h.tin u hu
      refine ⟨?_, ?_, ?_, ?_, ?_, ?_, h.tsome, h.tnone, htin, h.tlog⟩
      · exact h.acc.pure t _ (by intro L; simp [hthr, TState.held, SPc.has])
      · show (if 0 = c then true else s.up 0) = true
        simp [h.up0]
      · intro p hp
        change (if p = c then true else s.up p) = true at hp
        show (if p = c then pass else s.cur p) = .M 0 ∨
          (p = 0 ∧ (if p = c then pass else s.cur p) = .T 0)
        by_cases e : p = c
        · left; simp [e, hpass]
        · simp only [e, if_false] at hp ⊢; exact h.curOK p hp
      · intro p _ _
        show (if 0 = c then pass else s.cur 0) = .M 0
        have : ¬ (0 = c) := fun e => hc0 e.symm
        simp [this, hcur0]
      · intro u hu
        change (if s.proc u = c then true else s.up (s.proc u)) = false at hu
        show (if u = t then TState.idle else s.thr u) = TState.idle
        by_cases e : u = t
        · simp [e]
        · simp only [e, if_false]
          by_cases ep : s.proc u = c
          · simp [ep] at hu
          · simp only [ep, if_false] at hu; exact h.down u hu
      · intro u
        show TState.good (s.proc u) (if s.proc u = c then pass else s.cur (s.proc u))
          (if u = t then TState.idle else s.thr u)
        by_cases e : u = t
        · simp only [e, if_true]; trivial
        · simp only [e, if_false]
          by_cases ep : s.proc u = c
          · have : s.thr u = .idle := h.down u (by rw [ep]; exact hcu)
            rw [this]; trivial
          · simp only [ep, if_false]; exact h.good u

/-! ### all steps -/

theorem Inv.step {s s' : State} (h : Inv s) {t : Nat} {a : Act} (hs : step s t a = some s') :
    Inv s' := by
  unfold TIV.C14.step at hs
  cases a with
  | respond =>
    simp only at hs
    cases hp : s.pend with
    | nil => simp [hp] at hs
    | cons q ps =>
      simp only [hp, Option.some.injEq] at hs; subst hs
      refine ⟨h.acc, h.up0, h.curOK, h.child, h.down, h.good, ?_, ?_, h.tin, h.tlog⟩
      · intro u q' k hq
        have := h.tsome u q' k hq
        rw [hp] at this
        simpa using this
      · intro hn
        have := h.tnone hn
        rw [hp] at this
        simp at this
  | call =>
    simp only at hs
    cases hup : s.up (s.proc t) with
    | false => simp [hup] at hs
    | true =>
      simp only [hup, if_true] at hs
      cases hthr : s.thr t with
      | idle =>
        simp only [hthr, Option.some.injEq] at hs; subst hs
        refine h.upd t (.sync newFrame []) rfl rfl rfl rfl hup ?_ ?_ rfl rfl rfl rfl ?_
        · exact h.acc.pure t _ (by
            intro L; simp [hthr, TState.held, Frame.held, heldFs, newFrame, Pc.has1, Pc.has2])
        · exact ⟨⟨by simp [newFrame], by simp [newFrame, Pc.dpc]⟩, trivial, trivial⟩
        · intro hne; have := h.tin t hne; simp [hthr, TState.inside] at this
      | sync f rest =>
        simp only [hthr] at hs
        cases hb : f.pc.inBody with
        | false => simp [hb] at hs
        | true =>
          simp only [hb, if_true, Option.some.injEq] at hs; subst hs
          have hg := h.good t
          rw [hthr] at hg
          refine h.upd t (.sync newFrame (f :: rest)) rfl rfl rfl rfl hup ?_ ?_ rfl rfl rfl rfl ?_
          · exact h.acc.pure t _ (by
              intro L; simp [hthr, TState.held, Frame.held, heldFs, newFrame, Pc.has1, Pc.has2])
          · exact ⟨⟨by simp [newFrame], by simp [newFrame, Pc.dpc]⟩,
              ⟨by simp [newFrame], hb⟩, hg⟩
          · intro _
            have : f.pc.inCS = true := by cases hp : f.pc <;> simp_all [Pc.inBody, Pc.inCS]
            simp [TState.inside, this]
      | start pc l pass c => simp [hthr] at hs
  | start c =>
    simp only at hs
    cases hup : s.up (s.proc t) with
    | false => simp [hup] at hs
    | true =>
      simp only [hup, if_true] at hs
      cases hthr : s.thr t with
      | idle =>
        simp only [hthr, Option.some.injEq] at hs; subst hs
        refine h.upd t (.start .ld (.T 0) (.T 0) c) rfl rfl rfl rfl hup ?_ ?_ rfl rfl rfl rfl ?_
        · exact h.acc.pure t _ (by intro L; simp [hthr, TState.held, SPc.has])
        · exact ⟨by simp, by simp, by simp, by simp⟩
        · intro hne; have := h.tin t hne; simp [hthr, TState.inside] at this
      | sync f rest => simp [hthr] at hs
      | start pc l pass c => simp [hthr] at hs
  | adv =>
    simp only at hs
    cases hup : s.up (s.proc t) with
    | false => simp [hup] at hs
    | true =>
      simp only [hup, if_true] at hs
      cases hthr : s.thr t with
      | idle => simp [hthr] at hs
      | sync f rest => simp only [hthr] at hs; exact stepFrame_inv h hup hthr hs
      | start pc l pass c => simp only [hthr] at hs; exact stepStart_inv h hup hthr hs
  | fail =>
    simp only at hs
    cases hup : s.up (s.proc t) with
    | false => simp [hup] at hs
    | true =>
      simp only [hup, if_true] at hs
      cases hthr : s.thr t with
      | idle => simp [hthr] at hs
      | sync f rest => simp [hthr] at hs
      | start pc l pass c =>
        simp only [hthr] at hs
        by_cases hpc : pc = .fk
        · simp only [hpc, if_true, Option.some.injEq] at hs; subst hs
          refine h.upd t .idle rfl rfl rfl rfl hup ?_ ?_ rfl rfl rfl rfl ?_
          · exact h.acc.pure t _ (by intro L; simp [hthr, hpc, TState.held, SPc.has])
          · trivial
          · intro hne; have := h.tin t hne; simp [hthr, TState.inside] at this
        · simp [hpc] at hs
  | raise =>
    simp only at hs
    cases hup : s.up (s.proc t) with
    | false => simp [hup] at hs
    | true =>
      simp only [hup, if_true] at hs
      cases hthr : s.thr t with
      | idle => simp [hthr] at hs
      | start pc l pass c => simp [hthr] at hs
      | sync f rest =>
        simp only [hthr] at hs
        by_cases hpc : f.pc = .cs
        · rw [if_pos hpc] at hs
          have hg := h.good t
          rw [hthr] at hg
          have hg' : stackOK (s.proc t) (s.cur (s.proc t)) (f :: rest) := hg
          -- marking the activation as raising changes nothing the invariant looks at
          have h1 : Inv (setThr s t (.sync { f with exc := true } rest)) := by
            refine h.upd t (.sync { f with exc := true } rest) rfl rfl rfl rfl hup ?_ ?_ rfl rfl rfl rfl ?_
            · exact h.acc.pure t _ (by intro L; simp [hthr, TState.held, Frame.held])
            · exact good_top hg ⟨hg'.1.1, hg'.1.2⟩ (by
                intro hne
                cases rest with
                | nil => exact absurd rfl hne
                | cons g r => exact hg'.2.1.1)
            · intro _; simp [TState.inside, hpc, Pc.inCS]
          have hthr1 : (setThr s t (.sync { f with exc := true } rest)).thr t
              = .sync { f with exc := true } rest := by simp [setThr]
          exact stepFrame_inv h1 hup hthr1 hs
        · simp [hpc] at hs
  | wr =>
    simp only at hs
    cases hup : s.up (s.proc t) with
    | false => simp [hup] at hs
    | true =>
      simp only [hup, if_true] at hs
      cases hthr : s.thr t with
      | idle => simp [hthr] at hs
      | start pc l pass c => simp [hthr] at hs
      | sync f rest =>
        simp only [hthr] at hs
        by_cases hpc : f.pc = .cs
        · simp only [hpc, if_true] at hs
          cases ho : s.outq t with
          | some v => simp [ho] at hs
          | none =>
            simp only [ho, Option.some.injEq] at hs; subst hs
            have hin : (s.thr t).inside = true := by simp [hthr, TState.inside, hpc, Pc.inCS]
            -- the writer is inside, so nobody else is; it has nothing outstanding: nobody has
            have hnone : ∀ u, s.outq u = none := by
              intro u
              by_cases e : u = t
              · rw [e]; exact ho
              · cases hu : s.outq u with
                | none => rfl
                | some v =>
                  have : (s.thr u).inside = true := h.tin u (by rw [hu]; simp)
                  exact absurd (h.mutex this hin) e
            have hemp := h.tnone hnone
            have hre : s.repl = [] ∧ s.pend = [] := by simpa using hemp
            refine ⟨h.acc, h.up0, h.curOK, h.child, h.down, h.good, ?_, ?_, ?_, h.tlog⟩
            · intro u q k hq
              change (if u = t then some (s.nextQ, replyParts) else s.outq u) = some (q, k) at hq
              show s.repl ++ (s.pend ++ partsFrom s.nextQ replyParts) = partsFrom q k ∧ _
              by_cases e : u = t
              · simp only [e, if_true, Option.some.injEq, Prod.mk.injEq] at hq
                obtain ⟨e1, e2⟩ := hq
                subst e1; subst e2
                simp [hre.1, hre.2, replyParts]
              · simp only [e, if_false] at hq; rw [hnone u] at hq; cases hq
            · intro hall
              have := hall t
              change (if t = t then some (s.nextQ, replyParts) else s.outq t) = none at this
              simp at this
            · intro u hu
              change (if u = t then some (s.nextQ, replyParts) else s.outq u) ≠ none at hu
              by_cases e : u = t
              · rw [e]; exact hin
              · simp only [e, if_false] at hu; exact h.tin u hu
        · simp [hpc] at hs
  | rd =>
    simp only at hs
    cases hup : s.up (s.proc t) with
    | false => simp [hup] at hs
    | true =>
      simp only [hup, if_true] at hs
      cases hthr : s.thr t with
      | idle => simp [hthr] at hs
      | start pc l pass c => simp [hthr] at hs
      | sync f rest =>
        simp only [hthr] at hs
        by_cases hpc : f.pc = .cs
        · simp only [hpc, if_true] at hs
          cases ho : s.outq t with
          | none => simp [ho] at hs
          | some v =>
            obtain ⟨q, k⟩ := v
            cases hrp : s.repl with
            | nil => simp [ho, hrp] at hs
            | cons r rs =>
              simp only [ho, hrp, Option.some.injEq] at hs; subst hs
              obtain ⟨hq, hk0, hk2⟩ := h.tsome t q k ho
              have hin : (s.thr t).inside = true := by simp [hthr, TState.inside, hpc, Pc.inCS]
              have hothers : ∀ u, u ≠ t → s.outq u = none := by
                intro u e
                cases hu : s.outq u with
                | none => rfl
                | some v =>
                  have : (s.thr u).inside = true := h.tin u (by rw [hu]; simp)
                  exact absurd (h.mutex this hin) e
              rw [hrp] at hq
              -- k is 1 or 2
              have hk : k = 1 ∨ k = 2 := by unfold replyParts at hk2; omega
              refine ⟨h.acc, h.up0, h.curOK, h.child, h.down, h.good, ?_, ?_, ?_, ?_⟩
              · intro u q' k' hq'
                change (if u = t then (if k ≤ 1 then none else some (q, k - 1)) else s.outq u)
                  = some (q', k') at hq'
                show rs ++ s.pend = partsFrom q' k' ∧ _
                by_cases e : u = t
                · simp only [e, if_true] at hq'
                  rcases hk with hk | hk
                  · subst hk; simp at hq'
                  · subst hk
                    simp only [show ¬ (2 ≤ 1) by omega, if_false, Option.some.injEq,
                      Prod.mk.injEq] at hq'
                    obtain ⟨e1, e2⟩ := hq'
                    subst e1; subst e2
                    simp [partsFrom, replyParts] at hq ⊢
                    exact hq.2
                · simp only [e, if_false] at hq'; rw [hothers u e] at hq'; cases hq'
              · intro hall
                show rs ++ s.pend = []
                have := hall t
                change (if t = t then (if k ≤ 1 then none else some (q, k - 1)) else s.outq t)
                  = none at this
                simp only [if_true] at this
                rcases hk with hk | hk
                · subst hk; simp [partsFrom, replyParts] at hq; simp [hq.2.1, hq.2.2]
                · subst hk; simp at this
              · intro u hu
                change (if u = t then (if k ≤ 1 then none else some (q, k - 1)) else s.outq u)
                  ≠ none at hu
                by_cases e : u = t
                · rw [e]; exact hin
                · simp only [e, if_false] at hu; exact h.tin u hu
              · intro e he
                change e ∈ s.log ++ [(t, q, r)] at he
                simp only [List.mem_append, List.mem_singleton] at he
                rcases he with he | he
                · exact h.tlog e he
                · subst he
                  show r.1 = q
                  rcases hk with hk | hk
                  · subst hk; simp [partsFrom, replyParts] at hq; rw [hq.1]
                  · subst hk; simp [partsFrom, replyParts] at hq; rw [hq.1]
        · simp [hpc] at hs

theorem Reachable.inv {proc : Nat → Nat} {s : State} (h : Reachable proc s) : Inv s := by
  induction h with
  | init => exact inv_init proc
  | step t a _ hs ih => exact ih.step hs

end TIV.C14
