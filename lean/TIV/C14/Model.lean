/-!
# C14 — the terminal lock as a transition system (mirror of `term_image.utils`)

What is mirrored, statement by statement:

* `lock_tty_wrapper`:  `with _tty_lock, _tty_lock: return func(*args, **kwargs)`
  = `LOAD_GLOBAL _tty_lock; __enter__; LOAD_GLOBAL _tty_lock; __enter__; func(); __exit__; __exit__`
  (program counter `Pc`: `ld1 aq1 ld2 aq2 | cs | rl2 rl1`; the two `__exit__` calls
  release *the objects that were loaded*, not the current value of the global).
* `_process_start_wrapper` (the `_tty_lock` part):
  `with _tty_lock:` (`ld`, `aq`) `if isinstance(_tty_lock, _rlock_type):` (`chk`, re-reads the
  global) `self._tty_lock = _tty_lock = mp_RLock()` (`sw`) `else: self._tty_lock = _tty_lock`
  (`rd`), `__exit__` (`rl`), then the original `Process.start` (`fk`).
* `_process_run_wrapper` / import-time adoption in the child: the child's `_tty_lock` global
  becomes the lock object the parent put on the `Process` object (`fk` sets `cur child`).

Every process `p` has its own module global `_tty_lock` (`cur p`) and its own
`threading.RLock` (`Lk.T p`); `Lk.M p` is the `multiprocessing.RLock` created by process `p`'s
start wrapper. Threads are natural numbers (no bound), `proc t` is the process a thread runs
in. Inside the body of a synchronized section (`cs`) a thread may call another synchronized function
(`call`: re-entrant nesting, any depth — `get_terminal_name_version` → `query_terminal` →
`write_tty` / `read_tty`), write a query to the (FIFO) terminal (`wr`, when it has no reply
outstanding), read one part of a reply (`rd`; every reply arrives in `replyParts = 2` parts, e.g.
everything up to the `CSI` of the DA1 reply, then the rest of the DA1 reply — the terminal delivers
the parts one at a time, `respond`), or return (`adv`). COMPOUND SECTION: the activations that
write the query and read the parts may be different nested calls, but the **outermost** activation
only returns (releases the lock) when the thread has no reply part outstanding — that is the
`with _tty_lock, _tty_lock:` around `query_terminal(…)` + `read_tty()` in
`get_terminal_name_version` / `get_fg_bg_colors`, and `more=… endswith(b"c")` in `get_cell_size`. Starting a process from inside a
synchronized call is excluded (documented as unsupported): `start` needs an idle thread.
-/
namespace TIV.C14

/-- lock objects: the thread lock of process `p`, the process lock created by process `p` -/
inductive Lk where
  | T (p : Nat)
  | M (p : Nat)
  deriving DecidableEq, Repr

/-- a re-entrant lock: `threading.RLock` / `multiprocessing.RLock` -/
structure LockSt where
  owner : Option Nat := none
  count : Nat := 0
  deriving DecidableEq, Repr

/-- `RLock.acquire()` by thread `t`; `none` = the call blocks -/
def LockSt.acquire (l : LockSt) (t : Nat) : Option LockSt :=
  match l.owner with
  | none => some { owner := some t, count := 1 }
  | some o => if o = t then some { owner := some t, count := l.count + 1 } else none

/-- `RLock.release()` by thread `t`; `none` = `RuntimeError` (not the owner) -/
def LockSt.release (l : LockSt) (t : Nat) : Option LockSt :=
  match l.owner with
  | none => none
  | some o =>
    if o = t then
      if l.count ≤ 1 then some { owner := none, count := 0 }
      else some { owner := some t, count := l.count - 1 }
    else none

/-- program counter inside `lock_tty_wrapper` (what the *next* step of the frame does) -/
inductive Pc where
  | ld1 | aq1 | ld2 | aq2 | cs | rl2 | rl1
  deriving DecidableEq, Repr

/-- one activation of `lock_tty_wrapper` -/
structure Frame where
  pc : Pc
  l1 : Lk   -- object loaded by the first `with` item (meaningful once `pc` is past `ld1`)
  l2 : Lk   -- object loaded by the second `with` item (meaningful once `pc` is past `ld2`)
  exc : Bool := false  -- the body raised: the two `__exit__`s run while the exception propagates
  deriving DecidableEq, Repr

/-- program counter inside `_process_start_wrapper` -/
inductive SPc where
  | ld | aq | chk | sw | rd | rl | fk
  deriving DecidableEq, Repr

inductive TState where
  | idle
  | sync (top : Frame) (rest : List Frame)          -- innermost activation first
  | start (pc : SPc) (l : Lk) (pass : Lk) (child : Nat)
  deriving DecidableEq, Repr

structure State where
  proc : Nat → Nat            -- process of each thread (never changes)
  thr : Nat → TState
  cur : Nat → Lk              -- the module global `_tty_lock` of each process
  up : Nat → Bool             -- the process is running
  lk : Lk → LockSt
  nextQ : Nat                 -- terminal: next query id
  outq : Nat → Option (Nat × Nat)  -- per thread: (its query, number of reply parts not yet read)
  pend : List (Nat × Nat)     -- reply parts (query, part index) the terminal has not delivered yet
  repl : List (Nat × Nat)     -- reply parts in the input queue, not yet read
  log : List (Nat × Nat × (Nat × Nat)) -- (thread, query it wrote, reply part it read)

/-- process 0 is the root; every process is imported with a fresh `threading.RLock` -/
def init (proc : Nat → Nat) : State :=
  { proc := proc, thr := fun _ => .idle, cur := fun p => .T p, up := fun p => p == 0,
    lk := fun _ => {}, nextQ := 0, outq := fun _ => none, pend := [], repl := [], log := [] }

inductive Act where
  | call                 -- call a synchronized function (from idle, or nested from inside one)
  | start (child : Nat)  -- call `Process.start()` on a process object (from idle)
  | adv                  -- execute the next step of the innermost activation (in the body: return)
  | raise                -- the body of the innermost activation raises (the `with` statement still
                         -- releases both items; the caller's body may handle it or raise in turn)
  | fail                 -- the original `Process.start()` raises (unpicklable target, fork() failing, …):
                         -- no child comes up; whatever the wrapper did to the lock before stays
  | wr                   -- write a query to the terminal (body; no reply outstanding)
  | rd                   -- read the next reply part from the input queue (body; blocks when empty)
  | respond              -- the terminal delivers the oldest undelivered reply part (thread id ignored)
  deriving DecidableEq, Repr

def setThr (s : State) (t : Nat) (x : TState) : State :=
  { s with thr := fun i => if i = t then x else s.thr i }

def setLk (s : State) (l : Lk) (x : LockSt) : State :=
  { s with lk := fun i => if i = l then x else s.lk i }

/-- `isinstance(_tty_lock, _rlock_type)` -/
def Lk.isThreadLock : Lk → Bool
  | .T _ => true
  | .M _ => false

def newFrame : Frame := { pc := .ld1, l1 := .T 0, l2 := .T 0 }

/-- may the function body call another synchronized function here? -/
def Pc.inBody : Pc → Bool
  | .cs => true
  | _ => false

/-- every reply arrives in two parts (head, tail) -/
def replyParts : Nat := 2

/-- the parts of the reply to query `q` of which `k` are still to come, oldest first -/
def partsFrom (q : Nat) : Nat → List (Nat × Nat)
  | 0 => []
  | k + 1 => (q, replyParts - (k + 1)) :: partsFrom q k

/-- one step of the innermost `lock_tty_wrapper` activation of thread `t` (process `p`) -/
def stepFrame (s : State) (t p : Nat) (f : Frame) (rest : List Frame) : Option State :=
  match f.pc with
  | .ld1 => some (setThr s t (.sync { f with pc := .aq1, l1 := s.cur p } rest))
  | .aq1 => (s.lk f.l1).acquire t |>.map fun l =>
      setThr (setLk s f.l1 l) t (.sync { f with pc := .ld2 } rest)
  | .ld2 => some (setThr s t (.sync { f with pc := .aq2, l2 := s.cur p } rest))
  | .aq2 => (s.lk f.l2).acquire t |>.map fun l =>
      setThr (setLk s f.l2 l) t (.sync { f with pc := .cs } rest)
  | .cs =>
    -- return from the body; the outermost activation only when no reply part is outstanding
    if rest.isEmpty && (s.outq t).isSome then none
    else some (setThr s t (.sync { f with pc := .rl2 } rest))
  | .rl2 => (s.lk f.l2).release t |>.map fun l =>
      setThr (setLk s f.l2 l) t (.sync { f with pc := .rl1 } rest)
  | .rl1 => (s.lk f.l1).release t |>.map fun l =>
      setThr (setLk s f.l1 l) t (match rest with | [] => .idle | g :: gs => .sync g gs)

/-- one step of `_process_start_wrapper` in thread `t` (process `p`) -/
def stepStart (s : State) (t p : Nat) (pc : SPc) (l pass : Lk) (child : Nat) : Option State :=
  match pc with
  | .ld => some (setThr s t (.start .aq (s.cur p) pass child))
  | .aq => (s.lk l).acquire t |>.map fun x => setThr (setLk s l x) t (.start .chk l pass child)
  | .chk => some (setThr s t (.start (if (s.cur p).isThreadLock then .sw else .rd) l pass child))
  | .sw => some (setThr { s with cur := fun i => if i = p then .M p else s.cur i } t
      (.start .rl l (.M p) child))
  | .rd => some (setThr s t (.start .rl l (s.cur p) child))
  | .rl => (s.lk l).release t |>.map fun x => setThr (setLk s l x) t (.start .fk l pass child)
  | .fk =>
    if s.up child then none
    else some (setThr { s with up := fun i => if i = child then true else s.up i,
                               cur := fun i => if i = child then pass else s.cur i } t .idle)

/-- the transition function; `none` = the step is not enabled (blocked or not applicable) -/
def step (s : State) (t : Nat) (a : Act) : Option State :=
  match a with
  | .respond => match s.pend with
      | [] => none
      | q :: ps => some { s with pend := ps, repl := s.repl ++ [q] }
  | a =>
    if s.up (s.proc t) then
      match s.thr t, a with
      | .idle, .call => some (setThr s t (.sync newFrame []))
      | .idle, .start c => some (setThr s t (.start .ld (.T 0) (.T 0) c))
      | .sync f rest, .call =>
          if f.pc.inBody then some (setThr s t (.sync newFrame (f :: rest))) else none
      | .sync f _, .wr =>
          if f.pc = .cs then
            match s.outq t with
            | some _ => none
            | none => some { s with nextQ := s.nextQ + 1,
                                    pend := s.pend ++ partsFrom s.nextQ replyParts,
                                    outq := fun i => if i = t then some (s.nextQ, replyParts) else s.outq i }
          else none
      | .sync f _, .rd =>
          if f.pc = .cs then
            match s.outq t, s.repl with
            | some (q, k), r :: rs =>
                some { s with repl := rs, log := s.log ++ [(t, q, r)],
                              outq := fun i => if i = t then (if k ≤ 1 then none else some (q, k - 1))
                                               else s.outq i }
            | _, _ => none
          else none
      | .sync f rest, .adv => stepFrame s t (s.proc t) f rest
      | .sync f rest, .raise =>
          -- like a return, but through the exception path of the `with` statement; as for a return,
          -- the outermost activation is not left while a reply part is outstanding (an exception
          -- that abandons a reply is outside `own_reply`, not outside `mutex`)
          if f.pc = .cs then
            stepFrame (setThr s t (.sync { f with exc := true } rest)) t (s.proc t)
              { f with exc := true } rest
          else none
      | .start pc l pass c, .adv => stepStart s t (s.proc t) pc l pass c
      | .start pc _ _ _, .fail =>
          -- `_process_start_wrapper.__wrapped__(self, …)` raises: the exception propagates out of the
          -- wrapper, the global keeps naming the (possibly just migrated) lock
          if pc = .fk then some (setThr s t .idle) else none
      | _, _ => none
    else none

/-- reachable states -/
inductive Reachable (proc : Nat → Nat) : State → Prop where
  | init : Reachable proc (init proc)
  | step {s s' : State} (t : Nat) (a : Act) : Reachable proc s → step s t a = some s' → Reachable proc s'

/-- run a schedule; the result list says, per step, whether it was enabled -/
def runSched (s : State) : List (Nat × Act) → State × List Bool
  | [] => (s, [])
  | (t, a) :: rest =>
    match step s t a with
    | some s' => let (e, bs) := runSched s' rest; (e, true :: bs)
    | none => let (e, bs) := runSched s rest; (e, false :: bs)

/-! ### observations -/

def Pc.inCS : Pc → Bool
  | .cs => true
  | _ => false

/-- the thread is executing the body of a synchronized function (possibly of an outer call) -/
def TState.inside : TState → Bool
  | .sync f rest => f.pc.inCS || rest.any (·.pc.inCS)
  | _ => false

/-- the `sync` ops of the wrapper in program order, as the translator extracts them from the
    bytecode of `lock_tty_wrapper` -/
def syncOps : List String := ["load _tty_lock", "enter", "load _tty_lock", "enter", "call"]

/-- the ops of `_process_start_wrapper` on the terminal lock, in bytecode order -/
def startOps : List String :=
  ["load _tty_lock", "enter", "load _tty_lock", "load _rlock_type", "new", "pass",
   "store _tty_lock", "load _tty_lock", "pass"]

/-- every code object of utils.py that touches the global `_tty_lock`, and how: the three
    synchronized sections (the decorator's wrapper and two inline ones) are the doubled `with` the
    frame program `Pc` mirrors; the start wrapper is `SPc`; the two remaining stores are the child's
    adoption (`fk` sets `cur child`) and the module's initialisation (`init`). -/
def lockSites : List String :=
  ["<module>: store load", "_adopt_process_locks: store",
   "_process_start_wrapper: load+enter load store load",
   "get_fg_bg_colors: load+enter load+enter", "get_terminal_name_version: load+enter load+enter",
   "lock_tty_wrapper: load+enter load+enter"]

/-- source order of the module-level statements of utils.py that decide what `_rlock_type` is:
    `_rlock_type = type(_tty_lock)` is evaluated while `_tty_lock` still is the module's own fresh
    `threading.RLock` — BEFORE the import-time adoption of the parent's lock. This is what makes
    `isinstance(_tty_lock, _rlock_type)` mean `Lk.isThreadLock` in every process, including a child
    that adopted the process lock while importing the module (`fk` with `cur child = M _`). -/
def initOrder : List String :=
  ["_tty_lock = RLock()", "_rlock_type = type(_tty_lock)", "adopt current_process()"]

/-- functions that must be synchronized through `lock_tty` (anchors of the property) -/
def requiredUsers : List String :=
  ["term_image.utils.query_terminal", "term_image.utils.read_tty", "term_image.utils.write_tty",
   "term_image.widget._urwid.UrwidImageScreen.draw_screen",
   "term_image.widget._urwid.UrwidImageScreen.flush",
   "term_image.widget._urwid.UrwidImageScreen.get_available_raw_input",
   "term_image.widget._urwid.UrwidImageScreen.write"]

end TIV.C14
