import TIV.C14.Model
/-!
# C14 — the inductive invariant

`Inv s` says, for a reachable state:
* **accounting** — for every lock `L` and thread `u`, the number of acquisitions of `L` that
  `u`'s activations have made and not yet released is `count L` if `u` owns `L`, else `0`;
* **processes** — the root's global names `T 0` or `M 0`; every child is up only after the swap
  and names `M 0`; threads of a process that is not up are idle;
* **loaded objects** — an object loaded by a `with` item is the lock the global names *now*, or
  (root only, after the swap) the stale thread lock `T 0`; the object loaded by the **second**
  item of an activation that is at/after its second acquisition is the lock the global names
  now (this is exactly what the doubled `with` buys);
* **stack discipline** — outer activations sit in the function body; an inner activation's
  first item is the current lock (re-entrancy);
* **terminal** — the FIFO (delivered ++ undelivered parts) holds exactly the outstanding parts of the
  reply to the one thread that has a reply outstanding, and that thread is inside a section.
-/
namespace TIV.C14

/-! ### held counts -/

def Pc.has1 : Pc → Bool
  | .ld1 | .aq1 => false
  | _ => true

def Pc.has2 : Pc → Bool
  | .cs | .rl2 => true
  | _ => false

def Frame.held (f : Frame) (L : Lk) : Nat :=
  (if f.pc.has1 = true ∧ f.l1 = L then 1 else 0) + (if f.pc.has2 = true ∧ f.l2 = L then 1 else 0)

def heldFs : List Frame → Lk → Nat
  | [], _ => 0
  | f :: r, L => f.held L + heldFs r L

def SPc.has : SPc → Bool
  | .chk | .sw | .rd | .rl => true
  | _ => false

def TState.held : TState → Lk → Nat
  | .idle, _ => 0
  | .sync f r, L => f.held L + heldFs r L
  | .start pc l _ _, L => if pc.has = true ∧ l = L then 1 else 0

def Acc (thr : Nat → TState) (lk : Lk → LockSt) : Prop :=
  ∀ L u, (thr u).held L = if (lk L).owner = some u then (lk L).count else 0

theorem Acc.pure {thr lk} (h : Acc thr lk) (t : Nat) (x : TState)
    (hx : ∀ L, x.held L = (thr t).held L) :
    Acc (fun i => if i = t then x else thr i) lk := by
  intro L u
  by_cases hu : u = t
  · subst hu; simp only [if_true]; rw [hx]; exact h L u
  · simp only [hu, if_false]; exact h L u

theorem Acc.acq {thr lk} (h : Acc thr lk) (t : Nat) (x : TState) (L0 : Lk) (l' : LockSt)
    (ha : (lk L0).acquire t = some l')
    (hx : ∀ L, x.held L = (thr t).held L + if L0 = L then 1 else 0) :
    Acc (fun i => if i = t then x else thr i) (fun i => if i = L0 then l' else lk i) := by
  intro L u
  have h1 := h L u
  have h2 := h L t
  unfold LockSt.acquire at ha
  by_cases hL : L = L0
  · subst hL
    by_cases hu : u = t
    · subst hu
      simp only [if_true]; rw [hx]; simp only [if_true]
      split at ha
      · rename_i ho; simp [ho] at h1; injection ha with ha; subst ha; simp; omega
      · rename_i o ho
        split at ha
        · rename_i hot; subst hot; injection ha with ha; subst ha; simp [ho] at h1; simp; omega
        · cases ha
    · simp only [hu, if_false, if_true]
      split at ha
      · rename_i ho; simp [ho] at h1; injection ha with ha; subst ha
        simp; rw [h1]; simp; intro e; exact absurd e.symm hu
      · rename_i o ho
        split at ha
        · rename_i hot; subst hot; injection ha with ha; subst ha
          have : ¬ (o = u) := fun e => hu e.symm
          simp [ho, this] at h1; simp [this]; exact h1
        · cases ha
  · by_cases hu : u = t
    · subst hu; simp only [if_true, hL, if_false]; rw [hx]; have hL' : ¬ (L0 = L) := fun e => hL e.symm; simp only [hL', if_false, Nat.add_zero]; exact h1
    · simp only [hu, hL, if_false]; exact h1

theorem Acc.rel {thr lk} (h : Acc thr lk) (t : Nat) (x : TState) (L0 : Lk) (l' : LockSt)
    (ha : (lk L0).release t = some l')
    (hx : ∀ L, x.held L + (if L0 = L then 1 else 0) = (thr t).held L) :
    Acc (fun i => if i = t then x else thr i) (fun i => if i = L0 then l' else lk i) := by
  intro L u
  have h1 := h L u
  have h2 := h L t
  have hx' := hx L
  unfold LockSt.release at ha
  by_cases hL : L = L0
  · subst hL
    simp only [if_true] at hx'
    split at ha
    · cases ha
    · rename_i o ho
      split at ha
      · rename_i hot; subst hot
        simp [ho] at h2
        by_cases hu : u = o
        · subst hu
          simp only [if_true]
          split at ha
          · injection ha with ha; subst ha; simp; omega
          · injection ha with ha; subst ha; simp; omega
        · have hne : ¬ (o = u) := fun e => hu e.symm
          simp [ho, hne] at h1
          simp only [hu, if_false, if_true]
          split at ha
          · injection ha with ha; subst ha; simp; exact h1
          · injection ha with ha; subst ha; simp [hne]; exact h1
      · cases ha
  · have hL' : ¬ (L0 = L) := fun e => hL e.symm
    simp only [hL', if_false] at hx'
    by_cases hu : u = t
    · subst hu; simp only [if_true, hL, if_false]; omega
    · simp only [hu, hL, if_false]; exact h1

/-! ### what a thread has loaded -/

/-- `L` is the lock the global names now, or (root, after the swap) the stale thread lock -/
def stale (p : Nat) (c L : Lk) : Prop := L = c ∨ (p = 0 ∧ L = .T 0 ∧ c = .M 0)

/-- at or after the second acquisition, before the second release -/
def Pc.dpc : Pc → Bool
  | .aq2 | .cs | .rl2 => true
  | _ => false

def Frame.good (p : Nat) (c : Lk) (f : Frame) : Prop :=
  (f.pc ≠ .ld1 → stale p c f.l1) ∧ (f.pc.dpc = true → f.l2 = c)

def nestOK (c : Lk) (f : Frame) : List Frame → Prop
  | [] => True
  | g :: _ => (f.pc ≠ .ld1 → f.l1 = c) ∧ g.pc.inBody = true

def stackOK (p : Nat) (c : Lk) : List Frame → Prop
  | [] => True
  | f :: r => f.good p c ∧ nestOK c f r ∧ stackOK p c r

def TState.good (p : Nat) (c : Lk) : TState → Prop
  | .idle => True
  | .sync f r => stackOK p c (f :: r)
  | .start pc l pass _ =>
      (pc ≠ .ld → stale p c l) ∧ (pc = .sw → c = .T 0 ∧ p = 0) ∧ (pc = .rd → c = .M 0) ∧
      ((pc = .rl ∨ pc = .fk) → pass = .M 0 ∧ c = .M 0)

structure Inv (s : State) : Prop where
  acc : Acc s.thr s.lk
  up0 : s.up 0 = true
  curOK : ∀ p, s.up p = true → s.cur p = .M 0 ∨ (p = 0 ∧ s.cur p = .T 0)
  child : ∀ p, p ≠ 0 → s.up p = true → s.cur 0 = .M 0
  down : ∀ t, s.up (s.proc t) = false → s.thr t = .idle
  good : ∀ t, (s.thr t).good (s.proc t) (s.cur (s.proc t))
  tsome : ∀ u q k, s.outq u = some (q, k) →
    s.repl ++ s.pend = partsFrom q k ∧ 0 < k ∧ k ≤ replyParts
  tnone : (∀ u, s.outq u = none) → s.repl ++ s.pend = []
  tin : ∀ u, s.outq u ≠ none → (s.thr u).inside = true
  tlog : ∀ e ∈ s.log, e.2.2.1 = e.2.1

theorem inv_init (proc : Nat → Nat) : Inv (init proc) := by
  refine ⟨?_, ?_, ?_, ?_, ?_, ?_, ?_, ?_, ?_, ?_⟩ <;> simp [init, Acc, TState.held, TState.good]

/-! ### a thread inside the body holds the lock its process's global names -/

theorem frame_inCS_held {p c} {f : Frame} (hg : f.good p c) (hc : f.pc.inCS = true) :
    1 ≤ f.held c := by
  have h2 : f.pc.has2 = true := by cases hp : f.pc <;> simp_all [Pc.inCS, Pc.has2]
  have hd : f.pc.dpc = true := by cases hp : f.pc <;> simp_all [Pc.inCS, Pc.dpc]
  have := hg.2 hd
  unfold Frame.held; simp [h2, this]

theorem stack_inCS_held {p c} : ∀ {st : List Frame}, stackOK p c st →
    st.any (·.pc.inCS) = true → 1 ≤ heldFs st c
  | [], _, h => by simp at h
  | f :: r, hs, h => by
    simp only [List.any_cons, Bool.or_eq_true] at h
    simp only [heldFs]
    rcases h with h | h
    · have := frame_inCS_held hs.1 h; omega
    · have := stack_inCS_held hs.2.2 h; omega

theorem inside_held {p c} {x : TState} (hg : x.good p c) (hi : x.inside = true) :
    1 ≤ x.held c := by
  cases x with
  | idle => simp [TState.inside] at hi
  | start => simp [TState.inside] at hi
  | sync f r =>
    have : (f :: r).any (·.pc.inCS) = true := by
      simpa [TState.inside, List.any_cons] using hi
    simpa [TState.held, heldFs] using stack_inCS_held hg this

theorem Inv.owner_of_held {s : State} (h : Inv s) {u : Nat} {L : Lk}
    (hh : 1 ≤ (s.thr u).held L) : (s.lk L).owner = some u := by
  have := h.acc L u
  by_cases ho : (s.lk L).owner = some u
  · exact ho
  · simp [ho] at this; omega

theorem Inv.inside_owns {s : State} (h : Inv s) {u : Nat} (hi : (s.thr u).inside = true) :
    (s.lk (s.cur (s.proc u))).owner = some u :=
  h.owner_of_held (inside_held (h.good u) hi)

theorem Inv.inside_up {s : State} (h : Inv s) {u : Nat} (hi : (s.thr u).inside = true) :
    s.up (s.proc u) = true := by
  cases hu : s.up (s.proc u)
  · rw [h.down u hu] at hi; simp [TState.inside] at hi
  · rfl

/-- all running processes whose threads can be inside name the same lock, or are the same process -/
theorem Inv.cur_eq {s : State} (h : Inv s) {p q : Nat} (hp : s.up p = true) (hq : s.up q = true) :
    s.cur p = s.cur q := by
  by_cases hpq : p = q
  · rw [hpq]
  · have key : ∀ a b, s.up a = true → s.up b = true → a ≠ 0 → s.cur a = s.cur b := by
      intro a b ha hb ha0
      have h0 := h.child a ha0 ha
      have ca : s.cur a = .M 0 := by
        rcases h.curOK a ha with e | ⟨e, _⟩
        · exact e
        · exact absurd e ha0
      have cb : s.cur b = .M 0 := by
        rcases h.curOK b hb with e | ⟨e, e2⟩
        · exact e
        · subst e; exact h0
      rw [ca, cb]
    by_cases hp0 : p = 0
    · have hq0 : q ≠ 0 := fun e => hpq (by rw [hp0, e])
      exact (key q p hq hp hq0).symm
    · exact key p q hp hq hp0

theorem Inv.mutex {s : State} (h : Inv s) {t u : Nat}
    (ht : (s.thr t).inside = true) (hu : (s.thr u).inside = true) : t = u := by
  have e := h.cur_eq (h.inside_up ht) (h.inside_up hu)
  have o1 := h.inside_owns ht
  have o2 := h.inside_owns hu
  rw [e] at o1
  rw [o1] at o2
  injection o2

end TIV.C14
