import TIV.C06.Proofs
/-!
# C06, new API: `Renderable.draw` / `_animate_` on the terminal model
-/
namespace TIV.C06
open TIV Term

/-- the state between two frames of `_animate_`: the cursor is at the top-left cell of the render
    rectangle inside the padded box anchored at row `r0`, and the whole box is visible -/
structure Home (c : NewCfg) (r0 : Nat) (t : Term) : Prop where
  row : t.row = r0 + c.pad.t
  col : t.col = c.pad.l
  pw : t.pw = false
  lm : t.lm = 0
  fitW : c.Wp ≤ t.W
  visTop : t.top ≤ r0
  visBot : r0 + c.Hp ≤ t.top + t.H

theorem Home.ready {c : NewCfg} {r0 : Nat} {t : Term} (hH : Home c r0 t) (hw : 0 < c.w) (hh : 0 < c.h) :
    Ready t (r0 + c.pad.t) c.pad.l c.w c.h 0 := by
  have h1 := hH.fitW; have h2 := hH.visTop; have h3 := hH.visBot
  unfold NewCfg.Wp at h1; unfold NewCfg.Hp at h3
  exact ⟨hH.row, hH.col, hH.pw, by omega, by omega, by omega, hh, hw⟩

/-- what one later frame does: drawn over exactly the render rectangle, cursor back home -/
structure FrameEff (c : NewCfg) (r0 : Nat) (t t' : Term) : Prop where
  home : Home c r0 t'
  frame : Frame t t'
  sgr : (t.fg = none ∧ t.bg = none) → (t'.fg = none ∧ t'.bg = none)
  log : ∃ new, t'.log = new ++ t.log ∧ (∀ wr ∈ new, InRect (r0 + c.pad.t) c.pad.l c.w c.h wr) ∧
        ∀ di, di < c.h → CoversRow new (r0 + c.pad.t) c.pad.l c.w di

theorem int_pred (n : Nat) (h : 0 < n) : ((n : Int) - 1) = ((n - 1 : Nat) : Int) := by omega

theorem new_frame (c : NewCfg) (K : TermKind → Prop) (f : Lines) (hf : FrameOK K c.w c.h f)
    (hclear : ∀ a ∈ c.clear, Tok.inert a = true) (hw : 0 < c.w) (hh : 0 < c.h)
    (r0 : Nat) (t : Term) (hK : K t.kind) (hH : Home c r0 t) :
    FrameEff c r0 t (t.run (c.frameToks f)) := by
  unfold NewCfg.frameToks
  rw [Term.run_append, Term.run_append]
  have h1 := moved_inert c.clear hclear t hH.pw
  generalize t.run c.clear = t1 at h1 ⊢
  have hR1 : Ready t1 (r0 + c.pad.t) c.pad.l c.w c.h 0 := by
    have hR := hH.ready hw hh
    exact ⟨h1.row.trans hR.row, h1.col.trans hR.col, h1.pw, by rw [h1.frame.W]; exact hR.fitW,
      by rw [h1.frame.top]; exact hR.visTop, by rw [h1.frame.top, h1.frame.H]; exact hR.visBot, hh, hw⟩
  have h2 := block_ok K c.w c.h c.pad.l f hh hf t1 (r0 + c.pad.t) (by rw [h1.frame.kind]; exact hK)
    (by rw [h1.frame.lm]; exact hH.lm) hR1
  generalize t1.run (joinSep c.pad.l f) = t2 at h2 ⊢
  have hW2 : t2.W = t.W := h2.frame.W.trans h1.frame.W
  have htop2 : t2.top = t.top := h2.frame.top.trans h1.frame.top
  have hfit := hH.fitW; have hvt := hH.visTop; have hvb := hH.visBot
  unfold NewCfg.Wp at hfit; unfold NewCfg.Hp at hvb
  have h3 : Moved t2 (t2.run c.home) (t2.row - (c.h - 1)) c.pad.l := by
    unfold NewCfg.home
    rw [int_pred c.h hh]
    exact moved_home t2 (c.h - 1) c.pad.l (by rw [h2.row, htop2]; omega) (by rw [hW2]; omega)
  generalize t2.run c.home = t3 at h3 ⊢
  have hfr : Frame t t3 := (h1.frame.trans h2.frame).trans h3.frame
  obtain ⟨new, hnew, hin, hcov⟩ := h2.log
  refine ⟨⟨by rw [h3.row, h2.row]; omega, h3.col, h3.pw, by rw [hfr.lm]; exact hH.lm,
      by rw [hfr.W]; exact hH.fitW, by rw [hfr.top]; exact hH.visTop, by rw [hfr.top, hfr.H]; exact hH.visBot⟩,
    hfr, ?_, new, ?_, hin, hcov rfl⟩
  · intro hd
    have := h2.sgr (by rw [h1.fg, h1.bg]; exact hd)
    rw [h3.fg, h3.bg]; exact this
  · rw [h3.log, hnew, h1.log]

/-- what the later frames do together -/
structure LoopEff (c : NewCfg) (r0 : Nat) (t t' : Term) : Prop where
  home : Home c r0 t'
  frame : Frame t t'
  sgr : (t.fg = none ∧ t.bg = none) → (t'.fg = none ∧ t'.bg = none)
  log : ∃ new, t'.log = new ++ t.log ∧ ∀ wr ∈ new, InRect (r0 + c.pad.t) c.pad.l c.w c.h wr

theorem new_loop (c : NewCfg) (K : TermKind → Prop) (hclear : ∀ a ∈ c.clear, Tok.inert a = true)
    (hw : 0 < c.w) (hh : 0 < c.h) (r0 : Nat) :
    ∀ (rest : List Lines), (∀ f ∈ rest, FrameOK K c.w c.h f) →
      ∀ t : Term, K t.kind → Home c r0 t → LoopEff c r0 t (t.run (rest.map c.frameToks).flatten) := by
  intro rest
  induction rest with
  | nil => intro _ t _ hH; exact ⟨hH, Frame.refl t, id, [], rfl, by simp⟩
  | cons f rest ih =>
    intro hall t hK hH
    simp only [List.map_cons, List.flatten_cons]
    rw [Term.run_append]
    have h1 := new_frame c K f (hall f (by simp)) hclear hw hh r0 t hK hH
    generalize t.run (c.frameToks f) = t1 at h1 ⊢
    have h2 := ih (fun g hg => hall g (by simp [hg])) t1 (by rw [h1.frame.kind]; exact hK) h1.home
    obtain ⟨n1, hn1, hi1, _⟩ := h1.log
    obtain ⟨n2, hn2, hi2⟩ := h2.log
    refine ⟨h2.home, h1.frame.trans h2.frame, fun hd => h2.sgr (h1.sgr hd), n2 ++ n1, ?_, ?_⟩
    · rw [hn2, hn1, List.append_assoc]
    · intro wr hwr
      rcases List.mem_append.mp hwr with h | h
      · exact hi2 wr h
      · exact hi1 wr h

/-- an inner-rectangle write is a box write -/
theorem inner_in_box (c : NewCfg) (r0 : Nat) {wr : Write}
    (h : InRect (r0 + c.pad.t) c.pad.l c.w c.h wr) : InRect r0 0 c.Wp c.Hp wr := by
  unfold InRect at *; unfold NewCfg.Wp NewCfg.Hp; omega

/-- the state in which `draw()` is called: cursor at the start of a line of a tty, the padded box
    fits below it -/
structure Start (t : Term) (Wp Hp : Nat) : Prop where
  col : t.col = 0
  pw : t.pw = false
  lm : t.lm = 0
  fitW : Wp ≤ t.W
  visTop : t.top ≤ t.row
  fits : t.row + Hp ≤ t.top + t.H

/-- the first frame (padded) and the move to the render rectangle's top-left cell -/
theorem new_first (c : NewCfg) (K : TermKind → Prop) (f0 : Lines)
    (h0 : FrameIn K c.Wp c.Hp (padLines c.pad c.w f0)) (hw : 0 < c.w) (hh : 0 < c.h)
    (t : Term) (hK : K t.kind) (hS : Start t c.Wp c.Hp) :
    let t' := t.run (joinLines (padLines c.pad c.w f0) ++ c.home0)
    Home c t.row t' ∧ Frame t t' ∧ ((t.fg = none ∧ t.bg = none) → (t'.fg = none ∧ t'.bg = none)) ∧
    ∃ new, t'.log = new ++ t.log ∧ ∀ wr ∈ new, InRect t.row 0 c.Wp c.Hp wr := by
  intro t'
  have hWp : 0 < c.Wp := by unfold NewCfg.Wp; omega
  have hHp : 0 < c.Hp := by unfold NewCfg.Hp; omega
  have hR : Ready t t.row 0 c.Wp c.Hp 0 :=
    ⟨rfl, hS.col, hS.pw, by have := hS.fitW; omega, hS.visTop, hS.fits, hHp, hWp⟩
  have h1 := block_in K c.Wp c.Hp 0 _ hHp h0 t t.row hK hS.lm hR
  rw [joinSep_zero] at h1
  have e : t' = (t.run (joinLines (padLines c.pad c.w f0))).run c.home0 := Term.run_append _ _ _
  rw [e]
  generalize t.run (joinLines (padLines c.pad c.w f0)) = t1 at h1 ⊢
  have hfit := hS.fitW; have hvb := hS.fits
  have hHpe : c.Hp = c.pad.t + c.h + c.pad.b := rfl
  have hWpe : c.Wp = c.pad.l + c.w + c.pad.r := rfl
  have h2 : Moved t1 (t1.run c.home0) (t1.row - (c.h + c.pad.b - 1)) c.pad.l := by
    unfold NewCfg.home0
    have : (((c.h + c.pad.b : Nat) : Int) - 1) = ((c.h + c.pad.b - 1 : Nat) : Int) := by omega
    rw [this]
    exact moved_home t1 (c.h + c.pad.b - 1) c.pad.l (by rw [h1.row, h1.frame.top]; have := hS.visTop; omega)
      (by rw [h1.frame.W]; omega)
  generalize t1.run c.home0 = t2 at h2 ⊢
  have hfr := h1.frame.trans h2.frame
  obtain ⟨new, hnew, hin, _⟩ := h1.log
  refine ⟨⟨by rw [h2.row, h1.row]; omega, h2.col, h2.pw, by rw [hfr.lm]; exact hS.lm,
      by rw [hfr.W]; exact hS.fitW, by rw [hfr.top]; exact hS.visTop, by rw [hfr.top, hfr.H]; exact hS.fits⟩,
    hfr, ?_, new, by rw [h2.log, hnew], hin⟩
  intro hd
  rw [h2.fg, h2.bg]; exact h1.sgr hd

end TIV.C06

namespace TIV.C06
open TIV Term

/-- the final line feed, from the last line of the box -/
theorem lf_effect (t : Term) (hlm : t.lm = 0) :
    let t' := step t Tok.lf
    t'.row = t.row + 1 ∧ t'.col = 0 ∧ t'.pw = false ∧ t'.log = t.log ∧ t'.fg = t.fg ∧ t'.bg = t.bg ∧
    t'.W = t.W ∧ t'.H = t.H ∧ t'.kind = t.kind ∧ t'.lm = t.lm ∧ t'.vis = t.vis ∧ t'.wrapped = t.wrapped ∧
    t'.scrolls = t.scrolls + (if t.row + 1 = t.top + t.H then 1 else 0) ∧
    t'.top = t.top + (if t.row + 1 = t.top + t.H then 1 else 0) := by
  intro t'
  have e : t' = t.lineFeed := rfl
  clear_value t'
  subst e
  unfold lineFeed index
  by_cases h : t.row + 1 = t.top + t.H <;> simp [h, hlm]

/-- everything `draw()` does, seen from the terminal: `r0` = the row where the first frame started -/
structure DrawEffect (t t' : Term) (r0 Wp Hp : Nat) (hide : Bool) : Prop where
  log : ∃ new, t'.log = new ++ t.log ∧ ∀ wr ∈ new, InRect r0 0 Wp Hp wr
  row : t'.row = r0 + Hp
  col : t'.col = 0
  pw : t'.pw = false
  vis : t'.vis = (hide || t.vis)
  sgr : (t.fg = none ∧ t.bg = none) → (t'.fg = none ∧ t'.bg = none)
  wrapped : t'.wrapped = t.wrapped
  scrolls : t'.scrolls = t.scrolls + (r0 + Hp + 1 - (t.top + t.H))
  top : t'.top = t.top + (r0 + Hp + 1 - (t.top + t.H))
  W : t'.W = t.W
  H : t'.H = t.H
  kind : t'.kind = t.kind
  lm : t'.lm = t.lm

/-- `cursor_down(height + pad_bottom - 1)`, `"\n"`, `SHOW_CURSOR` from the home position -/
theorem new_tail (c : NewCfg) (hh : 0 < c.h) (r0 : Nat) (t : Term) (hH : Home c r0 t) (hide : Bool) :
    let t' := t.run (c.down ++ [Tok.lf] ++ (if hide then [Tok.showCur] else []))
    t'.row = r0 + c.Hp ∧ t'.col = 0 ∧ t'.pw = false ∧ t'.log = t.log ∧ t'.fg = t.fg ∧ t'.bg = t.bg ∧
    t'.W = t.W ∧ t'.H = t.H ∧ t'.kind = t.kind ∧ t'.lm = t.lm ∧ t'.vis = (hide || t.vis) ∧ t'.wrapped = t.wrapped ∧
    t'.scrolls = t.scrolls + (r0 + c.Hp + 1 - (t.top + t.H)) ∧
    t'.top = t.top + (r0 + c.Hp + 1 - (t.top + t.H)) := by
  intro t'
  have hvb := hH.visBot
  have hHpe : c.Hp = c.pad.t + c.h + c.pad.b := rfl
  have h1 : Moved t (t.run c.down) (t.row + (c.h + c.pad.b - 1)) t.col := by
    unfold NewCfg.down
    have : (((c.h + c.pad.b : Nat) : Int) - 1) = ((c.h + c.pad.b - 1 : Nat) : Int) := by omega
    rw [this]
    exact moved_down t (c.h + c.pad.b - 1) hH.pw (by rw [hH.row]; omega)
  have e : t' = (step (t.run c.down) Tok.lf).run (if hide then [Tok.showCur] else []) := by
    show t.run _ = _
    rw [Term.run_append, Term.run_append]; rfl
  rw [e]
  generalize t.run c.down = t1 at h1 ⊢
  have h2 := lf_effect t1 (by rw [h1.frame.lm]; exact hH.lm)
  generalize step t1 Tok.lf = t2 at h2 ⊢
  obtain ⟨a1, a2, a3, a4, a5, a6, a7, a8, a9, a10, a11, a12, a13, a14⟩ := h2
  have hrow1 : t1.row + 1 = r0 + c.Hp := by rw [h1.row, hH.row]; omega
  have hif : (if t1.row + 1 = t1.top + t1.H then 1 else 0) = r0 + c.Hp + 1 - (t.top + t.H) := by
    rw [hrow1, h1.frame.top, h1.frame.H]
    split <;> omega
  rw [hif] at a13 a14
  cases hide
  · simp only [Bool.false_eq_true, if_false, Term.run_nil, Bool.false_or]
    exact ⟨by rw [a1, hrow1], a2, a3, by rw [a4, h1.log], by rw [a5, h1.fg], by rw [a6, h1.bg],
      by rw [a7, h1.frame.W], by rw [a8, h1.frame.H], by rw [a9, h1.frame.kind], by rw [a10, h1.frame.lm],
      by rw [a11, h1.frame.vis], by rw [a12, h1.frame.wrapped], by rw [a13, h1.frame.scrolls],
      by rw [a14, h1.frame.top]⟩
  · simp only [if_true, Bool.true_or]
    have e2 : t2.run [Tok.showCur] = { t2 with vis := true } := rfl
    rw [e2]
    exact ⟨by show t2.row = _; rw [a1, hrow1], a2, a3, by show t2.log = _; rw [a4, h1.log],
      by show t2.fg = _; rw [a5, h1.fg], by show t2.bg = _; rw [a6, h1.bg],
      by show t2.W = _; rw [a7, h1.frame.W], by show t2.H = _; rw [a8, h1.frame.H],
      by show t2.kind = _; rw [a9, h1.frame.kind], by show t2.lm = _; rw [a10, h1.frame.lm],
      rfl, by show t2.wrapped = _; rw [a12, h1.frame.wrapped],
      by show t2.scrolls = _; rw [a13, h1.frame.scrolls], by show t2.top = _; rw [a14, h1.frame.top]⟩

/-- `HIDE_CURSOR` in front changes nothing but the visibility -/
theorem run_hide (t : Term) (hide : Bool) (ts : List Tok) :
    t.run ((if hide then [Tok.hideCur] else []) ++ ts) = (if hide then { t with vis := false } else t).run ts := by
  cases hide <;> rfl

end TIV.C06

namespace TIV.C06
open TIV Term

/-- hypotheses of the new-API theorems: the configuration passed validation, frames meet the block
    contract, the cursor is at the start of a line where the padded box fits -/
structure NewHyp (c : NewCfg) (K : TermKind → Prop) (f0 : Lines) (rest : List Lines) (t : Term) : Prop where
  valid : c.validate = none
  first : FrameIn K c.Wp c.Hp (padLines c.pad c.w f0)
  rest : ∀ f ∈ rest, FrameOK K c.w c.h f
  clear : ∀ a ∈ c.clear, Tok.inert a = true
  w : 0 < c.w
  h : 0 < c.h
  kind : K t.kind
  start : Start t c.Wp c.Hp

theorem newToks_anim (c : NewCfg) (f0 : Lines) (rest : List Lines) (hv : c.validate = none)
    (ha : c.animation = true) :
    newToks c (f0 :: rest) = (if c.hide then [Tok.hideCur] else []) ++
      ((joinLines (padLines c.pad c.w f0) ++ c.home0) ++ ((rest.map c.frameToks).flatten ++
        (c.down ++ [Tok.lf] ++ (if c.hide then [Tok.showCur] else [])))) := by
  simp [newToks, hv, NewCfg.bodyToks, ha, List.append_assoc]

theorem newToks_still (c : NewCfg) (f0 : Lines) (rest : List Lines) (hv : c.validate = none)
    (ha : c.animation = false) :
    newToks c (f0 :: rest) = (if c.hide then [Tok.hideCur] else []) ++
      (joinLines (padLines c.pad c.w f0) ++ ([Tok.lf] ++ (if c.hide then [Tok.showCur] else []))) := by
  simp [newToks, hv, NewCfg.bodyToks, ha, List.append_assoc]

theorem start_hide {t : Term} {Wp Hp : Nat} (hS : Start t Wp Hp) (b : Bool) :
    Start (if b then { t with vis := false } else t) Wp Hp := by
  cases b
  · exact hS
  · exact ⟨hS.col, hS.pw, hS.lm, hS.fitW, hS.visTop, hS.fits⟩

/-- animation, any number of frames: prefix up to and including the frames `pre`, then frame `f` -/
theorem new_anim_prefix (c : NewCfg) (K : TermKind → Prop) (f0 : Lines) (pre : List Lines) (t : Term)
    (hy : NewHyp c K f0 pre t) :
    let t0 : Term := if c.hide then { t with vis := false } else t
    let t' := t0.run ((joinLines (padLines c.pad c.w f0) ++ c.home0) ++ (pre.map c.frameToks).flatten)
    Home c t.row t' ∧ Frame t0 t' ∧ ((t.fg = none ∧ t.bg = none) → (t'.fg = none ∧ t'.bg = none)) ∧
    ∃ later first, t'.log = later ++ first ++ t.log ∧ (∀ wr ∈ first, InRect t.row 0 c.Wp c.Hp wr) ∧
      (∀ wr ∈ later, InRect (t.row + c.pad.t) c.pad.l c.w c.h wr) := by
  intro t0 t'
  have hS0 : Start t0 c.Wp c.Hp := start_hide hy.start c.hide
  have hr0 : t0.row = t.row := by simp only [t0]; cases c.hide <;> rfl
  have hl0 : t0.log = t.log := by simp only [t0]; cases c.hide <;> rfl
  have hf0 : t0.fg = t.fg := by simp only [t0]; cases c.hide <;> rfl
  have hb0 : t0.bg = t.bg := by simp only [t0]; cases c.hide <;> rfl
  have hk0 : t0.kind = t.kind := by simp only [t0]; cases c.hide <;> rfl
  have h1 := new_first c K f0 hy.first hy.w hy.h t0 (by rw [hk0]; exact hy.kind) hS0
  have e : t' = (t0.run (joinLines (padLines c.pad c.w f0) ++ c.home0)).run (pre.map c.frameToks).flatten :=
    Term.run_append _ _ _
  rw [e]
  generalize t0.run (joinLines (padLines c.pad c.w f0) ++ c.home0) = t1 at h1 ⊢
  obtain ⟨hH1, hF1, hs1, n1, hn1, hi1⟩ := h1
  rw [hr0] at hH1 hi1
  have h2 := new_loop c K hy.clear hy.w hy.h t.row pre hy.rest t1 (by rw [hF1.kind, hk0]; exact hy.kind) hH1
  obtain ⟨n2, hn2, hi2⟩ := h2.log
  refine ⟨h2.home, hF1.trans h2.frame, fun hd => h2.sgr (hs1 (by rw [hf0, hb0]; exact hd)), n2, n1, ?_, hi1, hi2⟩
  rw [hn2, hn1, hl0, List.append_assoc]

end TIV.C06

namespace TIV.C06
open TIV Term

theorem hide_facts (t : Term) (b : Bool) :
    let t0 : Term := if b then { t with vis := false } else t
    t0.W = t.W ∧ t0.H = t.H ∧ t0.kind = t.kind ∧ t0.top = t.top ∧ t0.lm = t.lm ∧ t0.wrapped = t.wrapped ∧
    t0.scrolls = t.scrolls ∧ (b || t0.vis) = (b || t.vis) ∧ t0.row = t.row ∧ t0.log = t.log ∧
    t0.fg = t.fg ∧ t0.bg = t.bg ∧ t0.col = t.col ∧ t0.pw = t.pw := by
  cases b <;> simp

/-- the whole animation -/
theorem new_anim_effect (c : NewCfg) (K : TermKind → Prop) (f0 : Lines) (rest : List Lines) (t : Term)
    (hy : NewHyp c K f0 rest t) (ha : c.animation = true) :
    DrawEffect t (t.run (newToks c (f0 :: rest))) t.row c.Wp c.Hp c.hide := by
  rw [newToks_anim c f0 rest hy.valid ha, run_hide, ← List.append_assoc, Term.run_append]
  have h1 := new_anim_prefix c K f0 rest t hy
  have h0 := hide_facts t c.hide
  simp only at h1 h0
  generalize (if c.hide then { t with vis := false } else t) = t0 at h1 h0 ⊢
  generalize t0.run ((joinLines (padLines c.pad c.w f0) ++ c.home0) ++ (rest.map c.frameToks).flatten) = t1 at h1 ⊢
  obtain ⟨hH, hF, hs, later, first, hlog, hi1, hi2⟩ := h1
  obtain ⟨b1, b2, b3, b4, b5, b6, b7, b8, -⟩ := h0
  have h2 := new_tail c hy.h t.row t1 hH c.hide
  simp only at h2
  generalize t1.run (c.down ++ [Tok.lf] ++ (if c.hide then [Tok.showCur] else [])) = t2 at h2 ⊢
  obtain ⟨a1, a2, a3, a4, a5, a6, a7, a8, a9, a10, a11, a12, a13, a14⟩ := h2
  refine ⟨⟨later ++ first, by rw [a4, hlog], ?_⟩, a1, a2, a3, by rw [a11, hF.vis, b8],
    fun hd => by rw [a5, a6]; exact hs hd, by rw [a12, hF.wrapped, b6],
    by rw [a13, hF.scrolls, hF.top, hF.H, b7, b4, b2], by rw [a14, hF.top, hF.H, b4, b2],
    by rw [a7, hF.W, b1], by rw [a8, hF.H, b2], by rw [a9, hF.kind, b3], by rw [a10, hF.lm, b5]⟩
  intro wr hwr
  rcases List.mem_append.mp hwr with h | h
  · exact inner_in_box c t.row (hi2 wr h)
  · exact hi1 wr h

end TIV.C06

namespace TIV.C06
open TIV Term

/-- `"\n"` (+ `SHOW_CURSOR`) from anywhere on the last line of the box -/
theorem lf_tail (t : Term) (hlm : t.lm = 0) (hide : Bool) :
    let t' := t.run ([Tok.lf] ++ (if hide then [Tok.showCur] else []))
    t'.row = t.row + 1 ∧ t'.col = 0 ∧ t'.pw = false ∧ t'.log = t.log ∧ t'.fg = t.fg ∧ t'.bg = t.bg ∧
    t'.W = t.W ∧ t'.H = t.H ∧ t'.kind = t.kind ∧ t'.lm = t.lm ∧ t'.vis = (hide || t.vis) ∧ t'.wrapped = t.wrapped ∧
    t'.scrolls = t.scrolls + (if t.row + 1 = t.top + t.H then 1 else 0) ∧
    t'.top = t.top + (if t.row + 1 = t.top + t.H then 1 else 0) := by
  intro t'
  have e : t' = (step t Tok.lf).run (if hide then [Tok.showCur] else []) := rfl
  rw [e]
  have h2 := lf_effect t hlm
  generalize step t Tok.lf = t2 at h2 ⊢
  obtain ⟨a1, a2, a3, a4, a5, a6, a7, a8, a9, a10, a11, a12, a13, a14⟩ := h2
  cases hide
  · simp only [Bool.false_eq_true, if_false, Term.run_nil, Bool.false_or]
    exact ⟨a1, a2, a3, a4, a5, a6, a7, a8, a9, a10, a11, a12, a13, a14⟩
  · simp only [if_true, Bool.true_or]
    have e2 : t2.run [Tok.showCur] = { t2 with vis := true } := rfl
    rw [e2]
    exact ⟨a1, a2, a3, a4, a5, a6, a7, a8, a9, a10, rfl, a12, a13, a14⟩

/-- a still image (or `animate=False`): the padded frame, `"\n"`, `SHOW_CURSOR` -/
theorem new_still_effect (c : NewCfg) (K : TermKind → Prop) (f0 : Lines) (rest : List Lines) (t : Term)
    (hy : NewHyp c K f0 [] t) (ha : c.animation = false) :
    DrawEffect t (t.run (newToks c (f0 :: rest))) t.row c.Wp c.Hp c.hide := by
  rw [newToks_still c f0 rest hy.valid ha, run_hide, Term.run_append]
  have h0 := hide_facts t c.hide
  have hS0 : Start (if c.hide then { t with vis := false } else t) c.Wp c.Hp := start_hide hy.start c.hide
  simp only at h0
  generalize (if c.hide then { t with vis := false } else t) = t0 at h0 hS0 ⊢
  obtain ⟨b1, b2, b3, b4, b5, b6, b7, b8, b9, b10, b11, b12, -⟩ := h0
  have hWp : 0 < c.Wp := by have := hy.w; unfold NewCfg.Wp; omega
  have hHp : 0 < c.Hp := by have := hy.h; unfold NewCfg.Hp; omega
  have hR : Ready t0 t0.row 0 c.Wp c.Hp 0 :=
    ⟨rfl, hS0.col, hS0.pw, by have := hS0.fitW; omega, hS0.visTop, hS0.fits, hHp, hWp⟩
  have h1 := block_in K c.Wp c.Hp 0 _ hHp hy.first t0 t0.row (by rw [b3]; exact hy.kind) hS0.lm hR
  rw [joinSep_zero] at h1
  generalize t0.run (joinLines (padLines c.pad c.w f0)) = t1 at h1 ⊢
  have h2 := lf_tail t1 (by rw [h1.frame.lm]; exact hS0.lm) c.hide
  simp only at h2
  generalize t1.run ([Tok.lf] ++ (if c.hide then [Tok.showCur] else [])) = t2 at h2 ⊢
  obtain ⟨a1, a2, a3, a4, a5, a6, a7, a8, a9, a10, a11, a12, a13, a14⟩ := h2
  obtain ⟨new, hnew, hin, _⟩ := h1.log
  have hF := h1.frame
  have hfit := hy.start.fits
  have hrow1 : t1.row + 1 = t.row + c.Hp := by rw [h1.row, b9]; omega
  have hif : (if t1.row + 1 = t1.top + t1.H then 1 else 0) = t.row + c.Hp + 1 - (t.top + t.H) := by
    rw [hrow1, hF.top, hF.H, b4, b2]
    split <;> omega
  rw [hif] at a13 a14
  refine ⟨⟨new, by rw [a4, hnew, b10], by rw [← b9]; exact hin⟩, by rw [a1, hrow1], a2, a3,
    by rw [a11, hF.vis, b8], fun hd => by rw [a5, a6]; exact h1.sgr (by rw [b11, b12]; exact hd),
    by rw [a12, hF.wrapped, b6], by rw [a13, hF.scrolls, b7], by rw [a14, hF.top, b4],
    by rw [a7, hF.W, b1], by rw [a8, hF.H, b2], by rw [a9, hF.kind, b3], by rw [a10, hF.lm, b5]⟩

/-- every later frame is drawn over exactly the first frame's render rectangle: split the frames
    as `pre ++ f :: post`; `f` is drawn from the home position and its writes cover the rectangle
    `(row₀ + pad_top, pad_left, w, h)` and nothing else -/
theorem new_frame_cells (c : NewCfg) (K : TermKind → Prop) (f0 : Lines) (pre : List Lines) (f : Lines)
    (post : List Lines) (t : Term) (hy : NewHyp c K f0 (pre ++ f :: post) t) (ha : c.animation = true) :
    let before := (if c.hide then [Tok.hideCur] else []) ++
      ((joinLines (padLines c.pad c.w f0) ++ c.home0) ++ (pre.map c.frameToks).flatten)
    (∃ after, newToks c (f0 :: (pre ++ f :: post)) = before ++ c.frameToks f ++ after) ∧
    FrameEff c t.row (t.run before) ((t.run before).run (c.frameToks f)) := by
  intro before
  constructor
  · refine ⟨(post.map c.frameToks).flatten ++ (c.down ++ [Tok.lf] ++ (if c.hide then [Tok.showCur] else [])), ?_⟩
    rw [newToks_anim c f0 _ hy.valid ha]
    simp [before, List.append_assoc]
  · have hy' : NewHyp c K f0 pre t :=
      ⟨hy.valid, hy.first, fun g hg => hy.rest g (by simp [hg]), hy.clear, hy.w, hy.h, hy.kind, hy.start⟩
    have h1 := new_anim_prefix c K f0 pre t hy'
    have h0 := hide_facts t c.hide
    simp only at h1 h0
    have e : t.run before = (if c.hide then { t with vis := false } else t).run
        ((joinLines (padLines c.pad c.w f0) ++ c.home0) ++ (pre.map c.frameToks).flatten) := run_hide _ _ _
    rw [e]
    generalize (if c.hide then { t with vis := false } else t) = t0 at h1 h0 ⊢
    obtain ⟨hH, hF, -⟩ := h1
    exact new_frame c K f (hy.rest f (by simp)) hy.clear hy.w hy.h t.row _
      (by rw [hF.kind, h0.2.2.1]; exact hy.kind) hH

end TIV.C06

namespace TIV.C06
open TIV Term

/-- after the last frame nothing more is written: the screen holds the last frame (covering the
    render rectangle) on top of earlier frames (all inside that rectangle) on top of the first,
    padded frame -/
theorem new_last_frame (c : NewCfg) (K : TermKind → Prop) (f0 : Lines) (pre : List Lines) (f : Lines)
    (t : Term) (hy : NewHyp c K f0 (pre ++ [f]) t) (ha : c.animation = true) :
    let before := (if c.hide then [Tok.hideCur] else []) ++
      ((joinLines (padLines c.pad c.w f0) ++ c.home0) ++ (pre.map c.frameToks).flatten)
    let ta := t.run before
    let tb := ta.run (c.frameToks f)
    (t.run (newToks c (f0 :: (pre ++ [f])))).log = tb.log ∧
    (∃ new, tb.log = new ++ ta.log ∧ (∀ wr ∈ new, InRect (t.row + c.pad.t) c.pad.l c.w c.h wr) ∧
        ∀ di, di < c.h → CoversRow new (t.row + c.pad.t) c.pad.l c.w di) ∧
    (∃ later first, ta.log = later ++ first ++ t.log ∧ (∀ wr ∈ first, InRect t.row 0 c.Wp c.Hp wr) ∧
        ∀ wr ∈ later, InRect (t.row + c.pad.t) c.pad.l c.w c.h wr) := by
  intro before ta tb
  have hc := new_frame_cells c K f0 pre f [] t hy ha
  simp only at hc
  obtain ⟨⟨after, hafter⟩, hfe⟩ := hc
  have hy' : NewHyp c K f0 pre t :=
    ⟨hy.valid, hy.first, fun g hg => hy.rest g (by simp [hg]), hy.clear, hy.w, hy.h, hy.kind, hy.start⟩
  have h1 := new_anim_prefix c K f0 pre t hy'
  simp only at h1
  have e : ta = (if c.hide then { t with vis := false } else t).run
      ((joinLines (padLines c.pad c.w f0) ++ c.home0) ++ (pre.map c.frameToks).flatten) := run_hide _ _ _
  rw [← e] at h1
  obtain ⟨-, -, -, later, first, hlog, hi1, hi2⟩ := h1
  refine ⟨?_, hfe.log, later, first, hlog, hi1, hi2⟩
  -- the tail writes nothing
  have htoks : newToks c (f0 :: (pre ++ [f])) =
      before ++ c.frameToks f ++ (c.down ++ [Tok.lf] ++ (if c.hide then [Tok.showCur] else [])) := by
    rw [newToks_anim c f0 _ hy.valid ha]
    simp [before, List.append_assoc]
  rw [htoks, Term.run_append (t := t) (a := before ++ c.frameToks f), Term.run_append (t := t) (a := before)]
  have h2 := new_tail c hy.h t.row tb hfe.home c.hide
  exact h2.2.2.2.1

end TIV.C06
