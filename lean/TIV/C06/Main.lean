import TIV.C06.Drive
import TIV.Common.DriverMain
def main : IO Unit := TIV.driverMain TIV.C06.handler
