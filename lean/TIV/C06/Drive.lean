import TIV.Common.TermDrive
import TIV.C06.Model
/-!
driver ops of C06 (and of C07's traces under a fault plan; `term.run` / `tok.str` are inherited)

`new.trace <cfg> <plan> <frames>` / `old.trace …`  run the effect program, print outcome, world, stream
`new.toks` / `old.toks`                            the closed-form token stream of a fault-free draw
`new.validate` / `old.validate`                    the size checks
`pad` / `fmt`                                      `Padding.pad` / `_format_render` on lines
-/
namespace TIV.C06
open TIV TIV.Wire TIV.TermDrive

def pFill : P (Option Glyph) := do
  let w ← word
  if w == "none" then pure none
  else match parseTok w with
    | some (.glyph g) => pure (some g)
    | _ => failure

def pLines : P Lines := listOf (listOf pTok)
def pFrame : P (Bool × Lines) := do
  let b ← bool; let ls ← pLines
  pure (b, ls)

def pNewCfg : P NewCfg := do
  let w ← nat; let h ← nat
  let l ← nat; let t ← nat; let r ← nat; let b ← nat; let fill ← pFill
  let tty ← bool; let hideCursor ← bool; let echoInput ← bool; let animation ← bool
  let checkSize ← bool; let allowScroll ← bool; let termW ← nat; let termH ← nat
  let clear ← listOf pTok; let hook ← listOf pTok
  pure { w, h, pad := { l, t, r, b, fill }, tty, hideCursor, echoInput, animation, checkSize, allowScroll,
         termW, termH, clear, hook }

def pHAl : P HAl := do
  let w ← word
  match w with
  | "<" => pure .left | "|" => pure .center | ">" => pure .right | _ => failure

def pVAl : P VAl := do
  let w ← word
  match w with
  | "^" => pure .top | "-" => pure .middle | "_" => pure .bottom | _ => failure

def pOldCfg : P OldCfg := do
  let cols ← nat; let lines ← nat
  let hal ← pHAl; let padW ← int; let val ← pVAl; let padH ← int
  let sizeFixed ← bool; let tty ← bool; let animation ← bool; let scroll ← bool; let checkSize ← bool
  let termW ← nat; let termH ← nat
  let clear ← listOf pTok; let preErase ← bool; let hook ← listOf pTok
  pure { cols, lines, hal, padW, val, padH, sizeFixed, tty, animation, scroll, checkSize, termW, termH,
         clear, preErase, hook }

def pExc : P Exc := do
  let w ← word
  match w with
  | "kbd" => pure .kbd | "err" => pure .err | _ => failure

def pPlan : P (Option Plan) := optOf (do
  let k ← nat; let j ← nat; let d ← nat; let exc ← pExc
  pure { k, j, d, exc })

def fmtItem : Item → String
  | .tok t => fmtTok t
  | .cut t d => s!"cut:{fmtTok t}:{d}"

def fmtOutcome : Outcome → String
  | .ok => "returned"
  | .returned => "returned"
  | .raised .kbd => "raised:kbd"
  | .raised .err => "raised:err"

def fmtErr : Err → String
  | .renderSizeOutOfRange => "RenderSizeOutofRangeError"
  | .valueError => "ValueError"
  | .invalidSize => "InvalidSizeError"

/-- outcome, termios attrs (other, ECHO), finalize runs, iterator closed, seek/size settings
    restored, then the stream -/
def fmtRes (w0 : World) (r : Res) : String :=
  let w := r.1
  s!"{fmtOutcome r.2.2} {w.attr.1},{fmtBool w.attr.2} {w.finalized} {fmtBool w.iterClosed} " ++
  s!"{fmtBool (w.seek == w0.seek)} {fmtBool (w.size == w0.size)} " ++ fmtList fmtItem w.out

def world0 : World := { attr := (7, true), seek := 3, size := 5 }

def handler : Handler := fun op args =>
  match op with
  | "new.trace" => Wire.run (do
      let c ← pNewCfg; let plan ← pPlan; let frames ← listOf pFrame
      pure (match c.validate with
        | some e => "err " ++ fmtErr e
        | none => "ok " ++ fmtRes world0 (C06.run (newProg c frames) plan world0))) args
  | "old.trace" => Wire.run (do
      let c ← pOldCfg; let plan ← pPlan; let frames ← listOf pFrame
      pure (match c.validate with
        | some e => "err " ++ fmtErr e
        | none => "ok " ++ fmtRes world0 (C06.run (oldProg c frames) plan world0))) args
  | "new.toks" => Wire.run (do
      let c ← pNewCfg; let frames ← listOf pLines
      pure ("ok " ++ fmtList fmtTok (newToks c frames))) args
  | "old.toks" => Wire.run (do
      let c ← pOldCfg; let frames ← listOf pLines
      pure ("ok " ++ fmtList fmtTok (oldToks c frames))) args
  | "new.validate" => Wire.run (do
      let c ← pNewCfg
      pure ("ok " ++ fmtOpt fmtErr c.validate)) args
  | "old.validate" => Wire.run (do
      let c ← pOldCfg
      pure ("ok " ++ fmtOpt fmtErr c.validate ++ s!" {c.width} {c.height}")) args
  | "pad" => Wire.run (do
      let l ← nat; let t ← nat; let r ← nat; let b ← nat; let fill ← pFill; let w ← nat; let ls ← pLines
      pure ("ok " ++ fmtList fmtTok (joinLines (padLines { l, t, r, b, fill } w ls)))) args
  | "fmt" => Wire.run (do
      let c ← pOldCfg; let ls ← pLines
      pure ("ok " ++ fmtList fmtTok (joinLines (c.fmtLines ls)))) args
  | "seq" => Wire.run (do
      let loops ← nat; let base ← listOf pLines
      pure ("ok " ++ toString (sequence loops base).length)) args
  | _ => TermDrive.handler op args

end TIV.C06
