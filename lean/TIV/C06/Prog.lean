import TIV.Common.Tok
import TIV.Common.TokBytes
/-!
# Prog — effect programs (DESIGN.md §2.3): a deep embedding of exactly the control flow that
`draw()` uses — sequencing, `try/finally`, `try/except`, `return` out of nested `try`s, loops —
with a big-step interpreter under a *fault plan*: "the k-th effectful action delivers only the
first `d` characters of its write and raises `exc`".

Used fault-free by C06 (the token stream of a draw) and under every fault plan by C07.
-/
namespace TIV.C06
open TIV

/-- what can be raised into `draw()`: `KeyboardInterrupt` or an ordinary `Exception` -/
inductive Exc | kbd | err
deriving DecidableEq, Repr

/-- what reached the terminal: complete tokens, and (C07) the first `d` characters of a token whose
    write was interrupted (`0 < d <` its length) -/
inductive Item
  | tok (t : Tok)
  | cut (t : Tok) (d : Nat)
deriving DecidableEq, Repr

inductive Act
  | write (ts : List Tok)     -- `output.write(s)` / one `file.write` of a `print`
  | flush
  | sleep
  | render                    -- a call of `_render_` / of the old API's frame renderer (may raise)
  | tcsetNoEcho               -- `tcsetattr(fd, TCSAFLUSH, new_attr)`, `new_attr` = saved attrs without ECHO
  | tcsetOld                  -- `tcsetattr(fd, TCSANOW, old_attr)`
  -- the rest cannot be interrupted half-way in a way that matters and is not counted:
  | tcget                     -- `old_attr = tcgetattr(fd)`
  | finalize                  -- `render_data.finalize()`
  | iterClose                 -- `render_iter.close()` / `image_it.close()`
  | markFirst                 -- `first_frame_written = True`
  | saveSeek | touchSeek | restoreSeek     -- old API: `prev_seek_pos = …`, the iterator moving it, `… = prev_seek_pos`
  | saveSize | touchSize | restoreSize     -- old API `_renderer`: `_size = self._size`, `set_size`, `self.size = _size`
deriving DecidableEq, Repr

/-- the countable actions of C07's quantifier: write, flush, sleep, render, tcsetattr -/
def Act.effectful : Act → Bool
  | .write _ | .flush | .sleep | .render | .tcsetNoEcho | .tcsetOld => true
  | _ => false

inductive Prog
  | done
  | act (a : Act)
  | seq (p q : Prog)
  | raise (e : Exc)
  | ret                                              -- `return` (unwinds to the enclosing `fn`, running `finally`s)
  | fn (body : Prog)                                 -- a function call boundary
  | tryFinally (body fin : Prog)
  | cleanup (body fin : Prog)                        -- the operation's own clean-up (`finally`); C07's proviso:
                                                     -- no fault is injected once it has started
  | tryExcept (body : Prog) (catches : Exc → Bool) (h : Exc → Prog)   -- `except` clauses
  | ifFirst (p q : Prog)                             -- `if first_frame_written: p else: q`
  | loop (n : Nat) (body : Nat → Prog)               -- `for i in range(n): body i`

def Prog.ofList : List Prog → Prog
  | [] => .done
  | [p] => p
  | p :: ps => .seq p (Prog.ofList ps)

def Prog.when (b : Bool) (p : Prog) : Prog := if b then p else .done

/-- `for x in xs: f x` -/
def Prog.forEach {α} (xs : List α) (f : α → Prog) : Prog :=
  xs.foldr (fun x k => .seq (f x) k) .done

structure World where
  out : List Item := []            -- what reached the stream, oldest first
  attr : Nat × Bool := (0, true)   -- termios attributes: (everything else, ECHO)
  savedAttr : Nat × Bool := (0, true)
  finalized : Nat := 0             -- number of `_finalize_render_data_` runs (`RenderData.finalize` is idempotent)
  iterClosed : Bool := false
  first : Bool := false
  seek : Nat := 0
  savedSeek : Nat := 0
  seekMoves : Nat := 0
  size : Nat := 0                  -- the image's size *setting* (an opaque value); `touchSize` changes it
  savedSize : Nat := 0
deriving Repr

/-- the delivered part of an interrupted write: its first `j` tokens complete, then (if `d > 0`)
    the first `d` characters of the next one -/
def cutWrite (ts : List Tok) (j d : Nat) : List Item :=
  (ts.take j).map .tok ++ (if d = 0 then [] else match ts[j]? with
    | some t => [.cut t d]
    | none => [])

def World.apply (w : World) : Act → World
  | .write ts => { w with out := w.out ++ ts.map .tok }
  | .flush => w
  | .sleep => w
  | .render => w
  | .tcsetNoEcho => { w with attr := (w.savedAttr.1, false) }
  | .tcsetOld => { w with attr := w.savedAttr }
  | .tcget => { w with savedAttr := w.attr }
  | .finalize => { w with finalized := if w.finalized = 0 then 1 else w.finalized }
  | .iterClose => { w with iterClosed := true }
  | .markFirst => { w with first := true }
  | .saveSeek => { w with savedSeek := w.seek }
  | .touchSeek => { w with seek := w.seek + 1, seekMoves := w.seekMoves + 1 }
  | .restoreSeek => { w with seek := w.savedSeek }
  | .saveSize => { w with savedSize := w.size }
  | .touchSize => { w with size := w.size + 1 }
  | .restoreSize => { w with size := w.savedSize }

/-- an action hit by the fault: a write delivers a prefix; a `tcsetattr` may or may not have taken
    effect (`d > 0` = it had); everything else has no effect -/
def World.applyFault (w : World) (j d : Nat) : Act → World
  | .write ts => { w with out := w.out ++ cutWrite ts j d }
  | .tcsetNoEcho => if d = 0 then w else { w with attr := (w.savedAttr.1, false) }
  | .tcsetOld => if d = 0 then w else { w with attr := w.savedAttr }
  | _ => w

/-- a fault plan: `k` effectful actions still succeed; the next one — if it is a write — delivers
    its first `j` tokens and the first `d` characters of the following token, and raises `exc` -/
structure Plan where
  k : Nat
  j : Nat
  d : Nat
  exc : Exc
deriving DecidableEq, Repr

inductive Outcome | ok | raised (e : Exc) | returned
deriving DecidableEq, Repr

abbrev Res := World × Option Plan × Outcome

def runLoop (step : Nat → Option Plan → World → Res) : Nat → Nat → Option Plan → World → Res
  | 0, _, f, w => (w, f, .ok)
  | n + 1, i, f, w =>
    match step i f w with
    | (w1, f1, .ok) => runLoop step n (i + 1) f1 w1
    | r => r

/-- big-step interpreter -/
def run : Prog → Option Plan → World → Res
  | .done, f, w => (w, f, .ok)
  | .act a, f, w =>
    if a.effectful then
      match f with
      | none => (w.apply a, none, .ok)
      | some ⟨0, j, d, e⟩ => (w.applyFault j d a, none, .raised e)
      | some ⟨k + 1, j, d, e⟩ => (w.apply a, some ⟨k, j, d, e⟩, .ok)
    else (w.apply a, f, .ok)
  | .seq p q, f, w =>
    match run p f w with
    | (w1, f1, .ok) => run q f1 w1
    | r => r
  | .raise e, f, w => (w, f, .raised e)
  | .ret, f, w => (w, f, .returned)
  | .fn body, f, w =>
    match run body f w with
    | (w1, f1, .returned) => (w1, f1, .ok)
    | r => r
  | .tryFinally body fin, f, w =>
    match run body f w with
    | (w1, f1, o1) =>
      match run fin f1 w1 with
      | (w2, f2, .ok) => (w2, f2, o1)
      | r => r
  | .cleanup body fin, f, w =>
    match run body f w with
    | (w1, _, o1) =>
      match run fin none w1 with
      | (w2, f2, .ok) => (w2, f2, o1)
      | r => r
  | .tryExcept body c h, f, w =>
    match run body f w with
    | (w1, f1, .raised e) => if c e then run (h e) f1 w1 else (w1, f1, .raised e)
    | r => r
  | .ifFirst p q, f, w => if w.first then run p f w else run q f w
  | .loop n body, f, w => runLoop (fun i => run (body i)) n 0 f w

/-- the complete tokens of a fault-free stream -/
def Item.toTok? : Item → Option Tok
  | .tok t => some t
  | .cut _ _ => none

def toksOf (items : List Item) : List Tok := items.filterMap Item.toTok?

theorem toksOf_map_tok (ts : List Tok) : toksOf (ts.map .tok) = ts := by
  induction ts with
  | nil => rfl
  | cons t ts ih => simp [toksOf, Item.toTok?] at ih ⊢; exact ih

theorem toksOf_append (a b : List Item) : toksOf (a ++ b) = toksOf a ++ toksOf b := by
  simp [toksOf, List.filterMap_append]

end TIV.C06
