import TIV.C06.Compose
/-!
# C06 — old API: every frame covers the whole padded box (the `cover = true` forms), from inner frames

`FrameOK`'s coverage is per row by a single line; a formatted WHOLE-image frame covers a box row by two
lines (the side padding by the row's own line, the image cells by the line carrying the image). So the
coverage of formatted frames is taken from C05's cell-level theorem `pad_block` instead: `_format_render`
fills with blanks (never the empty fill), hence a formatted frame whose inner frame covers its rectangle
covers every cell of the padded box.
-/
namespace TIV.C06
open TIV Term

/-- a formatted frame written at the box's top-left cell covers the box -/
theorem fmt_block_cover (K : TermKind → Prop) (c : OldCfg) (f : Lines) (hf : FrameOK K c.cols c.lines f)
    (hlf : ∀ ln ∈ f, Tok.lf ∉ ln) (hw : 0 < c.cols) (hh : 0 < c.lines)
    (t : Term) (r0 : Nat) (hK : K t.kind) (hlm : t.lm = 0) (hR : Ready t r0 0 c.Wp c.Hp 0) :
    BlockEff t (t.run (joinLines (c.fmtLines f))) r0 0 c.Wp c.Hp true := by
  obtain ⟨hl, S, hS, hcov⟩ := hf
  have hne : f ≠ [] := by intro h0; subst h0; simp at hl; omega
  have hb := margins_box c
  rw [fmtLines_eq_c05, ← C05.pad_structure _ _ _ _ _ _ f hne hlf]
  have hR' : Ready t r0 0 (c.margins.1 + c.cols + c.margins.2.2.1) (c.margins.2.1 + c.lines + c.margins.2.2.2) 0 := by
    rw [hb.1, hb.2]; exact hR
  have := (C05.pad_block K (.glyph .blank) c.margins.1 c.margins.2.1 c.margins.2.2.1 c.margins.2.2.2 c.cols c.lines
    .keepsDefault S f hl hh hw hlf hS t r0 0 hK hlm hR').2 (by simp) hcov
  rw [hb.1, hb.2] at this
  obtain ⟨new, hnew, hin, hc⟩ := this.log
  exact ⟨this.frame, this.row, this.col, this.sgr, new, hnew, hin, fun _ => hc⟩

/-- one later frame of the old API from the box's last line: drawn over the whole box and covering it -/
theorem old_frame_cover (c : OldCfg) (K : TermKind → Prop) (f : Lines) (hf : FrameOK K c.cols c.lines f)
    (hlf : ∀ ln ∈ f, Tok.lf ∉ ln) (hclear : ∀ a ∈ c.clear, Tok.inert a = true) (hw : 0 < c.cols) (hh : 0 < c.lines)
    (r0 : Nat) (t : Term) (hK : K t.kind) (hE : AtEnd c.Wp c.Hp r0 t) :
    OldFrameEff c.Wp c.Hp r0 true t (t.run (c.frameToks f)) := by
  have hW : 0 < c.Wp := by unfold OldCfg.Wp; omega
  have hH : 0 < c.Hp := by unfold OldCfg.Hp; omega
  unfold OldCfg.frameToks
  rw [Term.run_append]
  have h1 := old_up c c.clear hclear hW hH r0 t hE
  simp only at h1
  generalize t.run (c.clear ++ c.up) = t1 at h1 ⊢
  obtain ⟨hR, hF, hl, hfg, hbg⟩ := h1
  have hlm1 : t1.lm = 0 := by rw [hF.lm]; exact hE.lm
  have h2 := fmt_block_cover K c f hf hlf hw hh t1 r0 (by rw [hF.kind]; exact hK) hlm1 hR
  have hE2 := atEnd_of_block hlm1 hR h2
  generalize t1.run (joinLines (c.fmtLines f)) = t2 at h2 hE2 ⊢
  obtain ⟨new, hnew, hin, hcov⟩ := h2.log
  exact ⟨hE2, hF.trans h2.frame, fun hd => h2.sgr (by rw [hfg, hbg]; exact hd), new, by rw [hnew, hl], hin, hcov⟩

/-- OLD_FRAMES_SAME_CELLS, `cover = true`, from inner frames: every later frame (`pre ++ f :: post`) writes only
    cells of the padded box and covers ALL of them -/
theorem old_frames_same_cells_inner (c : OldCfg) (K : TermKind → Prop) (f0 : Lines) (pre : List Lines) (f : Lines)
    (post : List Lines) (t : Term) (hv : c.validate = none) (h0 : FrameOK K c.cols c.lines f0)
    (hrest : ∀ g ∈ pre ++ f :: post, FrameOK K c.cols c.lines g) (hlf : ∀ ln ∈ f, Tok.lf ∉ ln)
    (hclear : ∀ a ∈ c.clear, Tok.inert a = true) (hw : 0 < c.cols) (hh : 0 < c.lines) (hK : K t.kind)
    (hS : Start t c.Wp c.Hp) (ha : c.animation = true) :
    let before := (if c.tty then [Tok.hideCur] else []) ++
      ((c.preEraseToks ++ joinLines (c.fmtLines f0)) ++ (pre.map c.frameToks).flatten)
    (∃ after, oldToks c (f0 :: (pre ++ f :: post)) = before ++ c.frameToks f ++ after) ∧
    ∃ new, ((t.run before).run (c.frameToks f)).log = new ++ (t.run before).log ∧
      (∀ wr ∈ new, InRect t.row 0 c.Wp c.Hp wr) ∧ ∀ di, di < c.Hp → CoversRow new t.row 0 c.Wp di := by
  intro before
  have hy := oldHyp_of_inner c K f0 (pre ++ f :: post) t hv h0 hrest hclear hw hh hK hS
  have hc := old_frame_cells c K false f0 pre f post t hy (hy.rest f (by simp)) ha
  refine ⟨hc.1, ?_⟩
  have hy' : OldHyp c K f0 pre t :=
    ⟨hy.valid, hy.first, fun g hg => hy.rest g (by simp [hg]), hy.pre, hy.clear, hy.w, hy.h, hy.kind, hy.start⟩
  have h1 := old_anim_prefix c K f0 pre t hy'
  have hf0 := hide_facts t c.tty
  simp only at h1 hf0
  have e : t.run before = (if c.tty then { t with vis := false } else t).run
      ((c.preEraseToks ++ joinLines (c.fmtLines f0)) ++ (pre.map c.frameToks).flatten) := run_hide _ _ _
  rw [e]
  generalize (if c.tty then { t with vis := false } else t) = t0 at h1 hf0 ⊢
  obtain ⟨hE, hF, -⟩ := h1
  have := old_frame_cover c K f (hrest f (by simp)) hlf hclear hw hh t.row _
    (by rw [hF.kind, hf0.2.2.1]; exact hK) hE
  obtain ⟨new, hnew, hin, hcov⟩ := this.log
  exact ⟨new, hnew, hin, hcov rfl⟩

/-- OLD_DRAW_LAST_FRAME, `cover = true`, from inner frames: at the end the log is the last frame's writes — inside the
    box and covering every cell of it — on top of everything earlier (inside the box) -/
theorem old_draw_last_frame_cover_inner (c : OldCfg) (K : TermKind → Prop) (f0 : Lines) (pre : List Lines) (f : Lines)
    (t : Term) (hv : c.validate = none) (h0 : FrameOK K c.cols c.lines f0)
    (hrest : ∀ g ∈ pre ++ [f], FrameOK K c.cols c.lines g) (hlf : ∀ ln ∈ f, Tok.lf ∉ ln)
    (hclear : ∀ a ∈ c.clear, Tok.inert a = true) (hw : 0 < c.cols) (hh : 0 < c.lines) (hK : K t.kind)
    (hS : Start t c.Wp c.Hp) (ha : c.animation = true) :
    let before := (if c.tty then [Tok.hideCur] else []) ++
      ((c.preEraseToks ++ joinLines (c.fmtLines f0)) ++ (pre.map c.frameToks).flatten)
    let ta := t.run before
    let tb := ta.run (c.frameToks f)
    (t.run (oldToks c (f0 :: (pre ++ [f])))).log = tb.log ∧
    (∃ new, tb.log = new ++ ta.log ∧ (∀ wr ∈ new, InRect t.row 0 c.Wp c.Hp wr) ∧
        ∀ di, di < c.Hp → CoversRow new t.row 0 c.Wp di) ∧
    (∃ earlier, ta.log = earlier ++ t.log ∧ ∀ wr ∈ earlier, InRect t.row 0 c.Wp c.Hp wr) := by
  intro before ta tb
  have h1 := old_draw_last_frame_inner c K f0 pre f t hv h0 hrest hclear hw hh hK hS ha
  have h2 := old_frames_same_cells_inner c K f0 pre f [] t hv h0 hrest hlf hclear hw hh hK hS ha
  exact ⟨h1.1, h2.2, h1.2.2⟩

/-- instance: `BlockImage` frames (no line of a block render contains a line feed) -/
theorem old_frames_same_cells_block (c : OldCfg) (cfg : Block.Cfg) (g0 : List (List Block.PP))
    (pre : List (List (List Block.PP))) (g : List (List Block.PP)) (post : List (List (List Block.PP))) (t : Term)
    (hv : c.validate = none) (h0 : GridOK c.cols c.lines g0) (hgs : ∀ x ∈ pre ++ g :: post, GridOK c.cols c.lines x)
    (hclear : ∀ a ∈ c.clear, Tok.inert a = true) (hw : 0 < c.cols) (hh : 0 < c.lines) (hS : Start t c.Wp c.Hp)
    (ha : c.animation = true) :
    let R := Block.renderLines cfg
    let before := (if c.tty then [Tok.hideCur] else []) ++
      ((c.preEraseToks ++ joinLines (c.fmtLines (R g0))) ++ ((pre.map R).map c.frameToks).flatten)
    ∃ new, ((t.run before).run (c.frameToks (R g))).log = new ++ (t.run before).log ∧
      (∀ wr ∈ new, InRect t.row 0 c.Wp c.Hp wr) ∧ ∀ di, di < c.Hp → CoversRow new t.row 0 c.Wp di := by
  intro R before
  have := old_frames_same_cells_inner c (fun _ => True) (R g0) (pre.map R) (R g) (post.map R) t hv
    (block_frameOK cfg g0 c.cols c.lines h0.1 h0.2)
    (by
      intro x hx
      have : x ∈ (pre ++ g :: post).map R := by simpa using hx
      obtain ⟨y, hy, rfl⟩ := List.mem_map.mp this
      exact block_frameOK cfg y c.cols c.lines (hgs y hy).1 (hgs y hy).2)
    (fun ln hln => (C01.lines_wf _ (C01.block_lines_wf cfg g)).2 ln hln) hclear hw hh trivial hS ha
  exact this.2

end TIV.C06
