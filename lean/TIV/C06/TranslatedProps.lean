import TIV.C06.Compose
import TIV.C06.Translated
/-!
# C06 — the old API's formatting arithmetic IS the translation of the current source

`TIV.C06.Translated.*` is regenerated on every run from `BaseImage._check_formatting` (resolution
of a relative pad width / height) and `BaseImage._format_render` (the margins on each axis).
-/
namespace TIV.C06

/-- TRANSLATION TIE `_check_formatting`: `width if width > 0 else max(terminal_size.columns + width, 1)`
    and the same for the height -/
theorem resolveDim_eq_translated (term : Nat) (d : Int) :
    (resolveDim term d : Int) = Translated.check_formatting_width d term ∧
    (resolveDim term d : Int) = Translated.check_formatting_height d term := by
  unfold resolveDim Translated.check_formatting_width Translated.check_formatting_height
  constructor <;> (simp only []; split <;> omega)

example : Translated.check_formatting_height (-2) 24 = 22 := by decide

/-- TRANSLATION TIE `_format_render`: the margins of the old API (`OldCfg.margins`, with which
    `Compose.fmtLines_eq_c05` pads) are, on each axis, what the translated block computes when the
    pad dimension exceeds the rendered one, and zero otherwise -/
theorem margins_eq_translated (c : OldCfg) :
    (let m := c.margins; (((m.1 : Int), (m.2.2.1 : Int)), ((m.2.1 : Int), (m.2.2.2 : Int)))) =
      ((if c.width > c.cols then
          Translated.format_render_horizontal (c.hal == .left) (c.hal == .right) c.width c.cols else (0, 0)),
       (if c.height > c.lines then
          Translated.format_render_vertical (c.val == .top) (c.val == .bottom) c.height c.lines else (0, 0))) := by
  unfold OldCfg.margins Translated.format_render_horizontal Translated.format_render_vertical
  generalize c.width = w
  generalize c.height = h
  generalize c.cols = co
  generalize c.lines = li
  by_cases h1 : w > co <;> by_cases h2 : h > li <;> cases c.hal <;> cases c.val <;>
    simp [h1, h2, Int.fdiv_eq_ediv_of_nonneg] <;> omega

example : Translated.format_render_horizontal false false 11 4 = (3, 4) := by decide


/-- TRANSLATION TIE `_init_render_`: the model's size validation is what the translated `if check_size:` block of
    `Renderable._init_render_` decides on the padded size of the RESOLVED padding (whatever its shape: relative, partly
    relative, absolute, exact, third-party), with the flags `draw()` passes
    (`check_size = animation or check_size`, `allow_scroll = not animation and allow_scroll`) -/
theorem validate_eq_translated (c : NewCfg) (padding : Bool) :
    (c.validate = none ↔
      Translated.init_render_check (c.animation || c.checkSize) (!c.animation && c.allowScroll) padding
        ((c.Wp : Int), (c.Hp : Int)) ((c.termW : Int), (c.termH : Int)) = .ok true) ∧
    (c.validate ≠ none →
      Translated.init_render_check (c.animation || c.checkSize) (!c.animation && c.allowScroll) padding
        ((c.Wp : Int), (c.Hp : Int)) ((c.termW : Int), (c.termH : Int)) = .error "RenderSizeOutofRangeError") := by
  unfold NewCfg.validate Translated.init_render_check
  by_cases h1 : c.Wp > c.termW <;> by_cases h2 : c.Hp > c.termH <;>
  cases c.animation <;> cases c.checkSize <;> cases c.allowScroll <;> simp [h1, h2] <;> omega

end TIV.C06
