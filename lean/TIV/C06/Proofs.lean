import TIV.C06.Model
import TIV.Common.WB
import TIV.Common.TermLemmas
/-!
# C06 helper lemmas: cursor moves, the block composition theorem for lines separated by
`"\n" + cursor_forward(x)` on a tty (`lm = 0`), its scrolling variant for line-wise renders.
-/
namespace TIV.C06
open TIV Term

/-- the cursor was moved to `(r, c)` and nothing else happened -/
structure Moved (t t' : Term) (r c : Nat) : Prop where
  row : t'.row = r
  col : t'.col = c
  pw : t'.pw = false
  frame : Frame t t'
  log : t'.log = t.log
  fg : t'.fg = t.fg
  bg : t'.bg = t.bg

theorem Moved.trans {a b c : Term} {r1 c1 r2 c2 : Nat} (h1 : Moved a b r1 c1) (h2 : Moved b c r2 c2) :
    Moved a c r2 c2 :=
  ⟨h2.row, h2.col, h2.pw, h1.frame.trans h2.frame, h2.log.trans h1.log, h2.fg.trans h1.fg, h2.bg.trans h1.bg⟩

theorem frame_mk {t t' : Term} (h1 : t'.W = t.W) (h2 : t'.H = t.H) (h3 : t'.kind = t.kind)
    (h4 : t'.top = t.top) (h5 : t'.lm = t.lm) (h6 : t'.vis = t.vis) (h7 : t'.wrapped = t.wrapped)
    (h8 : t'.scrolls = t.scrolls) : Frame t t' := ⟨h1, h2, h3, h4, h5, h6, h7, h8⟩

/-- `"\r"` -/
theorem moved_cr (t : Term) : Moved t (t.run [Tok.cr]) t.row 0 := by
  refine ⟨rfl, rfl, rfl, frame_mk rfl rfl rfl rfl rfl rfl rfl rfl, rfl, rfl, rfl⟩

/-- `cursor_up(n)` when the target row is visible -/
theorem moved_up (t : Term) (n : Nat) (hpw : t.pw = false) (hvis : t.top + n ≤ t.row) :
    Moved t (t.run (cursorUp (n : Int))) (t.row - n) t.col := by
  unfold cursorUp
  by_cases hn : n = 0
  · subst hn
    simp only [Int.natCast_zero, Int.lt_irrefl, if_false, gt_iff_lt]
    exact ⟨by simp [Term.run], rfl, hpw, Frame.refl t, rfl, rfl, rfl⟩
  · have : (n : Int) > 0 := by omega
    simp only [this, if_true, Int.toNat_natCast]
    have hp : param n = n := param_pos (by omega)
    refine ⟨?_, rfl, rfl, frame_mk rfl rfl rfl rfl rfl rfl rfl rfl, rfl, rfl, rfl⟩
    simp [Term.run, step, hp]; omega

/-- `cursor_down(n)` when the target row is visible -/
theorem moved_down (t : Term) (n : Nat) (hpw : t.pw = false) (hvis : t.row + n + 1 ≤ t.top + t.H) :
    Moved t (t.run (cursorDown (n : Int))) (t.row + n) t.col := by
  unfold cursorDown
  by_cases hn : n = 0
  · subst hn
    simp only [Int.natCast_zero, Int.lt_irrefl, if_false, gt_iff_lt]
    exact ⟨by simp [Term.run], rfl, hpw, Frame.refl t, rfl, rfl, rfl⟩
  · have : (n : Int) > 0 := by omega
    simp only [this, if_true, Int.toNat_natCast]
    have hp : param n = n := param_pos (by omega)
    refine ⟨?_, rfl, rfl, frame_mk rfl rfl rfl rfl rfl rfl rfl rfl, rfl, rfl, rfl⟩
    simp [Term.run, step, hp]; omega

/-- `cursor_forward(x)` from column 0 -/
theorem moved_fwd (t : Term) (x : Nat) (hpw : t.pw = false) (hcol : t.col = 0) (hx : x + 1 ≤ t.W) :
    Moved t (t.run (cursorForward (x : Int))) t.row x := by
  unfold cursorForward
  by_cases hn : x = 0
  · subst hn
    simp only [Int.natCast_zero, Int.lt_irrefl, if_false, gt_iff_lt]
    exact ⟨by simp [Term.run], by simp [Term.run, hcol], hpw, Frame.refl t, rfl, rfl, rfl⟩
  · have : (x : Int) > 0 := by omega
    simp only [this, if_true, Int.toNat_natCast]
    have hp : param x = x := param_pos (by omega)
    refine ⟨rfl, ?_, rfl, frame_mk rfl rfl rfl rfl rfl rfl rfl rfl, rfl, rfl, rfl⟩
    simp [Term.run, step, hp, hcol]; omega

/-- `"\r" + cursor_up(n) + cursor_forward(x)`: to column `x` of the row `n` lines up -/
theorem moved_home (t : Term) (n x : Nat) (hvis : t.top + n ≤ t.row) (hx : x + 1 ≤ t.W) :
    Moved t (t.run (Tok.cr :: (cursorUp (n : Int) ++ cursorForward (x : Int)))) (t.row - n) x := by
  rw [Term.run_cons, Term.run_append]
  have h1 := moved_cr t
  have e : t.run [Tok.cr] = step t Tok.cr := rfl
  rw [e] at h1
  have h2 := moved_up (step t Tok.cr) n h1.pw (by rw [h1.frame.top, h1.row]; exact hvis)
  have h3 := moved_fwd ((step t Tok.cr).run (cursorUp (n : Int))) x h2.pw (by rw [h2.col, h1.col])
    (by rw [h2.frame.W, h1.frame.W]; exact hx)
  have := (h1.trans h2).trans h3
  rw [h2.row, h1.row] at this
  exact this

/-- tokens that neither write a cell nor move the cursor (graphics deletes, ST, NUL, sync marks) -/
def Tok.inert : Tok → Bool
  | .kittyDelCursor | .kittyDelAll | .kittyDelZ _ | .kittyEndChunked | .st | .nul | .syncBegin | .syncEnd => true
  | _ => false

theorem moved_inert (ts : List Tok) (h : ∀ a ∈ ts, Tok.inert a = true) (t : Term) (hpw : t.pw = false) :
    Moved t (t.run ts) t.row t.col := by
  induction ts generalizing t with
  | nil => exact ⟨rfl, rfl, hpw, Frame.refl t, rfl, rfl, rfl⟩
  | cons a ts ih =>
    rw [Term.run_cons]
    have ha := h a (by simp)
    have hts : ∀ b ∈ ts, Tok.inert b = true := fun b hb => h b (by simp [hb])
    have h1 : Moved t (step t a) t.row t.col := by
      cases a <;> simp [Tok.inert] at ha <;>
        exact ⟨rfl, rfl, hpw, frame_mk rfl rfl rfl rfl rfl rfl rfl rfl, rfl, rfl, rfl⟩
    have h2 := ih hts (step t a) h1.pw
    have := h1.trans h2
    rw [h1.row, h1.col] at this
    exact this

/-! ### lines separated by `"\n" + cursor_forward(x)` on a tty -/

theorem joinSep_zero (ls : Lines) : joinSep 0 ls = joinLines ls := by
  induction ls with
  | nil => rfl
  | cons l rest ih =>
    cases rest with
    | nil => rfl
    | cons l2 r2 => simp only [joinSep, joinLines, cursorForward] at ih ⊢; simp [ih]

/-- the separator brings the cursor to the start of the next line of the block -/
theorem sep_ready {t : Term} {r0 x w h i : Nat} (hlm : t.lm = 0) (hrow : t.row = r0 + i)
    (hfit : x + w ≤ t.W) (hw : 0 < w) (ht : t.top ≤ r0) (hb : r0 + h ≤ t.top + t.H) (hi : i + 1 < h) :
    let t' := t.run (Tok.lf :: cursorForward (x : Int))
    Ready t' r0 x w h (i + 1) ∧ Frame t t' ∧ t'.log = t.log ∧ t'.fg = t.fg ∧ t'.bg = t.bg := by
  intro t'
  have hne : ¬ (t.row + 1 = t.top + t.H) := by omega
  have e : step t Tok.lf = { t with row := t.row + 1, col := 0, pw := false } := by
    show t.lineFeed = _
    unfold lineFeed index; simp [hne, hlm]
  have hm := moved_fwd (step t Tok.lf) x (by rw [e]) (by rw [e]) (by rw [e]; show x + 1 ≤ t.W; omega)
  have ht' : t' = (step t Tok.lf).run (cursorForward (x : Int)) := rfl
  rw [← ht'] at hm
  have f1 : Frame t (step t Tok.lf) := by rw [e]; exact frame_mk rfl rfl rfl rfl rfl rfl rfl rfl
  have hf := f1.trans hm.frame
  refine ⟨⟨?_, hm.col, hm.pw, by rw [hf.W]; exact hfit, by rw [hf.top]; exact ht,
      by rw [hf.top, hf.H]; exact hb, hi, hw⟩, hf, ?_, ?_, ?_⟩
  · rw [hm.row, e]; show t.row + 1 = r0 + (i + 1); omega
  · rw [hm.log, e]
  · rw [hm.fg, e]
  · rw [hm.bg, e]

/-- lines `i, i+1, …` of a block, each `LineOK`, separated by `"\n" + cursor_forward(x)`, on a
    terminal whose line feed returns to column 0 -/
theorem sep_from (K : TermKind → Prop) (w h x : Nat) (S : Nat → Nat → Prop) :
    ∀ (ls : Lines) (i : Nat), ls ≠ [] → i + ls.length = h →
      (∀ j (hj : j < ls.length), LineOK K w h (i + j) .keepsDefault (S (i + j)) ls[j]) →
      ∀ (t : Term) (r0 : Nat), K t.kind → t.lm = 0 → Ready t r0 x w h i →
        let t' := t.run (joinSep x ls)
        Frame t t' ∧ t'.row = r0 + h - 1 ∧ t'.col = min (x + w) (t.W - 1) ∧
        ((t.fg = none ∧ t.bg = none) → (t'.fg = none ∧ t'.bg = none)) ∧
        ∃ new, t'.log = new ++ t.log ∧ (∀ wr ∈ new, InRect r0 x w h wr) ∧
          ∀ k, i ≤ k → k < h → ∀ di, S k di → CoversRow new r0 x w di := by
  intro ls
  induction ls with
  | nil => intro i h; exact absurd rfl h
  | cons l rest ih =>
    intro i _ hlen hOK t r0 hK hlm hR
    have h0 := hOK 0 (by simp) t r0 x hK hR
    simp only [Nat.add_zero, List.getElem_cons_zero] at h0
    cases rest with
    | nil =>
      simp only [joinSep]
      simp at hlen
      obtain ⟨new, hnew, hin, hcov⟩ := h0.log
      refine ⟨h0.frame, by rw [h0.row, hR.row]; omega, h0.col, h0.sgr, new, hnew, hin, ?_⟩
      intro k hk1 hk2 di hS
      have : k = i := by omega
      subst this; exact hcov di hS
    | cons l2 rest2 =>
      simp only [joinSep]
      rw [Term.run_append]
      have hlen' : i + 1 + (l2 :: rest2).length = h := by simp at hlen ⊢; omega
      generalize t.run l = t1 at h0 ⊢
      have hfr := h0.frame
      have hi1 : i + 1 < h := by simp at hlen; omega
      have hsep := sep_ready (t := t1) (r0 := r0) (x := x) (w := w) (h := h) (i := i)
        (by rw [hfr.lm]; exact hlm) (by rw [h0.row]; exact hR.row) (by rw [hfr.W]; exact hR.fitW) hR.hw
        (by rw [hfr.top]; exact hR.visTop) (by rw [hfr.top, hfr.H]; exact hR.visBot) hi1
      have happ : t1.run (Tok.lf :: (cursorForward (x : Int) ++ joinSep x (l2 :: rest2))) =
          (t1.run (Tok.lf :: cursorForward (x : Int))).run (joinSep x (l2 :: rest2)) := by
        rw [← Term.run_append]; rfl
      rw [happ]
      generalize t1.run (Tok.lf :: cursorForward (x : Int)) = t2 at hsep ⊢
      obtain ⟨hR2, hfr2, hlog2, hfg2, hbg2⟩ := hsep
      have hOK' : ∀ j (hj : j < (l2 :: rest2).length),
          LineOK K w h (i + 1 + j) .keepsDefault (S (i + 1 + j)) (l2 :: rest2)[j] := by
        intro j hj
        have := hOK (j + 1) (by simp at hj ⊢; omega)
        simpa [Nat.add_assoc, Nat.add_comm 1 j] using this
      have hK2 : K t2.kind := by rw [hfr2.kind, hfr.kind]; exact hK
      have hlm2 : t2.lm = 0 := by rw [hfr2.lm, hfr.lm]; exact hlm
      have := ih (i + 1) (by simp) hlen' hOK' t2 r0 hK2 hlm2 hR2
      obtain ⟨f3, hrow3, hcol3, hdef3, new3, hnew3, hin3, hcov3⟩ := this
      obtain ⟨new1, hnew1, hin1, hcov1⟩ := h0.log
      refine ⟨(hfr.trans hfr2).trans f3, hrow3, ?_, ?_, new3 ++ new1, ?_, ?_, ?_⟩
      · rw [hcol3, hfr2.W, hfr.W]
      · intro hd
        have h1 : t1.fg = none ∧ t1.bg = none := h0.sgr hd
        exact hdef3 (by rw [hfg2, hbg2]; exact h1)
      · rw [hnew3, hlog2, hnew1, List.append_assoc]
      · intro wr hwr
        rcases List.mem_append.mp hwr with h | h
        · exact hin3 wr h
        · exact hin1 wr h
      · intro k hk1 hk2 di hS j hj
        by_cases hki : k = i
        · subst hki
          obtain ⟨v, hv⟩ := hcov1 di hS j hj
          exact ⟨v, List.mem_append.mpr (Or.inr hv)⟩
        · obtain ⟨v, hv⟩ := hcov3 k (by omega) hk2 di hS j hj
          exact ⟨v, List.mem_append.mpr (Or.inl hv)⟩

/-- a frame that meets the block contract (what C01 proves of the three renderers, C05 of padded
    renders): `h` lines, each `LineOK`, together covering every row of the block -/
def FrameOK (K : TermKind → Prop) (w h : Nat) (ls : Lines) : Prop :=
  ls.length = h ∧ ∃ S : Nat → Nat → Prop,
    (∀ j (hj : j < ls.length), LineOK K w h j .keepsDefault (S j) ls[j]) ∧ ∀ di, di < h → ∃ k, k < h ∧ S k di

/-- the same without the coverage claim (a padded render with `fill = ""` skips its padding cells) -/
def FrameIn (K : TermKind → Prop) (w h : Nat) (ls : Lines) : Prop :=
  ls.length = h ∧ ∀ j (hj : j < ls.length), LineOK K w h j .keepsDefault (fun _ => False) ls[j]

theorem FrameOK.toIn {K : TermKind → Prop} {w h : Nat} {ls : Lines} (hf : FrameOK K w h ls) : FrameIn K w h ls := by
  obtain ⟨hl, S, hS, _⟩ := hf
  exact ⟨hl, fun j hj => (hS j hj).weakenS (fun _ hd => absurd hd id)⟩

/-- what drawing a block at `(r0, x)` does (as `BlockEffect`, for the tty separator) -/
structure BlockEff (t t' : Term) (r0 x w h : Nat) (cover : Bool) : Prop where
  frame : Frame t t'
  row : t'.row = r0 + h - 1
  col : t'.col = min (x + w) (t.W - 1)
  sgr : (t.fg = none ∧ t.bg = none) → (t'.fg = none ∧ t'.bg = none)
  log : ∃ new, t'.log = new ++ t.log ∧ (∀ wr ∈ new, InRect r0 x w h wr) ∧
        (cover = true → ∀ di, di < h → CoversRow new r0 x w di)

theorem block_in (K : TermKind → Prop) (w h x : Nat) (ls : Lines) (hh : 0 < h) (hf : FrameIn K w h ls)
    (t : Term) (r0 : Nat) (hK : K t.kind) (hlm : t.lm = 0) (hR : Ready t r0 x w h 0) :
    BlockEff t (t.run (joinSep x ls)) r0 x w h false := by
  obtain ⟨hl, hS⟩ := hf
  have hne : ls ≠ [] := by intro h0; subst h0; simp at hl; omega
  have := sep_from K w h x (fun _ _ => False) ls 0 hne (by omega) (by simpa using hS) t r0 hK hlm hR
  obtain ⟨f, hrow, hcol, hdef, new, hnew, hin, _⟩ := this
  exact ⟨f, hrow, hcol, hdef, new, hnew, hin, fun h => by simp at h⟩

theorem block_ok (K : TermKind → Prop) (w h x : Nat) (ls : Lines) (hh : 0 < h) (hf : FrameOK K w h ls)
    (t : Term) (r0 : Nat) (hK : K t.kind) (hlm : t.lm = 0) (hR : Ready t r0 x w h 0) :
    BlockEff t (t.run (joinSep x ls)) r0 x w h true := by
  obtain ⟨hl, S, hS, hcovS⟩ := hf
  have hne : ls ≠ [] := by intro h0; subst h0; simp at hl; omega
  have := sep_from K w h x S ls 0 hne (by omega) (by simpa using hS) t r0 hK hlm hR
  obtain ⟨f, hrow, hcol, hdef, new, hnew, hin, hcov⟩ := this
  refine ⟨f, hrow, hcol, hdef, new, hnew, hin, fun _ di hdi => ?_⟩
  obtain ⟨k, hk, hSk⟩ := hcovS di hdi
  exact hcov k (by omega) hk di hSk

end TIV.C06
