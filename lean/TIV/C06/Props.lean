import TIV.C06.OldProofs
import TIV.C06.Generated
import TIV.Common.TokBytes
import TIV.Common.BlockProofs
/-!
# C06 — draw() leaves the picture in place and the cursor on the line below it.

`t` is the terminal (any size, any viewport position) when `draw()` is called with the cursor
at the start of a line (`Start`: column 0 of a tty, the padded box `Wp × Hp` fits below the
cursor row `t.row`; rows are absolute, so "the same cells" is meaningful although the final
newline may scroll). Frames are arbitrary line lists meeting the C01 block contract
(`FrameOK` / `FrameIn`; for the padded first frame and the old API's formatted frames this is what
C05's `pad_WB` provides). `newToks` / `oldToks` are the streams of the two (repaired) draw paths.
-/
namespace TIV.C06
open TIV Term

/-- translator tie: the constants of the draw paths the model was written for -/
theorem generated_constants :
    Generated.newDefaultPadding = (0, -2) ∧ Generated.newDefaults = (true, false, true, false) ∧
    Generated.oldDefaultPad = (0, -2) ∧ Generated.oldDefaults = (false, true) ∧
    Generated.kittyHook = [Tok.st, Tok.st, Tok.kittyEndChunked] ∧ Generated.itermHook = [Tok.st, Tok.st] ∧
    Generated.hideCursor = Tok.hideCur.str ∧ Generated.showCursor = Tok.showCur.str ∧
    Generated.kittyAnimZ = -(2 ^ 31) ∧
    GenCtl.cursor_up_probe = (true, true, true, (Tok.cuu 7).str) ∧
    GenCtl.cursor_down_probe = (true, true, true, (Tok.cud 7).str) ∧
    GenCtl.cursor_forward_probe = (true, true, true, (Tok.cuf 7).str) := by decide

/-! ## size validation -/

/-- new API: no error ↔ the documented rule (docstring of `Renderable.draw`) says it fits -/
theorem validate_iff (c : NewCfg) : c.validate = none ↔ c.Fits := by
  unfold NewCfg.validate NewCfg.Fits
  by_cases h1 : c.Wp > c.termW <;> by_cases h2 : c.Hp > c.termH <;>
  cases c.animation <;> cases c.checkSize <;> cases c.allowScroll <;> simp [h1, h2] <;> omega

/-- … and when it raises, nothing is written and the error is the documented one -/
theorem validate_err_silent (c : NewCfg) (e : Err) (h : c.validate = some e) (frames : List Lines)
    (fr : List (Bool × Lines)) (plan : Option Plan) (w : World) :
    e = .renderSizeOutOfRange ∧ newToks c frames = [] ∧ run (newProg c fr) plan w = (w, plan, .raised .err) := by
  refine ⟨?_, by simp [newToks, h], by simp [newProg, h, run]⟩
  unfold NewCfg.validate at h
  simp only at h
  split at h
  · split at h
    · exact (Option.some.inj h).symm
    · split at h
      · exact (Option.some.inj h).symm
      · cases h
  · cases h

/-- old API: no error ↔ the documented rules (docstring of `BaseImage.draw`) -/
theorem old_validate_iff (c : OldCfg) : c.validate = none ↔ c.Fits := by
  unfold OldCfg.validate OldCfg.Fits
  by_cases h1 : c.padW > (c.termW : Int) <;> by_cases h2 : c.padH > (c.termH : Int) <;>
  by_cases h3 : c.cols > c.termW <;> by_cases h4 : c.lines > c.termH <;>
  cases c.animation <;> cases c.checkSize <;> cases c.scroll <;> cases c.sizeFixed <;> simp [h1, h2, h3, h4] <;> omega

theorem old_validate_err_silent (c : OldCfg) (e : Err) (h : c.validate = some e) (frames : List Lines)
    (fr : List (Bool × Lines)) (plan : Option Plan) (w : World) :
    oldToks c frames = [] ∧ run (oldProg c fr) plan w = (w, plan, .raised .err) :=
  ⟨by simp [oldToks, h], by simp [oldProg, h, run]⟩

/-- a configuration that passed validation fits the terminal it was validated against -/
theorem validate_box (c : NewCfg) (h : c.validate = none) (hc : c.checkSize = true ∨ c.animation = true) :
    c.Wp ≤ c.termW ∧ (c.animation = true → c.Hp ≤ c.termH) := by
  have := (validate_iff c).mp h hc
  exact ⟨this.1, fun ha => this.2 (Or.inr ha)⟩

/-! ## new API -/

/-- everything at once (`DrawEffect`): all writes inside the padded box anchored where the first
    frame started; final cursor = (box bottom + 1, column 0), visible; attributes default if they
    were; no wrap; exactly the scrolling the final newline needs -/
theorem new_draw (c : NewCfg) (K : TermKind → Prop) (f0 : Lines) (rest : List Lines) (t : Term)
    (hy : NewHyp c K f0 rest t) :
    DrawEffect t (t.run (newToks c (f0 :: rest))) t.row c.Wp c.Hp c.hide := by
  cases ha : c.animation
  · exact new_still_effect c K f0 rest t
      ⟨hy.valid, hy.first, by simp, hy.clear, hy.w, hy.h, hy.kind, hy.start⟩ ha
  · exact new_anim_effect c K f0 rest t hy ha

/-- draw_region -/
theorem draw_region (c : NewCfg) (K : TermKind → Prop) (f0 : Lines) (rest : List Lines) (t : Term)
    (hy : NewHyp c K f0 rest t) :
    ∃ new, (t.run (newToks c (f0 :: rest))).log = new ++ t.log ∧ ∀ wr ∈ new, InRect t.row 0 c.Wp c.Hp wr :=
  (new_draw c K f0 rest t hy).log

/-- draw_final: the cursor ends at the start of the line immediately below the padded region,
    visible (it was visible before, or draw hid and re-showed it), attributes default if they were -/
theorem draw_final (c : NewCfg) (K : TermKind → Prop) (f0 : Lines) (rest : List Lines) (t : Term)
    (hy : NewHyp c K f0 rest t) (hvis : t.vis = true) :
    let t' := t.run (newToks c (f0 :: rest))
    t'.row = t.row + c.Hp ∧ t'.col = 0 ∧ t'.pw = false ∧ t'.vis = true ∧ t'.wrapped = t.wrapped ∧
    ((t.fg = none ∧ t.bg = none) → (t'.fg = none ∧ t'.bg = none)) := by
  have h := new_draw c K f0 rest t hy
  exact ⟨h.row, h.col, h.pw, by rw [h.vis, hvis]; simp, h.wrapped, h.sgr⟩

/-- scroll_min: the viewport scrolls by one line exactly when the box ends on the last visible row -/
theorem scroll_min (c : NewCfg) (K : TermKind → Prop) (f0 : Lines) (rest : List Lines) (t : Term)
    (hy : NewHyp c K f0 rest t) :
    let t' := t.run (newToks c (f0 :: rest))
    t'.scrolls = t.scrolls + (if t.row + c.Hp = t.top + t.H then 1 else 0) ∧
    t'.top = t.top + (if t.row + c.Hp = t.top + t.H then 1 else 0) := by
  have h := new_draw c K f0 rest t hy
  have hf := hy.start.fits
  refine ⟨?_, ?_⟩
  · rw [h.scrolls]; split <;> omega
  · rw [h.top]; split <;> omega

/-- frames_same_cells: each later frame is drawn over exactly the render rectangle of the first -/
theorem frames_same_cells (c : NewCfg) (K : TermKind → Prop) (f0 : Lines) (pre : List Lines) (f : Lines)
    (post : List Lines) (t : Term) (hy : NewHyp c K f0 (pre ++ f :: post) t) (ha : c.animation = true) :
    let before := (if c.hide then [Tok.hideCur] else []) ++
      ((joinLines (padLines c.pad c.w f0) ++ c.home0) ++ (pre.map c.frameToks).flatten)
    (∃ after, newToks c (f0 :: (pre ++ f :: post)) = before ++ c.frameToks f ++ after) ∧
    ∃ new, ((t.run before).run (c.frameToks f)).log = new ++ (t.run before).log ∧
      (∀ wr ∈ new, InRect (t.row + c.pad.t) c.pad.l c.w c.h wr) ∧
      ∀ di, di < c.h → CoversRow new (t.row + c.pad.t) c.pad.l c.w di := by
  have h := new_frame_cells c K f0 pre f post t hy ha
  exact ⟨h.1, h.2.log⟩

/-- draw_last_frame -/
theorem draw_last_frame (c : NewCfg) (K : TermKind → Prop) (f0 : Lines) (pre : List Lines) (f : Lines)
    (t : Term) (hy : NewHyp c K f0 (pre ++ [f]) t) (ha : c.animation = true) :
    let before := (if c.hide then [Tok.hideCur] else []) ++
      ((joinLines (padLines c.pad c.w f0) ++ c.home0) ++ (pre.map c.frameToks).flatten)
    let ta := t.run before
    let tb := ta.run (c.frameToks f)
    (t.run (newToks c (f0 :: (pre ++ [f])))).log = tb.log ∧
    (∃ new, tb.log = new ++ ta.log ∧ (∀ wr ∈ new, InRect (t.row + c.pad.t) c.pad.l c.w c.h wr) ∧
        ∀ di, di < c.h → CoversRow new (t.row + c.pad.t) c.pad.l c.w di) ∧
    (∃ later first, ta.log = later ++ first ++ t.log ∧ (∀ wr ∈ first, InRect t.row 0 c.Wp c.Hp wr) ∧
        ∀ wr ∈ later, InRect (t.row + c.pad.t) c.pad.l c.w c.h wr) :=
  new_last_frame c K f0 pre f t hy ha

/-! ## old API (repaired: `cursor_up(lines-1)`, no final `CURSOR_DOWN` after a complete frame,
    pre-erase of the image's height) -/

theorem old_draw (c : OldCfg) (K : TermKind → Prop) (f0 : Lines) (rest : List Lines) (t : Term)
    (hy : OldHyp c K f0 rest t) :
    let t' := t.run (oldToks c (f0 :: rest))
    DrawEffect t t' t.row c.Wp c.Hp c.tty ∧ t'.fg = none ∧ t'.bg = none := by
  cases ha : c.animation
  · exact old_still_effect c K f0 rest t
      ⟨hy.valid, hy.first, by simp, hy.pre, hy.clear, hy.w, hy.h, hy.kind, hy.start⟩ ha
  · exact old_anim_effect c K f0 rest t hy ha

theorem old_draw_region (c : OldCfg) (K : TermKind → Prop) (f0 : Lines) (rest : List Lines) (t : Term)
    (hy : OldHyp c K f0 rest t) :
    ∃ new, (t.run (oldToks c (f0 :: rest))).log = new ++ t.log ∧ ∀ wr ∈ new, InRect t.row 0 c.Wp c.Hp wr :=
  (old_draw c K f0 rest t hy).1.log

theorem old_draw_final (c : OldCfg) (K : TermKind → Prop) (f0 : Lines) (rest : List Lines) (t : Term)
    (hy : OldHyp c K f0 rest t) (hvis : t.vis = true) :
    let t' := t.run (oldToks c (f0 :: rest))
    t'.row = t.row + c.Hp ∧ t'.col = 0 ∧ t'.pw = false ∧ t'.vis = true ∧ t'.wrapped = t.wrapped ∧
    t'.fg = none ∧ t'.bg = none := by
  have h := old_draw c K f0 rest t hy
  exact ⟨h.1.row, h.1.col, h.1.pw, by rw [h.1.vis, hvis]; simp, h.1.wrapped, h.2⟩

theorem old_scroll_min (c : OldCfg) (K : TermKind → Prop) (f0 : Lines) (rest : List Lines) (t : Term)
    (hy : OldHyp c K f0 rest t) :
    let t' := t.run (oldToks c (f0 :: rest))
    t'.scrolls = t.scrolls + (if t.row + c.Hp = t.top + t.H then 1 else 0) ∧
    t'.top = t.top + (if t.row + c.Hp = t.top + t.H then 1 else 0) := by
  have h := (old_draw c K f0 rest t hy).1
  have hf := hy.start.fits
  refine ⟨?_, ?_⟩
  · rw [h.scrolls]; split <;> omega
  · rw [h.top]; split <;> omega

/-- every frame of the old API is drawn from the box's top-left cell over the box -/
theorem old_frames_same_cells (c : OldCfg) (K : TermKind → Prop) (cover : Bool) (f0 : Lines)
    (pre : List Lines) (f : Lines) (post : List Lines) (t : Term) (hy : OldHyp c K f0 (pre ++ f :: post) t)
    (hf : FrameC K c.Wp c.Hp cover (c.fmtLines f)) (ha : c.animation = true) :
    let before := (if c.tty then [Tok.hideCur] else []) ++
      ((c.preEraseToks ++ joinLines (c.fmtLines f0)) ++ (pre.map c.frameToks).flatten)
    (∃ after, oldToks c (f0 :: (pre ++ f :: post)) = before ++ c.frameToks f ++ after) ∧
    ∃ new, ((t.run before).run (c.frameToks f)).log = new ++ (t.run before).log ∧
      (∀ wr ∈ new, InRect t.row 0 c.Wp c.Hp wr) ∧
      (cover = true → ∀ di, di < c.Hp → CoversRow new t.row 0 c.Wp di) := by
  have h := old_frame_cells c K cover f0 pre f post t hy hf ha
  exact ⟨h.1, h.2.log⟩

theorem old_draw_last_frame (c : OldCfg) (K : TermKind → Prop) (cover : Bool) (f0 : Lines) (pre : List Lines)
    (f : Lines) (t : Term) (hy : OldHyp c K f0 (pre ++ [f]) t)
    (hf : FrameC K c.Wp c.Hp cover (c.fmtLines f)) (ha : c.animation = true) :
    let before := (if c.tty then [Tok.hideCur] else []) ++
      ((c.preEraseToks ++ joinLines (c.fmtLines f0)) ++ (pre.map c.frameToks).flatten)
    let ta := t.run before
    let tb := ta.run (c.frameToks f)
    (t.run (oldToks c (f0 :: (pre ++ [f])))).log = tb.log ∧
    (∃ new, tb.log = new ++ ta.log ∧ (∀ wr ∈ new, InRect t.row 0 c.Wp c.Hp wr) ∧
        (cover = true → ∀ di, di < c.Hp → CoversRow new t.row 0 c.Wp di)) ∧
    (∃ earlier, ta.log = earlier ++ t.log ∧ ∀ wr ∈ earlier, InRect t.row 0 c.Wp c.Hp wr) :=
  old_last_frame c K cover f0 pre f t hy hf ha

/-! ## the defects of the unrepaired old API, on concrete witnesses -/

/-- D5: `"\r" + CURSOR_UP % 0` (a one-line animation) moves the cursor up one line per frame -/
theorem d5_cursor_up_zero_counterexample :
    (({ W := 10, H := 5, row := 3 } : Term).run [Tok.cr, Tok.cuu 0]).row = 2 := by decide

/-- D6: after the last frame the cursor is on the image's last line; `CURSOR_DOWN % lines` and the
    final newline leave it `lines + 1` lines below, not 1 -/
theorem d6_cursor_down_counterexample :
    (({ W := 10, H := 9, row := 2 } : Term).run [Tok.cud 2, Tok.sgr0, Tok.showCur, Tok.lf]).row = 2 + 2 + 1 := by
  decide

/-! ## non-vacuity -/

/-- block frames meet the contract: every pixel content -/
theorem block_frameOK (cfg : Block.Cfg) (rows : List (List Block.PP)) (w h : Nat)
    (hh : rows.length = h) (hw : ∀ row ∈ rows, row.length = w) :
    FrameOK (fun _ => True) w h (Block.renderLines cfg rows) := by
  refine ⟨by simp [Block.renderLines, hh], fun j di => di = j, ?_, fun di hdi => ⟨di, hdi, rfl⟩⟩
  intro j hj
  simp only [Block.renderLines, List.getElem_map]
  exact (Block.blockLine_ok cfg _ w h j (hw _ (List.getElem_mem _))).weakenSgr

example : Start ({ W := 12, H := 6, row := 2, top := 1 } : Term) 8 4 :=
  ⟨rfl, rfl, rfl, by decide, by decide, by decide⟩

example : ({ w := 4, h := 2, pad := { l := 2, t := 1, r := 2, b := 1 }, tty := true, hideCursor := true,
             echoInput := false, animation := true, checkSize := true, allowScroll := false,
             termW := 12, termH := 6 } : NewCfg).validate = none := by decide

end TIV.C06
