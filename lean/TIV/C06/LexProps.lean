import TIV.C06.Props
import TIV.Common.LexProofs

/-!
# C06 — the model's closed-form streams are readable, and `new_draw` / `old_draw` on the bytes

`newToks c frames` / `oldToks c frames` are token lists; what a terminal receives is
`toksStr (newToks c frames)`, a string.  Under `WfToks` of the frames' lines, of the `_clear_frame_`
tokens and of the padding fill glyph, every token of the closed forms is well formed, hence
(`Lex.lex_toksStr`) the Lean lexer reads the bytes back to exactly the model's tokens.  The draw
theorems are then restated about the bytes: *whatever* the lexer reads from the written string, the
terminal that runs it has the `DrawEffect`.
-/

namespace TIV.C06
open TIV TIV.Lex

/-! ## small pieces -/

theorem wf_cursorUp (n : Int) : WfToks (cursorUp n) := by
  unfold cursorUp; split
  · exact wfToks_cons rfl wfToks_nil
  · exact wfToks_nil

theorem wf_cursorDown (n : Int) : WfToks (cursorDown n) := by
  unfold cursorDown; split
  · exact wfToks_cons rfl wfToks_nil
  · exact wfToks_nil

theorem wf_cursorForward (n : Int) : WfToks (cursorForward n) := by
  unfold cursorForward; split
  · exact wfToks_cons rfl wfToks_nil
  · exact wfToks_nil

theorem wf_replicate {t : Tok} (n : Nat) (h : WfTok t = true) : WfToks (List.replicate n t) := by
  intro u hu
  rw [(List.mem_replicate.mp hu).2]; exact h

theorem wf_blanks (n : Nat) : WfToks (blanks n) := wf_replicate n rfl

theorem wf_flatten (ls : List (List Tok)) (h : ∀ l ∈ ls, WfToks l) : WfToks ls.flatten := by
  intro t ht
  obtain ⟨l, hl, htl⟩ := List.mem_flatten.mp ht
  exact h l hl t htl

/-- the padding fill is a readable glyph (`" "`, or any printable character; `""` has nothing to ask) -/
def Pad.WfFill (p : Pad) : Prop := ∀ g, p.fill = some g → WfTok (.glyph g) = true

theorem wf_fillN (p : Pad) (hp : p.WfFill) (n : Nat) : WfToks (p.fillN n) := by
  unfold Pad.fillN
  cases hf : p.fill with
  | none => exact wf_cursorForward _
  | some g => exact wf_replicate n (hp g hf)

/-- a frame: each of its lines is readable -/
def WfLines (f : Lines) : Prop := ∀ l ∈ f, WfToks l

theorem wf_joinSep (x : Nat) (f : Lines) (h : WfLines f) : WfToks (joinSep x f) := by
  induction f with
  | nil => exact wfToks_nil
  | cons l rest ih =>
    cases rest with
    | nil => simpa [joinSep] using h l (by simp)
    | cons l2 rest2 =>
      simp only [joinSep]
      exact wfToks_append (h l (by simp))
        (wfToks_cons rfl (wfToks_append (wf_cursorForward _) (ih (fun m hm => h m (by simp [hm])))))

/-! ## new API -/

theorem wf_padLines (p : Pad) (hp : p.WfFill) (w : Nat) (f : Lines) (h : WfLines f) :
    WfLines (padLines p w f) := by
  unfold padLines
  simp only
  split
  · exact h
  · intro l hl
    rcases List.mem_append.mp hl with hl | hl
    · rcases List.mem_append.mp hl with hl | hl
      · rw [(List.mem_replicate.mp hl).2]; exact wf_fillN p hp _
      · obtain ⟨m, hm, rfl⟩ := List.mem_map.mp hl
        exact wfToks_append (wfToks_append (wf_fillN p hp _) (h m hm)) (wf_fillN p hp _)
    · rw [(List.mem_replicate.mp hl).2]; exact wf_fillN p hp _

theorem wf_home0 (c : NewCfg) : WfToks c.home0 :=
  wfToks_cons rfl (wfToks_append (wf_cursorUp _) (wf_cursorForward _))

theorem wf_home (c : NewCfg) : WfToks c.home :=
  wfToks_cons rfl (wfToks_append (wf_cursorUp _) (wf_cursorForward _))

theorem wf_down (c : NewCfg) : WfToks c.down := wf_cursorDown _

theorem wf_newFrameToks (c : NewCfg) (hc : WfToks c.clear) (f : Lines) (h : WfLines f) :
    WfToks (c.frameToks f) :=
  wfToks_append (wfToks_append hc (wf_joinSep _ f h)) (wf_home c)

theorem wf_newBodyToks (c : NewCfg) (hp : c.pad.WfFill) (hc : WfToks c.clear) (frames : List Lines)
    (h : ∀ f ∈ frames, WfLines f) : WfToks (c.bodyToks frames) := by
  cases frames with
  | nil => exact wfToks_nil
  | cons f0 rest =>
    have h0 : WfToks (joinLines (padLines c.pad c.w f0)) :=
      wf_joinLines _ (wf_padLines c.pad hp c.w f0 (h f0 (by simp)))
    simp only [NewCfg.bodyToks]
    split
    · refine wfToks_append (wfToks_append (wfToks_append h0 (wf_home0 c)) ?_) (wf_down c)
      apply wf_flatten
      intro l hl
      obtain ⟨f, hf, rfl⟩ := List.mem_map.mp hl
      exact wf_newFrameToks c hc f (h f (by simp [hf]))
    · exact h0

/-- every token of the closed form of a fault-free `Renderable.draw` is well formed -/
theorem wf_newToks (c : NewCfg) (hp : c.pad.WfFill) (hc : WfToks c.clear) (frames : List Lines)
    (h : ∀ f ∈ frames, WfLines f) : WfToks (newToks c frames) := by
  unfold newToks
  split
  · exact wfToks_nil
  · refine wfToks_append (wfToks_append (wfToks_append ?_ (wf_newBodyToks c hp hc frames h))
      (wfToks_cons rfl wfToks_nil)) ?_
    · split
      · exact wfToks_cons rfl wfToks_nil
      · exact wfToks_nil
    · split
      · exact wfToks_cons rfl wfToks_nil
      · exact wfToks_nil

/-- the bytes of a fault-free `Renderable.draw` are read back to exactly the model's tokens -/
theorem lex_newToks (c : NewCfg) (hp : c.pad.WfFill) (hc : WfToks c.clear) (frames : List Lines)
    (h : ∀ f ∈ frames, WfLines f) :
    lex (toksStr (newToks c frames)).toList = some (newToks c frames) :=
  lex_toksStr _ (wf_newToks c hp hc frames h)

/-! ## old API -/

theorem wf_fmtLines (c : OldCfg) (f : Lines) (h : WfLines f) : WfLines (c.fmtLines f) := by
  unfold OldCfg.fmtLines
  simp only
  intro l hl
  rcases List.mem_append.mp hl with hl | hl
  · rcases List.mem_append.mp hl with hl | hl
    · rw [(List.mem_replicate.mp hl).2]; exact wf_blanks _
    · obtain ⟨m, hm, rfl⟩ := List.mem_map.mp hl
      exact wfToks_append (wfToks_append (wf_blanks _) (h m hm)) (wf_blanks _)
  · rw [(List.mem_replicate.mp hl).2]; exact wf_blanks _

theorem wf_up (c : OldCfg) : WfToks c.up := wfToks_cons rfl (wf_cursorUp _)

theorem wf_preEraseToks (c : OldCfg) : WfToks c.preEraseToks := by
  unfold OldCfg.preEraseToks
  split
  · refine wfToks_append (wf_joinLines _ (wf_fmtLines c _ ?_)) (wf_up c)
    intro l hl
    rw [(List.mem_replicate.mp hl).2]
    exact wfToks_cons rfl (wfToks_cons rfl wfToks_nil)
  · exact wfToks_nil

theorem wf_oldFrameToks (c : OldCfg) (hc : WfToks c.clear) (f : Lines) (h : WfLines f) :
    WfToks (c.frameToks f) :=
  wfToks_append (wfToks_append hc (wf_up c)) (wf_joinLines _ (wf_fmtLines c f h))

theorem wf_oldBodyToks (c : OldCfg) (hc : WfToks c.clear) (frames : List Lines)
    (h : ∀ f ∈ frames, WfLines f) : WfToks (c.bodyToks frames) := by
  cases frames with
  | nil => exact wfToks_nil
  | cons f0 rest =>
    have h0 : WfToks (joinLines (c.fmtLines f0)) := wf_joinLines _ (wf_fmtLines c f0 (h f0 (by simp)))
    simp only [OldCfg.bodyToks]
    split
    · refine wfToks_append (wfToks_append (wf_preEraseToks c) h0) ?_
      apply wf_flatten
      intro l hl
      obtain ⟨f, hf, rfl⟩ := List.mem_map.mp hl
      exact wf_oldFrameToks c hc f (h f (by simp [hf]))
    · exact h0

theorem wf_tail (c : OldCfg) : WfToks c.tail := by
  unfold OldCfg.tail
  refine wfToks_append (wfToks_append (wfToks_cons rfl wfToks_nil) ?_) (wfToks_cons rfl wfToks_nil)
  split
  · exact wfToks_cons rfl wfToks_nil
  · exact wfToks_nil

/-- every token of the closed form of a fault-free `BaseImage.draw` is well formed -/
theorem wf_oldToks (c : OldCfg) (hc : WfToks c.clear) (frames : List Lines)
    (h : ∀ f ∈ frames, WfLines f) : WfToks (oldToks c frames) := by
  unfold oldToks
  split
  · exact wfToks_nil
  · refine wfToks_append (wfToks_append ?_ (wf_oldBodyToks c hc frames h)) (wf_tail c)
    split
    · exact wfToks_cons rfl wfToks_nil
    · exact wfToks_nil

/-- the bytes of a fault-free `BaseImage.draw` are read back to exactly the model's tokens -/
theorem lex_oldToks (c : OldCfg) (hc : WfToks c.clear) (frames : List Lines)
    (h : ∀ f ∈ frames, WfLines f) :
    lex (toksStr (oldToks c frames)).toList = some (oldToks c frames) :=
  lex_toksStr _ (wf_oldToks c hc frames h)

/-! ## the renderers' frames are readable -/

/-- a block frame's lines (`render_block` of 8-bit pixels) -/
theorem wfLines_block (cfg : Block.Cfg) (rows : List (List Block.PP)) (h : ∀ r ∈ rows, ∀ p ∈ r, okPP p) :
    WfLines (Block.renderLines cfg rows) := by
  intro l hl
  simp only [Block.renderLines, List.mem_map] at hl
  obtain ⟨r, hr, rfl⟩ := hl
  exact wfToks_append (wf_blockLine cfg r (h r hr)) (wfToks_cons rfl wfToks_nil)

/-- a kitty frame's lines (one well-formed command per line) -/
theorem wfLines_kitty (blend mix : Bool) (w : Nat) (ks : List KittyCmd) (hk : ∀ k ∈ ks, wfKitty k = true) :
    WfLines (Gfx.kittyLines blend mix w ks) := by
  intro l hl
  simp only [Gfx.kittyLines, List.mem_map] at hl
  obtain ⟨k, hk', rfl⟩ := hl
  exact wf_kittyLine blend mix w k (hk k hk')

/-! ## the draw theorems, about the bytes -/

/-- new_draw_bytes: the string a fault-free `Renderable.draw` writes is in the lexer's language, and
    a terminal that runs what the lexer reads from it has the `DrawEffect` -/
theorem new_draw_bytes (c : NewCfg) (K : TermKind → Prop) (f0 : Lines) (rest : List Lines) (t : Term)
    (hy : NewHyp c K f0 rest t) (hp : c.pad.WfFill) (hc : WfToks c.clear)
    (h : ∀ f ∈ f0 :: rest, WfLines f) :
    ∃ ts, lex (toksStr (newToks c (f0 :: rest))).toList = some ts ∧
      DrawEffect t (t.run ts) t.row c.Wp c.Hp c.hide :=
  ⟨_, lex_newToks c hp hc _ h, new_draw c K f0 rest t hy⟩

/-- old_draw_bytes -/
theorem old_draw_bytes (c : OldCfg) (K : TermKind → Prop) (f0 : Lines) (rest : List Lines) (t : Term)
    (hy : OldHyp c K f0 rest t) (hc : WfToks c.clear) (h : ∀ f ∈ f0 :: rest, WfLines f) :
    ∃ ts, lex (toksStr (oldToks c (f0 :: rest))).toList = some ts ∧
      DrawEffect t (t.run ts) t.row c.Wp c.Hp c.tty ∧ (t.run ts).fg = none ∧ (t.run ts).bg = none :=
  ⟨_, lex_oldToks c hc _ h, old_draw c K f0 rest t hy⟩

/-- the reading is unique: any token list whose bytes are the draw's bytes and which is itself well
    formed is the model's — so the oracle's run of *the lexer's* tokens is a run of `newToks` -/
theorem new_bytes_unique (c : NewCfg) (hp : c.pad.WfFill) (hc : WfToks c.clear) (frames : List Lines)
    (h : ∀ f ∈ frames, WfLines f) (ts : List Tok) (hts : WfToks ts)
    (he : toksStr ts = toksStr (newToks c frames)) : ts = newToks c frames := by
  have h1 := lex_toksStr ts hts
  rw [he, lex_newToks c hp hc frames h] at h1
  exact (Option.some.inj h1).symm

theorem old_bytes_unique (c : OldCfg) (hc : WfToks c.clear) (frames : List Lines)
    (h : ∀ f ∈ frames, WfLines f) (ts : List Tok) (hts : WfToks ts)
    (he : toksStr ts = toksStr (oldToks c frames)) : ts = oldToks c frames := by
  have h1 := lex_toksStr ts hts
  rw [he, lex_oldToks c hc frames h] at h1
  exact (Option.some.inj h1).symm

end TIV.C06
