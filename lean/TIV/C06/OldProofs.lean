import TIV.C06.NewProofs
/-!
# C06, old API: `BaseImage.draw` / `_display_animated` (repaired) on the terminal model
-/
namespace TIV.C06
open TIV Term

/-- nothing the property can see changed (inert tokens), whatever the pending-wrap state -/
structure Same (t t' : Term) : Prop where
  row : t'.row = t.row
  col : t'.col = t.col
  pw : t'.pw = t.pw
  frame : Frame t t'
  log : t'.log = t.log
  fg : t'.fg = t.fg
  bg : t'.bg = t.bg

theorem same_inert (ts : List Tok) (h : ∀ a ∈ ts, Tok.inert a = true) (t : Term) : Same t (t.run ts) := by
  induction ts generalizing t with
  | nil => exact ⟨rfl, rfl, rfl, Frame.refl t, rfl, rfl, rfl⟩
  | cons a ts ih =>
    rw [Term.run_cons]
    have ha := h a (by simp)
    have hts : ∀ b ∈ ts, Tok.inert b = true := fun b hb => h b (by simp [hb])
    have h1 : Same t (step t a) := by
      cases a <;> simp [Tok.inert] at ha <;>
        exact ⟨rfl, rfl, rfl, frame_mk rfl rfl rfl rfl rfl rfl rfl rfl, rfl, rfl, rfl⟩
    have h2 := ih hts (step t a)
    exact ⟨h2.row.trans h1.row, h2.col.trans h1.col, h2.pw.trans h1.pw, h1.frame.trans h2.frame,
      h2.log.trans h1.log, h2.fg.trans h1.fg, h2.bg.trans h1.bg⟩

/-- the state between two frames of `_display_animated`: the cursor is somewhere on the last
    line of the padded box anchored at row `r0`, the whole box is visible -/
structure AtEnd (Wp Hp r0 : Nat) (t : Term) : Prop where
  row : t.row = r0 + Hp - 1
  lm : t.lm = 0
  fitW : Wp ≤ t.W
  visTop : t.top ≤ r0
  visBot : r0 + Hp ≤ t.top + t.H

/-- `_clear_frame()`, `"\r"`, `cursor_up(lines - 1)`: to the top-left cell of the box -/
theorem old_up (c : OldCfg) (cl : List Tok) (hclear : ∀ a ∈ cl, Tok.inert a = true) (hW : 0 < c.Wp) (hH : 0 < c.Hp)
    (r0 : Nat) (t : Term) (hE : AtEnd c.Wp c.Hp r0 t) :
    let t' := t.run (cl ++ c.up)
    Ready t' r0 0 c.Wp c.Hp 0 ∧ Frame t t' ∧ t'.log = t.log ∧ t'.fg = t.fg ∧ t'.bg = t.bg := by
  intro t'
  have e : t' = (t.run cl).run c.up := Term.run_append _ _ _
  rw [e]
  have h1 := same_inert cl hclear t
  generalize t.run cl = t1 at h1 ⊢
  have h2 : Moved t1 (t1.run c.up) (t1.row - (c.Hp - 1)) 0 := by
    unfold OldCfg.up
    rw [int_pred c.Hp hH]
    have := moved_home t1 (c.Hp - 1) 0 (by rw [h1.frame.top, h1.row, hE.row]; have := hE.visTop; omega)
      (by rw [h1.frame.W]; have := hE.fitW; omega)
    simpa [cursorForward] using this
  generalize t1.run c.up = t2 at h2 ⊢
  have hfr := h1.frame.trans h2.frame
  refine ⟨⟨by rw [h2.row, h1.row, hE.row]; omega, h2.col, h2.pw, by rw [hfr.W]; have := hE.fitW; omega,
      by rw [hfr.top]; exact hE.visTop, by rw [hfr.top, hfr.H]; exact hE.visBot, hH, hW⟩, hfr,
    by rw [h2.log, h1.log], by rw [h2.fg, h1.fg], by rw [h2.bg, h1.bg]⟩

/-- the contract of a formatted frame: `cover = true` asks for full coverage of the box (which
    `_format_render` gives unless `pad_width` is smaller than the image) -/
def FrameC (K : TermKind → Prop) (w h : Nat) (cover : Bool) (ls : Lines) : Prop :=
  if cover then FrameOK K w h ls else FrameIn K w h ls

theorem FrameC.toIn {K : TermKind → Prop} {w h : Nat} {cover : Bool} {ls : Lines} (hf : FrameC K w h cover ls) :
    FrameIn K w h ls := by
  cases cover
  · exact hf
  · exact FrameOK.toIn hf

theorem block_c (K : TermKind → Prop) (w h : Nat) (cover : Bool) (ls : Lines) (hh : 0 < h)
    (hf : FrameC K w h cover ls) (t : Term) (r0 : Nat) (hK : K t.kind) (hlm : t.lm = 0)
    (hR : Ready t r0 0 w h 0) : BlockEff t (t.run (joinLines ls)) r0 0 w h cover := by
  rw [← joinSep_zero]
  cases cover
  · exact block_in K w h 0 ls hh hf t r0 hK hlm hR
  · exact block_ok K w h 0 ls hh hf t r0 hK hlm hR

theorem atEnd_of_block {t t' : Term} {r0 w h : Nat} {cover : Bool} (hlm : t.lm = 0)
    (hR : Ready t r0 0 w h 0) (hB : BlockEff t t' r0 0 w h cover) : AtEnd w h r0 t' :=
  ⟨hB.row, by rw [hB.frame.lm]; exact hlm, by rw [hB.frame.W]; have := hR.fitW; omega,
    by rw [hB.frame.top]; exact hR.visTop, by rw [hB.frame.top, hB.frame.H]; exact hR.visBot⟩

/-- one later frame: back to the box's first line, the formatted frame over the whole box -/
structure OldFrameEff (Wp Hp r0 : Nat) (cover : Bool) (t t' : Term) : Prop where
  atEnd : AtEnd Wp Hp r0 t'
  frame : Frame t t'
  sgr : (t.fg = none ∧ t.bg = none) → (t'.fg = none ∧ t'.bg = none)
  log : ∃ new, t'.log = new ++ t.log ∧ (∀ wr ∈ new, InRect r0 0 Wp Hp wr) ∧
        (cover = true → ∀ di, di < Hp → CoversRow new r0 0 Wp di)

theorem old_frame (c : OldCfg) (K : TermKind → Prop) (cover : Bool) (f : Lines)
    (hf : FrameC K c.Wp c.Hp cover (c.fmtLines f)) (hclear : ∀ a ∈ c.clear, Tok.inert a = true)
    (hW : 0 < c.Wp) (hH : 0 < c.Hp) (r0 : Nat) (t : Term) (hK : K t.kind) (hE : AtEnd c.Wp c.Hp r0 t) :
    OldFrameEff c.Wp c.Hp r0 cover t (t.run (c.frameToks f)) := by
  unfold OldCfg.frameToks
  rw [Term.run_append]
  have h1 := old_up c c.clear hclear hW hH r0 t hE
  simp only at h1
  generalize t.run (c.clear ++ c.up) = t1 at h1 ⊢
  obtain ⟨hR, hF, hl, hfg, hbg⟩ := h1
  have hlm1 : t1.lm = 0 := by rw [hF.lm]; exact hE.lm
  have h2 := block_c K c.Wp c.Hp cover _ hH hf t1 r0 (by rw [hF.kind]; exact hK) hlm1 hR
  have hE2 := atEnd_of_block hlm1 hR h2
  generalize t1.run (joinLines (c.fmtLines f)) = t2 at h2 hE2 ⊢
  obtain ⟨new, hnew, hin, hcov⟩ := h2.log
  exact ⟨hE2, hF.trans h2.frame, fun hd => h2.sgr (by rw [hfg, hbg]; exact hd), new, by rw [hnew, hl], hin, hcov⟩

structure OldLoopEff (Wp Hp r0 : Nat) (t t' : Term) : Prop where
  atEnd : AtEnd Wp Hp r0 t'
  frame : Frame t t'
  sgr : (t.fg = none ∧ t.bg = none) → (t'.fg = none ∧ t'.bg = none)
  log : ∃ new, t'.log = new ++ t.log ∧ ∀ wr ∈ new, InRect r0 0 Wp Hp wr

theorem old_loop (c : OldCfg) (K : TermKind → Prop) (hclear : ∀ a ∈ c.clear, Tok.inert a = true)
    (hW : 0 < c.Wp) (hH : 0 < c.Hp) (r0 : Nat) :
    ∀ (rest : List Lines), (∀ f ∈ rest, FrameIn K c.Wp c.Hp (c.fmtLines f)) →
      ∀ t : Term, K t.kind → AtEnd c.Wp c.Hp r0 t →
        OldLoopEff c.Wp c.Hp r0 t (t.run (rest.map c.frameToks).flatten) := by
  intro rest
  induction rest with
  | nil => intro _ t _ hE; exact ⟨hE, Frame.refl t, id, [], rfl, by simp⟩
  | cons f rest ih =>
    intro hall t hK hE
    simp only [List.map_cons, List.flatten_cons]
    rw [Term.run_append]
    have h1 := old_frame c K false f (hall f (by simp)) hclear hW hH r0 t hK hE
    generalize t.run (c.frameToks f) = t1 at h1 ⊢
    have h2 := ih (fun g hg => hall g (by simp [hg])) t1 (by rw [h1.frame.kind]; exact hK) h1.atEnd
    obtain ⟨n1, hn1, hi1, _⟩ := h1.log
    obtain ⟨n2, hn2, hi2⟩ := h2.log
    refine ⟨h2.atEnd, h1.frame.trans h2.frame, fun hd => h2.sgr (h1.sgr hd), n2 ++ n1, ?_, ?_⟩
    · rw [hn2, hn1, List.append_assoc]
    · intro wr hwr
      rcases List.mem_append.mp hwr with h | h
      · exact hi2 wr h
      · exact hi1 wr h

/-- `SGR_DEFAULT`, `SHOW_CURSOR`, `"\n"` from the last line of the box -/
theorem old_tail (c : OldCfg) (hH : 0 < c.Hp) (r0 : Nat) (t : Term) (hE : AtEnd c.Wp c.Hp r0 t) :
    let t' := t.run c.tail
    t'.row = r0 + c.Hp ∧ t'.col = 0 ∧ t'.pw = false ∧ t'.log = t.log ∧ t'.fg = none ∧ t'.bg = none ∧
    t'.W = t.W ∧ t'.H = t.H ∧ t'.kind = t.kind ∧ t'.lm = t.lm ∧ t'.vis = (c.tty || t.vis) ∧ t'.wrapped = t.wrapped ∧
    t'.scrolls = t.scrolls + (r0 + c.Hp + 1 - (t.top + t.H)) ∧
    t'.top = t.top + (r0 + c.Hp + 1 - (t.top + t.H)) := by
  intro t'
  have hvb := hE.visBot
  have hrow := hE.row
  have hlm := hE.lm
  have e : t' = step ((step t Tok.sgr0).run (if c.tty then [Tok.showCur] else [])) Tok.lf := by
    show t.run c.tail = _
    unfold OldCfg.tail
    rw [Term.run_append, Term.run_append]; rfl
  rw [e]
  have hlf := lf_effect ((step t Tok.sgr0).run (if c.tty then [Tok.showCur] else [])) (by cases c.tty <;> exact hlm)
  generalize step ((step t Tok.sgr0).run (if c.tty then [Tok.showCur] else [])) Tok.lf = t3 at hlf ⊢
  obtain ⟨a1, a2, a3, a4, a5, a6, a7, a8, a9, a10, a11, a12, a13, a14⟩ := hlf
  have hif : (if t.row + 1 = t.top + t.H then 1 else 0) = r0 + c.Hp + 1 - (t.top + t.H) := by
    rw [hrow]; split <;> omega
  cases htty : c.tty <;> simp only [htty, Bool.false_eq_true, if_false, if_true, Term.run_nil, Bool.false_or,
      Bool.true_or] at a1 a2 a3 a4 a5 a6 a7 a8 a9 a10 a11 a12 a13 a14 ⊢
  · refine ⟨by rw [a1]; show t.row + 1 = _; omega, a2, a3, a4, a5, a6, a7, a8, a9, a10, a11, a12, ?_, ?_⟩
    · rw [a13]; show t.scrolls + (if t.row + 1 = t.top + t.H then 1 else 0) = _; rw [hif]
    · rw [a14]; show t.top + (if t.row + 1 = t.top + t.H then 1 else 0) = _; rw [hif]
  · refine ⟨by rw [a1]; show t.row + 1 = _; omega, a2, a3, a4, a5, a6, a7, a8, a9, a10, a11, a12, ?_, ?_⟩
    · rw [a13]; show t.scrolls + (if t.row + 1 = t.top + t.H then 1 else 0) = _; rw [hif]
    · rw [a14]; show t.top + (if t.row + 1 = t.top + t.H then 1 else 0) = _; rw [hif]


/-- hypotheses of the old-API theorems -/
structure OldHyp (c : OldCfg) (K : TermKind → Prop) (f0 : Lines) (rest : List Lines) (t : Term) : Prop where
  valid : c.validate = none
  first : FrameIn K c.Wp c.Hp (c.fmtLines f0)
  rest : ∀ f ∈ rest, FrameIn K c.Wp c.Hp (c.fmtLines f)
  pre : c.preErase = true →
    FrameIn K c.Wp c.Hp (c.fmtLines (List.replicate c.lines [Tok.ech c.cols, Tok.cuf c.cols]))
  clear : ∀ a ∈ c.clear, Tok.inert a = true
  w : 0 < c.cols
  h : 0 < c.lines
  kind : K t.kind
  start : Start t c.Wp c.Hp

theorem OldHyp.Wpos {c : OldCfg} {K : TermKind → Prop} {f0 : Lines} {rest : List Lines} {t : Term}
    (hy : OldHyp c K f0 rest t) : 0 < c.Wp := by have := hy.w; unfold OldCfg.Wp; omega
theorem OldHyp.Hpos {c : OldCfg} {K : TermKind → Prop} {f0 : Lines} {rest : List Lines} {t : Term}
    (hy : OldHyp c K f0 rest t) : 0 < c.Hp := by have := hy.h; unfold OldCfg.Hp; omega

theorem ready_of_start {t : Term} {Wp Hp : Nat} (hS : Start t Wp Hp) (hW : 0 < Wp) (hH : 0 < Hp) :
    Ready t t.row 0 Wp Hp 0 :=
  ⟨rfl, hS.col, hS.pw, by have := hS.fitW; omega, hS.visTop, hS.fits, hH, hW⟩

/-- the (wezterm) pre-erase: the image's cells blanked inside the box, cursor back at its top-left -/
theorem old_pre (c : OldCfg) (K : TermKind → Prop) (f0 : Lines) (rest : List Lines) (t0 : Term)
    (hy : OldHyp c K f0 rest t0) (t : Term) (hK : K t.kind) (hS : Start t c.Wp c.Hp) :
    let t' := t.run c.preEraseToks
    Ready t' t.row 0 c.Wp c.Hp 0 ∧ Frame t t' ∧ ((t.fg = none ∧ t.bg = none) → (t'.fg = none ∧ t'.bg = none)) ∧
    ∃ new, t'.log = new ++ t.log ∧ ∀ wr ∈ new, InRect t.row 0 c.Wp c.Hp wr := by
  intro t'
  have hW := hy.Wpos; have hH := hy.Hpos
  have hR := ready_of_start hS hW hH
  by_cases hp : c.preErase = true
  · have e : t' = (t.run (joinLines (c.fmtLines (List.replicate c.lines [Tok.ech c.cols, Tok.cuf c.cols])))).run c.up := by
      show t.run c.preEraseToks = _
      unfold OldCfg.preEraseToks
      rw [if_pos hp, Term.run_append]
    rw [e]
    have h1 := block_c K c.Wp c.Hp false _ hH (hy.pre hp) t t.row hK hS.lm hR
    have hE := atEnd_of_block hS.lm hR h1
    generalize t.run (joinLines (c.fmtLines (List.replicate c.lines [Tok.ech c.cols, Tok.cuf c.cols]))) = t1 at h1 hE ⊢
    have h2 := old_up c [] (by simp) hW hH t.row t1 hE
    simp only [List.nil_append] at h2
    generalize t1.run c.up = t2 at h2 ⊢
    obtain ⟨hR2, hF2, hl2, hfg2, hbg2⟩ := h2
    obtain ⟨new, hnew, hin, _⟩ := h1.log
    exact ⟨hR2, h1.frame.trans hF2, fun hd => by rw [hfg2, hbg2]; exact h1.sgr hd, new, by rw [hl2, hnew], hin⟩
  · have e : t' = t := by
      show t.run c.preEraseToks = _
      unfold OldCfg.preEraseToks
      rw [if_neg hp]; rfl
    rw [e]
    exact ⟨hR, Frame.refl t, id, [], rfl, by simp⟩

/-- the (wezterm) pre-erase and the first frame -/
theorem old_first (c : OldCfg) (K : TermKind → Prop) (f0 : Lines) (rest : List Lines) (t0 : Term)
    (hy : OldHyp c K f0 rest t0) (t : Term) (hK : K t.kind) (hS : Start t c.Wp c.Hp) :
    OldLoopEff c.Wp c.Hp t.row t (t.run (c.preEraseToks ++ joinLines (c.fmtLines f0))) := by
  have hW := hy.Wpos; have hH := hy.Hpos
  rw [Term.run_append]
  have h1 := old_pre c K f0 rest t0 hy t hK hS
  simp only at h1
  generalize t.run c.preEraseToks = t1 at h1 ⊢
  obtain ⟨hR, hF, hs, n1, hn1, hi1⟩ := h1
  have hlm1 : t1.lm = 0 := by rw [hF.lm]; exact hS.lm
  have h2 := block_c K c.Wp c.Hp false _ hH hy.first t1 t.row (by rw [hF.kind]; exact hK) hlm1 hR
  have hE := atEnd_of_block hlm1 hR h2
  generalize t1.run (joinLines (c.fmtLines f0)) = t2 at h2 hE ⊢
  obtain ⟨n2, hn2, hi2, _⟩ := h2.log
  refine ⟨hE, hF.trans h2.frame, fun hd => h2.sgr (hs hd), n2 ++ n1, by rw [hn2, hn1, List.append_assoc], ?_⟩
  intro wr hwr
  rcases List.mem_append.mp hwr with h | h
  · exact hi2 wr h
  · exact hi1 wr h

theorem oldToks_anim (c : OldCfg) (f0 : Lines) (rest : List Lines) (hv : c.validate = none)
    (ha : c.animation = true) :
    oldToks c (f0 :: rest) = (if c.tty then [Tok.hideCur] else []) ++
      ((c.preEraseToks ++ joinLines (c.fmtLines f0)) ++ ((rest.map c.frameToks).flatten ++ c.tail)) := by
  simp [oldToks, hv, OldCfg.bodyToks, ha, List.append_assoc]

theorem oldToks_still (c : OldCfg) (f0 : Lines) (rest : List Lines) (hv : c.validate = none)
    (ha : c.animation = false) :
    oldToks c (f0 :: rest) = (if c.tty then [Tok.hideCur] else []) ++ (joinLines (c.fmtLines f0) ++ c.tail) := by
  simp [oldToks, hv, OldCfg.bodyToks, ha, List.append_assoc]

/-- animation: the prefix up to and including the frames `pre` -/
theorem old_anim_prefix (c : OldCfg) (K : TermKind → Prop) (f0 : Lines) (pre : List Lines) (t : Term)
    (hy : OldHyp c K f0 pre t) :
    let t0 : Term := if c.tty then { t with vis := false } else t
    let t' := t0.run ((c.preEraseToks ++ joinLines (c.fmtLines f0)) ++ (pre.map c.frameToks).flatten)
    AtEnd c.Wp c.Hp t.row t' ∧ Frame t0 t' ∧
    ∃ new, t'.log = new ++ t.log ∧ ∀ wr ∈ new, InRect t.row 0 c.Wp c.Hp wr := by
  intro t0 t'
  have hS0 : Start t0 c.Wp c.Hp := start_hide hy.start c.tty
  have h0 := hide_facts t c.tty
  simp only at h0
  obtain ⟨b1, b2, b3, b4, b5, b6, b7, b8, b9, b10, b11, b12, -⟩ := h0
  have h1 := old_first c K f0 pre t hy t0 (by rw [b3]; exact hy.kind) hS0
  have e : t' = (t0.run (c.preEraseToks ++ joinLines (c.fmtLines f0))).run (pre.map c.frameToks).flatten :=
    Term.run_append _ _ _
  rw [e]
  generalize t0.run (c.preEraseToks ++ joinLines (c.fmtLines f0)) = t1 at h1 ⊢
  rw [b9] at h1
  have h2 := old_loop c K hy.clear hy.Wpos hy.Hpos t.row pre hy.rest t1
    (by rw [h1.frame.kind, b3]; exact hy.kind) h1.atEnd
  obtain ⟨n1, hn1, hi1⟩ := h1.log
  obtain ⟨n2, hn2, hi2⟩ := h2.log
  refine ⟨h2.atEnd, h1.frame.trans h2.frame, n2 ++ n1, by rw [hn2, hn1, b10, List.append_assoc], ?_⟩
  intro wr hwr
  rcases List.mem_append.mp hwr with h | h
  · exact hi2 wr h
  · exact hi1 wr h

/-- everything the old `draw()` does; text attributes are reset unconditionally -/
theorem old_anim_effect (c : OldCfg) (K : TermKind → Prop) (f0 : Lines) (rest : List Lines) (t : Term)
    (hy : OldHyp c K f0 rest t) (ha : c.animation = true) :
    let t' := t.run (oldToks c (f0 :: rest))
    DrawEffect t t' t.row c.Wp c.Hp c.tty ∧ t'.fg = none ∧ t'.bg = none := by
  intro t'
  have e : t' = ((if c.tty then { t with vis := false } else t).run
      ((c.preEraseToks ++ joinLines (c.fmtLines f0)) ++ (rest.map c.frameToks).flatten)).run c.tail := by
    show t.run _ = _
    rw [oldToks_anim c f0 rest hy.valid ha, run_hide, ← List.append_assoc, Term.run_append]
  rw [e]
  have h1 := old_anim_prefix c K f0 rest t hy
  have h0 := hide_facts t c.tty
  simp only at h1 h0
  generalize (if c.tty then { t with vis := false } else t) = t0 at h1 h0 ⊢
  generalize t0.run ((c.preEraseToks ++ joinLines (c.fmtLines f0)) ++ (rest.map c.frameToks).flatten) = t1 at h1 ⊢
  obtain ⟨hE, hF, new, hlog, hin⟩ := h1
  obtain ⟨b1, b2, b3, b4, b5, b6, b7, b8, -⟩ := h0
  have h2 := old_tail c hy.Hpos t.row t1 hE
  simp only at h2
  generalize t1.run c.tail = t2 at h2 ⊢
  obtain ⟨a1, a2, a3, a4, a5, a6, a7, a8, a9, a10, a11, a12, a13, a14⟩ := h2
  exact ⟨⟨⟨new, by rw [a4, hlog], hin⟩, a1, a2, a3, by rw [a11, hF.vis, b8], fun _ => ⟨a5, a6⟩,
    by rw [a12, hF.wrapped, b6], by rw [a13, hF.scrolls, hF.top, hF.H, b7, b4, b2],
    by rw [a14, hF.top, hF.H, b4, b2], by rw [a7, hF.W, b1], by rw [a8, hF.H, b2],
    by rw [a9, hF.kind, b3], by rw [a10, hF.lm, b5]⟩, a5, a6⟩

/-- still image -/
theorem old_still_effect (c : OldCfg) (K : TermKind → Prop) (f0 : Lines) (rest : List Lines) (t : Term)
    (hy : OldHyp c K f0 [] t) (ha : c.animation = false) :
    let t' := t.run (oldToks c (f0 :: rest))
    DrawEffect t t' t.row c.Wp c.Hp c.tty ∧ t'.fg = none ∧ t'.bg = none := by
  intro t'
  have e : t' = ((if c.tty then { t with vis := false } else t).run (joinLines (c.fmtLines f0))).run c.tail := by
    show t.run _ = _
    rw [oldToks_still c f0 rest hy.valid ha, run_hide, Term.run_append]
  rw [e]
  have h0 := hide_facts t c.tty
  have hS0 : Start (if c.tty then { t with vis := false } else t) c.Wp c.Hp := start_hide hy.start c.tty
  simp only at h0
  generalize (if c.tty then { t with vis := false } else t) = t0 at h0 hS0 ⊢
  obtain ⟨b1, b2, b3, b4, b5, b6, b7, b8, b9, b10, b11, b12, -⟩ := h0
  have hR := ready_of_start hS0 hy.Wpos hy.Hpos
  have h1 := block_c K c.Wp c.Hp false _ hy.Hpos hy.first t0 t0.row (by rw [b3]; exact hy.kind) hS0.lm hR
  have hE := atEnd_of_block hS0.lm hR h1
  generalize t0.run (joinLines (c.fmtLines f0)) = t1 at h1 hE ⊢
  rw [b9] at hE h1
  have hF := h1.frame
  obtain ⟨new, hlog, hin, _⟩ := h1.log
  have h2 := old_tail c hy.Hpos t.row t1 hE
  simp only at h2
  generalize t1.run c.tail = t2 at h2 ⊢
  obtain ⟨a1, a2, a3, a4, a5, a6, a7, a8, a9, a10, a11, a12, a13, a14⟩ := h2
  exact ⟨⟨⟨new, by rw [a4, hlog, b10], hin⟩, a1, a2, a3, by rw [a11, hF.vis, b8], fun _ => ⟨a5, a6⟩,
    by rw [a12, hF.wrapped, b6], by rw [a13, hF.scrolls, hF.top, hF.H, b7, b4, b2],
    by rw [a14, hF.top, hF.H, b4, b2], by rw [a7, hF.W, b1], by rw [a8, hF.H, b2],
    by rw [a9, hF.kind, b3], by rw [a10, hF.lm, b5]⟩, a5, a6⟩

/-- every later frame is drawn from the box's top-left cell over the box: with `pre ++ f :: post`
    the frames after the first, `f` starts at `(row₀, 0)`, writes only cells of the box and — when
    its formatted lines cover the box (`cover`) — all of them -/
theorem old_frame_cells (c : OldCfg) (K : TermKind → Prop) (cover : Bool) (f0 : Lines) (pre : List Lines)
    (f : Lines) (post : List Lines) (t : Term) (hy : OldHyp c K f0 (pre ++ f :: post) t)
    (hf : FrameC K c.Wp c.Hp cover (c.fmtLines f)) (ha : c.animation = true) :
    let before := (if c.tty then [Tok.hideCur] else []) ++
      ((c.preEraseToks ++ joinLines (c.fmtLines f0)) ++ (pre.map c.frameToks).flatten)
    (∃ after, oldToks c (f0 :: (pre ++ f :: post)) = before ++ c.frameToks f ++ after) ∧
    OldFrameEff c.Wp c.Hp t.row cover (t.run before) ((t.run before).run (c.frameToks f)) := by
  intro before
  constructor
  · refine ⟨(post.map c.frameToks).flatten ++ c.tail, ?_⟩
    rw [oldToks_anim c f0 _ hy.valid ha]
    simp [before, List.append_assoc]
  · have hy' : OldHyp c K f0 pre t :=
      ⟨hy.valid, hy.first, fun g hg => hy.rest g (by simp [hg]), hy.pre, hy.clear, hy.w, hy.h, hy.kind, hy.start⟩
    have h1 := old_anim_prefix c K f0 pre t hy'
    have h0 := hide_facts t c.tty
    simp only at h1 h0
    have e : t.run before = (if c.tty then { t with vis := false } else t).run
        ((c.preEraseToks ++ joinLines (c.fmtLines f0)) ++ (pre.map c.frameToks).flatten) := run_hide _ _ _
    rw [e]
    generalize (if c.tty then { t with vis := false } else t) = t0 at h1 h0 ⊢
    obtain ⟨hE, hF, -⟩ := h1
    exact old_frame c K cover f hf hy.clear hy.Wpos hy.Hpos t.row _ (by rw [hF.kind, h0.2.2.1]; exact hy.kind) hE

/-- after the last frame nothing more is written -/
theorem old_last_frame (c : OldCfg) (K : TermKind → Prop) (cover : Bool) (f0 : Lines) (pre : List Lines)
    (f : Lines) (t : Term) (hy : OldHyp c K f0 (pre ++ [f]) t)
    (hf : FrameC K c.Wp c.Hp cover (c.fmtLines f)) (ha : c.animation = true) :
    let before := (if c.tty then [Tok.hideCur] else []) ++
      ((c.preEraseToks ++ joinLines (c.fmtLines f0)) ++ (pre.map c.frameToks).flatten)
    let ta := t.run before
    let tb := ta.run (c.frameToks f)
    (t.run (oldToks c (f0 :: (pre ++ [f])))).log = tb.log ∧
    (∃ new, tb.log = new ++ ta.log ∧ (∀ wr ∈ new, InRect t.row 0 c.Wp c.Hp wr) ∧
        (cover = true → ∀ di, di < c.Hp → CoversRow new t.row 0 c.Wp di)) ∧
    (∃ earlier, ta.log = earlier ++ t.log ∧ ∀ wr ∈ earlier, InRect t.row 0 c.Wp c.Hp wr) := by
  intro before ta tb
  have hc := old_frame_cells c K cover f0 pre f [] t hy hf ha
  simp only at hc
  obtain ⟨-, hfe⟩ := hc
  have hy' : OldHyp c K f0 pre t :=
    ⟨hy.valid, hy.first, fun g hg => hy.rest g (by simp [hg]), hy.pre, hy.clear, hy.w, hy.h, hy.kind, hy.start⟩
  have h1 := old_anim_prefix c K f0 pre t hy'
  simp only at h1
  have e : ta = (if c.tty then { t with vis := false } else t).run
      ((c.preEraseToks ++ joinLines (c.fmtLines f0)) ++ (pre.map c.frameToks).flatten) := run_hide _ _ _
  rw [← e] at h1
  obtain ⟨-, -, earlier, hlog, hin⟩ := h1
  refine ⟨?_, hfe.log, earlier, hlog, hin⟩
  have htoks : oldToks c (f0 :: (pre ++ [f])) = before ++ c.frameToks f ++ c.tail := by
    rw [oldToks_anim c f0 _ hy.valid ha]
    simp [before, List.append_assoc]
  rw [htoks, Term.run_append (t := t) (a := before ++ c.frameToks f), Term.run_append (t := t) (a := before)]
  have h2 := old_tail c hy.Hpos t.row tb hfe.atEnd
  exact h2.2.2.2.1

end TIV.C06
