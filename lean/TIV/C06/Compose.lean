import TIV.C05.Props
import TIV.C01.Props
import TIV.C06.Props
/-!
# C06 ∘ C05 (∘ C01): the end-to-end statements without hypotheses about padded frames

`C06.Props` takes "the padded first frame / the formatted frames meet the block contract"
(`FrameIn`) as a hypothesis. Here it is discharged by C05's `pad_WB`: the model's `padLines` /
`fmtLines` are C05's `padLines`, so an inner frame that meets the C01 contract (`FrameOK`) gives a
padded frame that does. The corollaries `*_inner` speak about inner frames only; `*_block`,
`kitty_frameOK`, `iterm_frameOK` instantiate them with the three renderers of C01.
-/
namespace TIV.C06
open TIV Term

/-! ## the two padding functions are C05's -/

/-- `Padding.fill` of the C06 model as C05's `Fill` -/
def toFill : Option Glyph → C05.Fill
  | some g => .glyph g
  | none => .empty

theorem fillN_eq_c05 (p : Pad) (n : Nat) : p.fillN n = C05.fillSeg (toFill p.fill) n := by
  unfold Pad.fillN toFill C05.fillSeg
  cases p.fill <;> simp [glyphs]

/-- the model's `Padding.pad` on lines is C05's, also when all four dimensions are zero -/
theorem padLines_eq (p : Pad) (w : Nat) (ls : Lines) :
    padLines p w ls = C05.padLines (toFill p.fill) p.l p.t p.r p.b w ls := by
  unfold padLines C05.padLines
  simp only [fillN_eq_c05]
  split
  · rename_i h
    obtain ⟨h1, h2, h3, h4⟩ := h
    simp [h1, h2, h3, h4, C05.fillSeg_zero]
  · rfl

/-- … in the form of the code's early return -/
theorem padLines_eq_c05 (p : Pad) (w : Nat) (ls : Lines) :
    padLines p w ls = if p.l = 0 ∧ p.r = 0 ∧ p.t = 0 ∧ p.b = 0 then ls
      else C05.padLines (toFill p.fill) p.l p.t p.r p.b w ls := by
  split
  · rename_i h; simp [padLines, h]
  · exact padLines_eq p w ls

/-- PAD ⇒ `FrameIn`: a padded frame meets the block contract of the padded box whenever the inner
    frame's lines meet it for the inner rectangle (any SGR mode, any coverage) -/
theorem padded_frameIn (K : TermKind → Prop) (f : C05.Fill) (l tp r b w h : Nat) (m : SgrMode)
    (S : Nat → Nat → Prop) (ls : Lines) (hlen : ls.length = h) (hw : 0 < w)
    (hOK : ∀ i (hi : i < ls.length), LineOK K w h i m (S i) ls[i]) :
    FrameIn K (l + w + r) (tp + h + b) (C05.padLines f l tp r b w ls) := by
  refine ⟨by rw [C05.padLines_length, hlen], fun j hj => ?_⟩
  exact (C05.pad_WB K f l tp r b w h m S ls hlen hw hOK j hj).weakenS (fun _ hd => absurd hd id)

/-- the padded first frame of the new API -/
theorem first_frame_in (K : TermKind → Prop) (p : Pad) (w h : Nat) (f0 : Lines) (hw : 0 < w)
    (hf : FrameOK K w h f0) : FrameIn K (p.l + w + p.r) (p.t + h + p.b) (padLines p w f0) := by
  obtain ⟨hl, S, hS, _⟩ := hf
  rw [padLines_eq]
  exact padded_frameIn K _ _ _ _ _ w h .keepsDefault S f0 hl hw hS

/-! ## old API: `_format_render` on lines is C05's `padLines` with the margins it computes -/

/-- `(left, top, right, bottom)` of `_format_render` -/
def OldCfg.margins (c : OldCfg) : Nat × Nat × Nat × Nat :=
  let (left, right) :=
    if c.width > c.cols then
      match c.hal with
      | .left => (0, c.width - c.cols)
      | .right => (c.width - c.cols, 0)
      | .center => ((c.width - c.cols) / 2, c.width - c.cols - (c.width - c.cols) / 2)
    else (0, 0)
  let (top, bottom) :=
    if c.height > c.lines then
      match c.val with
      | .top => (0, c.height - c.lines)
      | .bottom => (c.height - c.lines, 0)
      | .middle => ((c.height - c.lines) / 2, c.height - c.lines - (c.height - c.lines) / 2)
    else (0, 0)
  (left, top, right, bottom)

/-- the margins add up to the padded box -/
theorem margins_box (c : OldCfg) :
    c.margins.1 + c.cols + c.margins.2.2.1 = c.Wp ∧ c.margins.2.1 + c.lines + c.margins.2.2.2 = c.Hp := by
  unfold OldCfg.margins OldCfg.Wp OldCfg.Hp
  constructor
  · by_cases hW : c.width > c.cols <;> cases c.hal <;> simp [hW] <;> omega
  · by_cases hH : c.height > c.lines <;> cases c.val <;> simp [hH] <;> omega

theorem blanks_eq (n : Nat) : blanks n = C05.fillSeg (.glyph .blank) n := by
  simp [blanks, C05.fillSeg, glyphs]

theorem fmtLines_eq_c05 (c : OldCfg) (f : Lines) :
    c.fmtLines f = C05.padLines (.glyph .blank) c.margins.1 c.margins.2.1 c.margins.2.2.1 c.margins.2.2.2 c.cols f := by
  have hb := (margins_box c).1
  unfold C05.padLines
  rw [hb]
  unfold OldCfg.fmtLines OldCfg.margins OldCfg.Wp
  simp only [blanks_eq]
  by_cases hW : c.width > c.cols <;> by_cases hH : c.height > c.lines <;> cases c.hal <;> cases c.val <;>
    simp [hW, hH]

/-- a formatted frame meets the block contract of the padded box -/
theorem fmt_frameIn (K : TermKind → Prop) (c : OldCfg) (m : SgrMode) (S : Nat → Nat → Prop) (f : Lines)
    (hlen : f.length = c.lines) (hw : 0 < c.cols)
    (hOK : ∀ i (hi : i < f.length), LineOK K c.cols c.lines i m (S i) f[i]) :
    FrameIn K c.Wp c.Hp (c.fmtLines f) := by
  rw [fmtLines_eq_c05, ← (margins_box c).1, ← (margins_box c).2]
  exact padded_frameIn K _ _ _ _ _ c.cols c.lines m S f hlen hw hOK

theorem fmt_frameIn_of_ok (K : TermKind → Prop) (c : OldCfg) (f : Lines) (hw : 0 < c.cols)
    (hf : FrameOK K c.cols c.lines f) : FrameIn K c.Wp c.Hp (c.fmtLines f) := by
  obtain ⟨hl, S, hS, _⟩ := hf
  exact fmt_frameIn K c .keepsDefault S f hl hw hS

/-- the iterm2/wezterm pre-erase pseudo-frame (`ERASE_CHARS cols`, `CURSOR_FORWARD cols` per line) -/
theorem preErase_frameIn (K : TermKind → Prop) (c : OldCfg) (hw : 0 < c.cols) :
    FrameIn K c.Wp c.Hp (c.fmtLines (List.replicate c.lines [Tok.ech c.cols, Tok.cuf c.cols])) := by
  apply fmt_frameIn K c .kept (fun _ => Gfx.noRows) _ (by simp) hw
  intro i hi
  simp only [List.getElem_replicate]
  have := Gfx.fill_ok false c.cols c.lines i
  exact LineOK.mono (K := Gfx.anyKind) (fun _ _ => trivial) (by simpa [Gfx.fillToks] using this)

/-! ## end to end, inner frames only -/

/-- the hypotheses of the new-API theorems from inner frames: no statement about padded frames -/
theorem newHyp_of_inner (c : NewCfg) (K : TermKind → Prop) (f0 : Lines) (rest : List Lines) (t : Term)
    (hv : c.validate = none) (h0 : FrameOK K c.w c.h f0) (hrest : ∀ f ∈ rest, FrameOK K c.w c.h f)
    (hclear : ∀ a ∈ c.clear, Tok.inert a = true) (hw : 0 < c.w) (hh : 0 < c.h) (hK : K t.kind)
    (hS : Start t c.Wp c.Hp) : NewHyp c K f0 rest t :=
  ⟨hv, first_frame_in K c.pad c.w c.h f0 hw h0, hrest, hclear, hw, hh, hK, hS⟩

/-- NEW API, END TO END: every first and later frame meeting the C01 contract for `w × h`, any
    padding (exact dimensions, any fill incl. `""`), validated configuration, cursor at the start of a
    line where the padded box fits ⇒ all of `DrawEffect` -/
theorem new_draw_inner (c : NewCfg) (K : TermKind → Prop) (f0 : Lines) (rest : List Lines) (t : Term)
    (hv : c.validate = none) (h0 : FrameOK K c.w c.h f0) (hrest : ∀ f ∈ rest, FrameOK K c.w c.h f)
    (hclear : ∀ a ∈ c.clear, Tok.inert a = true) (hw : 0 < c.w) (hh : 0 < c.h) (hK : K t.kind)
    (hS : Start t c.Wp c.Hp) :
    DrawEffect t (t.run (newToks c (f0 :: rest))) t.row c.Wp c.Hp c.hide :=
  new_draw c K f0 rest t (newHyp_of_inner c K f0 rest t hv h0 hrest hclear hw hh hK hS)

theorem draw_region_inner (c : NewCfg) (K : TermKind → Prop) (f0 : Lines) (rest : List Lines) (t : Term)
    (hv : c.validate = none) (h0 : FrameOK K c.w c.h f0) (hrest : ∀ f ∈ rest, FrameOK K c.w c.h f)
    (hclear : ∀ a ∈ c.clear, Tok.inert a = true) (hw : 0 < c.w) (hh : 0 < c.h) (hK : K t.kind)
    (hS : Start t c.Wp c.Hp) :
    ∃ new, (t.run (newToks c (f0 :: rest))).log = new ++ t.log ∧ ∀ wr ∈ new, InRect t.row 0 c.Wp c.Hp wr :=
  (new_draw_inner c K f0 rest t hv h0 hrest hclear hw hh hK hS).log

theorem draw_final_inner (c : NewCfg) (K : TermKind → Prop) (f0 : Lines) (rest : List Lines) (t : Term)
    (hv : c.validate = none) (h0 : FrameOK K c.w c.h f0) (hrest : ∀ f ∈ rest, FrameOK K c.w c.h f)
    (hclear : ∀ a ∈ c.clear, Tok.inert a = true) (hw : 0 < c.w) (hh : 0 < c.h) (hK : K t.kind)
    (hS : Start t c.Wp c.Hp) (hvis : t.vis = true) :
    let t' := t.run (newToks c (f0 :: rest))
    t'.row = t.row + c.Hp ∧ t'.col = 0 ∧ t'.pw = false ∧ t'.vis = true ∧ t'.wrapped = t.wrapped ∧
    ((t.fg = none ∧ t.bg = none) → (t'.fg = none ∧ t'.bg = none)) :=
  draw_final c K f0 rest t (newHyp_of_inner c K f0 rest t hv h0 hrest hclear hw hh hK hS) hvis

theorem draw_last_frame_inner (c : NewCfg) (K : TermKind → Prop) (f0 : Lines) (pre : List Lines) (f : Lines)
    (t : Term) (hv : c.validate = none) (h0 : FrameOK K c.w c.h f0)
    (hrest : ∀ g ∈ pre ++ [f], FrameOK K c.w c.h g) (hclear : ∀ a ∈ c.clear, Tok.inert a = true)
    (hw : 0 < c.w) (hh : 0 < c.h) (hK : K t.kind) (hS : Start t c.Wp c.Hp) (ha : c.animation = true) :
    let before := (if c.hide then [Tok.hideCur] else []) ++
      ((joinLines (padLines c.pad c.w f0) ++ c.home0) ++ (pre.map c.frameToks).flatten)
    let ta := t.run before
    let tb := ta.run (c.frameToks f)
    (t.run (newToks c (f0 :: (pre ++ [f])))).log = tb.log ∧
    (∃ new, tb.log = new ++ ta.log ∧ (∀ wr ∈ new, InRect (t.row + c.pad.t) c.pad.l c.w c.h wr) ∧
        ∀ di, di < c.h → CoversRow new (t.row + c.pad.t) c.pad.l c.w di) ∧
    (∃ later first, ta.log = later ++ first ++ t.log ∧ (∀ wr ∈ first, InRect t.row 0 c.Wp c.Hp wr) ∧
        ∀ wr ∈ later, InRect (t.row + c.pad.t) c.pad.l c.w c.h wr) :=
  draw_last_frame c K f0 pre f t (newHyp_of_inner c K f0 (pre ++ [f]) t hv h0 hrest hclear hw hh hK hS) ha

/-- the hypotheses of the old-API theorems from inner frames -/
theorem oldHyp_of_inner (c : OldCfg) (K : TermKind → Prop) (f0 : Lines) (rest : List Lines) (t : Term)
    (hv : c.validate = none) (h0 : FrameOK K c.cols c.lines f0) (hrest : ∀ f ∈ rest, FrameOK K c.cols c.lines f)
    (hclear : ∀ a ∈ c.clear, Tok.inert a = true) (hw : 0 < c.cols) (hh : 0 < c.lines) (hK : K t.kind)
    (hS : Start t c.Wp c.Hp) : OldHyp c K f0 rest t :=
  ⟨hv, fmt_frameIn_of_ok K c f0 hw h0, fun f hf => fmt_frameIn_of_ok K c f hw (hrest f hf),
   fun _ => preErase_frameIn K c hw, hclear, hw, hh, hK, hS⟩

/-- OLD API (repaired), END TO END, incl. the kitty clear and the wezterm pre-erase variants -/
theorem old_draw_inner (c : OldCfg) (K : TermKind → Prop) (f0 : Lines) (rest : List Lines) (t : Term)
    (hv : c.validate = none) (h0 : FrameOK K c.cols c.lines f0) (hrest : ∀ f ∈ rest, FrameOK K c.cols c.lines f)
    (hclear : ∀ a ∈ c.clear, Tok.inert a = true) (hw : 0 < c.cols) (hh : 0 < c.lines) (hK : K t.kind)
    (hS : Start t c.Wp c.Hp) :
    let t' := t.run (oldToks c (f0 :: rest))
    DrawEffect t t' t.row c.Wp c.Hp c.tty ∧ t'.fg = none ∧ t'.bg = none :=
  old_draw c K f0 rest t (oldHyp_of_inner c K f0 rest t hv h0 hrest hclear hw hh hK hS)

theorem old_draw_final_inner (c : OldCfg) (K : TermKind → Prop) (f0 : Lines) (rest : List Lines) (t : Term)
    (hv : c.validate = none) (h0 : FrameOK K c.cols c.lines f0) (hrest : ∀ f ∈ rest, FrameOK K c.cols c.lines f)
    (hclear : ∀ a ∈ c.clear, Tok.inert a = true) (hw : 0 < c.cols) (hh : 0 < c.lines) (hK : K t.kind)
    (hS : Start t c.Wp c.Hp) (hvis : t.vis = true) :
    let t' := t.run (oldToks c (f0 :: rest))
    t'.row = t.row + c.Hp ∧ t'.col = 0 ∧ t'.pw = false ∧ t'.vis = true ∧ t'.wrapped = t.wrapped ∧
    t'.fg = none ∧ t'.bg = none :=
  old_draw_final c K f0 rest t (oldHyp_of_inner c K f0 rest t hv h0 hrest hclear hw hh hK hS) hvis

theorem old_draw_last_frame_inner (c : OldCfg) (K : TermKind → Prop) (f0 : Lines) (pre : List Lines) (f : Lines)
    (t : Term) (hv : c.validate = none) (h0 : FrameOK K c.cols c.lines f0)
    (hrest : ∀ g ∈ pre ++ [f], FrameOK K c.cols c.lines g) (hclear : ∀ a ∈ c.clear, Tok.inert a = true)
    (hw : 0 < c.cols) (hh : 0 < c.lines) (hK : K t.kind) (hS : Start t c.Wp c.Hp) (ha : c.animation = true) :
    let before := (if c.tty then [Tok.hideCur] else []) ++
      ((c.preEraseToks ++ joinLines (c.fmtLines f0)) ++ (pre.map c.frameToks).flatten)
    let ta := t.run before
    let tb := ta.run (c.frameToks f)
    (t.run (oldToks c (f0 :: (pre ++ [f])))).log = tb.log ∧
    (∃ new, tb.log = new ++ ta.log ∧ (∀ wr ∈ new, InRect t.row 0 c.Wp c.Hp wr) ∧
        (false = true → ∀ di, di < c.Hp → CoversRow new t.row 0 c.Wp di)) ∧
    (∃ earlier, ta.log = earlier ++ t.log ∧ ∀ wr ∈ earlier, InRect t.row 0 c.Wp c.Hp wr) :=
  old_draw_last_frame c K false f0 pre f t (oldHyp_of_inner c K f0 (pre ++ [f]) t hv h0 hrest hclear hw hh hK hS)
    (fmt_frameIn_of_ok K c f hw (hrest f (by simp))) ha


/-! ## the three renderers of C01 meet `FrameOK` -/

theorem weaken_any {K : TermKind → Prop} {w h i : Nat} {m : SgrMode} {S : Nat → Prop} {l : List Tok}
    (h0 : LineOK Gfx.anyKind w h i m S l) : LineOK K w h i .keepsDefault S l :=
  (LineOK.mono (K := Gfx.anyKind) (fun _ _ => trivial) h0).weakenSgr

/-- kitty LINES -/
theorem kitty_lines_frameOK (K : TermKind → Prop) (blend mix : Bool) (w h : Nat) (ks : List KittyCmd)
    (hlen : ks.length = h) (hk : ∀ k ∈ ks, k.cols = w ∧ k.rows = 1) :
    FrameOK K w h (Gfx.kittyLines blend mix w ks) := by
  refine ⟨by simp [Gfx.kittyLines, hlen], fun j => Gfx.rowsFrom j 1, ?_,
    fun di hdi => ⟨di, hdi, by simp [Gfx.rowsFrom]⟩⟩
  intro j hj
  have hj' : j < ks.length := by simpa [Gfx.kittyLines] using hj
  have hkj := hk ks[j] (List.getElem_mem _)
  have := Gfx.kittyLine_ok blend mix w h j ks[j] hkj.1 (by rw [hkj.2]; omega)
  rw [hkj.2] at this
  simpa [Gfx.kittyLines] using weaken_any (K := K) this

/-- kitty WHOLE -/
theorem kitty_whole_frameOK (K : TermKind → Prop) (blend mix : Bool) (w h : Nat) (k : KittyCmd)
    (hc : k.cols = w) (hr : k.rows = h) (hpos : 0 < h) : FrameOK K w h (Gfx.kittyWhole blend mix w h k) := by
  refine ⟨by simp [Gfx.kittyWhole]; omega, fun j => if j = 0 then Gfx.rowsFrom 0 h else Gfx.noRows, ?_,
    fun di hdi => ⟨0, hpos, by simp [Gfx.rowsFrom]; omega⟩⟩
  intro j hj
  cases j with
  | zero =>
    simp only [Gfx.kittyWhole, List.getElem_cons_zero, if_true]
    have := Gfx.kittyLine_ok blend mix w h 0 k hc (by omega)
    rw [hr] at this
    exact weaken_any this
  | succ j =>
    simp only [Gfx.kittyWhole, List.getElem_cons_succ, List.getElem_replicate]
    simpa using weaken_any (K := K) (Gfx.fill_ok mix w h (j + 1))

/-- KITTY as C01 models `KittyImage._render_image`: both methods, every payload, z-index, flags -/
theorem kitty_frameOK (K : TermKind → Prop) (a : C01.KittyArgs) (payloads : List (List Nat))
    (hp : payloads.length = if a.whole then 1 else a.rh) (hpos : 0 < a.rh) :
    FrameOK K a.rw a.rh (C01.kittyLinesOf a payloads) := by
  unfold C01.kittyLinesOf
  split
  · rename_i hw
    rw [hw] at hp
    match payloads, hp with
    | [p], _ => exact kitty_whole_frameOK K a.blend a.mix a.rw a.rh _ rfl rfl hpos
  · rename_i hw
    have hw' : a.whole = false := by simpa using hw
    rw [hw'] at hp
    apply kitty_lines_frameOK K _ _ _ _ _ (by simpa using hp)
    intro k hk
    simp only [List.mem_map] at hk
    obtain ⟨p, _, rfl⟩ := hk
    exact ⟨rfl, rfl⟩

/-- iterm2 LINES, on the terminal kinds the render was produced for -/
theorem iterm_lines_frameOK (erase konsole : Bool) (w h : Nat) (cs : List ITermCmd) (hlen : cs.length = h)
    (hc : ∀ c ∈ cs, c.cols = w ∧ c.rows = 1 ∧ c.noMove = konsole) :
    FrameOK (C01.kindOf konsole) w h (Gfx.itermLines erase konsole w cs) := by
  refine ⟨by simp [Gfx.itermLines, hlen], fun j => Gfx.rowsFrom j 1, ?_,
    fun di hdi => ⟨di, hdi, by simp [Gfx.rowsFrom]⟩⟩
  intro j hj
  have hj' : j < cs.length := by simpa [Gfx.itermLines] using hj
  obtain ⟨h1, h2, h3⟩ := hc cs[j] (List.getElem_mem _)
  cases konsole
  · have := (Gfx.itermLine_ok_other erase w h j cs[j] h1 h2 h3).weakenSgr
    simpa [Gfx.itermLines, C01.kindOf] using this
  · have := Gfx.itermLine_ok_konsole erase w h j cs[j] h1 (by rw [h2]; omega) h3
    rw [h2] at this
    simpa [Gfx.itermLines, C01.kindOf] using this.weakenSgr

/-- iterm2 WHOLE / ANIM -/
theorem iterm_whole_frameOK (erase konsole : Bool) (w h : Nat) (c : ITermCmd)
    (hc : c.cols = w ∧ c.rows = h ∧ c.noMove = konsole) (hpos : 0 < h) :
    FrameOK (C01.kindOf konsole) w h (Gfx.itermWhole erase konsole w h c) := by
  obtain ⟨h1, h2, h3⟩ := hc
  cases konsole
  · refine ⟨by simp [Gfx.itermWhole]; omega, fun j => if j = h - 1 then (fun di => di < h) else Gfx.noRows, ?_,
      fun di hdi => ⟨h - 1, by omega, by simp; exact hdi⟩⟩
    intro j hj
    have hj' : j < h := by simp [Gfx.itermWhole] at hj; omega
    simp only [Gfx.itermWhole, Bool.false_eq_true, if_false]
    by_cases hjl : j = h - 1
    · subst hjl
      rw [List.getElem_append_right (by simp)]
      simp only [List.length_replicate, Nat.sub_self, List.getElem_cons_zero, if_true]
      exact (Gfx.itermWholeLast_ok_other erase w h c h1 h2 h3 hpos).weakenSgr
    · rw [List.getElem_append_left (by simp; omega)]
      simp only [List.getElem_replicate, hjl, if_false]
      have := Gfx.fill_ok (!erase) w h j
      cases erase <;>
        exact (LineOK.mono (K := Gfx.anyKind) (fun _ _ => trivial)
          (by simpa [Gfx.fillToks, Gfx.eraseToks] using this)).weakenSgr
  · refine ⟨by simp [Gfx.itermWhole]; omega, fun j => if j = 0 then Gfx.rowsFrom 0 h else Gfx.noRows, ?_,
      fun di hdi => ⟨0, hpos, by simp [Gfx.rowsFrom]; omega⟩⟩
    intro j hj
    simp only [Gfx.itermWhole, if_true]
    cases j with
    | zero =>
      simp only [List.getElem_cons_zero, if_true]
      have := Gfx.itermWholeFirst_ok_konsole erase w h c h1 (by omega) h3
      rw [h2] at this
      exact this.weakenSgr
    | succ j =>
      simp only [List.getElem_cons_succ, List.getElem_replicate]
      simpa using (LineOK.mono (K := Gfx.anyKind) (fun _ _ => trivial) (Gfx.cuf_ok w h (j + 1))).weakenSgr

/-- ITERM2 as C01 models `ITerm2Image._render_image`: LINES / WHOLE / ANIM × konsole / others -/
theorem iterm_frameOK (a : C01.ITermArgs) (payloads : List (List Nat))
    (hp : payloads.length = if a.whole then 1 else a.rh) (hpos : 0 < a.rh) :
    FrameOK (C01.kindOf a.konsole) a.rw a.rh (C01.itermLinesOf a payloads) := by
  unfold C01.itermLinesOf
  split
  · rename_i hw
    rw [hw] at hp
    match payloads, hp with
    | [p], _ => exact iterm_whole_frameOK a.erase a.konsole a.rw a.rh _ ⟨rfl, rfl, rfl⟩ hpos
  · rename_i hw
    have hw' : a.whole = false := by simpa using hw
    rw [hw'] at hp
    apply iterm_lines_frameOK _ _ _ _ _ (by simpa using hp)
    intro c hc
    simp only [List.mem_map] at hc
    obtain ⟨p, _, rfl⟩ := hc
    exact ⟨rfl, rfl, rfl⟩

/-! ## concrete end-to-end instances -/

/-- a pixel grid of the right shape for a `w × h` block render -/
def GridOK (w h : Nat) (rows : List (List Block.PP)) : Prop := rows.length = h ∧ ∀ row ∈ rows, row.length = w

/-- NEW API drawing BLOCK renders: every pixel content of every frame, every alpha / kitty-workaround
    setting, any padding and fill, any frame and loop count — no hypothesis about any render left -/
theorem new_draw_block (c : NewCfg) (cfg : Block.Cfg) (g0 : List (List Block.PP)) (gs : List (List (List Block.PP)))
    (t : Term) (hv : c.validate = none) (h0 : GridOK c.w c.h g0) (hgs : ∀ g ∈ gs, GridOK c.w c.h g)
    (hclear : ∀ a ∈ c.clear, Tok.inert a = true) (hw : 0 < c.w) (hh : 0 < c.h) (hS : Start t c.Wp c.Hp) :
    DrawEffect t (t.run (newToks c (Block.renderLines cfg g0 :: gs.map (Block.renderLines cfg))))
      t.row c.Wp c.Hp c.hide := by
  apply new_draw_inner c (fun _ => True) _ _ t hv (block_frameOK cfg g0 c.w c.h h0.1 h0.2) _ hclear hw hh trivial hS
  intro f hf
  simp only [List.mem_map] at hf
  obtain ⟨g, hg, rfl⟩ := hf
  exact block_frameOK cfg g c.w c.h (hgs g hg).1 (hgs g hg).2

/-- OLD API (`BlockImage.draw`, repaired) drawing block renders -/
theorem old_draw_block (c : OldCfg) (cfg : Block.Cfg) (g0 : List (List Block.PP)) (gs : List (List (List Block.PP)))
    (t : Term) (hv : c.validate = none) (h0 : GridOK c.cols c.lines g0) (hgs : ∀ g ∈ gs, GridOK c.cols c.lines g)
    (hclear : ∀ a ∈ c.clear, Tok.inert a = true) (hw : 0 < c.cols) (hh : 0 < c.lines) (hS : Start t c.Wp c.Hp) :
    let t' := t.run (oldToks c (Block.renderLines cfg g0 :: gs.map (Block.renderLines cfg)))
    DrawEffect t t' t.row c.Wp c.Hp c.tty ∧ t'.fg = none ∧ t'.bg = none := by
  apply old_draw_inner c (fun _ => True) _ _ t hv (block_frameOK cfg g0 c.cols c.lines h0.1 h0.2) _ hclear hw hh trivial hS
  intro f hf
  simp only [List.mem_map] at hf
  obtain ⟨g, hg, rfl⟩ := hf
  exact block_frameOK cfg g c.cols c.lines (hgs g hg).1 (hgs g hg).2

/-- OLD API (`KittyImage.draw`, repaired) drawing kitty renders (LINES or WHOLE, any payloads), with the
    delete-by-z-index `_clear_frame` of kitty ≤ 0.25.0 or without -/
theorem old_draw_kitty (c : OldCfg) (a : C01.KittyArgs) (p0 : List (List Nat)) (ps : List (List (List Nat)))
    (t : Term) (hv : c.validate = none) (hrw : a.rw = c.cols) (hrh : a.rh = c.lines)
    (h0 : p0.length = if a.whole then 1 else a.rh) (hps : ∀ p ∈ ps, p.length = if a.whole then 1 else a.rh)
    (hclear : ∀ x ∈ c.clear, Tok.inert x = true) (hw : 0 < c.cols) (hh : 0 < c.lines) (hS : Start t c.Wp c.Hp) :
    let t' := t.run (oldToks c (C01.kittyLinesOf a p0 :: ps.map (C01.kittyLinesOf a)))
    DrawEffect t t' t.row c.Wp c.Hp c.tty ∧ t'.fg = none ∧ t'.bg = none := by
  have hpos : 0 < a.rh := by omega
  apply old_draw_inner c (fun _ => True) _ _ t hv (by rw [← hrw, ← hrh]; exact kitty_frameOK _ a p0 h0 hpos) _
    hclear hw hh trivial hS
  intro f hf
  simp only [List.mem_map] at hf
  obtain ⟨p, hp, rfl⟩ := hf
  rw [← hrw, ← hrh]
  exact kitty_frameOK _ a p (hps p hp) hpos

/-- OLD API (`ITerm2Image.draw`, repaired) drawing iterm2 renders on the terminal kinds they were produced
    for, incl. the WezTerm pre-erase -/
theorem old_draw_iterm (c : OldCfg) (a : C01.ITermArgs) (p0 : List (List Nat)) (ps : List (List (List Nat)))
    (t : Term) (hv : c.validate = none) (hrw : a.rw = c.cols) (hrh : a.rh = c.lines)
    (h0 : p0.length = if a.whole then 1 else a.rh) (hps : ∀ p ∈ ps, p.length = if a.whole then 1 else a.rh)
    (hclear : ∀ x ∈ c.clear, Tok.inert x = true) (hw : 0 < c.cols) (hh : 0 < c.lines)
    (hK : C01.kindOf a.konsole t.kind) (hS : Start t c.Wp c.Hp) :
    let t' := t.run (oldToks c (C01.itermLinesOf a p0 :: ps.map (C01.itermLinesOf a)))
    DrawEffect t t' t.row c.Wp c.Hp c.tty ∧ t'.fg = none ∧ t'.bg = none := by
  have hpos : 0 < a.rh := by omega
  apply old_draw_inner c (C01.kindOf a.konsole) _ _ t hv (by rw [← hrw, ← hrh]; exact iterm_frameOK a p0 h0 hpos) _
    hclear hw hh hK hS
  intro f hf
  simp only [List.mem_map] at hf
  obtain ⟨p, hp, rfl⟩ := hf
  rw [← hrw, ← hrh]
  exact iterm_frameOK a p (hps p hp) hpos

/-- non-vacuity: a 2×1 block frame padded by (1,1,1,1) on a 6×5 terminal -/
example : Start ({ W := 6, H := 5, row := 1 } : Term) 4 3 := ⟨rfl, rfl, rfl, by decide, by decide, by decide⟩

end TIV.C06
