import TIV.C06.OldProofs
/-!
# C06 — graphics placements: what is visible afterwards is the last frame (kitty ≤ 0.25.0)

The cell-level theorems (`old_draw_last_frame`) say which *cells* the last frame covers. A kitty image
is a placement that stays on screen until it is deleted; with partly transparent frames an earlier
frame left behind shows through. `KittyImage._display_animated` draws every frame with the same z-index
and (kitty ≤ 0.25.0) `_clear_frame()` deletes by that z-index before each later frame: `clear =
[kittyDelZ z]`. Theorems: after the clear no kitty placement with that z-index is left
(`delZ_clears`), so every frame is drawn on a terminal free of the earlier frames' placements
(`kitty_frame_clears`), and at the end of `draw()` every kitty placement with the animation's
z-index was made by the last frame (`old_kitty_last_frame_placements`). The hypothesis that the frames'
transmissions carry the z-index that is cleared is exactly what a caller-supplied `z_index` that is not
overridden breaks.
-/
namespace TIV.C06
open TIV Term

/-- one token adds at most one placement: a kitty one with the command's z-index, or a non-kitty one -/
theorem step_imgs (t : Term) (a : Tok) : ∀ p ∈ (step t a).imgs,
    p ∈ t.imgs ∨ (∃ k, a = .kitty k ∧ p.kittyProto = true ∧ p.z = k.z) ∨ p.kittyProto = false := by
  intro p hp
  cases a <;> simp only [step] at hp
  case glyph g =>
    left
    simp only [putGlyph, setCell, index] at hp
    split at hp <;> split at hp <;> first | exact hp | (split at hp <;> exact hp)
  case lf =>
    left
    simp only [lineFeed, index] at hp
    split at hp <;> exact hp
  case kitty k =>
    simp only [touchRect, List.mem_cons] at hp
    rcases hp with rfl | hp
    · exact Or.inr (Or.inl ⟨k, rfl, rfl, rfl⟩)
    · exact Or.inl hp
  case iterm i =>
    split at hp <;> simp only [touchRect, List.mem_cons] at hp <;> rcases hp with rfl | hp <;>
      first | exact Or.inr (Or.inr rfl) | exact Or.inl hp
  case kittyDelCursor => exact Or.inl ((List.mem_filter.mp hp).1)
  case kittyDelAll => exact Or.inl ((List.mem_filter.mp hp).1)
  case kittyDelZ z => exact Or.inl ((List.mem_filter.mp hp).1)
  all_goals first | exact Or.inl hp | (simp only [fillRow] at hp; exact Or.inl hp)

/-- every placement after a run is an old one, a kitty one with the z-index of one of the run's commands, or
    not a kitty placement -/
theorem run_imgs (z : Int) (ts : List Tok) (hz : ∀ k, Tok.kitty k ∈ ts → k.z = z) :
    ∀ t : Term, ∀ p ∈ (t.run ts).imgs, p ∈ t.imgs ∨ (p.kittyProto = true ∧ p.z = z) ∨ p.kittyProto = false := by
  induction ts with
  | nil => intro t p hp; exact Or.inl hp
  | cons a ts ih =>
    intro t p hp
    rw [Term.run_cons] at hp
    rcases ih (fun k hk => hz k (by simp [hk])) (step t a) p hp with h | h | h
    · rcases step_imgs t a p h with h1 | ⟨k, rfl, hk1, hk2⟩ | h1
      · exact Or.inl h1
      · exact Or.inr (Or.inl ⟨hk1, by rw [hk2]; exact hz k (by simp)⟩)
      · exact Or.inr (Or.inr h1)
    · exact Or.inr (Or.inl h)
    · exact Or.inr (Or.inr h)

/-- delete-by-z-index leaves no kitty placement with that z-index, and adds none -/
theorem delZ_clears (t : Term) (z : Int) :
    (∀ p ∈ (t.run [Tok.kittyDelZ z]).imgs, ¬ (p.kittyProto = true ∧ p.z = z)) ∧
    ∀ p ∈ (t.run [Tok.kittyDelZ z]).imgs, p ∈ t.imgs := by
  have e : (t.run [Tok.kittyDelZ z]).imgs = t.imgs.filter fun p => !(p.kittyProto && p.z == z) := rfl
  rw [e]
  refine ⟨fun p hp => ?_, fun p hp => (List.mem_filter.mp hp).1⟩
  have := (List.mem_filter.mp hp).2
  intro ⟨h1, h2⟩
  simp [h1, h2] at this

/-- KITTY ≤ 0.25.0: every later frame is drawn on a terminal from which the earlier frames' placements (all
    kitty placements with the animation's z-index) have been removed -/
theorem kitty_frame_clears (c : OldCfg) (z : Int) (hclear : c.clear = [Tok.kittyDelZ z]) (f : Lines) (t : Term) :
    ∃ tc : Term, t.run (c.frameToks f) = tc.run (c.up ++ joinLines (c.fmtLines f)) ∧
      (∀ p ∈ tc.imgs, ¬ (p.kittyProto = true ∧ p.z = z)) ∧ ∀ p ∈ tc.imgs, p ∈ t.imgs := by
  refine ⟨t.run [Tok.kittyDelZ z], ?_, delZ_clears t z⟩
  unfold OldCfg.frameToks
  rw [hclear, List.append_assoc, Term.run_append]

/-- the clean-up of the old `draw()` places and deletes nothing -/
theorem tail_imgs (c : OldCfg) (t : Term) : (t.run c.tail).imgs = t.imgs := by
  unfold OldCfg.tail
  cases c.tty <;> simp [Term.run, step, lineFeed, index] <;> split <;> rfl

/-- OLD_DRAW_LAST_FRAME ON PLACEMENTS (kitty ≤ 0.25.0, any number of frames): at the end of `draw()` the placements are
    those of a terminal from which every kitty placement with the animation's z-index had been removed, plus what
    the LAST frame placed: each kitty placement with that z-index on screen was made by the last frame -/
theorem old_kitty_last_frame_placements (c : OldCfg) (z : Int) (hclear : c.clear = [Tok.kittyDelZ z])
    (f0 : Lines) (pre : List Lines) (f : Lines) (t : Term) (hv : c.validate = none) (ha : c.animation = true) :
    ∃ tc : Term, (t.run (oldToks c (f0 :: (pre ++ [f])))).imgs = (tc.run (c.up ++ joinLines (c.fmtLines f))).imgs ∧
      ∀ p ∈ tc.imgs, ¬ (p.kittyProto = true ∧ p.z = z) := by
  let before := (if c.tty then [Tok.hideCur] else []) ++
      ((c.preEraseToks ++ joinLines (c.fmtLines f0)) ++ (pre.map c.frameToks).flatten)
  have htoks : oldToks c (f0 :: (pre ++ [f])) = before ++ c.frameToks f ++ c.tail := by
    rw [oldToks_anim c f0 _ hv ha]
    simp [before, List.append_assoc]
  obtain ⟨tc, he, hcl, _⟩ := kitty_frame_clears c z hclear f (t.run before)
  refine ⟨tc, ?_, hcl⟩
  rw [htoks, Term.run_append (t := t) (a := before ++ c.frameToks f), Term.run_append (t := t) (a := before), tail_imgs, he]

/-- … spelled out with `run_imgs`: a kitty placement with the cleared z-index that is on screen at the end comes from a
    transmission of the last frame, provided the frames' transmissions carry that z-index -/
theorem old_kitty_last_frame_only (c : OldCfg) (z : Int) (hclear : c.clear = [Tok.kittyDelZ z])
    (f0 : Lines) (pre : List Lines) (f : Lines) (t : Term) (hv : c.validate = none) (ha : c.animation = true)
    (hz : ∀ k, Tok.kitty k ∈ c.up ++ joinLines (c.fmtLines f) → k.z = z) :
    ∃ tc : Term, (∀ p ∈ tc.imgs, ¬ (p.kittyProto = true ∧ p.z = z)) ∧
      ∀ p ∈ (t.run (oldToks c (f0 :: (pre ++ [f])))).imgs,
        (p ∈ tc.imgs ∧ ¬ (p.kittyProto = true ∧ p.z = z)) ∨ (p.kittyProto = true ∧ p.z = z) ∨ p.kittyProto = false := by
  obtain ⟨tc, he, hcl⟩ := old_kitty_last_frame_placements c z hclear f0 pre f t hv ha
  refine ⟨tc, hcl, fun p hp => ?_⟩
  rw [he] at hp
  rcases run_imgs z _ hz tc p hp with h | h | h
  · exact Or.inl ⟨h, hcl p h⟩
  · exact Or.inr (Or.inl h)
  · exact Or.inr (Or.inr h)

end TIV.C06
