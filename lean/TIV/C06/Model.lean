import TIV.C06.Prog
/-!
# C06 model — the two `draw()` paths as effect programs and as token streams.

* new API: `Renderable.draw` / `_animate_` / `_init_render_` size validation
  (src/term_image/renderable/_renderable.py), `Padding.pad` (src/term_image/padding.py)
* old API: `BaseImage.draw` (+ inner `render()`), `_display_animated`, `_renderer` size
  validation, `_format_render`, `_check_formatting` (src/term_image/image/common.py), the
  kitty `_clear_frame`/z-index and the iterm2 wezterm pre-erase variants
  (image/kitty.py, image/iterm2.py) — **as repaired** by fixes/C06-*.diff, fixes/C07-*.diff.

Frames are *data*: a frame is the list of its lines (token lists without `lf`), exactly what the
C01 renderers produce. `frames` is the sequence the render iterator yields (loops × frame
count, cached or not — caching cannot change it, C09).
-/
namespace TIV.C06
open TIV

abbrev Lines := List (List Tok)

/-- lines joined by `"\n" + cursor_forward(x)` (`x = 0`: plain `joinLines`) -/
def joinSep (x : Nat) : Lines → List Tok
  | [] => []
  | [l] => l
  | l :: ls => l ++ Tok.lf :: (cursorForward x ++ joinSep x ls)

/-! ## new API -/

/-- exact padding dimensions (`Padding._get_exact_dimensions_`) and fill (`none` = `""`) -/
structure Pad where
  l : Nat
  t : Nat
  r : Nat
  b : Nat
  fill : Option Glyph := some .blank
deriving Repr

/-- `fill * n` / `cursor_forward(n)` -/
def Pad.fillN (p : Pad) (n : Nat) : List Tok :=
  match p.fill with
  | some g => List.replicate n (Tok.glyph g)
  | none => cursorForward n

/-- `Padding.pad`, on lines -/
def padLines (p : Pad) (w : Nat) (ls : Lines) : Lines :=
  let width := p.l + w + p.r
  if p.l = 0 ∧ p.r = 0 ∧ p.t = 0 ∧ p.b = 0 then ls
  else List.replicate p.t (p.fillN width) ++ ls.map (fun l => p.fillN p.l ++ l ++ p.fillN p.r)
        ++ List.replicate p.b (p.fillN width)

inductive Err | renderSizeOutOfRange | valueError | invalidSize
deriving DecidableEq, Repr

structure NewCfg where
  w : Nat
  h : Nat
  pad : Pad
  tty : Bool
  hideCursor : Bool
  echoInput : Bool
  animation : Bool
  checkSize : Bool
  allowScroll : Bool
  termW : Nat
  termH : Nat
  clear : List Tok := []       -- what `_clear_frame_` writes (base implementation: nothing)
  hook : List Tok := []        -- what `_handle_interrupted_draw_` writes and flushes (base: nothing)
deriving Repr

def NewCfg.Wp (c : NewCfg) : Nat := c.pad.l + c.w + c.pad.r
def NewCfg.Hp (c : NewCfg) : Nat := c.pad.t + c.h + c.pad.b
def NewCfg.hide (c : NewCfg) : Bool := c.hideCursor && c.tty
def NewCfg.notEcho (c : NewCfg) : Bool := !c.echoInput && c.tty

/-- `_init_render_(…, check_size=animation or check_size, allow_scroll=not animation and allow_scroll)` -/
def NewCfg.validate (c : NewCfg) : Option Err :=
  let checkSize := c.animation || c.checkSize
  let allowScroll := !c.animation && c.allowScroll
  if checkSize then
    if c.Wp > c.termW then some .renderSizeOutOfRange
    else if !allowScroll && decide (c.Hp > c.termH) then some .renderSizeOutOfRange
    else none
  else none

/-- the documented rule (docstring of `Renderable.draw`) -/
def NewCfg.Fits (c : NewCfg) : Prop :=
  (c.checkSize = true ∨ c.animation = true) →
    c.Wp ≤ c.termW ∧ ((c.allowScroll = false ∨ c.animation = true) → c.Hp ≤ c.termH)

def NewCfg.home0 (c : NewCfg) : List Tok :=
  Tok.cr :: (cursorUp ((c.h + c.pad.b : Nat) - 1 : Int) ++ cursorForward c.pad.l)
def NewCfg.home (c : NewCfg) : List Tok :=
  Tok.cr :: (cursorUp ((c.h : Nat) - 1 : Int) ++ cursorForward c.pad.l)
def NewCfg.down (c : NewCfg) : List Tok := cursorDown ((c.h + c.pad.b : Nat) - 1 : Int)

/-- one later frame of `_animate_`: `_clear_frame_`, the frame with `"\n"` replaced, back home -/
def NewCfg.frameToks (c : NewCfg) (f : Lines) : List Tok := c.clear ++ joinSep c.pad.l f ++ c.home

def NewCfg.bodyToks (c : NewCfg) : List Lines → List Tok
  | [] => []
  | f0 :: rest =>
    if c.animation then
      joinLines (padLines c.pad c.w f0) ++ c.home0 ++ (rest.map c.frameToks).flatten ++ c.down
    else joinLines (padLines c.pad c.w f0)

/-- everything a fault-free `Renderable.draw` writes -/
def newToks (c : NewCfg) (frames : List Lines) : List Tok :=
  if c.validate.isSome then []
  else (if c.hide then [Tok.hideCur] else []) ++ c.bodyToks frames ++ [Tok.lf] ++ (if c.hide then [Tok.showCur] else [])

def wr (ts : List Tok) : Prog := if ts.isEmpty then .done else .act (.write ts)

def isKbd : Exc → Bool
  | .kbd => true
  | .err => false

/-- `_handle_interrupted_draw_(…)` -/
def hookProg (hook : List Tok) : Prog := if hook.isEmpty then .done else .seq (.act (.write hook)) (.act .flush)

/-- `try: write(x); flush() except KeyboardInterrupt: _handle_interrupted_draw_(…); <after>` -/
def guardedWrite (hook : List Tok) (ts : List Tok) (after : Prog) : Prog :=
  .tryExcept (.seq (wr ts) (.act .flush)) isKbd (fun _ => .seq (hookProg hook) after)

/-- `Renderable._animate_` -/
def NewCfg.animate (c : NewCfg) : List (Bool × Lines) → Prog
  | [] => .act .iterClose                     -- `INDEFINITE` source exhausted at once: `return` (finally: close)
  | (_, f0) :: rest =>
    .fn (.tryFinally
      (.tryExcept
        (Prog.ofList [
          .act .render,                                         -- frame = next(render_iter)
          guardedWrite c.hook (joinLines (padLines c.pad c.w f0)) .ret,
          wr c.home0, .act .flush,
          .act .markFirst,
          Prog.forEach rest (fun f => Prog.ofList [
            Prog.when f.1 (.act .render),                       -- `for frame in render_iter` (no `_render_` call on a cache hit)
            .act .sleep,
            wr c.clear,                                         -- `_clear_frame_` (not flushed)
            guardedWrite c.hook (joinSep c.pad.l f.2) .ret,
            wr c.home, .act .flush ]),
          .act .sleep ])
        isKbd (fun _ => .done))                                 -- `except KeyboardInterrupt: pass`
      (.seq (.act .iterClose) (.ifFirst (.seq (wr c.down) (.act .flush)) .done)))

/-- the body of `Renderable.draw`'s `try` -/
def newBody (c : NewCfg) (frames : List (Bool × Lines)) : Prog :=
  Prog.ofList [
    Prog.when c.hide (.act (.write [Tok.hideCur])),
    Prog.when c.notEcho (.act .tcsetNoEcho),
    if c.animation then c.animate frames
    else match frames with
      | [] => .done
      | (_, f0) :: _ => .seq (.act .render)
          (guardedWrite c.hook (joinLines (padLines c.pad c.w f0)) (.raise .kbd)) ]

/-- `Renderable.draw`'s `finally` -/
def newFinProg (c : NewCfg) : Prog :=
  Prog.ofList [
    .act (.write [Tok.lf]),
    Prog.when c.hide (.act (.write [Tok.showCur])),
    .act .flush,
    Prog.when c.notEcho (.act .tcsetOld),
    .act .finalize ]

/-- `Renderable.draw` -/
def newProg (c : NewCfg) (frames : List (Bool × Lines)) : Prog :=
  if c.validate.isSome then .raise .err
  else .seq (Prog.when c.notEcho (.act .tcget)) (.cleanup (newBody c frames) (newFinProg c))

/-! ## old API -/

inductive HAl | left | center | right
deriving DecidableEq, Repr
inductive VAl | top | middle | bottom
deriving DecidableEq, Repr

/-- `_check_formatting`: `d if d > 0 else max(terminal + d, 1)` -/
def resolveDim (term : Nat) (d : Int) : Nat := if d > 0 then d.toNat else (max ((term : Int) + d) 1).toNat

structure OldCfg where
  cols : Nat                 -- rendered size
  lines : Nat
  hal : HAl
  padW : Int                 -- `pad_width` as given
  val : VAl
  padH : Int                 -- `pad_height` as given
  sizeFixed : Bool           -- the image's size is set (not one of the dynamic `Size` modes)
  tty : Bool
  animation : Bool
  scroll : Bool
  checkSize : Bool
  termW : Nat
  termH : Nat
  clear : List Tok := []     -- `_clear_frame()` (kitty ≤ 0.25.0: delete by z-index)
  preErase : Bool := false   -- iterm2 on wezterm, `mix = False`
  hook : List Tok := []      -- `_handle_interrupted_draw()`: kitty `ST ST KITTY_END_CHUNKED`, iterm2 `ST ST`
deriving Repr

def OldCfg.width (c : OldCfg) : Nat := resolveDim c.termW c.padW
def OldCfg.height (c : OldCfg) : Nat := resolveDim c.termH c.padH
def OldCfg.Wp (c : OldCfg) : Nat := max c.width c.cols
def OldCfg.Hp (c : OldCfg) : Nat := max c.height c.lines

def blanks (n : Nat) : List Tok := List.replicate n (Tok.glyph .blank)

/-- `_format_render`, on lines -/
def OldCfg.fmtLines (c : OldCfg) (ls : Lines) : Lines :=
  let width := c.width
  let height := c.height
  let (left, right) :=
    if width > c.cols then
      match c.hal with
      | .left => (0, width - c.cols)
      | .right => (width - c.cols, 0)
      | .center => ((width - c.cols) / 2, width - c.cols - (width - c.cols) / 2)
    else (0, 0)
  let (top, bottom) :=
    if height > c.lines then
      match c.val with
      | .top => (0, height - c.lines)
      | .bottom => (height - c.lines, 0)
      | .middle => ((height - c.lines) / 2, height - c.lines - (height - c.lines) / 2)
    else (0, 0)
  -- the padding lines span the padded width: `fill = " " * max(width, cols)`
  List.replicate top (blanks (max width c.cols)) ++ ls.map (fun l => blanks left ++ l ++ blanks right)
    ++ List.replicate bottom (blanks (max width c.cols))

/-- the checks of `BaseImage.draw` and `_renderer`, in the order the code makes them -/
def OldCfg.validate (c : OldCfg) : Option Err :=
  if c.padW > (c.termW : Int) then some .valueError
  else if c.animation && decide (c.padH > (c.termH : Int)) then some .valueError
  else if c.sizeFixed && (c.checkSize || c.animation) then
    if decide (c.cols > c.termW) || (!c.scroll && decide (c.lines > c.termH)) then some .invalidSize
    else if c.animation && decide (c.lines > c.termH) then some .invalidSize
    else none
  else none

/-- the documented rules (docstring of `BaseImage.draw`): padding width always; padding height for
    animations; the image size, if set, when `check_size` or for animations, its height unless
    `scroll` (which animations ignore) -/
def OldCfg.Fits (c : OldCfg) : Prop :=
  c.padW ≤ (c.termW : Int) ∧ (c.animation = true → c.padH ≤ (c.termH : Int)) ∧
  (c.sizeFixed = true → (c.checkSize = true ∨ c.animation = true) →
     c.cols ≤ c.termW ∧ ((c.scroll = false ∨ c.animation = true) → c.lines ≤ c.termH))

/-- `"\r" + cursor_up(lines - 1)` (repaired: `CURSOR_UP % (lines - 1)` wrote `ESC[0A` for one line) -/
def OldCfg.up (c : OldCfg) : List Tok := Tok.cr :: cursorUp ((c.Hp : Nat) - 1 : Int)

/-- iterm2 on wezterm: erase the image's cells once, then go back to the first line
    (repaired: the pseudo-render has the *image's* height, `_format_render` adds the padding) -/
def OldCfg.preEraseToks (c : OldCfg) : List Tok :=
  if c.preErase then
    joinLines (c.fmtLines (List.replicate c.lines [Tok.ech c.cols, Tok.cuf c.cols])) ++ c.up
  else []

def OldCfg.frameToks (c : OldCfg) (f : Lines) : List Tok := c.clear ++ c.up ++ joinLines (c.fmtLines f)

def OldCfg.bodyToks (c : OldCfg) : List Lines → List Tok
  | [] => []
  | f0 :: rest =>
    if c.animation then
      c.preEraseToks ++ joinLines (c.fmtLines f0) ++ (rest.map c.frameToks).flatten
    else joinLines (c.fmtLines f0)

def OldCfg.tail (c : OldCfg) : List Tok := [Tok.sgr0] ++ (if c.tty then [Tok.showCur] else []) ++ [Tok.lf]

/-- everything a fault-free `BaseImage.draw` writes (repaired code) -/
def oldToks (c : OldCfg) (frames : List Lines) : List Tok :=
  if c.validate.isSome then []
  else (if c.tty then [Tok.hideCur] else []) ++ c.bodyToks frames ++ c.tail

/-- the iterm2 override's pre-erase on wezterm -/
def OldCfg.daPre (c : OldCfg) : Prog :=
  Prog.when c.preErase (Prog.ofList [
    wr (joinLines (c.fmtLines (List.replicate c.lines [Tok.ech c.cols, Tok.cuf c.cols]))),
    wr [Tok.cr], wr (cursorUp ((c.Hp : Nat) - 1 : Int)), .act .flush ])

/-- the `try … except` of `_display_animated` -/
def OldCfg.daTry (c : OldCfg) (f0 : Lines) (rest : List (Bool × Lines)) : Prog :=
  .tryExcept
    (Prog.ofList [
      .act .render, .act .touchSeek,
      wr (joinLines (c.fmtLines f0)), .act .flush,     -- print(next(animator), end="", flush=True)
      Prog.forEach rest (fun f => Prog.ofList [
        Prog.when f.1 (.act .render), .act .touchSeek,   -- no render call on a cache hit
        .act .sleep,
        wr c.clear,
        wr [Tok.cr], wr (cursorUp ((c.Hp : Nat) - 1 : Int)), wr (joinLines (c.fmtLines f.2)), .act .flush ]) ])
    (fun _ => true)
    (fun e => Prog.ofList [.act .markFirst, hookProg c.hook,   -- `interrupted = True`
                match e with | .kbd => .done | .err => .raise .err ])

/-- its `finally` (repaired: the cursor is moved down only after an interruption) -/
def OldCfg.daFin (c : OldCfg) : Prog :=
  Prog.ofList [.act .iterClose, .act .restoreSeek, .ifFirst (wr [Tok.cud c.Hp]) .done]

/-- `_display_animated` (+ the iterm2 override's pre-erase) -/
def OldCfg.displayAnimated (c : OldCfg) : List (Bool × Lines) → Prog
  | [] => .done
  | (_, f0) :: rest => .seq c.daPre (.seq (.act .saveSeek) (.tryFinally (c.daTry f0 rest) c.daFin))

/-- the body of the `try` in `BaseImage.draw`'s inner `render()` (repaired: `HIDE_CURSOR` inside) -/
def oldBody (c : OldCfg) (frames : List (Bool × Lines)) : Prog :=
  Prog.ofList [
    Prog.when c.tty (.seq (.act (.write [Tok.hideCur])) (.act .flush)),
    if c.animation then c.displayAnimated frames
    else match frames with
      | [] => .done
      | (_, f0) :: _ =>
        .tryExcept (Prog.ofList [.act .render, wr (joinLines (c.fmtLines f0)), .act .flush])
          (fun _ => true) (fun e => .seq (hookProg c.hook) (.raise e)) ]

/-- its `finally`: `print(SGR_DEFAULT, SHOW_CURSOR * isatty, sep="")` -/
def oldFinProg (c : OldCfg) : Prog :=
  Prog.ofList [wr [Tok.sgr0], Prog.when c.tty (wr [Tok.showCur]), wr [Tok.lf]]

/-- `BaseImage.draw` → `_renderer(render, …)` -/
def oldProg (c : OldCfg) (frames : List (Bool × Lines)) : Prog :=
  if c.validate.isSome then .raise .err
  else
    .seq (.act .saveSize)
      (.tryFinally
        (.seq (Prog.when (!c.sizeFixed) (.act .touchSize)) (.cleanup (oldBody c frames) (oldFinProg c)))
        (Prog.when (!c.sizeFixed) (.act .restoreSize)))

/-- `loops` passes over the same `base` frames -/
def sequence (loops : Nat) (base : List Lines) : List Lines := (List.replicate loops base).flatten

end TIV.C06
