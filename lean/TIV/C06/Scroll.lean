import TIV.C06.Compose
/-!
# C06 — the first frame may scroll the viewport

`Props.lean` asks that the padded box fits below the start row. Here the start row is ANY visible
row: the line feeds of the first frame (old API on WezTerm: of the pre-erase) scroll the viewport as
far as the box's height makes necessary. Rows are absolute, so the region / same-cells / last-frame
claims are unchanged; `scrolls` and `top` grow by exactly `start + box height + 1 − (top + H)`
(`max 0`: natural subtraction) — the box's overhang plus the final newline.

This needs frames whose lines are *line-local*: each line is a one-line render of its own
(`LocalOK`: `LineOK` for a block of height 1) — block renders, kitty LINES, iterm2 LINES, and their
padded / formatted forms. A whole-image graphics render (kitty / iterm2 WHOLE) addresses rows
below the line it is written on; written while those rows are not yet on screen, what it does is
outside the terminal model (and outside `LineOK`, which only speaks about a visible block).
-/
namespace TIV.C06
open TIV Term

/-- a line that is a one-line render of its own -/
def LocalIn (K : TermKind → Prop) (w : Nat) (l : List Tok) : Prop := LineOK K w 1 0 .keepsDefault (fun _ => False) l

/-- a frame of `h` line-local lines -/
def LocalFrame (K : TermKind → Prop) (w h : Nat) (ls : Lines) : Prop := ls.length = h ∧ ∀ l ∈ ls, LocalIn K w l

/-- what writing a line-local frame at column 0 from any visible row does -/
structure ScrollEff (t t' : Term) (w h : Nat) : Prop where
  row : t'.row = t.row + h - 1
  col : t'.col = min w (t.W - 1)
  top : t'.top = t.top + (t.row + h - (t.top + t.H))
  scrolls : t'.scrolls = t.scrolls + (t.row + h - (t.top + t.H))
  W : t'.W = t.W
  H : t'.H = t.H
  kind : t'.kind = t.kind
  lm : t'.lm = t.lm
  vis : t'.vis = t.vis
  wrapped : t'.wrapped = t.wrapped
  sgr : (t.fg = none ∧ t.bg = none) → (t'.fg = none ∧ t'.bg = none)
  log : ∃ new, t'.log = new ++ t.log ∧ ∀ wr ∈ new, InRect t.row 0 w h wr

theorem scroll_from (K : TermKind → Prop) (w : Nat) (hw : 0 < w) :
    ∀ (ls : Lines), ls ≠ [] → (∀ l ∈ ls, LocalIn K w l) →
      ∀ t : Term, K t.kind → t.lm = 0 → t.col = 0 → t.pw = false → w ≤ t.W → t.top ≤ t.row →
        t.row + 1 ≤ t.top + t.H → ScrollEff t (t.run (joinLines ls)) w ls.length := by
  intro ls
  induction ls with
  | nil => intro h; exact absurd rfl h
  | cons l rest ih =>
    intro _ hloc t hK hlm hcol hpw hW htop hvis
    have hR : Ready t t.row 0 w 1 0 := ⟨rfl, hcol, hpw, by omega, htop, hvis, by omega, hw⟩
    have h0 := hloc l (by simp) t t.row 0 hK hR
    cases rest with
    | nil =>
      simp only [joinLines, List.length_cons, List.length_nil]
      obtain ⟨new, hnew, hin, _⟩ := h0.log
      have hf := h0.frame
      exact ⟨by rw [h0.row]; omega, by rw [h0.col]; simp, by rw [hf.top]; omega, by rw [hf.scrolls]; omega, hf.W, hf.H,
        hf.kind, hf.lm, hf.vis, hf.wrapped, h0.sgr, new, hnew, by simpa using hin⟩
    | cons l2 rest2 =>
      simp only [joinLines]
      rw [Term.run_append, Term.run_cons]
      generalize t.run l = t1 at h0 ⊢
      have hf := h0.frame
      -- the line feed: down one row, column 0, scrolling when on the last visible row
      have hlf : ∃ δ, (δ = 1 ∧ t.row + 1 = t.top + t.H ∨ δ = 0 ∧ t.row + 1 ≠ t.top + t.H) ∧
          (step t1 Tok.lf).row = t.row + 1 ∧ (step t1 Tok.lf).col = 0 ∧ (step t1 Tok.lf).pw = false ∧
          (step t1 Tok.lf).top = t.top + δ ∧ (step t1 Tok.lf).scrolls = t.scrolls + δ ∧
          (step t1 Tok.lf).W = t.W ∧ (step t1 Tok.lf).H = t.H ∧ (step t1 Tok.lf).kind = t.kind ∧
          (step t1 Tok.lf).lm = t.lm ∧ (step t1 Tok.lf).vis = t.vis ∧ (step t1 Tok.lf).wrapped = t.wrapped ∧
          (step t1 Tok.lf).log = t1.log ∧ (step t1 Tok.lf).fg = t1.fg ∧ (step t1 Tok.lf).bg = t1.bg := by
        have e := lf_effect t1 (by rw [hf.lm]; exact hlm)
        simp only at e
        obtain ⟨a1, a2, a3, a4, a5, a6, a7, a8, a9, a10, a11, a12, a13, a14⟩ := e
        rw [h0.row, hf.top, hf.H] at a13 a14
        by_cases hb : t.row + 1 = t.top + t.H
        · refine ⟨1, Or.inl ⟨rfl, hb⟩, by rw [a1, h0.row], a2, a3, by rw [a14]; simp [hb],
            by rw [a13, hf.scrolls]; simp [hb], by rw [a7, hf.W], by rw [a8, hf.H], by rw [a9, hf.kind],
            by rw [a10, hf.lm], by rw [a11, hf.vis], by rw [a12, hf.wrapped], a4, a5, a6⟩
        · refine ⟨0, Or.inr ⟨rfl, hb⟩, by rw [a1, h0.row], a2, a3, by rw [a14]; simp [hb],
            by rw [a13, hf.scrolls]; simp [hb], by rw [a7, hf.W], by rw [a8, hf.H], by rw [a9, hf.kind],
            by rw [a10, hf.lm], by rw [a11, hf.vis], by rw [a12, hf.wrapped], a4, a5, a6⟩
      generalize step t1 Tok.lf = t2 at hlf ⊢
      obtain ⟨δ, hδ, b1, b2, b3, b4, b5, b6, b7, b8, b9, b10, b11, b12, b13, b14⟩ := hlf
      have h2 := ih (by simp) (fun x hx => hloc x (by simp [hx])) t2 (by rw [b8]; exact hK) (by rw [b9]; exact hlm)
        b2 b3 (by rw [b6]; exact hW) (by rw [b4, b1]; omega) (by rw [b1, b4, b7]; omega)
      generalize t2.run (joinLines (l2 :: rest2)) = t3 at h2 ⊢
      obtain ⟨new1, hnew1, hin1, _⟩ := h0.log
      obtain ⟨new2, hnew2, hin2⟩ := h2.log
      have hlen : (l :: l2 :: rest2).length = (l2 :: rest2).length + 1 := by simp
      rw [hlen]
      refine ⟨by rw [h2.row, b1]; omega, by rw [h2.col, b6], ?_, ?_, by rw [h2.W, b6], by rw [h2.H, b7],
        by rw [h2.kind, b8], by rw [h2.lm, b9], by rw [h2.vis, b10], by rw [h2.wrapped, b11],
        fun hd => h2.sgr (by rw [b13, b14]; exact h0.sgr hd), new2 ++ new1, by rw [hnew2, b12, hnew1]; simp, ?_⟩
      · have e1 := h2.top
        have hl1 : 1 ≤ (l2 :: rest2).length := by simp
        rcases hδ with ⟨rfl, hb⟩ | ⟨rfl, hb⟩ <;> omega
      · have e1 := h2.scrolls
        have hl1 : 1 ≤ (l2 :: rest2).length := by simp
        rcases hδ with ⟨rfl, hb⟩ | ⟨rfl, hb⟩ <;> omega
      · intro wr hwr
        rcases List.mem_append.mp hwr with h | h
        · have := hin2 wr h; rw [b1] at this; unfold InRect at this ⊢; omega
        · have := hin1 wr h; unfold InRect at this ⊢; omega


/-! ## padded / formatted line-local frames are line-local -/

theorem padded_local (K : TermKind → Prop) (f : C05.Fill) (l tp r b w : Nat) (m : SgrMode) (S : Nat → Prop)
    (ls : Lines) (hw : 0 < w) (hOK : ∀ ln ∈ ls, LineOK K w 1 0 m S ln) :
    LocalFrame K (l + w + r) (tp + ls.length + b) (C05.padLines f l tp r b w ls) := by
  refine ⟨by rw [C05.padLines_length], ?_⟩
  intro ln hln
  have hfill : LocalIn K (l + w + r) (C05.fillSeg f (l + w + r)) :=
    (C05.fillLine_okC K f l tp w 1 (l + w + r) 1 0 (by omega)).toLineOK.weakenS (fun _ hd => absurd hd id)
  unfold C05.padLines at hln
  simp only [List.mem_append, List.mem_replicate, List.mem_map] at hln
  rcases hln with (⟨_, rfl⟩ | ⟨l0, hl0, rfl⟩) | ⟨_, rfl⟩
  · exact hfill
  · have := (C05.padLine_okC K f l 0 r 0 w 1 0 m S l0 (by omega) hw (hOK l0 hl0)).toLineOK
    simp only [Nat.zero_add, Nat.add_zero] at this
    exact this.weakenS (fun _ hd => absurd hd id)
  · exact hfill

/-- the padded first frame of the new API, from a line-local inner frame -/
theorem first_frame_local (K : TermKind → Prop) (p : Pad) (w h : Nat) (m : SgrMode) (S : Nat → Prop) (f0 : Lines)
    (hw : 0 < w) (hlen : f0.length = h) (hOK : ∀ ln ∈ f0, LineOK K w 1 0 m S ln) :
    LocalFrame K (p.l + w + p.r) (p.t + h + p.b) (padLines p w f0) := by
  rw [padLines_eq, ← hlen]
  exact padded_local K _ _ _ _ _ w m S f0 hw hOK

theorem fmt_local (K : TermKind → Prop) (c : OldCfg) (m : SgrMode) (S : Nat → Prop) (f : Lines)
    (hw : 0 < c.cols) (hlen : f.length = c.lines) (hOK : ∀ ln ∈ f, LineOK K c.cols 1 0 m S ln) :
    LocalFrame K c.Wp c.Hp (c.fmtLines f) := by
  rw [fmtLines_eq_c05, ← (margins_box c).1, ← (margins_box c).2, ← hlen]
  exact padded_local K _ _ _ _ _ c.cols m S f hw hOK

theorem preErase_local (K : TermKind → Prop) (c : OldCfg) (hw : 0 < c.cols) :
    LocalFrame K c.Wp c.Hp (c.fmtLines (List.replicate c.lines [Tok.ech c.cols, Tok.cuf c.cols])) := by
  apply fmt_local K c .kept Gfx.noRows _ hw (by simp)
  intro ln hln
  simp only [List.mem_replicate] at hln
  rw [hln.2]
  have := Gfx.fill_ok false c.cols 1 0
  exact LineOK.mono (K := Gfx.anyKind) (fun _ _ => trivial) (by simpa [Gfx.fillToks] using this)

/-- block renders are line-local -/
theorem block_local (cfg : Block.Cfg) (rows : List (List Block.PP)) (w : Nat) (hw : ∀ row ∈ rows, row.length = w) :
    ∀ ln ∈ Block.renderLines cfg rows, LineOK (fun _ => True) w 1 0 .reset (fun di => di = 0) ln := by
  intro ln hln
  simp only [Block.renderLines, List.mem_map] at hln
  obtain ⟨row, hrow, rfl⟩ := hln
  exact Block.blockLine_ok cfg row w 1 0 (hw row hrow)

/-! ## new API -/

/-- the start state without "the box fits": the cursor is at the start of any visible line of a tty -/
structure StartS (t : Term) (Wp : Nat) : Prop where
  col : t.col = 0
  pw : t.pw = false
  lm : t.lm = 0
  fitW : Wp ≤ t.W
  visTop : t.top ≤ t.row
  visBot : t.row + 1 ≤ t.top + t.H

theorem startS_hide {t : Term} {Wp : Nat} (hS : StartS t Wp) (b : Bool) :
    StartS (if b then { t with vis := false } else t) Wp := by
  cases b
  · exact hS
  · exact ⟨hS.col, hS.pw, hS.lm, hS.fitW, hS.visTop, hS.visBot⟩

/-- everything after the first frame, from the home position -/
theorem new_after_first (c : NewCfg) (K : TermKind → Prop) (rest : List Lines) (hrest : ∀ f ∈ rest, FrameOK K c.w c.h f)
    (hclear : ∀ a ∈ c.clear, Tok.inert a = true) (hw : 0 < c.w) (hh : 0 < c.h) (r0 : Nat) (t1 : Term)
    (hK : K t1.kind) (hH : Home c r0 t1) (hide : Bool) :
    let t2 := t1.run ((rest.map c.frameToks).flatten ++ (c.down ++ [Tok.lf] ++ (if hide then [Tok.showCur] else [])))
    t2.row = r0 + c.Hp ∧ t2.col = 0 ∧ t2.pw = false ∧
    (∃ later, t2.log = later ++ t1.log ∧ ∀ wr ∈ later, InRect (r0 + c.pad.t) c.pad.l c.w c.h wr) ∧
    ((t1.fg = none ∧ t1.bg = none) → (t2.fg = none ∧ t2.bg = none)) ∧
    t2.W = t1.W ∧ t2.H = t1.H ∧ t2.kind = t1.kind ∧ t2.lm = t1.lm ∧ t2.vis = (hide || t1.vis) ∧ t2.wrapped = t1.wrapped ∧
    t2.scrolls = t1.scrolls + (r0 + c.Hp + 1 - (t1.top + t1.H)) ∧ t2.top = t1.top + (r0 + c.Hp + 1 - (t1.top + t1.H)) := by
  intro t2
  have e : t2 = (t1.run (rest.map c.frameToks).flatten).run (c.down ++ [Tok.lf] ++ (if hide then [Tok.showCur] else [])) :=
    Term.run_append _ _ _
  rw [e]
  have h1 := new_loop c K hclear hw hh r0 rest hrest t1 hK hH
  generalize t1.run (rest.map c.frameToks).flatten = ta at h1 ⊢
  have h2 := new_tail c hh r0 ta h1.home hide
  simp only at h2
  generalize ta.run (c.down ++ [Tok.lf] ++ (if hide then [Tok.showCur] else [])) = tb at h2 ⊢
  obtain ⟨a1, a2, a3, a4, a5, a6, a7, a8, a9, a10, a11, a12, a13, a14⟩ := h2
  obtain ⟨later, hl, hin⟩ := h1.log
  have hF := h1.frame
  exact ⟨a1, a2, a3, ⟨later, by rw [a4, hl], hin⟩, fun hd => by rw [a5, a6]; exact h1.sgr hd, by rw [a7, hF.W],
    by rw [a8, hF.H], by rw [a9, hF.kind], by rw [a10, hF.lm], by rw [a11, hF.vis], by rw [a12, hF.wrapped],
    by rw [a13, hF.scrolls, hF.top, hF.H], by rw [a14, hF.top, hF.H]⟩

/-- hypotheses of the scrolling theorems, new API -/
structure NewHypS (c : NewCfg) (K : TermKind → Prop) (f0 : Lines) (rest : List Lines) (t : Term) : Prop where
  valid : c.validate = none
  first : LocalFrame K c.Wp c.Hp (padLines c.pad c.w f0)
  rest : ∀ f ∈ rest, FrameOK K c.w c.h f
  clear : ∀ a ∈ c.clear, Tok.inert a = true
  w : 0 < c.w
  h : 0 < c.h
  kind : K t.kind
  start : StartS t c.Wp

/-- the first frame from any visible row: afterwards the whole box is on screen and the cursor at home -/
theorem new_first_scroll (c : NewCfg) (K : TermKind → Prop) (f0 : Lines)
    (h0 : LocalFrame K c.Wp c.Hp (padLines c.pad c.w f0)) (hw : 0 < c.w) (hh : 0 < c.h)
    (t : Term) (hK : K t.kind) (hS : StartS t c.Wp) (hfitH : c.Hp ≤ t.H) :
    let t' := t.run (joinLines (padLines c.pad c.w f0) ++ c.home0)
    Home c t.row t' ∧ t'.W = t.W ∧ t'.H = t.H ∧ t'.kind = t.kind ∧ t'.vis = t.vis ∧ t'.wrapped = t.wrapped ∧
    t'.top = t.top + (t.row + c.Hp - (t.top + t.H)) ∧ t'.scrolls = t.scrolls + (t.row + c.Hp - (t.top + t.H)) ∧
    ((t.fg = none ∧ t.bg = none) → (t'.fg = none ∧ t'.bg = none)) ∧
    ∃ new, t'.log = new ++ t.log ∧ ∀ wr ∈ new, InRect t.row 0 c.Wp c.Hp wr := by
  intro t'
  have hWp : 0 < c.Wp := by unfold NewCfg.Wp; omega
  have hHp : 0 < c.Hp := by unfold NewCfg.Hp; omega
  have hne : padLines c.pad c.w f0 ≠ [] := by
    intro he; have := h0.1; rw [he] at this; simp at this; omega
  have h1 := scroll_from K c.Wp hWp _ hne h0.2 t hK hS.lm hS.col hS.pw hS.fitW hS.visTop hS.visBot
  rw [h0.1] at h1
  have e : t' = (t.run (joinLines (padLines c.pad c.w f0))).run c.home0 := Term.run_append _ _ _
  rw [e]
  generalize t.run (joinLines (padLines c.pad c.w f0)) = t1 at h1 ⊢
  have hHpe : c.Hp = c.pad.t + c.h + c.pad.b := rfl
  have hWpe : c.Wp = c.pad.l + c.w + c.pad.r := rfl
  have hfw := hS.fitW; have hvt := hS.visTop; have hvb := hS.visBot
  have h2 : Moved t1 (t1.run c.home0) (t1.row - (c.h + c.pad.b - 1)) c.pad.l := by
    unfold NewCfg.home0
    have : (((c.h + c.pad.b : Nat) : Int) - 1) = ((c.h + c.pad.b - 1 : Nat) : Int) := by omega
    rw [this]
    exact moved_home t1 (c.h + c.pad.b - 1) c.pad.l (by rw [h1.row, h1.top]; omega) (by rw [h1.W]; omega)
  generalize t1.run c.home0 = t2 at h2 ⊢
  have hF := h2.frame
  obtain ⟨new, hnew, hin⟩ := h1.log
  refine ⟨⟨by rw [h2.row, h1.row]; omega, h2.col, h2.pw, by rw [hF.lm, h1.lm]; exact hS.lm, by rw [hF.W, h1.W]; exact hfw,
      by rw [hF.top, h1.top]; omega, by rw [hF.top, hF.H, h1.top, h1.H]; omega⟩,
    by rw [hF.W, h1.W], by rw [hF.H, h1.H], by rw [hF.kind, h1.kind], by rw [hF.vis, h1.vis],
    by rw [hF.wrapped, h1.wrapped], by rw [hF.top, h1.top], by rw [hF.scrolls, h1.scrolls],
    fun hd => by rw [h2.fg, h2.bg]; exact h1.sgr hd, new, by rw [h2.log, hnew], hin⟩

/-- ANIMATION FROM ANY VISIBLE START ROW (new API, line-local first frame): all of `DrawEffect` — the
    region is anchored at the first frame's absolute start row, the scroll count is exactly the box's
    overhang plus the final newline -/
theorem new_anim_scroll (c : NewCfg) (K : TermKind → Prop) (f0 : Lines) (rest : List Lines) (t : Term)
    (hy : NewHypS c K f0 rest t) (ha : c.animation = true) (hfitH : c.Hp ≤ t.H) :
    DrawEffect t (t.run (newToks c (f0 :: rest))) t.row c.Wp c.Hp c.hide := by
  rw [newToks_anim c f0 rest hy.valid ha, run_hide, Term.run_append]
  have h0 := hide_facts t c.hide
  have hS0 := startS_hide hy.start c.hide
  simp only at h0
  generalize (if c.hide then { t with vis := false } else t) = t0 at h0 hS0 ⊢
  obtain ⟨b1, b2, b3, b4, b5, b6, b7, b8, b9, b10, b11, b12, -⟩ := h0
  have h1 := new_first_scroll c K f0 hy.first hy.w hy.h t0 (by rw [b3]; exact hy.kind) hS0 (by rw [b2]; exact hfitH)
  simp only at h1
  generalize t0.run (joinLines (padLines c.pad c.w f0) ++ c.home0) = t1 at h1 ⊢
  obtain ⟨hH, c1, c2, c3, c4, c5, c6, c7, c8, new, hnew, hin⟩ := h1
  rw [b9] at hH hin c6 c7
  have h2 := new_after_first c K rest hy.rest hy.clear hy.w hy.h t.row t1 (by rw [c3, b3]; exact hy.kind) hH c.hide
  simp only at h2
  generalize t1.run ((rest.map c.frameToks).flatten ++ (c.down ++ [Tok.lf] ++ (if c.hide then [Tok.showCur] else []))) = t2 at h2 ⊢
  obtain ⟨d1, d2, d3, ⟨later, hl, hlin⟩, d5, d6, d7, d8, d9, d10, d11, d12, d13⟩ := h2
  have hvb := hy.start.visBot
  refine ⟨⟨later ++ new, by rw [hl, hnew, b10]; simp, ?_⟩, d1, d2, d3, by rw [d10, c4, b8],
    fun hd => d5 (c8 (by rw [b11, b12]; exact hd)), by rw [d11, c5, b6], ?_, ?_, by rw [d6, c1, b1], by rw [d7, c2, b2],
    by rw [d8, c3, b3], by rw [d9, hH.lm, hy.start.lm]⟩
  · intro wr hwr
    rcases List.mem_append.mp hwr with h | h
    · exact inner_in_box c t.row (hlin wr h)
    · exact hin wr h
  · rw [d12, c7, c6, c2, b7, b4, b2]; omega
  · rw [d13, c6, c2, b4, b2]; omega

/-- STILL IMAGE FROM ANY VISIBLE START ROW (new API; with `allow_scroll` the box may even be taller than the
    terminal) -/
theorem new_still_scroll (c : NewCfg) (K : TermKind → Prop) (f0 : Lines) (rest : List Lines) (t : Term)
    (hy : NewHypS c K f0 [] t) (ha : c.animation = false) :
    DrawEffect t (t.run (newToks c (f0 :: rest))) t.row c.Wp c.Hp c.hide := by
  rw [newToks_still c f0 rest hy.valid ha, run_hide, Term.run_append]
  have h0 := hide_facts t c.hide
  have hS0 := startS_hide hy.start c.hide
  simp only at h0
  generalize (if c.hide then { t with vis := false } else t) = t0 at h0 hS0 ⊢
  obtain ⟨b1, b2, b3, b4, b5, b6, b7, b8, b9, b10, b11, b12, -⟩ := h0
  have hWp : 0 < c.Wp := by have := hy.w; unfold NewCfg.Wp; omega
  have hHp : 0 < c.Hp := by have := hy.h; unfold NewCfg.Hp; omega
  have hne : padLines c.pad c.w f0 ≠ [] := by
    intro he; have := hy.first.1; rw [he] at this; simp at this; omega
  have h1 := scroll_from K c.Wp hWp _ hne hy.first.2 t0 (by rw [b3]; exact hy.kind) hS0.lm hS0.col hS0.pw hS0.fitW
    hS0.visTop hS0.visBot
  rw [hy.first.1] at h1
  generalize t0.run (joinLines (padLines c.pad c.w f0)) = t1 at h1 ⊢
  have h2 := lf_tail t1 (by rw [h1.lm]; exact hS0.lm) c.hide
  simp only at h2
  generalize t1.run ([Tok.lf] ++ (if c.hide then [Tok.showCur] else [])) = t2 at h2 ⊢
  obtain ⟨a1, a2, a3, a4, a5, a6, a7, a8, a9, a10, a11, a12, a13, a14⟩ := h2
  obtain ⟨new, hnew, hin⟩ := h1.log
  have hvb := hy.start.visBot
  have hrow1 : t1.row + 1 = t.row + c.Hp := by rw [h1.row, b9]; omega
  have htop1 : t1.top = t.top + (t.row + c.Hp - (t.top + t.H)) := by rw [h1.top, b4, b9, b2]
  have hif : (if t1.row + 1 = t1.top + t1.H then 1 else 0) + (t.row + c.Hp - (t.top + t.H)) = t.row + c.Hp + 1 - (t.top + t.H) := by
    rw [hrow1, htop1, h1.H, b2]
    split <;> omega
  refine ⟨⟨new, by rw [a4, hnew, b10], by rw [← b9]; exact hin⟩, by rw [a1, hrow1], a2, a3,
    by rw [a11, h1.vis, b8], fun hd => by rw [a5, a6]; exact h1.sgr (by rw [b11, b12]; exact hd),
    by rw [a12, h1.wrapped, b6], ?_, ?_, by rw [a7, h1.W, b1], by rw [a8, h1.H, b2], by rw [a9, h1.kind, b3],
    by rw [a10, h1.lm, b5]⟩
  · have e1 := h1.scrolls
    rw [b7, b9, b4, b2] at e1
    rw [a13]; omega
  · rw [a14]; omega


/-- every later frame still covers exactly the first frame's render rectangle (absolute rows) when the
    first frame scrolled: `pre ++ f :: post` -/
theorem new_frame_cells_scroll (c : NewCfg) (K : TermKind → Prop) (f0 : Lines) (pre : List Lines) (f : Lines)
    (post : List Lines) (t : Term) (hy : NewHypS c K f0 (pre ++ f :: post) t) (ha : c.animation = true)
    (hfitH : c.Hp ≤ t.H) :
    let before := (if c.hide then [Tok.hideCur] else []) ++
      ((joinLines (padLines c.pad c.w f0) ++ c.home0) ++ (pre.map c.frameToks).flatten)
    (∃ after, newToks c (f0 :: (pre ++ f :: post)) = before ++ c.frameToks f ++ after) ∧
    FrameEff c t.row (t.run before) ((t.run before).run (c.frameToks f)) := by
  intro before
  constructor
  · refine ⟨(post.map c.frameToks).flatten ++ (c.down ++ [Tok.lf] ++ (if c.hide then [Tok.showCur] else [])), ?_⟩
    rw [newToks_anim c f0 _ hy.valid ha]
    simp [before, List.append_assoc]
  · have e : t.run before = ((if c.hide then { t with vis := false } else t).run
        (joinLines (padLines c.pad c.w f0) ++ c.home0)).run (pre.map c.frameToks).flatten := by
      show t.run (_ ++ _) = _
      rw [run_hide, Term.run_append]
    rw [e]
    have h0 := hide_facts t c.hide
    have hS0 := startS_hide hy.start c.hide
    simp only at h0
    generalize (if c.hide then { t with vis := false } else t) = t0 at h0 hS0 ⊢
    have h1 := new_first_scroll c K f0 hy.first hy.w hy.h t0 (by rw [h0.2.2.1]; exact hy.kind) hS0
      (by rw [h0.2.1]; exact hfitH)
    simp only at h1
    generalize t0.run (joinLines (padLines c.pad c.w f0) ++ c.home0) = t1 at h1 ⊢
    obtain ⟨hH, -, -, c3, -⟩ := h1
    rw [h0.2.2.2.2.2.2.2.2.1] at hH
    have h2 := new_loop c K hy.clear hy.w hy.h t.row pre (fun g hg => hy.rest g (by simp [hg])) t1
      (by rw [c3, h0.2.2.1]; exact hy.kind) hH
    exact new_frame c K f (hy.rest f (by simp)) hy.clear hy.w hy.h t.row _
      (by rw [h2.frame.kind, c3, h0.2.2.1]; exact hy.kind) h2.home

/-! ## old API -/

/-- everything after the first frame of the old API, from the box's last line -/
theorem old_after_first (c : OldCfg) (K : TermKind → Prop) (rest : List Lines)
    (hrest : ∀ f ∈ rest, FrameIn K c.Wp c.Hp (c.fmtLines f)) (hclear : ∀ a ∈ c.clear, Tok.inert a = true)
    (hW : 0 < c.Wp) (hH : 0 < c.Hp) (r0 : Nat) (t1 : Term) (hK : K t1.kind) (hE : AtEnd c.Wp c.Hp r0 t1) :
    let t2 := t1.run ((rest.map c.frameToks).flatten ++ c.tail)
    t2.row = r0 + c.Hp ∧ t2.col = 0 ∧ t2.pw = false ∧
    (∃ later, t2.log = later ++ t1.log ∧ ∀ wr ∈ later, InRect r0 0 c.Wp c.Hp wr) ∧
    t2.fg = none ∧ t2.bg = none ∧
    t2.W = t1.W ∧ t2.H = t1.H ∧ t2.kind = t1.kind ∧ t2.lm = t1.lm ∧ t2.vis = (c.tty || t1.vis) ∧ t2.wrapped = t1.wrapped ∧
    t2.scrolls = t1.scrolls + (r0 + c.Hp + 1 - (t1.top + t1.H)) ∧ t2.top = t1.top + (r0 + c.Hp + 1 - (t1.top + t1.H)) := by
  intro t2
  have e : t2 = (t1.run (rest.map c.frameToks).flatten).run c.tail := Term.run_append _ _ _
  rw [e]
  have h1 := old_loop c K hclear hW hH r0 rest hrest t1 hK hE
  generalize t1.run (rest.map c.frameToks).flatten = ta at h1 ⊢
  have h2 := old_tail c hH r0 ta h1.atEnd
  simp only at h2
  generalize ta.run c.tail = tb at h2 ⊢
  obtain ⟨a1, a2, a3, a4, a5, a6, a7, a8, a9, a10, a11, a12, a13, a14⟩ := h2
  obtain ⟨later, hl, hin⟩ := h1.log
  have hF := h1.frame
  exact ⟨a1, a2, a3, ⟨later, by rw [a4, hl], hin⟩, a5, a6, by rw [a7, hF.W], by rw [a8, hF.H], by rw [a9, hF.kind],
    by rw [a10, hF.lm], by rw [a11, hF.vis], by rw [a12, hF.wrapped], by rw [a13, hF.scrolls, hF.top, hF.H],
    by rw [a14, hF.top, hF.H]⟩

/-- hypotheses of the scrolling theorems, old API: the frame written first (the pre-erase pseudo-frame on
    WezTerm, else the first frame) is line-local -/
structure OldHypS (c : OldCfg) (K : TermKind → Prop) (f0 : Lines) (rest : List Lines) (t : Term) : Prop where
  valid : c.validate = none
  first : FrameIn K c.Wp c.Hp (c.fmtLines f0)
  firstLocal : c.preErase = false → LocalFrame K c.Wp c.Hp (c.fmtLines f0)
  rest : ∀ f ∈ rest, FrameIn K c.Wp c.Hp (c.fmtLines f)
  clear : ∀ a ∈ c.clear, Tok.inert a = true
  w : 0 < c.cols
  h : 0 < c.lines
  kind : K t.kind
  start : StartS t c.Wp

/-- pre-erase + first frame from any visible row -/
theorem old_first_scroll (c : OldCfg) (K : TermKind → Prop) (f0 : Lines) (rest : List Lines) (t0 : Term)
    (hy : OldHypS c K f0 rest t0) (t : Term) (hK : K t.kind) (hS : StartS t c.Wp) (hfitH : c.Hp ≤ t.H) :
    let t' := t.run (c.preEraseToks ++ joinLines (c.fmtLines f0))
    AtEnd c.Wp c.Hp t.row t' ∧ t'.W = t.W ∧ t'.H = t.H ∧ t'.kind = t.kind ∧ t'.vis = t.vis ∧ t'.wrapped = t.wrapped ∧
    t'.top = t.top + (t.row + c.Hp - (t.top + t.H)) ∧ t'.scrolls = t.scrolls + (t.row + c.Hp - (t.top + t.H)) ∧
    ∃ new, t'.log = new ++ t.log ∧ ∀ wr ∈ new, InRect t.row 0 c.Wp c.Hp wr := by
  intro t'
  have hW : 0 < c.Wp := by have := hy.w; unfold OldCfg.Wp; omega
  have hH : 0 < c.Hp := by have := hy.h; unfold OldCfg.Hp; omega
  have hfw := hS.fitW; have hvt := hS.visTop; have hvb := hS.visBot
  cases hp : c.preErase
  · -- no pre-erase: the first frame itself scrolls
    have e : t' = t.run (joinLines (c.fmtLines f0)) := by
      show t.run _ = _
      unfold OldCfg.preEraseToks; simp [hp]
    rw [e]
    have hl := hy.firstLocal hp
    have hne : c.fmtLines f0 ≠ [] := by intro he; have := hl.1; rw [he] at this; simp at this; omega
    have h1 := scroll_from K c.Wp hW _ hne hl.2 t hK hS.lm hS.col hS.pw hS.fitW hS.visTop hS.visBot
    rw [hl.1] at h1
    generalize t.run (joinLines (c.fmtLines f0)) = t1 at h1 ⊢
    exact ⟨⟨h1.row, by rw [h1.lm]; exact hS.lm, by rw [h1.W]; exact hfw, by rw [h1.top]; omega,
      by rw [h1.top, h1.H]; omega⟩, h1.W, h1.H, h1.kind, h1.vis, h1.wrapped, h1.top, h1.scrolls, h1.log⟩
  · -- WezTerm: the pre-erase scrolls, then the cursor goes back up and the first frame fits
    have e : t' = ((t.run (joinLines (c.fmtLines (List.replicate c.lines [Tok.ech c.cols, Tok.cuf c.cols])))).run c.up).run
        (joinLines (c.fmtLines f0)) := by
      show t.run _ = _
      unfold OldCfg.preEraseToks
      rw [if_pos hp, Term.run_append, Term.run_append]
    rw [e]
    have hl := preErase_local K c hy.w
    have hne : c.fmtLines (List.replicate c.lines [Tok.ech c.cols, Tok.cuf c.cols]) ≠ [] := by
      intro he; have := hl.1; rw [he] at this; simp at this; omega
    have h1 := scroll_from K c.Wp hW _ hne hl.2 t hK hS.lm hS.col hS.pw hS.fitW hS.visTop hS.visBot
    rw [hl.1] at h1
    generalize t.run (joinLines (c.fmtLines (List.replicate c.lines [Tok.ech c.cols, Tok.cuf c.cols]))) = t1 at h1 ⊢
    have hE1 : AtEnd c.Wp c.Hp t.row t1 := ⟨h1.row, by rw [h1.lm]; exact hS.lm, by rw [h1.W]; exact hfw,
      by rw [h1.top]; omega, by rw [h1.top, h1.H]; omega⟩
    have h2 := old_up c [] (by simp) hW hH t.row t1 hE1
    simp only [List.nil_append] at h2
    generalize t1.run c.up = t2 at h2 ⊢
    obtain ⟨hR2, hF2, hl2, hfg2, hbg2⟩ := h2
    have hlm2 : t2.lm = 0 := by rw [hF2.lm, h1.lm]; exact hS.lm
    have h3 := block_c K c.Wp c.Hp false _ hH hy.first t2 t.row (by rw [hF2.kind, h1.kind]; exact hK) hlm2 hR2
    have hE3 := atEnd_of_block hlm2 hR2 h3
    generalize t2.run (joinLines (c.fmtLines f0)) = t3 at h3 hE3 ⊢
    have hF3 := h3.frame
    obtain ⟨n1, hn1, hi1⟩ := h1.log
    obtain ⟨n3, hn3, hi3, _⟩ := h3.log
    refine ⟨hE3, by rw [hF3.W, hF2.W, h1.W], by rw [hF3.H, hF2.H, h1.H], by rw [hF3.kind, hF2.kind, h1.kind],
      by rw [hF3.vis, hF2.vis, h1.vis], by rw [hF3.wrapped, hF2.wrapped, h1.wrapped],
      by rw [hF3.top, hF2.top, h1.top], by rw [hF3.scrolls, hF2.scrolls, h1.scrolls], n3 ++ n1,
      by rw [hn3, hl2, hn1]; simp, ?_⟩
    intro wr hwr
    rcases List.mem_append.mp hwr with h | h
    · exact hi3 wr h
    · exact hi1 wr h

/-- OLD API FROM ANY VISIBLE START ROW (animation: the box must fit the terminal's height, which validation
    guarantees; still image: any height) -/
theorem old_draw_scroll (c : OldCfg) (K : TermKind → Prop) (f0 : Lines) (rest : List Lines) (t : Term)
    (hy : OldHypS c K f0 rest t) (hfitH : c.animation = true → c.Hp ≤ t.H)
    (hstill : c.animation = false → LocalFrame K c.Wp c.Hp (c.fmtLines f0)) :
    let t' := t.run (oldToks c (f0 :: rest))
    DrawEffect t t' t.row c.Wp c.Hp c.tty ∧ t'.fg = none ∧ t'.bg = none := by
  intro t'
  have hW : 0 < c.Wp := by have := hy.w; unfold OldCfg.Wp; omega
  have hH : 0 < c.Hp := by have := hy.h; unfold OldCfg.Hp; omega
  have h0 := hide_facts t c.tty
  have hS0 := startS_hide hy.start c.tty
  have hvb := hy.start.visBot
  cases ha : c.animation
  · -- still image: the frame, then the tail
    have e : t' = ((if c.tty then { t with vis := false } else t).run (joinLines (c.fmtLines f0))).run c.tail := by
      show t.run _ = _
      rw [oldToks_still c f0 rest hy.valid ha, run_hide, Term.run_append]
    rw [e]
    simp only at h0
    generalize (if c.tty then { t with vis := false } else t) = t0 at h0 hS0 ⊢
    obtain ⟨b1, b2, b3, b4, b5, b6, b7, b8, b9, b10, b11, b12, -⟩ := h0
    have hl := hstill ha
    have hne : c.fmtLines f0 ≠ [] := by intro he; have := hl.1; rw [he] at this; simp at this; omega
    have h1 := scroll_from K c.Wp hW _ hne hl.2 t0 (by rw [b3]; exact hy.kind) hS0.lm hS0.col hS0.pw hS0.fitW
      hS0.visTop hS0.visBot
    rw [hl.1] at h1
    generalize t0.run (joinLines (c.fmtLines f0)) = t1 at h1 ⊢
    -- the tail from the last line (the box need not be visible as a whole: only the last line matters)
    have e2 : t1.run c.tail = step ((step t1 Tok.sgr0).run (if c.tty then [Tok.showCur] else [])) Tok.lf := by
      unfold OldCfg.tail
      rw [Term.run_append, Term.run_append]; rfl
    rw [e2]
    have hlf := lf_effect ((step t1 Tok.sgr0).run (if c.tty then [Tok.showCur] else []))
      (by cases c.tty <;> (show t1.lm = 0; rw [h1.lm]; exact hS0.lm))
    generalize step ((step t1 Tok.sgr0).run (if c.tty then [Tok.showCur] else [])) Tok.lf = t3 at hlf ⊢
    obtain ⟨a1, a2, a3, a4, a5, a6, a7, a8, a9, a10, a11, a12, a13, a14⟩ := hlf
    obtain ⟨new, hnew, hin⟩ := h1.log
    have hrow1 : t1.row + 1 = t.row + c.Hp := by rw [h1.row, b9]; omega
    have e1 := h1.scrolls
    have e3 := h1.top
    rw [b9, b4, b2] at e1 e3
    rw [b7] at e1
    cases htty : c.tty <;> simp only [htty, Bool.false_eq_true, if_false, if_true, Term.run_nil, Bool.false_or,
        Bool.true_or] at a1 a2 a3 a4 a5 a6 a7 a8 a9 a10 a11 a12 a13 a14 b8 ⊢
    all_goals
      refine ⟨⟨⟨new, by rw [a4]; show t1.log = _; rw [hnew, b10], by rw [← b9]; exact hin⟩,
        by rw [a1]; show t1.row + 1 = _; exact hrow1, a2, a3, ?_, fun _ => ⟨a5, a6⟩,
        by rw [a12]; show t1.wrapped = _; rw [h1.wrapped, b6], ?_, ?_, by rw [a7]; show t1.W = _; rw [h1.W, b1],
        by rw [a8]; show t1.H = _; rw [h1.H, b2], by rw [a9]; show t1.kind = _; rw [h1.kind, b3],
        by rw [a10]; show t1.lm = _; rw [h1.lm, b5]⟩, a5, a6⟩
    · rw [a11]; show t1.vis = _; rw [h1.vis]; simpa using b8
    · rw [a13]
      show t1.scrolls + (if t1.row + 1 = t1.top + t1.H then 1 else 0) = _
      rw [hrow1, h1.H, b2]; split <;> omega
    · rw [a14]
      show t1.top + (if t1.row + 1 = t1.top + t1.H then 1 else 0) = _
      rw [hrow1, h1.H, b2]; split <;> omega
    · rw [a11]; rfl
    · rw [a13]
      show t1.scrolls + (if t1.row + 1 = t1.top + t1.H then 1 else 0) = _
      rw [hrow1, h1.H, b2]; split <;> omega
    · rw [a14]
      show t1.top + (if t1.row + 1 = t1.top + t1.H then 1 else 0) = _
      rw [hrow1, h1.H, b2]; split <;> omega
  · have e : t' = ((if c.tty then { t with vis := false } else t).run
        (c.preEraseToks ++ joinLines (c.fmtLines f0))).run ((rest.map c.frameToks).flatten ++ c.tail) := by
      show t.run _ = _
      rw [oldToks_anim c f0 rest hy.valid ha, run_hide, Term.run_append]
    rw [e]
    simp only at h0
    generalize (if c.tty then { t with vis := false } else t) = t0 at h0 hS0 ⊢
    obtain ⟨b1, b2, b3, b4, b5, b6, b7, b8, b9, b10, b11, b12, -⟩ := h0
    have h1 := old_first_scroll c K f0 rest t hy t0 (by rw [b3]; exact hy.kind) hS0 (by rw [b2]; exact hfitH ha)
    simp only at h1
    generalize t0.run (c.preEraseToks ++ joinLines (c.fmtLines f0)) = t1 at h1 ⊢
    obtain ⟨hE, c1, c2, c3, c4, c5, c6, c7, new, hnew, hin⟩ := h1
    rw [b9] at hE hin c6 c7
    have h2 := old_after_first c K rest hy.rest hy.clear hW hH t.row t1 (by rw [c3, b3]; exact hy.kind) hE
    simp only at h2
    generalize t1.run ((rest.map c.frameToks).flatten ++ c.tail) = t2 at h2 ⊢
    obtain ⟨d1, d2, d3, ⟨later, hl, hlin⟩, d4, d5, d6, d7, d8, d9, d10, d11, d12, d13⟩ := h2
    refine ⟨⟨⟨later ++ new, by rw [hl, hnew, b10]; simp, ?_⟩, d1, d2, d3, by rw [d10, c4, b8], fun _ => ⟨d4, d5⟩,
      by rw [d11, c5, b6], ?_, ?_, by rw [d6, c1, b1], by rw [d7, c2, b2], by rw [d8, c3, b3],
      by rw [d9, hE.lm, hy.start.lm]⟩, d4, d5⟩
    · intro wr hwr
      rcases List.mem_append.mp hwr with h | h
      · exact hlin wr h
      · exact hin wr h
    · rw [d12, c7, c6, c2, b7, b4, b2]; omega
    · rw [d13, c6, c2, b4, b2]; omega


/-! ## end to end from inner frames -/

/-- NEW API, any visible start row, from inner frames: the first frame line-local (`LineOK` for a one-line
    block: block renders, kitty LINES, iterm2 LINES), later frames any C01-contract frames -/
theorem new_draw_scroll_inner (c : NewCfg) (K : TermKind → Prop) (m : SgrMode) (S : Nat → Prop) (f0 : Lines)
    (rest : List Lines) (t : Term) (hv : c.validate = none) (h0len : f0.length = c.h)
    (h0 : ∀ ln ∈ f0, LineOK K c.w 1 0 m S ln) (hrest : ∀ f ∈ rest, FrameOK K c.w c.h f)
    (hclear : ∀ a ∈ c.clear, Tok.inert a = true) (hw : 0 < c.w) (hh : 0 < c.h) (hK : K t.kind)
    (hS : StartS t c.Wp) (hfitH : c.animation = true → c.Hp ≤ t.H) :
    DrawEffect t (t.run (newToks c (f0 :: rest))) t.row c.Wp c.Hp c.hide := by
  have hfirst := first_frame_local K c.pad c.w c.h m S f0 hw h0len h0
  cases ha : c.animation
  · exact new_still_scroll c K f0 rest t ⟨hv, hfirst, by simp, hclear, hw, hh, hK, hS⟩ ha
  · exact new_anim_scroll c K f0 rest t ⟨hv, hfirst, hrest, hclear, hw, hh, hK, hS⟩ ha (hfitH ha)

/-- … drawing block renders: every pixel content, any padding, any visible start row -/
theorem new_draw_scroll_block (c : NewCfg) (cfg : Block.Cfg) (g0 : List (List Block.PP)) (gs : List (List (List Block.PP)))
    (t : Term) (hv : c.validate = none) (h0 : GridOK c.w c.h g0) (hgs : ∀ g ∈ gs, GridOK c.w c.h g)
    (hclear : ∀ a ∈ c.clear, Tok.inert a = true) (hw : 0 < c.w) (hh : 0 < c.h) (hS : StartS t c.Wp)
    (hfitH : c.animation = true → c.Hp ≤ t.H) :
    DrawEffect t (t.run (newToks c (Block.renderLines cfg g0 :: gs.map (Block.renderLines cfg))))
      t.row c.Wp c.Hp c.hide := by
  apply new_draw_scroll_inner c (fun _ => True) .reset (fun di => di = 0) _ _ t hv
    (by simp [Block.renderLines, h0.1]) (block_local cfg g0 c.w h0.2) _ hclear hw hh trivial hS hfitH
  intro f hf
  simp only [List.mem_map] at hf
  obtain ⟨g, hg, rfl⟩ := hf
  exact block_frameOK cfg g c.w c.h (hgs g hg).1 (hgs g hg).2

/-- OLD API, any visible start row, from inner frames: the first frame line-local (not needed on WezTerm with the
    pre-erase, where it is the pseudo-frame that scrolls — but then harmless), later frames any -/
theorem old_draw_scroll_inner (c : OldCfg) (K : TermKind → Prop) (m : SgrMode) (S : Nat → Prop) (f0 : Lines)
    (rest : List Lines) (t : Term) (hv : c.validate = none) (h0ok : FrameOK K c.cols c.lines f0)
    (h0 : ∀ ln ∈ f0, LineOK K c.cols 1 0 m S ln) (hrest : ∀ f ∈ rest, FrameOK K c.cols c.lines f)
    (hclear : ∀ a ∈ c.clear, Tok.inert a = true) (hw : 0 < c.cols) (hh : 0 < c.lines) (hK : K t.kind)
    (hS : StartS t c.Wp) (hfitH : c.animation = true → c.Hp ≤ t.H) :
    let t' := t.run (oldToks c (f0 :: rest))
    DrawEffect t t' t.row c.Wp c.Hp c.tty ∧ t'.fg = none ∧ t'.bg = none := by
  have hloc := fmt_local K c m S f0 hw h0ok.1 h0
  exact old_draw_scroll c K f0 rest t
    ⟨hv, fmt_frameIn_of_ok K c f0 hw h0ok, fun _ => hloc, fun f hf => fmt_frameIn_of_ok K c f hw (hrest f hf), hclear,
      hw, hh, hK, hS⟩ hfitH (fun _ => hloc)

theorem old_draw_scroll_block (c : OldCfg) (cfg : Block.Cfg) (g0 : List (List Block.PP)) (gs : List (List (List Block.PP)))
    (t : Term) (hv : c.validate = none) (h0 : GridOK c.cols c.lines g0) (hgs : ∀ g ∈ gs, GridOK c.cols c.lines g)
    (hclear : ∀ a ∈ c.clear, Tok.inert a = true) (hw : 0 < c.cols) (hh : 0 < c.lines) (hS : StartS t c.Wp)
    (hfitH : c.animation = true → c.Hp ≤ t.H) :
    let t' := t.run (oldToks c (Block.renderLines cfg g0 :: gs.map (Block.renderLines cfg)))
    DrawEffect t t' t.row c.Wp c.Hp c.tty ∧ t'.fg = none ∧ t'.bg = none := by
  apply old_draw_scroll_inner c (fun _ => True) .reset (fun di => di = 0) _ _ t hv
    (block_frameOK cfg g0 c.cols c.lines h0.1 h0.2) (block_local cfg g0 c.cols h0.2) _ hclear hw hh trivial hS hfitH
  intro f hf
  simp only [List.mem_map] at hf
  obtain ⟨g, hg, rfl⟩ := hf
  exact block_frameOK cfg g c.cols c.lines (hgs g hg).1 (hgs g hg).2

/-- the scroll count, spelled out: `max 0 (start row + box height − bottom)` for the box, `+ 1` for the final
    newline when the box reaches the bottom -/
theorem scroll_count (t t' : Term) (r0 Wp Hp : Nat) (hide : Bool) (h : DrawEffect t t' r0 Wp Hp hide) :
    t'.scrolls = t.scrolls + (r0 + Hp - (t.top + t.H)) + (if t.top + t.H ≤ r0 + Hp then 1 else 0) := by
  rw [h.scrolls]; split <;> omega

/-- non-vacuity: a 3-line box started on the last row of a 5-row viewport -/
example : StartS ({ W := 8, H := 5, row := 6, top := 2 } : Term) 8 := ⟨rfl, rfl, rfl, by decide, by decide, by decide⟩

end TIV.C06
