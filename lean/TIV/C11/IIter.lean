/-!
# C11 model, part 1 — `ImageIterator` as a state machine

Mirrors `src/term_image/image/common.py`, class `ImageIterator`
(`__init__`, `__next__`, `seek`, `close`, and the generator `_animate`) together with the two
`BaseImage` members the iterator touches (`_seek_position`, the size setting).

What is a parameter: `rf k s` — the result of
`image._format_render(image._render_image(img, alpha, frame=True, **style_args), *fmt)` when
the image is positioned at frame `k` and its rendered size is (identified by) `s`.
`format(image, spec)` with the image positioned at frame `k` is the same function (see
`Res.lean`/`effMethod` for the one place where `frame=True` changes the branch taken).

The cache of `_animate` is keyed by `hash(image.rendered_size)`; the model keys it by the size
identifier itself (assumption: `hash` is injective on the sizes met — checked by the harness).
-/
namespace TIV.C11

/-- what `ImageIterator.__init__` fixes: `image.n_frames`, `repeat`, the effective `_cached`
    (`repeat != 1 and (cached if bool else n_frames <= cached)`) -/
structure Cfg where
  nf : Nat
  rep : Int
  cached : Bool
deriving Repr

/-- `ImageIterator.__init__`'s computation of `_cached` -/
def effCached (nf : Nat) (rep : Int) (cachedIsBool : Bool) (cachedBool : Bool) (cachedInt : Nat) : Bool :=
  (rep != 1) && (if cachedIsBool then cachedBool else decide (nf ≤ cachedInt))

/-- how the `repeat` / `cached` arguments of `ImageIterator(image, repeat, format_spec, cached)` can be wrong -/
inductive RepArg | ok | zero | notInt
deriving DecidableEq, Repr
inductive CachedArg | ok | notInt | nonPos
deriving DecidableEq, Repr

/-- the argument validation of `ImageIterator.__init__`, in the order the code performs it;
    `none` = construction goes on (and only then is an image opened) -/
def initCheck (isImage animated : Bool) (rep : RepArg) (specIsStr specValid : Bool) (cached : CachedArg) :
    Option String :=
  if !isImage then some "TypeError"            -- not isinstance(image, BaseImage)
  else if !animated then some "ValueError"     -- not image._is_animated
  else if rep = .notInt then some "TypeError"
  else if rep = .zero then some "ValueError"   -- if not repeat
  else if !specIsStr then some "TypeError"
  else if !specValid then some "ValueError"    -- image._check_format_spec(format_spec)
  else if cached = .notInt then some "TypeError"
  else if cached = .nonPos then some "ValueError"   -- if False is not cached <= 0
  else none

/-- `BaseImage.__init__`: `isinstance(image, Image.Image)`, then `0 in image.size` -/
def imageCheck (isPil nonNull : Bool) : Option String :=
  if !isPil then some "TypeError" else if !nonNull then some "ValueError" else none

/-- suspension points of the generator `_animate` -/
inductive Pc
  | fresh   -- created, not started
  | y1      -- suspended at the `yield` of the first `while repeat:` loop
  | y2      -- suspended at the `yield` of the cache loop
deriving DecidableEq, Repr

/-- locals of the generator frame -/
structure Gen (α : Type) where
  pc : Pc
  n : Int
  rep : Int
  frame : Option α
  cache : List (Option (α × Nat))

/-- the iterator + the parts of the image it reads and writes -/
structure St (α : Type) where
  gen : Option (Gen α)   -- `_animator`; `none` once `close()` deleted it
  seekPos : Nat          -- `image._seek_position`
  loopNo : Option Int    -- `_loop_no`
  size : Nat             -- identifies `image.rendered_size`

inductive Res (α : Type)
  | yielded (f : Option α)
  | returned
  | nofuel               -- unreachable (theorem `no_fuel`)

structure Out (α : Type) where
  res : Res α
  gen : Gen α
  seekPos : Nat
  loopNo : Option Int

/-- `if repeat > 0: self._loop_no = repeat = repeat - 1` -/
def decRep {α} (g : Gen α) (ln : Option Int) : Gen α × Option Int :=
  if g.rep > 0 then ({ g with rep := g.rep - 1 }, some (g.rep - 1)) else (g, ln)

section
variable {α : Type} (c : Cfg) (rf : Nat → Nat → α) (size : Nat)

/-- the inner `while n < n_frames:` of the cache loop, entered at its test; on exit the
    statements after it and the outer `while repeat:` test -/
def inner2 : Nat → Option Nat → Gen α → Nat → Option Int → Out α
  | 0, _, g, sp, ln => ⟨.nofuel, g, sp, ln⟩
  | fuel + 1, sent, g, sp, ln =>
    if g.n < (c.nf : Int) then
      match sent with
      | some _ => ⟨.yielded g.frame, { g with pc := .y2 }, sp, ln⟩
      | none =>
        let sp := g.n.toNat                                     -- image._seek_position = n
        match g.cache.getD g.n.toNat none with                 -- frame, size_hash = cache[n]
        | some (f, h) =>
          if size ≠ h then
            let f := rf g.n.toNat size
            ⟨.yielded (some f),
              { g with pc := .y2, frame := some f, cache := g.cache.set g.n.toNat (some (f, size)) }, sp, ln⟩
          else ⟨.yielded (some f), { g with pc := .y2, frame := some f }, sp, ln⟩
        | none =>                                               -- (None, None): hash(...) != None
          let f := rf g.n.toNat size
          ⟨.yielded (some f),
            { g with pc := .y2, frame := some f, cache := g.cache.set g.n.toNat (some (f, size)) }, sp, ln⟩
    else
      let g := { g with n := 0 }                                -- image._seek_position = n = 0
      let (g, ln) := decRep g ln
      if g.rep = 0 then ⟨.returned, g, 0, ln⟩                   -- outer `while repeat:` fails
      else inner2 fuel sent g 0 ln

/-- `if cached: n_frames = len(cache)` + the outer `while repeat:` test of the cache loop -/
def outer2 (fuel : Nat) (sent : Option Nat) (g : Gen α) (sp : Nat) (ln : Option Int) : Out α :=
  if g.rep = 0 then ⟨.returned, g, sp, ln⟩ else inner2 c rf size fuel sent g sp ln

/-- the first `while repeat:` loop, entered at its test -/
def loop1 : Nat → Option Nat → Gen α → Nat → Option Int → Out α
  | 0, _, g, sp, ln => ⟨.nofuel, g, sp, ln⟩
  | fuel + 1, sent, g, sp, ln =>
    if g.rep = 0 then outer2 c rf size fuel sent g sp ln        -- falls through both loops
    else
      match sent with
      | some _ => ⟨.yielded g.frame, { g with pc := .y1 }, sp, ln⟩
      | none =>
        let sp := g.n.toNat                                     -- image._seek_position = n
        if g.n < 0 ∨ g.n ≥ (c.nf : Int) then                   -- `img.seek(n)` raises EOFError
          let g := { g with n := 0 }
          let (g, ln) := decRep g ln
          if c.cached then outer2 c rf size fuel none g 0 ln    -- break
          else loop1 fuel none g 0 ln                            -- continue
        else
          let f := rf g.n.toNat size
          let cache := if c.cached then g.cache.set g.n.toNat (some (f, size)) else g.cache
          ⟨.yielded (some f), { g with pc := .y1, frame := some f, cache := cache }, sp, ln⟩

/-- `n = n + 1 if sent is None else sent - 1` -/
def advance (n : Int) : Option Nat → Int
  | none => n + 1
  | some p => (p : Int) - 1

/-- run the generator from its suspension point to the next `yield` or to its end -/
def resume (sent : Option Nat) (g : Gen α) (sp : Nat) (ln : Option Int) : Out α :=
  match g.pc with
  | .fresh =>
    -- self._loop_no = repeat = self._repeat; cache = [(None,)*2]*n_frames; sent = None; n = 0
    loop1 c rf size 4 none
      { g with n := 0, rep := c.rep, cache := if c.cached then List.replicate c.nf none else [] }
      sp (some c.rep)
  | .y1 => loop1 c rf size 4 sent { g with n := advance g.n sent } sp ln
  | .y2 => inner2 c rf size 4 sent { g with n := advance g.n sent } sp ln

end

/-! ## the public operations -/

inductive Op
  | next
  | seek (p : Int)        -- ImageIterator.seek
  | seekBad               -- ImageIterator.seek with a non-integer: `raise arg_type_error("pos", pos)`
  | close                 -- ImageIterator.close
  | setSize (s : Nat)     -- the image's size is changed between two frames
  | imgSeek (k : Int)     -- BaseImage.seek (documented not to affect iteration)
  | render                -- `format(image, spec)` directly, at the image's current frame and size
  | pilSeek (k : Nat)     -- the caller moves the PIL image the instance was made from (`pil.seek(k)`)
deriving Repr

inductive Ans (α : Type)
  | frame (f : Option α)
  | stop
  | ok
  | err (e : String)
deriving Repr

def init {α} (seekPos size : Nat) : St α :=
  { gen := some { pc := .fresh, n := 0, rep := 0, frame := none, cache := [] },
    seekPos := seekPos, loopNo := none, size := size }

section
variable {α : Type} (c : Cfg) (rf : Nat → Nat → α)

def step (st : St α) : Op → St α × Ans α
  | .next =>
    match st.gen with
    | none => (st, .stop)                        -- AttributeError '_animator' → StopIteration
    | some g =>
      let o := resume c rf st.size none g st.seekPos st.loopNo
      match o.res with
      | .yielded f => ({ st with gen := some o.gen, seekPos := o.seekPos, loopNo := o.loopNo }, .frame f)
      | .returned => ({ st with gen := none, seekPos := o.seekPos, loopNo := o.loopNo }, .stop)   -- close()
      | .nofuel => ({ st with gen := none }, .err "nofuel")
  | .seek p =>
    if p < 0 ∨ p ≥ (c.nf : Int) then (st, .err "ValueError")
    else match st.gen with
    | none => (st, .err "TermImageError")       -- AttributeError
    | some g =>
      if g.pc = .fresh then (st, .err "TermImageError")   -- TypeError: can't send non-None to a just-started generator
      else
        let o := resume c rf st.size (some p.toNat) g st.seekPos st.loopNo
        match o.res with
        | .yielded _ => ({ st with gen := some o.gen, seekPos := o.seekPos, loopNo := o.loopNo }, .ok)
        | .returned => ({ st with gen := some o.gen, seekPos := o.seekPos, loopNo := o.loopNo }, .err "StopIteration")
        | .nofuel => (st, .err "nofuel")
  | .seekBad => (st, .err "TypeError")
  | .close => ({ st with gen := none }, .ok)
  | .setSize s => ({ st with size := s }, .ok)
  | .imgSeek k =>
    if k < 0 ∨ k ≥ (c.nf : Int) then (st, .err "ValueError")
    else ({ st with seekPos := k.toNat }, .ok)
  -- every render positions the PIL image itself (`img.seek(self._seek_position)`): where the caller, an
  -- earlier render or an iterator left it does not matter
  | .render => (st, .frame (some (rf st.seekPos st.size)))
  | .pilSeek _ => (st, .ok)

/-- one observation per operation: the answer, `image.tell()`, `iterator.loop_no` -/
structure Obs (α : Type) where
  ans : Ans α
  tell : Nat
  loopNo : Option Int

def run (st : St α) : List Op → List (Obs α)
  | [] => []
  | op :: ops =>
    let (st', a) := step c rf st op
    ⟨a, st'.seekPos, st'.loopNo⟩ :: run st' ops

def finalState (st : St α) : List Op → St α
  | [] => st
  | op :: ops => finalState (step c rf st op).1 ops

end

/-! ## the specification: no generator, no cache — "what the documentation says" -/

structure Sp where
  nxt : Nat               -- frame number the next `next()` yields (`nf` = a pass just ended)
  rep : Int               -- passes still to go (negative: for ever)
  started : Bool
  closed : Bool
  seekPos : Nat
  loopNo : Option Int
  size : Nat
deriving Repr

def specInit (seekPos size : Nat) : Sp :=
  { nxt := 0, rep := 0, started := false, closed := false, seekPos := seekPos, loopNo := none, size := size }

section
variable {α : Type} (c : Cfg) (rf : Nat → Nat → α)

def specStep (sp : Sp) : Op → Sp × Ans α
  | .next =>
    if sp.closed then (sp, .stop)
    else
      let sp := if sp.started then sp else { sp with started := true, rep := c.rep, loopNo := some c.rep, nxt := 0 }
      if sp.nxt < c.nf then
        ({ sp with seekPos := sp.nxt, nxt := sp.nxt + 1 }, .frame (some (rf sp.nxt sp.size)))
      else
        -- a pass has ended: the image goes back to frame 0, one pass less to go
        let rep' := if sp.rep > 0 then sp.rep - 1 else sp.rep
        let ln' := if sp.rep > 0 then some (sp.rep - 1) else sp.loopNo
        if rep' = 0 then ({ sp with closed := true, seekPos := 0, rep := rep', loopNo := ln', nxt := 0 }, .stop)
        else ({ sp with seekPos := 0, rep := rep', loopNo := ln', nxt := 1 }, .frame (some (rf 0 sp.size)))
  | .seek p =>
    if p < 0 ∨ p ≥ (c.nf : Int) then (sp, .err "ValueError")
    else if sp.closed then (sp, .err "TermImageError")
    else if !sp.started then (sp, .err "TermImageError")
    else ({ sp with nxt := p.toNat }, .ok)
  | .seekBad => (sp, .err "TypeError")
  | .close => ({ sp with closed := true }, .ok)
  | .setSize s => ({ sp with size := s }, .ok)
  | .imgSeek k =>
    if k < 0 ∨ k ≥ (c.nf : Int) then (sp, .err "ValueError")
    else ({ sp with seekPos := k.toNat }, .ok)
  | .render => (sp, .frame (some (rf sp.seekPos sp.size)))
  | .pilSeek _ => (sp, .ok)

def specRun (sp : Sp) : List Op → List (Obs α)
  | [] => []
  | op :: ops =>
    let (sp', a) := specStep c rf sp op
    ⟨a, sp'.seekPos, sp'.loopNo⟩ :: specRun sp' ops

end

end TIV.C11
