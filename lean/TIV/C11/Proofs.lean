import TIV.C11.IIterProofs
import TIV.C11.Res
/-! helper lemmas of C11 (iterator refinement: `IIterProofs`; effect programs: here) -/
namespace TIV.C11
open Prog

/-! ## projections of the world that a program leaves alone -/

/-- `π` is not affected by the bookkeeping `run` itself does -/
structure Stable {β : Type} (π : World → β) : Prop where
  emit : ∀ w e, π (w.emit e) = π w
  alloc : ∀ w r s, π (w.alloc r s).1 = π w
  closeH : ∀ w i, π (w.closeH i) = π w

/-- every action of the program satisfies `P` -/
def Prog.All (P : Act → Prop) (Q : Reg → Prop) : Prog → Prop
  | .done => True
  | .act a => P a
  | .seq p q => p.All P Q ∧ q.All P Q
  | .tryFinally b fin => b.All P Q ∧ fin.All P Q
  | .tryExcept b h _ => b.All P Q ∧ h.All P Q
  | .raise _ => True
  | .withNew _ _ t b => Q t ∧ b.All P Q
  | .nextGuard b => P .iterClose ∧ b.All P Q

/-- `p` leaves `π` as it found it, whatever the fault plan -/
def Neutral {β : Type} (π : World → β) (p : Prog) : Prop := ∀ f w, π (p.run f w).w = π w

theorem neutral_done {β} (π : World → β) : Neutral π .done := fun _ _ => rfl
theorem neutral_raise {β} (π : World → β) (e) : Neutral π (.raise e) := fun _ _ => rfl

theorem neutral_act {β} (π : World → β) (hs : Stable π) (a : Act) (ha : ∀ w, π (a.apply w) = π w) :
    Neutral π (.act a) := by
  intro f w
  simp only [Prog.run]
  split
  · exact hs.emit _ _
  · exact ha w
  · exact ha w

theorem neutral_seq {β} (π : World → β) (p q) (hp : Neutral π p) (hq : Neutral π q) : Neutral π (.seq p q) := by
  intro f w
  simp only [Prog.run]
  split
  · exact hp f w
  · rw [hq, hp]

theorem neutral_tryFinally {β} (π : World → β) (p q) (hp : Neutral π p) (hq : Neutral π q) :
    Neutral π (.tryFinally p q) := by
  intro f w
  simp only [Prog.run]
  rw [hq, hp]

theorem neutral_tryExcept {β} (π : World → β) (p q x) (hp : Neutral π p) (hq : Neutral π q) :
    Neutral π (.tryExcept p q x) := by
  intro f w
  simp only [Prog.run]
  split
  · exact hp f w
  · exact hp f w
  · show π (q.run _ _).w = π w
    rw [hq, hp]

theorem neutral_nextGuard {β} (π : World → β) (p) (hp : Neutral π p) (hc : ∀ w, π (Act.iterClose.apply w) = π w) :
    Neutral π (.nextGuard p) := by
  intro f w
  simp only [Prog.run]
  split
  · exact hp f w
  · exact hp f w
  · exact hp f w
  · show π (Act.iterClose.apply _) = π w
    rw [hc, hp]
  · show π (Act.iterClose.apply _) = π w
    rw [hc, hp]

theorem neutral_withNew {β} (π : World → β) (hs : Stable π) (c r t b)
    (hset : ∀ w v, π (w.setReg t v) = π w) (hb : Neutral π b) :
    Neutral π (.withNew c r t b) := by
  intro f w
  simp only [Prog.run]
  split
  · exact hs.emit _ _
  · rw [hs.closeH, hb _ _, hs.emit, hset]
    exact hs.alloc w r 0

theorem neutral_block {β} (π : World → β) (ps : List Prog) (h : ∀ p ∈ ps, Neutral π p) :
    Neutral π (Prog.block ps) := by
  induction ps with
  | nil => exact neutral_done π
  | cons p ps ih =>
    cases ps with
    | nil => simpa [Prog.block] using h p (by simp)
    | cons q qs =>
      simp only [Prog.block]
      exact neutral_seq π _ _ (h p (by simp)) (ih (fun x hx => h x (by simp [hx])))

/-- a program all of whose actions leave `π` alone leaves `π` alone -/
theorem neutral_of_all {β} (π : World → β) (hs : Stable π) (P : Act → Prop) (Q : Reg → Prop)
    (hP : ∀ a, P a → ∀ w, π (a.apply w) = π w) (hQ : ∀ t, Q t → ∀ w v, π (w.setReg t v) = π w)
    (p : Prog) (h : p.All P Q) : Neutral π p := by
  induction p with
  | done => exact neutral_done π
  | act a => exact neutral_act π hs a (hP a h)
  | seq p q ihp ihq => exact neutral_seq π p q (ihp h.1) (ihq h.2)
  | tryFinally b fin ihb ihf => exact neutral_tryFinally π b fin (ihb h.1) (ihf h.2)
  | tryExcept b hd x ihb ihh => exact neutral_tryExcept π b hd x (ihb h.1) (ihh h.2)
  | raise e => exact neutral_raise π e
  | withNew c r t b ih => exact neutral_withNew π hs c r t b (hQ t h.1) (ih h.2)
  | nextGuard b ih => exact neutral_nextGuard π b (ih h.2) (hP _ h.1)

/-- an action that is not a Pillow call always runs and never raises -/
theorem run_act_nocall (a : Act) (h : a.call? = none) (f : Option Nat) (w : World) :
    (Prog.act a).run f w = ⟨a.apply w, f, none⟩ := by
  simp only [Prog.run, h]

/-! ### the size setting -/
def πSize (w : World) : SizeSetting × List SizeSetting := (w.size, w.savedSize)

theorem stable_size : Stable πSize := ⟨fun _ _ => rfl, fun _ _ _ => rfl, fun _ _ => rfl⟩

/-- actions other than the three `_renderer` uses do not touch the size setting -/
def Act.noSize : Act → Prop
  | .saveSize | .setSizeTemp | .restoreSize => False
  | _ => True

theorem πSize_closeImageH (w : World) (h : Option Nat) : πSize (closeImageH w h) = πSize w := by
  unfold closeImageH
  split
  · rfl
  · split <;> rfl

theorem πSize_noteUse (w : World) (c : Call) (h : Option Nat) : πSize (noteUse w c h) = πSize w := by
  unfold noteUse
  split
  · split <;> rfl
  · rfl

theorem noSize_preserves (a : Act) (h : a.noSize) (w : World) : πSize (a.apply w) = πSize w := by
  cases a <;> simp only [Act.noSize] at h <;> simp only [Act.apply]
  case create => rfl
  case derive => exact πSize_noteUse w _ _
  case pil => exact πSize_noteUse w _ _
  case useSource => rfl
  case mov => rfl
  case clear => rfl
  case closeImage => exact πSize_closeImageH _ _
  case closeUnless => split; rfl; exact πSize_closeImageH _ _
  case rawOpen => rfl
  case rawClose => split; (split <;> rfl); rfl
  case saveSeek => rfl
  case setSeek => rfl
  case restoreSeek => rfl
  case hold => rfl
  case iterClose =>
    split
    · rfl
    · show πSize (closeImageH _ _) = _; rw [πSize_closeImageH]; rfl
  case imageClose => split <;> rfl
  case mkTemp => rfl
  case iterDrop =>
    split
    · rfl
    · show πSize (closeImageH _ _) = _; rw [πSize_closeImageH]; rfl

theorem renderer_run (sizeOk : Bool) (body : Prog) (f : Option Nat) (w : World) :
    ((renderer sizeOk body).run f w).w =
      Act.restoreSize.apply ((Prog.seq (if sizeOk then Prog.done else Prog.raise .sizeError) body).run f
        (Act.setSizeTemp.apply (Act.saveSize.apply w))).w := by
  simp only [renderer, Prog.block, Prog.run, Act.call?]

theorem renderer_neutral_size (sizeOk : Bool) (body : Prog) (hb : Neutral πSize body) :
    Neutral πSize (renderer sizeOk body) := by
  intro f w
  have hX : Neutral πSize (if sizeOk then Prog.done else Prog.raise .sizeError) := by
    split
    · exact neutral_done _
    · exact neutral_raise _ _
  have hinner : Neutral πSize (Prog.seq (if sizeOk then Prog.done else Prog.raise .sizeError) body) :=
    neutral_seq _ _ _ hX hb
  rw [renderer_run]
  have h2 := hinner f (Act.setSizeTemp.apply (Act.saveSize.apply w))
  generalize (Prog.seq (if sizeOk then Prog.done else Prog.raise .sizeError) body).run f
    (Act.setSizeTemp.apply (Act.saveSize.apply w)) = o at h2 ⊢
  simp only [πSize, Act.apply, Prod.mk.injEq] at h2 ⊢
  obtain ⟨hsz, hsv⟩ := h2
  cases hw : w.size with
  | fixed j => simp only [hw] at hsz hsv; simp [hsv, hsz]
  | dynamic j => simp only [hw] at hsz hsv; simp [hsv]

/-! ### syntactic checks that compute -/

def Prog.allB (P : Act → Bool) (Q : Reg → Bool) : Prog → Bool
  | .done => true
  | .act a => P a
  | .seq p q => p.allB P Q && q.allB P Q
  | .tryFinally b fin => b.allB P Q && fin.allB P Q
  | .tryExcept b h _ => b.allB P Q && h.allB P Q
  | .raise _ => true
  | .withNew _ _ t b => Q t && b.allB P Q
  | .nextGuard b => P .iterClose && b.allB P Q

theorem all_of_allB (P : Act → Bool) (Q : Reg → Bool) (p : Prog) (h : p.allB P Q = true) :
    p.All (fun a => P a = true) (fun t => Q t = true) := by
  induction p with
  | done => trivial
  | act a => exact h
  | seq p q ihp ihq => simp only [Prog.allB, Bool.and_eq_true] at h; exact ⟨ihp h.1, ihq h.2⟩
  | tryFinally b fin ihb ihf => simp only [Prog.allB, Bool.and_eq_true] at h; exact ⟨ihb h.1, ihf h.2⟩
  | tryExcept b hd x ihb ihh => simp only [Prog.allB, Bool.and_eq_true] at h; exact ⟨ihb h.1, ihh h.2⟩
  | raise e => trivial
  | withNew c r t b ih => simp only [Prog.allB, Bool.and_eq_true] at h; exact ⟨h.1, ih h.2⟩
  | nextGuard b ih => simp only [Prog.allB, Bool.and_eq_true] at h; exact ⟨h.1, ih h.2⟩

theorem allB_mono (P P' : Act → Bool) (Q Q' : Reg → Bool) (hP : ∀ a, P a = true → P' a = true)
    (hQ : ∀ t, Q t = true → Q' t = true) (p : Prog) (h : p.allB P Q = true) : p.allB P' Q' = true := by
  induction p with
  | done => rfl
  | act a => exact hP a h
  | seq p q ihp ihq => simp only [Prog.allB, Bool.and_eq_true] at h ⊢; exact ⟨ihp h.1, ihq h.2⟩
  | tryFinally b fin ihb ihf => simp only [Prog.allB, Bool.and_eq_true] at h ⊢; exact ⟨ihb h.1, ihf h.2⟩
  | tryExcept b hd x ihb ihh => simp only [Prog.allB, Bool.and_eq_true] at h ⊢; exact ⟨ihb h.1, ihh h.2⟩
  | raise e => rfl
  | withNew c r t b ih => simp only [Prog.allB, Bool.and_eq_true] at h ⊢; exact ⟨hQ t h.1, ih h.2⟩
  | nextGuard b ih => simp only [Prog.allB, Bool.and_eq_true] at h ⊢; exact ⟨hP _ h.1, ih h.2⟩

theorem allB_block (P : Act → Bool) (Q : Reg → Bool) (ps : List Prog) (h : ∀ p ∈ ps, p.allB P Q = true) :
    (Prog.block ps).allB P Q = true := by
  induction ps with
  | nil => rfl
  | cons p ps ih =>
    cases ps with
    | nil => simpa [Prog.block] using h p (by simp)
    | cons q qs =>
      simp only [Prog.block, Prog.allB, Bool.and_eq_true]
      exact ⟨h p (by simp), ih (fun x hx => h x (by simp [hx]))⟩

/-- the actions of the render code proper: Pillow calls, closes, local-variable moves — none of
    which binds the generator's variable (`Reg.gen`) -/
def Act.genFreeB : Act → Bool
  | .create _ _ to _ => to != .gen
  | .derive _ _ to => to != .gen
  | .pil _ _ => true
  | .useSource to => to != .gen
  | .mov dst _ => dst != .gen
  | .clear r => r != .gen
  | .closeImage _ => true
  | .closeUnless _ _ => true
  | .rawOpen to => to != .gen
  | .rawClose _ => true
  | _ => false

def Reg.notGen (t : Reg) : Bool := t != .gen

theorem linesLoop_genFree (n : Nat) : (linesLoop n).allB Act.genFreeB Reg.notGen = true := by
  induction n with
  | zero => rfl
  | succ n ih => simp only [linesLoop, Prog.allB, ih]; rfl

theorem renderImage_genFree (v : Variant) (p : RP) : (renderImage v p).allB Act.genFreeB Reg.notGen = true := by
  obtain ⟨a, b, c, d, e, g⟩ := p
  cases v with
  | itermLines rows =>
    have h := linesLoop_genFree rows
    cases a <;> cases b <;> cases c <;> cases d <;> cases e <;> cases g <;>
      simp [renderImage, rawPixelsCore, Prog.block, Prog.allB, h, setFrameR, getRenderData, convertResize, convertStep,
        Act.genFreeB, Reg.notGen]
  | _ => cases a <;> cases b <;> cases c <;> cases d <;> cases e <;> cases g <;> rfl

/-! ### what an iterator holds -/

/-- nothing is referenced through the iterator any more -/
def Released (w : World) : Prop := w.held = none ∧ w.reg .gen = none

theorem closeImageH_regs (w : World) (o : Option Nat) : (closeImageH w o).regs = w.regs := by
  unfold closeImageH
  split
  · rfl
  · split <;> rfl

theorem released_iterClose (w : World) : Released (Act.iterClose.apply w) := by
  simp only [Act.apply]
  split
  · rename_i h; exact ⟨h, by simp [World.reg, World.setReg]⟩
  · refine ⟨rfl, ?_⟩
    simp only [World.reg, closeImageH_regs]
    simp [World.setReg]

theorem released_iterDrop (w : World) : Released (Act.iterDrop.apply w) := by
  simp only [Act.apply]
  split
  · rename_i h; exact ⟨h, by simp [World.reg, World.setReg]⟩
  · refine ⟨rfl, ?_⟩
    simp only [World.reg, closeImageH_regs]
    simp [World.setReg]

/-- the two ways out of `__next__` that run no clean-up: a `BaseException` passes through, and an
    AttributeError whose message ends in `'_animator'` is taken for "already closed" -/
def Exc.bypasses (e : Exc) : Bool := e == .keyboardInterrupt || e == .stopIteration

/-- THE HANDLER TABLE of `__next__`: whatever `next(self._animator)` raises other than a
    `BaseException` or the `'_animator'` AttributeError comes out as itself (a StopIteration from
    inside the generator as RuntimeError) — never as exhaustion — after `self.close()` has run -/
theorem nextGuard_table (body : Prog) (f : Option Nat) (w : World) (e0 : Exc)
    (h0 : (body.run f w).exc = some e0) (hk : e0 ≠ .keyboardInterrupt) (ha : e0 ≠ .attrAnimator) :
    ((Prog.nextGuard body).run f w).exc = some (if e0 = .stopIter then .runtimeError else e0) ∧
    Released ((Prog.nextGuard body).run f w).w := by
  simp only [Prog.run, h0]
  cases e0 <;> first
    | exact absurd rfl hk
    | exact absurd rfl ha
    | exact ⟨rfl, released_iterClose _⟩

theorem nextGuard_failure_releases (body : Prog) (f : Option Nat) (w : World) (e : Exc)
    (h : ((Prog.nextGuard body).run f w).exc = some e) (hb : e.bypasses = false) :
    Released ((Prog.nextGuard body).run f w).w := by
  simp only [Prog.run] at h ⊢
  generalize body.run f w = o at h ⊢
  obtain ⟨ow, of, oe⟩ := o
  cases oe with
  | none => simp at h
  | some x =>
    cases x <;> simp only at h ⊢ <;> first
      | exact released_iterClose _
      | (simp at h; subst h; simp [Exc.bypasses] at hb)

/-- `__next__`: whenever it raises anything but the two bypassing outcomes, the iterator has let go -/
theorem iterNext_failure_releases (first : Bool) (body : Prog) (f : Option Nat) (w : World) (e : Exc)
    (h : ((iterNext first body).run f w).exc = some e) (hb : e.bypasses = false) :
    Released ((iterNext first body).run f w).w :=
  nextGuard_failure_releases _ f w e h hb

theorem iterFrames_failure_releases (v : Variant) (frames : List RP) :
    ∀ (n : Nat) (first : Bool) (f : Option Nat) (w : World) (e : Exc),
      ((iterFrames v n first frames).run f w).exc = some e → e.bypasses = false →
        Released ((iterFrames v n first frames).run f w).w := by
  induction frames with
  | nil => intro n first f w e h; simp [iterFrames, Prog.run] at h
  | cons p ps ih =>
    intro n first f w e h hb
    simp only [iterFrames, Prog.run] at h ⊢
    split
    · rename_i e' he
      simp only [he] at h
      simp at h; subst h
      exact iterNext_failure_releases first _ f w e' he hb
    · rename_i he
      simp only [he] at h
      exact ih _ _ _ _ e h hb

/-- the way an iteration ends -/
def endingProg (src : Src) (nFrames : Nat) (noFrames : Bool) : Ending → Prog
  | .exhaust => Prog.block [iterNext noFrames (eofBody src nFrames), .act .iterClose]
  | .close => .act .iterClose
  | .drop => .act .iterDrop
  | .imgCloseThenClose => Prog.block [.act .imageClose, .act .iterClose]

theorem ending_releases (src : Src) (n : Nat) (b : Bool) (e : Ending) (f : Option Nat) (w : World)
    (hb : ∀ x, ((endingProg src n b e).run f w).exc = some x → x.bypasses = false) :
    Released ((endingProg src n b e).run f w).w := by
  cases e with
  | exhaust =>
    simp only [endingProg, Prog.block, Prog.run] at hb ⊢
    split
    · rename_i e he
      simp only [he] at hb
      exact iterNext_failure_releases b _ f w e he (hb e rfl)
    · simp only [Act.call?]; exact released_iterClose _
  | close => simp only [endingProg, Prog.run, Act.call?]; exact released_iterClose _
  | drop => simp only [endingProg, Prog.run, Act.call?]; exact released_iterDrop _
  | imgCloseThenClose =>
    simp only [endingProg, Prog.block, Prog.run, Act.call?]
    exact released_iterClose _

theorem iterOp_eq (src : Src) (needN nProp : Bool) (v : Variant) (frames : List RP) (e : Ending) :
    iterOp src needN nProp v frames e =
      .seq (iterNew src needN nProp) (.seq (iterFrames v 0 true frames) (endingProg src frames.length frames.isEmpty e)) := by
  cases e <;> rfl

/-! ### seek position -/

def Act.noSaveSeekB : Act → Bool
  | .saveSeek => false
  | _ => true

def Act.noSeekB : Act → Bool
  | .saveSeek | .setSeek _ | .restoreSeek => false
  | _ => true

theorem savedSeek_closeImageH (w : World) (o : Option Nat) : (closeImageH w o).savedSeek = w.savedSeek := by
  unfold closeImageH; split; rfl; split <;> rfl
theorem seekPos_closeImageH (w : World) (o : Option Nat) : (closeImageH w o).seekPos = w.seekPos := by
  unfold closeImageH; split; rfl; split <;> rfl
theorem savedSeek_noteUse (w : World) (c : Call) (o : Option Nat) : (noteUse w c o).savedSeek = w.savedSeek := by
  unfold noteUse; split; (split <;> rfl); rfl
theorem seekPos_noteUse (w : World) (c : Call) (o : Option Nat) : (noteUse w c o).seekPos = w.seekPos := by
  unfold noteUse; split; (split <;> rfl); rfl

theorem savedSeek_preserved (a : Act) (h : a.noSaveSeekB = true) (w : World) :
    (a.apply w).savedSeek = w.savedSeek := by
  cases a <;> simp only [Act.noSaveSeekB] at h <;> (try simp only [Act.apply]) <;>
    first
    | rfl
    | exact savedSeek_noteUse _ _ _
    | exact savedSeek_closeImageH _ _
    | (split <;> first
        | rfl
        | exact savedSeek_closeImageH _ _
        | (split <;> rfl)
        | (show (closeImageH _ _).savedSeek = _; rw [savedSeek_closeImageH]; rfl))
    | exact absurd h (by simp)

theorem seekPos_preserved (a : Act) (h : a.noSeekB = true) (w : World) :
    (a.apply w).seekPos = w.seekPos := by
  cases a <;> simp only [Act.noSeekB] at h <;> (try simp only [Act.apply]) <;>
    first
    | rfl
    | exact seekPos_noteUse _ _ _
    | exact seekPos_closeImageH _ _
    | (split <;> first
        | rfl
        | exact seekPos_closeImageH _ _
        | (split <;> rfl)
        | (show (closeImageH _ _).seekPos = _; rw [seekPos_closeImageH]; rfl))
    | exact absurd h (by simp)

def πSeek (w : World) : Nat × Nat := (w.seekPos, w.savedSeek)
theorem stable_seek : Stable πSeek := ⟨fun _ _ => rfl, fun _ _ _ => rfl, fun _ _ => rfl⟩
theorem stable_savedSeek : Stable (fun w => w.savedSeek) := ⟨fun _ _ => rfl, fun _ _ _ => rfl, fun _ _ => rfl⟩

theorem noSeek_noSave (a : Act) (h : a.noSeekB = true) : a.noSaveSeekB = true := by
  cases a <;> simp_all [Act.noSeekB, Act.noSaveSeekB]

theorem neutral_seek_of_allB (p : Prog) (h : p.allB Act.noSeekB (fun _ => true) = true) : Neutral πSeek p :=
  neutral_of_all πSeek stable_seek _ _
    (fun a ha w => by
      simp only [πSeek]; rw [seekPos_preserved a ha, savedSeek_preserved a (noSeek_noSave a ha)])
    (fun _ _ _ _ => rfl) p (all_of_allB _ _ p h)

theorem neutral_savedSeek_of_allB (p : Prog) (h : p.allB Act.noSaveSeekB (fun _ => true) = true) :
    Neutral (fun w => w.savedSeek) p :=
  neutral_of_all _ stable_savedSeek _ _ (fun a ha w => savedSeek_preserved a ha w) (fun _ _ _ _ => rfl) p
    (all_of_allB _ _ p h)

theorem genFree_noSeek (a : Act) (h : a.genFreeB = true) : a.noSeekB = true := by
  cases a <;> simp_all [Act.genFreeB, Act.noSeekB]

/-! ### what the iterator references: `_img` and the generator's `img` -/

def πG (w : World) : Option Nat × Option Nat := (w.held, w.regs .gen)
theorem stable_G : Stable πG := ⟨fun _ _ => rfl, fun _ _ _ => rfl, fun _ _ => rfl⟩

theorem πG_setReg (t : Reg) (h : t.notGen = true) (w : World) (v : Option Nat) : πG (w.setReg t v) = πG w := by
  have hne : ¬ Reg.gen = t := by
    intro e; subst e; simp [Reg.notGen] at h
  simp [πG, World.setReg, hne]

theorem πG_closeImageH (w : World) (o : Option Nat) : πG (closeImageH w o) = πG w := by
  unfold closeImageH; split; rfl; split <;> rfl
theorem πG_noteUse (w : World) (c : Call) (o : Option Nat) : πG (noteUse w c o) = πG w := by
  unfold noteUse; split; (split <;> rfl); rfl

theorem genFree_preserves (a : Act) (h : a.genFreeB = true) (w : World) : πG (a.apply w) = πG w := by
  cases a <;> simp only [Act.genFreeB] at h <;> simp only [Act.apply]
  case create c role to site =>
    show πG (World.emit (World.setReg _ to _) _) = _
    rw [stable_G.emit, πG_setReg to h]; exact stable_G.alloc w _ _
  case derive c frm to =>
    show πG (World.emit (World.setReg _ to _) _) = _
    rw [stable_G.emit, πG_setReg to h]
    exact (stable_G.alloc _ _ _).trans (πG_noteUse w _ _)
  case pil => exact πG_noteUse w _ _
  case useSource to => exact πG_setReg to h _ _
  case mov dst src => exact πG_setReg dst h _ _
  case clear r => exact πG_setReg r h _ _
  case closeImage => exact πG_closeImageH _ _
  case closeUnless => split; rfl; exact πG_closeImageH _ _
  case rawOpen to =>
    show πG (World.setReg _ to _) = _
    rw [πG_setReg to h]; exact stable_G.alloc w _ _
  case rawClose => split; (split <;> rfl); rfl
  all_goals exact absurd h (by simp)

theorem neutral_G_of_genFree (p : Prog) (h : p.allB Act.genFreeB Reg.notGen = true) : Neutral πG p :=
  neutral_of_all πG stable_G _ _ (fun a ha w => genFree_preserves a ha w) (fun t ht w v => πG_setReg t ht w v) p
    (all_of_allB _ _ p h)

theorem released_of_πG (w w' : World) (h : πG w' = πG w) (hr : Released w) : Released w' := by
  simp only [πG, Prod.mk.injEq] at h
  exact ⟨h.1.trans hr.1, by simp only [World.reg] at hr ⊢; exact h.2.trans hr.2⟩

/-- the complete outcome of `_renderer` -/
theorem renderer_outcome (sizeOk : Bool) (body : Prog) (f : Option Nat) (w : World) :
    (renderer sizeOk body).run f w =
      ⟨Act.restoreSize.apply ((Prog.seq (if sizeOk then Prog.done else Prog.raise .sizeError) body).run f
          (Act.setSizeTemp.apply (Act.saveSize.apply w))).w,
        ((Prog.seq (if sizeOk then Prog.done else Prog.raise .sizeError) body).run f
          (Act.setSizeTemp.apply (Act.saveSize.apply w))).f,
        ((Prog.seq (if sizeOk then Prog.done else Prog.raise .sizeError) body).run f
          (Act.setSizeTemp.apply (Act.saveSize.apply w))).exc⟩ := by
  simp only [renderer, Prog.block, Prog.run, Act.call?]

theorem πG_sizeActs (w : World) :
    πG (Act.saveSize.apply w) = πG w ∧ πG (Act.setSizeTemp.apply w) = πG w ∧ πG (Act.restoreSize.apply w) = πG w := by
  refine ⟨rfl, ?_, ?_⟩ <;> simp only [Act.apply] <;> split <;> rfl

theorem getImage_genFree (src : Src) (closed : Bool) (to : Reg) (site : Nat) (h : to.notGen = true) :
    (getImage src closed to site).allB Act.genFreeB Reg.notGen = true := by
  cases src <;> cases closed <;> simp [getImage, Prog.allB, Act.genFreeB] <;>
    (intro e; subst e; simp [Reg.notGen] at h)

theorem nFramesOp_genFree (src : Src) (closed isProp : Bool) :
    (nFramesOp src closed isProp).allB Act.genFreeB Reg.notGen = true := by
  cases src <;> cases closed <;> cases isProp <;> rfl

/-- `ImageIterator.__init__`: `_img` is never set by it, and if it fails nothing is bound to
    the generator either -/
theorem iterNew_binds (src : Src) (needN nProp : Bool) (f : Option Nat) (w : World) (h : Released w) :
    ((iterNew src needN nProp).run f w).w.held = none ∧
    (((iterNew src needN nProp).run f w).exc ≠ none → Released ((iterNew src needN nProp).run f w).w) := by
  have hN : Neutral πG (if needN then nFramesOp src false nProp else Prog.done) := by
    split
    · exact neutral_G_of_genFree _ (nFramesOp_genFree _ _ _)
    · exact neutral_done _
  have hN' := hN f w
  simp only [iterNew, Prog.run]
  generalize (if needN then nFramesOp src false nProp else Prog.done).run f w = oN at hN' ⊢
  have hRN : Released oN.w := released_of_πG w oN.w hN' h
  split
  · exact ⟨hRN.1, fun _ => hRN⟩
  · rw [renderer_outcome]
    simp only [if_true, Prog.run]
    -- the world just before `self._get_image()`
    have hR1 : Released (Act.setSizeTemp.apply (Act.saveSize.apply oN.w)) :=
      released_of_πG _ _ (by rw [(πG_sizeActs _).2.1, (πG_sizeActs _).1]) hRN
    generalize Act.setSizeTemp.apply (Act.saveSize.apply oN.w) = w1 at hR1 ⊢
    have hrest : ∀ w2 : World, Released w2 → Released (Act.restoreSize.apply w2) :=
      fun w2 h2 => released_of_πG _ _ (πG_sizeActs w2).2.2 h2
    have hheld : ∀ w2 : World, (Act.restoreSize.apply w2).held = w2.held := by
      intro w2; simp only [Act.apply]; split <;> rfl
    cases src with
    | pil =>
      simp only [getImage, Bool.false_eq_true, if_false, Prog.run, Act.call?]
      refine ⟨?_, fun hne => absurd rfl hne⟩
      rw [hheld]; exact hR1.1
    | file =>
      simp only [getImage, Bool.false_eq_true, if_false, Prog.run, Act.call?]
      rcases oN.f with _ | _ | k
      · refine ⟨?_, fun hne => absurd rfl hne⟩
        rw [hheld]; exact hR1.1
      · exact ⟨by rw [hheld]; exact hR1.1, fun _ => hrest _ hR1⟩
      · refine ⟨?_, fun hne => absurd rfl hne⟩
        rw [hheld]; exact hR1.1

/-! ### `_display_animated` -/

/-- the frame loop of `_display_animated` (what runs inside its `try`) -/
def drawT (src : Src) (v : Variant) (frames : List RP) : Prog :=
  Prog.block [.act (.hold .gen), plainFrames v 0 frames, eofBody src frames.length]

/-- its `finally` -/
def drawFin : Prog := Prog.block [.act .iterClose, .act (.closeImage .img0), .act .restoreSeek]

/-- what `_renderer` runs for an animated `draw()` -/
def drawBody (src : Src) (needN nProp : Bool) (v : Variant) (frames : List RP) : Prog :=
  .seq (getImage src false .img0) (.seq (.act .saveSeek) (.seq (iterNew src needN nProp)
    (.seq (.act (.mov .gen .img0)) (.tryFinally (.tryExcept (drawT src v frames) .done none) drawFin))))

theorem drawAnimOp_eq (src : Src) (sizeOk needN nProp : Bool) (v : Variant) (frames : List RP) :
    drawAnimOp src sizeOk needN nProp v frames = renderer sizeOk (drawBody src needN nProp v frames) := rfl

theorem plainFrames_noSaveSeek (v : Variant) (frames : List RP) :
    ∀ n, (plainFrames v n frames).allB Act.noSaveSeekB (fun _ => true) = true := by
  induction frames with
  | nil => intro n; rfl
  | cons p ps ih =>
    intro n
    simp only [plainFrames, Prog.allB, ih, Bool.and_true, frameBody]
    apply allB_block
    intro q hq
    simp only [List.mem_cons, List.not_mem_nil, or_false] at hq
    rcases hq with rfl | rfl | rfl
    · rfl
    · rfl
    · exact allB_mono _ _ _ _ (fun a ha => noSeek_noSave a (genFree_noSeek a ha)) (fun _ _ => rfl) _
        (renderImage_genFree v _)

theorem drawT_noSaveSeek (src : Src) (v : Variant) (frames : List RP) :
    (Prog.tryExcept (drawT src v frames) .done none).allB Act.noSaveSeekB (fun _ => true) = true := by
  simp only [Prog.allB, Bool.and_true, drawT]
  apply allB_block
  intro q hq
  simp only [List.mem_cons, List.not_mem_nil, or_false] at hq
  rcases hq with rfl | rfl | rfl
  · rfl
  · exact plainFrames_noSaveSeek v frames 0
  · cases src <;> rfl

theorem iterNew_noSeek (src : Src) (needN nProp : Bool) :
    (iterNew src needN nProp).allB Act.noSeekB (fun _ => true) = true := by
  cases src <;> cases needN <;> cases nProp <;> rfl

/-- the `finally` of `_display_animated` always runs to its end and restores the seek position -/
theorem drawTail_seek (T : Prog) (hT : Neutral (fun w => w.savedSeek) T) (f : Option Nat) (w : World) :
    ((Prog.tryFinally T drawFin).run f w).w.seekPos = w.savedSeek := by
  have hic : ∀ w : World, (Act.iterClose.apply w).savedSeek = w.savedSeek :=
    fun w => savedSeek_preserved .iterClose rfl w
  simp only [drawFin, Prog.block, Prog.run, Act.call?]
  show (Act.restoreSeek.apply _).seekPos = _
  simp only [Act.apply]
  show (closeImageH (Act.iterClose.apply (T.run f w).w) _).savedSeek = _
  rw [savedSeek_closeImageH, hic]
  exact hT f w

/-- … and leaves the iterator holding nothing -/
theorem drawTail_released (T : Prog) (f : Option Nat) (w : World) :
    Released ((Prog.tryFinally T drawFin).run f w).w := by
  simp only [drawFin, Prog.block, Prog.run, Act.call?]
  have h := released_iterClose (T.run f w).w
  refine released_of_πG _ _ ?_ h
  show πG (Act.restoreSeek.apply (Act.apply _ (Act.closeImage .img0))) = _
  simp only [Act.apply]
  exact πG_closeImageH _ _

theorem drawBody_seek (src : Src) (needN nProp : Bool) (v : Variant) (frames : List RP) (f : Option Nat) (w : World) :
    ((drawBody src needN nProp v frames).run f w).w.seekPos = w.seekPos := by
  have hG : Neutral πSeek (getImage src false .img0) := neutral_seek_of_allB _
    (allB_mono _ _ _ _ genFree_noSeek (fun _ _ => rfl) _ (getImage_genFree src false .img0 0 rfl))
  have hN : Neutral πSeek (iterNew src needN nProp) := neutral_seek_of_allB _ (iterNew_noSeek _ _ _)
  have hT := neutral_savedSeek_of_allB _ (drawT_noSaveSeek src v frames)
  simp only [drawBody, Prog.run]
  have h1 := hG f w
  generalize (getImage src false .img0).run f w = o1 at h1 ⊢
  simp only [πSeek, Prod.mk.injEq] at h1
  split
  · exact h1.1
  · simp only [Act.call?]
    have h2 := hN o1.f (Act.saveSeek.apply o1.w)
    generalize (iterNew src needN nProp).run o1.f (Act.saveSeek.apply o1.w) = o2 at h2 ⊢
    simp only [πSeek, Prod.mk.injEq, Act.apply] at h2
    split
    · rw [h2.1]; exact h1.1
    · have := drawTail_seek (.tryExcept (drawT src v frames) .done none) hT o2.f (Act.apply o2.w (.mov .gen .img0))
      simp only [Prog.run] at this
      rw [this]
      show o2.w.savedSeek = _
      rw [h2.2]; exact h1.1

theorem drawBody_released (src : Src) (needN nProp : Bool) (v : Variant) (frames : List RP) (f : Option Nat)
    (w : World) (h : Released w) : Released ((drawBody src needN nProp v frames).run f w).w := by
  have hG : Neutral πG (getImage src false .img0) := neutral_G_of_genFree _ (getImage_genFree src false .img0 0 rfl)
  simp only [drawBody, Prog.run]
  have h1 := hG f w
  generalize (getImage src false .img0).run f w = o1 at h1 ⊢
  have hR1 : Released o1.w := released_of_πG _ _ h1 h
  split
  · exact hR1
  · simp only [Act.call?]
    have hR1' : Released (Act.saveSeek.apply o1.w) := released_of_πG _ _ rfl hR1
    have h2 := iterNew_binds src needN nProp o1.f _ hR1'
    generalize (iterNew src needN nProp).run o1.f (Act.saveSeek.apply o1.w) = o2 at h2 ⊢
    split
    · rename_i e he
      exact h2.2 (by rw [he]; simp)
    · have := drawTail_released (.tryExcept (drawT src v frames) .done none) o2.f (Act.apply o2.w (.mov .gen .img0))
      simp only [Prog.run] at this
      exact this

/-! ### explicit closing -/

/-- every image or file the library opened from a path has been closed explicitly -/
def World.openedAllClosed (w : World) : Bool :=
  w.handles.all (fun h => (h.role != .opened && h.role != .raw) || h.closed)

/-- the world an operation starts in -/
def initW (src : Src) : World :=
  match src with
  | .file => {}
  | .pil => { handles := [{ role := .source }], source := some 0 }

def Variant.isLines : Variant → Bool
  | .itermLines _ => true
  | _ => false

theorem run_seq_assoc (p q r : Prog) (f : Option Nat) (w : World) :
    (Prog.seq (Prog.seq p q) r).run f w = (Prog.seq p (Prog.seq q r)).run f w := by
  simp only [Prog.run]
  cases h : (p.run f w).exc with
  | some e => simp [h]
  | none => simp [h]

theorem all_modify {β : Type} (P : β → Bool) (g : β → β) (hg : ∀ x, P x = true → P (g x) = true) :
    ∀ (l : List β) (i : Nat), l.all P = true → (l.modify i g).all P = true := by
  intro l
  induction l with
  | nil => intro i h; simpa using h
  | cons x xs ih =>
    intro i h
    simp only [List.all_cons, Bool.and_eq_true] at h
    cases i with
    | zero => simp only [List.modify_cons, if_true, List.all_cons, Bool.and_eq_true]; exact ⟨hg x h.1, h.2⟩
    | succ i =>
      simp only [List.modify_cons, Nat.succ_ne_zero, if_false, List.all_cons, Bool.and_eq_true]
      exact ⟨h.1, by simpa using ih i h.2⟩

theorem oac_closeH (w : World) (i : Nat) (h : w.openedAllClosed = true) : (w.closeH i).openedAllClosed = true := by
  simp only [World.openedAllClosed, World.closeH] at h ⊢
  exact all_modify _ _ (fun x hx => by simp) _ _ h

theorem oac_handles (w w' : World) (h : w'.handles = w.handles) : w'.openedAllClosed = w.openedAllClosed := by
  simp only [World.openedAllClosed, h]

theorem oac_noteUse (w : World) (c : Call) (o : Option Nat) : (noteUse w c o).openedAllClosed = w.openedAllClosed := by
  unfold noteUse; split; (split <;> rfl); rfl

/-- the LINES loop (`with PIL.Image.frombytes(…) as img: img.save(…)`, once per line) creates and
    closes only memory images: whatever fails, files that were closed stay closed and none is opened -/
theorem linesLoop_oac (n : Nat) : ∀ (f : Option Nat) (w : World), w.openedAllClosed = true →
    ((linesLoop n).run f w).w.openedAllClosed = true := by
  induction n with
  | zero => intro f w h; exact h
  | succ n ih =>
    intro f w h
    simp only [linesLoop, Prog.run]
    have hbody : ∀ (f' : Option Nat),
        ((Prog.withNew .frombytes .derived .img (.act (.pil .save .img))).run f' w).w.openedAllClosed = true := by
      intro f'
      simp only [Prog.run]
      split
      · exact h
      · apply oac_closeH
        have hw1 : ((((w.alloc .derived).1.setReg .img (some (w.alloc .derived).2)).emit
            (.call .frombytes none (some (w.alloc .derived).2)))).openedAllClosed = true := by
          simp only [World.openedAllClosed, World.emit, World.setReg, World.alloc, List.all_append] at h ⊢
          simp [h]
        generalize (((w.alloc .derived).1.setReg .img (some (w.alloc .derived).2)).emit
            (.call .frombytes none (some (w.alloc .derived).2))) = w1 at hw1 ⊢
        simp only [Act.call?]
        split
        · exact hw1
        · simp only [Act.apply]
          exact (oac_handles (noteUse w1 _ _) _ rfl).trans ((oac_noteUse w1 _ _).trans hw1)
        · simp only [Act.apply]
          exact (oac_handles (noteUse w1 _ _) _ rfl).trans ((oac_noteUse w1 _ _).trans hw1)
    split
    · exact hbody f
    · exact ih _ _ (hbody f)

/-- EXPLICIT CLOSE, every path but iterm2 LINES (decided path by path: 2 sources × size check ×
    6 branches × 32 data paths): a fault-free `format()` / `str()` / still `draw()` closes — by a
    `close()` call, not by the garbage collector — every image and file it opened -/
theorem explicit_close_nolines (src : Src) (sizeOk : Bool) (v : Variant) (p : RP) (hv : v.isLines = false)
    (hf : p.frame = false) :
    ((fmtOp src false sizeOk v p).run none (initW src)).w.openedAllClosed = true := by
  obtain ⟨a, b, c, d, e, g⟩ := p
  simp only at hf
  subst hf
  cases v <;> (try (simp [Variant.isLines] at hv)) <;>
    cases src <;> cases sizeOk <;> cases a <;> cases c <;> cases d <;> cases e <;> cases g <;> decide

theorem run_seq4 (X G C L : Prog) (f : Option Nat) (w : World) :
    (Prog.seq X (Prog.seq G (Prog.seq C L))).run f w = (Prog.seq (Prog.seq X (Prog.seq G C)) L).run f w := by
  simp only [Prog.run]
  cases hx : (X.run f w).exc with
  | some e => simp [hx]
  | none =>
    simp only [hx]
    cases hg : (G.run (X.run f w).f (X.run f w).w).exc with
    | some e => simp [hg]
    | none => simp [hg]

theorem run_seq_def (p q : Prog) (f : Option Nat) (w : World) :
    (Prog.seq p q).run f w =
      match (p.run f w).exc with
      | some e => ⟨(p.run f w).w, (p.run f w).f, some e⟩
      | none => q.run (p.run f w).f (p.run f w).w := by
  simp only [Prog.run]
  cases (p.run f w).exc <;> rfl

/-- EXPLICIT CLOSE, all paths -/
theorem explicit_close_all (src : Src) (sizeOk : Bool) (v : Variant) (p : RP) (hf : p.frame = false) :
    ((fmtOp src false sizeOk v p).run none (initW src)).w.openedAllClosed = true := by
  cases v with
  | itermLines rows =>
    have hk := explicit_close_nolines src sizeOk .kitty p rfl hf
    have hrs : ∀ w : World, (Act.restoreSize.apply w).openedAllClosed = w.openedAllClosed :=
      fun w => oac_handles _ _ (by simp only [Act.apply]; split <;> rfl)
    simp only [fmtOp] at hk ⊢
    rw [renderer_outcome] at hk ⊢
    simp only [renderImage] at hk ⊢
    rw [hrs] at hk ⊢
    rw [run_seq4, run_seq_def]
    generalize (Prog.seq (if sizeOk then Prog.done else Prog.raise .sizeError)
      (Prog.seq (getImage src false .img) (rawPixelsCore p))).run none
        (Act.setSizeTemp.apply (Act.saveSize.apply (initW src))) = o at hk ⊢
    split
    · exact hk
    · exact linesLoop_oac rows _ _ hk
  | block => exact explicit_close_nolines src sizeOk _ p rfl hf
  | kitty => exact explicit_close_nolines src sizeOk _ p rfl hf
  | itermWhole => exact explicit_close_nolines src sizeOk _ p rfl hf
  | itermNativeFile => exact explicit_close_nolines src sizeOk _ p rfl hf
  | itermNativeSave => exact explicit_close_nolines src sizeOk _ p rfl hf
  | itermReadFile => exact explicit_close_nolines src sizeOk _ p rfl hf

/-! ### the caller's PIL image -/

/-- `s` is the caller's image, it exists, it is a `source`, and nobody has closed it -/
def SrcOK (s : Nat) (w : World) : Prop :=
  w.source = some s ∧ s < w.handles.length ∧ (w.handles[s]?).map (·.role) = some .source ∧ w.isClosed s = false

theorem srcOK_emit (s w e) (h : SrcOK s w) : SrcOK s (w.emit e) := h
theorem srcOK_setReg (s w r v) (h : SrcOK s w) : SrcOK s (w.setReg r v) := h

theorem srcOK_alloc (s w r st) (h : SrcOK s w) : SrcOK s (w.alloc r st).1 := by
  obtain ⟨h1, h2, h3, h4⟩ := h
  refine ⟨h1, ?_, ?_, ?_⟩
  · simp [World.alloc]; omega
  · simp only [World.alloc]; rw [List.getElem?_append_left h2]; exact h3
  · simp only [World.alloc, World.isClosed] at h4 ⊢; rw [List.getElem?_append_left h2]; exact h4

theorem srcOK_closeH (s w i) (hi : i ≠ s) (h : SrcOK s w) : SrcOK s (w.closeH i) := by
  obtain ⟨h1, h2, h3, h4⟩ := h
  refine ⟨h1, ?_, ?_, ?_⟩
  · simpa [World.closeH] using h2
  · simp only [World.closeH]; rw [List.getElem?_modify]; simp only [hi, if_false]; simpa using h3
  · simp only [World.closeH, World.isClosed] at h4 ⊢; rw [List.getElem?_modify]; simp only [hi, if_false]; simpa using h4

theorem srcOK_closeImageH (s w o) (h : SrcOK s w) : SrcOK s (closeImageH w o) := by
  unfold closeImageH
  split
  · exact h
  · rename_i i
    split
    · exact h
    · rename_i hne
      exact srcOK_closeH s w i (by intro he; subst he; exact hne h.1) h

theorem srcOK_noteUse (s w c o) (h : SrcOK s w) : SrcOK s (noteUse w c o) := by
  unfold noteUse
  split
  · split
    · exact srcOK_emit _ _ _ h
    · exact h
  · exact h

theorem srcOK_field (s : Nat) (w w' : World) (h : SrcOK s w) (hh : w'.handles = w.handles) (hs : w'.source = w.source) :
    SrcOK s w' := by
  unfold SrcOK World.isClosed at *
  rw [hh, hs]; exact h

theorem srcOK_act (s : Nat) (a : Act) (w : World) (h : SrcOK s w) : SrcOK s (a.apply w) := by
  cases a <;> simp only [Act.apply]
  case create => exact srcOK_emit _ _ _ (srcOK_setReg _ _ _ _ (srcOK_alloc _ _ _ _ h))
  case derive => exact srcOK_emit _ _ _ (srcOK_setReg _ _ _ _ (srcOK_alloc _ _ _ _ (srcOK_noteUse _ _ _ _ h)))
  case pil => exact srcOK_emit _ _ _ (srcOK_noteUse _ _ _ _ h)
  case useSource => exact h
  case mov => exact h
  case clear => exact h
  case closeImage => exact srcOK_closeImageH _ _ _ h
  case closeUnless => split; exact h; exact srcOK_closeImageH _ _ _ h
  case rawOpen => exact srcOK_setReg _ _ _ _ (srcOK_alloc _ _ _ _ h)
  case rawClose =>
    split
    · rename_i i _
      split
      · rename_i hr
        refine srcOK_closeH s w i ?_ h
        intro he; subst he
        rw [h.2.2.1] at hr; simp at hr
      · exact h
    · exact h
  case saveSize => exact srcOK_field s w _ h rfl rfl
  case setSizeTemp => split <;> first | exact h | exact srcOK_field s w _ h rfl rfl
  case restoreSize => split <;> first | exact h | exact srcOK_field s w _ h rfl rfl
  case saveSeek => exact srcOK_field s w _ h rfl rfl
  case setSeek => exact srcOK_field s w _ h rfl rfl
  case restoreSeek => exact srcOK_field s w _ h rfl rfl
  case hold => exact srcOK_field s w _ h rfl rfl
  case iterClose =>
    split
    · exact srcOK_setReg _ _ _ _ h
    · exact srcOK_field s _ _ (srcOK_closeImageH _ _ _ (srcOK_setReg _ _ _ _ h)) rfl rfl
  case imageClose => split; exact h; exact srcOK_field s w _ h rfl rfl
  case mkTemp => exact srcOK_field s w _ h rfl rfl
  case iterDrop =>
    split
    · exact srcOK_setReg _ _ _ _ h
    · exact srcOK_field s _ _ (srcOK_closeImageH _ _ _ (srcOK_setReg _ _ _ _ h)) rfl rfl

/-- no program whatsoever closes the caller's image -/
theorem srcOK_run (s : Nat) (p : Prog) : ∀ (f : Option Nat) (w : World), SrcOK s w → SrcOK s (p.run f w).w := by
  induction p with
  | done => intro f w h; exact h
  | act a =>
    intro f w h
    simp only [Prog.run]
    split
    · exact srcOK_emit _ _ _ h
    · exact srcOK_act s a w h
    · exact srcOK_act s a w h
  | seq p q ihp ihq =>
    intro f w h
    simp only [Prog.run]
    split
    · exact ihp f w h
    · exact ihq _ _ (ihp f w h)
  | tryFinally b fin ihb ihf => intro f w h; simp only [Prog.run]; exact ihf _ _ (ihb f w h)
  | tryExcept b hd x ihb ihh =>
    intro f w h
    simp only [Prog.run]
    split
    · exact ihb f w h
    · exact ihb f w h
    · exact ihh _ _ (ihb f w h)
  | nextGuard b ih =>
    intro f w h
    simp only [Prog.run]
    split
    · exact ih f w h
    · exact ih f w h
    · exact ih f w h
    · exact srcOK_act s .iterClose _ (ih f w h)
    · exact srcOK_act s .iterClose _ (ih f w h)
  | raise e => intro f w h; exact h
  | withNew c r t b ih =>
    intro f w h
    simp only [Prog.run]
    split
    · exact srcOK_emit _ _ _ h
    · refine srcOK_closeH s _ _ ?_ (ih _ _ (srcOK_emit _ _ _ (srcOK_setReg _ _ _ _ (srcOK_alloc _ _ _ _ h))))
      have := h.2.1
      simp only [World.alloc]; omega

end TIV.C11
