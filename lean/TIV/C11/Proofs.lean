import TIV.C11.IIterProofs
import TIV.C11.Res
/-! helper lemmas of C11 (iterator refinement: `IIterProofs`; effect programs: here) -/
namespace TIV.C11
open Prog

/-! ## projections of the world that a program leaves alone -/

/-- `π` is not affected by the bookkeeping `run` itself does -/
structure Stable {β : Type} (π : World → β) : Prop where
  emit : ∀ w e, π (w.emit e) = π w
  alloc : ∀ w r s, π (w.alloc r s).1 = π w
  closeH : ∀ w i, π (w.closeH i) = π w

/-- every action of the program satisfies `P` -/
def Prog.All (P : Act → Prop) (Q : Reg → Prop) : Prog → Prop
  | .done => True
  | .act a => P a
  | .seq p q => p.All P Q ∧ q.All P Q
  | .tryFinally b fin => b.All P Q ∧ fin.All P Q
  | .tryExcept b h _ => b.All P Q ∧ h.All P Q
  | .raise _ => True
  | .withNew _ _ t b => Q t ∧ b.All P Q

/-- `p` leaves `π` as it found it, whatever the fault plan -/
def Neutral {β : Type} (π : World → β) (p : Prog) : Prop := ∀ f w, π (p.run f w).w = π w

theorem neutral_done {β} (π : World → β) : Neutral π .done := fun _ _ => rfl
theorem neutral_raise {β} (π : World → β) (e) : Neutral π (.raise e) := fun _ _ => rfl

theorem neutral_act {β} (π : World → β) (hs : Stable π) (a : Act) (ha : ∀ w, π (a.apply w) = π w) :
    Neutral π (.act a) := by
  intro f w
  simp only [Prog.run]
  split
  · exact hs.emit _ _
  · exact ha w
  · exact ha w

theorem neutral_seq {β} (π : World → β) (p q) (hp : Neutral π p) (hq : Neutral π q) : Neutral π (.seq p q) := by
  intro f w
  simp only [Prog.run]
  split
  · exact hp f w
  · rw [hq, hp]

theorem neutral_tryFinally {β} (π : World → β) (p q) (hp : Neutral π p) (hq : Neutral π q) :
    Neutral π (.tryFinally p q) := by
  intro f w
  simp only [Prog.run]
  rw [hq, hp]

theorem neutral_tryExcept {β} (π : World → β) (p q x) (hp : Neutral π p) (hq : Neutral π q) :
    Neutral π (.tryExcept p q x) := by
  intro f w
  simp only [Prog.run]
  split
  · exact hp f w
  · show π (q.run _ _).w = π w
    rw [hq, hp]

theorem neutral_withNew {β} (π : World → β) (hs : Stable π) (c r t b)
    (hset : ∀ w v, π (w.setReg t v) = π w) (hb : Neutral π b) :
    Neutral π (.withNew c r t b) := by
  intro f w
  simp only [Prog.run]
  split
  · exact hs.emit _ _
  · rw [hs.closeH, hb _ _, hs.emit, hset]
    exact hs.alloc w r 0

theorem neutral_block {β} (π : World → β) (ps : List Prog) (h : ∀ p ∈ ps, Neutral π p) :
    Neutral π (Prog.block ps) := by
  induction ps with
  | nil => exact neutral_done π
  | cons p ps ih =>
    cases ps with
    | nil => simpa [Prog.block] using h p (by simp)
    | cons q qs =>
      simp only [Prog.block]
      exact neutral_seq π _ _ (h p (by simp)) (ih (fun x hx => h x (by simp [hx])))

/-- a program all of whose actions leave `π` alone leaves `π` alone -/
theorem neutral_of_all {β} (π : World → β) (hs : Stable π) (P : Act → Prop) (Q : Reg → Prop)
    (hP : ∀ a, P a → ∀ w, π (a.apply w) = π w) (hQ : ∀ t, Q t → ∀ w v, π (w.setReg t v) = π w)
    (p : Prog) (h : p.All P Q) : Neutral π p := by
  induction p with
  | done => exact neutral_done π
  | act a => exact neutral_act π hs a (hP a h)
  | seq p q ihp ihq => exact neutral_seq π p q (ihp h.1) (ihq h.2)
  | tryFinally b fin ihb ihf => exact neutral_tryFinally π b fin (ihb h.1) (ihf h.2)
  | tryExcept b hd x ihb ihh => exact neutral_tryExcept π b hd x (ihb h.1) (ihh h.2)
  | raise e => exact neutral_raise π e
  | withNew c r t b ih => exact neutral_withNew π hs c r t b (hQ t h.1) (ih h.2)

/-- an action that is not a Pillow call always runs and never raises -/
theorem run_act_nocall (a : Act) (h : a.call? = none) (f : Option Nat) (w : World) :
    (Prog.act a).run f w = ⟨a.apply w, f, none⟩ := by
  simp only [Prog.run, h]

/-! ### the size setting -/
def πSize (w : World) : SizeSetting × List SizeSetting := (w.size, w.savedSize)

theorem stable_size : Stable πSize := ⟨fun _ _ => rfl, fun _ _ _ => rfl, fun _ _ => rfl⟩

/-- actions other than the three `_renderer` uses do not touch the size setting -/
def Act.noSize : Act → Prop
  | .saveSize | .setSizeTemp | .restoreSize => False
  | _ => True

theorem πSize_closeImageH (w : World) (h : Option Nat) : πSize (closeImageH w h) = πSize w := by
  unfold closeImageH
  split
  · rfl
  · split <;> rfl

theorem πSize_noteUse (w : World) (c : Call) (h : Option Nat) : πSize (noteUse w c h) = πSize w := by
  unfold noteUse
  split
  · split <;> rfl
  · rfl

theorem noSize_preserves (a : Act) (h : a.noSize) (w : World) : πSize (a.apply w) = πSize w := by
  cases a <;> simp only [Act.noSize] at h <;> simp only [Act.apply]
  case create => rfl
  case derive => exact πSize_noteUse w _ _
  case pil => exact πSize_noteUse w _ _
  case useSource => rfl
  case mov => rfl
  case clear => rfl
  case closeImage => exact πSize_closeImageH _ _
  case closeUnless => split; rfl; exact πSize_closeImageH _ _
  case rawOpen => rfl
  case rawClose => split; (split <;> rfl); rfl
  case saveSeek => rfl
  case setSeek => rfl
  case restoreSeek => rfl
  case hold => rfl
  case iterClose =>
    split
    · rfl
    · show πSize (closeImageH _ _) = _; rw [πSize_closeImageH]; rfl
  case imageClose => split <;> rfl
  case mkTemp => rfl
  case iterDrop =>
    split
    · rfl
    · show πSize (closeImageH _ _) = _; rw [πSize_closeImageH]; rfl

theorem renderer_run (sizeOk : Bool) (body : Prog) (f : Option Nat) (w : World) :
    ((renderer sizeOk body).run f w).w =
      Act.restoreSize.apply ((Prog.seq (if sizeOk then Prog.done else Prog.raise .sizeError) body).run f
        (Act.setSizeTemp.apply (Act.saveSize.apply w))).w := by
  simp only [renderer, Prog.block, Prog.run, Act.call?]

theorem renderer_neutral_size (sizeOk : Bool) (body : Prog) (hb : Neutral πSize body) :
    Neutral πSize (renderer sizeOk body) := by
  intro f w
  have hX : Neutral πSize (if sizeOk then Prog.done else Prog.raise .sizeError) := by
    split
    · exact neutral_done _
    · exact neutral_raise _ _
  have hinner : Neutral πSize (Prog.seq (if sizeOk then Prog.done else Prog.raise .sizeError) body) :=
    neutral_seq _ _ _ hX hb
  rw [renderer_run]
  have h2 := hinner f (Act.setSizeTemp.apply (Act.saveSize.apply w))
  generalize (Prog.seq (if sizeOk then Prog.done else Prog.raise .sizeError) body).run f
    (Act.setSizeTemp.apply (Act.saveSize.apply w)) = o at h2 ⊢
  simp only [πSize, Act.apply, Prod.mk.injEq] at h2 ⊢
  obtain ⟨hsz, hsv⟩ := h2
  cases hw : w.size with
  | fixed j => simp only [hw] at hsz hsv; simp [hsv, hsz]
  | dynamic j => simp only [hw] at hsz hsv; simp [hsv]

/-! ### what an iterator holds -/

/-- nothing is referenced through the iterator any more -/
def Released (w : World) : Prop := w.held = none ∧ w.reg .gen = none

theorem closeImageH_regs (w : World) (o : Option Nat) : (closeImageH w o).regs = w.regs := by
  unfold closeImageH
  split
  · rfl
  · split <;> rfl

theorem released_iterClose (w : World) : Released (Act.iterClose.apply w) := by
  simp only [Act.apply]
  split
  · rename_i h; exact ⟨h, by simp [World.reg, World.setReg]⟩
  · refine ⟨rfl, ?_⟩
    simp only [World.reg, closeImageH_regs]
    simp [World.setReg]

theorem released_iterDrop (w : World) : Released (Act.iterDrop.apply w) := by
  simp only [Act.apply]
  split
  · rename_i h; exact ⟨h, by simp [World.reg, World.setReg]⟩
  · refine ⟨rfl, ?_⟩
    simp only [World.reg, closeImageH_regs]
    simp [World.setReg]

/-- `__next__`: if anything at all goes wrong while producing a frame, the iterator lets go -/
theorem iterNext_failure_releases (first : Bool) (body : Prog) (f : Option Nat) (w : World)
    (h : ((iterNext first body).run f w).exc ≠ none) : Released ((iterNext first body).run f w).w := by
  simp only [iterNext, Prog.run] at h ⊢
  split at h
  · rename_i he; rw [he] at h; exact absurd rfl h
  · rename_i e he
    simp only [he, Act.call?]
    exact released_iterClose _

theorem iterFrames_failure_releases (v : Variant) (frames : List RP) :
    ∀ (n : Nat) (first : Bool) (f : Option Nat) (w : World),
      ((iterFrames v n first frames).run f w).exc ≠ none → Released ((iterFrames v n first frames).run f w).w := by
  induction frames with
  | nil => intro n first f w h; simp [iterFrames, Prog.run] at h
  | cons p ps ih =>
    intro n first f w h
    simp only [iterFrames, Prog.run] at h ⊢
    split
    · rename_i e he
      exact iterNext_failure_releases first _ f w (by rw [he]; simp)
    · rename_i he
      simp only [he] at h
      exact ih _ _ _ _ h

/-- the way an iteration ends -/
def endingProg (src : Src) (nFrames : Nat) (noFrames : Bool) : Ending → Prog
  | .exhaust => Prog.block [iterNext noFrames (eofBody src nFrames), .act .iterClose]
  | .close => .act .iterClose
  | .drop => .act .iterDrop
  | .imgCloseThenClose => Prog.block [.act .imageClose, .act .iterClose]

theorem ending_releases (src : Src) (n : Nat) (b : Bool) (e : Ending) (f : Option Nat) (w : World) :
    Released ((endingProg src n b e).run f w).w := by
  cases e with
  | exhaust =>
    simp only [endingProg, Prog.block, Prog.run]
    split
    · rename_i e he
      exact iterNext_failure_releases b _ f w (by rw [he]; simp)
    · simp only [Act.call?]; exact released_iterClose _
  | close => simp only [endingProg, Prog.run, Act.call?]; exact released_iterClose _
  | drop => simp only [endingProg, Prog.run, Act.call?]; exact released_iterDrop _
  | imgCloseThenClose =>
    simp only [endingProg, Prog.block, Prog.run, Act.call?]
    exact released_iterClose _

theorem iterOp_eq (src : Src) (needN nProp : Bool) (v : Variant) (frames : List RP) (e : Ending) :
    iterOp src needN nProp v frames e =
      .seq (iterNew src needN nProp) (.seq (iterFrames v 0 true frames) (endingProg src frames.length frames.isEmpty e)) := by
  cases e <;> rfl

/-! ### the caller's PIL image -/

/-- `s` is the caller's image, it exists, it is a `source`, and nobody has closed it -/
def SrcOK (s : Nat) (w : World) : Prop :=
  w.source = some s ∧ s < w.handles.length ∧ (w.handles[s]?).map (·.role) = some .source ∧ w.isClosed s = false

theorem srcOK_emit (s w e) (h : SrcOK s w) : SrcOK s (w.emit e) := h
theorem srcOK_setReg (s w r v) (h : SrcOK s w) : SrcOK s (w.setReg r v) := h

theorem srcOK_alloc (s w r st) (h : SrcOK s w) : SrcOK s (w.alloc r st).1 := by
  obtain ⟨h1, h2, h3, h4⟩ := h
  refine ⟨h1, ?_, ?_, ?_⟩
  · simp [World.alloc]; omega
  · simp only [World.alloc]; rw [List.getElem?_append_left h2]; exact h3
  · simp only [World.alloc, World.isClosed] at h4 ⊢; rw [List.getElem?_append_left h2]; exact h4

theorem srcOK_closeH (s w i) (hi : i ≠ s) (h : SrcOK s w) : SrcOK s (w.closeH i) := by
  obtain ⟨h1, h2, h3, h4⟩ := h
  refine ⟨h1, ?_, ?_, ?_⟩
  · simpa [World.closeH] using h2
  · simp only [World.closeH]; rw [List.getElem?_modify]; simp only [hi, if_false]; simpa using h3
  · simp only [World.closeH, World.isClosed] at h4 ⊢; rw [List.getElem?_modify]; simp only [hi, if_false]; simpa using h4

theorem srcOK_closeImageH (s w o) (h : SrcOK s w) : SrcOK s (closeImageH w o) := by
  unfold closeImageH
  split
  · exact h
  · rename_i i
    split
    · exact h
    · rename_i hne
      exact srcOK_closeH s w i (by intro he; subst he; exact hne h.1) h

theorem srcOK_noteUse (s w c o) (h : SrcOK s w) : SrcOK s (noteUse w c o) := by
  unfold noteUse
  split
  · split
    · exact srcOK_emit _ _ _ h
    · exact h
  · exact h

theorem srcOK_field (s : Nat) (w w' : World) (h : SrcOK s w) (hh : w'.handles = w.handles) (hs : w'.source = w.source) :
    SrcOK s w' := by
  unfold SrcOK World.isClosed at *
  rw [hh, hs]; exact h

theorem srcOK_act (s : Nat) (a : Act) (w : World) (h : SrcOK s w) : SrcOK s (a.apply w) := by
  cases a <;> simp only [Act.apply]
  case create => exact srcOK_emit _ _ _ (srcOK_setReg _ _ _ _ (srcOK_alloc _ _ _ _ h))
  case derive => exact srcOK_emit _ _ _ (srcOK_setReg _ _ _ _ (srcOK_alloc _ _ _ _ (srcOK_noteUse _ _ _ _ h)))
  case pil => exact srcOK_emit _ _ _ (srcOK_noteUse _ _ _ _ h)
  case useSource => exact h
  case mov => exact h
  case clear => exact h
  case closeImage => exact srcOK_closeImageH _ _ _ h
  case closeUnless => split; exact h; exact srcOK_closeImageH _ _ _ h
  case rawOpen => exact srcOK_setReg _ _ _ _ (srcOK_alloc _ _ _ _ h)
  case rawClose =>
    split
    · rename_i i _
      split
      · rename_i hr
        refine srcOK_closeH s w i ?_ h
        intro he; subst he
        rw [h.2.2.1] at hr; simp at hr
      · exact h
    · exact h
  case saveSize => exact srcOK_field s w _ h rfl rfl
  case setSizeTemp => split <;> first | exact h | exact srcOK_field s w _ h rfl rfl
  case restoreSize => split <;> first | exact h | exact srcOK_field s w _ h rfl rfl
  case saveSeek => exact srcOK_field s w _ h rfl rfl
  case setSeek => exact srcOK_field s w _ h rfl rfl
  case restoreSeek => exact srcOK_field s w _ h rfl rfl
  case hold => exact srcOK_field s w _ h rfl rfl
  case iterClose =>
    split
    · exact srcOK_setReg _ _ _ _ h
    · exact srcOK_field s _ _ (srcOK_closeImageH _ _ _ (srcOK_setReg _ _ _ _ h)) rfl rfl
  case imageClose => split; exact h; exact srcOK_field s w _ h rfl rfl
  case mkTemp => exact srcOK_field s w _ h rfl rfl
  case iterDrop =>
    split
    · exact srcOK_setReg _ _ _ _ h
    · exact srcOK_field s _ _ (srcOK_closeImageH _ _ _ (srcOK_setReg _ _ _ _ h)) rfl rfl

/-- no program whatsoever closes the caller's image -/
theorem srcOK_run (s : Nat) (p : Prog) : ∀ (f : Option Nat) (w : World), SrcOK s w → SrcOK s (p.run f w).w := by
  induction p with
  | done => intro f w h; exact h
  | act a =>
    intro f w h
    simp only [Prog.run]
    split
    · exact srcOK_emit _ _ _ h
    · exact srcOK_act s a w h
    · exact srcOK_act s a w h
  | seq p q ihp ihq =>
    intro f w h
    simp only [Prog.run]
    split
    · exact ihp f w h
    · exact ihq _ _ (ihp f w h)
  | tryFinally b fin ihb ihf => intro f w h; simp only [Prog.run]; exact ihf _ _ (ihb f w h)
  | tryExcept b hd x ihb ihh =>
    intro f w h
    simp only [Prog.run]
    split
    · exact ihb f w h
    · exact ihh _ _ (ihb f w h)
  | raise e => intro f w h; exact h
  | withNew c r t b ih =>
    intro f w h
    simp only [Prog.run]
    split
    · exact srcOK_emit _ _ _ h
    · refine srcOK_closeH s _ _ ?_ (ih _ _ (srcOK_emit _ _ _ (srcOK_setReg _ _ _ _ (srcOK_alloc _ _ _ _ h))))
      have := h.2.1
      simp only [World.alloc]; omega

end TIV.C11
